(* C02/Props.v — property-level theorems only. Tags [FULL]/[PARTIAL]/[REFUTED] are read by bin/check.
   The model is Raft/Core.v (every handler of pkg/raft/raft transcribed, each log.Fatalf an explicit outcome), tied to the
   Go code on every run by the correspondence of Raft/Wire.v.run_case with the real `core` objects. *)

(* INDEX for a reader.  The property has four clauses; for each the STRONGEST theorem is the one over the combined alphabet cstep of
   Raft/MemberSnapSystemU.v (rounds 11-12): any number of nodes from initial states, every event of Core.run_event on any node
   with a crash after any durable mutation followed by newCore - deliveries of any message ever sent (InstallSnap included) in any
   order and multiplicity, ticks, proposals, AddNode, RemoveNode, SnapshotDone, restarts - under four side conditions:
   (i) one duplicate-free bootstrap membership, (ii) proposals carry no configuration entries, (iii) no node is asked to add
   itself, DROPPED in four_clauses_combined_unrestricted_self_add (round 15), (iv) SnapshotDone as fsm_loop.go
   issues it (applied position, its term, lastAppliedMembership).
     clause 1, election safety         election_safety_combined
     clause 2, leader completeness     leader_completeness_combined         (logical logs: covered prefix then physical log)
     clause 3, log matching            log_matching_combined                (logical logs)
     clause 4, state machine safety    state_machine_safety_combined
     witnesses                         combined_run_nonvacuous, state_machine_safety_combined_nonvacuous
   Special cases kept for their simpler alphabets and ghost-free statements:
     fixed membership, no snapshots (rounds 1-3)      election_safety, election_safety_fixed_membership, log_matching,
                                                      leader_completeness, state_machine_safety, committed_entry_never_truncated
     fixed membership WITH snapshots (round 5)        the theorems named with_snapshots
     membership changes WITHOUT snapshots (round 8)   the theorems named membership_change (physical logs, no ghost assignment)
   Node-level mechanisms and building blocks (term_monotone, vote_once_per_term, the step summaries, the passes named partial)
   are used by the proofs above and are kept because other properties import them.
   The leader-loop contract assumed by C03: leader_commits_own_suffix (round 3), with_snapshots (round 9),
   with_reconfiguration (round 13: AddNode, RemoveNode and SnapshotDone inside the loop).
   What is not proved is listed in the NOT YET PROVED block at the end of the file. *)
From Coq Require Import List NArith ZArith.
From BLB Require Import Lib.LTS Raft.Core Raft.Wire Raft.NodeElect Raft.NodeMono Raft.NodeLeader Raft.NodeConf Raft.Election Raft.ElectionFixed Raft.ElectionExample Raft.Mechanisms C02.Proofs.
From BLB Require Import Raft.LogMatchLists Raft.LogMatchNode Raft.LogMatch Raft.Completeness Raft.LogMatchExample Raft.SMSafetyNode Raft.SMSafety Raft.SMSafetyExample Raft.LeaderSuffix Raft.LeaderSuffixExample Raft.CompletenessAck Raft.CompletenessVote Raft.CompletenessExample Raft.SMSafetyBound Raft.CompletenessCommit Raft.CommitExample.
From BLB Require Import Raft.Snapshots Raft.SnapCommit Raft.SnapSys Raft.SnapshotExample Raft.MembershipQuorum Raft.MembershipElection Raft.MembershipExample Raft.SnapContig Raft.SnapContigMsgs Raft.SnapContigSys.
From BLB Require Import Raft.LogMatchNodeS Raft.SnapVirtual Raft.SnapEvents Raft.SnapIndexPos Raft.SnapSystem Raft.SnapSystemExample.
Import ListNotations.
Open Scope N_scope.

(* [PARTIAL] building block: the durable term is written by no storage mutation other than SaveState *)
Theorem term_written_only_by_save_state :
  forall p m, p_term (apply_mut p m) <> p_term p -> exists v t, m = MSaveState v t.
Proof. exact C02.Proofs.term_written_only_by_save_state. Qed.
Print Assumptions term_written_only_by_save_state.

(* [FULL] invariant E1 of election safety, for every node state whatsoever, every event (delivery of any message, tick,
   proposal, reconfiguration request, snapshot, restart) and every crash point k inside the event followed by
   restart: the durable term never decreases *)
Theorem term_monotone :
  forall s ev k crashed st s',
    run_event_crash s ev k = Ret (crashed, st, s') -> p_term (n_p s) <= p_term (n_p s').
Proof. exact term_monotone_lemma. Qed.
Print Assumptions term_monotone.

(* [FULL] invariant E2, vote once per term with persistence across Restart and across a crash at any durable mutation:
   while the term stays the same a vote that has been cast is never changed or forgotten *)
Theorem vote_once_per_term :
  forall s ev k crashed st s',
    run_event_crash s ev k = Ret (crashed, st, s') ->
    p_term (n_p s') = p_term (n_p s) -> p_vote (n_p s) <> 0 -> p_vote (n_p s') = p_vote (n_p s).
Proof. exact vote_once_per_term_lemma. Qed.
Print Assumptions vote_once_per_term.

(* [FULL] clause 1, election safety for a fixed membership of any size: in every run of the system of Raft/Election.v - any number of
   nodes with distinct non-empty ids, any interleaving of the events of Core.run_event on any node (bootstrap, delivery of
   any message ever sent to any node any number of times or never, ticks, proposals, snapshots, restarts), each event
   with or without a crash right after any of its durable mutations followed by newCore - in which every configuration a
   node holds has as many members as there are nodes, two nodes recorded as leader of the same term are the same node *)
Theorem election_safety :
  forall (σ0 σ : sys) (sched : list sys_event),
    sinit (quorum_of (map n_id (sy_nodes σ0))) σ0 ->
    run sys sys_event (sstep (quorum_of (map n_id (sy_nodes σ0)))) σ0 sched σ ->
    forall t a b, In (t, a) (sy_hist σ) -> In (t, b) (sy_hist σ) -> a = b.
Proof. exact election_safety_sys. Qed.
Print Assumptions election_safety.

(* [FULL] clause 1 with the fixed-membership condition on the schedule only: no AddNode or RemoveNode events, bootstraps propose as
   many members as there are nodes, proposals and snapshot metadata carry no other configuration; all nodes start as
   followers whose logs hold no other configuration. Under every such schedule - deliveries of any message ever sent to
   any node in any order and multiplicity, ticks, proposals, snapshots, restarts, crashes after any durable mutation -
   two nodes recorded as leader of the same term are the same node *)
Theorem election_safety_fixed_membership :
  forall (σ0 σ : sys) (sched : list sys_event),
    sinit2 σ0 ->
    run sys sys_event (sstep2 (length (sy_nodes σ0))) σ0 sched σ ->
    forall t a b, In (t, a) (sy_hist σ) -> In (t, b) (sy_hist σ) -> a = b.
Proof. exact Raft.ElectionFixed.election_safety_fixed_membership. Qed.
Print Assumptions election_safety_fixed_membership.

(* [FULL] non-vacuity of election_safety_fixed_membership: the concrete run below also satisfies the schedule-level hypotheses *)
Theorem election_fixed_nonvacuous :
  exists σ0 sched σ t a,
    sinit2 σ0 /\ run sys sys_event (sstep2 (length (sy_nodes σ0))) σ0 sched σ /\ In (t, a) (sy_hist σ).
Proof. exact Raft.ElectionExample.election_fixed_nonvacuous. Qed.
Print Assumptions election_fixed_nonvacuous.

(* [FULL] non-vacuity of election_safety: a concrete run (bootstrap, time-out, self-election, restart, a tick that crashes after
   its second durable mutation) satisfies every hypothesis and records a leader *)
Theorem election_safety_nonvacuous :
  exists σ0 sched σ t a,
    sinit (quorum_of (map n_id (sy_nodes σ0))) σ0 /\
    run sys sys_event (sstep (quorum_of (map n_id (sy_nodes σ0)))) σ0 sched σ /\
    In (t, a) (sy_hist σ) /\ length sched = 5%nat.
Proof. exact Raft.ElectionExample.election_safety_nonvacuous. Qed.
Print Assumptions election_safety_nonvacuous.

(* [FULL] invariants E3/E4 at node level, for every settled node state and every event: every message that leaves a handler
   carries the durable term and the sender's id, and a granted vote leaves only with exactly that vote durable *)
Theorem messages_follow_durable_state :
  forall s ev st s', n_msgs s = [] -> run_event s ev = Ret (st, s') -> msgs_ok s'.
Proof. exact messages_follow_durable_state_lemma. Qed.
Print Assumptions messages_follow_durable_state.

(* [FULL] commit_monotone, for every node state and every event other than Restart: the commit index never decreases *)
Theorem commit_monotone :
  forall s ev st s', ev <> ERestart -> run_event s ev = Ret (st, s') -> n_commit s <= n_commit s'.
Proof. exact commit_monotone_lemma. Qed.
Print Assumptions commit_monotone.

(* [FULL] leader_appends_only and match_index_monotone, for every node that is leader and every event after which it is still in the
   same term (delivery of any message, tick, proposal, snapshot, AddNode of a node that is not yet a peer): the new log is
   the old log minus a compacted prefix plus appended entries, so a leader never truncates or overwrites an entry of its
   own log, and the matchIndex of every peer that was in the table is still there and has not decreased *)
Theorem leader_appends_only_and_match_index_monotone :
  forall s ev st s',
    n_role s = Leader -> p_term (n_p s') = p_term (n_p s) ->
    match ev with
    | ERestart | ERemoveNode _ => False
    | EAddNode m _ => peer_get m (l_peers s) = None
    | _ => True
    end ->
    run_event s ev = Ret (st, s') ->
    log_ext (p_log (n_p s)) (p_log (n_p s')) /\ peers_mono (l_peers s) (l_peers s').
Proof. exact leader_step. Qed.
Print Assumptions leader_appends_only_and_match_index_monotone.

(* [PARTIAL] mechanism 1 of clause 3, canGrantVote: a vote is granted only if the voter has not voted for another candidate in this term
   and the candidate's last log term and index are at least the voter's *)
Theorem vote_granted_only_to_up_to_date_candidate :
  forall s from li lt, can_grant_vote s from li lt = Ret true ->
    (p_vote (n_p s) = 0 \/ p_vote (n_p s) = from) /\
    exists vt, st_term (n_p s) (last_index (n_p s)) = Ret (vt, true) /\
               (vt < lt \/ (lt = vt /\ last_index (n_p s) <= li)).
Proof. exact grant_implies_up_to_date. Qed.
Print Assumptions vote_granted_only_to_up_to_date_candidate.

(* [PARTIAL] mechanism 2 of clause 3, maybeCommit: whatever the match indices, the leader does not advance its commit index to an entry
   whose term is not the current term, the Figure 8 guard *)
Theorem leader_never_commits_earlier_term_by_counting :
  forall s mi t, find_majority_index s = Ret mi -> n_commit s < mi ->
    st_term (n_p s) mi = Ret (t, true) -> t <> p_term (n_p s) -> leader_maybe_commit s = Ret s.
Proof. exact Raft.Mechanisms.leader_never_commits_earlier_term_by_counting. Qed.
Print Assumptions leader_never_commits_earlier_term_by_counting.

(* [PARTIAL] mechanism 3 of clause 2, consistency check: an AppEnts whose previous index and term are in neither log nor snapshot is
   answered with a rejection and leaves log, snapshot, term, vote and commit index untouched *)
Theorem consistency_check_rejects :
  forall s from pi pt cm oes, has_entry (n_p s) pi pt = Ret false ->
    exists s', handle_app_ents s from pi pt cm oes = Ret s' /\ n_p s' = n_p s /\ n_commit s' = n_commit s /\
      exists hint, n_msgs s' = n_msgs s ++ [{| m_term := p_term (n_p s); m_from := n_id s; m_to := from;
                                              m_fromg := 0; m_tog := 0; m_epoch := 0;
                                              m_body := AppEntsResp false pi hint |}].
Proof. exact Raft.Mechanisms.consistency_check_rejects. Qed.
Print Assumptions consistency_check_rejects.

(* [PARTIAL] mechanism 4, membership change: a reconfiguration request before an entry of the current term is committed hits the sanity
   Fatalf, both for add and remove *)
Theorem reconfig_needs_committed_current_term :
  forall s member rnd t, st_term (n_p s) (n_commit s) = Ret (t, true) -> t <> p_term (n_p s) ->
    leader_add_node s member rnd = Fatal F_RECONF_BEFORE_NOP /\ leader_remove_node s member = Fatal F_RECONF_BEFORE_NOP.
Proof. exact Raft.Mechanisms.reconfig_needs_committed_current_term. Qed.
Print Assumptions reconfig_needs_committed_current_term.

(* [PARTIAL] mechanism 5, HandleMsg: a message with a stale term is never answered and changes nothing but possibly the GUID table *)
Theorem stale_term_ignored :
  forall s m s', m_term m < p_term (n_p s) -> handle_msg s m = Ret s' ->
    n_msgs s' = n_msgs s /\ n_role s' = n_role s /\ n_commit s' = n_commit s /\
    p_term (n_p s') = p_term (n_p s) /\ p_vote (n_p s') = p_vote (n_p s) /\ p_log (n_p s') = p_log (n_p s) /\
    p_snap (n_p s') = p_snap (n_p s).
Proof. exact Raft.Mechanisms.stale_term_ignored. Qed.
Print Assumptions stale_term_ignored.

(* [FULL] clause 2, log matching, for fixed membership and schedules without snapshot and log trim. System of Raft/Election.v, all
   nodes start with empty log, no snapshot and no configuration (linit). Restricted alphabet lstep n bm be = the events of
   sstep2 (any interleaving of deliveries of any message ever sent to any node in any order and multiplicity, ticks,
   proposals that carry no configuration of another size, restarts, each with or without a crash right after any durable
   mutation followed by newCore; no AddNode or RemoveNode) minus SnapshotDone, every Bootstrap event carrying one and the
   same membership bm (as many members as nodes) and epoch be. In every reachable state, if the logs of two nodes hold
   entries with the same index and term, these sit at the same position and the two logs are identical up to and including
   that position *)
Theorem log_matching :
  forall (bm : list nid) (be : N) (σ0 σ : sys) (sched : list sys_event),
    linit σ0 ->
    run sys sys_event (lstep (length (sy_nodes σ0)) bm be) σ0 sched σ ->
    forall a b k k' e e',
      In a (sy_nodes σ) -> In b (sy_nodes σ) ->
      nth_error (p_log (n_p a)) k = Some e -> nth_error (p_log (n_p b)) k' = Some e' ->
      e_index e = e_index e' -> e_term e = e_term e' ->
      k = k' /\ firstn (S k) (p_log (n_p a)) = firstn (S k) (p_log (n_p b)).
Proof. exact Raft.LogMatch.log_matching_sys. Qed.
Print Assumptions log_matching.

(* [FULL] non-vacuity of log_matching: a concrete 11-step run of two nodes (bootstrap, time-out, election by a VoteReq and VoteResp
   exchange, a proposal, a rejected consistency check, the retry carrying both entries delivered with a crash right after
   the durable append, then a duplicate and a stale delivery) meets every hypothesis and ends with two different nodes
   holding the replicated entry of index 2 and term 2 *)
Theorem log_matching_nonvacuous :
  exists σ0 sched σ a b e,
    linit σ0 /\ run sys sys_event (lstep (length (sy_nodes σ0)) [1; 2] 5) σ0 sched σ /\
    In a (sy_nodes σ) /\ In b (sy_nodes σ) /\ n_id a <> n_id b /\
    nth_error (p_log (n_p a)) 1 = Some e /\ nth_error (p_log (n_p b)) 1 = Some e /\ e_index e = 2 /\ e_term e = 2 /\
    length sched = 11%nat.
Proof. exact Raft.LogMatchExample.log_matching_nonvacuous. Qed.
Print Assumptions log_matching_nonvacuous.

(* [PARTIAL] clause 3 building block, same system and restricted alphabet as log_matching: in every reachable state there is a set G of
   leader log records (term, leader, log) such that the records of one term are prefix-comparable (the leader of a term only
   ever appends, system-wide and across step-down, crash and restart), every record other than the bootstrap record
   belongs to a node recorded as leader of that term, every current leader's log is a record, every prefix of every log
   that ends in an entry of term t is the equally long prefix of a record of term t, every AppEnts ever sent is a
   contiguous slice of a record of its term preceded by a matching prevIndex and prevTerm, and no InstallSnapshot is ever sent *)
Theorem append_entries_are_leader_log_slices_partial :
  forall (bm : list nid) (be : N) (σ0 σ : sys) (sched : list sys_event),
    linit σ0 ->
    run sys sys_event (lstep (length (sy_nodes σ0)) bm be) σ0 sched σ ->
    exists G : list (N * nid * list entry),
      (forall t i l j l', In (t, i, l) G -> In (t, j, l') G -> pfx l l' \/ pfx l' l) /\
      (forall t i l, In (t, i, l) G -> i <> 0 -> In (t, i) (sy_hist σ)) /\
      (forall a, In a (sy_nodes σ) -> n_role a = Leader -> In (p_term (n_p a), n_id a, p_log (n_p a)) G) /\
      (forall a k e, In a (sy_nodes σ) -> nth_error (p_log (n_p a)) k = Some e ->
                     exists i l, In (e_term e, i, l) G /\ firstn (S k) (p_log (n_p a)) = firstn (S k) l) /\
      (forall m pi pt cm oe, In m (sy_soup σ) -> m_body m = AppEnts pi pt cm oe ->
                             exists i l, In (m_term m, i, l) G /\ slice l pi pt oe) /\
      (forall m li lt c, In m (sy_soup σ) -> m_body m <> InstallSnap li lt c).
Proof. exact Raft.Completeness.leader_log_records_sys. Qed.
Print Assumptions append_entries_are_leader_log_slices_partial.

(* [PARTIAL] clause 3, the acknowledging half of leader completeness, same system and restricted alphabet: whenever a step makes a node
   emit a successful AppEntsResp for index idx in term T, that node holds at that moment at least idx entries and its first
   idx entries are exactly the first idx entries of the log of the node that is leader with term T in the same state. Missing
   for leader_completeness: that this prefix survives until the acknowledger votes in a later term unless a leader of an
   intermediate term already lacks it, the up-to-date comparison of canGrantVote against the candidate log, and the
   intersection of the acknowledging quorum counted by maybeCommit with the voting quorum *)
Theorem leader_completeness_partial_ack_matches_leader_log :
  forall (bm : list nid) (be : N) (σ0 σ σ' : sys) (sched : list sys_event) (e : sys_event),
    linit σ0 ->
    run sys sys_event (lstep (length (sy_nodes σ0)) bm be) σ0 sched σ ->
    lstep (length (sy_nodes σ0)) bm be σ e σ' ->
    forall m idx hint,
      In m (sy_soup σ') -> ~ In m (sy_soup σ) -> m_body m = AppEntsResp true idx hint ->
      forall a b,
        In a (sy_nodes σ') -> n_id a = m_from m ->
        In b (sy_nodes σ') -> n_role b = Leader -> p_term (n_p b) = m_term m ->
        (N.to_nat idx <= length (p_log (n_p a)))%nat /\
        firstn (N.to_nat idx) (p_log (n_p a)) = firstn (N.to_nat idx) (p_log (n_p b)).
Proof. exact Raft.Completeness.ack_matches_leader_log_sys. Qed.
Print Assumptions leader_completeness_partial_ack_matches_leader_log.

(* [FULL] non-vacuity of leader_completeness_partial_ack_matches_leader_log: in the run of log_matching_nonvacuous the tenth step, a duplicate
   AppEnts delivered to node 2 after its crash and restart, emits a successful AppEntsResp for index 2 in term 2 while node 1
   is leader of term 2; all hypotheses of the theorem hold for two different nodes *)
Theorem ack_matches_leader_log_nonvacuous :
  exists σ0 sched σ e σ' m a b,
    linit σ0 /\ run sys sys_event (lstep (length (sy_nodes σ0)) [1; 2] 5) σ0 sched σ /\
    lstep (length (sy_nodes σ0)) [1; 2] 5 σ e σ' /\
    In m (sy_soup σ') /\ ~ In m (sy_soup σ) /\ m_body m = AppEntsResp true 2 0 /\
    In a (sy_nodes σ') /\ n_id a = m_from m /\ In b (sy_nodes σ') /\ n_role b = Leader /\ p_term (n_p b) = m_term m /\
    n_id a <> n_id b.
Proof. exact Raft.LogMatchExample.ack_nonvacuous. Qed.
Print Assumptions ack_matches_leader_log_nonvacuous.

(* [PARTIAL] clause 3 bookkeeping, same system and restricted alphabet: in every reachable state the terms of the entries of a log never
   exceed the holder's current term and never decrease along the log; used by the up-to-date argument of leader completeness *)
Theorem log_terms_bounded_and_monotone_partial :
  forall (bm : list nid) (be : N) (σ0 σ : sys) (sched : list sys_event),
    linit σ0 ->
    run sys sys_event (lstep (length (sy_nodes σ0)) bm be) σ0 sched σ ->
    forall a, In a (sy_nodes σ) ->
      (forall e, In e (p_log (n_p a)) -> e_term e <= p_term (n_p a)) /\
      (forall k1 k2 e1 e2, (k1 <= k2)%nat -> nth_error (p_log (n_p a)) k1 = Some e1 ->
                           nth_error (p_log (n_p a)) k2 = Some e2 -> e_term e1 <= e_term e2).
Proof. exact Raft.Completeness.log_terms_sys. Qed.
Print Assumptions log_terms_bounded_and_monotone_partial.

(* [PARTIAL] clause 4, state machine safety up to terms, same system and restricted alphabet as log_matching, nodes start with nothing
   handed to the state machine: at every moment of every run each entry a node hands to TakeNewlyCommitted is an entry of that
   node's own log at that moment, and two entries handed out by any two nodes at any two moments of the run, the second
   moment reached from the first by any further schedule, that have the same index and the same term are the same entry
   with the same type and payload. Missing for state_machine_safety: applied entries of equal index have equal terms, which
   is leader completeness plus the commit bookkeeping *)
Theorem state_machine_safety_partial_same_index_and_term :
  forall (bm : list nid) (be : N) (σ0 σ1 σ2 : sys) (sched1 sched2 : list sys_event),
    linit σ0 -> (forall s, In s (sy_nodes σ0) -> n_commits s = []) ->
    run sys sys_event (lstep (length (sy_nodes σ0)) bm be) σ0 sched1 σ1 ->
    run sys sys_event (lstep (length (sy_nodes σ0)) bm be) σ1 sched2 σ2 ->
    forall a b x y,
      In a (sy_nodes σ1) -> In b (sy_nodes σ2) -> In x (n_commits a) -> In y (n_commits b) ->
      (In x (p_log (n_p a)) /\ In y (p_log (n_p b))) /\
      (e_index x = e_index y -> e_term x = e_term y -> x = y).
Proof. exact Raft.SMSafety.applied_entries_agree_sys. Qed.
Print Assumptions state_machine_safety_partial_same_index_and_term.

(* [PARTIAL] clause 4 at node level, for every node state, every event other than SnapshotDone and the delivery of an InstallSnapshot, every
   crash point: the entries handed to the state machine by the event are entries of the log the node holds at the end of the event *)
Theorem applied_entries_come_from_own_log_partial :
  forall s ev k crashed st s',
    ev_applied_ok ev -> run_event_crash (settle s) ev k = Ret (crashed, st, s') ->
    forall x, In x (n_commits s') -> In x (p_log (n_p s')).
Proof. exact Raft.SMSafetyNode.applied_in_own_log. Qed.
Print Assumptions applied_entries_come_from_own_log_partial.

(* [FULL] non-vacuity of state_machine_safety_partial_same_index_and_term: the run of log_matching_nonvacuous continued by the delivery of the
   follower's acknowledgement, on which the leader commits and applies entries 1 and 2, and of the leader's next AppEnts with commit
   index 2, on which the follower applies them: two different nodes hand the entry of index 2 and term 2 to the state machine at
   two different moments *)
Theorem state_machine_safety_partial_nonvacuous :
  exists σ0 σ1 σ2 sched1 sched2 a b x,
    linit σ0 /\ (forall s, In s (sy_nodes σ0) -> n_commits s = []) /\
    run sys sys_event (lstep (length (sy_nodes σ0)) [1; 2] 5) σ0 sched1 σ1 /\
    run sys sys_event (lstep (length (sy_nodes σ0)) [1; 2] 5) σ1 sched2 σ2 /\
    In a (sy_nodes σ1) /\ In b (sy_nodes σ2) /\ n_id a <> n_id b /\
    In x (n_commits a) /\ In x (n_commits b) /\ e_index x = 2 /\ e_term x = 2.
Proof. exact Raft.SMSafetyExample.applied_entries_nonvacuous. Qed.
Print Assumptions state_machine_safety_partial_nonvacuous.

(* [FULL] leader_commits_own_suffix, the contract assumed by the leader loop of raft.go as modelled in C03 Layer.v under the name core_contract,
   node level over Raft Core.v: start state s0 is a leader without snapshot whose log is index-contiguous and whose commit
   index equals its last index, which is the moment the term's NOP has been applied; then any sequence of events Deliver of any
   message, Tick, Propose of any batch, Bootstrap, each completed without crash and leaving the node leader of the same term.
   With lp_prop the entries handed to core.Propose so far as stamped by the core and lp_comm the concatenation of what
   TakeNewlyCommitted returned so far: after every further event, lp_comm followed by the newly returned entries is a prefix
   of lp_prop including the batch proposed by that event. AddNode, RemoveNode, SnapshotDone and Restart are outside *)
Theorem leader_commits_own_suffix :
  forall s0 evs st1 ev st2,
    loop_start s0 -> loop_run {| lp_node := s0; lp_prop := []; lp_comm := [] |} evs st1 -> loop_step st1 ev st2 ->
    lp_comm st2 = lp_comm st1 ++ n_commits (lp_node st2) /\
    lp_prop st2 = lp_prop st1 ++ proposed_by (lp_node st1) ev /\
    Raft.LeaderSuffix.prefix (lp_comm st1 ++ n_commits (lp_node st2)) (lp_prop st2).
Proof. exact Raft.LeaderSuffix.leader_commits_own_suffix_stepwise. Qed.
Print Assumptions leader_commits_own_suffix.

(* [FULL] leader_commits_own_suffix as a loop invariant with the exact lists: the node stays leader of the same term, lp_prop is the log
   beyond the commit index of the loop start and lp_comm is the log segment between that commit index and the current one *)
Theorem leader_commits_own_suffix_invariant :
  forall s0 evs st,
    loop_start s0 -> loop_run {| lp_node := s0; lp_prop := []; lp_comm := [] |} evs st ->
    let c0 := n_commit s0 in
    let s := lp_node st in
    n_role s = Leader /\ p_term (n_p s) = p_term (n_p s0) /\ c0 <= n_commit s /\ n_commit s <= llen (n_p s) /\
    lp_prop st = skipn (N.to_nat c0) (p_log (n_p s)) /\
    lp_comm st = seg c0 (n_commit s) (p_log (n_p s)).
Proof. exact Raft.LeaderSuffix.leader_loop_invariant. Qed.
Print Assumptions leader_commits_own_suffix_invariant.

(* [FULL] leader_commits_own_suffix in terms of the commands given to core.Propose: type and payload of the committed entries are in order a
   prefix of type and payload of the proposed batches *)
Theorem leader_commits_own_suffix_commands :
  forall s0 evs st,
    loop_start s0 -> loop_run {| lp_node := s0; lp_prop := []; lp_comm := [] |} evs st ->
    Raft.LeaderSuffix.prefix (map cmd_of (lp_comm st)) (map cmd_of (batches evs)).
Proof. exact Raft.LeaderSuffix.leader_commits_own_suffix_cmds. Qed.
Print Assumptions leader_commits_own_suffix_commands.

(* [FULL] non-vacuity of leader_commits_own_suffix: the leader of the two-node run, everything committed, proposes one command, ticks and receives
   the acknowledgement of its follower; the committed list is the one-entry list equal to the proposed list *)
Theorem leader_commits_own_suffix_nonvacuous :
  exists s0 evs st,
    loop_start s0 /\ loop_run {| lp_node := s0; lp_prop := []; lp_comm := [] |} evs st /\
    lp_comm st = [{| e_term := 2; e_index := 3; e_type := EntryNormal; e_pl := [43%Z] |}] /\
    lp_prop st = lp_comm st /\ length evs = 3%nat.
Proof. exact Raft.LeaderSuffixExample.leader_suffix_nonvacuous. Qed.
Print Assumptions leader_commits_own_suffix_nonvacuous.

(* [FULL] clause 3, leader completeness for entries acknowledged by a quorum, which is the definition of committed in the Raft paper, same
   system and restricted alphabet as log_matching. Two moments of one run: at the first a node a is leader of term T, the
   entry at index mi of its log has term T, and a quorum Q of node ids has acknowledged index mi in term T, each v in Q
   being a itself or the sender of a successful AppEntsResp of term T for an index of at least mi that is in the soup.
   Then at every later moment every node b that is leader of a term greater than T holds exactly a's first mi entries.
   Proved by strong induction on the later term from three inductive invariants over ghost state, namely acknowledged
   prefixes survive at the acknowledger unless a leader record of an intermediate term lacks them, a granted vote puts
   the voter's acknowledged prefixes into the candidate's candidacy log unless such a record exists, using canGrantVote's
   test with log matching and term monotonicity, and every leader record is backed by a quorum of such grants *)
Theorem leader_completeness_quorum_acknowledged :
  forall (bm : list nid) (be : N) (σ0 σ1 σ2 : sys) (sched1 sched2 : list sys_event),
    linit σ0 ->
    run sys sys_event (lstep (length (sy_nodes σ0)) bm be) σ0 sched1 σ1 ->
    run sys sys_event (lstep (length (sy_nodes σ0)) bm be) σ1 sched2 σ2 ->
    forall a mi e,
      In a (sy_nodes σ1) -> n_role a = Leader ->
      nth_error (p_log (n_p a)) (mi - 1) = Some e -> e_term e = p_term (n_p a) -> (1 <= mi)%nat ->
      (exists Q, NoDup Q /\ quorum_of (map n_id (sy_nodes σ1)) <= N.of_nat (length Q) /\
                 forall v, In v Q ->
                   v = n_id a \/
                   exists m idx h, In m (sy_soup σ1) /\ m_from m = v /\ m_term m = p_term (n_p a) /\
                                   m_body m = AppEntsResp true idx h /\ (mi <= N.to_nat idx)%nat) ->
      forall b, In b (sy_nodes σ2) -> n_role b = Leader -> p_term (n_p a) < p_term (n_p b) ->
        firstn mi (p_log (n_p b)) = firstn mi (p_log (n_p a)).
Proof. exact Raft.CompletenessVote.leader_completeness_quorum_sys. Qed.
Print Assumptions leader_completeness_quorum_acknowledged.

(* [FULL] non-vacuity of leader_completeness_quorum_acknowledged: in the two-node run node 1 leads term 2 and entry 2 of term 2 is
   acknowledged by both nodes; node 2 then times out, campaigns for term 3, receives the vote of node 1 and becomes leader
   of term 3; every hypothesis of the theorem holds for the old leader at the first moment and the new leader at the second *)
Theorem leader_completeness_nonvacuous :
  exists σ0 σ1 σ2 sched1 sched2 a b e,
    linit σ0 /\
    run sys sys_event (lstep (length (sy_nodes σ0)) [1; 2] 5) σ0 sched1 σ1 /\
    run sys sys_event (lstep (length (sy_nodes σ0)) [1; 2] 5) σ1 sched2 σ2 /\
    In a (sy_nodes σ1) /\ n_role a = Leader /\ nth_error (p_log (n_p a)) (2 - 1) = Some e /\ e_term e = p_term (n_p a) /\
    (exists Q, NoDup Q /\ quorum_of (map n_id (sy_nodes σ1)) <= N.of_nat (length Q) /\
               forall v, In v Q ->
                 v = n_id a \/
                 exists m idx h, In m (sy_soup σ1) /\ m_from m = v /\ m_term m = p_term (n_p a) /\
                                 m_body m = AppEntsResp true idx h /\ (2 <= N.to_nat idx)%nat) /\
    In b (sy_nodes σ2) /\ n_role b = Leader /\ p_term (n_p a) < p_term (n_p b) /\ n_id a <> n_id b.
Proof. exact Raft.CompletenessExample.leader_completeness_nonvacuous. Qed.
Print Assumptions leader_completeness_nonvacuous.

(* [FULL] clause 3, leader completeness in terms of commit indices, same system and restricted alphabet as log_matching, nodes start with
   commit index 0 and nothing handed to the state machine. Two moments of one run: whatever a node a has committed at the
   first moment, that is the first n_commit entries of its log, whether it committed them as leader by counting match
   indices or as follower from leaderCommit, is at every later moment in the log of every node b that is leader of a
   term greater than a's term, entry for entry; and the commit index never exceeds the log. Proved from
   leader_completeness_quorum_acknowledged through the invariant that every commit index, every leaderCommit of an AppEnts in
   the soup and every matchIndex of a leader's peers table is backed by acknowledgements of a quorum, with the counting
   lemma for findMajorityIndex *)
Theorem leader_completeness :
  forall (bm : list nid) (be : N) (σ0 σ1 σ2 : sys) (sched1 sched2 : list sys_event),
    cinit σ0 ->
    run sys sys_event (lstep (length (sy_nodes σ0)) bm be) σ0 sched1 σ1 ->
    run sys sys_event (lstep (length (sy_nodes σ0)) bm be) σ1 sched2 σ2 ->
    forall a b,
      In a (sy_nodes σ1) -> In b (sy_nodes σ2) -> n_role b = Leader -> p_term (n_p a) < p_term (n_p b) ->
      (N.to_nat (n_commit a) <= length (p_log (n_p a)))%nat /\
      firstn (N.to_nat (n_commit a)) (p_log (n_p b)) = firstn (N.to_nat (n_commit a)) (p_log (n_p a)).
Proof. exact Raft.CompletenessCommit.leader_completeness_sys. Qed.
Print Assumptions leader_completeness.

(* [FULL] clause 4, state machine safety, same system and restricted alphabet: the entries handed to TakeNewlyCommitted by any two nodes at
   any two moments of a run, the second reached from the first by any further schedule, that have the same index are the
   same entry with the same term, type and payload *)
Theorem state_machine_safety :
  forall (bm : list nid) (be : N) (σ0 σ1 σ2 : sys) (sched1 sched2 : list sys_event),
    cinit σ0 ->
    run sys sys_event (lstep (length (sy_nodes σ0)) bm be) σ0 sched1 σ1 ->
    run sys sys_event (lstep (length (sy_nodes σ0)) bm be) σ1 sched2 σ2 ->
    forall a b x y,
      In a (sy_nodes σ1) -> In b (sy_nodes σ2) -> In x (n_commits a) -> In y (n_commits b) ->
      e_index x = e_index y -> x = y.
Proof. exact Raft.CompletenessCommit.state_machine_safety_sys. Qed.
Print Assumptions state_machine_safety.

(* [FULL] clause 4, a committed entry is never truncated, same system and restricted alphabet: no step of a reachable state, including a step
   that delivers a stale or conflicting AppEnts, crashes after the truncation or restarts the node, removes or changes one
   of the first n_commit entries of the touched node's log *)
Theorem committed_entry_never_truncated :
  forall (bm : list nid) (be : N) (σ0 σ σ' : sys) (sched : list sys_event) (e : sys_event),
    cinit σ0 ->
    run sys sys_event (lstep (length (sy_nodes σ0)) bm be) σ0 sched σ ->
    lstep (length (sy_nodes σ0)) bm be σ e σ' ->
    forall a a', In a (sy_nodes σ) -> In a' (sy_nodes σ') -> n_id a' = n_id a ->
      firstn (N.to_nat (n_commit a)) (p_log (n_p a')) = firstn (N.to_nat (n_commit a)) (p_log (n_p a)).
Proof. exact Raft.CompletenessCommit.committed_never_truncated_sys. Qed.
Print Assumptions committed_entry_never_truncated.

(* [FULL] non-vacuity of leader_completeness: the old leader of term 2 has commit index 2; after the leader change of
   leader_completeness_nonvacuous the new leader of term 3 is a different node *)
Theorem leader_completeness_commit_nonvacuous :
  exists σ0 σ1 σ2 sched1 sched2 a b,
    cinit σ0 /\
    run sys sys_event (lstep (length (sy_nodes σ0)) [1; 2] 5) σ0 sched1 σ1 /\
    run sys sys_event (lstep (length (sy_nodes σ0)) [1; 2] 5) σ1 sched2 σ2 /\
    In a (sy_nodes σ1) /\ In b (sy_nodes σ2) /\ n_role b = Leader /\ p_term (n_p a) < p_term (n_p b) /\
    n_commit a = 2 /\ n_id a <> n_id b.
Proof. exact Raft.CommitExample.leader_completeness_commit_nonvacuous. Qed.
Print Assumptions leader_completeness_commit_nonvacuous.

(* [FULL] non-vacuity of state_machine_safety: leader and follower of the two-node run hand the entry of index 2 to their state machines
   at two different moments *)
Theorem state_machine_safety_nonvacuous :
  exists σ0 σ1 σ2 sched1 sched2 a b x y,
    cinit σ0 /\
    run sys sys_event (lstep (length (sy_nodes σ0)) [1; 2] 5) σ0 sched1 σ1 /\
    run sys sys_event (lstep (length (sy_nodes σ0)) [1; 2] 5) σ1 sched2 σ2 /\
    In a (sy_nodes σ1) /\ In b (sy_nodes σ2) /\ In x (n_commits a) /\ In y (n_commits b) /\
    e_index x = e_index y /\ e_index x = 2 /\ n_id a <> n_id b.
Proof. exact Raft.CommitExample.state_machine_safety_nonvacuous. Qed.
Print Assumptions state_machine_safety_nonvacuous.

(* [FULL] non-vacuity of committed_entry_never_truncated: a step of the leader with commit index 2 whose log grows from 2 to 3 entries *)
Theorem committed_entry_never_truncated_nonvacuous :
  exists σ0 σ σ' sched e a a',
    cinit σ0 /\ run sys sys_event (lstep (length (sy_nodes σ0)) [1; 2] 5) σ0 sched σ /\
    lstep (length (sy_nodes σ0)) [1; 2] 5 σ e σ' /\
    In a (sy_nodes σ) /\ In a' (sy_nodes σ') /\ n_id a' = n_id a /\ n_commit a = 2 /\
    length (p_log (n_p a)) = 2%nat /\ length (p_log (n_p a')) = 3%nat.
Proof. exact Raft.CommitExample.committed_never_truncated_nonvacuous. Qed.
Print Assumptions committed_entry_never_truncated_nonvacuous.

(* ---------------------------------------------------------------- round 4: snapshots / compaction *)

(* [PARTIAL] snapshot invariant at node level, for every node state, EVERY event (delivery of any message including InstallSnapshot,
   tick, proposal, AddNode, RemoveNode, SnapshotDone, restart) and every crash point followed by newCore with the repaired
   start-up reconciliation: if SnapshotDone reports a snapshot of an applied position (index at most the commit index), a
   snapshot the node holds never gets ahead of its commit index *)
Theorem snapshot_within_commit_partial :
  forall s ev k crashed st s',
    snle s -> (forall m, ev = ESnapDone m -> sn_index m <= n_commit s) ->
    run_event_crash (settle s) ev k = Ret (crashed, st, s') -> snle s'.
Proof. exact snapshot_within_commit. Qed.
Print Assumptions snapshot_within_commit_partial.

(* [PARTIAL] the same invariant over all schedules of the general system (any message ever sent delivered to any node any number of
   times or never, ticks, proposals, AddNode, RemoveNode, restarts, crashes after any durable mutation; SnapshotDone reports
   applied positions): every snapshot any node holds covers only positions up to that node's commit index *)
Theorem snapshot_covers_only_committed_partial :
  forall q (σ0 : sys) (sched : list sys_event) (σ : sys),
    (forall s, In s (sy_nodes σ0) -> snle s) -> run sys sys_event (snstep q) σ0 sched σ ->
    forall s m, In s (sy_nodes σ) -> p_snap (n_p s) = Some m -> sn_index m <= n_commit s.
Proof. exact snapshot_within_commit_sys. Qed.
Print Assumptions snapshot_covers_only_committed_partial.

(* [PARTIAL] leader completeness for the snapshot position, first snapshot of a run: a snapshot taken at an applied position of a node's
   log (snap_legit) names an entry that every leader of a later term holds at that index with that term; the runs before
   the snapshot are over the alphabet of leader_completeness *)
Theorem snapshot_entry_kept_by_later_leaders_partial :
  forall (bm : list nid) (be : N) (σ0 σ1 σ2 : sys) (sched1 sched2 : list sys_event),
    cinit σ0 ->
    run sys sys_event (lstep (length (sy_nodes σ0)) bm be) σ0 sched1 σ1 ->
    run sys sys_event (lstep (length (sy_nodes σ0)) bm be) σ1 sched2 σ2 ->
    forall a m, In a (sy_nodes σ1) -> snap_legit a m ->
    forall b, In b (sy_nodes σ2) -> n_role b = Leader -> p_term (n_p a) < p_term (n_p b) ->
      exists e, nth_error (p_log (n_p b)) (N.to_nat (sn_index m) - 1) = Some e /\ e_index e = sn_index m /\ e_term e = sn_term m.
Proof. exact snapshot_of_committed_prefix_kept_by_later_leaders. Qed.
Print Assumptions snapshot_entry_kept_by_later_leaders_partial.

(* [PARTIAL] mechanism: hasEntry answers yes for every index inside the snapshot without comparing terms - the reason why log matching
   across snapshots rests on leader completeness *)
Theorem has_entry_inside_snapshot_mechanism :
  forall p m i t, p_snap p = Some m -> i <= sn_index m -> has_entry p i t = Ret true.
Proof. exact has_entry_inside_snapshot. Qed.
Print Assumptions has_entry_inside_snapshot_mechanism.

(* [PARTIAL] mechanism: when the leader cannot produce the entries for a peer (nextIndex behind its first index) the message it sends is
   InstallSnapshot carrying exactly its own snapshot index, term and configuration *)
Theorem install_snapshot_is_own_snapshot_mechanism :
  forall s p s',
    get_app_ents s p = Ret None -> send_app_ents s p = Ret s' ->
    exists m c, p_snap (n_p s) = Some m /\ sn_conf m = Some c /\
                n_msgs s' = n_msgs s ++ [{| m_term := p_term (n_p s); m_from := n_id s; m_to := pr_id p; m_fromg := 0; m_tog := 0;
                                            m_epoch := 0; m_body := InstallSnap (sn_index m) (sn_term m) c |}].
Proof. exact install_snapshot_is_own_snapshot. Qed.
Print Assumptions install_snapshot_is_own_snapshot_mechanism.

(* [FULL] non-vacuity of the snapshot theorems: a 14-event run of three nodes in which the leader commits two entries, snapshots the
   applied prefix and trims its log, a follower that has nothing rejects the heartbeat, the leader ships InstallSnapshot and
   the follower installs it; all hypotheses of snapshot_covers_only_committed_partial hold and the snapshot was legitimate *)
Theorem install_snapshot_run_nonvacuous :
  Forall snle (sy_nodes t0) /\ run sys sys_event (snstep 2) t0 snap_sched t14 /\
  snap_legit (nth 0 (sy_nodes t10) (mk_node 1)) snapm /\
  m_body u13 = InstallSnap 2 2 {| mb_members := [1; 2; 3]; mb_epoch := 5; mb_index := 1; mb_term := 1 |} /\
  p_snap (n_p (nth 2 (sy_nodes t14) (mk_node 1))) = Some snapm /\ p_log (n_p (nth 2 (sy_nodes t14) (mk_node 1))) = [] /\
  n_commit (nth 2 (sy_nodes t14) (mk_node 1)) = 2 /\ Forall snle (sy_nodes t14).
Proof. exact install_snapshot_run. Qed.
Print Assumptions install_snapshot_run_nonvacuous.

(* [FULL] non-vacuity of snapshot_within_commit_partial: the installing step of that run satisfies the hypotheses, the event is an
   InstallSnapshot delivery, the node had no snapshot before and holds one of index 2 with commit index 2 after *)
Theorem snapshot_within_commit_nonvacuous :
  exists s ev s' m,
    snle s /\ (forall m0, ev = ESnapDone m0 -> sn_index m0 <= n_commit s) /\
    run_event_crash (settle s) ev 0 = Ret (false, 0, s') /\
    (exists md li lt c, ev = EDeliver md /\ m_body md = InstallSnap li lt c) /\
    p_snap (n_p s) = None /\ p_snap (n_p s') = Some m /\ sn_index m = 2 /\ n_commit s' = 2.
Proof. exact Raft.SnapshotExample.snapshot_within_commit_nonvacuous. Qed.
Print Assumptions snapshot_within_commit_nonvacuous.

(* [PARTIAL] log and snapshot are index-contiguous, node level, for every node state, EVERY event (delivery of any message including
   InstallSnapshot, tick, proposal, AddNode, RemoveNode, SnapshotDone with any metadata, restart) and every crash point - in
   particular a crash between the two durable writes of handleSnapshot or of fsmSnapshotDone - followed by newCore with the
   repaired start-up reconciliation. contig: the physical log has consecutive indices from 1 or above; without a snapshot it
   is empty or starts at 1; with a snapshot of index i it is empty or starts at most at i+1 and reaches at least i.
   The only input assumption: the entries of a delivered AppEnts have consecutive indices *)
Theorem log_snapshot_contiguous_partial :
  forall s ev k crashed st s',
    contig (n_p s) -> (forall m, ev = EDeliver m -> mwf m) ->
    run_event_crash (settle s) ev k = Ret (crashed, st, s') -> contig (n_p s').
Proof. exact contiguous_step. Qed.
Print Assumptions log_snapshot_contiguous_partial.

(* [PARTIAL] the output side of that assumption: for every node state, every event and every crash point, every AppEnts the node emits
   carries entries with consecutive indices *)
Theorem emitted_app_ents_contiguous_partial :
  forall s ev k crashed st s',
    run_event_crash (settle s) ev k = Ret (crashed, st, s') -> Forall mwf (n_msgs s').
Proof. exact emitted_app_ents_contiguous. Qed.
Print Assumptions emitted_app_ents_contiguous_partial.

(* [PARTIAL] the two together over ALL schedules of the general system, with no side condition on the schedule (any message ever sent
   delivered to any node any number of times or never, ticks, proposals, AddNode, RemoveNode, SnapshotDone, restarts,
   crashes after any durable mutation): every node's log and snapshot stay index-contiguous and every AppEnts in the soup
   carries consecutive indices *)
Theorem log_snapshot_contiguous_all_schedules_partial :
  forall q (σ0 : sys) (sched : list sys_event) (σ : sys),
    cinv σ0 -> run sys sys_event (sstep q) σ0 sched σ -> cinv σ.
Proof. exact log_snapshot_contiguous_sys. Qed.
Print Assumptions log_snapshot_contiguous_all_schedules_partial.

(* [PARTIAL] contig spelled out: neighbouring log entries have neighbouring indices; the first entry has index 1 without a snapshot and
   at most snapshot index + 1 with one; the last index of the store is at least the snapshot index - so the logical log
   (positions covered by the snapshot, then the physical log) has no hole *)
Theorem contiguous_spelled_out :
  forall p, contig p ->
    (forall j a b, nth_error (p_log p) j = Some a -> nth_error (p_log p) (S j) = Some b -> e_index b = e_index a + 1) /\
    (forall a, nth_error (p_log p) 0 = Some a ->
       1 <= e_index a /\ match p_snap p with None => e_index a = 1 | Some m => e_index a <= sn_index m + 1 end) /\
    (forall m, p_snap p = Some m -> sn_index m <= last_index p).
Proof. exact contig_spelled. Qed.
Print Assumptions contiguous_spelled_out.

(* [FULL] non-vacuity of the contiguity theorems: the InstallSnapshot run extended by one proposal satisfies every hypothesis; at its end
   the leader holds snapshot (2, 2) plus a physical log with exactly index 3, the follower that installed the snapshot has
   an empty log, and the soup holds an AppEnts with two entries *)
Theorem log_snapshot_contiguous_nonvacuous :
  cinv t0 /\ run sys sys_event (sstep 2) t0 (snap_sched ++ [(1, EPropose [ex_ent], 0)]) t15 /\
  p_snap (n_p (nth 0 (sy_nodes t15) (mk_node 1))) = Some snapm /\
  map e_index (p_log (n_p (nth 0 (sy_nodes t15) (mk_node 1)))) = [3] /\
  p_log (n_p (nth 2 (sy_nodes t15) (mk_node 1))) = [] /\
  (exists a b c e1 e2, m_body u8 = AppEnts a b c (Some [e1; e2])) /\ In u8 (sy_soup t15) /\
  cinv t15.
Proof. exact Raft.SnapshotExample.log_snapshot_contiguous_nonvacuous. Qed.
Print Assumptions log_snapshot_contiguous_nonvacuous.

(* ---------------------------------------------------------------- round 5: the four clauses WITH snapshots *)
(* The alphabet sstepS bm be n: fixed membership (no AddNode / RemoveNode, configurations of n members, one bootstrap membership);
   deliveries of any message ever sent - AppEnts, responses, votes and InstallSnapshot - to any node any number of times or
   never; ticks; proposals; SnapshotDone reporting an applied position with its term (followed by the log trim); restarts;
   a crash after any durable mutation of any event - also between the durable writes of handleSnapshot and of fsmSnapshotDone -
   followed by newCore with the start-up reconciliation. The logical log of a node is a ghost prefix (the entries its snapshot
   covers and its log no longer holds) followed by its log; ghost_ok says the ghost assignment fits. *)

(* [FULL] clause 2 with snapshots, over logical logs, for every schedule of the alphabet above: in every reachable state there is a
   fitting ghost assignment under which two logical logs that hold an entry with the same index and term are identical up to
   that position *)
Theorem log_matching_with_snapshots :
  forall (bm : list nid) (be : N) (σ0 σ : sys) (sched : list sys_event),
    cinit σ0 -> length bm = length (sy_nodes σ0) ->
    run sys sys_event (sstepS bm be (length (sy_nodes σ0))) σ0 sched σ ->
    exists Cf, ghost_ok σ Cf /\
      forall a b k k' e e', In a (sy_nodes σ) -> In b (sy_nodes σ) ->
        nth_error (llog Cf a) k = Some e -> nth_error (llog Cf b) k' = Some e' -> e_index e = e_index e' -> e_term e = e_term e' ->
        k = k' /\ firstn (S k) (llog Cf a) = firstn (S k) (llog Cf b).
Proof. exact log_matching_with_snapshots_sys. Qed.
Print Assumptions log_matching_with_snapshots.

(* [FULL] clause 2 with snapshots, ghost-free on the physical logs: entries of two nodes with the same index and term are equal, and so
   are all entries of smaller index that both logs still hold. Same alphabet *)
Theorem log_matching_with_snapshots_entries :
  forall (bm : list nid) (be : N) (σ0 σ : sys) (sched : list sys_event),
    cinit σ0 -> length bm = length (sy_nodes σ0) ->
    run sys sys_event (sstepS bm be (length (sy_nodes σ0))) σ0 sched σ ->
    forall a b e e', In a (sy_nodes σ) -> In b (sy_nodes σ) -> In e (p_log (n_p a)) -> In e' (p_log (n_p b)) ->
      e_index e = e_index e' -> e_term e = e_term e' ->
      e = e' /\ forall x y, In x (p_log (n_p a)) -> In y (p_log (n_p b)) -> e_index x = e_index y -> e_index x <= e_index e -> x = y.
Proof. exact Raft.SnapSystem.log_matching_with_snapshots_entries. Qed.
Print Assumptions log_matching_with_snapshots_entries.

(* [FULL] clause 3 with snapshots, over logical logs: the first n_commit entries of the logical log of any node at any moment are the
   first entries of the logical log of every leader of a greater term at any later moment. Same alphabet *)
Theorem leader_completeness_with_snapshots :
  forall (bm : list nid) (be : N) (σ0 σ1 σ2 : sys) (sched1 sched2 : list sys_event),
    cinit σ0 -> length bm = length (sy_nodes σ0) ->
    run sys sys_event (sstepS bm be (length (sy_nodes σ0))) σ0 sched1 σ1 ->
    run sys sys_event (sstepS bm be (length (sy_nodes σ0))) σ1 sched2 σ2 ->
    exists Cf1 Cf2, ghost_ok σ1 Cf1 /\ ghost_ok σ2 Cf2 /\
      forall a b, In a (sy_nodes σ1) -> In b (sy_nodes σ2) -> n_role b = Leader -> p_term (n_p a) < p_term (n_p b) ->
        (N.to_nat (n_commit a) <= length (llog Cf1 a))%nat /\
        firstn (N.to_nat (n_commit a)) (llog Cf2 b) = firstn (N.to_nat (n_commit a)) (llog Cf1 a).
Proof. exact leader_completeness_with_snapshots_sys. Qed.
Print Assumptions leader_completeness_with_snapshots.

(* [FULL] clause 3 with snapshots, ghost-free: a committed entry is never lost - every leader of a later term holds it in its log or has
   it under its snapshot; and the position a snapshot names is held by every later leader with the snapshot's term, or is
   under that leader's snapshot. Same alphabet *)
Theorem leader_completeness_with_snapshots_entries :
  forall (bm : list nid) (be : N) (σ0 σ1 σ2 : sys) (sched1 sched2 : list sys_event),
    cinit σ0 -> length bm = length (sy_nodes σ0) ->
    run sys sys_event (sstepS bm be (length (sy_nodes σ0))) σ0 sched1 σ1 ->
    run sys sys_event (sstepS bm be (length (sy_nodes σ0))) σ1 sched2 σ2 ->
    forall a b, In a (sy_nodes σ1) -> In b (sy_nodes σ2) -> n_role b = Leader -> p_term (n_p a) < p_term (n_p b) ->
      (forall e, In e (p_log (n_p a)) -> e_index e <= n_commit a ->
         In e (p_log (n_p b)) \/ exists mb, p_snap (n_p b) = Some mb /\ e_index e <= sn_index mb) /\
      (forall ma, p_snap (n_p a) = Some ma ->
         (exists e, In e (p_log (n_p b)) /\ e_index e = sn_index ma /\ e_term e = sn_term ma) \/
         (exists mb, p_snap (n_p b) = Some mb /\ sn_index ma <= sn_index mb)).
Proof. exact Raft.SnapSystem.leader_completeness_with_snapshots_entries. Qed.
Print Assumptions leader_completeness_with_snapshots_entries.

(* [FULL] clause 4 with snapshots: entries handed to the state machines of any two nodes at any two moments with the same index are
   equal (a snapshot installation or restore hands no entries). Same alphabet *)
Theorem state_machine_safety_with_snapshots :
  forall (bm : list nid) (be : N) (σ0 σ1 σ2 : sys) (sched1 sched2 : list sys_event),
    cinit σ0 -> length bm = length (sy_nodes σ0) ->
    run sys sys_event (sstepS bm be (length (sy_nodes σ0))) σ0 sched1 σ1 ->
    run sys sys_event (sstepS bm be (length (sy_nodes σ0))) σ1 sched2 σ2 ->
    forall a b x y, In a (sy_nodes σ1) -> In b (sy_nodes σ2) -> In x (n_commits a) -> In y (n_commits b) -> e_index x = e_index y -> x = y.
Proof. exact state_machine_safety_with_snapshots_sys. Qed.
Print Assumptions state_machine_safety_with_snapshots.

(* [FULL] a committed entry is never truncated, with snapshots: no step changes the first n_commit entries of the touched node's logical
   log, and after the step the node still holds each committed entry in its log or under its snapshot. Same alphabet *)
Theorem committed_entry_never_truncated_with_snapshots :
  forall (bm : list nid) (be : N) (σ0 σ σ' : sys) (sched : list sys_event) (e : sys_event),
    cinit σ0 -> length bm = length (sy_nodes σ0) ->
    run sys sys_event (sstepS bm be (length (sy_nodes σ0))) σ0 sched σ ->
    sstepS bm be (length (sy_nodes σ0)) σ e σ' ->
    exists Cf Cf', ghost_ok σ Cf /\ ghost_ok σ' Cf' /\
      forall a a', In a (sy_nodes σ) -> In a' (sy_nodes σ') -> n_id a' = n_id a ->
        firstn (N.to_nat (n_commit a)) (llog Cf' a') = firstn (N.to_nat (n_commit a)) (llog Cf a) /\
        forall x, In x (p_log (n_p a)) -> e_index x <= n_commit a ->
          In x (p_log (n_p a')) \/ exists m', p_snap (n_p a') = Some m' /\ e_index x <= sn_index m'.
Proof. exact committed_entry_never_truncated_with_snapshots_sys. Qed.
Print Assumptions committed_entry_never_truncated_with_snapshots.

(* [PARTIAL] the node-level step summary behind them, for a store with snapshot seen through its ghost prefix C: every event except
   SnapshotDone, AddNode, RemoveNode and InstallSnapshot delivery, every crash point; under the completeness premise premE (a
   delivered AppEnts of a term not below the node's agrees with the logical log wherever the code relies on the snapshot
   instead of comparing terms) the virtual node takes a step of the snapshot-free summary, and the store keeps its shape *)
Theorem step_summary_with_snapshot_partial :
  forall C s ev k crashed st s',
    base (vn C s) -> shape C (n_p s) (n_commit s) -> evok4 ev -> premE C s ev ->
    run_event_crash (settle s) ev k = Ret (crashed, st, s') ->
    inv (with_budget (settle (vn C s)) k) (inp_of ev) (boot_of ev) (rt_of ev) (vq_of ev) (lq_of (vn C s)) (dc_of ev) (rsp_of ev) (vn C s') /\
    shape C (n_p s') (n_commit s').
Proof. exact run_event_crash_lm_S. Qed.
Print Assumptions step_summary_with_snapshot_partial.

(* [PARTIAL] the mutual dependency of log matching and leader completeness, as one lemma over the invariants of a state: a leader-log record
   of a term not below a node's term agrees with that node's committed prefix wherever the record is defined, and some
   record of that term comparable with it is at least as long as the committed prefix. This is what makes the AppEnts
   consistency check that answers yes inside the snapshot without comparing terms sound *)
Theorem committed_prefix_agrees_with_later_records_partial :
  forall bm be σ G A CL GR i s U j l,
    cminv bm be σ G A CL GR -> get_node i (sy_nodes σ) = Some s -> In (U, j, l) G -> p_term (n_p s) <= U ->
    (forall k e, (k < N.to_nat (n_commit s))%nat -> nth_error l k = Some e -> nth_error (p_log (n_p s)) k = Some e) /\
    (exists j' l', In (U, j', l') G /\ (N.to_nat (n_commit s) <= length l')%nat /\ comparable l l').
Proof. exact agree_committed. Qed.
Print Assumptions committed_prefix_agrees_with_later_records_partial.

(* [PARTIAL] every InstallSnapshot a node emits names a snapshot index of at least 1, for every event and crash point, given that the snapshot
   it holds, the delivered InstallSnapshot and a reported SnapshotDone do *)
Theorem emitted_install_snapshot_index_positive_partial :
  forall s ev k crashed st s',
    snap1 (n_p s) ->
    (forall m, ev = EDeliver m -> isq1 m) -> (forall m, ev = ESnapDone m -> 1 <= sn_index m) ->
    run_event_crash (settle s) ev k = Ret (crashed, st, s') -> Forall isq1 (n_msgs s').
Proof. exact emitted_install_snapshot_index_positive. Qed.
Print Assumptions emitted_install_snapshot_index_positive_partial.

(* [FULL] non-vacuity of the theorems with snapshots: an 18-event run of three nodes satisfies every hypothesis; the leader commits two
   entries, snapshots and trims, ships InstallSnapshot to a follower that has nothing, that follower installs it, times out and
   is elected leader of term 3 with an empty log; the old leader's committed entries are under the new leader's snapshot *)
Theorem with_snapshots_nonvacuous :
  cinit t0 /\ length [1; 2; 3] = length (sy_nodes t0) /\
  run sys sys_event (sstepS [1; 2; 3] 5 (length (sy_nodes t0))) t0 sched_a t10 /\
  run sys sys_event (sstepS [1; 2; 3] 5 (length (sy_nodes t0))) t10 sched_b x18 /\
  (exists li lt c, m_body u13 = InstallSnap li lt c) /\ In (3, EDeliver u13, 0) sched_b /\
  let a := nth 0 (sy_nodes t10) (mk_node 1) in let b := nth 2 (sy_nodes x18) (mk_node 1) in
  In a (sy_nodes t10) /\ In b (sy_nodes x18) /\ n_role b = Leader /\ p_term (n_p a) < p_term (n_p b) /\
  n_commit a = 2 /\ map e_index (p_log (n_p a)) = [1; 2] /\ p_snap (n_p a) = None /\
  p_log (n_p b) = [] /\ p_snap (n_p b) = Some snapm.
Proof. exact Raft.SnapSystemExample.with_snapshots_nonvacuous. Qed.
Print Assumptions with_snapshots_nonvacuous.

(* [FULL] non-vacuity of the crash case: the same InstallSnapshot delivered with a crash right after the snapshot commit of
   handleSnapshot, before the log is discarded, is a step of the alphabet; after newCore node 3 holds the snapshot, an empty
   log, commit index 2, and nothing was sent *)
Theorem crash_inside_install_snapshot_nonvacuous :
  run sys sys_event (sstepS [1; 2; 3] 5 3) t10 [(1, ESnapDone snapm, 0); (3, EDeliver u11, 0); (1, EDeliver u12, 0); (3, EDeliver u13, 1)] x14c /\
  (exists st s', run_event_crash (settle (nth 2 (sy_nodes t13) (mk_node 1))) (EDeliver u13) 1 = Ret (true, st, s')) /\
  let b := nth 2 (sy_nodes x14c) (mk_node 1) in
  p_snap (n_p b) = Some snapm /\ p_log (n_p b) = [] /\ n_commit b = 2 /\ length (sy_soup x14c) = length (sy_soup t13).
Proof. exact crash_inside_install_snapshot. Qed.
Print Assumptions crash_inside_install_snapshot_nonvacuous.

(* ---------------------------------------------------------------- round 4: single-server membership change *)

(* [PARTIAL] quorums of Members and Members plus one intersect: for member lists C1 included in C2 with one more element, a majority of C1
   and a majority of C2 share a node *)
Theorem adjacent_quorums_intersect :
  forall (C1 C2 Q1 Q2 : list nid),
    incl C1 C2 -> length C2 = S (length C1) ->
    NoDup Q1 -> NoDup Q2 -> incl Q1 C1 -> incl Q2 C2 ->
    N.of_nat (length C1) / 2 + 1 <= N.of_nat (length Q1) ->
    N.of_nat (length C2) / 2 + 1 <= N.of_nat (length Q2) ->
    exists v, In v Q1 /\ In v Q2.
Proof. exact Raft.MembershipQuorum.adjacent_quorums_intersect. Qed.
Print Assumptions adjacent_quorums_intersect.

(* [PARTIAL] the same for the configuration AddNode builds (old members with the new one appended) *)
Theorem add_node_quorums_intersect :
  forall (c : membership) (x : nid) (Q1 Q2 : list nid),
    NoDup Q1 -> NoDup Q2 -> incl Q1 (mb_members c) -> incl Q2 (mb_members c ++ [x]) ->
    quorum c <= N.of_nat (length Q1) ->
    N.of_nat (length (mb_members c ++ [x])) / 2 + 1 <= N.of_nat (length Q2) ->
    exists v, In v Q1 /\ In v Q2.
Proof. exact Raft.MembershipQuorum.add_node_quorums_intersect. Qed.
Print Assumptions add_node_quorums_intersect.

(* [PARTIAL] the same for the configuration RemoveNode builds (old members with one filtered out) *)
Theorem remove_node_quorums_intersect :
  forall (c : membership) (x : nid) (Q1 Q2 : list nid),
    NoDup (mb_members c) -> In x (mb_members c) ->
    NoDup Q1 -> NoDup Q2 -> incl Q1 (filter (fun m => negb (m =? x)) (mb_members c)) -> incl Q2 (mb_members c) ->
    N.of_nat (length (filter (fun m => negb (m =? x)) (mb_members c))) / 2 + 1 <= N.of_nat (length Q1) ->
    quorum c <= N.of_nat (length Q2) ->
    exists v, In v Q1 /\ In v Q2.
Proof. exact Raft.MembershipQuorum.remove_node_quorums_intersect. Qed.
Print Assumptions remove_node_quorums_intersect.

(* [PARTIAL] one configuration change at a time: an AddNode that goes through was issued with the latest configuration committed and an
   entry of the leader's current term committed (verifyNopCommitted) *)
Theorem add_node_accepted_only_when_settled :
  forall s member rnd s',
    leader_add_node s member rnd = Ret (E_NONE, s') ->
    latest_conf_committed s = true /\ exists t, st_term (n_p s) (n_commit s) = Ret (t, true) /\ t = p_term (n_p s).
Proof. exact Raft.MembershipQuorum.add_node_accepted_only_when_settled. Qed.
Print Assumptions add_node_accepted_only_when_settled.

(* [PARTIAL] one configuration change at a time: while the latest configuration is not committed AddNode is refused and changes nothing *)
Theorem add_node_refused_while_pending :
  forall s member rnd c,
    verify_nop_committed s = Ret tt -> n_conf s = Some c -> memb member (mb_members c) = false ->
    latest_conf_committed s = false -> leader_add_node s member rnd = Ret (E_TOO_MANY, s).
Proof. exact Raft.MembershipQuorum.add_node_refused_while_pending. Qed.
Print Assumptions add_node_refused_while_pending.

(* [PARTIAL] one configuration change at a time: while the latest configuration is not committed RemoveNode is refused and changes nothing *)
Theorem remove_node_refused_while_pending :
  forall s member c,
    verify_nop_committed s = Ret tt -> n_conf s = Some c -> memb member (mb_members c) = true ->
    latest_conf_committed s = false -> leader_remove_node s member = Ret (E_TOO_MANY, s).
Proof. exact Raft.MembershipQuorum.remove_node_refused_while_pending. Qed.
Print Assumptions remove_node_refused_while_pending.

(* [PARTIAL] election safety across AddNode and RemoveNode for the changes that keep the quorum size: in a system of 2k+1 nodes in which
   every configuration a node holds has 2k or 2k+1 members, under every schedule (deliveries of any message ever sent to any
   node any number of times or never, ticks, proposals, AddNode, RemoveNode, snapshots, restarts, crashes after any durable
   mutation) two nodes recorded as leader of the same term are the same node. OPEN: changes between 2k-1 and 2k members *)
Theorem election_safety_membership_change_partial :
  forall k (σ0 σ : sys) (sched : list sys_event),
    minit k σ0 -> run sys sys_event (mstep k) σ0 sched σ ->
    forall t a b, In (t, a) (sy_hist σ) -> In (t, b) (sy_hist σ) -> a = b.
Proof. exact election_safety_near_sys. Qed.
Print Assumptions election_safety_membership_change_partial.

(* [FULL] non-vacuity of election_safety_membership_change_partial: a 17-event run of three nodes that bootstraps the membership 1, 2,
   elects node 1, commits an entry of its term, accepts AddNode 3, commits the configuration entry under the new
   configuration and brings node 3 up to date; every hypothesis holds and a leader is recorded *)
Theorem add_node_run_nonvacuous :
  minit 1 a0 /\ run sys sys_event (mstep 1) a0 add_sched a17 /\
  In (1, EAddNode 3 77, 0) add_sched /\
  (exists s s', get_node 1 (sy_nodes a10) = Some s /\ members_of s = [1; 2] /\
                run_event_crash (settle s) (EAddNode 3 77) 0 = Ret (false, E_NONE, s') /\ members_of s' = [1; 2; 3]) /\
  map members_of (sy_nodes a17) = [[1; 2; 3]; [1; 2; 3]; [1; 2; 3]] /\
  map (fun s => length (p_log (n_p s))) (sy_nodes a17) = [3; 3; 3]%nat /\
  map n_commit (sy_nodes a17) = [3; 2; 3] /\ In (2, 1) (sy_hist a17).
Proof. exact add_node_run. Qed.
Print Assumptions add_node_run_nonvacuous.

(* [FULL] non-vacuity of adjacent_quorums_intersect: the configurations the leader of that run holds before and after AddNode differ,
   and every majority of the old one meets every majority of the new one *)
Theorem add_node_quorums_nonvacuous :
  exists s s' c c', get_node 1 (sy_nodes a10) = Some s /\ get_node 1 (sy_nodes a11) = Some s' /\
    n_conf s = Some c /\ n_conf s' = Some c' /\ mb_members c <> mb_members c' /\
    forall Q1 Q2, NoDup Q1 -> NoDup Q2 -> incl Q1 (mb_members c) -> incl Q2 (mb_members c') ->
      quorum c <= N.of_nat (length Q1) -> quorum c' <= N.of_nat (length Q2) -> exists x, In x Q1 /\ In x Q2.
Proof. exact Raft.MembershipExample.add_node_quorums_nonvacuous. Qed.
Print Assumptions add_node_quorums_nonvacuous.

(* ---------------------------------------------------------------- round 6: ALL single-server membership changes *)
From BLB Require Import Raft.NodeKeepV Raft.MemberNode Raft.MemberVotes Raft.MemberConfStep Raft.MemberVotesExample.

(* [PARTIAL] election safety for ALL single-server membership changes, quorum-size changing ones included. Alphabet astep: every event
   of the core on any node (bootstrap, delivery of any soup message any number of times or never, ticks, proposals, AddNode and
   RemoveNode exactly as the core accepts or refuses them, SnapshotDone, restarts), with or without a crash after any durable
   mutation, and NO side condition on the configurations. Ghost EC: for every node that ends a step as a newly elected leader the
   record (term, id, configuration under which it counted its votes). If any two EC records of one term carry equal or adjacent
   configurations (adjP: one member list is the other plus exactly one member) then two nodes recorded as leader of the same term
   are the same node. OPEN: the premise adjP itself, see the NOT YET PROVED block *)
Theorem election_safety_all_membership_changes_partial :
  forall (a0 a : asys) (sched : list sys_event),
    ainit a0 -> run asys sys_event astep a0 sched a -> adjP (snd a) ->
    forall t x y, In (t, x) (sy_hist (fst a)) -> In (t, y) (sy_hist (fst a)) -> x = y.
Proof. exact election_safety_given_adjacent_sys. Qed.
Print Assumptions election_safety_all_membership_changes_partial.

(* [FULL] every counted vote comes from a member of the counting node's configuration, over the alphabet astep with arbitrary
   membership changes and no premise: every vote a candidate holds was cast for it in its term by a member of the configuration it
   holds, and every leader ever seen has an EC record (t, c, C) and was elected by a duplicate-free set Q of members of C with at
   least quorum C elements, all of which cast their term-t vote for c *)
Theorem counted_votes_come_from_members :
  forall (a0 a : asys) (sched : list sys_event),
    ainit a0 -> run asys sys_event astep a0 sched a ->
    (forall i x, get_node i (sy_nodes (fst a)) = Some x -> n_role x = Candidate ->
       forall v, In v (c_votes x) -> memb_of x v /\ In (v, p_term (n_p x), n_id x) (sy_cast (fst a))) /\
    (forall t c, In (t, c) (sy_hist (fst a)) ->
       exists C Q, In (t, c, C) (snd a) /\ NoDup Q /\ incl Q (mb_members C) /\ quorum C <= N.of_nat (length Q) /\
                   forall v, In v Q -> In (v, t, c) (sy_cast (fst a))).
Proof. exact counted_votes_come_from_members_sys. Qed.
Print Assumptions counted_votes_come_from_members.

(* [FULL] node level, any event, crash variants included: every VoteReq the event emits is addressed to a member of the configuration
   the node holds (enterCandidate is the only sender); every granted VoteResp it emits answers a delivered VoteReq of the same term
   from the addressee; a node that ends the event as candidate or as newly elected leader either continues a candidacy of the same
   term (configuration unchanged, each counted vote was counted before or is the delivered granted VoteResp of this term) or
   started it in this event (term plus one, configuration unchanged, the only possible vote is its own, counted only if the node is
   a member of its configuration) *)
Theorem vote_traffic_respects_configuration :
  forall s ev k crashed st s',
    run_event_crash (settle s) ev k = Ret (crashed, st, s') ->
    vreq_ok s s' /\ resp_src s s' (ev_msg ev) /\ cpart s s' (ev_msg ev).
Proof. exact step_csum. Qed.
Print Assumptions vote_traffic_respects_configuration.

(* [FULL] node level: an accepted AddNode (status E_NONE) was issued with the latest configuration committed and the entry at the
   commit index of the current term (settled), replaces the configuration C by C with the new member appended (the member was not
   in C), stamped with index last plus one and the current term; a refused AddNode changes nothing *)
Theorem accepted_add_node_is_settled_and_adds_one_member :
  forall s member rnd st s',
    leader_add_node s member rnd = Ret (st, s') ->
    (st <> E_NONE /\ s' = s) \/
    (st = E_NONE /\ settled s /\ conf_add (n_conf s) (n_conf s') member /\
     exists c', n_conf s' = Some c' /\ mb_index c' = last_index (n_p s) + 1 /\ mb_term c' = p_term (n_p s)).
Proof. exact add_node_conf. Qed.
Print Assumptions accepted_add_node_is_settled_and_adds_one_member.

(* [FULL] node level: the same for RemoveNode: accepted only when settled, the new configuration is C without the member (which was
   in C), stamped with index last plus one and the current term; a refused RemoveNode changes nothing *)
Theorem accepted_remove_node_is_settled_and_removes_one_member :
  forall s member st s',
    leader_remove_node s member = Ret (st, s') ->
    (st <> E_NONE /\ s' = s) \/
    (st = E_NONE /\ settled s /\ conf_del (n_conf s) (n_conf s') member /\
     exists c', n_conf s' = Some c' /\ mb_index c' = last_index (n_p s) + 1 /\ mb_term c' = p_term (n_p s)).
Proof. exact remove_node_conf. Qed.
Print Assumptions accepted_remove_node_is_settled_and_removes_one_member.

(* [FULL] node level, any event, crash variants included: a node that is leader before and after the event holds the same
   configuration, or the event was an accepted AddNode or RemoveNode issued when settled and the configuration differs by exactly
   that member *)
Theorem leader_configuration_moves_by_one_member :
  forall s ev k crashed st s',
    run_event_crash (settle s) ev k = Ret (crashed, st, s') -> n_role s = Leader -> n_role s' = Leader ->
    n_conf s' = n_conf s \/ conf_moved s ev st s'.
Proof. exact leader_conf_step. Qed.
Print Assumptions leader_configuration_moves_by_one_member.

(* [FULL] the configurations before and after an accepted single-server change are adjacent in the sense of
   adjacent_quorums_intersect: one member list is contained in the other and is exactly one element shorter *)
Theorem single_server_change_is_adjacent :
  (forall o o' x, conf_add o o' x ->
     exists c c', o = Some c /\ o' = Some c' /\ incl (mb_members c) (mb_members c') /\
                  length (mb_members c') = S (length (mb_members c))) /\
  (forall o o' x, conf_del o o' x -> forall c, o = Some c -> NoDup (mb_members c) ->
     exists c', o' = Some c' /\ incl (mb_members c') (mb_members c) /\
                length (mb_members c) = S (length (mb_members c'))).
Proof. exact (conj conf_add_adj conf_del_adj). Qed.
Print Assumptions single_server_change_is_adjacent.

(* [FULL] non-vacuity, run A, add a third node to a two-node group and elect it leader: 21 events over astep; node 1 bootstraps the
   members 1, 2, wins term 2, commits an entry of its term, accepts AddNode 3, commits the configuration entry, brings node 3 up to
   date; node 3 times out, campaigns for term 3 under the members 1, 2, 3, node 2 grants, node 3 is leader of term 3; the EC
   records are as stated, the premise adjP holds, and the conclusion of the partial theorem holds on the run *)
Theorem add_node_then_elect_it_nonvacuous :
  ainit A0 /\ run asys sys_event astep A0 schedA A21 /\
  ec_view (snd A21) = [(2, 1, [1; 2]); (3, 3, [1; 2; 3])] /\ adjP (snd A21) /\
  In (3, 3) (sy_hist (fst A21)) /\
  (exists s, get_node 3 (sy_nodes (fst A21)) = Some s /\ n_role s = Leader /\ p_term (n_p s) = 3 /\
             members_of s = [1; 2; 3] /\ c_votes s = [2; 3]) /\
  In (2, 3, 3) (sy_cast (fst A21)) /\ In (3, 3, 3) (sy_cast (fst A21)) /\
  (forall t x y, In (t, x) (sy_hist (fst A21)) -> In (t, y) (sy_hist (fst A21)) -> x = y).
Proof. exact add_node_then_elect_it. Qed.
Print Assumptions add_node_then_elect_it_nonvacuous.

(* [FULL] non-vacuity, run B, remove a node and commit with the smaller quorum: the first 10 events of run A, then RemoveNode 2 at the
   leader: accepted while it holds the members 1, 2 with quorum 2; afterwards it holds the single member 1 with quorum 1 and has
   committed the configuration entry at index 3 by itself; the two configurations are adjacent; adjP and the conclusion hold *)
Theorem remove_node_then_commit_with_smaller_quorum_nonvacuous :
  ainit A0 /\ run asys sys_event astep A0 schedB B11 /\ adjP (snd B11) /\
  (exists s s', get_node 1 (sy_nodes (fst A10)) = Some s /\ members_of s = [1; 2] /\ n_commit s = 2 /\
                run_event_crash (settle s) (ERemoveNode 2) 0 = Ret (false, E_NONE, s') /\
                members_of s' = [1] /\ n_commit s' = 3 /\ length (p_log (n_p s')) = 3%nat /\ n_role s' = Leader) /\
  (exists c c', quorum c = 2 /\ quorum c' = 1 /\ mb_members c = [1; 2] /\ mb_members c' = [1] /\
                adj (mb_members c') (mb_members c)) /\
  (forall t x y, In (t, x) (sy_hist (fst B11)) -> In (t, y) (sy_hist (fst B11)) -> x = y).
Proof. exact remove_node_then_commit_with_smaller_quorum. Qed.
Print Assumptions remove_node_then_commit_with_smaller_quorum_nonvacuous.

(* ---------------------------------------------------------------- round 7: invariants towards the unconditional theorem *)
From BLB Require Import Raft.MemberPeers.

(* [FULL] invariant (d), node level, any event, crash variants included: if the ids in the peer table of a leader are exactly the
   members of the configuration it holds minus itself before the event, the same holds after it; a newly elected leader builds
   the table from its configuration, every leader handler only overwrites existing peers, an accepted AddNode adds the peer with
   the member, an accepted RemoveNode deletes it. Only side condition: the event is not AddNode of the node's own id *)
Theorem peer_table_tracks_configuration :
  forall s ev k crashed st s',
    run_event_crash (settle s) ev k = Ret (crashed, st, s') -> noself s ev -> peers_ok s -> peers_ok s'.
Proof. exact peers_ok_step. Qed.
Print Assumptions peer_table_tracks_configuration.

(* [FULL] invariant (d), all schedules over astep in which no node is asked to add itself: for every leader the ids of its peer table
   are exactly the members of the configuration it holds, minus itself; so findMajorityIndex counts acknowledgements of members
   only, and the leader's own index only if it is a member *)
Theorem leader_acks_come_from_members :
  forall (a0 a : asys) (sched : list sys_event),
    ainit a0 -> run asys sys_event astep a0 sched a -> Forall noself_ev sched ->
    forall i s, get_node i (sy_nodes (fst a)) = Some s -> n_role s = Leader ->
      forall id, In id (peer_ids s) <-> (memb_of s id /\ id <> n_id s).
Proof. exact leader_acks_come_from_members_sys. Qed.
Print Assumptions leader_acks_come_from_members.

From BLB Require Import Raft.MemberAbstract.

(* [PARTIAL] the mutual induction on the term for single-server membership changes, over per-state facts: if the ghost leader-log records
   G, acknowledgements A, candidacy logs CL and grants GR, GL of a state satisfy the record minv (log matching facts, grant and
   acknowledgement facts of rounds 2 and 3, plus the three configuration invariants: m_invB every configuration entry that is not
   the last one of a leader log was committed under its own configuration, m_invF a configuration entry of term t sits above an
   entry of term t committed under the previous configuration, m_chain consecutive configurations differ by one member) then every
   candidate of a term U that holds a quorum of grants under the latest configuration of its candidacy log holds every prefix
   committed in a term below U, where committed means acknowledged by a quorum of the configuration in force at the committing
   leader. Quorums are per record; no fixed quorum anywhere. OPEN: establishing minv for the reachable states of astep *)
Theorem leader_completeness_membership_change_partial :
  forall G A CL GR GL CAST boot,
    minv G A CL GR GL CAST boot ->
    forall U T L mi C, cmr G A T L mi C -> T < U -> forall c lc, winl CL GR CAST GL U c lc -> keeps lc (firstn mi L).
Proof. exact leader_completeness_of_minv. Qed.
Print Assumptions leader_completeness_membership_change_partial.

(* [PARTIAL] under the same per-state facts, two candidates of one term that both hold a quorum of grants under the latest
   configurations of their candidacy logs are the same node: their configurations are equal or adjacent (longest common prefix
   argument with leader completeness for the committed configuration and current-term entries), so the quorums meet in a node
   that granted twice. This is election safety without the premise adjP. OPEN: the same as above *)
Theorem election_safety_membership_change_core_partial :
  forall G A CL GR GL CAST boot,
    minv G A CL GR GL CAST boot ->
    forall U a la b lb, winl CL GR CAST GL U a la -> winl CL GR CAST GL U b lb -> a = b.
Proof. exact election_safety_of_minv. Qed.
Print Assumptions election_safety_membership_change_core_partial.

From BLB Require Import Raft.MemberConfTrack.

(* [FULL] invariant (a), node level, any event of the alphabet without snapshots (no SnapshotDone, no delivered InstallSnap, proposals
   carry no configuration entries; AddNode, RemoveNode, bootstrap, restart and every crash point included): if the node has no
   snapshot, its log entries have positive indices and the configuration it holds is the decoded latest configuration entry of
   its log (none if there is none), the same holds after the event. Covers truncation by a follower (keep or recompute), the
   entries a follower appends, the configuration entry the leader appends for AddNode and RemoveNode, and newCore *)
Theorem configuration_tracks_log :
  forall s ev k crashed st s',
    ctw s -> evC ev -> run_event_crash (settle s) ev k = Ret (crashed, st, s') -> ctw s'.
Proof. exact conf_tracks_step. Qed.
Print Assumptions configuration_tracks_log.

From BLB Require Import Raft.LogMatchNodeM Raft.LogMatchM.

(* [FULL] node level: the log-matching summary of one event (the unchanged record LogMatchNode.inv) also holds for AddNode and
   RemoveNode, completed or crashed after any durable mutation; premise for AddNode: the id is not the node itself and, at a
   leader, not yet in the peer table *)
Theorem step_summary_with_membership_change :
  forall s ev k crashed st s',
    base s -> evokM s ev -> run_event_crash (settle s) ev k = Ret (crashed, st, s') ->
    LogMatchNode.inv (with_budget (settle s) k) (inp_of ev) (boot_of ev) (rt_of ev) (vq_of ev) (lq_of s) (dc_of ev) (rsp_of ev) s'.
Proof. exact run_event_crash_lm_M. Qed.
Print Assumptions step_summary_with_membership_change.

(* [PARTIAL] log matching across membership changes: the system invariant ginvM (ginv of round 2 without the fixed-quorum election
   invariant and without the configuration-size invariant) is preserved by every step whose touched node satisfies the node-level
   summary, AddNode and RemoveNode included, PROVIDED the history after the step has one leader per term. OPEN: that proviso is
   election safety for membership changes, which the mutual induction has to supply step by step *)
Theorem log_matching_membership_change_step_partial :
  forall bm be σ G i s ev k s',
    ginvM bm be σ G ->
    get_node i (sy_nodes σ) = Some s -> (forall m, ev = EDeliver m -> In m (sy_soup σ) /\ m_to m <> 0) ->
    evres bm be ev -> nstep s ev k s' ->
    (forall t a b, In (t, a) (sy_hist (step_sys σ s')) -> In (t, b) (sy_hist (step_sys σ s')) -> a = b) ->
    ginvM bm be (step_sys σ s') (G ++ rec_of s s').
Proof. exact ginvM_step_abs. Qed.
Print Assumptions log_matching_membership_change_step_partial.

From BLB Require Import Raft.MemberLeaderOut Raft.CompletenessAckM Raft.CompletenessVoteM Raft.MemberSafety.

(* [FULL] node level, any event, crash variants included: a node that ends the event as leader has no AppEntsResp in its outbox, and
   if the event delivered an AppEnts its commit index did not move *)
Theorem leader_sends_no_acknowledgement :
  (forall s ev k crashed st s',
     run_event_crash (settle s) ev k = Ret (crashed, st, s') -> n_role s' = Leader -> noresp s') /\
  (forall s m k crashed st s' pi pt cm oe,
     run_event_crash (settle s) (EDeliver m) k = Ret (crashed, st, s') -> m_body m = AppEnts pi pt cm oe ->
     n_role s' = Leader -> n_commit s' = n_commit s).
Proof. exact (conj leader_outbox_has_no_ack leader_ignores_appents). Qed.
Print Assumptions leader_sends_no_acknowledgement.

(* [PARTIAL] the state invariant MS of Raft/MemberSafety.v (EM, the re-based vote / acknowledgement / log-matching invariants, the
   configuration tracking (a), the peer table (d), the peer-table justification, the leader commit invariant, the three
   configuration invariants) implies, for that state: every leader-log record of a term U holds every prefix committed in a
   term below U under the configuration of the committing leader, and two leader-log records of one term belong to one node.
   No fixed quorum, no premise on the configurations. OPEN: that MS is preserved by the steps of astep (without snapshots) *)
Theorem membership_change_safety_of_state_invariant_partial :
  forall bm be a G A CL GR GL,
    MS bm be a G A CL GR GL ->
    (forall U c l T L mi C, cmr G A T L mi C -> In (U, c, l) G -> T < U -> keeps l (firstn mi L)) /\
    (forall U c1 l1 c2 l2, In (U, c1, l1) G -> In (U, c2, l2) G -> c1 <> 0 -> c2 <> 0 -> c1 = c2).
Proof.
  intros bm be a G A CL GR GL M. split.
  - exact (MS_leader_completeness bm be a G A CL GR GL M).
  - exact (MS_one_leader_per_term bm be a G A CL GR GL M).
Qed.
Print Assumptions membership_change_safety_of_state_invariant_partial.

(* ---------------------------------------------------------------- round 8: the four clauses across membership changes, over runs *)
From BLB Require Import Raft.MemberStep Raft.MemberRun Raft.MemberRunExample.

(* [FULL] election safety for ALL single-server membership changes, no premise on the configurations. Alphabet mstepS bm be: every event
   of the core on any node (bootstrap, delivery of any soup message any number of times or never, ticks, proposals, AddNode and
   RemoveNode exactly as the core accepts or refuses them, restarts), with or without a crash after any durable mutation,
   restricted only by evS: one bootstrap membership bm with epoch be, no SnapshotDone, proposals carry no configuration entries,
   no node is asked to add itself. From an initial state (distinct non-empty ids, followers, empty logs, no snapshot, no
   configuration, commit index 0) with duplicate-free bm: two nodes recorded as leader of the same term are the same node *)
Theorem election_safety_membership_change :
  forall (bm : list nid) (be : N), NoDup bm ->
  forall (a0 a : asys) (sched : list sys_event),
    minitS a0 -> run asys sys_event (mstepS bm be) a0 sched a ->
    forall t x y, In (t, x) (sy_hist (fst a)) -> In (t, y) (sy_hist (fst a)) -> x = y.
Proof. exact election_safety_membership_change_sys. Qed.
Print Assumptions election_safety_membership_change.

(* [FULL] leader completeness across membership changes, same alphabet: whatever any node has committed at some moment of a run
   (the first n_commit entries of its log) is, at any later moment, in the log of every leader of a greater term, whatever
   configurations the two held and however the quorum sizes changed in between *)
Theorem leader_completeness_membership_change :
  forall (bm : list nid) (be : N), NoDup bm ->
  forall (a0 a1 a2 : asys) (sched1 sched2 : list sys_event),
    minitS a0 -> run asys sys_event (mstepS bm be) a0 sched1 a1 -> run asys sys_event (mstepS bm be) a1 sched2 a2 ->
    forall x b,
      In x (sy_nodes (fst a1)) -> In b (sy_nodes (fst a2)) -> n_role b = Leader -> p_term (n_p x) < p_term (n_p b) ->
      (N.to_nat (n_commit x) <= length (p_log (n_p x)))%nat /\
      firstn (N.to_nat (n_commit x)) (p_log (n_p b)) = firstn (N.to_nat (n_commit x)) (p_log (n_p x)).
Proof. exact leader_completeness_membership_change_sys. Qed.
Print Assumptions leader_completeness_membership_change.

(* [FULL] log matching across membership changes, same alphabet: two entries of two nodes with the same index and term sit at the same
   position and the logs are identical up to it *)
Theorem log_matching_membership_change :
  forall (bm : list nid) (be : N), NoDup bm ->
  forall (a0 a : asys) (sched : list sys_event),
    minitS a0 -> run asys sys_event (mstepS bm be) a0 sched a ->
    forall x y k k' e e',
      In x (sy_nodes (fst a)) -> In y (sy_nodes (fst a)) ->
      nth_error (p_log (n_p x)) k = Some e -> nth_error (p_log (n_p y)) k' = Some e' ->
      e_index e = e_index e' -> e_term e = e_term e' ->
      k = k' /\ firstn (S k) (p_log (n_p x)) = firstn (S k) (p_log (n_p y)).
Proof. exact log_matching_membership_change_sys. Qed.
Print Assumptions log_matching_membership_change.

(* [FULL] state machine safety across membership changes, same alphabet: entries handed to the state machine by any two nodes at any two
   moments of a run with the same index are equal *)
Theorem state_machine_safety_membership_change :
  forall (bm : list nid) (be : N), NoDup bm ->
  forall (a0 a1 a2 : asys) (sched1 sched2 : list sys_event),
    minitS a0 -> run asys sys_event (mstepS bm be) a0 sched1 a1 -> run asys sys_event (mstepS bm be) a1 sched2 a2 ->
    forall n1 n2 x y,
      In n1 (sy_nodes (fst a1)) -> In n2 (sy_nodes (fst a2)) -> In x (n_commits n1) -> In y (n_commits n2) ->
      e_index x = e_index y -> x = y.
Proof. exact state_machine_safety_membership_change_sys. Qed.
Print Assumptions state_machine_safety_membership_change.

(* [FULL] the state invariant MS is preserved by every step of the alphabet: the touched node runs any event with any crash point,
   under the three side conditions of evS *)
Theorem membership_invariant_is_inductive :
  forall bm be σ EC G A CL GR GL i s ev k crashed st s',
    MS bm be (σ, EC) G A CL GR GL ->
    get_node i (sy_nodes σ) = Some s ->
    (forall m, ev = EDeliver m -> In m (sy_soup σ) /\ m_to m <> 0) ->
    run_event_crash (settle s) ev k = Ret (crashed, st, s') ->
    evres bm be ev -> evC ev -> noself s ev ->
    MS bm be (step_sys σ s', EC ++ ec_of s s') (G ++ rec_of s s') (A ++ acks_of s' ++ rec_acks (rec_of s s'))
       (CL ++ cl_of s s') (GR ++ gr_of G s s') (GL ++ gl_of G s s').
Proof. exact MS_step_node. Qed.
Print Assumptions membership_invariant_is_inductive.

(* [FULL] non-vacuity, run A, add a third node to a two-node group and elect it leader, as a run of mstepS with bm = 1, 2 from an initial
   state: 10 events to the state A10 (node 1 leader of term 2 under the members 1, 2, commit index 2) and 11 more to A21 (node 3
   leader of term 3 under 1, 2, 3); election safety holds on the run with both leaders recorded, and leader completeness is
   instantiated between the two moments *)
Theorem membership_change_run_A_nonvacuous :
  minitS A0 /\ NoDup [1; 2] /\
  run asys sys_event (mstepS [1; 2] 5) A0 sched10 A10 /\ run asys sys_event (mstepS [1; 2] 5) A10 schedA2 A21 /\
  map node_view (sy_nodes (fst A10)) = [(1, Leader, 2, [1; 2], 2, 2%nat); (2, Follower, 2, [1; 2], 0, 2%nat); (3, Follower, 0, [], 0, 0%nat)] /\
  map node_view (sy_nodes (fst A21)) = [(1, Leader, 2, [1; 2; 3], 3, 3%nat); (2, Follower, 3, [1; 2; 3], 2, 3%nat); (3, Leader, 3, [1; 2; 3], 3, 3%nat)] /\
  (forall t x y, In (t, x) (sy_hist (fst A21)) -> In (t, y) (sy_hist (fst A21)) -> x = y) /\
  (In (2, 1) (sy_hist (fst A21)) /\ In (3, 3) (sy_hist (fst A21))) /\
  (forall x b, In x (sy_nodes (fst A10)) -> In b (sy_nodes (fst A21)) -> n_role b = Leader -> p_term (n_p x) < p_term (n_p b) ->
     firstn (N.to_nat (n_commit x)) (p_log (n_p b)) = firstn (N.to_nat (n_commit x)) (p_log (n_p x))).
Proof. exact membership_change_run_A. Qed.
Print Assumptions membership_change_run_A_nonvacuous.

(* [FULL] non-vacuity, run B, remove a node and commit with the smaller quorum, as a run of mstepS: from A10 the leader accepts
   RemoveNode 2, holds the single member 1 and commits index 3 alone (quorum 2 became quorum 1); election safety and state machine
   safety are instantiated, and an entry of index 3 has been handed to the state machine *)
Theorem membership_change_run_B_nonvacuous :
  run asys sys_event (mstepS [1; 2] 5) A10 [(1, ERemoveNode 2, 0)] B11 /\
  map node_view (sy_nodes (fst B11)) = [(1, Leader, 2, [1], 3, 3%nat); (2, Follower, 2, [1; 2], 0, 2%nat); (3, Follower, 0, [], 0, 0%nat)] /\
  (forall t x y, In (t, x) (sy_hist (fst B11)) -> In (t, y) (sy_hist (fst B11)) -> x = y) /\
  (forall n1 n2 x y, In n1 (sy_nodes (fst A10)) -> In n2 (sy_nodes (fst B11)) -> In x (n_commits n1) -> In y (n_commits n2) ->
     e_index x = e_index y -> x = y) /\
  existsb (fun s => existsb (fun y => e_index y =? 3) (n_commits s)) (sy_nodes (fst B11)) = true.
Proof. exact membership_change_run_B. Qed.
Print Assumptions membership_change_run_B_nonvacuous.

(* ---------------------------------------------------------------- round 9: membership changes AND snapshots in one alphabet *)
From BLB Require Import Raft.SnapConfTrack Raft.SnapConfRun Raft.CombinedExample.

(* [PARTIAL] combined alphabet, node level, invariant (a) with snapshots: for every event (Bootstrap, Deliver of any message including
   InstallSnap, Tick, Propose, AddNode, RemoveNode, SnapshotDone, Restart) and every crash point, if the log is contiguous with the
   snapshot and the configuration the node uses is the one its durable state determines (membership stored in the snapshot metadata,
   then the last configuration entry above the snapshot index), the same holds afterwards.  Restrictions, exactly evK: delivered
   AppEnts batches have consecutive indices; proposals carry no configuration entries; a SnapshotDone metadata m satisfies
   snap_conf_ok (recording m leaves the logical configuration equal to the one in use, which is what raft.go guarantees because a
   snapshot covers only applied entries and carries the membership of the covered prefix); an InstallSnap needs the same only when
   the follower log already holds the snapshot's last entry, otherwise the follower adopts the snapshot membership.  The truncation
   by a conflicting AppEnts is shown to start above the snapshot index.  PARTIAL for C02: this is invariant (a) of the round 7
   induction over logical logs; the four clauses over the combined alphabet are not derived from it, see NOT YET PROVED *)
Theorem combined_alphabet_configuration_tracks_logical_log_partial :
  forall s ev k crashed st s',
    conf_logical s -> evK s ev ->
    run_event_crash (settle s) ev k = Ret (crashed, st, s') -> conf_logical s'.
Proof. exact conf_tracks_logical_step. Qed.
Print Assumptions combined_alphabet_configuration_tracks_logical_log_partial.

(* [PARTIAL] combined alphabet, run level: along every run of the annotated system astep (unrestricted events: membership changes,
   snapshots, InstallSnap traffic, restarts, crash points) whose steps satisfy evK at the node they run on, from a state in which
   every node satisfies conf_logical, every node of every reachable state has a log contiguous with its snapshot and uses exactly
   the configuration determined by its snapshot membership and the configuration entries above the snapshot index.  PARTIAL: the
   side conditions evK are hypotheses on the run, and the four clauses are not concluded *)
Theorem combined_alphabet_configuration_invariant_run_partial :
  forall (a0 a : asys) (sched : list sys_event),
    all_conf_logical a0 -> run asys sys_event kstep a0 sched a ->
    forall i s, get_node i (sy_nodes (fst a)) = Some s ->
      contig (n_p s) /\ n_conf s = init_latest_conf (n_p s).
Proof. exact conf_tracks_logical_sys. Qed.
Print Assumptions combined_alphabet_configuration_invariant_run_partial.

(* [FULL] non-vacuity for the combined alphabet, one run of kstep (astep plus evK at every step) from an initial state: 10 events to
   node 1 leader of term 2 under 1, 2; AddNode 3 committed; SnapshotDone on the leader through index 3 with the membership 1, 2, 3,
   which trims its whole log; the heartbeat sends InstallSnap to the lagging node 3 (empty log, no snapshot), which installs it and
   holds the members 1, 2, 3 from the snapshot metadata; RemoveNode 2 is appended as entry 4 above the snapshot, replicated to node 3
   and committed by the quorum of 1, 3.  Checked on the run: the premise adjP and with it election safety (theorem
   election_safety_all_membership_changes_partial, whose alphabet astep contains the snapshot events), the peer tables of leaders
   (invariant (d)), the round 9 configuration invariant on the final state, and the final views: nodes 1 and 3 hold the same entry 4
   above the same snapshot (3, term 2), node 2 still holds entries 1 to 3 whose last (3, term 2) agrees with that snapshot *)
Theorem combined_run_add_snapshot_remove_nonvacuous :
  ainit A0 /\ all_conf_logical A0 /\ run asys sys_event kstep A0 schedC C20 /\
  In (1, EAddNode 3 77, 0) schedC /\ In (1, ESnapDone sm3, 0) schedC /\ In (3, EDeliver q15, 0) schedC /\
  In (1, ERemoveNode 2, 0) schedC /\
  (body_kind q15, m_from q15, m_to q15) = (5, 1, 3) /\
  cview C15 =
    [(1, Leader, 2, [1; 2; 3], 3, [], Some (3, 2, [1; 2; 3]));
     (2, Follower, 2, [1; 2; 3], 2, [(1, 1); (2, 2); (3, 2)], None);
     (3, Follower, 0, [], 0, [], None)] /\
  cview C16 =
    [(1, Leader, 2, [1; 2; 3], 3, [], Some (3, 2, [1; 2; 3]));
     (2, Follower, 2, [1; 2; 3], 2, [(1, 1); (2, 2); (3, 2)], None);
     (3, Follower, 2, [1; 2; 3], 3, [], Some (3, 2, [1; 2; 3]))] /\
  cview C20 =
    [(1, Leader, 2, [1; 3], 4, [(4, 2)], Some (3, 2, [1; 2; 3]));
     (2, Follower, 2, [1; 2; 3], 2, [(1, 1); (2, 2); (3, 2)], None);
     (3, Follower, 2, [1; 3], 3, [(4, 2)], Some (3, 2, [1; 2; 3]))] /\
  ec_view (snd C20) = [(2, 1, [1; 2])] /\ adjP (snd C20) /\
  (forall t x y, In (t, x) (sy_hist (fst C20)) -> In (t, y) (sy_hist (fst C20)) -> x = y) /\
  (forall i s, get_node i (sy_nodes (fst C20)) = Some s -> n_role s = Leader ->
     forall id, In id (peer_ids s) <-> (memb_of s id /\ id <> n_id s)) /\
  (forall i s, get_node i (sy_nodes (fst C20)) = Some s ->
     contig (n_p s) /\ n_conf s = init_latest_conf (n_p s)).
Proof. exact combined_run_add_snapshot_remove. Qed.
Print Assumptions combined_run_add_snapshot_remove_nonvacuous.

(* ---------------------------------------------------------------- round 9: the leader loop contract on states with snapshots *)
From BLB Require Import Raft.LeaderSuffixS Raft.LeaderSuffixSExample.

(* [FULL] leader_commits_own_suffix with the start hypothesis lifted to states with snapshots: the start state s0 is a leader whose log is
   contiguous with its snapshot (contig, reachable-state invariant log_snapshot_contiguous), whose snapshot index is at most its
   commit index (reachable-state invariant of the snapshot rounds) and whose commit index equals its last index; the log may be
   trimmed, even to nothing.  Loop, events (Deliver of any message, Tick, Propose of any batch, Bootstrap, each completed without
   crash and leaving the node leader of the same term) and the lists lp_prop, lp_comm are those of leader_commits_own_suffix: after
   every further event lp_comm followed by the newly returned entries is a prefix of lp_prop including the batch proposed by
   that event.  AddNode, RemoveNode, SnapshotDone and Restart inside the loop stay outside *)
Theorem leader_commits_own_suffix_with_snapshots :
  forall s0 evs st1 ev st2,
    loop_start_snap s0 -> loop_run {| lp_node := s0; lp_prop := []; lp_comm := [] |} evs st1 -> loop_step st1 ev st2 ->
    lp_comm st2 = lp_comm st1 ++ n_commits (lp_node st2) /\
    lp_prop st2 = lp_prop st1 ++ proposed_by (lp_node st1) ev /\
    Raft.LeaderSuffix.prefix (lp_comm st1 ++ n_commits (lp_node st2)) (lp_prop st2).
Proof. exact leader_commits_own_suffix_snap_stepwise. Qed.
Print Assumptions leader_commits_own_suffix_with_snapshots.

(* [FULL] the same as a loop invariant with the exact lists, b being the index just below the first physical entry of the start log (the
   snapshot index when the log is trimmed to nothing): the node stays leader of the same term, lp_prop is the physical log beyond
   the commit index of the loop start and lp_comm the segment between that commit index and the current one *)
Theorem leader_commits_own_suffix_with_snapshots_invariant :
  forall s0 evs st,
    loop_start_snap s0 -> loop_run {| lp_node := s0; lp_prop := []; lp_comm := [] |} evs st ->
    let b := base_of (n_p s0) in
    let c0 := n_commit s0 in
    let s := lp_node st in
    n_role s = Leader /\ p_term (n_p s) = p_term (n_p s0) /\ c0 <= n_commit s /\ n_commit s <= b + lenS (n_p s) /\
    lp_prop st = skipn (N.to_nat (c0 - b)) (p_log (n_p s)) /\
    lp_comm st = seg (c0 - b) (n_commit s - b) (p_log (n_p s)).
Proof. exact leader_loop_invariant_snap. Qed.
Print Assumptions leader_commits_own_suffix_with_snapshots_invariant.

(* [FULL] the same in terms of the commands given to core.Propose, and the start condition of leader_commits_own_suffix is the special case
   without snapshot *)
Theorem leader_commits_own_suffix_with_snapshots_commands :
  (forall s0 evs st,
     loop_start_snap s0 -> loop_run {| lp_node := s0; lp_prop := []; lp_comm := [] |} evs st ->
     Raft.LeaderSuffix.prefix (map cmd_of (lp_comm st)) (map cmd_of (batches evs))) /\
  (forall s0, loop_start s0 -> loop_start_snap s0).
Proof. exact (conj leader_commits_own_suffix_snap_cmds loop_start_is_snap). Qed.
Print Assumptions leader_commits_own_suffix_with_snapshots_commands.

(* [FULL] non-vacuity: node 1 of the combined run at C17, leader of term 2 with an empty physical log behind the snapshot of index 3
   and commit index 3, satisfies the lifted start condition and not the old one; it proposes one command, ticks and receives the
   acknowledgement of node 3, which had installed the snapshot; the committed list is the one entry of index 4, equal to the
   proposed list *)
Theorem leader_commits_own_suffix_with_snapshots_nonvacuous :
  exists s0 evs st,
    loop_start_snap s0 /\ ~ loop_start s0 /\
    p_log (n_p s0) = [] /\ option_map sn_index (p_snap (n_p s0)) = Some 3 /\ n_commit s0 = 3 /\
    loop_run {| lp_node := s0; lp_prop := []; lp_comm := [] |} evs st /\
    lp_comm st = [{| e_term := 2; e_index := 4; e_type := EntryNormal; e_pl := [43%Z] |}] /\
    lp_prop st = lp_comm st /\ length evs = 3%nat.
Proof. exact leader_suffix_snap_nonvacuous. Qed.
Print Assumptions leader_commits_own_suffix_with_snapshots_nonvacuous.

(* ---------------------------------------------------------------- round 10: towards the four clauses over the combined alphabet *)
From BLB Require Raft.LogMatchNodeSQ Raft.LogMatchNodeSMQ Raft.InvWeaken Raft.MemberStepV.

(* [PARTIAL] combined alphabet, node level: the step summary of the log-matching pass (with the refined commit evidence in which the
   leader counts itself only as a member of its configuration) holds for AddNode and RemoveNode, and for every event of the
   snapshot rounds other than SnapshotDone and the delivery of InstallSnap, on a node WITH a snapshot, seen through its virtual
   node vn C s (logical log C followed by the physical log); any crash point, followed by newCore.  Premises: the virtual node
   is a base state, the store has the shape of a snapshot over the ghost prefix C, evokM (the added id is not the node and is
   not in the peer table), and the completeness premise premE for a delivered AppEnts.  PARTIAL for C02: a building block of
   the induction over the combined alphabet, see NOT YET PROVED *)
Theorem step_summary_membership_change_with_snapshots_partial :
  forall C s ev k crashed st s',
    LogMatchNodeQ.base (LogMatchNodeSQ.vn C s) -> LogMatchNodeSQ.shape C (n_p s) (n_commit s) ->
    LogMatchNodeMQ.evokM s ev -> LogMatchNodeSQ.premE C s ev ->
    run_event_crash (settle s) ev k = Ret (crashed, st, s') ->
    LogMatchNodeQ.inv (with_budget (settle (LogMatchNodeSQ.vn C s)) k) (LogMatchNodeQ.inp_of ev) (LogMatchNodeQ.boot_of ev)
      (LogMatchNodeQ.rt_of ev) (LogMatchNodeQ.vq_of ev) (LogMatchNodeQ.lq_of (LogMatchNodeSQ.vn C s)) (LogMatchNodeQ.dc_of ev)
      (LogMatchNodeQ.rsp_of ev) (LogMatchNodeSQ.vn C s') /\
    LogMatchNodeSQ.shape C (n_p s') (n_commit s').
Proof. exact LogMatchNodeSMQ.run_event_crash_lm_SM. Qed.
Print Assumptions step_summary_membership_change_with_snapshots_partial.

(* [PARTIAL] combined alphabet, system level: the state invariant MS of the membership-change rounds is preserved by an ABSTRACT step of
   one node, in which the node-level facts are hypotheses instead of consequences of run_event_crash on a snapshot-free node:
   the abstract node step, the refined node summary, the vote invariant EM of the post-state, the vote part of the node summary,
   the configuration-tracks-log fact and the peer-table facts of the post-state, and the shape of a continuing leader's log
   (unchanged, non-configuration entries appended, or one settled single-server configuration entry appended).  This is the
   form in which the step applies to the virtual nodes of a system with snapshots.  PARTIAL for C02: supplying these facts
   for SnapshotDone, InstallSnap deliveries and the generic events on nodes with snapshots at system level is not finished *)
Theorem membership_invariant_abstract_step_partial :
  forall bm be σ EC G A CL GR GL i s ev k s',
    MS bm be (σ, EC) G A CL GR GL ->
    get_node i (sy_nodes σ) = Some s ->
    (forall m, ev = EDeliver m -> In m (sy_soup σ) /\ m_to m <> 0) ->
    evres bm be ev ->
    nstep s ev k s' ->
    LogMatchNodeQ.inv (with_budget (settle s) k) (LogMatchNodeQ.inp_of ev) (LogMatchNodeQ.boot_of ev) (LogMatchNodeQ.rt_of ev)
      (LogMatchNodeQ.vq_of ev) (LogMatchNodeQ.lq_of s) (LogMatchNodeQ.dc_of ev) (LogMatchNodeQ.rsp_of ev) s' ->
    EM (step_sys σ s', EC ++ ec_of s s') ->
    cpart s s' (ev_msg ev) ->
    ctw s' -> peers_ok s' ->
    (n_role s = Leader -> p_term (n_p s') = p_term (n_p s) -> Raft.MemberLeaderLog.peers_sub s') ->
    (n_role s = Leader -> p_term (n_p s') = p_term (n_p s) -> Raft.MemberStepV.ShT s (p_log (n_p s'))) ->
    MS bm be (step_sys σ s', EC ++ ec_of s s') (G ++ rec_of s s') (A ++ acks_of s' ++ rec_acks (rec_of s s'))
       (CL ++ cl_of s s') (GR ++ gr_of G s s') (GL ++ gl_of G s s').
Proof. exact Raft.MemberStepV.MS_step_abs. Qed.
Print Assumptions membership_invariant_abstract_step_partial.

From BLB Require Raft.SnapVirtualQ Raft.SnapEventsQ Raft.MemberSnapNode Raft.MemberSnapLeader.

(* [PARTIAL] combined alphabet, node level: the two snapshot events as abstract steps of the virtual node, with the refined node summary.
   A SnapshotDone that is ignored or names an applied position of the logical log (legitS) is a step that leaves the logical log
   unchanged under a new ghost prefix; a delivered InstallSnap (li, lt, cf) under the completeness premise premV is the delivery
   of the stand-in AppEnts carrying the sender's committed prefix Cs; any crash point.  With the step summary for the other
   events these are the abstract node step and refined summary hypotheses of membership_invariant_abstract_step_partial for
   every event of the combined alphabet.  PARTIAL for C02: building block *)
Theorem snapshot_events_as_abstract_steps_partial :
  (forall C s m k crashed st s',
     LogMatchNodeQ.base (LogMatchNodeSQ.vn C s) -> LogMatchNodeSQ.shape C (n_p s) (n_commit s) ->
     (match p_snap (n_p s) with Some cur => sn_index m <=? sn_index cur | None => false end = false -> Raft.SnapEventsQ.legitS C s m) ->
     run_event_crash (settle s) (ESnapDone m) k = Ret (crashed, st, s') ->
     exists C', C' ++ p_log (n_p s') = C ++ p_log (n_p s) /\ LogMatchNodeSQ.shape C' (n_p s') (n_commit s') /\
                nstep (LogMatchNodeSQ.vn C s) ETick k (LogMatchNodeSQ.vn C' s') /\
                Raft.MemberSnapNode.NIQ (LogMatchNodeSQ.vn C s) ETick k (LogMatchNodeSQ.vn C' s')) /\
  (forall C s m li lt cf Cs k crashed st s',
     LogMatchNodeQ.base (LogMatchNodeSQ.vn C s) -> LogMatchNodeSQ.shape C (n_p s) (n_commit s) -> m_body m = InstallSnap li lt cf ->
     (p_term (n_p s) <= m_term m ->
      LogMatchNodeSQ.premV C (with_budget (settle (LogMatchNodeSQ.vn C s)) k) (n_p s) (m_term m) Cs li lt) ->
     run_event_crash (settle s) (EDeliver m) k = Ret (crashed, st, s') ->
     exists C', nstep (LogMatchNodeSQ.vn C s) (EDeliver (LogMatchNodeSQ.vmsg m Cs li)) k (LogMatchNodeSQ.vn C' s') /\
                Raft.MemberSnapNode.NIQ (LogMatchNodeSQ.vn C s) (EDeliver (LogMatchNodeSQ.vmsg m Cs li)) k (LogMatchNodeSQ.vn C' s') /\
                LogMatchNodeSQ.shape C' (n_p s') (n_commit s') /\ incl C' (C ++ p_log (n_p s) ++ Cs)).
Proof. exact (conj Raft.MemberSnapNode.vstep_snapdone Raft.MemberSnapNode.vstep_install). Qed.
Print Assumptions snapshot_events_as_abstract_steps_partial.

(* [PARTIAL] combined alphabet, node level: when the snapshot metadata carries the configuration of the logical prefix it covers
   (shapeC: sn_conf is the last configuration among the first sn_index entries of the logical log), invariant (a) of round 9 on
   the real node (the configuration in use is the one the durable state determines) IS invariant (a) of round 7 on the virtual
   node (the configuration in use is the last configuration entry of the logical log); and a SnapshotDone whose metadata names
   the configuration of the logical prefix it covers satisfies the side condition snap_conf_ok of round 9, which therefore
   says no more than that the state machine reports the membership as of the applied index it snapshots.  PARTIAL for C02:
   building block; the preservation of shapeC along runs is not finished *)
Theorem configuration_of_logical_log_partial :
  (forall C s cm,
     LogMatchNodeSQ.shape C (n_p s) cm -> Raft.MemberSnapNode.shapeC C (n_p s) -> n_conf s = init_latest_conf (n_p s) ->
     ctw (LogMatchNodeSQ.vn C s)) /\
  (forall C s m cm,
     LogMatchNodeSQ.shape C (n_p s) cm -> Raft.MemberSnapNode.shapeC C (n_p s) -> n_conf s = init_latest_conf (n_p s) ->
     N.of_nat (length C) <= sn_index m -> sn_index m <= N.of_nat (length (C ++ p_log (n_p s))) ->
     sn_conf m = lconf (firstn (N.to_nat (sn_index m)) (C ++ p_log (n_p s))) ->
     snap_conf_ok s m).
Proof. exact (conj Raft.MemberSnapNode.ctw_vn Raft.MemberSnapNode.snap_conf_ok_of_prefix). Qed.
Print Assumptions configuration_of_logical_log_partial.

(* [PARTIAL] combined alphabet, node level: a leader WITH a snapshot that ends an event (any event but SnapshotDone, proposals without
   configuration entries, any crash point, Restart included) in the same term holds its old physical log unchanged, extended by
   non-configuration entries, or extended by exactly one settled single-server configuration entry; except that a newCore which
   finds the log in disagreement with the snapshot may have discarded it.  PARTIAL for C02: building block *)
Theorem leader_log_shape_with_snapshots_partial :
  forall s ev k crashed st s',
    run_event_crash (settle s) ev k = Ret (crashed, st, s') ->
    n_role s = Leader -> p_term (n_p s') = p_term (n_p s) -> Raft.MemberSnapLeader.evL ev ->
    exists L1, Raft.MemberLeaderLog.Sh s L1 /\ (p_log (n_p s') = L1 \/ p_log (n_p s') = mem_truncate 0 L1).
Proof. exact Raft.MemberSnapLeader.leader_log_shape_snap. Qed.
Print Assumptions leader_log_shape_with_snapshots_partial.

(* ---------------------------------------------------------------- round 11: three clauses over the combined alphabet *)
From BLB Require Raft.SnapMetaPass Raft.MemberSnapSystem Raft.MemberSnapSystemU.

(* [FULL] node level, every event, every crash point: each InstallSnap a node emits in an event carries the snapshot metadata (index, term,
   membership) the node held at the start of the event, and the snapshot metadata of a node changes only through SnapshotDone and
   through the delivery of an InstallSnap, to the metadata named by that event *)
Theorem emitted_install_snapshot_carries_own_metadata :
  forall s ev k crashed st s',
    run_event_crash (settle s) ev k = Ret (crashed, st, s') ->
    Forall (Raft.SnapMetaPass.isqc (p_snap (n_p s))) (n_msgs s') /\
    (p_snap (n_p s') = p_snap (n_p s) \/ p_snap (n_p s') = Raft.SnapMetaPass.alt_of (p_snap (n_p s)) ev).
Proof. exact Raft.SnapMetaPass.snapshot_meta_step. Qed.
Print Assumptions emitted_install_snapshot_carries_own_metadata.

(* [FULL] clause 1, election safety over the COMBINED alphabet cstep, no premise on configurations: membership changes and snapshots in
   one run.  Alphabet: any number of nodes from initial states; every event of Core.run_event on any node with a crash after any
   durable mutation followed by newCore: bootstrap with the one membership bm, delivery of any message ever sent (InstallSnap
   included) any number of times or never, ticks, proposals without configuration entries, AddNode of another node, RemoveNode,
   SnapshotDone as fsm_loop.go issues it (an applied position with its term, and the membership the state machine holds at that
   position, which is the configuration of the store cut at the snapshot index), restarts.  Two nodes recorded as leader of the
   same term are the same node.  No restriction on deliveries: an InstallSnap may reach a node that is leader (round 12) *)
Theorem election_safety_combined :
  forall bm be, NoDup bm ->
  forall a0 a sched,
    minitS a0 -> run asys sys_event (Raft.MemberSnapSystemU.cstep bm be) a0 sched a ->
    forall t x y, In (t, x) (sy_hist (fst a)) -> In (t, y) (sy_hist (fst a)) -> x = y.
Proof. exact Raft.MemberSnapSystemU.election_safety_combined_sys. Qed.
Print Assumptions election_safety_combined.

(* [FULL] clause 3, log matching over the combined alphabet cstep, on logical logs: there is a ghost assignment Cf fitting the state (every
   store has the shape of its snapshot over the ghost prefix, and the snapshot metadata carries the configuration of the prefix it
   covers) such that two entries of equal index and term in the logical logs (ghost prefix followed by physical log) of two
   nodes are at the same position and the logs agree up to it *)
Theorem log_matching_combined :
  forall bm be, NoDup bm ->
  forall a0 a sched,
    minitS a0 -> run asys sys_event (Raft.MemberSnapSystemU.cstep bm be) a0 sched a ->
    exists Cf, Raft.MemberSnapSystemU.fitsC a Cf /\
      forall x y k k' e e',
        In x (sy_nodes (fst a)) -> In y (sy_nodes (fst a)) ->
        nth_error (Raft.MemberSnapSystemU.llogC Cf x) k = Some e -> nth_error (Raft.MemberSnapSystemU.llogC Cf y) k' = Some e' ->
        e_index e = e_index e' -> e_term e = e_term e' ->
        k = k' /\ firstn (Datatypes.S k) (Raft.MemberSnapSystemU.llogC Cf x) = firstn (Datatypes.S k) (Raft.MemberSnapSystemU.llogC Cf y).
Proof. exact Raft.MemberSnapSystemU.log_matching_combined_sys. Qed.
Print Assumptions log_matching_combined.

(* [FULL] clause 2, leader completeness over the combined alphabet cstep, on logical logs: whatever any node has committed at any moment
   of a run is in the logical log of every leader of a later term at any later moment, under per-configuration quorums that
   change along the run and across installed snapshots *)
Theorem leader_completeness_combined :
  forall bm be, NoDup bm ->
  forall a0 a1 a2 sched1 sched2,
    minitS a0 -> run asys sys_event (Raft.MemberSnapSystemU.cstep bm be) a0 sched1 a1 ->
    run asys sys_event (Raft.MemberSnapSystemU.cstep bm be) a1 sched2 a2 ->
    exists Cf1 Cf2, Raft.MemberSnapSystemU.fitsC a1 Cf1 /\ Raft.MemberSnapSystemU.fitsC a2 Cf2 /\
      forall x b,
        In x (sy_nodes (fst a1)) -> In b (sy_nodes (fst a2)) -> n_role b = Leader -> p_term (n_p x) < p_term (n_p b) ->
        (N.to_nat (n_commit x) <= length (Raft.MemberSnapSystemU.llogC Cf1 x))%nat /\
        firstn (N.to_nat (n_commit x)) (Raft.MemberSnapSystemU.llogC Cf2 b) = firstn (N.to_nat (n_commit x)) (Raft.MemberSnapSystemU.llogC Cf1 x).
Proof. exact Raft.MemberSnapSystemU.leader_completeness_combined_sys. Qed.
Print Assumptions leader_completeness_combined.

From BLB Require Raft.MemberSnapSystemU Raft.CombinedRunC Raft.CombinedRunU.

(* [FULL] non-vacuity of the combined alphabet cstep with bm = 1, 2: the 20-step combined run replayed as a run of cstep from an initial state,
   every side condition checked at its step: AddNode 3 committed; SnapshotDone on the leader at the applied position 3 with its
   term 2 and the configuration 1, 2, 3 of the store cut at index 3, which trims the whole log; the InstallSnap sent to the
   lagging follower 3 and installed by it; RemoveNode 2 appended above the snapshot and committed by the
   quorum of 1, 3.  The three combined theorems are instantiated on this run: election safety on the final state, log matching
   on the logical logs of the final state, leader completeness between the state after AddNode and the final state *)
Theorem combined_run_nonvacuous :
  minitS A0 /\ NoDup [1; 2] /\ run asys sys_event (Raft.MemberSnapSystemU.cstep [1; 2] 5) A0 schedC C20 /\
  (In (1, EAddNode 3 77, 0) schedC /\ In (1, ESnapDone sm3, 0) schedC /\ In (3, EDeliver q15, 0) schedC /\ In (1, ERemoveNode 2, 0) schedC) /\
  (body_kind q15, m_from q15, m_to q15) = (5, 1, 3) /\
  cview C16 =
    [(1, Leader, 2, [1; 2; 3], 3, [], Some (3, 2, [1; 2; 3]));
     (2, Follower, 2, [1; 2; 3], 2, [(1, 1); (2, 2); (3, 2)], None);
     (3, Follower, 2, [1; 2; 3], 3, [], Some (3, 2, [1; 2; 3]))] /\
  cview C20 =
    [(1, Leader, 2, [1; 3], 4, [(4, 2)], Some (3, 2, [1; 2; 3]));
     (2, Follower, 2, [1; 2; 3], 2, [(1, 1); (2, 2); (3, 2)], None);
     (3, Follower, 2, [1; 3], 3, [(4, 2)], Some (3, 2, [1; 2; 3]))] /\
  (forall t x y, In (t, x) (sy_hist (fst C20)) -> In (t, y) (sy_hist (fst C20)) -> x = y) /\
  (exists Cf, Raft.MemberSnapSystemU.fitsC C20 Cf /\
     forall x y k k' e e',
       In x (sy_nodes (fst C20)) -> In y (sy_nodes (fst C20)) ->
       nth_error (Raft.MemberSnapSystemU.llogC Cf x) k = Some e -> nth_error (Raft.MemberSnapSystemU.llogC Cf y) k' = Some e' ->
       e_index e = e_index e' -> e_term e = e_term e' ->
       k = k' /\ firstn (Datatypes.S k) (Raft.MemberSnapSystemU.llogC Cf x) = firstn (Datatypes.S k) (Raft.MemberSnapSystemU.llogC Cf y)) /\
  (exists Cf1 Cf2, Raft.MemberSnapSystemU.fitsC A13 Cf1 /\ Raft.MemberSnapSystemU.fitsC C20 Cf2 /\
     forall x b,
       In x (sy_nodes (fst A13)) -> In b (sy_nodes (fst C20)) -> n_role b = Leader -> p_term (n_p x) < p_term (n_p b) ->
       (N.to_nat (n_commit x) <= length (Raft.MemberSnapSystemU.llogC Cf1 x))%nat /\
       firstn (N.to_nat (n_commit x)) (Raft.MemberSnapSystemU.llogC Cf2 b) = firstn (N.to_nat (n_commit x)) (Raft.MemberSnapSystemU.llogC Cf1 x)).
Proof. exact Raft.CombinedRunU.combined_run_nonvacuous_U. Qed.
Print Assumptions combined_run_nonvacuous.

From BLB Require Raft.LeaderInstall Raft.MemberSnapSMS Raft.CombinedRunSMS.

(* [FULL] node level, any crash point: a node that is leader when an InstallSnap is delivered to it and that ends the event in the same term
   has changed neither its log nor its snapshot metadata (the message was dropped or stale; one of the leader's own term is
   fatal in core.go, one of a higher term raises the term); this removes the delivery restriction of round 11 *)
Theorem leader_ignores_install_snapshot :
  forall C s m li lt cf k crashed st s',
    LogMatchNodeSQ.shape C (n_p s) (n_commit s) -> n_role s = Leader -> m_body m = InstallSnap li lt cf ->
    run_event_crash (settle s) (EDeliver m) k = Ret (crashed, st, s') -> p_term (n_p s') = p_term (n_p s) ->
    p_log (n_p s') = p_log (n_p s) /\ p_snap (n_p s') = p_snap (n_p s).
Proof. exact Raft.LeaderInstall.leader_install_unchanged. Qed.
Print Assumptions leader_ignores_install_snapshot.

(* [FULL] clause 4, state machine safety over the combined alphabet cstep (membership changes, snapshots, trims, InstallSnap traffic,
   restarts, crash points in one run, no restriction on deliveries): entries handed to the state machine by any two nodes at any
   two moments of a run with the same index are equal *)
Theorem state_machine_safety_combined :
  forall bm be, NoDup bm ->
  forall a0 a1 a2 sched1 sched2,
    minitS a0 -> run asys sys_event (Raft.MemberSnapSystemU.cstep bm be) a0 sched1 a1 ->
    run asys sys_event (Raft.MemberSnapSystemU.cstep bm be) a1 sched2 a2 ->
    forall n1 n2 x y,
      In n1 (sy_nodes (fst a1)) -> In n2 (sy_nodes (fst a2)) -> In x (n_commits n1) -> In y (n_commits n2) ->
      e_index x = e_index y -> x = y.
Proof. exact Raft.MemberSnapSMS.state_machine_safety_combined_sys. Qed.
Print Assumptions state_machine_safety_combined.

(* [FULL] non-vacuity of state_machine_safety_combined: instantiated between the state after AddNode (where an entry of index 3 has just
   been handed to the state machine) and the final state of the 20-step combined run (where the entry of index 4, the removal
   of node 2 committed above the snapshot, has just been handed over) *)
Theorem state_machine_safety_combined_nonvacuous :
  run asys sys_event (Raft.MemberSnapSystemU.cstep [1; 2] 5) A0 (sched10 ++ Raft.CombinedRunC.sched13) A13 /\
  run asys sys_event (Raft.MemberSnapSystemU.cstep [1; 2] 5) A13 Raft.CombinedRunC.schedT C20 /\
  (forall n1 n2 x y, In n1 (sy_nodes (fst A13)) -> In n2 (sy_nodes (fst C20)) -> In x (n_commits n1) -> In y (n_commits n2) ->
     e_index x = e_index y -> x = y) /\
  existsb (fun s => existsb (fun y => e_index y =? 3) (n_commits s)) (sy_nodes (fst A13)) = true /\
  existsb (fun s => existsb (fun y => e_index y =? 4) (n_commits s)) (sy_nodes (fst C20)) = true.
Proof. exact Raft.CombinedRunSMS.combined_run_sms. Qed.
Print Assumptions state_machine_safety_combined_nonvacuous.

(* ---------------------------------------------------------------- round 13: the leader loop with reconfiguration and snapshots *)
From BLB Require Raft.LeaderSuffixR Raft.LeaderSuffixRExample.

(* [FULL] leader_commits_own_suffix for leaderships that contain AddNode, RemoveNode and SnapshotDone events: start state as in
   leader_commits_own_suffix_with_snapshots (leader, log contiguous with the snapshot, snapshot index at most commit index, commit
   index equal to last index); the loop runs Deliver of any message, Tick, Propose of any batch, Bootstrap, AddNode and RemoveNode
   as the core accepts or refuses them, each completed without crash and leaving the node leader of the same term, and
   SnapshotDone at an applied position (index between 1 and the commit index).  lp_prop accumulates what was handed to the log:
   the stamped batch of a Propose and the configuration entry the core itself appends for an accepted AddNode or RemoveNode (an
   own-term entry of the leader's log; nothing when it refuses); lp_comm accumulates what TakeNewlyCommitted returned.  After
   every further event lp_comm followed by the newly returned entries is a prefix of lp_prop.  Restart ends a leadership and
   stays outside.  The SnapshotDone case and the loop invariant are those of C03 LeaderLoopSnap.v *)
Theorem leader_commits_own_suffix_with_reconfiguration :
  forall s0 evs st1 ev st2,
    loop_start_snap s0 ->
    Raft.LeaderSuffixR.loop_runR {| lp_node := s0; lp_prop := []; lp_comm := [] |} evs st1 ->
    Raft.LeaderSuffixR.loop_stepR st1 ev st2 ->
    lp_comm st2 = lp_comm st1 ++ n_commits (lp_node st2) /\
    lp_prop st2 = lp_prop st1 ++ Raft.LeaderSuffixR.proposed_byR (lp_node st1) ev (lp_node st2) /\
    Raft.LeaderSuffix.prefix (lp_comm st1 ++ n_commits (lp_node st2)) (lp_prop st2).
Proof. exact Raft.LeaderSuffixR.leader_commits_own_suffix_with_reconfiguration. Qed.
Print Assumptions leader_commits_own_suffix_with_reconfiguration.

(* [FULL] what a reconfiguration event of the loop appends: the leader's log is unchanged, or extended by exactly one settled single-server
   configuration entry of the current term (Sh); and non-vacuity: node 1 of the combined run, leader of term 2 with an empty
   physical log behind the snapshot of index 3, accepts RemoveNode 2, which appends the configuration entry 4, then receives the
   acknowledgement of node 3: the proposed list is that one entry and it is committed and handed over *)
Theorem leader_commits_own_suffix_with_reconfiguration_nonvacuous :
  (forall s ev code s',
     n_role s = Leader -> Raft.LeaderSuffixR.reconf_event ev -> run_event (settle s) ev = Ret (code, s') ->
     p_term (n_p s') = p_term (n_p s) -> Raft.MemberLeaderLog.Sh s (p_log (n_p s'))) /\
  (exists s0 evs st,
     loop_start_snap s0 /\ p_log (n_p s0) = [] /\ n_commit s0 = 3 /\
     Raft.LeaderSuffixR.loop_runR {| lp_node := s0; lp_prop := []; lp_comm := [] |} evs st /\
     evs = [ERemoveNode 2; EDeliver q19] /\
     map (fun e => (e_index e, e_term e, e_type e)) (lp_prop st) = [(4, 2, EntryConf)] /\
     lp_comm st = lp_prop st /\ n_commit (lp_node st) = 4).
Proof. exact (conj Raft.LeaderSuffixRExample.reconf_appended_shape Raft.LeaderSuffixRExample.leader_suffix_reconf_nonvacuous). Qed.
Print Assumptions leader_commits_own_suffix_with_reconfiguration_nonvacuous.

(* ---------------------------------------------------------------- round 13: AddNode of the own id *)
From BLB Require Raft.MemberSnapSystemW.

(* [FULL] node level, core.go AddNode and core_leader.go addNode: a request to add the node's OWN id is refused and changes nothing when the node is
   not leader (E_NOT_LEADER), or is a member of its latest configuration (E_NODE_EXISTS), or its latest configuration is not yet
   committed (E_TOO_MANY); it never crashes.  The only case in which the core would accept it - a leader that is not a member of
   its latest configuration although that configuration is committed - does not arise on the real code because such a leader has
   stepped down; that reachable-state fact is not proved, see NOT YET PROVED *)
Theorem add_node_of_self_is_refused :
  forall s rnd,
    n_role s <> Leader \/ in_latest_conf s = true \/ latest_conf_committed s = false ->
    match add_node s (n_id s) rnd with
    | Ret (code, x) => x = s /\ (code = E_NOT_LEADER \/ code = E_NODE_EXISTS \/ code = E_TOO_MANY)
    | Crashed _ => False
    | Fatal _ => True
    end.
Proof. exact Raft.MemberSnapSystemW.add_self_refused. Qed.
Print Assumptions add_node_of_self_is_refused.

(* [FULL] the four clauses over the combined alphabet wstep, in which the side condition on AddNode is weakened to what the code needs: a node MAY
   be asked to add itself whenever the core refuses the request (not leader, or member of its latest configuration, or latest
   configuration uncommitted).  Such a step reaches the same state as a refused RemoveNode of a non-member, so every run of wstep
   is a run of cstep with another schedule, and election safety, log matching, leader completeness and state machine safety
   carry over.  The other side conditions are those of cstep *)
Theorem four_clauses_combined_with_refused_self_add :
  forall bm be, NoDup bm ->
  (forall a0 a sched,
     minitS a0 -> run asys sys_event (Raft.MemberSnapSystemW.wstep bm be) a0 sched a ->
     forall t x y, In (t, x) (sy_hist (fst a)) -> In (t, y) (sy_hist (fst a)) -> x = y) /\
  (forall a0 a sched,
     minitS a0 -> run asys sys_event (Raft.MemberSnapSystemW.wstep bm be) a0 sched a ->
     exists Cf, Raft.MemberSnapSystemU.fitsC a Cf /\
       forall x y k k' e e',
         In x (sy_nodes (fst a)) -> In y (sy_nodes (fst a)) ->
         nth_error (Raft.MemberSnapSystemU.llogC Cf x) k = Some e -> nth_error (Raft.MemberSnapSystemU.llogC Cf y) k' = Some e' ->
         e_index e = e_index e' -> e_term e = e_term e' ->
         k = k' /\ firstn (Datatypes.S k) (Raft.MemberSnapSystemU.llogC Cf x) = firstn (Datatypes.S k) (Raft.MemberSnapSystemU.llogC Cf y)) /\
  (forall a0 a1 a2 sched1 sched2,
     minitS a0 -> run asys sys_event (Raft.MemberSnapSystemW.wstep bm be) a0 sched1 a1 ->
     run asys sys_event (Raft.MemberSnapSystemW.wstep bm be) a1 sched2 a2 ->
     exists Cf1 Cf2, Raft.MemberSnapSystemU.fitsC a1 Cf1 /\ Raft.MemberSnapSystemU.fitsC a2 Cf2 /\
       forall x b,
         In x (sy_nodes (fst a1)) -> In b (sy_nodes (fst a2)) -> n_role b = Leader -> p_term (n_p x) < p_term (n_p b) ->
         (N.to_nat (n_commit x) <= length (Raft.MemberSnapSystemU.llogC Cf1 x))%nat /\
         firstn (N.to_nat (n_commit x)) (Raft.MemberSnapSystemU.llogC Cf2 b) = firstn (N.to_nat (n_commit x)) (Raft.MemberSnapSystemU.llogC Cf1 x)) /\
  (forall a0 a1 a2 sched1 sched2,
     minitS a0 -> run asys sys_event (Raft.MemberSnapSystemW.wstep bm be) a0 sched1 a1 ->
     run asys sys_event (Raft.MemberSnapSystemW.wstep bm be) a1 sched2 a2 ->
     forall n1 n2 x y,
       In n1 (sy_nodes (fst a1)) -> In n2 (sy_nodes (fst a2)) -> In x (n_commits n1) -> In y (n_commits n2) ->
       e_index x = e_index y -> x = y).
Proof.
  intros bm be Hbm.
  exact (conj (Raft.MemberSnapSystemW.election_safety_combined_w bm be Hbm)
        (conj (Raft.MemberSnapSystemW.log_matching_combined_w bm be Hbm)
        (conj (Raft.MemberSnapSystemW.leader_completeness_combined_w bm be Hbm)
              (Raft.MemberSnapSystemW.state_machine_safety_combined_w bm be Hbm)))).
Qed.
Print Assumptions four_clauses_combined_with_refused_self_add.

(* ---------------------------------------------------------------- round 14: a non-member with committed configuration does not lead *)
From BLB Require Raft.NonMemberLeader.

(* [PARTIAL] node level, the three guards of core_candidate.go and core_leader.go behind the statement J: a node whose role is not Follower
   and whose latest configuration is committed is a member of it.  (1) enterCandidate: a non-member with committed configuration
   steps back to follower instead of campaigning; (2) leaderCommitUpTo preserves J: the commit that makes a configuration
   without the leader committed makes it step down; (3) a configuration the leader sets itself (addNode, removeNode) has index
   lastIndex plus one, above the commit index (verifyNopCommitted has read the term at the commit index), so it is uncommitted
   when it is set.  PARTIAL: J as a reachable-state invariant over every event of the combined alphabet (walk through the
   remaining handlers, none of which changes role, configuration and commit index of a candidate or leader other than through
   these three places) is not assembled, so the residual side condition of wstep stays *)
Theorem non_member_leader_guards_partial :
  (forall s, in_latest_conf s = false -> latest_conf_committed s = true -> enter_candidate s = Ret (become_follower s 0)) /\
  (forall s i s', Raft.NonMemberLeader.Jnm s -> leader_commit_up_to s i = Ret s' -> Raft.NonMemberLeader.Jnm s') /\
  (forall s nc, verify_nop_committed s = Ret tt -> mb_index nc = last_index (n_p s) + 1 ->
                latest_conf_committed (set_conf s (Some nc)) = false).
Proof.
  exact (conj Raft.NonMemberLeader.enter_candidate_guard
        (conj Raft.NonMemberLeader.leader_commit_up_to_guard Raft.NonMemberLeader.own_conf_uncommitted)).
Qed.
Print Assumptions non_member_leader_guards_partial.

(* ---------------------------------------------------------------- round 15: AddNode of any id, side condition (iii) dropped *)
From BLB Require Raft.NonMemberPass Raft.MemberSnapSystemX.

(* [FULL] node level, every event and crash point: the statement J (a node whose role is not Follower and whose latest configuration is committed
   is a member of it) is preserved.  The walk: the follower handlers keep the role Follower; enterCandidate refuses to campaign
   for a non-member with committed configuration; a candidate that becomes leader keeps configuration and commit index;
   leaderCommitUpTo steps down when its commit makes a configuration without the leader committed; the configuration set by
   addNode or removeNode is uncommitted when set; every other handler leaves role, configuration, commit index and id of a
   non-follower alone or makes it a follower; newCore starts as follower *)
Theorem non_member_invariant_step :
  forall s ev k crashed st s',
    Raft.NonMemberLeader.Jnm s -> run_event_crash (settle s) ev k = Ret (crashed, st, s') -> Raft.NonMemberLeader.Jnm s'.
Proof. exact Raft.NonMemberPass.non_member_step. Qed.
Print Assumptions non_member_invariant_step.

(* [FULL] reachable-state invariant over the combined alphabet xstep, in which AddNode may name ANY id, the node's own included: in every
   reachable state a node whose role is not Follower and whose latest configuration is committed is a member of it; in
   particular a leader asked to add itself is a member or has an uncommitted configuration, and the core refuses *)
Theorem non_follower_with_committed_conf_is_member :
  forall bm be a0 a sched,
    minitS a0 -> run asys sys_event (Raft.MemberSnapSystemX.xstep bm be) a0 sched a ->
    forall i s, get_node i (sy_nodes (fst a)) = Some s ->
      n_role s <> Follower -> latest_conf_committed s = true -> in_latest_conf s = true.
Proof. exact Raft.MemberSnapSystemX.non_follower_with_committed_conf_is_member_sys. Qed.
Print Assumptions non_follower_with_committed_conf_is_member.

(* [FULL] the four clauses over the combined alphabet xstep: cstep WITHOUT side condition (iii), AddNode of any id allowed.  By the invariant
   above every run of xstep is a run of wstep, hence (with another schedule) of cstep; election safety, log matching, leader
   completeness and state machine safety carry over.  Remaining side conditions: (i) one duplicate-free bootstrap membership,
   (ii) proposals carry no configuration entries, (iv) SnapshotDone as fsm_loop.go issues it *)
Theorem four_clauses_combined_unrestricted_self_add :
  forall bm be, NoDup bm ->
  (forall a0 a sched,
     minitS a0 -> run asys sys_event (Raft.MemberSnapSystemX.xstep bm be) a0 sched a ->
     forall t x y, In (t, x) (sy_hist (fst a)) -> In (t, y) (sy_hist (fst a)) -> x = y) /\
  (forall a0 a sched,
     minitS a0 -> run asys sys_event (Raft.MemberSnapSystemX.xstep bm be) a0 sched a ->
     exists Cf, Raft.MemberSnapSystemU.fitsC a Cf /\
       forall x y k k' e e',
         In x (sy_nodes (fst a)) -> In y (sy_nodes (fst a)) ->
         nth_error (Raft.MemberSnapSystemU.llogC Cf x) k = Some e -> nth_error (Raft.MemberSnapSystemU.llogC Cf y) k' = Some e' ->
         e_index e = e_index e' -> e_term e = e_term e' ->
         k = k' /\ firstn (Datatypes.S k) (Raft.MemberSnapSystemU.llogC Cf x) = firstn (Datatypes.S k) (Raft.MemberSnapSystemU.llogC Cf y)) /\
  (forall a0 a1 a2 sched1 sched2,
     minitS a0 -> run asys sys_event (Raft.MemberSnapSystemX.xstep bm be) a0 sched1 a1 ->
     run asys sys_event (Raft.MemberSnapSystemX.xstep bm be) a1 sched2 a2 ->
     exists Cf1 Cf2, Raft.MemberSnapSystemU.fitsC a1 Cf1 /\ Raft.MemberSnapSystemU.fitsC a2 Cf2 /\
       forall x b,
         In x (sy_nodes (fst a1)) -> In b (sy_nodes (fst a2)) -> n_role b = Leader -> p_term (n_p x) < p_term (n_p b) ->
         (N.to_nat (n_commit x) <= length (Raft.MemberSnapSystemU.llogC Cf1 x))%nat /\
         firstn (N.to_nat (n_commit x)) (Raft.MemberSnapSystemU.llogC Cf2 b) = firstn (N.to_nat (n_commit x)) (Raft.MemberSnapSystemU.llogC Cf1 x)) /\
  (forall a0 a1 a2 sched1 sched2,
     minitS a0 -> run asys sys_event (Raft.MemberSnapSystemX.xstep bm be) a0 sched1 a1 ->
     run asys sys_event (Raft.MemberSnapSystemX.xstep bm be) a1 sched2 a2 ->
     forall n1 n2 x y,
       In n1 (sy_nodes (fst a1)) -> In n2 (sy_nodes (fst a2)) -> In x (n_commits n1) -> In y (n_commits n2) ->
       e_index x = e_index y -> x = y).
Proof.
  intros bm be Hbm.
  exact (conj (Raft.MemberSnapSystemX.election_safety_combined_x bm be Hbm)
        (conj (Raft.MemberSnapSystemX.log_matching_combined_x bm be Hbm)
        (conj (Raft.MemberSnapSystemX.leader_completeness_combined_x bm be Hbm)
              (Raft.MemberSnapSystemX.state_machine_safety_combined_x bm be Hbm)))).
Qed.
Print Assumptions four_clauses_combined_unrestricted_self_add.

(* NOT YET PROVED (statements kept visible; listed in props/C02.json not_yet_proved):
   the four clauses are proved over the combined alphabet (see the INDEX at the top); side condition (iii) is gone
   (four_clauses_combined_unrestricted_self_add, round 15: AddNode may name any id).  What remains are three side conditions of
   the alphabet which are assumptions about the environment of the core, not theorems about raft.go:
   (i) one bootstrap membership without duplicates (an operator action);
   (ii) proposals carry no configuration entries: the public API Raft.Propose takes a byte slice and wraps it into an EntryNormal,
        configuration entries are built only by addNode and removeNode; a fact about Go types, not stated in Coq;
   (iv) SnapshotDone is issued as fsm_loop.go issues it: an applied position, its term and lastAppliedMembership; the state machine
        loop is outside the model, so this is an assumption about fsm_loop.go checked by reading it.
   The leader-loop contract (leader_commits_own_suffix_with_reconfiguration) covers AddNode, RemoveNode and SnapshotDone inside the
   loop; its start condition (commit index = last index once the term's NOP is applied) is an assumption about raft.go's loop,
   and events that crash or end the leadership (Restart) are outside by definition.
   On the real code all four clauses are evaluated after every event by the monitors of the Go simulation, whose random
   schedules mix snapshots, trims, AddNode and RemoveNode. *)
