(* C02/Props.v — property-level theorems only. Tags [FULL]/[PARTIAL]/[REFUTED] are read by bin/check.
   The model is Raft/Core.v (every handler of pkg/raft/raft transcribed, each log.Fatalf an explicit outcome), tied to the
   Go code on every run by the correspondence of Raft/Wire.v.run_case with the real `core` objects. *)
From Coq Require Import List NArith ZArith.
From BLB Require Import Raft.Core C02.Proofs.
Import ListNotations.
Open Scope N_scope.

(* [PARTIAL] building block: the durable term is written by no storage mutation other than SaveState *)
Theorem term_written_only_by_save_state :
  forall p m, p_term (apply_mut p m) <> p_term p -> exists v t, m = MSaveState v t.
Proof. exact C02.Proofs.term_written_only_by_save_state. Qed.
Print Assumptions term_written_only_by_save_state.

(* [FULL] invariant E1 of election safety, for every node state whatsoever, every event (delivery of any message, tick,
   proposal, reconfiguration request, snapshot, restart) and every crash point k inside the event followed by
   restart: the durable term never decreases *)
Theorem term_monotone :
  forall s ev k crashed st s',
    run_event_crash s ev k = Ret (crashed, st, s') -> p_term (n_p s) <= p_term (n_p s').
Proof. exact term_monotone_lemma. Qed.
Print Assumptions term_monotone.

(* [FULL] invariant E2, vote once per term with persistence across Restart and across a crash at any durable mutation:
   while the term stays the same a vote that has been cast is never changed or forgotten *)
Theorem vote_once_per_term :
  forall s ev k crashed st s',
    run_event_crash s ev k = Ret (crashed, st, s') ->
    p_term (n_p s') = p_term (n_p s) -> p_vote (n_p s) <> 0 -> p_vote (n_p s') = p_vote (n_p s).
Proof. exact vote_once_per_term_lemma. Qed.
Print Assumptions vote_once_per_term.
