(* C07/A_Repaired.v — part A: the repaired start-up (fixes/F10-raft-reconcile-log-with-snapshot-on-start.patch) in the model,
   and the two facts that carve F10 out of restart_never_fatal:
     new_core_fixed_consistent : from ANY surviving persistent state with a well-formed log (i.e. after a crash at any
                                 point whatsoever) the repaired newCore leaves storage in which the snapshot is a
                                 prefix of the log;
     no_gap_when_consistent    : on such storage no AppEnts whose entries start right after prevLogIndex can reach the
                                 `bug: there's gap ...` Fatalf (the one F10 dies with). *)
From Coq Require Import List NArith ZArith Bool Lia.
From BLB Require Import Raft.Core Raft.NodeProofs.
Import ListNotations.
Open Scope N_scope.

(* ---------------------------------------------------------------- well-formed logs and the storage relation *)
Fixpoint chain (prev : entry) (l : list entry) : Prop :=
  match l with
  | [] => True
  | e :: r => e_index e = e_index prev + 1 /\ chain e r
  end.

Definition log_wf (l : list entry) : Prop :=
  match l with [] => True | e :: r => 1 <= e_index e /\ chain e r end.

(* "snapshot is always a prefix of the log" (storage.go lastIndex), as the recovery code relies on it *)
Definition storage_ok (p : pstate) : Prop :=
  match p_snap p, log_first (p_log p), log_last (p_log p) with
  | Some m, Some fi, Some li =>
      sn_index m <= li /\ fi <= sn_index m + 1 /\
      (fi <= sn_index m -> log_term p (sn_index m) = Ret (sn_term m))
  | _, _, _ => True
  end.

(* reconcileLogWithSnapshot is part of Core.new_core now (fix F10 committed) *)
Definition new_core_fixed := new_core.

(* ---------------------------------------------------------------- truncating a well-formed log at 0 empties it *)
Lemma chain_ge prev l : chain prev l -> Forall (fun e => e_index prev < e_index e) l.
Proof.
  revert prev. induction l as [| e r IH]; intros prev H; constructor.
  - destruct H as [A _]. lia.
  - destruct H as [A B]. specialize (IH e B). eapply Forall_impl; [| exact IH]. simpl. intros a Ha. lia.
Qed.

Lemma log_wf_pos l : log_wf l -> Forall (fun e => 0 < e_index e) l.
Proof.
  destruct l as [| e r]; intro H; constructor.
  - destruct H. lia.
  - destruct H as [A B]. apply chain_ge in B. eapply Forall_impl; [| exact B]. simpl. intros a Ha. lia.
Qed.

Lemma drop_while_all {A} (f : A -> bool) l : Forall (fun x => f x = true) l -> drop_while f l = [].
Proof. induction 1; simpl; auto. rewrite H. auto. Qed.

Lemma truncate0_wf l : log_wf l -> mem_truncate 0 l = [].
Proof.
  intro H. unfold mem_truncate. rewrite drop_while_all; auto.
  apply Forall_rev. apply log_wf_pos in H. eapply Forall_impl; [| exact H]. simpl. intros a Ha.
  apply N.ltb_lt. exact Ha.
Qed.

(* ---------------------------------------------------------------- newCore does not touch log and snapshot *)
Lemma do_mut_filter_ls s ids s1 :
  do_mut (MFilterGuids ids) s = Ret s1 -> p_log (n_p s1) = p_log (n_p s) /\ p_snap (n_p s1) = p_snap (n_p s).
Proof.
  unfold do_mut. destruct (negb (n_budget s =? 0) && (n_budget s =? n_cnt s + 1)); [discriminate|].
  intro E. inversion E. simpl. auto.
Qed.

Lemma commit_up_to_ls s i s1 :
  commit_up_to s i = Ret s1 -> p_log (n_p s1) = p_log (n_p s) /\ p_snap (n_p s1) = p_snap (n_p s).
Proof.
  unfold commit_up_to.
  match goal with |- (match ?x with _ => _ end) = _ -> _ => destruct x end.
  - destruct (negb (sn_index s0 =? i)); [discriminate|]. intro E. inversion E. simpl. auto.
  - destruct (log_entries (n_p s) (n_commit s + 1) (i + 1)); simpl; try discriminate.
    match goal with |- (if ?c then _ else _) = _ -> _ => destruct c end.
    + match goal with |- (match ?x with _ => _ end) = _ -> _ => destruct x end; [| discriminate].
      intro E. apply do_mut_filter_ls in E. simpl in E. exact E.
    + intro E. inversion E. simpl. auto.
Qed.

Lemma new_core_ls id cfg p s1 :
  new_core id cfg p = Ret s1 ->
  exists r, reconcile (blank_node id cfg p) = Ret r /\ p_log (n_p s1) = p_log (n_p r) /\ p_snap (n_p s1) = p_snap (n_p r).
Proof.
  unfold new_core. destruct (reconcile (blank_node id cfg p)) as [r | |] eqn:Er; simpl; try discriminate.
  intro H. exists r. split; [reflexivity|].
  destruct (p_snap (n_p r)) eqn:Es.
  - destruct (commit_up_to (set_conf (blank_node id cfg (n_p r)) (init_latest_conf (n_p r))) (sn_index s)) eqn:E; simpl in H; try discriminate.
    inversion H. simpl. apply commit_up_to_ls in E. simpl in E. rewrite Es in E. exact E.
  - simpl in H. inversion H. simpl. auto.
Qed.

Lemma storage_ok_ext p q : p_log q = p_log p -> p_snap q = p_snap p -> storage_ok p -> storage_ok q.
Proof.
  intros Hl Hs. unfold storage_ok, log_term, log_entries. rewrite Hl, Hs. auto.
Qed.

Lemma storage_ok_empty_log p : p_log p = [] -> storage_ok p.
Proof. intro H. unfold storage_ok. rewrite H. simpl. destruct (p_snap p); auto. Qed.

(* ---------------------------------------------------------------- T1 *)
Lemma reconcile_ok s s1 :
  log_wf (p_log (n_p s)) -> n_budget s = 0 -> reconcile s = Ret s1 -> storage_ok (n_p s1).
Proof.
  intros Hwf Hb. unfold reconcile.
  destruct (p_snap (n_p s)) as [m |] eqn:Es.
  2: { intro E. inversion E. subst. unfold storage_ok. rewrite Es. auto. }
  destruct (log_first (p_log (n_p s))) as [fi |] eqn:Ef.
  2: { intro E. inversion E. subst. unfold storage_ok. rewrite Es, Ef. auto. }
  destruct (log_last (p_log (n_p s))) as [li |] eqn:El.
  2: { intro E. inversion E. subst. unfold storage_ok. rewrite Es, Ef, El. auto. }
  assert (Htr : forall s2, do_mut (MTruncate 0) s = Ret s2 -> storage_ok (n_p s2)).
  { unfold do_mut. rewrite Hb. simpl. intros s2 E. inversion E. simpl.
    apply storage_ok_empty_log. simpl. apply truncate0_wf. exact Hwf. }
  destruct ((li <? sn_index m) || (sn_index m + 1 <? fi)) eqn:Ebad; [apply Htr|].
  apply orb_false_iff in Ebad. destruct Ebad as [E1 E2]. apply N.ltb_ge in E1, E2.
  destruct (fi <=? sn_index m) eqn:E3.
  - destruct (log_term (n_p s) (sn_index m)) as [t | c | q] eqn:Et; simpl; try discriminate.
    destruct (negb (t =? sn_term m)) eqn:E4; [apply Htr|].
    intro E. inversion E. subst. unfold storage_ok. rewrite Es, Ef, El. repeat split; auto.
    intros _. rewrite Et. apply negb_false_iff in E4. apply N.eqb_eq in E4. rewrite E4. reflexivity.
  - intro E. inversion E. subst. unfold storage_ok. rewrite Es, Ef, El. repeat split; auto.
    intro H. apply N.leb_gt in E3. lia.
Qed.

Theorem new_core_fixed_consistent id cfg p s1 :
  log_wf (p_log p) -> new_core_fixed id cfg p = Ret s1 -> storage_ok (n_p s1).
Proof.
  intros Hwf H. unfold new_core_fixed in H. destruct (new_core_ls _ _ _ _ H) as [r [Er [A B]]].
  apply reconcile_ok in Er; auto. eapply storage_ok_ext; eauto.
Qed.

Lemma new_core_fixed_pext id cfg p :
  match new_core_fixed id cfg p with
  | Ret s' => pext p (n_p s')
  | _ => True
  end.
Proof.
  unfold new_core_fixed. pose proof (new_core_pext id cfg p) as H.
  destruct (new_core id cfg p); simpl in *; auto. destruct H; auto.
Qed.

(* ---------------------------------------------------------------- T2: where can Fatal 6 come from *)
Definition nf6 {A} (r : R A) : Prop := match r with Fatal c => c <> F_GAP | _ => True end.

Lemma nf6_bind {A B} (a : R A) (f : A -> R B) : nf6 a -> (forall x, a = Ret x -> nf6 (f x)) -> nf6 (bind a f).
Proof. intros Ha Hf. destruct a; simpl in *; auto. Qed.

Ltac nf6_const := simpl; unfold F_GAP; first [exact I | discriminate | (intro; discriminate)].

Lemma nf6_entries_loop l e n : nf6 (entries_loop l e n).
Proof.
  revert e. induction l as [| x r IH]; intros e; simpl; [exact I|].
  destruct (negb (e_index x =? e)); [nf6_const|]. destruct (n <=? e_index x); [exact I|].
  apply nf6_bind; auto. intros; exact I.
Qed.

Lemma nf6_log_entries p b e : nf6 (log_entries p b e).
Proof. apply nf6_entries_loop. Qed.

Lemma nf6_log_term p i : nf6 (log_term p i).
Proof. unfold log_term. apply nf6_bind; [apply nf6_log_entries|]. intros [| x r] _; nf6_const. Qed.

Lemma nf6_in_log p i t : nf6 (in_log p i t).
Proof.
  unfold in_log. destruct (log_first (p_log p)); [| exact I]. destruct (log_last (p_log p)); [| exact I].
  destruct ((n <=? i) && (i <=? n0)); [| exact I]. apply nf6_bind; [apply nf6_log_term|]. intros; exact I.
Qed.

Lemma nf6_has_entry p i t : nf6 (has_entry p i t).
Proof.
  unfold has_entry. destruct (i =? 0); [exact I|].
  destruct (p_snap p); [destruct (i <=? sn_index s); [exact I|]|]; apply nf6_in_log.
Qed.

Lemma nf6_do_mut m s : nf6 (do_mut m s).
Proof. unfold do_mut. destruct (negb (n_budget s =? 0) && (n_budget s =? n_cnt s + 1)); exact I. Qed.

Lemma nf6_log_append s es : nf6 (log_append s es).
Proof.
  unfold log_append. apply nf6_bind; [apply nf6_do_mut|]. intros s1 _.
  destruct (snd (mem_append (p_log (n_p s)) es)); nf6_const.
Qed.

Lemma nf6_commit_up_to s i : nf6 (commit_up_to s i).
Proof.
  unfold commit_up_to.
  match goal with |- nf6 (match ?x with _ => _ end) => destruct x end.
  - destruct (negb (sn_index s0 =? i)); nf6_const.
  - apply nf6_bind; [apply nf6_log_entries|]. intros ents _.
    match goal with |- nf6 (if ?c then _ else _) => destruct c end; [| exact I].
    match goal with |- nf6 (match ?x with _ => _ end) => destruct x end; [apply nf6_do_mut | nf6_const].
Qed.

Lemma nf6_follower_maybe_commit s lc mi : nf6 (follower_maybe_commit s lc mi).
Proof. unfold follower_maybe_commit. destruct (n_commit s <? N.min mi lc); [apply nf6_commit_up_to | exact I]. Qed.

Lemma nf6_conflict_loop c i o es il : nf6 (conflict_loop c i o es il).
Proof.
  revert i. induction c; intros i; simpl; [exact I|].
  destruct (nth_error es (i + o)); [| nf6_const]. destruct (nth_error il i); [| nf6_const].
  destruct (negb (e_term e =? e_term e0)); [exact I | apply IHc].
Qed.

(* has_entry true bounds the index by lastIndex when the snapshot is a prefix of the log *)
Lemma log_last_first_some l li : log_last l = Some li -> exists fi, log_first l = Some fi.
Proof. destruct l; simpl; [discriminate|]. eauto. Qed.

Lemma has_entry_bound p i t :
  storage_ok p -> has_entry p i t = Ret true -> i <= last_index p.
Proof.
  intros Hok. unfold has_entry. destruct (i =? 0) eqn:E0; [apply N.eqb_eq in E0; lia|].
  assert (Hin : in_log p i t = Ret true -> i <= last_index p).
  { unfold in_log, last_index. destruct (log_first (p_log p)) as [fi |]; [| discriminate].
    destruct (log_last (p_log p)) as [li |]; [| discriminate].
    destruct ((fi <=? i) && (i <=? li)) eqn:E; [| discriminate].
    apply andb_true_iff in E. destruct E as [_ E]. apply N.leb_le in E. auto. }
  destruct (p_snap p) as [m |] eqn:Es; auto.
  destruct (i <=? sn_index m) eqn:E1; auto.
  intros _. apply N.leb_le in E1. unfold last_index. unfold storage_ok in Hok. rewrite Es in Hok.
  destruct (log_last (p_log p)) as [li |] eqn:El; [| rewrite Es; lia].
  destruct (log_last_first_some _ _ El) as [fi Ef]. rewrite Ef in Hok. destruct Hok as [A _]. lia.
Qed.

Lemma conflict_index_no_gap s e0 rest :
  e_index e0 <= last_index (n_p s) + 1 -> nf6 (conflict_index s (e0 :: rest)).
Proof.
  intro H. unfold conflict_index.
  destruct (e_index e0 =? last_index (n_p s) + 1); [exact I|].
  destruct (last_index (n_p s) + 1 <? e_index e0) eqn:E; [apply N.ltb_lt in E; lia|].
  match goal with |- nf6 (match ?x with _ => _ end) => destruct x end; [| exact I].
  destruct (log_last (p_log (n_p s))); [| exact I].
  apply nf6_bind; [apply nf6_log_entries|]. intros; apply nf6_conflict_loop.
Qed.

Theorem no_gap_when_consistent s from pi pt cm e0 rest :
  storage_ok (n_p s) -> e_index e0 = pi + 1 ->
  handle_app_ents s from pi pt cm (Some (e0 :: rest)) <> Fatal F_GAP.
Proof.
  intros Hok He.
  assert (H : nf6 (handle_app_ents s from pi pt cm (Some (e0 :: rest)))).
  2: { intro E. rewrite E in H. simpl in H. congruence. }
  unfold handle_app_ents.
  set (s0 := set_follower_contact s).
  assert (Hp0 : n_p s0 = n_p s) by reflexivity.
  apply nf6_bind; [apply nf6_has_entry|]. intros ok Hhe.
  destruct ok; simpl; [| exact I].
  rewrite Hp0 in Hhe. apply has_entry_bound in Hhe; auto.
  apply nf6_bind.
  { apply conflict_index_no_gap. change (n_p s0) with (n_p s). lia. }
  intros [ci any] _.
  apply nf6_bind.
  { destruct any; [| exact I]. apply nf6_bind; [apply nf6_do_mut|]. intros s' _.
    destruct (n_conf s'); [| exact I]. destruct (ci <=? mb_index m); exact I. }
  intros s1 _.
  match goal with |- nf6 (if ?c then _ else _) => destruct c end; [apply nf6_follower_maybe_commit|].
  match goal with |- nf6 (if ?c then _ else _) => destruct c end; [nf6_const|].
  match goal with |- nf6 (match ?x with _ => _ end) => destruct x end; [nf6_const|].
  match goal with |- nf6 (if ?c then _ else _) => destruct c end; [nf6_const|].
  apply nf6_bind; [apply nf6_log_append|]. intros s3 _. apply nf6_follower_maybe_commit.
Qed.

(* ---------------------------------------------------------------- votes after the repaired start-up dropped a stale log *)
Lemma vote_on_empty_log_respects_snapshot s m from li lt :
  p_log (n_p s) = [] -> p_snap (n_p s) = Some m -> sn_index m <> 0 ->
  can_grant_vote s from li lt = Ret true ->
  sn_term m < lt \/ (lt = sn_term m /\ sn_index m <= li).
Proof.
  intros Hl Hs Hnz. unfold can_grant_vote.
  destruct (negb (p_vote (n_p s) =? 0) && negb (p_vote (n_p s) =? from)); [discriminate|].
  assert (Hli : last_index (n_p s) = sn_index m).
  { unfold last_index. rewrite Hl, Hs. reflexivity. }
  rewrite Hli. unfold st_term. rewrite Hli. rewrite N.ltb_irrefl.
  apply N.eqb_neq in Hnz. rewrite Hnz. rewrite Hl, Hs. simpl. rewrite N.eqb_refl. simpl.
  intro H. inversion H as [H1]. apply orb_true_iff in H1. destruct H1 as [H1 | H1].
  - left. apply N.ltb_lt. exact H1.
  - right. apply andb_true_iff in H1. destruct H1 as [A B]. apply N.eqb_eq in A. apply N.leb_le in B. auto.
Qed.

(* the repaired start-up on the very state F10 produces (snapshot ahead of a stale well-formed log): the log is dropped *)
Lemma reconcile_drops_stale_log s m li s1 :
  log_wf (p_log (n_p s)) -> n_budget s = 0 ->
  p_snap (n_p s) = Some m -> log_last (p_log (n_p s)) = Some li -> li < sn_index m ->
  reconcile s = Ret s1 -> p_log (n_p s1) = [] /\ p_snap (n_p s1) = Some m.
Proof.
  intros Hwf Hb Hs Hl Hlt. unfold reconcile. rewrite Hs, Hl.
  destruct (log_last_first_some _ _ Hl) as [fi Hf]. rewrite Hf.
  apply N.ltb_lt in Hlt. rewrite Hlt. simpl.
  unfold do_mut. rewrite Hb. simpl. intro H. inversion H. simpl. split; [apply truncate0_wf; exact Hwf | exact Hs].
Qed.
