(* C07/FileProofsSnapB.v — snapshot-manager half of C07 part B: the invariant of the snapshot directory, its
   preservation by every mutation the manager performs, and the crash analysis of every operation. *)
From Coq Require Import List ZArith NArith Bool Lia Sorted.
From BLB Require Import C07.FileFS C07.FileModel C07.FileProofsState C07.FileProofsSnapA.
Import ListNotations.

Record PInv0 (s : fs) (C : commits) (A : list (N * N)) : Prop := mkPInv0 {
  pi_cons : dir_consistent s;
  pi_benign : Forall benign (pend s);
  pi_sealed : forall t i x, In (NSnap t i, x) (sdir s) ->
                f_dirty (inodes s x) = false /\ In (t, i, f_cur (inodes s x)) C;
  pi_disj : forall n x m, is_tmp n = true -> lookup n (dir s) = Some x -> is_fin m = true -> ~ In (m, x) (sdir s);
  pi_inj : NoDup (map snd (dir s));
  pi_names : NoDup (map fst (dir s));
  pi_bound : forall n x, In (n, x) (sdir s) \/ In (n, x) (dir s) -> (x < nexti s)%N;
  pi_acked : forall a, In a A -> exists m x, is_fin m = true /\ In (m, x) (dir s) /\ key_leb a (key m) = true
}.

Lemma pinv0_mono s C A C' A' :
  PInv0 s C A -> incl C C' -> incl A' A -> PInv0 s C' A'.
Proof.
  intros [pi_cons0 pi_benign0 pi_sealed0 pi_disj0 pi_inj0 pi_names0 pi_bound0 pi_acked0] HC HA. constructor; auto.
  intros t i x H. destruct (pi_sealed0 t i x H). split; auto.
Qed.

Lemma pinv0_empty : PInv0 fs_empty [] [].
Proof.
  constructor; cbn.
  - reflexivity.
  - constructor.
  - intros t i x [].
  - intros n x m _ H. discriminate.
  - constructor.
  - constructor.
  - intros n x [[]|[]].
  - intros a [].
Qed.

(* ------------------------------------------------------------------ crash states of an invariant state *)

Lemma pinv_crash s C A c : PInv0 s C A -> crash_cache s c -> crash_ok C A c.
Proof.
  intros [pi_cons0 pi_benign0 pi_sealed0 pi_disj0 pi_inj0 pi_names0 pi_bound0 pi_acked0] ((bs & Hd) & Hdata). split.
  - intros t i x Hin. rewrite Hd in Hin.
    apply (apply_dops_upper _ (Forall_select _ _ pi_benign0 bs)) in Hin; [|reflexivity].
    destruct (pi_sealed0 t i x Hin) as (Hcl & HC). rewrite (Hdata x Hcl). exact HC.
  - intros a Ha. destruct (pi_acked0 a Ha) as (m & x & Hf & Hin & Hle).
    exists m, x. repeat split; auto. rewrite Hd. rewrite pi_cons0 in Hin.
    eapply (apply_dops_lower _ pi_benign0 bs (sdir s) (sdir s)); eauto. intros ? ? ? ?; auto.
Qed.

(* ------------------------------------------------------------------ preservation, mutation by mutation *)

Lemma NoDup_snd_unique (d : dirT) n m x : NoDup (map snd d) -> In (n, x) d -> In (m, x) d -> n = m.
Proof.
  induction d as [|[k y] d IH]; cbn; [tauto|]. intros Hd H1 H2. inversion Hd; subst.
  destruct H1 as [H1|H1], H2 as [H2|H2].
  - congruence.
  - inversion H1; subst. exfalso. apply H3. apply in_map_iff. exists (m, x). auto.
  - inversion H2; subst. exfalso. apply H3. apply in_map_iff. exists (n, x). auto.
  - auto.
Qed.

Lemma lookup_remove_some n a d x : lookup n (remove a d) = Some x -> lookup n d = Some x /\ n <> a.
Proof.
  intros H. destruct (name_eq_dec n a) as [->|Hne].
  - rewrite lookup_remove_same in H. discriminate.
  - rewrite lookup_remove_other in H by auto. auto.
Qed.

(* replacing the content of one inode that no durable snapshot name refers to (or without changing it) *)
Lemma pinv0_set_inode s C A x f' :
  PInv0 s C A ->
  ((exists m, is_fin m = true /\ In (m, x) (sdir s)) -> f_dirty f' = false /\ f_cur f' = f_cur (inodes s x)) ->
  PInv0 (mkFS (set_inode (inodes s) x f') (dir s) (sdir s) (pend s) (nexti s)) C A.
Proof.
  intros [pi_cons0 pi_benign0 pi_sealed0 pi_disj0 pi_inj0 pi_names0 pi_bound0 pi_acked0] Hx. constructor; cbn; auto.
  intros t i y Hin. destruct (pi_sealed0 t i y Hin) as (Hcl & HC).
  destruct (N.eq_dec y x) as [->|Hne].
  - rewrite set_inode_same. destruct Hx as (Hd & Hc); [exists (NSnap t i); auto|]. rewrite Hd, Hc. auto.
  - rewrite set_inode_other by auto. auto.
Qed.

Lemma tmp_not_sealed s C A n x :
  PInv0 s C A -> is_tmp n = true -> lookup n (dir s) = Some x ->
  ~ (exists m, is_fin m = true /\ In (m, x) (sdir s)).
Proof. intros [pi_cons0 pi_benign0 pi_sealed0 pi_disj0 pi_inj0 pi_names0 pi_bound0 pi_acked0] Ht Hl (m & Hf & Hin). eapply pi_disj0; eauto. Qed.

Inductive safe_mut (A : list (N * N)) (s : fs) : mut -> Prop :=
| SM_open n : is_tmp n = true -> safe_mut A s (MOpenCT n)
| SM_write n d : is_tmp n = true -> safe_mut A s (MWrite n d)
| SM_fsync n : safe_mut A s (MFsync n)
| SM_dirsync : safe_mut A s MDirSync
| SM_unlink a :
    (forall a0, In a0 A -> exists m x, is_fin m = true /\ In (m, x) (dir s) /\ m <> a /\ key_leb a0 (key m) = true) ->
    safe_mut A s (MUnlink a).

Lemma safe_preserves s C A m : PInv0 s C A -> safe_mut A s m -> PInv0 (apply_mut s m) C A.
Proof.
  intros HI Hs. pose proof HI as HI'. destruct HI' as [pi_cons0 pi_benign0 pi_sealed0 pi_disj0 pi_inj0 pi_names0 pi_bound0 pi_acked0].
  destruct Hs as [n Hn|n d Hn|n| |a Ha]; cbn [apply_mut].
  - (* open: create or truncate *)
    destruct (lookup n (dir s)) as [x|] eqn:Hl.
    + destruct (f_cur (inodes s x)); auto.
      apply pinv0_set_inode; [exact HI|]. intros H. exfalso. eapply tmp_not_sealed; eauto.
    + set (y := nexti s).
      assert (Hfresh : forall k z, In (k, z) (sdir s) \/ In (k, z) (dir s) -> z <> y).
      { intros k z H. apply pi_bound0 in H. unfold y. lia. }
      constructor; cbn [dir sdir pend inodes nexti].
      * apply (apply_mut_consistent s (MOpenCT n)) in pi_cons0. cbn in pi_cons0. rewrite Hl in pi_cons0. exact pi_cons0.
      * apply Forall_app. split; [exact pi_benign0|constructor; [exact Hn|constructor]].
      * intros t i x Hin. destruct (pi_sealed0 t i x Hin). rewrite set_inode_other; auto.
        eapply Hfresh. left. exact Hin.
      * intros n' x m Ht Hl' Hf Hin.
        destruct (name_eq_dec n' n) as [->|Hne].
        -- rewrite lookup_bind_same in Hl'. inversion Hl'; subst. eapply Hfresh; [left; exact Hin|reflexivity].
        -- rewrite lookup_bind_other in Hl' by auto. eapply pi_disj0; eauto.
      * cbn. constructor.
        -- intros Hin. apply In_snd_remove in Hin. apply in_map_iff in Hin. destruct Hin as ([k z] & Hz & Hin).
           cbn in Hz. subst. eapply Hfresh; [right; exact Hin|reflexivity].
        -- apply NoDup_map_filter. exact pi_inj0.
      * cbn. constructor; [apply remove_fst_notin|apply NoDup_map_filter; exact pi_names0].
      * intros k z [H|H].
        -- assert ((z < nexti s)%N) by (apply (pi_bound0 k); auto). lia.
        -- apply In_bind in H. destruct H as [[-> ->]|[H _]]; [unfold y; lia|].
           assert ((z < nexti s)%N) by (apply (pi_bound0 k); auto). lia.
      * intros a Ha. destruct (pi_acked0 a Ha) as (m & x & Hf & Hin & Hle). exists m, x. repeat split; auto.
        apply In_bind. right. split; auto. intros ->. eapply fin_not_tmp; eauto.
  - (* write through a temporary name *)
    destruct (lookup n (dir s)) as [x|] eqn:Hl; auto.
    apply pinv0_set_inode; [exact HI|]. intros H. exfalso. eapply tmp_not_sealed; eauto.
  - (* fsync of any file *)
    destruct (lookup n (dir s)) as [x|] eqn:Hl; auto.
    apply pinv0_set_inode; [exact HI|]. intros _. cbn. split; reflexivity.
  - (* directory fsync *)
    constructor; cbn [dir sdir pend inodes nexti]; auto.
    + reflexivity.
    + intros t i x Hin. apply pi_sealed0. rewrite pi_cons0 in Hin.
      eapply (apply_dops_upper _ pi_benign0); eauto.
    + intros n x m Ht Hl Hf Hin. apply lookup_In in Hl.
      assert (n = m) by (eapply NoDup_snd_unique; eauto). subst. eapply fin_not_tmp; eauto.
    + intros n x [H|H]; apply (pi_bound0 n); auto.
  - (* unlink *)
    destruct (lookup a (dir s)) as [x0|] eqn:Hl; auto.
    constructor; cbn [dir sdir pend inodes nexti]; auto.
    + apply (apply_mut_consistent s (MUnlink a)) in pi_cons0. cbn in pi_cons0. rewrite Hl in pi_cons0. exact pi_cons0.
    + apply Forall_app. split; [exact pi_benign0|constructor; [exact I|constructor]].
    + intros n x m Ht Hl' Hf. apply lookup_remove_some in Hl'. destruct Hl'. eapply pi_disj0; eauto.
    + apply NoDup_map_filter. exact pi_inj0.
    + apply NoDup_map_filter. exact pi_names0.
    + intros n x [H|H]; [apply (pi_bound0 n); auto|]. apply In_remove' in H. apply (pi_bound0 n). tauto.
    + intros a0 Ha0. destruct (Ha a0 Ha0) as (m & x & Hf & Hin & Hne & Hle). exists m, x. repeat split; auto.
      apply In_remove'. auto.
Qed.

Inductive safe_trace (A : list (N * N)) : fs -> list mut -> Prop :=
| ST_nil s : safe_trace A s []
| ST_cons s m tr : safe_mut A s m -> safe_trace A (apply_mut s m) tr -> safe_trace A s (m :: tr).

Lemma safe_trace_app A s tr1 tr2 :
  safe_trace A s tr1 -> safe_trace A (run tr1 s) tr2 -> safe_trace A s (tr1 ++ tr2).
Proof.
  induction 1 as [s|s m tr Hm Htr IH]; cbn; auto. intros H. constructor; auto.
Qed.

Lemma safe_trace_run s C A tr : PInv0 s C A -> safe_trace A s tr -> PInv0 (run tr s) C A.
Proof.
  intros HI Hs. revert HI. induction Hs as [s|s m tr Hm Htr IH]; intros HI; cbn; auto.
  apply IH. eapply safe_preserves; eauto.
Qed.

Lemma safe_trace_prefix s C A tr r : PInv0 s C A -> safe_trace A s tr -> PInv0 (run (firstn r tr) s) C A.
Proof.
  intros HI Hs. revert r HI. induction Hs as [s|s m tr Hm Htr IH]; intros r HI.
  - rewrite firstn_nil. exact HI.
  - destruct r as [|r]; cbn; auto. apply IH. eapply safe_preserves; eauto.
Qed.

Definition tmp_only (m : mut) : Prop :=
  match m with
  | MOpenCT n | MWrite n _ => is_tmp n = true
  | MFsync _ | MDirSync => True
  | _ => False
  end.

Lemma tmp_only_safe A tr : Forall tmp_only tr -> forall s, safe_trace A s tr.
Proof.
  induction 1 as [|m tr Hm Htr IH]; intros s; constructor; auto.
  destruct m; cbn in Hm; try contradiction; constructor; auto.
Qed.

(* unlinking a list of names that spares one sufficiently new snapshot *)
Lemma safe_unlinks A us : forall s,
  (forall a0, In a0 A -> exists v x, is_fin v = true /\ In (v, x) (dir s) /\ ~ In v us /\ key_leb a0 (key v) = true) ->
  safe_trace A s (map MUnlink us).
Proof.
  induction us as [|u us IH]; intros s H; cbn; constructor.
  - constructor. intros a0 Ha0. destruct (H a0 Ha0) as (v & x & Hf & Hin & Hni & Hle).
    exists v, x. repeat split; auto. intros ->. apply Hni. left. reflexivity.
  - apply IH. intros a0 Ha0. destruct (H a0 Ha0) as (v & x & Hf & Hin & Hni & Hle).
    exists v, x. repeat split; auto.
    + cbn. destruct (lookup u (dir s)); auto. cbn. apply In_remove'. split; auto.
      intros ->. apply Hni. left. reflexivity.
    + intros Hin'. apply Hni. right. exact Hin'.
Qed.

Lemma R_pos : 1 <= R.
Proof. vm_compute. lia. Qed.

Lemma temp_order_tmp d oracle n : In n (temp_order d oracle) -> is_tmp n = true.
Proof.
  unfold temp_order, temps. rewrite in_app_iff. intros [H|H]; apply filter_In in H; destruct H as (H1 & H2).
  - unfold mem_name in H2. apply existsb_exists in H2. destruct H2 as (z & Hz & Heq).
    apply name_eqb_eq in Heq. subst. apply filter_In in Hz. tauto.
  - apply filter_In in H1. tauto.
Qed.

Lemma finals_NoDup d : NoDup (map fst d) -> NoDup (finals d).
Proof. intros H. unfold finals. apply sort_NoDup. apply NoDup_filter. exact H. Qed.

(* cleanupSnapshots is safe in every invariant state, whatever order Readdirnames produced *)
Lemma cleanup_safe s C A oracle : PInv0 s C A -> safe_trace A s (cleanup_muts (dir s) oracle).
Proof.
  intros HI. pose proof HI as [pi_cons0 pi_benign0 pi_sealed0 pi_disj0 pi_inj0 pi_names0 pi_bound0 pi_acked0]. unfold cleanup_muts. rewrite <- map_app.
  apply safe_unlinks. intros a0 Ha0.
  destruct (pi_acked0 a0 Ha0) as (m & x & Hf & Hin & Hle).
  assert (Hm : In m (finals (dir s))) by (apply finals_In; eauto).
  destruct (rev (finals (dir s))) as [|v r] eqn:Hr.
  { apply (f_equal (@rev _)) in Hr. rewrite rev_involutive in Hr. cbn in Hr. rewrite Hr in Hm. destruct Hm. }
  destruct (rev_head_max _ _ _ (sort_SS _) Hr) as (Hv & Hmax).
  apply finals_In in Hv. destruct Hv as (Hvf & xv & Hxv).
  exists v, xv. repeat split; auto.
  - rewrite in_app_iff. intros [Hin'|Hin'].
    + apply temp_order_tmp in Hin'. eapply fin_not_tmp; eauto.
    + revert Hin'. apply (rev_head_not_in_firstn (finals (dir s)) v r).
      * apply finals_NoDup. exact pi_names0.
      * exact Hr.
      * pose proof R_pos. assert (length (finals (dir s)) > 0).
        { destruct (finals (dir s)); [destruct Hm|cbn; lia]. }
        lia.
  - eapply key_leb_trans; [exact Hle|]. apply (Hmax m Hm).
Qed.
