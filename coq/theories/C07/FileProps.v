(* C07/FileProps.v - property-level theorems of the FILE-LEVEL half (part B) of C07, in the Props.v format:
   statements + `exact`, each followed by Print Assumptions. Tags [FULL]/[PARTIAL]/[REFUTED] are read by bin/check.
   Non-vacuity Examples: FileProofsRet.v , names starting with ex_state and ex_snap. *)
From Coq Require Import List ZArith NArith Bool.
From BLB Require Import C07.FileFS C07.FileModel C07.FileProofsState C07.FileProofsSnapA C07.FileProofsSnapB
     C07.FileProofsSnapC C07.FileProofsRet C07.FileProofsState2 C07.FileProofsSnapD C07.FileProofsSort.
Import ListNotations.

(* [FULL] every state reachable under the crash quantifier of the property (all mutations before the crash point applied, the write in flight cut anywhere) is a power loss state (crash_cache) of some prefix of the trace, so theorems over crash_cache are the strong form *)
Theorem crash_prefix_sub_cache :
  forall tr s0 c, dir_consistent s0 -> crash_prefix tr s0 c ->
    exists k, k <= length tr /\ crash_cache (run (firstn k tr) s0) c.
Proof. exact crash_prefix_sub_cache_lemma. Qed.
Print Assumptions crash_prefix_sub_cache.

(* [FULL] state file atomicity over crash_cache. For every quiescent start directory s0 holding state st0 (a left over raft_state.tmp with any content allowed), every sequence ops1 of completed setters with any encoded lengths, every next setter o, every crash point r inside its stateToFile, every power loss state c (any subset of pending directory operations, dirty files with arbitrary content): NewFSState succeeds and returns the state before o or the state after o, never anything else, and once stateToFile has returned it returns the new state (an acknowledged term or vote is never forgotten) *)
Theorem state_file_atomic :
  forall s0 st0 ops1 o L r c,
    stable s0 (Some st0) ->
    let st_old := sfold st0 ops1 in
    let st_new := sop_apply o st_old in
    r <= length (state_to_file st_new L) ->
    crash_cache (run (strace st0 ops1 ++ firstn r (state_to_file st_new L)) s0) c ->
    (open_state c = OpenOk st_old \/ open_state c = OpenOk st_new) /\
    (r = length (state_to_file st_new L) -> open_state c = OpenOk st_new).
Proof. exact state_file_atomic_lemma. Qed.
Print Assumptions state_file_atomic.

(* [FULL] the very first start. From a directory without state file, for every GUID g, every crash point r of the initial stateToFile and every power loss state: NewFSState either starts afresh again or finds exactly the initial state, and finds it once the write has returned *)
Theorem state_file_first_start :
  forall s0 g L r c,
    stable s0 None ->
    r <= length (state_to_file (fresh_state g) L) ->
    crash_cache (run (firstn r (state_to_file (fresh_state g) L)) s0) c ->
    (open_state c = OpenFresh \/ open_state c = OpenOk (fresh_state g)) /\
    (r = length (state_to_file (fresh_state g) L) -> open_state c = OpenOk (fresh_state g)).
Proof. exact state_file_first_start_lemma. Qed.
Print Assumptions state_file_first_start.

(* [FULL] closure under repeated crashes. Under the hypotheses of state_file_atomic, the directory a restarted process finds after any crash state c (all of it durable by definition) is again a quiescent directory holding the old or the new state, with or without a left over raft_state.tmp of arbitrary content. Hence state_file_atomic applies again and left over temporary files are harmless after any number of crashes *)
Theorem state_recovery_closed :
  forall s0 old0 ops1 o L r c,
    stable s0 (Some old0) ->
    let st_old := sfold old0 ops1 in
    let st_new := sop_apply o st_old in
    r <= length (state_to_file st_new L) ->
    crash_cache (run (strace old0 ops1 ++ firstn r (state_to_file st_new L)) s0) c ->
    exists nx, stable (recover c nx) (Some st_old) \/ stable (recover c nx) (Some st_new).
Proof. exact state_recovery_closed_lemma. Qed.
Print Assumptions state_recovery_closed.

(* [FULL] the same for a crash during the very first start. The restarted process finds a quiescent directory without state file or with exactly the initial state *)
Theorem state_recovery_first_start :
  forall s0 g L r c,
    stable s0 None ->
    r <= length (state_to_file (fresh_state g) L) ->
    crash_cache (run (firstn r (state_to_file (fresh_state g) L)) s0) c ->
    exists nx, stable (recover c nx) None \/ stable (recover c nx) (Some (fresh_state g)).
Proof. exact state_recovery_first_start_lemma. Qed.
Print Assumptions state_recovery_first_start.

(* [FULL] snapshot visibility over crash_cache. For every sequence ops1 of completed manager operations from the empty directory (Begin, Write, Commit, Abort, restart, with any oracle orders and lengths), every next operation o, every crash point r inside o and every power loss state c. First, whatever carries a valid snapshot name holds exactly the complete content of a snapshot whose Commit was started. Second, NewFSSnapshotMgr never dies. Third, it selects the newest name present, that snapshot is complete, and it is at least as new as every acknowledged snapshot. After o has returned the same holds with the snapshot committed by o counted as acknowledged *)
Theorem snapshot_visible_iff_complete :
  forall ops1 o r c,
    let g := grun g0 ops1 in
    let C := g_C (gstep g o) in
    crash_cache (run (firstn r (op_trace (g_p g) o)) (ps_fs (g_p g))) c ->
    (forall t i x, In (NSnap t i, x) (c_dir c) ->
       exists sid nch, In (t, i, content_of t i sid nch) C /\ c_data c x = content_of t i sid nch) /\
    (forall A, A = g_A g \/ (length (op_trace (g_p g) o) <= r /\ A = g_A (gstep g o)) ->
     match open_mgr (c_dir c) (c_data c) with
     | MFatal => False
     | MNone => (forall m x, is_fin m = true -> ~ In (m, x) (c_dir c)) /\ A = []
     | MSome t i sid nch =>
         (exists x sid0 nch0, lookup (NSnap t i) (c_dir c) = Some x /\ c_data c x = content_of t i sid0 nch0 /\
                              In (t, i, content_of t i sid0 nch0) C /\ (sid, nch) = visible_of sid0 nch0) /\
         (forall m x, is_fin m = true -> In (m, x) (c_dir c) -> key_leb (key m) (t, i) = true) /\
         (forall a, In a A -> key_leb a (t, i) = true)
     end).
Proof. exact snapshot_visible_lemma. Qed.
Print Assumptions snapshot_visible_iff_complete.

(* [FULL] retention. For every directory state and every order in which the listing returned the names, after cleanupSnapshots no temporary snapshot file is left and a snapshot is left iff it is not among the (number of snapshots minus snapRetention) oldest, snapRetention being the constant regenerated from the source *)
Theorem snapshot_retention :
  forall s oracle,
    let d := dir s in
    let s' := run (cleanup_muts d oracle) s in
    (forall m x, is_tmp m = true -> ~ In (m, x) (dir s')) /\
    (forall m x, is_tmp m = false ->
       (In (m, x) (dir s') <-> In (m, x) d /\ ~ In m (firstn (length (finals d) - R) (finals d)))).
Proof. exact snapshot_retention_lemma. Qed.
Print Assumptions snapshot_retention.

(* [FULL] closure under repeated crashes for the snapshot directory. GInv2 is the invariant of the snapshot directory together with the ghost record of started commits C and acknowledged snapshots A, it holds for the empty directory (ginv2_0). From any state satisfying it, after any completed operations ops1, for any operation o in flight, any crash point r and any power loss state c, the manager restarted on c (nothing cached, no writer, all of c durable) again satisfies GInv2 with the same ghost record, and with the snapshot committed by o counted as acknowledged once o had returned *)
Theorem snapshot_recovery_closed :
  forall g ops1 o r c,
    GInv2 g ->
    let g1 := grun g ops1 in
    crash_cache (run (firstn r (op_trace (g_p g1) o)) (ps_fs (g_p g1))) c ->
    exists nx, GInv2 (restarted c nx (g_C (gstep g1 o)) (g_A g1)) /\
               (length (op_trace (g_p g1) o) <= r -> GInv2 (restarted c nx (g_C (gstep g1 o)) (g_A (gstep g1 o)))).
Proof. exact snapshot_recovery_closed_lemma. Qed.
Print Assumptions snapshot_recovery_closed.

(* [FULL] snapshot visibility from ANY state satisfying GInv2, in particular from a manager restarted on a crash state (snapshot_recovery_closed), hence for executions with any number of crashes. Same three conclusions as snapshot_visible_iff_complete *)
Theorem snapshot_visible_after_any_crashes :
  forall g ops1 o r c,
    GInv2 g ->
    let g1 := grun g ops1 in
    let C := g_C (gstep g1 o) in
    crash_cache (run (firstn r (op_trace (g_p g1) o)) (ps_fs (g_p g1))) c ->
    (forall t i x, In (NSnap t i, x) (c_dir c) ->
       exists sid nch, In (t, i, content_of t i sid nch) C /\ c_data c x = content_of t i sid nch) /\
    (forall A, A = g_A g1 \/ (length (op_trace (g_p g1) o) <= r /\ A = g_A (gstep g1 o)) ->
     match open_mgr (c_dir c) (c_data c) with
     | MFatal => False
     | MNone => (forall m x, is_fin m = true -> ~ In (m, x) (c_dir c)) /\ A = []
     | MSome t i sid nch =>
         (exists x sid0 nch0, lookup (NSnap t i) (c_dir c) = Some x /\ c_data c x = content_of t i sid0 nch0 /\
                              In (t, i, content_of t i sid0 nch0) C /\ (sid, nch) = visible_of sid0 nch0) /\
         (forall m x, is_fin m = true -> In (m, x) (c_dir c) -> key_leb (key m) (t, i) = true) /\
         (forall a, In a A -> key_leb a (t, i) = true)
     end).
Proof. exact snapshot_visible_from_lemma. Qed.
Print Assumptions snapshot_visible_after_any_crashes.

(* [FULL] retention in list form. For every directory with distinct names and every listing order, after cleanupSnapshots the sorted list of snapshot names is the old sorted list without its first (n minus snapRetention) elements, and no temporary snapshot name is left *)
Theorem snapshot_sorted_retention :
  forall s oracle,
    NoDup (map fst (dir s)) ->
    let s' := run (cleanup_muts (dir s) oracle) s in
    finals (dir s') = skipn (length (finals (dir s)) - R) (finals (dir s)) /\ temps (dir s') = [].
Proof. exact snapshot_sorted_retention_lemma. Qed.
Print Assumptions snapshot_sorted_retention.
