(* C07/FileProofsSnapA.v — snapshot-manager half of C07 part B: sorting, directory and crash-directory lemmas,
   and what NewFSSnapshotMgr answers on a crash state that satisfies [crash_ok]. *)
From Coq Require Import List ZArith NArith Bool Lia Sorted.
From BLB Require Import C07.FileFS C07.FileModel C07.FileProofsState.
Import ListNotations.

(* ------------------------------------------------------------------ the order on snapshot names *)

Definition kle (a b : name) : Prop := key_leb (key a) (key b) = true.

Lemma key_leb_spec a b :
  key_leb a b = true <-> (fst a < fst b \/ (fst a = fst b /\ snd a <= snd b))%N.
Proof.
  unfold key_leb. rewrite orb_true_iff, andb_true_iff, N.ltb_lt, N.eqb_eq, N.leb_le. reflexivity.
Qed.

Lemma key_leb_refl a : key_leb a a = true.
Proof. apply key_leb_spec. right. split; lia. Qed.

Lemma key_leb_trans a b c : key_leb a b = true -> key_leb b c = true -> key_leb a c = true.
Proof. rewrite !key_leb_spec. lia. Qed.

Lemma key_leb_total a b : key_leb a b = true \/ key_leb b a = true.
Proof. rewrite !key_leb_spec. lia. Qed.

Lemma key_leb_false a b : key_leb a b = false -> key_leb b a = true.
Proof. intros H. destruct (key_leb_total a b); congruence. Qed.

Lemma insert_In x y l : In y (insert_sorted x l) <-> y = x \/ In y l.
Proof.
  induction l as [|z l IH]; cbn.
  - intuition.
  - destruct (key_leb (key x) (key z)); cbn; [intuition|]. rewrite IH. intuition.
Qed.

Lemma sort_In y l : In y (sort_names l) <-> In y l.
Proof.
  induction l as [|z l IH]; cbn; [tauto|]. rewrite insert_In, IH. intuition.
Qed.

Lemma insert_sorted_SS x l : StronglySorted kle l -> StronglySorted kle (insert_sorted x l).
Proof.
  induction 1 as [|z l Hs IH Hall]; cbn.
  - constructor; constructor.
  - destruct (key_leb (key x) (key z)) eqn:E.
    + constructor; [constructor; auto|]. constructor; [exact E|].
      eapply Forall_impl; [|exact Hall]. intros a Ha. unfold kle in *. eapply key_leb_trans; eauto.
    + constructor; auto. apply Forall_forall. intros a Ha. apply insert_In in Ha. destruct Ha as [->|Ha].
      * apply key_leb_false. exact E.
      * rewrite Forall_forall in Hall. auto.
Qed.

Lemma sort_SS l : StronglySorted kle (sort_names l).
Proof. induction l; cbn; [constructor|apply insert_sorted_SS; auto]. Qed.

Lemma insert_NoDup x l : ~ In x l -> NoDup l -> NoDup (insert_sorted x l).
Proof.
  induction l as [|z l IH]; cbn; intros Hn Hd.
  - constructor; auto.
  - destruct (key_leb (key x) (key z)).
    + constructor; auto.
    + inversion Hd; subst. constructor.
      * rewrite insert_In. intuition.
      * apply IH; auto.
Qed.

Lemma sort_NoDup l : NoDup l -> NoDup (sort_names l).
Proof.
  induction 1 as [|x l Hn Hd IH]; cbn; [constructor|]. apply insert_NoDup; auto. rewrite sort_In. exact Hn.
Qed.

(* the head of the reversed sorted list is a maximum *)
Lemma rev_head_max l v r :
  StronglySorted kle l -> rev l = v :: r -> In v l /\ forall m, In m l -> kle m v.
Proof.
  revert v r. induction l as [|a l IH]; intros v r Hs Hr; [discriminate|].
  inversion Hs as [|? ? Hs' Hall]; subst. cbn in Hr.
  destruct (rev l) as [|v' r'] eqn:E.
  - cbn in Hr. inversion Hr; subst. assert (l = []) by (apply (f_equal (@rev _)) in E; rewrite rev_involutive in E; exact E).
    subst. split; [left; auto|]. intros m Hm. destruct Hm as [->|Hm]; [|destruct Hm]. apply key_leb_refl.
  - cbn in Hr. inversion Hr; subst. destruct (IH v r' Hs' eq_refl) as (Hin & Hmax).
    split; [right; auto|]. intros m [->|Hm]; auto. rewrite Forall_forall in Hall. auto.
Qed.

Lemma In_firstn {A} (x : A) n l : In x (firstn n l) -> In x l.
Proof.
  revert n. induction l as [|a l IH]; intros [|n]; cbn; try tauto. intros [->|H]; eauto.
Qed.

Lemma rev_head_not_in_firstn {A} (l : list A) v r n :
  NoDup l -> rev l = v :: r -> n < length l -> ~ In v (firstn n l).
Proof.
  intros Hd Hr Hn Hin.
  assert (Hl : l = rev r ++ [v]).
  { apply (f_equal (@rev _)) in Hr. rewrite rev_involutive in Hr. exact Hr. }
  subst l. rewrite app_length in Hn. cbn in Hn.
  rewrite firstn_app in Hin. replace (n - length (rev r)) with 0 in Hin by lia. cbn in Hin. rewrite app_nil_r in Hin.
  apply In_firstn in Hin. apply NoDup_remove_2 with (l := rev r) (l' := []) in Hd. rewrite app_nil_r in Hd. auto.
Qed.

(* ------------------------------------------------------------------ directories *)

Lemma In_bind n x b y d : In (n, x) (bind b y d) <-> (n = b /\ x = y) \/ (In (n, x) d /\ n <> b).
Proof.
  unfold bind. cbn. rewrite In_remove. cbn. split.
  - intros [H|[H1 H2]]; [inversion H; auto|auto].
  - intros [[-> ->]|[H1 H2]]; auto.
Qed.

Lemma In_remove' n x a d : In (n, x) (remove a d) <-> In (n, x) d /\ n <> a.
Proof. rewrite In_remove. cbn. tauto. Qed.

Lemma lookup_some_of_In n x d : In (n, x) d -> exists y, lookup n d = Some y.
Proof.
  induction d as [|[m k] r IH]; cbn; [tauto|].
  intros [H|H].
  - inversion H; subst. rewrite name_eqb_refl. eauto.
  - destruct (name_eqb n m); eauto.
Qed.

Lemma NoDup_map_filter {A B} (f : A -> B) (p : A -> bool) l : NoDup (map f l) -> NoDup (map f (filter p l)).
Proof.
  induction l as [|a l IH]; cbn; auto. intros H. inversion H; subst.
  destruct (p a); cbn; auto. constructor; auto.
  intros Hin. apply H2. apply in_map_iff in Hin. destruct Hin as (z & Hz & Hf). apply filter_In in Hf.
  apply in_map_iff. exists z. tauto.
Qed.

Lemma remove_fst_notin a d : ~ In a (map fst (remove a d)).
Proof.
  intros H. apply in_map_iff in H. destruct H as ([n x] & Hn & Hin). cbn in Hn. subst.
  apply In_remove' in Hin. tauto.
Qed.

Lemma In_snd_remove x a d : In x (map snd (remove a d)) -> In x (map snd d).
Proof.
  intros H. apply in_map_iff in H. destruct H as ([n y] & Hn & Hin). cbn in Hn. subst.
  apply In_remove' in Hin. apply in_map_iff. exists (n, x). tauto.
Qed.

(* ------------------------------------------------------------------ pending operations that cannot add a snapshot name *)

Definition benign (o : dop) : Prop :=
  match o with DUnlink _ => True | DLink n _ => is_tmp n = true | DRename _ _ _ => False end.

Definition finsub (d1 d2 : dirT) : Prop := forall n x, is_fin n = true -> In (n, x) d1 -> In (n, x) d2.

Lemma fin_not_tmp n : is_fin n = true -> is_tmp n = true -> False.
Proof. destruct n; cbn; discriminate. Qed.

Lemma benign_shrinks o d : benign o -> finsub (apply_dop d o) d.
Proof.
  intros Hb n x Hf Hin. destruct o; cbn in *.
  - apply In_bind in Hin. destruct Hin as [[-> _]|[H _]]; auto. exfalso. eapply fin_not_tmp; eauto.
  - tauto.
  - apply In_remove' in Hin. tauto.
Qed.

Lemma benign_mono o d1 d2 : benign o -> finsub d1 d2 -> finsub (apply_dop d1 o) (apply_dop d2 o).
Proof.
  intros Hb Hs n x Hf Hin. destruct o; cbn in *.
  - apply In_bind in Hin. apply In_bind. destruct Hin as [H|[H1 H2]]; auto.
  - tauto.
  - apply In_remove' in Hin. apply In_remove'. destruct Hin. split; auto.
Qed.

Lemma apply_dops_upper ops : Forall benign ops -> forall d, finsub (apply_dops ops d) d.
Proof.
  induction 1 as [|o ops Hb Hf IH]; intros d n x Hn Hin; cbn in *; auto.
  apply IH in Hin; auto. eapply benign_shrinks; eauto.
Qed.

Lemma Forall_select {A} (P : A -> Prop) l : Forall P l -> forall bs, Forall P (select bs l).
Proof.
  induction 1 as [|a l Ha Hl IH]; intros bs; destruct bs as [|[|] bs]; cbn; auto.
Qed.

Lemma apply_dops_lower ops :
  Forall benign ops -> forall bs d1 d2, finsub d1 d2 -> finsub (apply_dops ops d1) (apply_dops (select bs ops) d2).
Proof.
  induction 1 as [|o ops Hb Hf IH]; intros bs d1 d2 Hs.
  - rewrite select_nil_r. exact Hs.
  - destruct bs as [|[|] bs]; cbn [select apply_dops fold_left].
    + intros n x Hn Hin. apply Hs; auto. eapply benign_shrinks; eauto.
      eapply (apply_dops_upper ops Hf); eauto.
    + apply IH. apply benign_mono; auto.
    + apply IH. intros n x Hn Hin. apply Hs; auto. eapply benign_shrinks; eauto.
Qed.

(* ------------------------------------------------------------------ what a restart sees *)

Definition commits := list (N * N * list Z).

Definition C_wf (C : commits) : Prop :=
  forall t i content, In (t, i, content) C -> exists sid nch, content = content_of t i sid nch.

(* the two clauses of the property on one crash state: whatever carries a snapshot name is a complete committed
   snapshot of that name; for every acknowledged snapshot some snapshot at least as new is present *)
Definition crash_ok (C : commits) (A : list (N * N)) (c : cfs) : Prop :=
  (forall t i x, In (NSnap t i, x) (c_dir c) -> In (t, i, c_data c x) C) /\
  (forall a, In a A -> exists m x, is_fin m = true /\ In (m, x) (c_dir c) /\ key_leb a (key m) = true).

Lemma finals_In m d : In m (finals d) <-> is_fin m = true /\ exists x, In (m, x) d.
Proof.
  unfold finals. rewrite sort_In, filter_In, in_map_iff. split.
  - intros (([n x] & Hn & Hin) & Hf). cbn in Hn. subst. eauto.
  - intros (Hf & x & Hin). split; auto. exists (m, x). auto.
Qed.

Lemma dec_hdr_content t i sid nch :
  dec_hdr (content_of t i sid nch) = Some (t, i, flat_map (chunk_tok sid) (seq 1 nch)).
Proof. unfold content_of, dec_hdr. cbn [app]. rewrite !N2Z.id. reflexivity. Qed.

Definition visible_of (sid0 : Z) (nch0 : nat) : Z * Z := last_chunk (flat_map (chunk_tok sid0) (seq 1 nch0)) (0%Z, 0%Z).

Lemma open_mgr_ok C A c :
  C_wf C -> crash_ok C A c ->
  match open_mgr (c_dir c) (c_data c) with
  | MFatal => False
  | MNone => (forall m x, is_fin m = true -> ~ In (m, x) (c_dir c)) /\ A = []
  | MSome t i sid nch =>
      (exists x sid0 nch0, lookup (NSnap t i) (c_dir c) = Some x /\ c_data c x = content_of t i sid0 nch0 /\
                           In (t, i, content_of t i sid0 nch0) C /\ (sid, nch) = visible_of sid0 nch0) /\
      (forall m x, is_fin m = true -> In (m, x) (c_dir c) -> key_leb (key m) (t, i) = true) /\
      (forall a, In a A -> key_leb a (t, i) = true)
  end.
Proof.
  intros Hwf (Hvis & Hack). unfold open_mgr.
  destruct (rev (finals (c_dir c))) as [|n r] eqn:Hr.
  - assert (Hnil : finals (c_dir c) = []).
    { apply (f_equal (@rev _)) in Hr. rewrite rev_involutive in Hr. exact Hr. }
    split.
    + intros m x Hf Hin. assert (In m (finals (c_dir c))) by (apply finals_In; eauto). rewrite Hnil in H. exact H.
    + destruct A as [|a A]; auto. destruct (Hack a (or_introl eq_refl)) as (m & x & Hf & Hin & _).
      assert (In m (finals (c_dir c))) by (apply finals_In; eauto). rewrite Hnil in H. destruct H.
  - destruct (rev_head_max _ _ _ (sort_SS _) Hr) as (Hin & Hmax).
    apply finals_In in Hin. destruct Hin as (Hfin & x0 & Hx0).
    destruct (lookup_some_of_In _ _ _ Hx0) as (x & Hl). rewrite Hl.
    destruct n as [| |t i|t i]; try discriminate.
    pose proof (Hvis t i x (lookup_In _ _ _ Hl)) as HC.
    destruct (Hwf _ _ _ HC) as (sid0 & nch0 & Hcont).
    rewrite Hcont, dec_hdr_content.
    destruct (last_chunk (flat_map (chunk_tok sid0) (seq 1 nch0)) (0%Z, 0%Z)) as [sid nch] eqn:Hlc.
    split; [|split].
    + exists x, sid0, nch0. rewrite <- Hcont. repeat split; auto; try (unfold visible_of; rewrite Hlc; reflexivity).
    + intros m y Hf Hy. apply (Hmax m). apply finals_In. eauto.
    + intros a Ha. destruct (Hack a Ha) as (m & y & Hf & Hy & Hle).
      eapply key_leb_trans; [exact Hle|]. apply (Hmax m). apply finals_In. eauto.
Qed.
