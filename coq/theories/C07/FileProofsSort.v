(* C07/FileProofsSort.v — retention in list form: after cleanupSnapshots the sorted list of snapshot names is
   exactly the old sorted list without its first (n - snapRetention) elements, and no temporary name is left. *)
From Coq Require Import List ZArith NArith Bool Lia Sorted.
From BLB Require Import C07.FileFS C07.FileModel C07.FileProofsState C07.FileProofsSnapA C07.FileProofsSnapB
     C07.FileProofsSnapC C07.FileProofsRet.
Import ListNotations.

Lemma insert_head x l : (forall h, In h l -> kle x h) -> insert_sorted x l = x :: l.
Proof. destruct l as [|y r]; cbn; auto. intros H. rewrite (H y (or_introl eq_refl)). reflexivity. Qed.

Lemma filter_insert p x l :
  StronglySorted kle l ->
  filter p (insert_sorted x l) = if p x then insert_sorted x (filter p l) else filter p l.
Proof.
  induction 1 as [|y r Hs IH Hall].
  - cbn. destruct (p x); reflexivity.
  - cbn [insert_sorted]. destruct (key_leb (key x) (key y)) eqn:E.
    + change (filter p (x :: y :: r)) with (if p x then x :: filter p (y :: r) else filter p (y :: r)).
      destruct (p x); [|reflexivity]. symmetry. apply insert_head. intros h Hh. apply filter_In in Hh. destruct Hh as (Hh & _).
      destruct Hh as [<-|Hh]; [exact E|]. rewrite Forall_forall in Hall. unfold kle.
      eapply key_leb_trans; [exact E|apply Hall; exact Hh].
    + change (filter p (y :: insert_sorted x r))
        with (if p y then y :: filter p (insert_sorted x r) else filter p (insert_sorted x r)).
      rewrite IH. cbn [filter]. destruct (p y), (p x); cbn [insert_sorted]; rewrite ?E; reflexivity.
Qed.

Lemma sort_filter p l : filter p (sort_names l) = sort_names (filter p l).
Proof.
  induction l as [|a l IH]; cbn [sort_names fold_right filter]; auto.
  change (fold_right insert_sorted [] l) with (sort_names l).
  rewrite (filter_insert p a (sort_names l) (sort_SS l)). rewrite IH.
  destruct (p a); reflexivity.
Qed.

Lemma remove_absent a (d : dirT) : lookup a d = None -> remove a d = d.
Proof.
  unfold remove. induction d as [|[m i] r IH]; cbn; auto. destruct (name_eqb a m) eqn:E; [discriminate|].
  intros H. cbn. rewrite (IH H). reflexivity.
Qed.

Lemma unlink_dir s a : dir (apply_mut s (MUnlink a)) = remove a (dir s).
Proof. cbn. destruct (lookup a (dir s)) eqn:E; [reflexivity|]. symmetry. apply remove_absent. exact E. Qed.

Lemma name_eqb_sym a b : name_eqb a b = name_eqb b a.
Proof.
  destruct (name_eqb a b) eqn:E.
  - apply name_eqb_eq in E. subst. symmetry. apply name_eqb_refl.
  - symmetry. apply name_eqb_neq. apply name_eqb_neq in E. congruence.
Qed.

Lemma map_fst_remove a (d : dirT) : map fst (remove a d) = filter (fun n => negb (name_eqb a n)) (map fst d).
Proof.
  unfold remove. induction d as [|[m i] r IH]; cbn; auto. destruct (name_eqb a m); cbn; rewrite IH; reflexivity.
Qed.

Lemma unlinks_names us : forall s,
  map fst (dir (run (map MUnlink us) s)) = filter (fun n => negb (mem_name n us)) (map fst (dir s)).
Proof.
  induction us as [|u us IH]; intros s; cbn [map run fold_left].
  - cbn. induction (map fst (dir s)); cbn; congruence.
  - change (fold_left apply_mut (map MUnlink us) (apply_mut s (MUnlink u)))
      with (run (map MUnlink us) (apply_mut s (MUnlink u))).
    rewrite IH, unlink_dir, map_fst_remove.
    induction (map fst (dir s)) as [|n l IHl]; cbn [filter mem_name existsb]; auto.
    rewrite (name_eqb_sym u n). destruct (name_eqb n u); cbn [negb orb filter]; [exact IHl|].
    fold (mem_name n us). destruct (mem_name n us); cbn [negb]; rewrite IHl; reflexivity.
Qed.

Lemma filter_filter_comm {A} (p q : A -> bool) l : filter p (filter q l) = filter q (filter p l).
Proof. induction l as [|a l IH]; cbn; auto. destruct (p a) eqn:Ep, (q a) eqn:Eq; cbn; rewrite ?Ep, ?Eq, IH; reflexivity. Qed.

Lemma filter_all_true {A} (p : A -> bool) l : (forall x, In x l -> p x = true) -> filter p l = l.
Proof. induction l as [|a l IH]; cbn; auto. intros H. rewrite (H a (or_introl eq_refl)), IH; auto. Qed.

Lemma filter_all_false {A} (p : A -> bool) l : (forall x, In x l -> p x = false) -> filter p l = [].
Proof. induction l as [|a l IH]; cbn; auto. intros H. rewrite (H a (or_introl eq_refl)), IH; auto. Qed.

Lemma mem_name_In n l : mem_name n l = true <-> In n l.
Proof.
  unfold mem_name. rewrite existsb_exists. split.
  - intros (z & Hz & E). apply name_eqb_eq in E. subst. exact Hz.
  - intros H. exists n. split; auto. apply name_eqb_refl.
Qed.

Lemma filter_drop_firstn l : forall k, NoDup l ->
  filter (fun n => negb (mem_name n (firstn k l))) l = skipn k l.
Proof.
  induction l as [|a l IH]; intros k Hd; [destruct k; reflexivity|].
  destruct k as [|k].
  - cbn [firstn skipn]. apply filter_all_true. intros; reflexivity.
  - inversion Hd as [|? ? Hn Hd']; subst. cbn [firstn skipn filter mem_name existsb]. rewrite name_eqb_refl. cbn [orb negb].
    rewrite <- (IH k Hd'). apply filter_ext_in. intros n Hin.
    destruct (name_eqb n a) eqn:E; [apply name_eqb_eq in E; subst; contradiction|]. reflexivity.
Qed.

Theorem snapshot_sorted_retention_lemma :
  forall s oracle,
    NoDup (map fst (dir s)) ->
    let s' := run (cleanup_muts (dir s) oracle) s in
    finals (dir s') = skipn (length (finals (dir s)) - R) (finals (dir s)) /\ temps (dir s') = [].
Proof.
  intros s oracle Hnd s'. unfold s', cleanup_muts. rewrite <- map_app.
  set (F := finals (dir s)). set (k := length F - R).
  set (us := temp_order (dir s) oracle ++ firstn k F).
  split.
  - unfold finals at 1. rewrite unlinks_names. rewrite filter_filter_comm. rewrite <- sort_filter.
    change (sort_names (filter is_fin (map fst (dir s)))) with F.
    rewrite <- (filter_drop_firstn F k) by (apply finals_NoDup; exact Hnd).
    apply filter_ext_in. intros n Hn. f_equal. unfold us.
    destruct (mem_name n (firstn k F)) eqn:E.
    + apply mem_name_In. apply in_app_iff. right. apply mem_name_In. exact E.
    + destruct (mem_name n (temp_order (dir s) oracle ++ firstn k F)) eqn:E2; auto.
      apply mem_name_In in E2. apply in_app_iff in E2. destruct E2 as [E2|E2].
      * apply temp_order_tmp in E2. apply finals_In in Hn. destruct Hn as (Hf & _). exfalso. eapply fin_not_tmp; eauto.
      * apply mem_name_In in E2. congruence.
  - unfold temps. rewrite unlinks_names. rewrite filter_filter_comm. apply filter_all_false.
    intros n Hn. apply filter_In in Hn. destruct Hn as (Hin & Ht).
    apply negb_false_iff. apply mem_name_In. unfold us. apply in_app_iff. left.
    apply temp_order_complete. unfold temps. apply filter_In. split; auto.
Qed.
