(* C07/A_Wedge.v — part A, finding F23: a delayed negative AppEntsResp can move the leader's nextIndex for a follower to or
   below matchIndex.  From then on (as long as this leader stays leader) every message the leader builds for that
   follower is an entry-less probe strictly below matchIndex, and every answer to such a probe — positive or negative —
   is discarded as stale, so the peer entry never changes again: the follower cannot catch up.  Safety is not
   affected.  The model follows the code; the repair is fixes/F23-*.patch. *)
From Coq Require Import List NArith ZArith Bool Lia.
From BLB Require Import Raft.Core Raft.Wire Raft.Legit Raft.NodeLeader C07.A_Witness.
Import ListNotations.
Open Scope N_scope.

Definition wedged (p : peer) : Prop := pr_next p <= pr_match p.

(* what the leader sends to a wedged peer: a probe below matchIndex without entries (or the snapshot, or a Fatalf) *)
Lemma wedged_sends_only_low_probes s p b :
  wedged p -> get_app_ents s p = Ret (Some b) ->
  exists pt, b = AppEnts (pr_next p - 1) pt (n_commit s) None /\ pr_next p - 1 < pr_match p \/ pr_next p = 0.
Proof.
  unfold wedged. intros Hw. unfold get_app_ents.
  assert (E : negb (pr_next p =? pr_match p + 1) = true).
  { apply negb_true_iff. apply N.eqb_neq. lia. }
  rewrite E. destruct (st_term (n_p s) (pr_next p - 1)) as [[pt ok] | |]; simpl; try discriminate.
  destruct (negb ok); [discriminate|]. intro H. inversion H. subst.
  destruct (N.eq_dec (pr_next p) 0) as [Z | Z]; [exists pt; right; exact Z|].
  exists pt. left. split; [reflexivity | lia].
Qed.

(* every answer whose Index is below matchIndex is thrown away: the leader's state does not change at all *)
Lemma low_answer_discarded s from p su ix hi :
  peer_get from (l_peers s) = Some p -> ix < pr_match p ->
  handle_app_ents_resp s from su ix hi = Ret s.
Proof.
  intros Hp Hlt. unfold handle_app_ents_resp. rewrite Hp. apply N.ltb_lt in Hlt. rewrite Hlt. reflexivity.
Qed.

(* a follower answers an entry-less AppEnts with Index = prevLogIndex, whether it accepts or rejects *)
Lemma probe_answer_index s from pi pt cm s' :
  handle_app_ents s from pi pt cm None = Ret s' ->
  exists m, In m (n_msgs s') /\ m_to m = from /\
            exists su hi, m_body m = AppEntsResp su pi hi.
Proof.
  unfold handle_app_ents. simpl.
  destruct (has_entry (n_p s) pi pt) as [ok | |]; simpl; try discriminate.
  destruct ok; simpl.
  - unfold follower_maybe_commit. simpl.
    match goal with |- (if ?c then _ else _) = _ -> _ => destruct c end.
    + unfold commit_up_to. simpl.
      match goal with |- (match ?x with _ => _ end) = _ -> _ => destruct x end.
      * match goal with |- (if ?c then _ else _) = _ -> _ => destruct c end; [discriminate|].
        intro H. inversion H. simpl. eexists. split; [apply in_or_app; right; left; reflexivity|]. simpl. eauto.
      * match goal with |- (bind ?a _) = _ -> _ => destruct a end; simpl; try discriminate.
        match goal with |- (if ?c then _ else _) = _ -> _ => destruct c end.
        -- match goal with |- (match ?x with _ => _ end) = _ -> _ => destruct x end; [| discriminate].
           unfold do_mut. simpl. match goal with |- (if ?c then _ else _) = _ -> _ => destruct c end; [discriminate|].
           intro H. inversion H. simpl. eexists. split; [apply in_or_app; right; left; reflexivity|]. simpl. eauto.
        -- intro H. inversion H. simpl. eexists. split; [apply in_or_app; right; left; reflexivity|]. simpl. eauto.
    + intro H. inversion H. simpl. eexists. split; [apply in_or_app; right; left; reflexivity|]. simpl. eauto.
  - intro H. inversion H. simpl. eexists. split; [apply in_or_app; right; left; reflexivity|]. simpl. eauto.
Qed.

Definition leader_view (c : cluster) (leader follower : N) : option (N * N * N) :=
  match get_node leader c with
  | Some s => match peer_get follower (l_peers s) with
              | Some p => Some (pr_next p, pr_match p, last_index (n_p s))
              | None => None
              end
  | None => None
  end.

(* F23 is fixed: a negative answer can no longer move nextIndex to or below matchIndex *)
Lemma negative_response_keeps_next_above_match s from p ix hi s' :
  peer_get from (l_peers s) = Some p -> pr_match p <= ix ->
  handle_app_ents_resp s from false ix hi = Ret s' ->
  exists p', peer_get from (l_peers s') = Some p' /\ pr_match p' < pr_next p'.
Proof.
  intros Hp Hge. unfold handle_app_ents_resp. rewrite Hp.
  assert (E : (ix <? pr_match p) = false) by (apply N.ltb_ge; exact Hge). rewrite E. simpl.
  pose proof (peer_get_id _ _ _ Hp) as Hid.
  unfold send_app_ents.
  match goal with |- bind (get_app_ents ?s1 ?p2) _ = _ -> _ =>
    assert (Hnm : pr_match p2 < pr_next p2) by
      (simpl; destruct ((if negb (hi =? 0) then hi else ix) <=? pr_match p) eqn:C; [lia | apply N.leb_gt in C; lia]);
    assert (Hid2 : pr_id p2 = from) by (simpl; exact Hid);
    destruct (get_app_ents s1 p2) as [ob | |]; simpl; try discriminate end.
  destruct ob as [b |].
  - intro H. inversion H. simpl. rewrite peer_get_set. simpl. rewrite Hid, N.eqb_refl.
    eexists. split; [reflexivity|]. simpl. simpl in Hnm. exact Hnm.
  - destruct (p_snap (n_p s)); simpl; try discriminate. destruct (sn_conf s0); simpl; try discriminate.
    intro H. inversion H. simpl. rewrite peer_get_set. simpl. rewrite Hid, N.eqb_refl.
    eexists. split; [reflexivity|]. simpl. simpl in Hnm. exact Hnm.
Qed.

Lemma f23_schedule_not_wedged :
  legit_schedule f23_witness = true /\
  exists c nx mt li, final_state f23_witness = Some c /\ leader_view c 1 3 = Some (nx, mt, li) /\ mt < nx.
Proof.
  split; [vm_compute; reflexivity|].
  destruct (final_state f23_witness) as [c |] eqn:E; [| vm_compute in E; discriminate].
  vm_compute in E. inversion E. subst c. clear E.
  eexists. exists 2, 1, 2. split; [reflexivity|]. split; [vm_compute; reflexivity | lia].
Qed.
