(* C07/A_Proofs.v — part A (core level): property-level corollaries. *)
From Coq Require Import List NArith ZArith Bool Lia.
From BLB Require Import Raft.Core Raft.Wire Raft.Legit Raft.NodeProofs C07.A_Witness C07.A_Repaired.
Import ListNotations.
Open Scope N_scope.

Lemma crash_keeps_term_and_vote_lemma :
  forall s ev k st s',
    run_event_crash s ev k = Ret (true, st, s') ->
    p_term (n_p s) <= p_term (n_p s') /\
    (p_term (n_p s') = p_term (n_p s) -> p_vote (n_p s) <> 0 -> p_vote (n_p s') = p_vote (n_p s)) /\
    n_role s' = Follower /\ n_msgs s' = [].
Proof.
  intros s ev k st s' H. pose proof (run_event_crash_pext s ev k) as P. rewrite H in P.
  destruct P as [[A [B _]] _]. split; [exact A|]. split.
  - intros Ht Hv. destruct (B Ht); congruence.
  - revert H. unfold run_event_crash.
    destruct (run_event (with_budget s k) ev) as [[x y] | c | p]; try discriminate.
    pose proof (new_core_pext (n_id s) (n_cfg s) p) as Q.
    destruct (new_core (n_id s) (n_cfg s) p) as [s2 | c | q]; simpl; try discriminate.
    intro E. inversion E. subst. destruct Q as [_ [_ [_ [R M]]]]. auto.
Qed.

Lemma f10_witness_ok :
  legit_schedule f10_witness = true /\ observes [666%Z; Z.of_N F_GAP] f10_witness = true /\
  existsb (fun op => match op with 10%Z :: _ => true | _ => false end) f10_witness = true.
Proof. vm_compute. repeat split; reflexivity. Qed.
