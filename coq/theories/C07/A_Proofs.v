(* C07/A_Proofs.v — part A (core level): property-level corollaries. *)
From Coq Require Import List NArith ZArith Bool Lia.
From BLB Require Import Raft.Core Raft.Wire Raft.Legit Raft.NodeProofs Raft.NodeElect Raft.NodeMono C07.A_Witness C07.A_Repaired.
Import ListNotations.
Open Scope N_scope.

Lemma crash_keeps_term_and_vote_lemma :
  forall s ev k st s',
    run_event_crash s ev k = Ret (true, st, s') ->
    p_term (n_p s) <= p_term (n_p s') /\
    (p_term (n_p s') = p_term (n_p s) -> p_vote (n_p s) <> 0 -> p_vote (n_p s') = p_vote (n_p s)) /\
    n_role s' = Follower /\ n_msgs s' = [].
Proof.
  intros s ev k st s' H. pose proof (run_event_crash_pext s ev k) as P. rewrite H in P.
  destruct P as [[A [B _]] _]. split; [exact A|]. split.
  - intros Ht Hv. destruct (B Ht); congruence.
  - revert H. unfold run_event_crash.
    destruct (run_event (with_budget s k) ev) as [[x y] | c | p]; try discriminate.
    pose proof (new_core_pext (n_id s) (n_cfg s) p) as Q.
    destruct (new_core (n_id s) (n_cfg s) p) as [s2 | c | q]; simpl; try discriminate.
    intro E. inversion E. subst. destruct Q as [_ [_ [_ [R M]]]]. auto.
Qed.

(* F10 is fixed: the schedule on which the old code died is survived *)
Lemma f10_schedule_survived :
  legit_schedule f10_witness = true /\
  existsb (fun l => match l with 666%Z :: _ => true | _ => false end) (run_case f10_witness) = false /\
  existsb (fun op => match op with 10%Z :: _ => true | _ => false end) f10_witness = true.
Proof. vm_compute. repeat split; reflexivity. Qed.

Lemma acts_after_persist_lemma :
  forall s ev st s', n_msgs s = [] -> run_event s ev = Ret (st, s') ->
    Forall (fun m => m_term m = p_term (n_p s') /\ m_from m = n_id s' /\
                     (m_body m = VoteResp true -> p_vote (n_p s') = m_to m)) (n_msgs s').
Proof. intros s ev st s' H R. destruct (run_event_sum s ev st s' H R) as [_ [M _]]. exact M. Qed.

Lemma restart_repaired_keeps_term_and_vote_lemma :
  forall id cfg p s', new_core_fixed id cfg p = Ret s' ->
    p_term p <= p_term (n_p s') /\ (p_term (n_p s') = p_term p -> p_vote p <> 0 -> p_vote (n_p s') = p_vote p).
Proof.
  intros id cfg p s' H. pose proof (new_core_fixed_pext id cfg p) as P. rewrite H in P.
  destruct P as [A [B _]]. split; [exact A|]. intros Ht Hv. destruct (B Ht); congruence.
Qed.

Lemma handler_equals_its_durable_mutations_lemma :
  forall s ev st s', ev <> ERestart -> n_muts s = [] -> run_event s ev = Ret (st, s') ->
    n_p s' = replay (n_p s) (n_muts s').
Proof. intros s ev st s' Hne Hm H. destruct (run_event_mono s ev st s' Hne H) as [_ B]. exact (B Hm). Qed.

(* right after the crash of that schedule (its first 31 ops) node 3's storage is consistent again *)
Definition f10_prefix : list (list Z) := firstn 31 f10_witness.

Lemma f10_state_repaired :
  legit_schedule f10_prefix = true /\
  exists c s, final_state f10_prefix = Some c /\ get_node 3 c = Some s /\
              n_commit s <= last_index (n_p s) /\ p_log (n_p s) = [].
Proof.
  split; [vm_compute; reflexivity|].
  destruct (final_state f10_prefix) as [c |] eqn:E; [| vm_compute in E; discriminate].
  vm_compute in E. inversion E. subst c. eexists. eexists. split; [reflexivity|]. split; [vm_compute; reflexivity|].
  split; vm_compute; [discriminate | reflexivity].
Qed.
