(* C07/A_NoFatal.v — part A: restart never hits a Fatalf.
   (1) newCore on ANY store that a crash can leave behind (pcontig: what Raft/SnapContig.v proves for the store at
       every crash point of every event of every schedule) returns a node; that node is a follower without leader
       on a contiguous store whose snapshot index is its commit index;
   (2) on such a node the traffic a rejoining node sees — VoteReq, AppEnts (heartbeat or with entries that are
       consecutive and start right after prevLogIndex, which is how getAppEnts builds them), InstallSnapshot —
       is handled without reaching any Fatalf / panic branch, whatever the message says otherwise.
   "Not Fatal" = outcome Ret or Crashed (the latter only with a crash budget). *)
From Coq Require Import List NArith ZArith Bool Lia.
From BLB Require Import Raft.Core Raft.NodeProofs Raft.LogMatchLists Raft.SnapContig.
Import ListNotations.
Open Scope N_scope.

(* ---------------------------------------------------------------- "does not reach a Fatalf" *)
Definition nf {A} (P : A -> Prop) (r : R A) : Prop :=
  match r with Ret a => P a | Crashed _ => True | Fatal _ => False end.

Lemma nf_bind {A B} (P : A -> Prop) (Q : B -> Prop) (a : R A) (f : A -> R B) :
  nf P a -> (forall x, P x -> nf Q (f x)) -> nf Q (bind a f).
Proof. destruct a; simpl; auto. Qed.

Lemma nf_weaken {A} (P Q : A -> Prop) r : nf P r -> (forall x, P x -> Q x) -> nf Q r.
Proof. destruct r; simpl; auto. Qed.

Lemma nf_do_mut m s (P : node -> Prop) :
  P (upd_p s (apply_mut (n_p s) m) (n_cnt s + 1) (n_muts s ++ [m])) -> nf P (do_mut m s).
Proof. intro H. unfold do_mut. destruct (negb (n_budget s =? 0) && (n_budget s =? n_cnt s + 1)); simpl; auto. Qed.

(* ---------------------------------------------------------------- reads on a well-formed log with any first index *)
Lemma lwf_cases l :
  lwf l -> l = [] \/ exists f, 1 <= f /\ wf_from f l /\ l <> [] /\ log_first l = Some f /\
                              log_last l = Some (f + N.of_nat (length l) - 1).
Proof.
  destruct l as [| e r]; [left; reflexivity|]. intros [A B]. right. exists (e_index e).
  split; [exact A|]. split; [exact B|]. split; [discriminate|]. split; [reflexivity|].
  apply log_last_wf; [exact B | discriminate].
Qed.

Lemma log_entries_from p f b e :
  wf_from f (p_log p) -> f <= b ->
  log_entries p b e = Ret (firstn (N.to_nat (e - b)) (skipn (N.to_nat (b - f)) (p_log p))).
Proof.
  intros W Hb. unfold log_entries. rewrite (drop_while_lt f b); auto.
  apply entries_loop_wf. replace b with (f + N.of_nat (N.to_nat (b - f))) at 1 by lia. apply wf_from_skipn. exact W.
Qed.

Lemma log_entries_nil p b e : p_log p = [] -> log_entries p b e = Ret [].
Proof. intro H. unfold log_entries. rewrite H. reflexivity. Qed.

(* entries(beg, end) never fails when beg is not below the first index of the log *)
Lemma log_entries_nf p b e :
  lwf (p_log p) -> (forall f, log_first (p_log p) = Some f -> f <= b) -> exists es, log_entries p b e = Ret es.
Proof.
  intros L H. destruct (lwf_cases _ L) as [E | [f [_ [W [_ [F _]]]]]].
  - rewrite (log_entries_nil p b e E). eauto.
  - rewrite (log_entries_from p f b e W (H f F)). eauto.
Qed.

Lemma log_term_in p f i :
  wf_from f (p_log p) -> f <= i -> i <= f + N.of_nat (length (p_log p)) - 1 -> p_log p <> [] ->
  exists t, log_term p i = Ret t.
Proof.
  intros W H1 H2 Hn. unfold log_term. rewrite (log_entries_from p f i (i + 1) W H1). simpl.
  replace (N.to_nat (i + 1 - i)) with 1%nat by lia.
  destruct (skipn (N.to_nat (i - f)) (p_log p)) as [| x r] eqn:E.
  - exfalso. assert (Hl : (length (skipn (N.to_nat (i - f)) (p_log p)) = 0)%nat) by (rewrite E; reflexivity).
    rewrite skipn_length in Hl. destruct (p_log p); [congruence|]. simpl length in *. lia.
  - simpl. eauto.
Qed.

Lemma in_log_nf p i t :
  lwf (p_log p) ->
  exists b, in_log p i t = Ret b /\
            (b = true -> exists f, log_first (p_log p) = Some f /\ f <= i /\ i <= f + N.of_nat (length (p_log p)) - 1).
Proof.
  intros L. unfold in_log. destruct (lwf_cases _ L) as [E | [f [_ [W [Hn [F La]]]]]].
  - rewrite E. simpl. exists false. split; [reflexivity | discriminate].
  - rewrite F, La.
    destruct ((f <=? i) && (i <=? f + N.of_nat (length (p_log p)) - 1)) eqn:Eb.
    + apply andb_true_iff in Eb. destruct Eb as [B1 B2]. apply N.leb_le in B1, B2.
      destruct (log_term_in p f i W B1 B2 Hn) as [tm Ht]. rewrite Ht. simpl.
      exists (t =? tm). split; [reflexivity|]. intros _. exists f. auto.
    + exists false. split; [reflexivity | discriminate].
Qed.

Lemma contig_snap_le_last p m : contig p -> p_snap p = Some m -> sn_index m <= last_index p.
Proof. intros C H. destruct (contig_pcontig p C) as [_ _]. destruct C as [A B].
  unfold last_index. destruct (p_log p) as [| x r] eqn:El.
  - simpl. rewrite H. lia.
  - destruct A as [A1 A2]. rewrite (log_last_wf (e_index x) (x :: r) A2) by discriminate. rewrite H in B. simpl length in *. lia.
Qed.

Lemma last_index_nonempty p f :
  wf_from f (p_log p) -> p_log p <> [] -> last_index p = f + N.of_nat (length (p_log p)) - 1.
Proof. intros W Hn. unfold last_index. rewrite (log_last_wf f _ W Hn). reflexivity. Qed.

Lemma has_entry_nf p i t :
  contig p -> exists b, has_entry p i t = Ret b /\ (b = true -> i <= last_index p).
Proof.
  intros C. pose proof C as [L _]. unfold has_entry.
  destruct (i =? 0) eqn:E0.
  { apply N.eqb_eq in E0. exists true. split; [reflexivity|]. intros _. lia. }
  assert (Hin : exists b, in_log p i t = Ret b /\ (b = true -> i <= last_index p)).
  { destruct (in_log_nf p i t L) as [b [Hb Hi]]. exists b. split; [exact Hb|]. intro Hbt.
    destruct (Hi Hbt) as [f [F [I1 I2]]]. destruct (lwf_cases _ L) as [E | [f' [_ [W [Hn [F' _]]]]]].
    - rewrite E in F. discriminate.
    - rewrite F in F'. inversion F'. subst f'. rewrite (last_index_nonempty p f W Hn). exact I2. }
  destruct (p_snap p) as [m |] eqn:Es; [| exact Hin].
  destruct (i <=? sn_index m) eqn:E1; [| exact Hin].
  apply N.leb_le in E1. exists true. split; [reflexivity|]. intros _.
  pose proof (contig_snap_le_last p m C Es). lia.
Qed.

Lemma st_term_last_nf p : contig p -> exists t, st_term p (last_index p) = Ret (t, true).
Proof.
  intros C. pose proof C as [L B]. unfold st_term. rewrite N.ltb_irrefl.
  destruct (last_index p =? 0) eqn:E0; [eauto|]. apply N.eqb_neq in E0.
  destruct (lwf_cases _ L) as [E | [f [F1 [W [Hn [F La]]]]]].
  - rewrite E. simpl. unfold last_index in *. rewrite E in *. simpl in *.
    destruct (p_snap p) as [m |]; [| congruence]. rewrite N.eqb_refl. eauto.
  - rewrite F. pose proof (last_index_nonempty p f W Hn) as Hl.
    assert (X : (f <=? last_index p) = true).
    { apply N.leb_le. rewrite Hl. destruct (p_log p); [congruence|]. simpl length. lia. }
    rewrite X. destruct (log_term_in p f (last_index p) W) as [t Ht]; auto; [apply N.leb_le; exact X | lia|].
    rewrite Ht. simpl. eauto.
Qed.

(* ---------------------------------------------------------------- the invariant of the follower path *)
Definition snle (s : node) : Prop := forall m, p_snap (n_p s) = Some m -> sn_index m <= n_commit s.
Definition J (s : node) : Prop := contig (n_p s) /\ snle s.

Lemma J_ext s s' :
  p_log (n_p s') = p_log (n_p s) -> p_snap (n_p s') = p_snap (n_p s) -> n_commit s' = n_commit s -> J s -> J s'.
Proof.
  intros A B C [H1 H2]. split; [eapply contig_ext; eauto|]. unfold snle in *. rewrite B, C. exact H2.
Qed.

Lemma first_le_commit1 s f : J s -> log_first (p_log (n_p s)) = Some f -> f <= n_commit s + 1.
Proof.
  intros [[A B] S] F. destruct (p_log (n_p s)) as [| x r]; [discriminate|]. simpl in F. inversion F. subst f.
  destruct (p_snap (n_p s)) as [m |] eqn:Es; [specialize (S m Es); lia | lia].
Qed.

(* commitUpTo: no Fatalf as long as the snapshot is not ahead of the commit index *)
Lemma commit_up_to_nf s i :
  J s -> n_commit s <= i ->
  nf (fun s' => p_log (n_p s') = p_log (n_p s) /\ p_snap (n_p s') = p_snap (n_p s) /\ n_commit s' = i /\
                n_role s' = n_role s /\ n_leader s' = n_leader s) (commit_up_to s i).
Proof.
  intros HJ Hi. pose proof HJ as [[L _] S]. unfold commit_up_to.
  assert (Hc : match p_snap (n_p s) with Some m => if n_commit s <? sn_index m then Some m else None | None => None end = None).
  { destruct (p_snap (n_p s)) as [m |] eqn:Es; auto. specialize (S m Es).
    destruct (n_commit s <? sn_index m) eqn:E; auto. apply N.ltb_lt in E. lia. }
  rewrite Hc.
  destruct (log_entries_nf (n_p s) (n_commit s + 1) (i + 1) L (fun f F => first_le_commit1 s f HJ F)) as [es He].
  rewrite He. simpl.
  set (s1 := set_commit s i (n_restore s) (n_commits s ++ es)).
  destruct (negb (latest_conf_committed s) && latest_conf_committed s1) eqn:Eb; simpl; [| auto 10].
  unfold latest_conf_committed in Eb at 1. destruct (n_conf s) as [c |] eqn:Ec; [| discriminate].
  try (change (n_conf s1) with (n_conf s); rewrite Ec). apply nf_do_mut. simpl. auto 10.
Qed.

Lemma follower_maybe_commit_nf s lc mi :
  J s -> nf (fun s' => J s') (follower_maybe_commit s lc mi).
Proof.
  intros HJ. unfold follower_maybe_commit. destruct (n_commit s <? N.min mi lc) eqn:E; [| exact HJ].
  apply N.ltb_lt in E. eapply nf_weaken; [apply commit_up_to_nf; [exact HJ | lia]|].
  intros s' [A [B [C _]]]. destruct HJ as [H1 H2]. split; [eapply contig_ext; eauto|].
  unfold snle in *. rewrite B, C. intros m Hm. specialize (H2 m Hm). lia.
Qed.

(* ---------------------------------------------------------------- (1) newCore *)
Definition fresh (s : node) : Prop :=
  J s /\ n_role s = Follower /\ n_leader s = 0 /\ n_msgs s = [] /\
  n_commit s = match p_snap (n_p s) with Some m => sn_index m | None => 0 end.

Lemma reconcile_nf s :
  pcontig (n_p s) -> n_budget s = 0 ->
  exists r, reconcile s = Ret r /\ contig (n_p r) /\ n_commit r = n_commit s /\ n_budget r = 0 /\
            n_id r = n_id s /\ n_cfg r = n_cfg s.
Proof.
  intros Q Hb. pose proof (reconcile_ox s Q) as Ox. pose proof Q as [L _].
  assert (Hm : forall m0, exists r, do_mut m0 s = Ret r /\ n_commit r = n_commit s /\ n_budget r = 0 /\ n_id r = n_id s /\ n_cfg r = n_cfg s).
  { intro m0. unfold do_mut. rewrite Hb. simpl. eexists. split; [reflexivity|]. simpl. auto. }
  unfold reconcile in *.
  destruct (p_snap (n_p s)) as [m |] eqn:Es; [| exists s; simpl in Ox; auto 10].
  destruct (lwf_cases _ L) as [E | [f [_ [W [Hn [F La]]]]]].
  { rewrite E in *. simpl in *. exists s. auto 10. }
  rewrite F, La in *.
  destruct ((f + N.of_nat (length (p_log (n_p s))) - 1 <? sn_index m) || (sn_index m + 1 <? f)) eqn:E1.
  { destruct (Hm (MTruncate 0)) as [r [Hr X]]. rewrite Hr in *. exists r. simpl in Ox. auto. }
  apply orb_false_iff in E1. destruct E1 as [E1 E2]. apply N.ltb_ge in E1, E2.
  destruct (f <=? sn_index m) eqn:E3.
  - apply N.leb_le in E3. destruct (log_term_in (n_p s) f (sn_index m) W E3 E1 Hn) as [t Ht]. rewrite Ht in *. simpl in *.
    destruct (negb (t =? sn_term m)).
    + destruct (Hm (MTruncate 0)) as [r [Hr X]]. rewrite Hr in *. exists r. simpl in Ox. auto.
    + exists s. simpl in Ox. auto 10.
  - exists s. simpl in Ox. auto 10.
Qed.

Theorem new_core_never_fatal id cfg p :
  pcontig p -> exists s', new_core id cfg p = Ret s' /\ fresh s' /\ n_id s' = id /\ n_cfg s' = cfg.
Proof.
  intros Q. unfold new_core.
  destruct (reconcile_nf (blank_node id cfg p) Q eq_refl) as [r [Hr [Cr [Cm [Br [Ir Gr]]]]]]. rewrite Hr. simpl.
  set (s0 := set_conf (blank_node id cfg (n_p r)) (init_latest_conf (n_p r))).
  destruct (p_snap (n_p r)) as [m |] eqn:Es.
  - (* commit up to the snapshot *)
    unfold commit_up_to. change (p_snap (n_p s0)) with (p_snap (n_p r)). rewrite Es. change (n_commit s0) with 0.
    destruct (0 <? sn_index m) eqn:E0.
    + rewrite N.eqb_refl. simpl. eexists. split; [reflexivity|]. split; [| split; reflexivity].
      split; [split|].
      * exact Cr.
      * intros m0 H0. simpl in H0. rewrite Es in H0. inversion H0. subst. simpl. lia.
      * simpl. rewrite Es. auto.
    + apply N.ltb_ge in E0. assert (Z : sn_index m = 0) by lia.
      pose proof Cr as [L _].
      assert (HJ0 : J s0).
      { split; [exact Cr|]. intros m0 H0. change (p_snap (n_p s0)) with (p_snap (n_p r)) in H0. rewrite Es in H0.
        inversion H0. subst m0. change (n_commit s0) with 0. lia. }
      destruct (log_entries_nf (n_p s0) (0 + 1) (sn_index m + 1) L (fun f F => first_le_commit1 s0 f HJ0 F)) as [es He].
      change (n_p s0) with (n_p r) in He. change (n_p s0) with (n_p r). rewrite He. cbv beta iota delta [bind].
      set (s1 := set_commit s0 (sn_index m) (n_restore s0) (n_commits s0 ++ es)).
      assert (Hlc : latest_conf_committed s1 = latest_conf_committed s0).
      { unfold latest_conf_committed. simpl. rewrite Z. reflexivity. }
      rewrite Hlc. rewrite andb_negb_l. simpl. eexists. split; [reflexivity|]. split; [| split; reflexivity].
      split; [split|].
      * exact Cr.
      * intros m0 H0. simpl in H0. rewrite Es in H0. inversion H0. subst. simpl. lia.
      * simpl. rewrite Es. auto.
  - simpl. eexists. split; [reflexivity|]. split; [| split; reflexivity].
    split; [split|].
    + exact Cr.
    + intros m0 H0. simpl in H0. rewrite Es in H0. discriminate.
    + simpl. rewrite Es. auto.
Qed.

(* ---------------------------------------------------------------- (2) the traffic a rejoining node sees *)
Definition rejoin_msg (m : msg) : Prop :=
  match m_body m with
  | VoteReq _ _ => True
  | InstallSnap _ _ _ => True
  | AppEnts _ _ _ None => True
  | AppEnts pi _ _ (Some es) => es <> [] /\ wf_from (pi + 1) es
  | _ => False
  end.

Lemma can_grant_vote_nf s from li lt : contig (n_p s) -> exists b, can_grant_vote s from li lt = Ret b.
Proof.
  intro C. unfold can_grant_vote.
  destruct (negb (p_vote (n_p s) =? 0) && negb (p_vote (n_p s) =? from)); [eauto|].
  destruct (st_term_last_nf (n_p s) C) as [t Ht]. rewrite Ht. simpl. eauto.
Qed.

Lemma follower_note_leader_nf s from :
  J s -> n_leader s = 0 \/ n_leader s = from ->
  nf (fun s1 => J s1 /\ n_role s1 = n_role s) (follower_note_leader s from).
Proof.
  intros HJ Hl. unfold follower_note_leader.
  eapply nf_bind with (P := fun s1 => J s1 /\ n_role s1 = n_role s /\ n_leader s1 = n_leader s).
  - destruct (p_vote (n_p s) =? 0); [| simpl; auto].
    apply nf_do_mut. split; [eapply J_ext; [| | | exact HJ]; reflexivity | simpl; auto].
  - intros s1 [J1 [R1 L1]]. destruct (n_leader s1 =? 0) eqn:E0.
    + simpl. split; [eapply J_ext; [| | | exact J1]; reflexivity | exact R1].
    + apply N.eqb_neq in E0. destruct Hl as [Hl | Hl]; [congruence|].
      rewrite L1, Hl, N.eqb_refl. simpl. auto.
Qed.

Lemma send_J s to b : J s -> J (send s to b).
Proof. intro H. eapply J_ext; [| | | exact H]; reflexivity. Qed.

(* ---- InstallSnapshot *)
Lemma handle_snapshot_nf s from li lt c : J s -> nf (fun _ => True) (handle_snapshot s from li lt c).
Proof.
  intros HJ. unfold handle_snapshot.
  set (s0 := set_follower_contact s).
  assert (J0 : J s0) by (eapply J_ext; [| | | exact HJ]; reflexivity).
  destruct (match p_snap (n_p s0) with Some m => if li <=? sn_index m then Some (sn_index m) else None | None => None end); [exact I|].
  set (M := {| sn_index := li; sn_term := lt; sn_conf := Some c |}).
  eapply nf_bind with (P := fun s1 => p_log (n_p s1) = p_log (n_p s0) /\ p_snap (n_p s1) = Some M /\
                                      n_commit s1 = n_commit s0).
  { apply nf_do_mut. simpl. auto. }
  intros s1 [L1 [S1 C1]].
  assert (Lw : lwf (p_log (n_p s1))) by (rewrite L1; apply J0).
  destruct (in_log_nf (n_p s1) li lt Lw) as [b [Hb Hi]]. rewrite Hb. cbv beta iota delta [bind].
  eapply nf_bind with (P := fun s2 => p_snap (n_p s2) = Some M /\ n_commit s2 = n_commit s0).
  { destruct b.
    - destruct (Hi eq_refl) as [f [F [I1 I2]]]. unfold trim_log. rewrite F.
      destruct (lwf_cases _ Lw) as [E | [f' [_ [W [Hn [F' La]]]]]]; [rewrite E in F; discriminate|].
      rewrite F in F'. inversion F'. subst f'. rewrite La.
      destruct (li =? f - 1); [simpl; auto|].
      assert (X : (li <? f) || (f + N.of_nat (length (p_log (n_p s1))) - 1 <? li) = false).
      { apply orb_false_iff. split; apply N.ltb_ge; lia. }
      rewrite X. destruct (li - f <? cf_keep (n_cfg s1)); [simpl; auto|].
      apply nf_do_mut. simpl. auto.
    - eapply nf_bind with (P := fun s2 => p_snap (n_p s2) = Some M /\ n_commit s2 = n_commit s0).
      + apply nf_do_mut. simpl. auto.
      + intros s2 H2. simpl. exact H2. }
  intros s2 [S2 C2].
  eapply nf_bind with (P := fun _ => True); [| intros; exact I].
  destruct (n_commit s2 <? li) eqn:E; [| exact I]. apply N.ltb_lt in E.
  unfold commit_up_to. rewrite S2. simpl sn_index. apply N.ltb_lt in E. rewrite E. rewrite N.eqb_refl. simpl. exact I.
Qed.

(* ---- AppendEntries *)
Lemma conflict_loop_nf cnt : forall idx off ents il,
  (idx + cnt <= length il)%nat -> (idx + off + cnt <= length ents)%nat ->
  exists r, conflict_loop cnt idx off ents il = Ret r.
Proof.
  induction cnt as [| c IH]; intros idx off ents il H1 H2; simpl; [eauto|].
  destruct (nth_error ents (idx + off)) as [a |] eqn:Ea; [| apply nth_error_None in Ea; lia].
  destruct (nth_error il idx) as [b |] eqn:Eb; [| apply nth_error_None in Eb; lia].
  destruct (negb (e_term a =? e_term b)); [eauto|].
  apply IH; lia.
Qed.

Lemma wf_from_head b e r : wf_from b (e :: r) -> e_index e = b.
Proof. intros [H _]. exact H. Qed.

Lemma conflict_index_nf s pi ents :
  contig (n_p s) -> ents <> [] -> wf_from (pi + 1) ents -> pi <= last_index (n_p s) ->
  exists ci any, conflict_index s ents = Ret (ci, any) /\
    (any = true -> pi + 1 <= ci /\ (forall m, p_snap (n_p s) = Some m -> sn_index m + 1 <= ci) /\
                   (forall f, log_first (p_log (n_p s)) = Some f -> f <= ci)).
Proof.
  intros C Hn W Hpi. pose proof C as [L B]. unfold conflict_index.
  destruct ents as [| e0 r]; [congruence|]. pose proof (wf_from_head _ _ _ W) as E0.
  set (p := n_p s) in *.
  destruct (e_index e0 =? last_index p + 1) eqn:E1; [exists 0, false; split; [reflexivity | discriminate]|].
  apply N.eqb_neq in E1.
  destruct (last_index p + 1 <? e_index e0) eqn:E2; [apply N.ltb_lt in E2; lia|]. clear E2.
  set (lastent := last_ent_index (e0 :: r)).
  assert (Hle : lastent = pi + 1 + N.of_nat (length (e0 :: r)) - 1) by (apply last_ent_index_wf; [exact W | discriminate]).
  set (sod := match p_snap p with
              | Some m => if lastent <=? sn_index m then None else Some (N.max (e_index e0) (sn_index m + 1))
              | None => Some (e_index e0)
              end).
  destruct sod as [start |] eqn:Esod; [| exists 0, false; split; [reflexivity | discriminate]].
  assert (Hst : e_index e0 <= start /\ (forall m, p_snap p = Some m -> sn_index m + 1 <= start)).
  { unfold sod in Esod. destruct (p_snap p) as [m |].
    - destruct (lastent <=? sn_index m); [discriminate|]. inversion Esod. split; [lia|]. intros m0 Hq. inversion Hq. subst. lia.
    - inversion Esod. split; [lia | discriminate]. }
  destruct Hst as [St1 St2].
  destruct (lwf_cases _ L) as [E | [f [F1 [Wl [Hnl [F La]]]]]].
  { unfold log_last. rewrite E. simpl. exists 0, false. split; [reflexivity | discriminate]. }
  rewrite La. set (lli := f + N.of_nat (length (p_log p)) - 1). set (end_ := N.min lli lastent).
  assert (Hf : f <= start).
  { unfold contig in C. fold p in C. destruct C as [_ C]. destruct (p_log p) as [| x t] eqn:El; [congruence|].
    simpl in F. inversion F. subst f. destruct (p_snap p) as [m |] eqn:Es; [specialize (St2 m eq_refl); lia | lia]. }
  rewrite (log_entries_from p f start (end_ + 1) Wl Hf). cbv beta iota delta [bind].
  set (il := firstn (N.to_nat (end_ + 1 - start)) (skipn (N.to_nat (start - f)) (p_log p))).
  set (cnt := if end_ <? start then 0%nat else N.to_nat (end_ - start + 1)).
  assert (Hil : (cnt <= length il)%nat).
  { unfold cnt, il. rewrite firstn_length, skipn_length. destruct (end_ <? start) eqn:Ee; [lia|]. apply N.ltb_ge in Ee.
    unfold end_, lli in *. lia. }
  assert (Hen : (N.to_nat (start - e_index e0) + cnt <= length (e0 :: r))%nat).
  { unfold cnt. destruct (end_ <? start) eqn:Ee.
    - apply N.ltb_lt in Ee. assert (start <= lastent \/ lastent < start) as [X | X] by lia; [lia|].
      (* start beyond the last entry: only possible when the snapshot covers them, excluded above *)
      unfold sod in Esod. destruct (p_snap p) as [m |].
      + destruct (lastent <=? sn_index m) eqn:Y; [discriminate|]. apply N.leb_gt in Y. inversion Esod. lia.
      + inversion Esod. lia.
    - apply N.ltb_ge in Ee. unfold end_ in *. lia. }
  destruct (conflict_loop_nf cnt 0 (N.to_nat (start - e_index e0)) (e0 :: r) il) as [[ci any] Hr]; [exact Hil | exact Hen|].
  exists ci, any. split; [exact Hr|]. intro Ha. subst any.
  apply conflict_loop_src in Hr. destruct Hr as [j [a [Hj [Hja Hc]]]].
  rewrite (wf_from_nth _ _ _ _ W Hja) in Hc.
  assert (Hci : start <= ci) by lia.
  split; [lia|]. split.
  - intros m Hm. specialize (St2 m Hm). lia.
  - intros f' F'. rewrite F in F'. inversion F'. subst. lia.
Qed.

Lemma last_index_trunc_ge p k :
  contig p -> (forall m, p_snap p = Some m -> sn_index m <= k) ->
  (forall f, log_first (p_log p) = Some f -> f <= k + 1) ->
  N.min k (last_index p) <= last_index (set_log p (mem_truncate k (p_log p))).
Proof.
  intros C Hs Hf. pose proof C as [L B].
  destruct (lwf_cases _ L) as [E | [f [F1 [W [Hn [F La]]]]]].
  { unfold last_index. simpl. rewrite E. unfold mem_truncate. simpl. lia. }
  specialize (Hf f F).
  unfold last_index at 2. simpl p_log. simpl p_snap.
  rewrite (mem_truncate_from f k _ W).
  rewrite (last_index_nonempty p f W Hn).
  destruct (firstn (N.to_nat (k + 1 - f)) (p_log p)) as [| x t] eqn:Ef.
  - assert (Hz : N.to_nat (k + 1 - f) = 0%nat).
    { destruct (N.to_nat (k + 1 - f)); auto. destruct (p_log p); [congruence | discriminate]. }
    unfold log_last. simpl.
    destruct (p_log p) as [| y u] eqn:El; [congruence|]. simpl in F. inversion F. subst f.
    destruct (p_snap p) as [m |] eqn:Es; [specialize (Hs m eq_refl); lia | lia].
  - assert (W' : wf_from f (x :: t)) by (rewrite <- Ef; apply wf_from_firstn; exact W).
    rewrite (log_last_wf f (x :: t) W') by discriminate.
    assert (Hl : length (x :: t) = Nat.min (N.to_nat (k + 1 - f)) (length (p_log p))) by (rewrite <- Ef; apply firstn_length).
    lia.
Qed.

Lemma mem_append_ok app : forall l b,
  wf_from b app -> (l = [] \/ log_last l = Some (b - 1)) -> 1 <= b -> snd (mem_append l app) = true.
Proof.
  induction app as [| e r IH]; intros l b W Hl Hb; simpl; [reflexivity|].
  destruct W as [We Wr].
  assert (Hnext : snd (mem_append (l ++ [e]) r) = true).
  { apply (IH (l ++ [e]) (b + 1) Wr); [| lia]. right. rewrite log_last_app. f_equal. lia. }
  destruct Hl as [Hl | Hl].
  - subst l. unfold log_last. simpl. exact Hnext.
  - rewrite Hl. assert (X : (e_index e =? b - 1 + 1) = true) by (apply N.eqb_eq; lia). rewrite X. exact Hnext.
Qed.

Lemma last_index_log_last p : p_log p = [] \/ log_last (p_log p) = Some (last_index p).
Proof.
  unfold last_index. destruct (p_log p) as [| x r] eqn:E; [left; reflexivity|]. right.
  destruct (log_last (x :: r)) eqn:El; [reflexivity|]. apply log_last_nil in El. discriminate.
Qed.

Lemma handle_app_ents_nf s from pi pt cm oes :
  J s -> match oes with Some es => es <> [] /\ wf_from (pi + 1) es | None => True end ->
  nf (fun _ => True) (handle_app_ents s from pi pt cm oes).
Proof.
  intros HJ Hes. unfold handle_app_ents.
  set (s0 := set_follower_contact s).
  assert (J0 : J s0) by (eapply J_ext; [| | | exact HJ]; reflexivity).
  destruct (has_entry_nf (n_p s0) pi pt (proj1 J0)) as [ok [Hok Hpi]]. rewrite Hok. cbv beta iota delta [bind].
  destruct ok; simpl negb; cbv iota; [| exact I]. specialize (Hpi eq_refl).
  destruct oes as [ents |].
  2: { eapply nf_weaken; [apply follower_maybe_commit_nf; apply send_J; exact J0 | auto]. }
  destruct Hes as [Hne W].
  destruct (conflict_index_nf s0 pi ents (proj1 J0) Hne W Hpi) as [ci [any [Hci Hany]]].
  rewrite Hci. cbv beta iota delta [bind].
  eapply nf_bind with (P := fun s1 => J s1 /\ pi <= last_index (n_p s1)).
  { destruct any; [| simpl; auto].
    destruct (Hany eq_refl) as [A1 [A2 A3]].
    eapply nf_bind with (P := fun s1 => J s1 /\ pi <= last_index (n_p s1)).
    - apply nf_do_mut. split.
      + destruct J0 as [C0 S0]. split.
        * simpl. apply trunc_contig; [exact C0|]. intros m Hm. specialize (A2 m Hm). lia.
        * unfold snle in *. simpl. exact S0.
      + change (pi <= last_index (set_log (n_p s0) (mem_truncate (ci - 1) (p_log (n_p s0))))).
        pose proof (last_index_trunc_ge (n_p s0) (ci - 1) (proj1 J0)) as Hg.
        assert (X : N.min (ci - 1) (last_index (n_p s0)) <= last_index (set_log (n_p s0) (mem_truncate (ci - 1) (p_log (n_p s0))))).
        { apply Hg; [intros m Hm; specialize (A2 m Hm); lia | intros f F; specialize (A3 f F); lia]. }
        lia.
    - intros s' [J' L']. destruct (n_conf s') as [c |]; [| simpl; auto].
      destruct (ci <=? mb_index c); simpl; [| auto]. split; [eapply J_ext; [| | | exact J']; reflexivity | exact L']. }
  intros s1 [J1 L1].
  pose proof (last_ent_index_wf (pi + 1) ents W Hne) as Hli.
  destruct (last_ent_index ents <=? last_index (n_p s1)) eqn:El.
  { eapply nf_weaken; [apply follower_maybe_commit_nf; apply send_J; exact J1 | auto]. }
  apply N.leb_gt in El.
  destruct ents as [| e0 r]; [congruence|]. pose proof (wf_from_head _ _ _ W) as E0.
  set (off := last_index (n_p s1) + 1 - e_index e0).
  assert (Hoff : (N.to_nat off < length (e0 :: r))%nat) by (unfold off; lia).
  destruct (N.of_nat (length (e0 :: r)) <? off) eqn:Eo; [apply N.ltb_lt in Eo; lia|].
  destruct (skipn (N.to_nat off) (e0 :: r)) as [| a0 ar] eqn:Eapp.
  { exfalso. assert (X : length (skipn (N.to_nat off) (e0 :: r)) = 0%nat) by (rewrite Eapp; reflexivity).
    rewrite skipn_length in X. lia. }
  assert (Wa : wf_from (last_index (n_p s1) + 1) (a0 :: ar)).
  { rewrite <- Eapp. replace (last_index (n_p s1) + 1) with (pi + 1 + N.of_nat (N.to_nat off)) by (unfold off; lia).
    apply wf_from_skipn. exact W. }
  rewrite (wf_from_head _ _ _ Wa), N.eqb_refl. simpl negb. cbv iota.
  set (s2 := fold_left (fun a e => if e_type e =? EntryConf then set_conf a (decode_conf e) else a) (a0 :: ar) s1).
  assert (Hp2 : n_p s2 = n_p s1) by (unfold s2; apply fold_conf_np).
  assert (Hc2 : n_commit s2 = n_commit s1).
  { unfold s2. clear. generalize (a0 :: ar). intros l. revert s1. induction l as [| e t IH]; intros s1; simpl; auto.
    rewrite IH. destruct (e_type e =? EntryConf); reflexivity. }
  eapply nf_bind with (P := fun s3 => J s3).
  - unfold log_append. rewrite Hp2.
    rewrite (mem_append_ok (a0 :: ar) (p_log (n_p s1)) (last_index (n_p s1) + 1) Wa); [| | lia].
    + eapply nf_bind with (P := fun s3 => J s3); [| intros s3 H3; exact H3].
      apply nf_do_mut. destruct J1 as [C1 S1]. split.
      * change (contig (set_log (n_p s2) (fst (mem_append (p_log (n_p s2)) (a0 :: ar))))). rewrite Hp2.
        apply append_contig; [exact C1|]. unfold continues. apply (wf_from_head _ _ _ Wa).
      * unfold snle in *. change (forall m, p_snap (n_p s2) = Some m -> sn_index m <= n_commit s2). rewrite Hp2, Hc2. exact S1.
    + replace (last_index (n_p s1) + 1 - 1) with (last_index (n_p s1)) by lia. apply last_index_log_last.
  - intros s3 J3. eapply nf_weaken; [apply follower_maybe_commit_nf; apply send_J; exact J3 | auto].
Qed.

(* ---- the follower's dispatcher and HandleMsg *)
Lemma handle_follower_nf s m :
  J s -> n_leader s = 0 \/ n_leader s = m_from m -> rejoin_msg m -> nf (fun _ => True) (handle_follower s m).
Proof.
  intros HJ Hl Hm. unfold handle_follower, rejoin_msg in *.
  destruct (m_body m) as [pi pt cm oes | su ix hi | li lt | g | li lt c]; try contradiction.
  - eapply nf_bind; [apply follower_note_leader_nf; eauto|]. intros s1 [J1 _].
    apply handle_app_ents_nf; [exact J1|]. destruct oes; auto.
  - destruct (can_grant_vote_nf s (m_from m) li lt (proj1 HJ)) as [b Hb]. rewrite Hb. cbv beta iota delta [bind].
    eapply nf_bind with (P := fun _ => True); [| intros; exact I].
    destruct b; [apply nf_do_mut; exact I | exact I].
  - eapply nf_bind; [apply follower_note_leader_nf; eauto|]. intros s1 [J1 _]. apply handle_snapshot_nf. exact J1.
Qed.

Theorem handle_msg_never_fatal s m :
  J s -> n_role s = Follower -> n_leader s = 0 -> rejoin_msg m -> nf (fun _ => True) (handle_msg s m).
Proof.
  intros HJ Hr Hl Hm. unfold handle_msg.
  destruct ((negb (m_to m =? 0) && negb (m_to m =? n_id s)) || (negb (m_tog m =? 0) && negb (m_tog m =? p_guid (n_p s)))); [exact I|].
  destruct (negb (guid_get (m_from m) (p_guids (n_p s)) =? 0) && negb (guid_get (m_from m) (p_guids (n_p s)) =? m_fromg m)); [exact I|].
  eapply nf_bind with (P := fun s1 => J s1 /\ n_role s1 = Follower /\ n_leader s1 = 0).
  { destruct (guid_get (m_from m) (p_guids (n_p s)) =? 0); [| simpl; auto].
    apply nf_do_mut. split; [eapply J_ext; [| | | exact HJ]; reflexivity | simpl; auto]. }
  intros s1 [J1 [R1 L1]].
  destruct (negb (m_epoch m =? 0) && negb (get_epoch s1 =? 0) && negb (m_epoch m =? get_epoch s1)); [exact I|].
  destruct (m_term m <? p_term (n_p s1)); [exact I|].
  eapply nf_bind with (P := fun s2 => J s2 /\ n_role s2 = Follower /\ (n_leader s2 = 0 \/ n_leader s2 = m_from m)).
  { destruct (p_term (n_p s1) <? m_term m); [| simpl; auto].
    unfold rejoin_msg in Hm.
    destruct (m_body m) as [pi pt cm oes | su ix hi | li lt | g | li lt c]; try contradiction.
    - eapply nf_bind with (P := fun s' => J s'); [apply nf_do_mut; eapply J_ext; [| | | exact J1]; reflexivity|].
      intros s' J'. simpl. split; [eapply J_ext; [| | | exact J']; reflexivity | auto].
    - eapply nf_bind with (P := fun s' => J s'); [apply nf_do_mut; eapply J_ext; [| | | exact J1]; reflexivity|].
      intros s' J'. simpl. split; [eapply J_ext; [| | | exact J']; reflexivity | auto].
    - eapply nf_bind with (P := fun s' => J s'); [apply nf_do_mut; eapply J_ext; [| | | exact J1]; reflexivity|].
      intros s' J'. simpl. split; [eapply J_ext; [| | | exact J']; reflexivity | auto]. }
  intros s2 [J2 [R2 L2]]. unfold handle_by_role. rewrite R2. apply handle_follower_nf; auto.
Qed.

(* how getAppEnts builds an AppEnts with entries: consecutive, starting right after prevLogIndex - two of the three
   conditions of rejoin_msg hold for every such message by construction *)
Lemma get_app_ents_shape s p pi pt cm es :
  get_app_ents s p = Ret (Some (AppEnts pi pt cm (Some es))) -> wf_from (pi + 1) es.
Proof.
  unfold get_app_ents.
  destruct (negb (pr_next p =? pr_match p + 1)).
  { destruct (st_term (n_p s) (pr_next p - 1)) as [[t ok] | |]; simpl; try discriminate. destruct (negb ok); discriminate. }
  destruct (pr_match p =? last_index (n_p s)).
  { destruct (st_term (n_p s) (pr_match p)) as [[t ok] | |]; simpl; try discriminate. destruct (negb ok); discriminate. }
  unfold get_log_entries.
  destruct (st_term (n_p s) (pr_match p + 1 - 1)) as [[t ok] | |]; simpl; try discriminate.
  destruct (negb ok); simpl; [discriminate|].
  destruct (log_first (p_log (n_p s))); [| simpl; discriminate].
  destruct (log_last (p_log (n_p s))); [| simpl; discriminate].
  destruct (pr_match p + 1 <? n); [simpl; discriminate|].
  destruct (n0 + 1 <? N.min (last_index (n_p s) + 1) (pr_match p + 1 + cf_max_ents (n_cfg s))); [discriminate|].
  unfold log_entries.
  match goal with |- context [entries_loop ?l ?b ?e] => destruct (entries_loop l b e) as [x | |] eqn:El end; simpl; try discriminate.
  intro H. inversion H. subst. eapply entries_loop_out. exact El.
Qed.
