(* C07/FileProofsSnapC.v — snapshot-manager half of C07 part B: every operation of fsSnapshotMgr, every crash
   point inside it, every power-loss state; then whole executions. *)
From Coq Require Import List ZArith NArith Bool Lia Sorted.
From BLB Require Import C07.FileFS C07.FileModel C07.FileProofsState C07.FileProofsSnapA C07.FileProofsSnapB.
Import ListNotations.

(* ------------------------------------------------------------------ the writer's temporary file *)

Definition wr_ok (s : fs) (w : option writer) : Prop :=
  match w with
  | None => True
  | Some w => exists x, lookup (NTmp (w_t w) (w_i w)) (dir s) = Some x /\
                        f_cur (inodes s x) = content_of (w_t w) (w_i w) (w_sid w) (w_nch w)
  end.

Lemma run_writes n ds : forall s x,
  lookup n (dir s) = Some x ->
  dir (run (map (MWrite n) ds) s) = dir s /\
  f_cur (inodes (run (map (MWrite n) ds) s) x) = f_cur (inodes s x) ++ concat ds.
Proof.
  induction ds as [|d ds IH]; intros s x Hl; cbn [map run fold_left concat].
  - rewrite app_nil_r. auto.
  - change (fold_left apply_mut (map (MWrite n) ds) (apply_mut s (MWrite n d)))
      with (run (map (MWrite n) ds) (apply_mut s (MWrite n d))).
    assert (Hd : dir (apply_mut s (MWrite n d)) = dir s) by (cbn; rewrite Hl; reflexivity).
    assert (Hl' : lookup n (dir (apply_mut s (MWrite n d))) = Some x) by (rewrite Hd; exact Hl).
    destruct (IH _ x Hl') as (H1 & H2). split; [congruence|].
    rewrite H2. cbn. rewrite Hl. cbn. rewrite set_inode_same. rewrite app_assoc. reflexivity.
Qed.

Lemma repeat_map {A B} (f : A -> B) a k : repeat (f a) k = map f (repeat a k).
Proof. induction k; cbn; congruence. Qed.

Lemma concat_repeat_nil {A} k : concat (repeat (@nil A) k) = [].
Proof. induction k; cbn; auto. Qed.

Lemma open_tmp_result s n :
  exists x, lookup n (dir (apply_mut s (MOpenCT n))) = Some x /\ f_cur (inodes (apply_mut s (MOpenCT n)) x) = [].
Proof.
  cbn [apply_mut]. destruct (lookup n (dir s)) as [x|] eqn:Hl.
  - destruct (f_cur (inodes s x)) eqn:Hc.
    + exists x. auto.
    + exists x. cbn [dir inodes]. rewrite set_inode_same. auto.
  - exists (nexti s). cbn [dir inodes]. rewrite lookup_bind_same, set_inode_same. auto.
Qed.

Lemma content_of_S t i sid n : content_of t i sid (S n) = content_of t i sid n ++ chunk_tok sid (S n).
Proof.
  unfold content_of. rewrite seq_S. rewrite flat_map_app. cbn [flat_map]. rewrite app_nil_r.
  rewrite <- app_assoc. reflexivity.
Qed.

Lemma begin_muts_eq t i G :
  begin_muts t i G =
  [MOpenCT (NTmp t i); MDirSync] ++
  map (MWrite (NTmp t i)) ([[7%Z]] ++ repeat [] (pred (nblocks 4 G)) ++ [[Z.of_N t; Z.of_N i]]).
Proof. unfold begin_muts. rewrite !map_app. rewrite <- repeat_map. reflexivity. Qed.

Lemma begin_writer s t i G sid :
  wr_ok (run (begin_muts t i G) s) (Some (mkW t i (4 + G) sid 0)).
Proof.
  rewrite begin_muts_eq. rewrite run_app.
  destruct (open_tmp_result s (NTmp t i)) as (x & Hl & Hc).
  set (s2 := run [MOpenCT (NTmp t i); MDirSync] s).
  assert (Hl2 : lookup (NTmp t i) (dir s2) = Some x) by exact Hl.
  assert (Hc2 : f_cur (inodes s2 x) = []) by exact Hc.
  destruct (run_writes (NTmp t i) ([[7%Z]] ++ repeat [] (pred (nblocks 4 G)) ++ [[Z.of_N t; Z.of_N i]]) s2 x Hl2)
    as (Hd & Hcur).
  exists x. cbn [w_t w_i w_sid w_nch]. split; [rewrite Hd; exact Hl2|].
  rewrite Hcur, Hc2. rewrite !concat_app, concat_repeat_nil. cbn. reflexivity.
Qed.

(* ------------------------------------------------------------------ the one state that is not an invariant state:
   after rename(tmp, final), before the directory fsync *)

Lemma select_app_last {A} (l : list A) o : forall bs,
  exists bs1 b, select bs (l ++ [o]) = select bs1 l ++ (if b : bool then [o] else []).
Proof.
  induction l as [|a l IH]; intros bs; cbn [app].
  - exists [], (match bs with true :: _ => true | _ => false end).
    destruct bs as [|[|] bs]; cbn; auto; rewrite select_nil_r; reflexivity.
  - destruct bs as [|[|] bs]; cbn [select].
    + exists [], false. reflexivity.
    + destruct (IH bs) as (bs1 & b & E). exists (true :: bs1), b. cbn. rewrite E. reflexivity.
    + destruct (IH bs) as (bs1 & b & E). exists (false :: bs1), b. cbn. exact E.
Qed.

Lemma crash_ok_mono C A C' A' c : crash_ok C A c -> incl C C' -> incl A' A -> crash_ok C' A' c.
Proof. intros (H1 & H2) HC HA. split; auto. Qed.

Lemma rename_crash s C A t i x c :
  PInv0 s C A ->
  lookup (NTmp t i) (dir s) = Some x ->
  f_dirty (inodes s x) = false ->
  crash_cache (apply_mut s (MRename (NTmp t i) (NSnap t i))) c ->
  crash_ok ((t, i, f_cur (inodes s x)) :: C) A c.
Proof.
  intros HI Hl Hcl ((bs & Hd) & Hdata). cbn in Hd, Hdata. rewrite Hl in Hd, Hdata. cbn in Hd, Hdata.
  destruct (select_app_last (pend s) (DRename (NTmp t i) (NSnap t i) x) bs) as (bs1 & b & E).
  rewrite E in Hd. rewrite apply_dops_app in Hd.
  set (d0 := apply_dops (select bs1 (pend s)) (sdir s)) in *.
  assert (H0 : crash_ok C A (mkC d0 (c_data c))).
  { apply (pinv_crash s); auto. split; [exists bs1; reflexivity|exact Hdata]. }
  destruct b; cbn in Hd.
  - destruct H0 as (Hvis & Hack). split.
    + intros t' i' y Hin. rewrite Hd in Hin. apply In_bind in Hin. destruct Hin as [[Hn ->]|[Hin Hne]].
      * inversion Hn; subst. left. rewrite (Hdata x Hcl). reflexivity.
      * apply In_remove' in Hin. right. apply (Hvis t' i' y). tauto.
    + intros a Ha. destruct (Hack a Ha) as (m & y & Hf & Hin & Hle). cbn in Hin.
      destruct (name_eq_dec m (NSnap t i)) as [->|Hne].
      * exists (NSnap t i), x. repeat split; auto. rewrite Hd. apply In_bind. auto.
      * exists m, y. repeat split; auto. rewrite Hd. apply In_bind. right. split; auto.
        apply In_remove'. split; auto. intros ->. discriminate.
  - eapply crash_ok_mono; [|apply incl_tl; apply incl_refl|apply incl_refl].
    destruct H0 as (Hvis & Hack). split.
    + intros t' i' y Hin. rewrite Hd in Hin. apply (Hvis t' i' y Hin).
    + intros a Ha. destruct (Hack a Ha) as (m & y & Hf & Hin & Hle). exists m, y. rewrite Hd. auto.
Qed.

(* the state after the directory fsync that completes a commit *)
Lemma commit_dirsync_inv s C A t i x :
  PInv0 s C A ->
  lookup (NTmp t i) (dir s) = Some x ->
  f_dirty (inodes s x) = false ->
  PInv0 (apply_mut (apply_mut s (MRename (NTmp t i) (NSnap t i))) MDirSync)
        ((t, i, f_cur (inodes s x)) :: C) ((t, i) :: A).
Proof.
  intros HI Hl Hcl. pose proof HI as HI'. destruct HI' as [pi_cons0 pi_benign0 pi_sealed0 pi_disj0 pi_inj0 pi_names0 pi_bound0 pi_acked0]. cbn [apply_mut]. rewrite Hl. cbn [apply_mut dir sdir pend inodes nexti].
  assert (Hx : In (NTmp t i, x) (dir s)) by (apply lookup_In; exact Hl).
  assert (Hinj : NoDup (map snd (bind (NSnap t i) x (remove (NTmp t i) (dir s))))).
  { cbn. constructor.
    - intros Hin. apply in_map_iff in Hin. destruct Hin as ([k z] & Hz & Hin). cbn in Hz. subst z.
      apply In_remove' in Hin. destruct Hin as (Hin & _). apply In_remove' in Hin. destruct Hin as (Hin & Hne).
      apply Hne. eapply NoDup_snd_unique; eauto.
    - apply NoDup_map_filter. apply NoDup_map_filter. exact pi_inj0. }
  constructor; cbn [dir sdir pend inodes nexti].
  - reflexivity.
  - constructor.
  - intros t' i' y Hin. apply In_bind in Hin. destruct Hin as [[Hn ->]|[Hin Hne]].
    + inversion Hn; subst. split; auto. left. reflexivity.
    + apply In_remove' in Hin. destruct Hin as (Hin & _).
      rewrite pi_cons0 in Hin. apply (apply_dops_upper _ pi_benign0) in Hin; [|reflexivity].
      destruct (pi_sealed0 t' i' y Hin). split; auto. right. auto.
  - intros n y m Ht Hl' Hf Hin. apply lookup_In in Hl'.
    assert (n = m) by (eapply NoDup_snd_unique; eauto). subst. eapply fin_not_tmp; eauto.
  - exact Hinj.
  - cbn. constructor; [apply remove_fst_notin|]. apply NoDup_map_filter. apply NoDup_map_filter. exact pi_names0.
  - intros n y H.
    assert (Hy : In (n, y) (bind (NSnap t i) x (remove (NTmp t i) (dir s)))) by tauto.
    apply In_bind in Hy. destruct Hy as [[_ ->]|[Hy _]].
    + apply (pi_bound0 (NTmp t i)). auto.
    + apply In_remove' in Hy. apply (pi_bound0 n). tauto.
  - intros a [<-|Ha].
    + exists (NSnap t i), x. repeat split; [apply In_bind; auto|apply key_leb_refl].
    + destruct (pi_acked0 a Ha) as (m & y & Hf & Hin & Hle).
      destruct (name_eq_dec m (NSnap t i)) as [->|Hne].
      * exists (NSnap t i), x. repeat split; auto. apply In_bind. auto.
      * exists m, y. repeat split; auto. apply In_bind. right. split; auto.
        apply In_remove'. split; auto. intros ->. discriminate.
Qed.

(* ------------------------------------------------------------------ one operation *)

Definition op_trace (p : pstate) (o : pop) : list mut := snd (fst (pop_step p o)).
Definition op_next (p : pstate) (o : pop) : pstate := fst (fst (pop_step p o)).

(* the snapshot a Commit makes visible (None when the operation is not a successful Commit) *)
Definition commit_info (p : pstate) (o : pop) : option (N * N * list Z) :=
  match o, ps_w p with
  | PCommit oracle, Some w =>
      if (fst (commit_muts (ps_fs p) (ps_meta p) w oracle) =? 0)%Z
      then Some (w_t w, w_i w, content_of (w_t w) (w_i w) (w_sid w) (w_nch w))
      else None
  | _, _ => None
  end.

Definition C_of (C : commits) (ci : option (N * N * list Z)) : commits :=
  match ci with Some e => e :: C | None => C end.
Definition A_of (A : list (N * N)) (ci : option (N * N * list Z)) : list (N * N) :=
  match ci with Some (t, i, _) => (t, i) :: A | None => A end.

Lemma incl_C_of C ci : incl C (C_of C ci).
Proof. destruct ci; cbn; [apply incl_tl|]; apply incl_refl. Qed.
Lemma incl_A_of A ci : incl A (A_of A ci).
Proof. destruct ci as [[[t i] c]|]; cbn; [apply incl_tl|]; apply incl_refl. Qed.

Lemma safe_op_good s C A tr :
  PInv0 s C A -> safe_trace A s tr ->
  (forall r c, crash_cache (run (firstn r tr) s) c -> crash_ok C A c) /\ PInv0 (run tr s) C A.
Proof.
  intros HI Hs. split.
  - intros r c Hc. eapply pinv_crash; [|exact Hc]. apply safe_trace_prefix; auto.
  - apply safe_trace_run; auto.
Qed.

Lemma write_muts_tmp_only t i pos len tok : Forall tmp_only (write_muts (NTmp t i) pos len tok).
Proof.
  unfold write_muts. destruct (nblocks pos len); [constructor|].
  apply Forall_app. split; [|constructor; [reflexivity|constructor]].
  apply Forall_forall. intros m Hm. apply repeat_spec in Hm. subst. reflexivity.
Qed.

Lemma begin_muts_tmp_only t i G : Forall tmp_only (begin_muts t i G).
Proof.
  unfold begin_muts. repeat constructor.
  apply Forall_app. split; [|constructor; [reflexivity|constructor]].
  apply Forall_forall. intros m Hm. apply repeat_spec in Hm. subst. reflexivity.
Qed.

Lemma fsync_dir s n : dir (apply_mut s (MFsync n)) = dir s.
Proof. cbn. destruct (lookup n (dir s)); reflexivity. Qed.

Lemma new_mgr_safe s C A oracle : PInv0 s C A -> safe_trace A s (new_mgr_muts (dir s) oracle).
Proof.
  intros HI. unfold new_mgr_muts. destruct (rev (finals (dir s))) as [|n r].
  - eapply cleanup_safe; eauto.
  - constructor; [constructor|]. rewrite <- (fsync_dir s n).
    eapply cleanup_safe. eapply safe_preserves; [exact HI|constructor].
Qed.

Lemma wr_ok_fsync s w n : wr_ok s w -> wr_ok (apply_mut s (MFsync n)) w.
Proof.
  destruct w as [w|]; cbn [wr_ok]; auto. intros (x & Hl & Hc).
  exists x. rewrite fsync_dir. split; auto.
  cbn. destruct (lookup n (dir s)) as [y|]; auto. cbn.
  destruct (N.eq_dec x y) as [->|Hne]; [rewrite set_inode_same|rewrite set_inode_other by auto]; auto.
Qed.

Lemma op_good p o C A :
  PInv0 (ps_fs p) C A -> wr_ok (ps_fs p) (ps_w p) ->
  (forall r c, crash_cache (run (firstn r (op_trace p o)) (ps_fs p)) c -> crash_ok (C_of C (commit_info p o)) A c) /\
  PInv0 (ps_fs (op_next p o)) (C_of C (commit_info p o)) (A_of A (commit_info p o)) /\
  wr_ok (ps_fs (op_next p o)) (ps_w (op_next p o)).
Proof.
  intros HI Hw. destruct p as [s meta w]. cbn [ps_fs ps_w ps_meta] in *.
  destruct o as [t i G sid|len|oracle| |oracle]; unfold op_trace, op_next, commit_info; cbn [pop_step ps_fs ps_w ps_meta fst snd].
  - (* BeginSnapshot *)
    destruct (safe_op_good s C A (begin_muts t i G) HI (tmp_only_safe A _ (begin_muts_tmp_only t i G) s)) as (H1 & H2).
    cbn [C_of A_of]. split; [exact H1|]. split; [exact H2|]. apply begin_writer.
  - (* Write *)
    destruct w as [w|]; cbn [fst snd ps_fs ps_w C_of A_of].
    + destruct (safe_op_good s C A (chunk_muts w len) HI (tmp_only_safe A _ (write_muts_tmp_only _ _ _ _ _) s)) as (H1 & H2).
      split; [exact H1|]. split; [exact H2|].
      destruct Hw as (x & Hl & Hc). cbn [wr_ok w_t w_i w_sid w_nch].
      unfold chunk_muts, write_muts, nblocks.
      destruct (len =? 0)%N eqn:El.
      * exists x. auto.
      * destruct (N.to_nat ((w_pos w + len - 1) / BDL - w_pos w / BDL + 1)) as [|m] eqn:En; [lia|].
        rewrite repeat_map.
        change (map (MWrite (NTmp (w_t w) (w_i w))) (repeat [] m) ++ [MWrite (NTmp (w_t w) (w_i w)) (chunk_tok (w_sid w) (S (w_nch w)))])
          with (map (MWrite (NTmp (w_t w) (w_i w))) (repeat [] m) ++ map (MWrite (NTmp (w_t w) (w_i w))) [chunk_tok (w_sid w) (S (w_nch w))]).
        rewrite <- map_app.
        destruct (run_writes (NTmp (w_t w) (w_i w)) (repeat [] m ++ [chunk_tok (w_sid w) (S (w_nch w))]) s x Hl) as (Hd & Hcur).
        exists x. split; [rewrite Hd; exact Hl|].
        rewrite Hcur, Hc, concat_app, concat_repeat_nil. cbn [concat app]. rewrite app_nil_r.
        rewrite content_of_S. reflexivity.
    + split; [|split; auto]. intros r c Hc. rewrite firstn_nil in Hc. eapply pinv_crash; eauto.
  - (* Commit *)
    destruct w as [w|]; cbn [fst snd ps_fs ps_w C_of A_of].
    2:{ split; [|split; auto]. intros r c Hc. rewrite firstn_nil in Hc. eapply pinv_crash; eauto. }
    destruct Hw as (x & Hl & Hcont).
    unfold commit_muts.
    destruct (match meta with Some (_, mi) => (w_i w <? mi)%N | None => false end).
    { (* staler than the current snapshot: only the fsync of Close happens *)
      cbn [fst snd ps_fs ps_w C_of A_of Z.eqb].
      destruct (safe_op_good s C A [MFsync (NTmp (w_t w) (w_i w))] HI) as (H1 & H2).
      { constructor; constructor. }
      split; [exact H1|]. split; [exact H2|exact I]. }
    rewrite Hl. cbn [fst snd ps_fs ps_w Z.eqb C_of A_of].
    set (tmp := NTmp (w_t w) (w_i w)) in *. set (fin := NSnap (w_t w) (w_i w)) in *.
    set (content := content_of (w_t w) (w_i w) (w_sid w) (w_nch w)) in *.
    set (s1 := apply_mut s (MFsync tmp)).
    assert (HI1 : PInv0 s1 C A) by (eapply safe_preserves; [exact HI|constructor]).
    assert (Hl1 : lookup tmp (dir s1) = Some x) by (unfold s1; rewrite fsync_dir; exact Hl).
    assert (Hx1 : f_dirty (inodes s1 x) = false /\ f_cur (inodes s1 x) = content).
    { unfold s1. cbn [apply_mut]. rewrite Hl. cbn [inodes]. rewrite set_inode_same. cbn [f_dirty f_cur]. split; [reflexivity|exact Hcont]. }
    destruct Hx1 as (Hcl1 & Hcur1).
    set (sr := apply_mut s1 (MRename tmp fin)).
    set (s2 := apply_mut sr MDirSync).
    assert (HI2 : PInv0 s2 ((w_t w, w_i w, content) :: C) ((w_t w, w_i w) :: A)).
    { unfold s2, sr. rewrite <- Hcur1. apply commit_dirsync_inv; auto. }
    change (run ([MFsync tmp] ++ [MRename tmp fin; MDirSync]) s) with s2.
    pose proof (cleanup_safe s2 _ _ oracle HI2) as Hsafe.
    destruct (safe_op_good s2 _ _ _ HI2 Hsafe) as (H1 & H2).
    split; [|split; [|exact I]].
    + intros r c Hc.
      change (([MFsync tmp] ++ [MRename tmp fin; MDirSync]) ++ cleanup_muts (dir s2) oracle)
        with ([MFsync tmp; MRename tmp fin; MDirSync] ++ cleanup_muts (dir s2) oracle) in Hc.
      destruct r as [|[|[|r]]].
      * cbn in Hc. eapply crash_ok_mono; [eapply pinv_crash; [exact HI|exact Hc]|apply incl_tl; apply incl_refl|apply incl_refl].
      * cbn in Hc. eapply crash_ok_mono; [eapply pinv_crash; [exact HI1|exact Hc]|apply incl_tl; apply incl_refl|apply incl_refl].
      * cbn [firstn app run fold_left] in Hc. rewrite <- Hcur1.
        apply (rename_crash s1 C A (w_t w) (w_i w) x c HI1 Hl1 Hcl1). exact Hc.
      * change (firstn (S (S (S r))) ([MFsync tmp; MRename tmp fin; MDirSync] ++ cleanup_muts (dir s2) oracle))
          with ([MFsync tmp; MRename tmp fin; MDirSync] ++ firstn r (cleanup_muts (dir s2) oracle)) in Hc.
        rewrite run_app in Hc. change (run [MFsync tmp; MRename tmp fin; MDirSync] s) with s2 in Hc.
        eapply crash_ok_mono; [apply (H1 r c Hc)|apply incl_refl|apply incl_tl; apply incl_refl].
    + rewrite run_app. exact H2.
  - (* Abort *)
    destruct w as [w|]; cbn [fst snd ps_fs ps_w C_of A_of].
    + destruct (safe_op_good s C A [MFsync (NTmp (w_t w) (w_i w))] HI) as (H1 & H2).
      { constructor; constructor. }
      split; [exact H1|]. split; [exact H2|exact I].
    + split; [|split; auto]. intros r c Hc. rewrite firstn_nil in Hc. eapply pinv_crash; eauto.
  - (* NewFSSnapshotMgr on the live directory *)
    destruct (open_mgr (dir s) (fun i : N => f_cur (inodes s i))) as [| |t i sid nch]; cbn [fst snd ps_fs ps_w C_of A_of].
    + split; [|split; [exact HI|exact I]]. intros r c Hc. rewrite firstn_nil in Hc. eapply pinv_crash; eauto.
    + destruct (safe_op_good s C A _ HI (new_mgr_safe s C A oracle HI)) as (H1 & H2). split; [exact H1|]. split; [exact H2|exact I].
    + destruct (safe_op_good s C A _ HI (new_mgr_safe s C A oracle HI)) as (H1 & H2). split; [exact H1|]. split; [exact H2|exact I].
Qed.

(* ------------------------------------------------------------------ whole executions, with the ghost record of
   what has been committed (C) and acknowledged (A) *)

Record gstate := mkG { g_p : pstate; g_C : commits; g_A : list (N * N) }.

Definition gstep (g : gstate) (o : pop) : gstate :=
  mkG (op_next (g_p g) o) (C_of (g_C g) (commit_info (g_p g) o)) (A_of (g_A g) (commit_info (g_p g) o)).

Definition grun (g : gstate) (ops : list pop) : gstate := fold_left gstep ops g.

Definition g0 : gstate := mkG (mkPS fs_empty None None) [] [].

Definition GInv (g : gstate) : Prop :=
  PInv0 (ps_fs (g_p g)) (g_C g) (g_A g) /\ wr_ok (ps_fs (g_p g)) (ps_w (g_p g)) /\ C_wf (g_C g).

Lemma C_wf_of C p o : C_wf C -> C_wf (C_of C (commit_info p o)).
Proof.
  intros H. unfold commit_info. destruct o as [t i G sid|len|oracle| |oracle]; try exact H.
  destruct (ps_w p) as [w|]; try exact H.
  destruct (fst (commit_muts (ps_fs p) (ps_meta p) w oracle) =? 0)%Z; try exact H.
  intros t i content [E|Hin].
  - inversion E; subst. exists (w_sid w), (w_nch w). reflexivity.
  - apply H. exact Hin.
Qed.

Lemma ginv_step g o : GInv g -> GInv (gstep g o).
Proof.
  intros (HI & Hw & Hwf). destruct (op_good (g_p g) o _ _ HI Hw) as (_ & H2 & H3).
  split; [exact H2|]. split; [exact H3|]. apply C_wf_of. exact Hwf.
Qed.

Lemma ginv_run ops : forall g, GInv g -> GInv (grun g ops).
Proof. induction ops as [|o ops IH]; intros g H; cbn; auto. apply IH. apply ginv_step. exact H. Qed.

Lemma ginv0 : GInv g0.
Proof. split; [apply pinv0_empty|]. split; [exact I|]. intros t i c []. Qed.

Lemma op_next_fs p o : ps_fs (op_next p o) = run (op_trace p o) (ps_fs p).
Proof.
  unfold op_next, op_trace. destruct p as [s meta w]. destruct o as [t i G sid|len|oracle| |oracle]; cbn [pop_step ps_fs ps_w ps_meta].
  - reflexivity.
  - destruct w; reflexivity.
  - destruct w as [w|]; [|reflexivity]. destruct (commit_muts s meta w oracle) as [err tr]. reflexivity.
  - destruct w; reflexivity.
  - destruct (open_mgr (dir s) (fun i : N => f_cur (inodes s i))); reflexivity.
Qed.

(* all operation sequences, the operation in flight, every crash point inside it, every power-loss state *)
Theorem snapshot_crash_lemma :
  forall ops1 o r c,
    let g := grun g0 ops1 in
    crash_cache (run (firstn r (op_trace (g_p g) o)) (ps_fs (g_p g))) c ->
    C_wf (g_C (gstep g o)) /\
    crash_ok (g_C (gstep g o)) (g_A g) c /\
    (length (op_trace (g_p g) o) <= r -> crash_ok (g_C (gstep g o)) (g_A (gstep g o)) c).
Proof.
  intros ops1 o r c g Hc.
  destruct (ginv_run ops1 g0 ginv0) as (HI & Hw & Hwf). fold g in HI, Hw, Hwf.
  destruct (op_good (g_p g) o _ _ HI Hw) as (H1 & H2 & _).
  split; [apply C_wf_of; exact Hwf|]. split; [apply (H1 r c Hc)|].
  intros Hr. rewrite firstn_all2 in Hc by exact Hr.
  eapply pinv_crash; [exact H2|]. rewrite op_next_fs. exact Hc.
Qed.
