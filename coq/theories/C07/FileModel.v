(* C07/FileModel.v — definitions only: models of
     pkg/raft/raftfs/fs_state.go        (fsState: NewFSState, stateFromFile, stateToFile, the setters)
     pkg/raft/raftfs/fs_snapshot_mgr.go (fsSnapshotMgr: NewFSSnapshotMgr, BeginSnapshot, Write, Commit, Abort,
                                         cleanupSnapshots, getSnapshots)
   over the crash file system of FileFS.v, with pkg/disk.ChecksumFile reduced to the file-system mutations it
   performs (openOsFile = open + directory fsync when O_CREATE; one write per checksum block touched; Close =
   fsync + close; Rename = rename + directory fsync).  File contents are abstract token lists: the JSON / gob
   codecs are opaque (a complete encoding decodes to what was encoded, anything else does not decode).
   [run_case] replays one harness case: every operation yields the mutation trace the real code must produce at
   the verifhook sites, and every crash probe (point k of the last operation, subset of pending directory
   operations, fate of dirty files) yields what the real NewFSState / NewFSSnapshotMgr must answer. *)
From Coq Require Import List ZArith NArith Bool Lia.
From BLB Require Import Gen.Consts C07.FileFS.
Import ListNotations.
Local Open Scope Z_scope.

(* ================================================================== fsState *)

Record rstate := mkRS { rs_vote : Z; rs_term : Z; rs_guid : Z; rs_seen : list (Z * Z) }.

Definition enc_pairs (l : list (Z * Z)) : list Z := flat_map (fun p => [fst p; snd p]) l.

Definition enc_state (st : rstate) : list Z :=
  [1; rs_vote st; rs_term st; rs_guid st; Z.of_nat (length (rs_seen st))] ++ enc_pairs (rs_seen st).

Fixpoint dec_pairs (n : nat) (l : list Z) : option (list (Z * Z)) :=
  match n, l with
  | O, [] => Some []
  | S n', a :: b :: r => match dec_pairs n' r with Some ps => Some ((a, b) :: ps) | None => None end
  | _, _ => None
  end.

Definition dec_state (l : list Z) : option rstate :=
  match l with
  | 1 :: v :: t :: g :: n :: r =>
      if n <? 0 then None
      else match dec_pairs (Z.to_nat n) r with Some ps => Some (mkRS v t g ps) | None => None end
  | _ => None
  end.

(* SeenGUIDs is a Go map; the model keeps it sorted by key (encoding/json sorts map keys) *)
Fixpoint seen_set (id g : Z) (l : list (Z * Z)) : list (Z * Z) :=
  match l with
  | [] => [(id, g)]
  | (k, v) :: r =>
      if id =? k then (id, g) :: r
      else if id <? k then (id, g) :: (k, v) :: r
      else (k, v) :: seen_set id g r
  end.

Definition seen_filter (ids : list Z) (l : list (Z * Z)) : list (Z * Z) :=
  filter (fun p => existsb (Z.eqb (fst p)) ids) l.

Inductive sop :=
| SSave (v t : Z) | SSetTerm (t : Z) | SSetVote (v : Z) | SSetGuid (id g : Z) | SFilter (ids : list Z).

Definition sop_apply (o : sop) (st : rstate) : rstate :=
  match o with
  | SSave v t => mkRS v t (rs_guid st) (rs_seen st)
  | SSetTerm t => mkRS (rs_vote st) t (rs_guid st) (rs_seen st)
  | SSetVote v => mkRS v (rs_term st) (rs_guid st) (rs_seen st)
  | SSetGuid id g => mkRS (rs_vote st) (rs_term st) (rs_guid st) (seen_set id g (rs_seen st))
  | SFilter ids => mkRS (rs_vote st) (rs_term st) (rs_guid st) (seen_filter ids (rs_seen st))
  end.

Definition BDL : N := c07b_blockDataLength.

(* number of checksum blocks touched (= tryWrite calls) when len bytes are appended at user offset pos *)
Definition nblocks (pos len : N) : nat :=
  if (len =? 0)%N then O else N.to_nat ((pos + len - 1) / BDL - pos / BDL + 1).

(* an append of len bytes carrying tokens tok: one MWrite per block, the tokens arrive with the last block *)
Definition write_muts (n : name) (pos len : N) (tok : list Z) : list mut :=
  match nblocks pos len with
  | O => []
  | S m => repeat (MWrite n []) m ++ [MWrite n tok]
  end.

(* json.Encoder always writes at least one byte, in one Write call *)
Definition state_writes (L : N) (tok : list Z) : list mut :=
  repeat (MWrite NStateTmp []) (pred (nblocks 0 L)) ++ [MWrite NStateTmp tok].

(* fsState.stateToFile *)
Definition state_to_file (st : rstate) (L : N) : list mut :=
  [MOpenCT NStateTmp; MDirSync] ++ state_writes L (enc_state st) ++ [MFsync NStateTmp; MRename NStateTmp NState; MDirSync].

Inductive open_res := OpenFresh | OpenOk (st : rstate) | OpenErr.

(* fsState.stateFromFile as used by NewFSState, on what a crash left behind *)
Definition open_state (c : cfs) : open_res :=
  match lookup NState (c_dir c) with
  | None => OpenFresh
  | Some i => match dec_state (c_data c i) with Some st => OpenOk st | None => OpenErr end
  end.

Definition fresh_state (g : Z) : rstate := mkRS 0 0 g [].

(* NewFSState on a live directory: the state it ends up with (None = error) and the mutations it performs.
   stateFromFile closes its read-only ChecksumFile, and ChecksumFile.Close always fsyncs first. *)
Definition new_fs_state (s : fs) (g : Z) (L : N) : option rstate * list mut :=
  match open_state (exact s) with
  | OpenFresh => (Some (fresh_state g), state_to_file (fresh_state g) L)
  | OpenOk st =>
      if rs_guid st =? 0
      then let st' := mkRS (rs_vote st) (rs_term st) g (rs_seen st) in (Some st', MFsync NState :: state_to_file st' L)
      else (Some st, [MFsync NState])
  | OpenErr => (None, [MFsync NState])
  end.

(* ================================================================== fsSnapshotMgr *)

Definition R : nat := N.to_nat c07b_snapRetention.

Definition is_tmp (n : name) : bool := match n with NTmp _ _ => true | _ => false end.
Definition is_fin (n : name) : bool := match n with NSnap _ _ => true | _ => false end.
Definition key (n : name) : N * N :=
  match n with NSnap t i => (t, i) | NTmp t i => (t, i) | _ => (0%N, 0%N) end.

(* order of the zero-padded names "snapshot-%020d-%020d" = lexicographic order on (term, index) *)
Definition key_leb (a b : N * N) : bool :=
  ((fst a <? fst b) || ((fst a =? fst b) && (snd a <=? snd b)))%N.

Fixpoint insert_sorted (x : name) (l : list name) : list name :=
  match l with
  | [] => [x]
  | y :: r => if key_leb (key x) (key y) then x :: l else y :: insert_sorted x r
  end.

Definition sort_names (l : list name) : list name := fold_right insert_sorted [] l.

Definition finals (d : dirT) : list name := sort_names (filter is_fin (map fst d)).
Definition temps (d : dirT) : list name := filter is_tmp (map fst d).

Definition mem_name (n : name) (l : list name) : bool := existsb (name_eqb n) l.

(* Readdirnames order is not specified: the order in which temporary files are unlinked is an oracle input;
   whatever the oracle says, every temporary file present is unlinked exactly once *)
Definition temp_order (d : dirT) (oracle : list name) : list name :=
  let ts := temps d in
  filter (fun n => mem_name n ts) (nodup name_eq_dec oracle) ++ filter (fun n => negb (mem_name n oracle)) ts.

(* fsSnapshotMgr.cleanupSnapshots *)
Definition cleanup_muts (d : dirT) (oracle : list name) : list mut :=
  map MUnlink (temp_order d oracle) ++ map MUnlink (firstn (length (finals d) - R) (finals d)).

Definition dec_hdr (l : list Z) : option (N * N * list Z) :=
  match l with
  | 7 :: t :: i :: r => Some (Z.to_N t, Z.to_N i, r)
  | _ => None
  end.

Fixpoint last_chunk (l : list Z) (acc : Z * Z) : Z * Z :=
  match l with
  | 8 :: sid :: c :: r => last_chunk r (sid, c)
  | _ => acc
  end.

Inductive mopen := MFatal | MNone | MSome (t i : N) (sid nch : Z).

(* NewFSSnapshotMgr up to (not including) cleanup: newest valid name, open it, decode its metadata (Fatalf otherwise) *)
Definition open_mgr (d : dirT) (data : N -> list Z) : mopen :=
  match rev (finals d) with
  | [] => MNone
  | n :: _ =>
      match lookup n d with
      | None => MFatal
      | Some ino =>
          match dec_hdr (data ino) with
          | Some (t, i, r) => let '(sid, c) := last_chunk r (0, 0) in MSome t i sid c
          | None => MFatal
          end
      end
  end.

(* NewFSSnapshotMgr on a live directory: the reader of the newest snapshot is closed (ChecksumFile.Close fsyncs),
   then cleanupSnapshots runs *)
Definition new_mgr_muts (d : dirT) (oracle : list name) : list mut :=
  match rev (finals d) with
  | [] => cleanup_muts d oracle
  | n :: _ => MFsync n :: cleanup_muts d oracle
  end.

Record writer := mkW { w_t : N; w_i : N; w_pos : N; w_sid : Z; w_nch : nat }.

(* encodeSnapshotMetadata: a 4-byte length, then the (never empty) gob bytes of the metadata *)
Definition begin_muts (t i G : N) : list mut :=
  [MOpenCT (NTmp t i); MDirSync; MWrite (NTmp t i) [7]] ++
  repeat (MWrite (NTmp t i) []) (pred (nblocks 4 G)) ++ [MWrite (NTmp t i) [Z.of_N t; Z.of_N i]].

Definition chunk_tok (sid : Z) (c : nat) : list Z := [8; sid; Z.of_nat c].

Definition chunk_muts (w : writer) (len : N) : list mut :=
  write_muts (NTmp (w_t w) (w_i w)) (w_pos w) len (chunk_tok (w_sid w) (S (w_nch w))).

(* what a writer has put into its temporary file so far *)
Definition content_of (t i : N) (sid : Z) (nch : nat) : list Z :=
  [7; Z.of_N t; Z.of_N i] ++ flat_map (chunk_tok sid) (seq 1 nch).

(* snapshotFileWriter.Commit: 0 = ok, 1 = rename failed (temporary file gone), 2 = Fatalf (staler than current) *)
Definition commit_muts (s : fs) (meta : option (N * N)) (w : writer) (oracle : list name) : Z * list mut :=
  let tmp := NTmp (w_t w) (w_i w) in
  let m1 := [MFsync tmp] in
  let stale := match meta with Some (_, mi) => (w_i w <? mi)%N | None => false end in
  if stale then (2, m1)
  else match lookup tmp (dir s) with
       | None => (1, m1)
       | Some _ =>
           let m2 := m1 ++ [MRename tmp (NSnap (w_t w) (w_i w)); MDirSync] in
           (0, m2 ++ cleanup_muts (dir (run m2 s)) oracle)
       end.

(* the snapshot manager's operations, with their oracle inputs *)
Inductive pop :=
| PBegin (t i G : N) (sid : Z)
| PWrite (len : N)
| PCommit (oracle : list name)
| PAbort
| PReopen (oracle : list name).

Record pstate := mkPS { ps_fs : fs; ps_meta : option (N * N); ps_w : option writer }.

Definition enc_mopen (r : mopen) : list Z :=
  match r with
  | MFatal => [0; 0; 0; 0; 0; 0]
  | MNone => [1; 0; 0; 0; 0; 0]
  | MSome t i sid c => [1; 1; Z.of_N t; Z.of_N i; sid; c]
  end.

(* one operation: new state, the mutations performed (in order), the head of the observation line *)
Definition pop_step (p : pstate) (o : pop) : pstate * list mut * list Z :=
  let s := ps_fs p in
  match o with
  | PBegin t i G sid =>
      let tr := begin_muts t i G in
      (mkPS (run tr s) (ps_meta p) (Some (mkW t i (4 + G) sid 0)), tr, [0])
  | PWrite len =>
      match ps_w p with
      | Some w =>
          let tr := chunk_muts w len in
          let w' := mkW (w_t w) (w_i w) (w_pos w + len) (w_sid w) (if (len =? 0)%N then w_nch w else S (w_nch w)) in
          (mkPS (run tr s) (ps_meta p) (Some w'), tr, [0])
      | None => (p, [], [-1])
      end
  | PCommit oracle =>
      match ps_w p with
      | Some w =>
          let '(err, tr) := commit_muts s (ps_meta p) w oracle in
          (mkPS (run tr s) (if err =? 0 then Some (w_t w, w_i w) else ps_meta p) None, tr, [err])
      | None => (p, [], [-1])
      end
  | PAbort =>
      match ps_w p with
      | Some w => let tr := [MFsync (NTmp (w_t w) (w_i w))] in (mkPS (run tr s) (ps_meta p) None, tr, [0])
      | None => (p, [], [-1])
      end
  | PReopen oracle =>
      let r := open_mgr (dir s) (fun i => f_cur (inodes s i)) in
      match r with
      | MFatal => (mkPS s None None, [], enc_mopen r)
      | MNone => let tr := new_mgr_muts (dir s) oracle in (mkPS (run tr s) None None, tr, enc_mopen r)
      | MSome t i _ _ => let tr := new_mgr_muts (dir s) oracle in (mkPS (run tr s) (Some (t, i)) None, tr, enc_mopen r)
      end
  end.

(* ================================================================== wire *)

Definition enc_name (n : name) : list Z :=
  match n with
  | NState => [1; 0; 0]
  | NStateTmp => [2; 0; 0]
  | NSnap t i => [3; Z.of_N t; Z.of_N i]
  | NTmp t i => [4; Z.of_N t; Z.of_N i]
  end.

Definition enc_mut (m : mut) : list Z :=
  match m with
  | MOpenCT n => 1 :: enc_name n ++ [0; 0; 0]
  | MWrite n _ => 2 :: enc_name n ++ [0; 0; 0]
  | MFsync n => 3 :: enc_name n ++ [0; 0; 0]
  | MDirSync => [4; 0; 0; 0; 0; 0; 0]
  | MRename a b => 5 :: enc_name a ++ enc_name b
  | MUnlink a => 6 :: enc_name a ++ [0; 0; 0]
  end.

Definition enc_trace (hooked : bool) (tr : list mut) : list Z :=
  if hooked then Z.of_nat (length tr) :: flat_map enc_mut tr else [0].

Definition enc_rstate (st : rstate) : list Z :=
  [rs_vote st; rs_term st; rs_guid st; Z.of_nat (length (rs_seen st))] ++ enc_pairs (rs_seen st).

Fixpoint dec_names (k : Z) (n : nat) (l : list Z) : list name :=
  match n, l with
  | S n', t :: i :: r =>
      (if k =? 3 then NSnap (Z.to_N t) (Z.to_N i) else NTmp (Z.to_N t) (Z.to_N i)) :: dec_names k n' r
  | _, _ => []
  end.

Definition bits_of (z : Z) (n : nat) : list bool := map (fun j => Z.testbit z (Z.of_nat j)) (seq 0 n).

(* the crash state selected by a probe: point k of the last operation's trace, subset dmask of the pending
   directory operations, dirty files keep everything (fv = 0) / fall back to the last fsync (1) / hold junk (2) *)
Definition crash_point (pre : fs) (tr : list mut) (k : Z) : fs :=
  let kk := if k <? 0 then length tr else Z.to_nat k in run (firstn kk tr) pre.

Definition crash_of (s : fs) (dmask fv : Z) : cfs :=
  mkC (apply_dops (select (bits_of dmask (length (pend s))) (pend s)) (sdir s))
      (fun i => let f := inodes s i in
                if fv =? 3 then [-1]   (* media corruption probe: every file damaged *)
                else if f_dirty f then (if fv =? 0 then f_cur f else if fv =? 1 then f_synced f else [-1])
                else f_cur f).

Definition crash_state (pre : fs) (tr : list mut) (k dmask fv : Z) : cfs :=
  crash_of (crash_point pre tr k) dmask fv.

Record mstate := mkMS {
  ms_kind : Z; ms_hooked : bool; ms_fs : fs;
  ms_cache : option rstate; ms_meta : option (N * N); ms_w : option writer;
  ms_pre : fs; ms_ltr : list mut }.

Definition ms0 : mstate := mkMS 0 false fs_empty None None None fs_empty [].

Definition enc_names_sorted (l : list name) : list Z := flat_map (fun n => [Z.of_N (fst (key n)); Z.of_N (snd (key n))]) l.

Definition probe_state (c : cfs) : list Z :=
  match open_state c with
  | OpenFresh => [1; 0; 0; 0; 0]
  | OpenOk st => 1 :: enc_rstate st
  | OpenErr => [0]
  end.

Definition probe_snap (c : cfs) : list Z :=
  let r := open_mgr (c_dir c) (c_data c) in
  match r with
  | MFatal => enc_mopen r
  | _ =>
      let s' := run (cleanup_muts (c_dir c) []) (recover c 1%N) in
      enc_mopen r ++ [Z.of_nat (length (temps (dir s'))); Z.of_nat (length (finals (dir s')))] ++ enc_names_sorted (finals (dir s'))
  end.

(* a mutating operation: run its mutations, remember them for the probes, report them *)
Definition do_muts (m : mstate) (tr : list mut) (cache : option rstate) (meta : option (N * N)) (w : option writer)
           (hd : list Z) : mstate * list Z :=
  (mkMS (ms_kind m) (ms_hooked m) (run tr (ms_fs m)) cache meta w (ms_fs m) tr, hd ++ enc_trace (ms_hooked m) tr).

Definition state_op (m : mstate) (o : sop) (L : Z) : mstate * list Z :=
  match ms_cache m with
  | None => (m, [-1])
  | Some st =>
      let st' := sop_apply o st in
      do_muts m (state_to_file st' (Z.to_N L)) (Some st') None None (0 :: enc_rstate st')
  end.

Definition snap_op (m : mstate) (o : pop) : mstate * list Z :=
  let '(p, tr, hd) := pop_step (mkPS (ms_fs m) (ms_meta m) (ms_w m)) o in
  match hd with
  | [-1] => (m, [-1])
  | _ => (mkMS (ms_kind m) (ms_hooked m) (ps_fs p) None (ps_meta p) (ps_w p) (ms_fs m) tr,
          hd ++ (match hd with [0; 0; 0; 0; 0; 0] => [] | _ => enc_trace (ms_hooked m) tr end))
  end.

Definition step (m : mstate) (op : list Z) : mstate * list Z :=
  match op with
  | [100; h] => (mkMS 1 (negb (h =? 0)) fs_empty None None None fs_empty [], [0])
  | [200; h] => (mkMS 2 (negb (h =? 0)) fs_empty None None None fs_empty [], [0])
  | [1; g; L] =>
      if negb (ms_kind m =? 1) then (m, [-1]) else
      let fresh := match open_state (exact (ms_fs m)) with OpenFresh => 1 | _ => 0 end in
      match new_fs_state (ms_fs m) g (Z.to_N L) with
      | (Some st, tr) => do_muts m tr (Some st) None None (1 :: enc_rstate st ++ [fresh])
      | (None, _) => (mkMS (ms_kind m) (ms_hooked m) (ms_fs m) None None None (ms_fs m) [], [0])
      end
  | [2; L; v; t] => if ms_kind m =? 1 then state_op m (SSave v t) L else (m, [-1])
  | [3; L; t] => if ms_kind m =? 1 then state_op m (SSetTerm t) L else (m, [-1])
  | [4; L; v] => if ms_kind m =? 1 then state_op m (SSetVote v) L else (m, [-1])
  | [5; L; id; g] => if ms_kind m =? 1 then state_op m (SSetGuid id g) L else (m, [-1])
  | 6 :: L :: n :: ids =>
      if (ms_kind m =? 1) && (Z.of_nat (length ids) =? n) then state_op m (SFilter ids) L else (m, [-1])
  | 10 :: n :: l =>
      if negb ((ms_kind m =? 2) && (Z.of_nat (length l) =? 2 * n)) then (m, [-1])
      else snap_op m (PReopen (dec_names 4 (Z.to_nat n) l))
  | [11; t; i; G; sid] =>
      if negb (ms_kind m =? 2) then (m, [-1])
      else snap_op m (PBegin (Z.to_N t) (Z.to_N i) (Z.to_N G) sid)
  | [12; len] => if negb (ms_kind m =? 2) then (m, [-1]) else snap_op m (PWrite (Z.to_N len))
  | 13 :: n :: l =>
      if negb ((ms_kind m =? 2) && (Z.of_nat (length l) =? 2 * n)) then (m, [-1])
      else snap_op m (PCommit (dec_names 4 (Z.to_nat n) l))
  | [14] => if negb (ms_kind m =? 2) then (m, [-1]) else snap_op m PAbort
  | [60; k; dmask; fv] =>
      (* the process dies at that point; the next operations run on what survived *)
      let s := crash_point (ms_pre m) (ms_ltr m) k in
      let s' := recover (crash_of s dmask fv) (nexti s) in
      (mkMS (ms_kind m) (ms_hooked m) s' None None None s' [], [0])
  | [50; k; dmask; fv] =>
      let c := crash_state (ms_pre m) (ms_ltr m) k dmask fv in
      if ms_kind m =? 1 then (m, probe_state c)
      else if ms_kind m =? 2 then (m, probe_snap c)
      else (m, [-1])
  | _ => (m, [-1])
  end.

Fixpoint run_ops (m : mstate) (ops : list (list Z)) : list (list Z) :=
  match ops with
  | [] => []
  | op :: r => let '(m', o) := step m op in o :: run_ops m' r
  end.

Definition run_case (ops : list (list Z)) : list (list Z) := run_ops ms0 ops.
