(* C07/A_FsmMember.v — part A: the membership a snapshot's metadata carries, over any number of lives.
   Model of the three places where raft/fsm_loop.go touches lastAppliedMembership:
     handleCommits          an applied configuration entry replaces it, every applied entry moves lastApplied;
     restoreFromSnapshot    it becomes the membership of the snapshot's metadata (applyMembership(meta.Membership));
     handleCommits/snapshot the metadata of a new snapshot = (lastAppliedIndex, lastAppliedTerm, lastAppliedMembership).
   A life = restore from the current snapshot (if any), apply the next k committed entries, take a snapshot.
   Theorem: after ANY sequence of lives over a committed sequence L (indices consecutive from 1), the snapshot metadata
   carries exactly the membership of the last configuration entry at or below its index - so newCore (init_latest_conf,
   which reads the snapshot's membership when the log behind it is gone) knows the group after every restart.
   With restoreFromSnapshot not recording the membership (seeded change C07-8) the statement is false: ex_bad. *)
From Coq Require Import List NArith ZArith Bool Lia.
From BLB Require Import Raft.Core Raft.LogMatchLists.
Import ListNotations.
Open Scope N_scope.

Record fsml := mkF { fl_applied : N; fl_term : N; fl_conf : option membership }.

Definition fl_init : fsml := mkF 0 0 None.

Definition fl_apply (f : fsml) (e : entry) : fsml :=
  mkF (e_index e) (e_term e) (if e_type e =? EntryConf then decode_conf e else fl_conf f).

Definition fl_restore (m : snapmeta) : fsml := mkF (sn_index m) (sn_term m) (sn_conf m).

Definition fl_snapshot (f : fsml) : snapmeta :=
  {| sn_index := fl_applied f; sn_term := fl_term f; sn_conf := fl_conf f |}.

(* one life: restore, apply the next k committed entries, snapshot *)
Definition life (L : list entry) (m : option snapmeta) (k : nat) : snapmeta :=
  let f0 := match m with Some m0 => fl_restore m0 | None => fl_init end in
  fl_snapshot (fold_left fl_apply (firstn k (skipn (N.to_nat (fl_applied f0)) L)) f0).

Inductive lives (L : list entry) : option snapmeta -> Prop :=
| lives_none : lives L None
| lives_next m k : lives L m -> lives L (Some (life L m k)).

(* the membership as of position n of the committed sequence *)
Definition conf_step (acc : option membership) (e : entry) : option membership :=
  if e_type e =? EntryConf then decode_conf e else acc.
Definition conf_upto (L : list entry) (n : nat) : option membership := fold_left conf_step (firstn n L) None.

Lemma fold_apply_spec es : forall f b,
  wf_from b es -> b = fl_applied f + 1 ->
  fl_applied (fold_left fl_apply es f) = fl_applied f + N.of_nat (length es) /\
  fl_conf (fold_left fl_apply es f) = fold_left conf_step es (fl_conf f).
Proof.
  induction es as [| e r IH]; intros f b W Hb; simpl.
  - split; [lia | reflexivity].
  - destruct W as [We Wr].
    destruct (IH (fl_apply f e) (b + 1) Wr) as [A B]; [simpl; lia|].
    rewrite A, B. simpl. split; [lia | reflexivity].
Qed.

Lemma firstn_add {A} (a k : nat) (l : list A) : firstn (a + k) l = firstn a l ++ firstn k (skipn a l).
Proof.
  revert l. induction a as [| a IH]; intros l; simpl; [reflexivity|]. destruct l as [| x r]; simpl.
  - rewrite firstn_nil. reflexivity.
  - rewrite IH. reflexivity.
Qed.

Lemma firstn_len_firstn {A} (k : nat) (l : list A) : firstn (length (firstn k l)) l = firstn k l.
Proof.
  revert l. induction k as [| k IH]; intros l; simpl; [reflexivity|]. destruct l as [| x r]; simpl; [reflexivity|].
  rewrite IH. reflexivity.
Qed.

Theorem snapshot_membership_lemma :
  forall L, wf_from 1 L -> forall m, lives L m ->
    match m with
    | None => True
    | Some m1 => (N.to_nat (sn_index m1) <= length L)%nat /\ sn_conf m1 = conf_upto L (N.to_nat (sn_index m1))
    end.
Proof.
  intros L W m H. induction H as [| m k H IH]; [exact I|].
  set (f0 := match m with Some m0 => fl_restore m0 | None => fl_init end).
  assert (H0 : (N.to_nat (fl_applied f0) <= length L)%nat /\ fl_conf f0 = conf_upto L (N.to_nat (fl_applied f0))).
  { unfold f0. destruct m as [m0 |]; simpl; [exact IH|]. split; [lia | reflexivity]. }
  destruct H0 as [Ha Hc].
  set (a := N.to_nat (fl_applied f0)) in *.
  set (es := firstn k (skipn a L)).
  assert (We : wf_from (fl_applied f0 + 1) es).
  { unfold es. apply wf_from_firstn. replace (fl_applied f0 + 1) with (1 + N.of_nat a) by (unfold a; lia).
    apply wf_from_skipn. exact W. }
  destruct (fold_apply_spec es f0 _ We eq_refl) as [A B].
  unfold life. fold f0. fold a. fold es. simpl sn_index. simpl sn_conf. rewrite A, B, Hc.
  assert (Hl : (length es <= length L - a)%nat) by (unfold es; rewrite firstn_length, skipn_length; lia).
  split; [lia|].
  unfold conf_upto. rewrite <- fold_left_app. f_equal.
  replace (N.to_nat (fl_applied f0 + N.of_nat (length es))) with (a + length es)%nat by (unfold a; lia).
  rewrite firstn_add. f_equal. unfold es. symmetry. apply firstn_len_firstn.
Qed.

(* ---------------------------------------------------------------- non-vacuity, and the seeded variant *)
Definition ex_conf : membership := {| mb_members := [1; 2; 3]; mb_epoch := 5; mb_index := 1; mb_term := 1 |}.
Definition ex_L : list entry :=
  [ {| e_term := 1; e_index := 1; e_type := EntryConf; e_pl := encode_conf ex_conf |};
    {| e_term := 2; e_index := 2; e_type := EntryNormal; e_pl := [] |};
    {| e_term := 2; e_index := 3; e_type := EntryNormal; e_pl := [] |};
    {| e_term := 2; e_index := 4; e_type := EntryNormal; e_pl := [] |} ].

(* two lives: snapshot at 2, restart, snapshot at 4 - the membership is still there *)
Example ex_two_lives :
  let m1 := life ex_L None 2 in
  let m2 := life ex_L (Some m1) 2 in
  lives ex_L (Some m2) /\ sn_index m2 = 4 /\
  exists c, sn_conf m2 = Some c /\ mb_members c = [1; 2; 3].
Proof.
  split; [apply lives_next; apply lives_next; apply lives_none|].
  split; [vm_compute; reflexivity|]. eexists. split; vm_compute; reflexivity.
Qed.

(* restoreFromSnapshot that does not record the membership (seeded change C07-8): the second life's snapshot loses it *)
Definition fl_restore_bad (m : snapmeta) : fsml := mkF (sn_index m) (sn_term m) None.
Definition life_bad (L : list entry) (m : option snapmeta) (k : nat) : snapmeta :=
  let f0 := match m with Some m0 => fl_restore_bad m0 | None => fl_init end in
  fl_snapshot (fold_left fl_apply (firstn k (skipn (N.to_nat (fl_applied f0)) L)) f0).

Example ex_bad :
  sn_conf (life_bad ex_L (Some (life_bad ex_L None 2)) 2) = None /\ conf_upto ex_L 4 <> None.
Proof. split; vm_compute; [reflexivity | discriminate]. Qed.

(* what newCore reads when the log behind the snapshot is gone: the snapshot's membership *)
Lemma init_latest_conf_from_snapshot p m : p_log p = [] -> p_snap p = Some m -> init_latest_conf p = sn_conf m.
Proof. intros Hl Hs. unfold init_latest_conf. rewrite Hl, Hs. reflexivity. Qed.
