(* C07/FileProofsRet.v — retention (what cleanupSnapshots leaves behind), membership of the model's concrete
   crash states in the crash relation, and the non-vacuity examples of C07 part B. *)
From Coq Require Import List ZArith NArith Bool Lia Sorted.
From BLB Require Import C07.FileFS C07.FileModel C07.FileProofsState C07.FileProofsSnapA C07.FileProofsSnapB
     C07.FileProofsSnapC.
Import ListNotations.

(* ------------------------------------------------------------------ retention *)

Lemma lookup_none_notin n d : lookup n d = None -> forall x, ~ In (n, x) d.
Proof. intros H x Hin. destruct (lookup_some_of_In _ _ _ Hin) as (y & Hy). congruence. Qed.

Lemma run_unlinks_dir us : forall s m x,
  In (m, x) (dir (run (map MUnlink us) s)) <-> In (m, x) (dir s) /\ ~ In m us.
Proof.
  induction us as [|u us IH]; intros s m x; cbn [map run fold_left].
  - cbn. tauto.
  - change (fold_left apply_mut (map MUnlink us) (apply_mut s (MUnlink u)))
      with (run (map MUnlink us) (apply_mut s (MUnlink u))).
    rewrite IH. cbn [apply_mut]. destruct (lookup u (dir s)) eqn:Hl; cbn [dir In].
    + rewrite In_remove'. split; [intros ((H1 & H2) & H3)|intros (H1 & H2)]; intuition congruence.
    + pose proof (lookup_none_notin _ _ Hl x). split; [intros (H1 & H2)|intros (H1 & H2)].
      * split; auto. intros [->|H3]; auto.
      * split; auto.
Qed.

Lemma temp_order_complete d oracle m : In m (temps d) -> In m (temp_order d oracle).
Proof.
  intros H. unfold temp_order. rewrite in_app_iff, !filter_In.
  destruct (mem_name m oracle) eqn:E.
  - left. split.
    + apply nodup_In. unfold mem_name in E. apply existsb_exists in E. destruct E as (z & Hz & Heq).
      apply name_eqb_eq in Heq. subst. exact Hz.
    + unfold mem_name. apply existsb_exists. exists m. split; [exact H|apply name_eqb_refl].
  - right. split; auto.
Qed.

(* after cleanupSnapshots: no temporary file is left, and a snapshot is left iff it is not one of the
   (number of snapshots - retention) oldest; whatever order the directory listing came in *)
Theorem snapshot_retention_lemma :
  forall s oracle,
    let d := dir s in
    let s' := run (cleanup_muts d oracle) s in
    (forall m x, is_tmp m = true -> ~ In (m, x) (dir s')) /\
    (forall m x, is_tmp m = false ->
       (In (m, x) (dir s') <-> In (m, x) d /\ ~ In m (firstn (length (finals d) - R) (finals d)))).
Proof.
  intros s oracle d s'. unfold s', cleanup_muts. rewrite <- map_app. split.
  - intros m x Ht Hin. apply run_unlinks_dir in Hin. destruct Hin as (Hin & Hni). apply Hni.
    apply in_app_iff. left. apply temp_order_complete. unfold temps. apply filter_In. split; auto.
    apply in_map_iff. exists (m, x). auto.
  - intros m x Ht. rewrite run_unlinks_dir. rewrite in_app_iff. split.
    + intros (H1 & H2). split; auto.
    + intros (H1 & H2). split; auto. intros [H3|H3]; auto.
      apply temp_order_tmp in H3. congruence.
Qed.

(* ------------------------------------------------------------------ the probes of run_case are crash states *)

Lemma crash_of_in_cache s dmask fv : (fv =? 3)%Z = false -> crash_cache s (crash_of s dmask fv).
Proof.
  intros Hfv. split.
  - exists (bits_of dmask (length (pend s))). reflexivity.
  - intros i Hcl. cbn. rewrite Hfv, Hcl. reflexivity.
Qed.

(* ------------------------------------------------------------------ non-vacuity: the state file *)

Definition ex_st0 : rstate := fresh_state 77.
Definition ex_st1 : rstate := mkRS 2 5 77 [].
(* first start, then SaveState(vote 2, term 5); stop after rename(raft_state.tmp, raft_state), before the
   directory fsync: both outcomes are possible and both are legal *)
Definition ex_state_fs : fs :=
  run (state_to_file ex_st0 60 ++ firstn 5 (state_to_file ex_st1 70)) fs_empty.

Example ex_state_old_survives :
  crash_cache ex_state_fs (crash_of ex_state_fs 0 2) /\ open_state (crash_of ex_state_fs 0 2) = OpenOk ex_st0.
Proof. split; [apply crash_of_in_cache; reflexivity|vm_compute; reflexivity]. Qed.

Example ex_state_new_survives :
  crash_cache ex_state_fs (crash_of ex_state_fs 1 2) /\ open_state (crash_of ex_state_fs 1 2) = OpenOk ex_st1.
Proof. split; [apply crash_of_in_cache; reflexivity|vm_compute; reflexivity]. Qed.

(* a torn temporary file (junk content) while the write is in flight does not disturb the old state *)
Example ex_state_torn_tmp :
  let s := run (state_to_file ex_st0 60 ++ firstn 3 (state_to_file ex_st1 70)) fs_empty in
  lookup NStateTmp (c_dir (crash_of s 1 2)) <> None /\
  open_state (crash_of s 1 2) = OpenOk ex_st0.
Proof. split; vm_compute; [discriminate|reflexivity]. Qed.

(* the hypotheses of state_file_atomic are satisfiable: the empty directory is a legal start *)
Example ex_state_hyp : stable fs_empty None.
Proof. exact fs_empty_stable. Qed.

(* ------------------------------------------------------------------ non-vacuity: snapshots *)

Definition ex_ops : list pop :=
  [PReopen []; PBegin 1 5 40 1; PWrite 100; PCommit []; PBegin 1 9 40 2; PWrite 70000; PWrite 10].

Definition ex_g : gstate := grun g0 ex_ops.

(* Commit of the second snapshot stopped after the rename, before the directory fsync *)
Definition ex_snap_fs : fs := run (firstn 2 (op_trace (g_p ex_g) (PCommit []))) (ps_fs (g_p ex_g)).

Example ex_snap_old_selected :
  crash_cache ex_snap_fs (crash_of ex_snap_fs 0 2) /\
  open_mgr (c_dir (crash_of ex_snap_fs 0 2)) (c_data (crash_of ex_snap_fs 0 2)) = MSome 1 5 1 1.
Proof. split; [apply crash_of_in_cache; reflexivity|vm_compute; reflexivity]. Qed.

Example ex_snap_new_selected :
  crash_cache ex_snap_fs (crash_of ex_snap_fs 1 2) /\
  open_mgr (c_dir (crash_of ex_snap_fs 1 2)) (c_data (crash_of ex_snap_fs 1 2)) = MSome 1 9 2 2.
Proof. split; [apply crash_of_in_cache; reflexivity|vm_compute; reflexivity]. Qed.

(* in the middle of the second snapshot's payload the torn temporary file is present, holds junk, and is ignored *)
Example ex_snap_torn_tmp_ignored :
  let g := grun g0 [PReopen []; PBegin 1 5 40 1; PWrite 100; PCommit []; PBegin 1 9 40 2] in
  let s := run (firstn 1 (op_trace (g_p g) (PWrite 70000))) (ps_fs (g_p g)) in
  lookup (NTmp 1 9) (c_dir (crash_of s 0 2)) <> None /\
  c_data (crash_of s 0 2) 2%N = [(-1)%Z] /\
  open_mgr (c_dir (crash_of s 0 2)) (c_data (crash_of s 0 2)) = MSome 1 5 1 1.
Proof. repeat split; vm_compute; try reflexivity; discriminate. Qed.

(* acknowledged commits are recorded by the ghost state of the theorem *)
Example ex_snap_acked : g_A ex_g = [(1%N, 5%N)].
Proof. vm_compute. reflexivity. Qed.

(* ------------------------------------------------------------------ the property-level form of the snapshot theorem *)

Theorem snapshot_visible_lemma :
  forall ops1 o r c,
    let g := grun g0 ops1 in
    let C := g_C (gstep g o) in
    crash_cache (run (firstn r (op_trace (g_p g) o)) (ps_fs (g_p g))) c ->
    (forall t i x, In (NSnap t i, x) (c_dir c) ->
       exists sid nch, In (t, i, content_of t i sid nch) C /\ c_data c x = content_of t i sid nch) /\
    (forall A, A = g_A g \/ (length (op_trace (g_p g) o) <= r /\ A = g_A (gstep g o)) ->
     match open_mgr (c_dir c) (c_data c) with
     | MFatal => False
     | MNone => (forall m x, is_fin m = true -> ~ In (m, x) (c_dir c)) /\ A = []
     | MSome t i sid nch =>
         (exists x sid0 nch0, lookup (NSnap t i) (c_dir c) = Some x /\ c_data c x = content_of t i sid0 nch0 /\
                              In (t, i, content_of t i sid0 nch0) C /\ (sid, nch) = visible_of sid0 nch0) /\
         (forall m x, is_fin m = true -> In (m, x) (c_dir c) -> key_leb (key m) (t, i) = true) /\
         (forall a, In a A -> key_leb a (t, i) = true)
     end).
Proof.
  intros ops1 o r c g C Hc.
  destruct (snapshot_crash_lemma ops1 o r c Hc) as (Hwf & Hok & Hend). fold g in Hwf, Hok, Hend. fold C in Hwf, Hok, Hend.
  split.
  - intros t i x Hin. destruct Hok as (Hvis & _). pose proof (Hvis t i x Hin) as HC.
    destruct (Hwf _ _ _ HC) as (sid & nch & E). exists sid, nch. rewrite <- E. auto.
  - intros A [->|(Hr & ->)].
    + exact (open_mgr_ok C (g_A g) c Hwf Hok).
    + exact (open_mgr_ok C _ c Hwf (Hend Hr)).
Qed.
