(* C07/FileProofsState2.v — the state file after any number of crashes: what survives a crash at any point of
   stateToFile is, once the process restarts on it, again a quiescent directory holding the old or the new state
   (with or without a left-over raft_state.tmp of arbitrary content). With state_file_atomic, which starts from
   any quiescent directory, this covers executions with arbitrarily many crashes. *)
From Coq Require Import List ZArith NArith Bool Lia.
From BLB Require Import C07.FileFS C07.FileModel C07.FileProofsState.
Import ListNotations.

Definition rec_ok (old : option rstate) (st : rstate) (c : cfs) : Prop :=
  exists nx, stable (recover c nx) old \/ stable (recover c nx) (Some st).

Lemma stable_recover s old c : stable s old -> crash_cache s c -> stable (recover c (nexti s)) old.
Proof.
  intros (Hp & Hs & Hb & Ho) ((bs & Hd) & Hc).
  rewrite Hp in Hd. rewrite select_nil_r in Hd. cbn in Hd. rewrite Hs in Hd.
  split; [reflexivity|]. split; [reflexivity|]. split.
  - intros n i Hl. cbn in Hl |- *. rewrite Hd in Hl. apply (Hb n). exact Hl.
  - destruct old as [st|]; unfold old_ok in *; cbn [recover dir inodes]; rewrite Hd.
    + destruct Ho as (i & Hl & (Hcl & Hcur) & Hne). exists i. split; auto. split; auto.
      split; cbn; auto. rewrite (Hc i Hcl). exact Hcur.
    + exact Ho.
Qed.

(* crash right after the temporary file was created (its link is still pending) *)
Lemma created_recover s old c :
  stable s old -> lookup NStateTmp (dir s) = None ->
  crash_cache (apply_mut s (MOpenCT NStateTmp)) c ->
  stable (recover c (N.succ (nexti s))) old.
Proof.
  intros (Hp & Hs & Hb & Ho) Hj ((bs & Hd) & Hc). cbn in Hd, Hc. rewrite Hj in Hd, Hc. cbn in Hd, Hc.
  rewrite Hp in Hd. cbn in Hd. set (j := nexti s) in *.
  assert (Hdir : c_dir c = dir s \/ c_dir c = bind NStateTmp j (dir s)).
  { destruct (select_single bs (DLink NStateTmp j)) as [Hx|Hx]; rewrite Hx in Hd; cbn in Hd; rewrite Hs in Hd; auto. }
  split; [reflexivity|]. split; [reflexivity|]. split.
  - intros n i Hl. cbn in Hl |- *. destruct Hdir as [E|E]; rewrite E in Hl.
    + apply Hb in Hl. lia.
    + destruct (name_eq_dec n NStateTmp) as [->|Hn].
      * rewrite lookup_bind_same in Hl. inversion Hl. subst. unfold j. lia.
      * rewrite lookup_bind_other in Hl by auto. apply Hb in Hl. lia.
  - destruct old as [st|]; unfold old_ok in *; cbn [recover dir inodes].
    + destruct Ho as (i & Hl & (Hcl & Hcur) & Hne).
      assert (i <> j) by (intro; subst i; apply (lookup_bound_fresh s NState Hb); exact Hl).
      exists i. split; [|split].
      * destruct Hdir as [E|E]; rewrite E; [exact Hl|]. rewrite lookup_bind_other by discriminate. exact Hl.
      * split; cbn; auto. specialize (Hc i). rewrite set_inode_other in Hc by auto. rewrite (Hc Hcl). exact Hcur.
      * destruct Hdir as [E|E]; rewrite E; [exact Hne|]. rewrite lookup_bind_same. congruence.
    + destruct Hdir as [E|E]; rewrite E; [exact Ho|]. rewrite lookup_bind_other by discriminate. exact Ho.
Qed.

(* crash right after rename(raft_state.tmp, raft_state) (the rename is still pending) *)
Lemma renamed_recover s old j st c :
  mid s old j -> clean_with s j (enc_state st) ->
  crash_cache (apply_mut s (MRename NStateTmp NState)) c ->
  stable (recover c (nexti s)) old \/ stable (recover c (nexti s)) (Some st).
Proof.
  intros Hm (Hjc & Hjcur) Hcrash.
  pose proof Hm as ((Hp & Hs & Hb & Ho) & Hj).
  destruct Hcrash as ((bs & Hd) & Hc). cbn in Hd, Hc. rewrite Hj in Hd, Hc. cbn in Hd, Hc.
  rewrite Hp in Hd. cbn in Hd.
  destruct (select_single bs (DRename NStateTmp NState j)) as [Hx|Hx]; rewrite Hx in Hd; cbn in Hd; rewrite Hs in Hd.
  - left. apply (stable_recover s old c); [apply Hm|]. split; [|exact Hc].
    exists []. rewrite select_nil. cbn. rewrite Hs. exact Hd.
  - right. split; [reflexivity|]. split; [reflexivity|]. split.
    + intros n i Hl. cbn in Hl |- *. rewrite Hd in Hl.
      destruct (name_eq_dec n NState) as [->|Hn].
      * rewrite lookup_bind_same in Hl. inversion Hl; subst. apply (Hb NStateTmp). exact Hj.
      * rewrite lookup_bind_other in Hl by auto.
        destruct (name_eq_dec n NStateTmp) as [->|Hn2].
        -- rewrite lookup_remove_same in Hl. discriminate.
        -- rewrite lookup_remove_other in Hl by auto. apply (Hb n). exact Hl.
    + unfold old_ok. cbn [recover dir inodes]. rewrite Hd. exists j. split; [apply lookup_bind_same|]. split.
      * split; cbn; auto. rewrite (Hc j Hjc). exact Hjcur.
      * rewrite lookup_bind_other by discriminate. rewrite lookup_remove_same. discriminate.
Qed.

Lemma state_to_file_recover s old st L r c :
  stable s old ->
  r <= length (state_to_file st L) ->
  crash_cache (run (firstn r (state_to_file st L)) s) c ->
  rec_ok old st c.
Proof.
  intros Hst Hr Hc.
  pose proof (open_phase s old Hst) as (_ & j & Hmid2 & Hcur2). cbn zeta in *.
  set (s1 := apply_mut s (MOpenCT NStateTmp)) in *.
  set (s2 := apply_mut s1 MDirSync) in *.
  set (W := state_writes L (enc_state st)) in *.
  set (s3 := run W s2).
  assert (Hmid3 : mid s3 old j) by (apply mid_writes; [apply state_writes_forall|exact Hmid2]).
  assert (Hcur3 : f_cur (inodes s3 j) = enc_state st).
  { unfold s3, W. rewrite (state_writes_content _ _ _ old j Hmid2). rewrite Hcur2. reflexivity. }
  destruct (fsync_phase s3 old j Hmid3) as (Hmid4 & Hclean4). rewrite Hcur3 in Hclean4.
  set (s4 := apply_mut s3 (MFsync NStateTmp)) in *.
  pose proof (rename_phase s4 old j st Hmid4 Hclean4) as (_ & Hst6 & _). cbn zeta in *.
  set (s5 := apply_mut s4 (MRename NStateTmp NState)) in *.
  set (s6 := apply_mut s5 MDirSync) in *.
  rewrite state_to_file_length in *. fold W in Hr |- *.
  unfold state_to_file in Hc. fold W in Hc.
  change ([MOpenCT NStateTmp; MDirSync] ++ W ++ [MFsync NStateTmp; MRename NStateTmp NState; MDirSync])
    with ([MOpenCT NStateTmp; MDirSync] ++ (W ++ [MFsync NStateTmp; MRename NStateTmp NState; MDirSync])) in Hc.
  destruct (firstn_app_cases [MOpenCT NStateTmp; MDirSync] (W ++ [MFsync NStateTmp; MRename NStateTmp NState; MDirSync]) r)
    as [(Hr1 & E1) | (r' & -> & Hr' & E1)].
  { rewrite !app_length. simpl (length [_; _]). simpl (length [_; _; _]). lia. }
  - rewrite E1 in Hc. cbn [length] in Hr1.
    destruct r as [|[|[|r]]]; try lia; cbn in Hc.
    + eexists. left. eapply stable_recover; eauto.
    + change (crash_cache s1 c) in Hc. destruct (lookup NStateTmp (dir s)) as [j0|] eqn:Hj0.
      * (* truncated in place: s1 is still a quiescent state *)
        assert (Hst1 : stable s1 old).
        { unfold s1. cbn [apply_mut]. rewrite Hj0. destruct (f_cur (inodes s j0)) eqn:Hcur; [exact Hst|].
          apply (mid_touch s old j0 _ (conj Hst Hj0)). }
        eexists. left. eapply stable_recover; [exact Hst1|exact Hc].
      * eexists. left. eapply created_recover; [exact Hst|exact Hj0|exact Hc].
    + eexists. left. eapply stable_recover; [apply Hmid2|exact Hc].
  - rewrite E1 in Hc. rewrite run_app in Hc.
    change (run [MOpenCT NStateTmp; MDirSync] s) with s2 in Hc.
    destruct (firstn_app_cases W [MFsync NStateTmp; MRename NStateTmp NState; MDirSync] r' Hr')
      as [(Hr2 & E2) | (r'' & -> & Hr'' & E2)].
    + rewrite E2 in Hc. eexists. left. eapply stable_recover; [|exact Hc].
      apply (mid_writes (firstn r' W) s2 old j); [apply Forall_firstn_; apply state_writes_forall|exact Hmid2].
    + rewrite E2 in Hc. rewrite run_app in Hc. fold s3 in Hc. cbn [length] in Hr''.
      destruct r'' as [|[|[|[|r'']]]]; try lia; cbn in Hc.
      * eexists. left. eapply stable_recover; [apply Hmid3|exact Hc].
      * eexists. left. eapply stable_recover; [apply Hmid4|exact Hc].
      * exists (nexti s4). eapply renamed_recover; eauto.
      * eexists. right. eapply stable_recover; [exact Hst6|exact Hc].
Qed.

(* all operation sequences, the operation in flight, every crash point, every power-loss state: the restarted
   process stands on a quiescent directory with the old or the new state, so the analysis applies again *)
Theorem state_recovery_closed_lemma :
  forall s0 old0 ops1 o L r c,
    stable s0 (Some old0) ->
    let st_old := sfold old0 ops1 in
    let st_new := sop_apply o st_old in
    r <= length (state_to_file st_new L) ->
    crash_cache (run (strace old0 ops1 ++ firstn r (state_to_file st_new L)) s0) c ->
    exists nx, stable (recover c nx) (Some st_old) \/ stable (recover c nx) (Some st_new).
Proof.
  intros s0 old0 ops1 o L r c Hst st_old st_new Hr Hc.
  rewrite run_app in Hc.
  pose proof (strace_stable ops1 s0 old0 Hst) as Hst1.
  exact (state_to_file_recover _ (Some st_old) st_new L r c Hst1 Hr Hc).
Qed.

Theorem state_recovery_first_start_lemma :
  forall s0 g L r c,
    stable s0 None ->
    r <= length (state_to_file (fresh_state g) L) ->
    crash_cache (run (firstn r (state_to_file (fresh_state g) L)) s0) c ->
    exists nx, stable (recover c nx) None \/ stable (recover c nx) (Some (fresh_state g)).
Proof. intros. eapply state_to_file_recover; eauto. Qed.
