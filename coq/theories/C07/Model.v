(* C07/Model.v — part A (core level) uses the shared Raft core model with its crash semantics (ops 9 and 10 of
   Raft/Wire.v); part B (file level: raftfs state file and snapshot manager over a crash file system) is
   C07/FileModel.v. One harness case belongs to exactly one part: part-B cases start with op 100 (state file) or
   200 (snapshot manager), part-A cases start with op 0. *)
From Coq Require Import List ZArith.
From BLB Require Raft.Core Raft.Wire C07.FileModel.
Import ListNotations.
Definition c07_run_case (ops : list (list Z)) : list (list Z) :=
  match ops with
  | (100%Z :: _) :: _ => C07.FileModel.run_case ops
  | (200%Z :: _) :: _ => C07.FileModel.run_case ops
  | _ => Raft.Wire.run_case ops
  end.
