(* C07/Model.v — part A (core level) uses the shared Raft core model with its crash semantics (ops 9 and 10 of Raft/Wire.v).
   Part B (file level: raftfs state file and snapshot manager over CrashFS) adds its own ops here. *)
From Coq Require Import List ZArith.
From BLB Require Import Raft.Core Raft.Wire.
Definition run_case (ops : list (list Z)) : list (list Z) := Raft.Wire.run_case ops.
