(* C07/FileFS.v — a small crash file system (self-contained; used only by the file-level half of C07).

   One directory.  A directory maps names to inode numbers; an inode holds the content the user of
   pkg/disk.ChecksumFile sees (a list of abstract tokens, see FileModel.v), the content at the last fsync, and a
   dirty flag (set by every write and by a truncation that removes data, cleared by fsync).  The directory has a
   current and a durable ("synced") version plus the list of directory operations issued since the last directory
   fsync.  Mutations have the granularity of the verifhook sites in pkg/disk and pkg/raft/raftfs.

   Two crash relations:
     crash_prefix  the property's own quantifier: every mutation before the crash point applied completely,
                   the write in flight applied up to any prefix;
     crash_cache   power loss: the surviving directory is the durable directory with ANY SUBSET (order kept) of the
                   pending directory operations applied, a clean inode keeps its content, a dirty inode holds
                   ARBITRARY content.
   crash_prefix_sub_cache proves the first is contained in the second.                                          *)
From Coq Require Import List ZArith NArith Bool Lia.
Import ListNotations.

Inductive name := NState | NStateTmp | NSnap (t i : N) | NTmp (t i : N).

Definition name_eq_dec : forall a b : name, {a = b} + {a <> b}.
Proof. decide equality; apply N.eq_dec. Defined.

Definition name_eqb (a b : name) : bool := if name_eq_dec a b then true else false.

Lemma name_eqb_refl a : name_eqb a a = true.
Proof. unfold name_eqb. destruct (name_eq_dec a a); congruence. Qed.

Lemma name_eqb_eq a b : name_eqb a b = true <-> a = b.
Proof. unfold name_eqb. destruct (name_eq_dec a b); split; congruence. Qed.

Lemma name_eqb_neq a b : name_eqb a b = false <-> a <> b.
Proof. unfold name_eqb. destruct (name_eq_dec a b); split; congruence. Qed.

(* ------------------------------------------------------------------ directories *)

Definition dirT := list (name * N).

Fixpoint lookup (n : name) (d : dirT) : option N :=
  match d with
  | [] => None
  | (m, i) :: r => if name_eqb n m then Some i else lookup n r
  end.

Definition remove (n : name) (d : dirT) : dirT := filter (fun p => negb (name_eqb n (fst p))) d.

Definition bind (n : name) (i : N) (d : dirT) : dirT := (n, i) :: remove n d.

Inductive dop := DLink (n : name) (i : N) | DRename (a b : name) (i : N) | DUnlink (a : name).

Definition apply_dop (d : dirT) (o : dop) : dirT :=
  match o with
  | DLink n i => bind n i d
  | DRename a b i => bind b i (remove a d)
  | DUnlink a => remove a d
  end.

Definition apply_dops (ops : list dop) (d : dirT) : dirT := fold_left apply_dop ops d.

(* select the elements whose mask bit is true (missing bits = false) *)
Fixpoint select {A} (bs : list bool) (l : list A) : list A :=
  match l, bs with
  | x :: r, true :: bs' => x :: select bs' r
  | _ :: r, false :: bs' => select bs' r
  | _, _ => []
  end.

(* ------------------------------------------------------------------ inodes and the file system *)

Record file := mkFile { f_cur : list Z; f_synced : list Z; f_dirty : bool }.

Definition empty_file := mkFile [] [] false.

Record fs := mkFS { inodes : N -> file; dir : dirT; sdir : dirT; pend : list dop; nexti : N }.

Definition fs_empty : fs := mkFS (fun _ => empty_file) [] [] [] 1%N.

Definition set_inode (f : N -> file) (i : N) (x : file) : N -> file := fun j => if N.eqb j i then x else f j.

Inductive mut :=
| MOpenCT (n : name)                 (* open O_CREATE|O_TRUNC: create and link a new inode, or truncate the existing one *)
| MWrite (n : name) (d : list Z)     (* one write of a checksum block to the file currently linked as n: appends tokens d *)
| MFsync (n : name)
| MDirSync
| MRename (a b : name)
| MUnlink (a : name).

Definition apply_mut (s : fs) (m : mut) : fs :=
  match m with
  | MOpenCT n =>
      match lookup n (dir s) with
      | Some i =>
          let f := inodes s i in
          match f_cur f with
          | [] => s
          | _ => mkFS (set_inode (inodes s) i (mkFile [] (f_synced f) true)) (dir s) (sdir s) (pend s) (nexti s)
          end
      | None =>
          let i := nexti s in
          mkFS (set_inode (inodes s) i empty_file) (bind n i (dir s)) (sdir s) (pend s ++ [DLink n i]) (N.succ i)
      end
  | MWrite n d =>
      match lookup n (dir s) with
      | Some i =>
          let f := inodes s i in
          mkFS (set_inode (inodes s) i (mkFile (f_cur f ++ d) (f_synced f) true)) (dir s) (sdir s) (pend s) (nexti s)
      | None => s
      end
  | MFsync n =>
      match lookup n (dir s) with
      | Some i =>
          let f := inodes s i in
          mkFS (set_inode (inodes s) i (mkFile (f_cur f) (f_cur f) false)) (dir s) (sdir s) (pend s) (nexti s)
      | None => s
      end
  | MDirSync => mkFS (inodes s) (dir s) (dir s) [] (nexti s)
  | MRename a b =>
      match lookup a (dir s) with
      | Some i => mkFS (inodes s) (bind b i (remove a (dir s))) (sdir s) (pend s ++ [DRename a b i]) (nexti s)
      | None => s
      end
  | MUnlink a =>
      match lookup a (dir s) with
      | Some _ => mkFS (inodes s) (remove a (dir s)) (sdir s) (pend s ++ [DUnlink a]) (nexti s)
      | None => s
      end
  end.

Definition run (tr : list mut) (s : fs) : fs := fold_left apply_mut tr s.

(* ------------------------------------------------------------------ crash states *)

Record cfs := mkC { c_dir : dirT; c_data : N -> list Z }.

Definition exact (s : fs) : cfs := mkC (dir s) (fun i => f_cur (inodes s i)).

Definition crash_cache (s : fs) (c : cfs) : Prop :=
  (exists bs, c_dir c = apply_dops (select bs (pend s)) (sdir s)) /\
  (forall i, f_dirty (inodes s i) = false -> c_data c i = f_cur (inodes s i)).

Inductive crash_prefix (tr : list mut) (s0 : fs) : cfs -> Prop :=
| CPexact k : k <= length tr -> crash_prefix tr s0 (exact (run (firstn k tr) s0))
| CPtorn k n d i j :
    nth_error tr k = Some (MWrite n d) ->
    lookup n (dir (run (firstn k tr) s0)) = Some i ->
    crash_prefix tr s0
      (mkC (dir (run (firstn k tr) s0))
           (fun x => if N.eqb x i then f_cur (inodes (run (firstn k tr) s0) i) ++ firstn j d
                     else f_cur (inodes (run (firstn k tr) s0) x))).

(* the state a restarted process works on: what survived is, by definition, durable *)
Definition recover (c : cfs) (next : N) : fs :=
  mkFS (fun i => mkFile (c_data c i) (c_data c i) false) (c_dir c) (c_dir c) [] next.

(* well-formedness: the current directory is the durable one plus the pending operations *)
Definition dir_consistent (s : fs) : Prop := dir s = apply_dops (pend s) (sdir s).

(* ------------------------------------------------------------------ basic lemmas *)

Lemma lookup_remove_same n d : lookup n (remove n d) = None.
Proof.
  induction d as [|[m i] r IH]; cbn; auto.
  destruct (name_eqb n m) eqn:E; cbn; auto. rewrite E. exact IH.
Qed.

Lemma lookup_remove_other n m d : n <> m -> lookup n (remove m d) = lookup n d.
Proof.
  intros H. unfold remove. induction d as [|[k i] r IH]; cbn; auto.
  destruct (name_eqb m k) eqn:E; cbn.
  - apply name_eqb_eq in E. subst k.
    apply name_eqb_neq in H. rewrite H. exact IH.
  - rewrite IH. reflexivity.
Qed.

Lemma lookup_bind_same n i d : lookup n (bind n i d) = Some i.
Proof. unfold bind; cbn. rewrite name_eqb_refl. reflexivity. Qed.

Lemma lookup_bind_other n m i d : n <> m -> lookup n (bind m i d) = lookup n d.
Proof.
  intros H. unfold bind; cbn. apply name_eqb_neq in H as H'. rewrite H'.
  apply lookup_remove_other; auto.
Qed.

Lemma lookup_In n i d : lookup n d = Some i -> In (n, i) d.
Proof.
  induction d as [|[m k] r IH]; cbn; [discriminate|].
  destruct (name_eqb n m) eqn:E.
  - apply name_eqb_eq in E. subst. intros H; inversion H; auto.
  - auto.
Qed.

Lemma In_remove n p d : In p (remove n d) <-> In p d /\ fst p <> n.
Proof.
  unfold remove. rewrite filter_In. split; intros [H1 H2]; split; auto.
  - apply negb_true_iff in H2. apply name_eqb_neq in H2. congruence.
  - apply negb_true_iff. apply name_eqb_neq. congruence.
Qed.

Lemma select_nil {A} (l : list A) : select [] l = [].
Proof. destruct l; reflexivity. Qed.

Lemma select_all {A} (l : list A) : select (repeat true (length l)) l = l.
Proof. induction l; cbn; congruence. Qed.

Lemma apply_dops_app a b d : apply_dops (a ++ b) d = apply_dops b (apply_dops a d).
Proof. unfold apply_dops. apply fold_left_app. Qed.

Lemma run_app a b s : run (a ++ b) s = run b (run a s).
Proof. unfold run. apply fold_left_app. Qed.

Lemma apply_mut_consistent s m : dir_consistent s -> dir_consistent (apply_mut s m).
Proof.
  unfold dir_consistent. intros H.
  destruct m; cbn.
  - destruct (lookup n (dir s)).
    + destruct (f_cur (inodes s n0)); cbn; auto.
    + cbn. rewrite apply_dops_app. cbn. rewrite <- H. reflexivity.
  - destruct (lookup n (dir s)); cbn; auto.
  - destruct (lookup n (dir s)); cbn; auto.
  - reflexivity.
  - destruct (lookup a (dir s)); cbn; auto.
    rewrite apply_dops_app. cbn. rewrite <- H. reflexivity.
  - destruct (lookup a (dir s)); cbn; auto.
    rewrite apply_dops_app. cbn. rewrite <- H. reflexivity.
Qed.

Lemma run_consistent tr s : dir_consistent s -> dir_consistent (run tr s).
Proof.
  revert s. induction tr as [|m tr IH]; cbn; auto.
  intros s H. apply IH. apply apply_mut_consistent. exact H.
Qed.

Lemma exact_in_cache s : dir_consistent s -> crash_cache s (exact s).
Proof.
  intros H. split.
  - exists (repeat true (length (pend s))). rewrite select_all. exact H.
  - intros i _. reflexivity.
Qed.

Lemma firstn_S_nth {A} (l : list A) k x :
  nth_error l k = Some x -> firstn (S k) l = firstn k l ++ [x].
Proof.
  revert k. induction l as [|a l IH]; intros [|k] H; try discriminate.
  - cbn in H. inversion H. reflexivity.
  - change (a :: firstn (S k) l = a :: (firstn k l ++ [x])). f_equal. apply IH. exact H.
Qed.

(* every state reachable under the property's crash quantifier is also a power-loss state of some prefix *)
Theorem crash_prefix_sub_cache_lemma :
  forall tr s0 c, dir_consistent s0 -> crash_prefix tr s0 c ->
    exists k, k <= length tr /\ crash_cache (run (firstn k tr) s0) c.
Proof.
  intros tr s0 c Hc Hp. destruct Hp as [k Hk | k n d i j Hn Hl].
  - exists k. split; auto. apply exact_in_cache. apply run_consistent. exact Hc.
  - assert (Hlt : k < length tr) by (apply nth_error_Some; congruence).
    exists (S k). split; [lia|].
    rewrite (firstn_S_nth _ _ _ Hn). rewrite run_app.
    set (s := run (firstn k tr) s0) in *.
    assert (Hs : dir_consistent s) by (apply run_consistent; exact Hc).
    cbn. rewrite Hl. split; cbn.
    + exists (repeat true (length (pend s))). rewrite select_all. exact Hs.
    + intros x. unfold set_inode. destruct (N.eqb x i) eqn:E; cbn; [discriminate|auto].
Qed.
