(* C07/A_Vote.v — part A: a node never grants its vote to a candidate that is behind the node's own snapshot,
   in every reachable state of the C02 run model with snapshots (alphabet sstepS: all deliveries incl.
   InstallSnapshot, ticks, proposals, SnapshotDone, restarts, a crash after any durable mutation + newCore).
   Uses C02's invariants: the shape of the store relative to its ghost prefix (the snapshot names a position of the
   logical log and carries that entry's term) and term monotonicity along the logical log. *)
From Coq Require Import List NArith ZArith Bool Lia.
From BLB Require Import Lib.LTS Raft.Core Raft.Wire Raft.Election Raft.LogMatchLists Raft.LogMatch Raft.LogMatchNodeS
     Raft.CompletenessAck Raft.CompletenessVote Raft.CompletenessCommit Raft.SnapSystem.
Import ListNotations.
Open Scope N_scope.

(* node level: on a store of the proved shape whose logical log has non-decreasing terms *)
Lemma vote_respects_snapshot_node C s m from li lt :
  shape C (n_p s) (n_commit s) -> tmono (C ++ p_log (n_p s)) ->
  p_snap (n_p s) = Some m ->
  can_grant_vote s from li lt = Ret true ->
  sn_term m < lt \/ (lt = sn_term m /\ sn_index m <= li).
Proof.
  intros Sh Tm Hs. unfold can_grant_vote.
  destruct (negb (p_vote (n_p s) =? 0) && negb (p_vote (n_p s) =? from)); [discriminate|].
  rewrite (last_index_S C (n_p s) (n_commit s) Sh).
  set (L := C ++ p_log (n_p s)) in *.
  destruct (st_term (n_p s) (N.of_nat (length L))) as [[t0 ok] | c | q] eqn:Et; simpl; try discriminate.
  destruct ok; simpl; [| discriminate].
  intro H. inversion H as [Hb]. clear H.
  pose proof Sh as [W Sx]. rewrite Hs in Sx. destruct Sx as [S1 [S2 [S3 [S4 S5]]]]. fold L in S2, S3, W.
  destruct (st_term_S C (n_p s) (n_commit s) Sh _ _ _ Et) as [[_ [_ [_ Ta]]] | [X _]]; [| discriminate].
  fold L in Ta.
  (* own last term t0 >= snapshot term *)
  assert (Hge : sn_term m <= t0).
  { destruct S3 as [Z | [e1 [N1 T1]]]; [lia|].
    destruct Ta as [Z | [e2 [N2 T2]]]; [lia|].
    rewrite <- T1, <- T2. apply (Tm (N.to_nat (sn_index m - 1)) (N.to_nat (N.of_nat (length L) - 1)) e1 e2); auto. lia. }
  apply orb_true_iff in Hb. destruct Hb as [Hb | Hb].
  - apply N.ltb_lt in Hb. left. lia.
  - apply andb_true_iff in Hb. destruct Hb as [B1 B2]. apply N.eqb_eq in B1. apply N.leb_le in B2. subst lt.
    destruct (N.eq_dec (sn_term m) t0) as [E | E]; [right; split; [auto | lia] | left; lia].
Qed.

Theorem vote_respects_snapshot_lemma :
  forall (bm : list nid) (be : N) (σ0 σ : sys) (sched : list sys_event),
    cinit σ0 -> length bm = length (sy_nodes σ0) ->
    run sys sys_event (sstepS bm be (length (sy_nodes σ0))) σ0 sched σ ->
    forall a m from li lt, In a (sy_nodes σ) -> p_snap (n_p a) = Some m ->
      can_grant_vote a from li lt = Ret true ->
      sn_term m < lt \/ (lt = sn_term m /\ sn_index m <= li).
Proof.
  intros bm be σ0 σ sched Hc Hbm Hr a m from li lt Ha Hs Hg.
  destruct (reach bm be σ0 sched σ Hc Hbm Hr) as [Cf [S [G [A [CL [GR HS]]]]]].
  pose proof (k_g _ _ _ _ _ (w_k _ _ _ _ _ _ _ (c_w _ _ _ _ _ _ _ (si_cm _ _ _ _ _ _ _ _ _ _ HS)))) as GI.
  pose proof (SI_ghost_ok _ _ _ _ _ _ _ _ _ _ HS a Ha) as Sh.
  assert (Hnd : NoDup (map n_id (sy_nodes σ))) by (apply (i_nodup _ _ (si_el _ _ _ _ _ _ _ _ _ _ HS))).
  pose proof (get_vsys Cf S σ _ _ (in_get_node _ _ Hnd Ha)) as Ga.
  destruct (g_tb_node _ _ _ _ GI _ _ Ga) as [_ Tm].
  eapply vote_respects_snapshot_node; eauto.
Qed.
