(* C07/A_NoFatalC.v — part A, towards "no Fatalf anywhere" over C02's combined alphabet cstep (import only).
   What the exported run invariant (MSI: EM + ginvM on the virtual system + soup relation) gives for the Fatal sites
   outside newCore and the follower rejoin path:
   (1) F_LEADER_GOT_APPEND (a leader handed an AppEnts / InstallSnap of its own term): in every reachable state, when
       a leader X of term T faces such a message of term T, X is the ONLY node ever recorded as leader of T, and the
       leader-log record that backs the message is X's own. So the message does not come from another leader.
       What is missing to make the site unreachable: the soup invariant "the sender of an AppEnts / InstallSnap is the
       owner of its record and never its addressee" - not a field of MSI / EM / ginvM.
   (2) F_RESP_HIGHER_TERM for a GRANTED VoteResp: its term is at most the addressee's durable term, so HandleMsg never
       takes the Fatal branch on it. For a refused VoteResp and for AppEntsResp the needed soup invariant ("a response
       carries a term the addressee has reached") is not exported either (e_mterm bounds a message by its SENDER's term). *)
From Coq Require Import List NArith ZArith Bool Lia.
From BLB Require Import Lib.LTS Raft.Core Raft.Wire Raft.Election Raft.LogMatchLists Raft.LogMatch Raft.LogMatchNodeSQ
     Raft.LogMatchM Raft.CompletenessAckM Raft.CompletenessVoteM Raft.MemberVotes Raft.MemberSafety Raft.MemberRun
     Raft.SnapVirtualQ Raft.MemberSnapNode Raft.MemberSnapSystemU.
Import ListNotations.
Open Scope N_scope.

Definition leader_traffic (m : msg) : Prop :=
  match m_body m with AppEnts _ _ _ _ => True | InstallSnap _ _ _ => True | _ => False end.

Theorem same_term_leader_message_lemma :
  forall bm be, NoDup bm ->
  forall a0 a sched, minitS a0 -> run asys sys_event (cstep bm be) a0 sched a ->
    forall X m, In X (sy_nodes (fst a)) -> n_role X = Leader -> In m (sy_soup (fst a)) -> leader_traffic m ->
      m_term m = p_term (n_p X) ->
      In (m_term m, n_id X) (sy_hist (fst a)) /\
      (forall j, In (m_term m, j) (sy_hist (fst a)) -> j = n_id X) /\
      (exists (G : list lrec) i l, In (m_term m, i, l) G /\ i = n_id X).
Proof.
  intros bm be Hnd a0 a sched Hi Hrun X m HX HL Hm Hk Ht.
  destruct (MSI_run bm be _ _ _ _ _ _ _ _ _ _ (MSI_init bm be Hnd a0 Hi) Hrun) as [Cf [S [G [A [CL [GR [GL [HI _]]]]]]]].
  pose proof (mi_em _ _ _ _ _ _ _ _ _ _ HI) as E.
  pose proof (in_get_node _ _ (e_nodup _ E) HX) as GX.
  pose proof (e_lh _ E _ _ GX HL) as Hh. rewrite <- Ht in Hh.
  pose proof (election_safety_combined_sys bm be Hnd a0 a sched Hi Hrun) as ES.
  split; [exact Hh|]. split; [intros j Hj; exact (ES _ _ _ Hj Hh)|].
  pose proof (mi_ms _ _ _ _ _ _ _ _ _ _ HI) as M.
  pose proof (k_g _ _ _ _ _ (w_k _ _ _ _ _ _ _ _ (ms_w _ _ _ _ _ _ _ _ M))) as GI. cbn [fst] in GI.
  destruct (mi_soup _ _ _ _ _ _ _ _ _ _ HI) as [SR _].
  pose proof (LogMatchM.g_msgs _ _ _ _ GI _ (SR m Hm)) as Mk.
  assert (Hrec : exists i l, In (m_term m, i, l) G).
  { unfold msg_ok3, leader_traffic in *. simpl in Mk. destruct (m_body m); simpl in Mk; try contradiction.
    - destruct Mk as [i [l [R _]]]. eauto.
    - destruct Mk as [i [l [R _]]]. eauto. }
  destruct Hrec as [i [l R]]. exists G, i, l. split; [exact R|].
  destruct (LogMatchM.g_rec_hist _ _ _ _ GI _ _ _ R) as [[Z [T1 _]] | [_ [Hih _]]].
  - (* the bootstrap record has term 1; a leader's term is at least 2 *)
    exfalso. pose proof (in_get_node _ _ (LogMatchM.g_nd _ _ _ _ GI) (vsys_in Cf S _ X HX)) as GV.
    destruct (LogMatchM.g_base _ _ _ _ GI _ _ GV) as [_ [_ [_ [B2 _]]]].
    assert (2 <= p_term (n_p (vnode Cf X))) by (apply B2; simpl; rewrite HL; discriminate).
    simpl in H. lia.
  - exact (ES _ _ _ Hih Hh).
Qed.

Theorem granted_vote_response_term_lemma :
  forall bm be, NoDup bm ->
  forall a0 a sched, minitS a0 -> run asys sys_event (cstep bm be) a0 sched a ->
    forall r X, In r (sy_soup (fst a)) -> m_body r = VoteResp true ->
      get_node (m_to r) (sy_nodes (fst a)) = Some X ->
      m_term r <= p_term (n_p X).
Proof.
  intros bm be Hnd a0 a sched Hi Hrun r X Hr Hb GX.
  destruct (MSI_run bm be _ _ _ _ _ _ _ _ _ _ (MSI_init bm be Hnd a0 Hi) Hrun) as [Cf [S [G [A [CL [GR [GL [HI _]]]]]]]].
  pose proof (mi_em _ _ _ _ _ _ _ _ _ _ HI) as E.
  destruct (e_resp _ E r Hr Hb) as [q [Hq [_ [Fq [_ Tq]]]]].
  rewrite <- Tq. apply (e_mterm _ E q X Hq). rewrite Fq. exact GX.
Qed.

(* hence HandleMsg does not take the "response above my term" Fatal branch on a granted VoteResp *)
Lemma handle_msg_resp_site s m :
  m_term m <= p_term (n_p s) -> forall s1, p_term (n_p s1) = p_term (n_p s) -> (p_term (n_p s1) <? m_term m) = false.
Proof. intros H s1 E. apply N.ltb_ge. lia. Qed.
