(* C07/FileProofsSnapD.v — snapshot-manager half of C07 part B, closure under repeated crashes:
   what NewFSSnapshotMgr finds after ANY crash state of ANY operation is again a directory satisfying the
   invariant (with the same ghost record of commits / acknowledgements), so the crash analysis applies again. *)
From Coq Require Import List ZArith NArith Bool Lia Sorted.
From BLB Require Import C07.FileFS C07.FileModel C07.FileProofsState C07.FileProofsSnapA C07.FileProofsSnapB
     C07.FileProofsSnapC.
Import ListNotations.

(* ------------------------------------------------------------------ list kit *)

Lemma nodup_app_iff {A} (a b : list A) :
  NoDup (a ++ b) <-> NoDup a /\ NoDup b /\ (forall x, In x a -> ~ In x b).
Proof.
  induction a as [|x a IH]; cbn.
  - split; [intros H; repeat split; auto; constructor|tauto].
  - split.
    + intros H. inversion H as [|? ? Hn Hd]; subst. apply IH in Hd. destruct Hd as (Ha & Hb & Hdis).
      rewrite in_app_iff in Hn. repeat split; auto.
      * constructor; tauto.
      * intros y [->|Hy]; [tauto|auto].
    + intros (Ha & Hb & Hdis). inversion Ha as [|? ? Hn Hd]; subst. constructor.
      * rewrite in_app_iff. intros [H|H]; [tauto|]. apply (Hdis x); auto.
      * apply IH. repeat split; auto.
Qed.

Definition links (ops : list dop) : list N :=
  flat_map (fun o => match o with DLink _ x => [x] | _ => [] end) ops.

Lemma links_app a b : links (a ++ b) = links a ++ links b.
Proof. unfold links. apply flat_map_app. Qed.

Lemma links_cons o ops : links (o :: ops) = links [o] ++ links ops.
Proof. rewrite <- links_app. reflexivity. Qed.

Lemma NoDup_fst_remove a (d : dirT) : NoDup (map fst d) -> NoDup (map fst (remove a d)).
Proof. apply NoDup_map_filter. Qed.

Lemma NoDup_fst_bind n x (d : dirT) : NoDup (map fst d) -> NoDup (map fst (bind n x d)).
Proof. intros H. cbn. constructor; [apply remove_fst_notin|apply NoDup_fst_remove; exact H]. Qed.

(* every crash directory of a state with benign pending operations is a well-formed directory *)
Lemma crash_dir_wf ops : Forall benign ops -> forall d bs,
  NoDup (map fst d) -> NoDup (map snd d ++ links ops) ->
  NoDup (map fst (apply_dops (select bs ops) d)) /\
  NoDup (map snd (apply_dops (select bs ops) d)) /\
  incl (map snd (apply_dops (select bs ops) d)) (map snd d ++ links ops).
Proof.
  induction 1 as [|o ops Hb Hf IH]; intros d bs Hn Hs.
  - rewrite select_nil_r. cbn in *. rewrite app_nil_r in Hs. repeat split; auto. rewrite app_nil_r. apply incl_refl.
  - assert (Hs0 : NoDup (map snd d ++ links ops)).
    { rewrite links_cons in Hs.
      apply nodup_app_iff in Hs. destruct Hs as (H1 & H2 & H3). apply nodup_app_iff in H2. destruct H2 as (H2a & H2b & H2c).
      apply nodup_app_iff. repeat split; auto. intros x Hx Hx'. apply (H3 x Hx). apply in_app_iff. auto. }
    assert (Hinc0 : incl (map snd d ++ links ops) (map snd d ++ links (o :: ops))).
    { rewrite (links_cons o ops). intros x Hx. rewrite !in_app_iff in *. tauto. }
    destruct bs as [|[|] bs]; cbn [select].
    + cbn. apply nodup_app_iff in Hs. repeat split; try tauto. apply incl_appl. apply incl_refl.
    + cbn [apply_dops fold_left]. change (fold_left apply_dop (select bs ops) (apply_dop d o))
        with (apply_dops (select bs ops) (apply_dop d o)).
      assert (Hn1 : NoDup (map fst (apply_dop d o))).
      { destruct o; cbn [apply_dop]; [apply NoDup_fst_bind; auto|exfalso; exact Hb|apply NoDup_fst_remove; auto]. }
      assert (Hs1 : NoDup (map snd (apply_dop d o) ++ links ops) /\
                    incl (map snd (apply_dop d o) ++ links ops) (map snd d ++ links (o :: ops))).
      { destruct o as [n x| |a]; cbn in Hb; try contradiction.
        - change (links (DLink n x :: ops)) with (x :: links ops) in *.
          cbn [apply_dop bind map snd]. split.
          + apply nodup_app_iff in Hs. destruct Hs as (H1 & H2 & H3). inversion H2 as [|? ? Hx Hl]; subst.
            change ((x :: map snd (remove n d)) ++ links ops) with (x :: (map snd (remove n d) ++ links ops)).
            constructor.
            * rewrite in_app_iff. intros [Hin|Hin]; [|tauto]. apply In_snd_remove in Hin. apply (H3 x Hin). left. reflexivity.
            * apply nodup_app_iff. repeat split; auto.
              -- apply NoDup_map_filter. exact H1.
              -- intros y Hy Hy'. apply In_snd_remove in Hy. apply (H3 y Hy). right. exact Hy'.
          + intros y Hy. cbn in Hy. rewrite in_app_iff in *. cbn. destruct Hy as [<-|[Hy|Hy]]; auto.
            left. eapply In_snd_remove; eauto.
        - change (links (DUnlink a :: ops)) with (links ops) in *. cbn [apply_dop]. split.
          + apply nodup_app_iff in Hs. destruct Hs as (H1 & H2 & H3). apply nodup_app_iff. repeat split; auto.
            * apply NoDup_map_filter. exact H1.
            * intros y Hy. apply In_snd_remove in Hy. auto.
          + intros y Hy. rewrite in_app_iff in *. destruct Hy as [Hy|Hy]; auto. left. eapply In_snd_remove; eauto. }
      destruct Hs1 as (Hs1 & Hinc1).
      destruct (IH (apply_dop d o) bs Hn1 Hs1) as (R1 & R2 & R3). repeat split; auto.
      eapply incl_tran; [exact R3|exact Hinc1].
    + destruct (IH d bs Hn Hs0) as (R1 & R2 & R3). repeat split; auto. eapply incl_tran; eauto.
Qed.

(* ------------------------------------------------------------------ the extra invariant *)

Record PInv1 (s : fs) : Prop := mkPInv1 {
  p1_snames : NoDup (map fst (sdir s));
  p1_links : NoDup (map snd (sdir s) ++ links (pend s));
  p1_lbound : forall x, In x (links (pend s)) -> (x < nexti s)%N
}.

Definition PI (s : fs) (C : commits) (A : list (N * N)) : Prop := PInv0 s C A /\ PInv1 s.

Lemma pinv1_empty : PInv1 fs_empty.
Proof. constructor; cbn; [constructor|constructor|tauto]. Qed.

Lemma pinv1_of_synced s C A : PInv0 s C A -> pend s = [] -> sdir s = dir s -> PInv1 s.
Proof.
  intros [pi_cons0 pi_benign0 pi_sealed0 pi_disj0 pi_inj0 pi_names0 pi_bound0 pi_acked0] Hp Hs.
  constructor; rewrite ?Hp, ?Hs; cbn; auto. rewrite app_nil_r. exact pi_inj0. tauto.
Qed.

Lemma safe_preserves1 s C A m : PInv0 s C A -> PInv1 s -> safe_mut A s m -> PInv1 (apply_mut s m).
Proof.
  intros HI [Hsn Hl Hb] Hs. pose proof HI as HI'.
  destruct HI' as [pi_cons0 pi_benign0 pi_sealed0 pi_disj0 pi_inj0 pi_names0 pi_bound0 pi_acked0].
  destruct Hs as [n Hn|n d Hn|n| |a Ha]; cbn [apply_mut].
  - destruct (lookup n (dir s)) as [x|] eqn:Hlk.
    + destruct (f_cur (inodes s x)); constructor; auto.
    + constructor; cbn [sdir pend nexti]; auto.
      * rewrite links_app. cbn. apply nodup_app_iff in Hl. destruct Hl as (H1 & H2 & H3).
        apply nodup_app_iff. repeat split; auto.
        -- apply nodup_app_iff. repeat split; auto; [constructor; [tauto|constructor]|].
           intros y Hy [<-|[]]. apply Hb in Hy. lia.
        -- intros y Hy Hy'. apply in_app_iff in Hy'. destruct Hy' as [Hy'|[<-|[]]]; [apply (H3 y); auto|].
           apply in_map_iff in Hy. destruct Hy as ([k z] & Hz & Hin). cbn in Hz. subst z.
           assert ((nexti s < nexti s)%N) by (apply (pi_bound0 k); auto). lia.
      * intros y Hy. rewrite links_app in Hy. apply in_app_iff in Hy. destruct Hy as [Hy|[<-|[]]]; [apply Hb in Hy|]; lia.
  - destruct (lookup n (dir s)); constructor; auto.
  - destruct (lookup n (dir s)); constructor; auto.
  - constructor; cbn [sdir pend nexti]; auto. cbn. rewrite app_nil_r. exact pi_inj0. cbn. tauto.
  - destruct (lookup a (dir s)); [|constructor; auto].
    constructor; cbn [sdir pend nexti]; auto.
    + rewrite links_app. cbn. rewrite app_nil_r. exact Hl.
    + intros y Hy. rewrite links_app in Hy. cbn in Hy. rewrite app_nil_r in Hy. auto.
Qed.

Lemma safe_PI s C A m : PI s C A -> safe_mut A s m -> PI (apply_mut s m) C A.
Proof. intros (H0 & H1) Hs. split; [eapply safe_preserves; eauto|eapply safe_preserves1; eauto]. Qed.

Lemma safe_trace_prefix_PI s C A tr r : PI s C A -> safe_trace A s tr -> PI (run (firstn r tr) s) C A.
Proof.
  intros HI Hs. revert r HI. induction Hs as [s|s m tr Hm Htr IH]; intros r HI.
  - rewrite firstn_nil. exact HI.
  - destruct r as [|r]; cbn; auto. apply IH. eapply safe_PI; eauto.
Qed.

Lemma safe_trace_run_PI s C A tr : PI s C A -> safe_trace A s tr -> PI (run tr s) C A.
Proof. intros HI Hs. rewrite <- (firstn_all tr). apply safe_trace_prefix_PI; auto. Qed.

Lemma PI_mono s C A C' A' : PI s C A -> incl C C' -> incl A' A -> PI s C' A'.
Proof. intros (H0 & H1) HC HA. split; auto. eapply pinv0_mono; eauto. Qed.

(* ------------------------------------------------------------------ restart on a crash state *)

Lemma pinv_recover s C A c : PI s C A -> crash_cache s c -> PI (recover c (nexti s)) C A.
Proof.
  intros (HI & [Hsn Hl Hb]) Hc. pose proof (pinv_crash s C A c HI Hc) as (Hvis & Hack).
  destruct HI as [pi_cons0 pi_benign0 pi_sealed0 pi_disj0 pi_inj0 pi_names0 pi_bound0 pi_acked0].
  destruct Hc as ((bs & Hd) & Hdata).
  destruct (crash_dir_wf (pend s) pi_benign0 (sdir s) bs Hsn Hl) as (W1 & W2 & W3). rewrite <- Hd in W1, W2, W3.
  split.
  - constructor; cbn [recover dir sdir pend inodes nexti f_dirty f_cur].
    + reflexivity.
    + constructor.
    + intros t i x Hin. split; auto.
    + intros n x m Ht Hlk Hf Hin. apply lookup_In in Hlk.
      assert (n = m) by (eapply NoDup_snd_unique; eauto). subst. eapply fin_not_tmp; eauto.
    + exact W2.
    + exact W1.
    + intros n x H. assert (Hin : In (n, x) (c_dir c)) by tauto.
      assert (Hx : In x (map snd (c_dir c))) by (apply in_map_iff; exists (n, x); auto).
      apply W3 in Hx. apply in_app_iff in Hx. destruct Hx as [Hx|Hx]; [|auto].
      apply in_map_iff in Hx. destruct Hx as ([k z] & Hz & Hk). cbn in Hz. subst z. apply (pi_bound0 k). auto.
    + exact Hack.
  - constructor; cbn [recover sdir pend nexti]; auto. cbn. rewrite app_nil_r. exact W2. cbn. tauto.
Qed.

(* ------------------------------------------------------------------ the shape of every operation's trace *)

Definition wr_pend (s : fs) (w : option writer) : Prop := w <> None -> pend s = [].

Lemma run_writes_pend n ds : forall s, pend (run (map (MWrite n) ds) s) = pend s.
Proof.
  induction ds as [|d ds IH]; intros s; cbn [map run fold_left]; auto.
  change (fold_left apply_mut (map (MWrite n) ds) (apply_mut s (MWrite n d)))
    with (run (map (MWrite n) ds) (apply_mut s (MWrite n d))).
  rewrite IH. cbn. destruct (lookup n (dir s)); reflexivity.
Qed.

Lemma begin_pend s t i G : pend (run (begin_muts t i G) s) = [].
Proof. rewrite begin_muts_eq, run_app, run_writes_pend. reflexivity. Qed.

Lemma write_muts_as_map n pos len tok : exists ds, write_muts n pos len tok = map (MWrite n) ds.
Proof.
  unfold write_muts. destruct (nblocks pos len) as [|m].
  - exists []. reflexivity.
  - exists (repeat [] m ++ [tok]). rewrite map_app, <- repeat_map. reflexivity.
Qed.

Inductive op_shape (p : pstate) (o : pop) (A : list (N * N)) : Prop :=
| OS_safe : commit_info p o = None -> safe_trace A (ps_fs p) (op_trace p o) -> op_shape p o A
| OS_commit w x oracle :
    o = PCommit oracle -> ps_w p = Some w ->
    commit_info p o = Some (w_t w, w_i w, content_of (w_t w) (w_i w) (w_sid w) (w_nch w)) ->
    lookup (NTmp (w_t w) (w_i w)) (dir (ps_fs p)) = Some x ->
    f_cur (inodes (ps_fs p) x) = content_of (w_t w) (w_i w) (w_sid w) (w_nch w) ->
    op_trace p o =
      [MFsync (NTmp (w_t w) (w_i w)); MRename (NTmp (w_t w) (w_i w)) (NSnap (w_t w) (w_i w)); MDirSync] ++
      cleanup_muts (dir (run [MFsync (NTmp (w_t w) (w_i w)); MRename (NTmp (w_t w) (w_i w)) (NSnap (w_t w) (w_i w)); MDirSync]
                             (ps_fs p))) oracle ->
    op_shape p o A.

Lemma op_has_shape p o C A : PInv0 (ps_fs p) C A -> wr_ok (ps_fs p) (ps_w p) -> op_shape p o A.
Proof.
  intros HI Hw. destruct p as [s meta w]. cbn [ps_fs ps_w ps_meta] in *.
  destruct o as [t i G sid|len|oracle| |oracle].
  - apply OS_safe; [reflexivity|]. unfold op_trace. cbn [pop_step fst snd ps_fs].
    apply tmp_only_safe. apply begin_muts_tmp_only.
  - apply OS_safe; [reflexivity|]. unfold op_trace. cbn [pop_step fst snd ps_fs ps_w].
    destruct w as [w|]; cbn [fst snd]; [|constructor]. apply tmp_only_safe. apply write_muts_tmp_only.
  - destruct w as [w|].
    2:{ apply OS_safe; [reflexivity|]. unfold op_trace. cbn [pop_step fst snd ps_fs ps_w]. constructor. }
    destruct Hw as (x & Hl & Hcont).
    unfold commit_info, op_trace. cbn [pop_step fst snd ps_fs ps_w ps_meta]. unfold commit_muts.
    destruct (match meta with Some (_, mi) => (w_i w <? mi)%N | None => false end) eqn:Est.
    { apply OS_safe.
      - unfold commit_info. cbn [ps_fs ps_w ps_meta]. unfold commit_muts. rewrite Est. reflexivity.
      - unfold op_trace. cbn [pop_step fst snd ps_fs ps_w ps_meta]. unfold commit_muts. rewrite Est. cbn [fst snd].
        constructor; constructor. }
    eapply (OS_commit _ _ _ w x oracle); cbn [ps_fs ps_w ps_meta]; auto.
    + unfold commit_info. cbn [ps_fs ps_w ps_meta]. unfold commit_muts. rewrite Est, Hl. reflexivity.
    + unfold op_trace. cbn [pop_step fst snd ps_fs ps_w ps_meta]. unfold commit_muts. rewrite Est, Hl. reflexivity.
  - apply OS_safe; [reflexivity|]. unfold op_trace. cbn [pop_step fst snd ps_fs ps_w].
    destruct w as [w|]; cbn [fst snd]; constructor; constructor.
  - apply OS_safe; [reflexivity|]. unfold op_trace. cbn [pop_step fst snd ps_fs ps_w].
    destruct (open_mgr (dir s) (fun i : N => f_cur (inodes s i))) as [| |t i sid nch]; cbn [fst snd].
    + constructor.
    + eapply new_mgr_safe; eauto.
    + eapply new_mgr_safe; eauto.
Qed.

(* ------------------------------------------------------------------ one operation: every crash state recovers
   into an invariant state; the completed operation ends in one *)

Lemma op_writer_pend p o : wr_pend (ps_fs p) (ps_w p) -> wr_pend (ps_fs (op_next p o)) (ps_w (op_next p o)).
Proof.
  intros Hp. destruct p as [s meta w]. unfold op_next. cbn [ps_fs ps_w] in *.
  destruct o as [t i G sid|len|oracle| |oracle]; cbn [pop_step fst snd ps_fs ps_w ps_meta].
  - intros _. apply begin_pend.
  - destruct w as [w|]; cbn [fst ps_fs ps_w]; [|exact Hp].
    intros _. unfold chunk_muts. destruct (write_muts_as_map (NTmp (w_t w) (w_i w)) (w_pos w) len (chunk_tok (w_sid w) (S (w_nch w)))) as (ds & ->).
    rewrite run_writes_pend. apply Hp. discriminate.
  - destruct w as [w|]; cbn [fst ps_fs ps_w]; [|exact Hp].
    destruct (commit_muts s meta w oracle) as [err tr]. cbn [fst ps_w]. intros H. congruence.
  - destruct w as [w|]; cbn [fst ps_fs ps_w]; [|exact Hp]. intros H. congruence.
  - destruct (open_mgr (dir s) (fun i : N => f_cur (inodes s i))); cbn [fst ps_w]; intros H; congruence.
Qed.

Lemma op_recover p o C A :
  PI (ps_fs p) C A -> wr_ok (ps_fs p) (ps_w p) -> wr_pend (ps_fs p) (ps_w p) ->
  (forall r c, crash_cache (run (firstn r (op_trace p o)) (ps_fs p)) c ->
     exists nx, PI (recover c nx) (C_of C (commit_info p o)) A /\
                (length (op_trace p o) <= r -> PI (recover c nx) (C_of C (commit_info p o)) (A_of A (commit_info p o)))) /\
  PI (ps_fs (op_next p o)) (C_of C (commit_info p o)) (A_of A (commit_info p o)).
Proof.
  intros HPI Hw Hwp. pose proof HPI as (HI & HI1).
  destruct (op_has_shape p o C A HI Hw) as [Hci Hsafe | w x oracle -> Hpw Hci Hl Hcont Htr].
  - rewrite Hci. cbn [C_of A_of]. split.
    + intros r c Hc. eexists. split; [|intros _]; eapply pinv_recover; try exact Hc; apply safe_trace_prefix_PI; auto.
    + rewrite op_next_fs. apply safe_trace_run_PI; auto.
  - rewrite Hci. cbn [C_of A_of]. rewrite Htr.
    set (s := ps_fs p) in *.
    set (tmp := NTmp (w_t w) (w_i w)) in *. set (fin := NSnap (w_t w) (w_i w)) in *.
    set (content := content_of (w_t w) (w_i w) (w_sid w) (w_nch w)) in *.
    set (C' := (w_t w, w_i w, content) :: C). set (A' := (w_t w, w_i w) :: A).
    assert (Hp0 : pend s = []) by (apply Hwp; rewrite Hpw; discriminate).
    set (s1 := apply_mut s (MFsync tmp)).
    assert (HP1 : PI s1 C A) by (apply safe_PI; [exact HPI|constructor]).
    assert (Hl1 : lookup tmp (dir s1) = Some x) by (unfold s1; rewrite fsync_dir; exact Hl).
    assert (Hx1 : f_dirty (inodes s1 x) = false /\ f_cur (inodes s1 x) = content).
    { unfold s1. cbn [apply_mut]. rewrite Hl. cbn [inodes]. rewrite set_inode_same. cbn [f_dirty f_cur]. split; [reflexivity|exact Hcont]. }
    destruct Hx1 as (Hcl1 & Hcur1).
    assert (Hp1 : pend s1 = []) by (unfold s1; cbn; rewrite Hl; exact Hp0).
    assert (Hsd1 : sdir s1 = dir s1).
    { destruct HP1 as ([pc _ _ _ _ _ _ _] & _). unfold dir_consistent in pc. rewrite Hp1 in pc. cbn in pc. auto. }
    set (sr := apply_mut s1 (MRename tmp fin)).
    set (s2 := apply_mut sr MDirSync).
    assert (HI2 : PInv0 s2 C' A').
    { unfold s2, sr, C'. rewrite <- Hcur1. apply commit_dirsync_inv; auto. apply HP1. }
    assert (HP2 : PI s2 C' A').
    { split; [exact HI2|]. eapply pinv1_of_synced; [exact HI2| |]; unfold s2, sr; cbn [apply_mut]; rewrite Hl1; reflexivity. }
    change (run [MFsync tmp; MRename tmp fin; MDirSync] s) with s2.
    pose proof (cleanup_safe s2 _ _ oracle HI2) as Hsafe.
    split.
    + intros r c Hc.
      destruct r as [|[|[|r]]].
      * cbn in Hc. eexists. split; [|cbn [length app]; intros; lia].
        eapply PI_mono; [eapply pinv_recover; [exact HPI|exact Hc]|apply incl_tl; apply incl_refl|apply incl_refl].
      * cbn in Hc. eexists. split; [|cbn [length app]; intros; lia].
        eapply PI_mono; [eapply pinv_recover; [exact HP1|exact Hc]|apply incl_tl; apply incl_refl|apply incl_refl].
      * (* after the rename, before the directory fsync: the crash directory is that of s1 or that of s2 *)
        cbn [firstn app run fold_left] in Hc. change (crash_cache sr c) in Hc.
        exists (nexti s1). split; [|cbn [length app]; intros; lia].
        destruct Hc as ((bs & Hd) & Hdata). unfold sr in Hd, Hdata. cbn [apply_mut] in Hd, Hdata.
        rewrite Hl1 in Hd, Hdata. cbn [pend sdir inodes] in Hd, Hdata. rewrite Hp1 in Hd. cbn [app] in Hd.
        destruct (select_single bs (DRename tmp fin x)) as [E|E]; rewrite E in Hd.
        -- change (apply_dops [] (sdir s1)) with (sdir s1) in Hd.
           eapply PI_mono; [eapply (pinv_recover s1 C A c HP1)|apply incl_tl; apply incl_refl|apply incl_refl].
           split; [exists []; rewrite select_nil; exact Hd|exact Hdata].
        -- change (apply_dops [DRename tmp fin x] (sdir s1)) with (bind fin x (remove tmp (sdir s1))) in Hd.
           assert (Hc2 : crash_cache s2 c).
           { split; [exists []; rewrite select_nil, Hd, Hsd1; unfold s2, sr; cbn [apply_mut]; rewrite Hl1; reflexivity|].
             assert (Hin2 : inodes s2 = inodes s1) by (unfold s2, sr; cbn [apply_mut]; rewrite Hl1; reflexivity).
             intros i Hi. rewrite Hin2 in *. apply Hdata. exact Hi. }
           assert (Hnx : nexti s2 = nexti s1) by (unfold s2, sr; cbn [apply_mut]; rewrite Hl1; reflexivity).
           rewrite <- Hnx.
           eapply PI_mono; [apply (pinv_recover s2 C' A' c HP2 Hc2)|apply incl_refl|apply incl_tl; apply incl_refl].
      * change (firstn (S (S (S r))) ([MFsync tmp; MRename tmp fin; MDirSync] ++ cleanup_muts (dir s2) oracle))
          with ([MFsync tmp; MRename tmp fin; MDirSync] ++ firstn r (cleanup_muts (dir s2) oracle)) in Hc.
        rewrite run_app in Hc. change (run [MFsync tmp; MRename tmp fin; MDirSync] s) with s2 in Hc.
        pose proof (safe_trace_prefix_PI s2 C' A' _ r HP2 Hsafe) as HPr.
        eexists. split; [|intros _]; [eapply PI_mono; [eapply pinv_recover; [exact HPr|exact Hc]|apply incl_refl|apply incl_tl; apply incl_refl]|].
        eapply pinv_recover; [exact HPr|exact Hc].
    + rewrite op_next_fs. rewrite Htr. rewrite run_app.
      change (run [MFsync tmp; MRename tmp fin; MDirSync] (ps_fs p)) with s2.
      apply safe_trace_run_PI; auto.
Qed.

(* ------------------------------------------------------------------ whole executions from any invariant state *)

Definition GInv2 (g : gstate) : Prop :=
  PI (ps_fs (g_p g)) (g_C g) (g_A g) /\ wr_ok (ps_fs (g_p g)) (ps_w (g_p g)) /\
  wr_pend (ps_fs (g_p g)) (ps_w (g_p g)) /\ C_wf (g_C g).

Lemma ginv2_GInv g : GInv2 g -> GInv g.
Proof. intros ((H0 & _) & Hw & _ & Hwf). split; auto. Qed.

Lemma ginv2_step g o : GInv2 g -> GInv2 (gstep g o).
Proof.
  intros (HPI & Hw & Hwp & Hwf).
  destruct (op_recover (g_p g) o _ _ HPI Hw Hwp) as (_ & H2).
  destruct (op_good (g_p g) o _ _ (proj1 HPI) Hw) as (_ & _ & H3).
  split; [exact H2|]. split; [exact H3|]. split; [apply op_writer_pend; exact Hwp|]. apply C_wf_of. exact Hwf.
Qed.

Lemma ginv2_run ops : forall g, GInv2 g -> GInv2 (grun g ops).
Proof. induction ops as [|o ops IH]; intros g H; cbn; auto. apply IH. apply ginv2_step. exact H. Qed.

Lemma ginv2_0 : GInv2 g0.
Proof.
  split; [split; [apply pinv0_empty|apply pinv1_empty]|]. split; [exact I|]. split; [intros H; exfalso; apply H; reflexivity|intros t i c []].
Qed.

(* the manager restarted on a crash state: nothing cached, no writer; the ghost record is kept *)
Definition restarted (c : cfs) (nx : N) (C : commits) (A : list (N * N)) : gstate :=
  mkG (mkPS (recover c nx) None None) C A.

Theorem snapshot_recovery_closed_lemma :
  forall g ops1 o r c,
    GInv2 g ->
    let g1 := grun g ops1 in
    crash_cache (run (firstn r (op_trace (g_p g1) o)) (ps_fs (g_p g1))) c ->
    exists nx, GInv2 (restarted c nx (g_C (gstep g1 o)) (g_A g1)) /\
               (length (op_trace (g_p g1) o) <= r -> GInv2 (restarted c nx (g_C (gstep g1 o)) (g_A (gstep g1 o)))).
Proof.
  intros g ops1 o r c Hg g1 Hc.
  destruct (ginv2_run ops1 g Hg) as (HPI & Hw & Hwp & Hwf). fold g1 in HPI, Hw, Hwp, Hwf.
  destruct (op_recover (g_p g1) o _ _ HPI Hw Hwp) as (H1 & _).
  destruct (H1 r c Hc) as (nx & Ha & Hb). exists nx.
  assert (Hwf' : C_wf (g_C (gstep g1 o))) by (apply C_wf_of; exact Hwf).
  split.
  - split; [exact Ha|]. split; [exact I|]. split; [intros H; exfalso; apply H; reflexivity|exact Hwf'].
  - intros Hr. split; [exact (Hb Hr)|]. split; [exact I|]. split; [intros H; exfalso; apply H; reflexivity|exact Hwf'].
Qed.

(* the crash analysis from ANY invariant state (in particular from a restarted one) *)
Theorem snapshot_crash_from_any_lemma :
  forall g ops1 o r c,
    GInv2 g ->
    let g1 := grun g ops1 in
    crash_cache (run (firstn r (op_trace (g_p g1) o)) (ps_fs (g_p g1))) c ->
    C_wf (g_C (gstep g1 o)) /\
    crash_ok (g_C (gstep g1 o)) (g_A g1) c /\
    (length (op_trace (g_p g1) o) <= r -> crash_ok (g_C (gstep g1 o)) (g_A (gstep g1 o)) c).
Proof.
  intros g ops1 o r c Hg g1 Hc.
  destruct (ginv2_run ops1 g Hg) as (HPI & Hw & Hwp & Hwf). fold g1 in HPI, Hw, Hwp, Hwf.
  destruct (op_good (g_p g1) o _ _ (proj1 HPI) Hw) as (H1 & H2 & _).
  split; [apply C_wf_of; exact Hwf|]. split; [apply (H1 r c Hc)|].
  intros Hr. rewrite firstn_all2 in Hc by exact Hr.
  eapply pinv_crash; [exact H2|]. rewrite op_next_fs. exact Hc.
Qed.

(* property-level form, from any invariant state *)
Theorem snapshot_visible_from_lemma :
  forall g ops1 o r c,
    GInv2 g ->
    let g1 := grun g ops1 in
    let C := g_C (gstep g1 o) in
    crash_cache (run (firstn r (op_trace (g_p g1) o)) (ps_fs (g_p g1))) c ->
    (forall t i x, In (NSnap t i, x) (c_dir c) ->
       exists sid nch, In (t, i, content_of t i sid nch) C /\ c_data c x = content_of t i sid nch) /\
    (forall A, A = g_A g1 \/ (length (op_trace (g_p g1) o) <= r /\ A = g_A (gstep g1 o)) ->
     match open_mgr (c_dir c) (c_data c) with
     | MFatal => False
     | MNone => (forall m x, is_fin m = true -> ~ In (m, x) (c_dir c)) /\ A = []
     | MSome t i sid nch =>
         (exists x sid0 nch0, lookup (NSnap t i) (c_dir c) = Some x /\ c_data c x = content_of t i sid0 nch0 /\
                              In (t, i, content_of t i sid0 nch0) C /\ (sid, nch) = visible_of sid0 nch0) /\
         (forall m x, is_fin m = true -> In (m, x) (c_dir c) -> key_leb (key m) (t, i) = true) /\
         (forall a, In a A -> key_leb a (t, i) = true)
     end).
Proof.
  intros g ops1 o r c Hg g1 C Hc.
  destruct (snapshot_crash_from_any_lemma g ops1 o r c Hg Hc) as (Hwf & Hok & Hend).
  fold g1 in Hwf, Hok, Hend. fold C in Hwf, Hok, Hend.
  split.
  - intros t i x Hin. destruct Hok as (Hvis & _). pose proof (Hvis t i x Hin) as HC.
    destruct (Hwf _ _ _ HC) as (sid & nch & E). exists sid, nch. rewrite <- E. auto.
  - intros A [->|(Hr & ->)].
    + exact (open_mgr_ok C (g_A g1) c Hwf Hok).
    + exact (open_mgr_ok C _ c Hwf (Hend Hr)).
Qed.
