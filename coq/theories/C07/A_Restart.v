(* C07/A_Restart.v — part A, run level: over ALL reachable states of the C02 run models,
   restart_never_fatal_lemma       (every schedule of Election.sstep, no side condition): whatever store a crash after any
                                   durable mutation of any event leaves behind, newCore returns a node, and that node
                                   digests the traffic of a rejoining node without reaching a Fatalf;
   crash_prefix_persistent_lemma   the store at the crash point is pcontig and extends term/vote; the restarted node's
                                   store is contiguous with snapshot index = commit index <= last index;
   crash_steps_keep_shape_lemma    (alphabet sstepS, with snapshots) after every step - crashed or not - every node's
                                   store has the shape C02's clauses rest on: logical log contiguous from 1, snapshot
                                   names one of its positions with that entry's term and is <= commit, terms along the
                                   logical log non-decreasing and bounded by the durable term. *)
From Coq Require Import List NArith ZArith Bool Lia.
From BLB Require Import Lib.LTS Raft.Core Raft.Wire Raft.NodeProofs Raft.Election Raft.LogMatchLists Raft.LogMatch
     Raft.LogMatchNodeS Raft.CompletenessAck Raft.CompletenessVote Raft.CompletenessCommit
     Raft.SnapSys Raft.SnapContig Raft.SnapContigMsgs Raft.SnapContigSys Raft.SnapSystem C07.A_NoFatal.
Import ListNotations.
Open Scope N_scope.

(* the store at a crash point of any event on a contiguous store *)
Lemma crashed_pcontig s ev k p :
  contig (n_p s) -> (forall m, ev = EDeliver m -> mwf m) ->
  run_event (with_budget (settle s) k) ev = Crashed p -> pcontig p.
Proof.
  intros Hs Hev E. set (s0 := with_budget (settle s) k) in *.
  assert (Hs0 : contig (n_p s0)) by exact Hs.
  destruct ev; simpl in E.
  + pose proof (cx2_propose_initial s0 members epoch) as K. rewrite E in K. exact (K Hs0).
  + unfold wrap0 in E. pose proof (cx_handle_msg s0 m (Hev m eq_refl)) as K. destruct (handle_msg s0 m); simpl in E; try discriminate.
    inversion E. subst. exact (K Hs0).
  + unfold wrap0 in E. pose proof (cx_tick s0) as K. destruct (tick s0); simpl in E; try discriminate.
    inversion E. subst. exact (K Hs0).
  + pose proof (cx2_propose s0 es) as K. rewrite E in K. exact (K Hs0).
  + pose proof (cx2_add_node s0 member rnd) as K. rewrite E in K. exact (K Hs0).
  + pose proof (cx2_remove_node s0 member) as K. rewrite E in K. exact (K Hs0).
  + unfold wrap0 in E. pose proof (cx_snapshot_done s0 m) as K. destruct (snapshot_done s0 m); simpl in E; try discriminate.
    inversion E. subst. exact (K Hs0).
  + unfold wrap0 in E. simpl in E. pose proof (new_core_pext (n_id s) (n_cfg s) (n_p s)) as Np.
    destruct (new_core (n_id s) (n_cfg s) (n_p s)) as [z | |] eqn:En; simpl in E; try discriminate. contradiction.
Qed.

Lemma fresh_ready s' k' : fresh s' -> J (with_budget (settle s') k') /\ n_role (with_budget (settle s') k') = Follower /\
                                      n_leader (with_budget (settle s') k') = 0.
Proof.
  intros [HJ [R [L _]]]. split; [eapply J_ext; [| | | exact HJ]; reflexivity|]. split; [exact R | exact L].
Qed.

(* the surviving store is either what an event left at a crash point, or the store of a node that is simply restarted *)
Definition survivor (s : node) (p : pstate) : Prop :=
  p = n_p s \/ exists ev k, (forall m, ev = EDeliver m -> mwf m) /\ run_event (with_budget (settle s) k) ev = Crashed p.

Theorem restart_never_fatal_lemma :
  forall q σ0 sched σ, cinv σ0 -> run sys sys_event (sstep q) σ0 sched σ ->
  forall s p, In s (sy_nodes σ) -> survivor s p ->
    exists s', new_core (n_id s) (n_cfg s) p = Ret s' /\ fresh s' /\
      forall m k', rejoin_msg m -> nf (fun _ => True) (handle_msg (with_budget (settle s') k') m).
Proof.
  intros q σ0 sched σ H0 Hrun s p Hs Hp.
  destruct (log_snapshot_contiguous_sys q σ0 sched σ H0 Hrun) as [Hn _].
  assert (Q : pcontig p).
  { destruct Hp as [-> | [ev [k [Hev E]]]]; [apply contig_pcontig; apply Hn; exact Hs|].
    eapply crashed_pcontig; [apply Hn; exact Hs | exact Hev | exact E]. }
  destruct (new_core_never_fatal (n_id s) (n_cfg s) p Q) as [s' [E [F _]]].
  exists s'. split; [exact E|]. split; [exact F|].
  intros m k' Hm. destruct (fresh_ready s' k' F) as [HJ [R L]]. apply handle_msg_never_fatal; auto.
Qed.

Theorem crash_prefix_persistent_lemma :
  forall q σ0 sched σ, cinv σ0 -> run sys sys_event (sstep q) σ0 sched σ ->
  forall s ev k p, In s (sy_nodes σ) -> (forall m, ev = EDeliver m -> In m (sy_soup σ)) ->
    run_event (with_budget (settle s) k) ev = Crashed p ->
    pcontig p /\ pext (n_p s) p /\
    exists s', new_core (n_id s) (n_cfg s) p = Ret s' /\ pext p (n_p s') /\ contig (n_p s') /\
               n_commit s' = match p_snap (n_p s') with Some m => sn_index m | None => 0 end /\
               n_commit s' <= last_index (n_p s') /\ n_role s' = Follower /\ n_msgs s' = [].
Proof.
  intros q σ0 sched σ H0 Hrun s ev k p Hs Hev E.
  destruct (log_snapshot_contiguous_sys q σ0 sched σ H0 Hrun) as [Hn Hm].
  assert (Q : pcontig p) by (eapply crashed_pcontig; [apply Hn; exact Hs | intros m Em; apply Hm; apply (Hev m Em) | exact E]).
  split; [exact Q|]. split.
  { pose proof (run_event_pext (with_budget (settle s) k) ev) as P. rewrite E in P. exact P. }
  destruct (new_core_never_fatal (n_id s) (n_cfg s) p Q) as [s' [En [[[C Sn] [R [L [M Cm]]]] _]]].
  exists s'. split; [exact En|]. split.
  { pose proof (new_core_pext (n_id s) (n_cfg s) p) as P. rewrite En in P. destruct P as [P1 _]. exact P1. }
  split; [exact C|]. split; [exact Cm|]. split; [| auto].
  rewrite Cm. destruct (p_snap (n_p s')) as [m |] eqn:Es; [apply (contig_snap_le_last (n_p s') m C Es) | lia].
Qed.

(* the persistent invariant of C02's run model with snapshots, on every state of every run - i.e. also right after a
   step that crashed after any durable mutation and restarted *)
Definition store_inv (C : list entry) (s : node) : Prop :=
  shape C (n_p s) (n_commit s) /\ tmono (C ++ p_log (n_p s)) /\ tbound (p_term (n_p s)) (C ++ p_log (n_p s)).

Theorem crash_steps_keep_shape_lemma :
  forall (bm : list nid) (be : N) (σ0 σ : sys) (sched : list sys_event),
    cinit σ0 -> length bm = length (sy_nodes σ0) ->
    run sys sys_event (sstepS bm be (length (sy_nodes σ0))) σ0 sched σ ->
    forall a, In a (sy_nodes σ) -> exists C, store_inv C a.
Proof.
  intros bm be σ0 σ sched Hc Hbm Hr a Ha.
  destruct (reach bm be σ0 sched σ Hc Hbm Hr) as [Cf [S [G [A [CL [GR HS]]]]]].
  pose proof (k_g _ _ _ _ _ (w_k _ _ _ _ _ _ _ (c_w _ _ _ _ _ _ _ (si_cm _ _ _ _ _ _ _ _ _ _ HS)))) as GI.
  pose proof (SI_ghost_ok _ _ _ _ _ _ _ _ _ _ HS a Ha) as Sh.
  assert (Hnd : NoDup (map n_id (sy_nodes σ))) by (apply (i_nodup _ _ (si_el _ _ _ _ _ _ _ _ _ _ HS))).
  pose proof (get_vsys Cf S σ _ _ (in_get_node _ _ Hnd Ha)) as Ga.
  destruct (g_tb_node _ _ _ _ GI _ _ Ga) as [Tb Tm].
  exists (Cf (n_id a)). split; [exact Sh|]. split; [exact Tm | exact Tb].
Qed.
