(* C07/Props.v — property-level theorems only. Part A (core level) below; part B (file level: raftfs state file and
   snapshot manager over CrashFS) appends its theorems to this file.  Tags are read by bin/check. *)
From Coq Require Import List NArith ZArith.
From BLB Require Import Raft.Core Raft.Wire Raft.Legit Raft.NodeProofs Raft.NodeElect Raft.NodeMono C07.A_Witness C07.A_Repaired C07.A_Proofs C07.A_Wedge.
Import ListNotations.
Open Scope N_scope.

(* [FULL] part A, "does not forget a term or vote it acted on": for every node state, every event and every crash
   point k inside it (crash right after the k-th durable mutation, then newCore on the surviving storage) the restarted
   node's durable term is not below the old one, within the same term a vote that was cast is still the same vote, and
   the crashed handler has sent nothing (the restarted node is a follower with an empty outbox) *)
Theorem crash_keeps_term_and_vote :
  forall s ev k st s',
    run_event_crash s ev k = Ret (true, st, s') ->
    p_term (n_p s) <= p_term (n_p s') /\
    (p_term (n_p s') = p_term (n_p s) -> p_vote (n_p s) <> 0 -> p_vote (n_p s') = p_vote (n_p s)) /\
    n_role s' = Follower /\ n_msgs s' = [].
Proof. exact crash_keeps_term_and_vote_lemma. Qed.
Print Assumptions crash_keeps_term_and_vote.

(* [FULL] part A, regression for the fixed finding F10: the schedule of legitimate events with a crash in handleSnapshot between the snapshot
   Commit and log.Truncate, on which the code used to die with the gap Fatalf, is survived without any Fatalf *)
Theorem f10_schedule_survived :
  legit_schedule f10_witness = true /\
  existsb (fun l => match l with 666%Z :: _ => true | _ => false end) (run_case f10_witness) = false /\
  existsb (fun op => match op with 10%Z :: _ => true | _ => false end) f10_witness = true.
Proof. exact C07.A_Proofs.f10_schedule_survived. Qed.
Print Assumptions f10_schedule_survived.

(* [FULL] part A, and right after that crash the restarted node's commit index is within its storage and the stale log is gone *)
Theorem f10_state_repaired :
  legit_schedule f10_prefix = true /\
  exists c s, final_state f10_prefix = Some c /\ get_node 3 c = Some s /\
              n_commit s <= last_index (n_p s) /\ p_log (n_p s) = [].
Proof. exact C07.A_Proofs.f10_state_repaired. Qed.
Print Assumptions f10_state_repaired.

(* [FULL] part A, newCore (which reconciles log and snapshot first since the fix of F10): from every surviving
   persistent state with a contiguous 1-based log, i.e. after a crash at any point whatsoever, the repaired newCore
   leaves storage in which the snapshot is a prefix of the log *)
Theorem restart_repaired_storage_consistent :
  forall id cfg p s1, log_wf (p_log p) -> new_core_fixed id cfg p = Ret s1 -> storage_ok (n_p s1).
Proof. exact new_core_fixed_consistent. Qed.
Print Assumptions restart_repaired_storage_consistent.

(* [FULL] part A, on storage in which the snapshot is a prefix of the log no AppEnts whose entries start right after
   prevLogIndex, whatever else it carries, can reach the gap Fatalf that F10 dies with *)
Theorem no_gap_fatal_on_consistent_storage :
  forall s from pi pt cm e0 rest,
    storage_ok (n_p s) -> e_index e0 = pi + 1 ->
    handle_app_ents s from pi pt cm (Some (e0 :: rest)) <> Fatal F_GAP.
Proof. exact no_gap_when_consistent. Qed.
Print Assumptions no_gap_fatal_on_consistent_storage.

(* [FULL] part A, the safety half of F10 for the repaired start-up: on the very states F10 produces - a snapshot ahead of a stale
   well-formed log - the repaired newCore drops the log, and a node whose log is empty grants its vote only to a candidate
   whose last term and index are at least those of its snapshot *)
Theorem repaired_restart_votes_respect_snapshot :
  (forall s m li s1, log_wf (p_log (n_p s)) -> n_budget s = 0 -> p_snap (n_p s) = Some m ->
      log_last (p_log (n_p s)) = Some li -> li < sn_index m -> reconcile s = Ret s1 ->
      p_log (n_p s1) = [] /\ p_snap (n_p s1) = Some m) /\
  (forall s m from li lt, p_log (n_p s) = [] -> p_snap (n_p s) = Some m -> sn_index m <> 0 ->
      can_grant_vote s from li lt = Ret true -> sn_term m < lt \/ (lt = sn_term m /\ sn_index m <= li)).
Proof. split; [exact reconcile_drops_stale_log | exact vote_on_empty_log_respects_snapshot]. Qed.
Print Assumptions repaired_restart_votes_respect_snapshot.

(* [FULL] part A, acts_after_persist: for every settled node state and every event, every message the handler emits carries the
   term that is durable when the handler returns and the node's own id, and a granted vote is emitted only with exactly
   that vote durable; messages leave only when the handler returns (TakeAllMsgs), so with crash_keeps_term_and_vote a crashed
   handler has sent nothing and a node never forgets a term or vote it acted on *)
Theorem acts_after_persist :
  forall s ev st s', n_msgs s = [] -> run_event s ev = Ret (st, s') ->
    Forall (fun m => m_term m = p_term (n_p s') /\ m_from m = n_id s' /\
                     (m_body m = VoteResp true -> p_vote (n_p s') = m_to m)) (n_msgs s').
Proof. exact acts_after_persist_lemma. Qed.
Print Assumptions acts_after_persist.

(* [FULL] part A, the repaired start-up keeps the durable term and vote, it only truncates the log *)
Theorem restart_repaired_keeps_term_and_vote :
  forall id cfg p s', new_core_fixed id cfg p = Ret s' ->
    p_term p <= p_term (n_p s') /\ (p_term (n_p s') = p_term p -> p_vote p <> 0 -> p_vote (n_p s') = p_vote p).
Proof. exact restart_repaired_keeps_term_and_vote_lemma. Qed.
Print Assumptions restart_repaired_keeps_term_and_vote.

(* [FULL] part A, each handler equals the ordered list of durable mutations it performs: for every settled node state and every
   event other than Restart, the persistent state at handler return is exactly the replay of the recorded mutations
   SaveState, SetVoteFor, SetGUIDFor, FilterGUIDs, LogAppend, LogTruncate, LogTrim, SnapshotCommit, in order, on the
   persistent state at handler start *)
Theorem handler_equals_its_durable_mutations :
  forall s ev st s', ev <> ERestart -> n_muts s = [] -> run_event s ev = Ret (st, s') ->
    n_p s' = replay (n_p s) (n_muts s').
Proof. exact handler_equals_its_durable_mutations_lemma. Qed.
Print Assumptions handler_equals_its_durable_mutations.

(* [FULL] part A, regression for the fixed finding F23: on the schedule with a lost AppEnts and a delayed negative AppEntsResp the leader's
   nextIndex for the follower stays above its matchIndex *)
Theorem f23_schedule_not_wedged :
  legit_schedule f23_witness = true /\
  exists c nx mt li, final_state f23_witness = Some c /\ leader_view c 1 3 = Some (nx, mt, li) /\ mt < nx.
Proof. exact C07.A_Wedge.f23_schedule_not_wedged. Qed.
Print Assumptions f23_schedule_not_wedged.

(* [FULL] part A, since the fix of F23, for every leader state and every negative AppEntsResp that is not discarded as stale: afterwards the
   peer's nextIndex is above its matchIndex, so the leader never starts probing below what the follower is known to hold *)
Theorem negative_response_keeps_next_above_match :
  forall s from p ix hi s', peer_get from (l_peers s) = Some p -> pr_match p <= ix ->
    handle_app_ents_resp s from false ix hi = Ret s' ->
    exists p', peer_get from (l_peers s') = Some p' /\ pr_match p' < pr_next p'.
Proof. exact C07.A_Wedge.negative_response_keeps_next_above_match. Qed.
Print Assumptions negative_response_keeps_next_above_match.

(* [FULL] part A, why such a state was a dead end before the fix, for every leader state and every peer with nextIndex not above matchIndex: whatever
   the leader builds for that peer is an entry-less probe strictly below matchIndex *)
Theorem wedged_leader_only_probes_below_match :
  forall s p b, wedged p -> get_app_ents s p = Ret (Some b) ->
    exists pt, b = AppEnts (pr_next p - 1) pt (n_commit s) None /\ pr_next p - 1 < pr_match p \/ pr_next p = 0.
Proof. exact wedged_sends_only_low_probes. Qed.
Print Assumptions wedged_leader_only_probes_below_match.

(* [FULL] part A, a follower answers an entry-less AppEnts with Index equal to its prevLogIndex whether it accepts or rejects, and
   the leader discards every answer whose Index is below matchIndex without changing its state at all *)
Theorem answers_below_match_are_discarded :
  (forall s from pi pt cm s', handle_app_ents s from pi pt cm None = Ret s' ->
      exists m, In m (n_msgs s') /\ m_to m = from /\ exists su hi, m_body m = AppEntsResp su pi hi) /\
  (forall s from p su ix hi, peer_get from (l_peers s) = Some p -> ix < pr_match p ->
      handle_app_ents_resp s from su ix hi = Ret s).
Proof. split; [exact probe_answer_index | exact low_answer_discarded]. Qed.
Print Assumptions answers_below_match_are_discarded.
