(* C07/Props.v — property-level theorems only. Part A (core level) below; part B (file level: raftfs state file and
   snapshot manager over CrashFS) appends its theorems to this file.  Tags are read by bin/check. *)
From Coq Require Import List NArith ZArith.
From BLB Require Import Raft.Core Raft.Wire Raft.Legit Raft.NodeProofs Raft.NodeElect C07.A_Witness C07.A_Repaired C07.A_Proofs.
Import ListNotations.
Open Scope N_scope.

(* [FULL] part A, "does not forget a term or vote it acted on": for every node state, every event and every crash
   point k inside it (crash right after the k-th durable mutation, then newCore on the surviving storage) the restarted
   node's durable term is not below the old one, within the same term a vote that was cast is still the same vote, and
   the crashed handler has sent nothing (the restarted node is a follower with an empty outbox) *)
Theorem crash_keeps_term_and_vote :
  forall s ev k st s',
    run_event_crash s ev k = Ret (true, st, s') ->
    p_term (n_p s) <= p_term (n_p s') /\
    (p_term (n_p s') = p_term (n_p s) -> p_vote (n_p s) <> 0 -> p_vote (n_p s') = p_vote (n_p s)) /\
    n_role s' = Follower /\ n_msgs s' = [].
Proof. exact crash_keeps_term_and_vote_lemma. Qed.
Print Assumptions crash_keeps_term_and_vote.

(* [REFUTED] part A, restart_never_fatal fails on the current code (finding F10): there is a schedule of legitimate events only
   (every delivered message was emitted earlier in the run, the snapshot is of committed applied state) with one crash
   between two durable mutations (op 10: handleSnapshot after the snapshot Commit, before log.Truncate) after which the
   leader's next AppEnts drives the restarted follower into the Fatalf `there's gap between last entry ...` *)
Theorem restart_never_fatal_refuted :
  exists ops, legit_schedule ops = true /\ observes [666%Z; Z.of_N F_GAP] ops = true /\
              existsb (fun op => match op with 10%Z :: _ => true | _ => false end) ops = true.
Proof. exists f10_witness. exact f10_witness_ok. Qed.
Print Assumptions restart_never_fatal_refuted.

(* [FULL] part A, the carved-out version for the repaired start-up (newCore reconciles log and snapshot first): from every surviving
   persistent state with a contiguous 1-based log, i.e. after a crash at any point whatsoever, the repaired newCore
   leaves storage in which the snapshot is a prefix of the log *)
Theorem restart_repaired_storage_consistent :
  forall id cfg p s1, log_wf (p_log p) -> new_core_fixed id cfg p = Ret s1 -> storage_ok (n_p s1).
Proof. exact new_core_fixed_consistent. Qed.
Print Assumptions restart_repaired_storage_consistent.

(* [FULL] part A, on storage in which the snapshot is a prefix of the log no AppEnts whose entries start right after
   prevLogIndex, whatever else it carries, can reach the gap Fatalf that F10 dies with *)
Theorem no_gap_fatal_on_consistent_storage :
  forall s from pi pt cm e0 rest,
    storage_ok (n_p s) -> e_index e0 = pi + 1 ->
    handle_app_ents s from pi pt cm (Some (e0 :: rest)) <> Fatal F_GAP.
Proof. exact no_gap_when_consistent. Qed.
Print Assumptions no_gap_fatal_on_consistent_storage.

(* [FULL] part A, acts_after_persist: for every settled node state and every event, every message the handler emits carries the
   term that is durable when the handler returns and the node's own id, and a granted vote is emitted only with exactly
   that vote durable; messages leave only when the handler returns (TakeAllMsgs), so with crash_keeps_term_and_vote a crashed
   handler has sent nothing and a node never forgets a term or vote it acted on *)
Theorem acts_after_persist :
  forall s ev st s', n_msgs s = [] -> run_event s ev = Ret (st, s') ->
    Forall (fun m => m_term m = p_term (n_p s') /\ m_from m = n_id s' /\
                     (m_body m = VoteResp true -> p_vote (n_p s') = m_to m)) (n_msgs s').
Proof. intros s ev st s' H R. destruct (run_event_sum s ev st s' H R) as [_ [M _]]. exact M. Qed.
Print Assumptions acts_after_persist.

(* [FULL] part A, the repaired start-up keeps the durable term and vote, it only truncates the log *)
Theorem restart_repaired_keeps_term_and_vote :
  forall id cfg p s', new_core_fixed id cfg p = Ret s' ->
    p_term p <= p_term (n_p s') /\ (p_term (n_p s') = p_term p -> p_vote p <> 0 -> p_vote (n_p s') = p_vote p).
Proof.
  intros id cfg p s' H. pose proof (new_core_fixed_pext id cfg p) as P. rewrite H in P.
  destruct P as [A [B _]]. split; [exact A|]. intros Ht Hv. destruct (B Ht); congruence.
Qed.
Print Assumptions restart_repaired_keeps_term_and_vote.
