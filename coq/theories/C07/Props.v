(* C07/Props.v — property-level theorems only. Tags [FULL]/[PARTIAL]/[REFUTED] are read by bin/check. *)
From Coq Require Import List NArith ZArith.
From BLB Require Import Raft.Core C07.A_Proofs.
Import ListNotations.
Open Scope N_scope.

(* [PARTIAL] building block: the durable term is written by no storage mutation other than SaveState *)
Theorem term_written_only_by_save_state :
  forall p m, p_term (apply_mut p m) <> p_term p -> exists v t, m = MSaveState v t.
Proof. exact C07.A_Proofs.term_written_only_by_save_state. Qed.
Print Assumptions term_written_only_by_save_state.
