(* C07/Props.v — property-level theorems only. Part A (core level) below; part B (file level: raftfs state file and
   snapshot manager over CrashFS) appends its theorems to this file.  Tags are read by bin/check. *)
From Coq Require Import List NArith ZArith.
From BLB Require Import Lib.LTS Raft.Core Raft.Wire Raft.Legit Raft.NodeProofs Raft.NodeElect Raft.NodeMono Raft.Election
     Raft.LogMatchLists Raft.LogMatch Raft.LogMatchNodeS Raft.CompletenessCommit Raft.SnapContig Raft.SnapContigSys Raft.SnapSystem
     C07.A_Witness C07.A_Repaired C07.A_Proofs C07.A_Wedge C07.A_NoFatal C07.A_Restart C07.A_Vote C07.A_RestartExample C07.A_FsmMember.
From BLB Require Raft.MemberVotes Raft.MemberRun Raft.MemberSnapSystemU C07.A_VoteC C07.A_NoFatalC.
Import ListNotations.
Open Scope N_scope.

(* [FULL] part A, "does not forget a term or vote it acted on": for every node state, every event and every crash
   point k inside it (crash right after the k-th durable mutation, then newCore on the surviving storage) the restarted
   node's durable term is not below the old one, within the same term a vote that was cast is still the same vote, and
   the crashed handler has sent nothing (the restarted node is a follower with an empty outbox) *)
Theorem crash_keeps_term_and_vote :
  forall s ev k st s',
    run_event_crash s ev k = Ret (true, st, s') ->
    p_term (n_p s) <= p_term (n_p s') /\
    (p_term (n_p s') = p_term (n_p s) -> p_vote (n_p s) <> 0 -> p_vote (n_p s') = p_vote (n_p s)) /\
    n_role s' = Follower /\ n_msgs s' = [].
Proof. exact crash_keeps_term_and_vote_lemma. Qed.
Print Assumptions crash_keeps_term_and_vote.

(* [FULL] part A, regression for the fixed finding F10: the schedule of legitimate events with a crash in handleSnapshot between the snapshot
   Commit and log.Truncate, on which the code used to die with the gap Fatalf, is survived without any Fatalf *)
Theorem f10_schedule_survived :
  legit_schedule f10_witness = true /\
  existsb (fun l => match l with 666%Z :: _ => true | _ => false end) (run_case f10_witness) = false /\
  existsb (fun op => match op with 10%Z :: _ => true | _ => false end) f10_witness = true.
Proof. exact C07.A_Proofs.f10_schedule_survived. Qed.
Print Assumptions f10_schedule_survived.

(* [FULL] part A, and right after that crash the restarted node's commit index is within its storage and the stale log is gone *)
Theorem f10_state_repaired :
  legit_schedule f10_prefix = true /\
  exists c s, final_state f10_prefix = Some c /\ get_node 3 c = Some s /\
              n_commit s <= last_index (n_p s) /\ p_log (n_p s) = [].
Proof. exact C07.A_Proofs.f10_state_repaired. Qed.
Print Assumptions f10_state_repaired.

(* [FULL] part A, newCore (which reconciles log and snapshot first since the fix of F10): from every surviving
   persistent state with a contiguous 1-based log, i.e. after a crash at any point whatsoever, the repaired newCore
   leaves storage in which the snapshot is a prefix of the log *)
Theorem restart_repaired_storage_consistent :
  forall id cfg p s1, log_wf (p_log p) -> new_core_fixed id cfg p = Ret s1 -> storage_ok (n_p s1).
Proof. exact new_core_fixed_consistent. Qed.
Print Assumptions restart_repaired_storage_consistent.

(* [FULL] part A, on storage in which the snapshot is a prefix of the log no AppEnts whose entries start right after
   prevLogIndex, whatever else it carries, can reach the gap Fatalf that F10 dies with *)
Theorem no_gap_fatal_on_consistent_storage :
  forall s from pi pt cm e0 rest,
    storage_ok (n_p s) -> e_index e0 = pi + 1 ->
    handle_app_ents s from pi pt cm (Some (e0 :: rest)) <> Fatal F_GAP.
Proof. exact no_gap_when_consistent. Qed.
Print Assumptions no_gap_fatal_on_consistent_storage.

(* [FULL] part A, the safety half of F10 for the repaired start-up: on the very states F10 produces - a snapshot ahead of a stale
   well-formed log - the repaired newCore drops the log, and a node whose log is empty grants its vote only to a candidate
   whose last term and index are at least those of its snapshot *)
Theorem repaired_restart_votes_respect_snapshot :
  (forall s m li s1, log_wf (p_log (n_p s)) -> n_budget s = 0 -> p_snap (n_p s) = Some m ->
      log_last (p_log (n_p s)) = Some li -> li < sn_index m -> reconcile s = Ret s1 ->
      p_log (n_p s1) = [] /\ p_snap (n_p s1) = Some m) /\
  (forall s m from li lt, p_log (n_p s) = [] -> p_snap (n_p s) = Some m -> sn_index m <> 0 ->
      can_grant_vote s from li lt = Ret true -> sn_term m < lt \/ (lt = sn_term m /\ sn_index m <= li)).
Proof. split; [exact reconcile_drops_stale_log | exact vote_on_empty_log_respects_snapshot]. Qed.
Print Assumptions repaired_restart_votes_respect_snapshot.

(* [FULL] part A, acts_after_persist: for every settled node state and every event, every message the handler emits carries the
   term that is durable when the handler returns and the node's own id, and a granted vote is emitted only with exactly
   that vote durable; messages leave only when the handler returns (TakeAllMsgs), so with crash_keeps_term_and_vote a crashed
   handler has sent nothing and a node never forgets a term or vote it acted on *)
Theorem acts_after_persist :
  forall s ev st s', n_msgs s = [] -> run_event s ev = Ret (st, s') ->
    Forall (fun m => m_term m = p_term (n_p s') /\ m_from m = n_id s' /\
                     (m_body m = VoteResp true -> p_vote (n_p s') = m_to m)) (n_msgs s').
Proof. exact acts_after_persist_lemma. Qed.
Print Assumptions acts_after_persist.

(* [FULL] part A, the repaired start-up keeps the durable term and vote, it only truncates the log *)
Theorem restart_repaired_keeps_term_and_vote :
  forall id cfg p s', new_core_fixed id cfg p = Ret s' ->
    p_term p <= p_term (n_p s') /\ (p_term (n_p s') = p_term p -> p_vote p <> 0 -> p_vote (n_p s') = p_vote p).
Proof. exact restart_repaired_keeps_term_and_vote_lemma. Qed.
Print Assumptions restart_repaired_keeps_term_and_vote.

(* [FULL] part A, each handler equals the ordered list of durable mutations it performs: for every settled node state and every
   event other than Restart, the persistent state at handler return is exactly the replay of the recorded mutations
   SaveState, SetVoteFor, SetGUIDFor, FilterGUIDs, LogAppend, LogTruncate, LogTrim, SnapshotCommit, in order, on the
   persistent state at handler start *)
Theorem handler_equals_its_durable_mutations :
  forall s ev st s', ev <> ERestart -> n_muts s = [] -> run_event s ev = Ret (st, s') ->
    n_p s' = replay (n_p s) (n_muts s').
Proof. exact handler_equals_its_durable_mutations_lemma. Qed.
Print Assumptions handler_equals_its_durable_mutations.

(* [FULL] part A, regression for the fixed finding F23: on the schedule with a lost AppEnts and a delayed negative AppEntsResp the leader's
   nextIndex for the follower stays above its matchIndex *)
Theorem f23_schedule_not_wedged :
  legit_schedule f23_witness = true /\
  exists c nx mt li, final_state f23_witness = Some c /\ leader_view c 1 3 = Some (nx, mt, li) /\ mt < nx.
Proof. exact C07.A_Wedge.f23_schedule_not_wedged. Qed.
Print Assumptions f23_schedule_not_wedged.

(* [FULL] part A, since the fix of F23, for every leader state and every negative AppEntsResp that is not discarded as stale: afterwards the
   peer's nextIndex is above its matchIndex, so the leader never starts probing below what the follower is known to hold *)
Theorem negative_response_keeps_next_above_match :
  forall s from p ix hi s', peer_get from (l_peers s) = Some p -> pr_match p <= ix ->
    handle_app_ents_resp s from false ix hi = Ret s' ->
    exists p', peer_get from (l_peers s') = Some p' /\ pr_match p' < pr_next p'.
Proof. exact C07.A_Wedge.negative_response_keeps_next_above_match. Qed.
Print Assumptions negative_response_keeps_next_above_match.

(* [FULL] part A, why such a state was a dead end before the fix, for every leader state and every peer with nextIndex not above matchIndex: whatever
   the leader builds for that peer is an entry-less probe strictly below matchIndex *)
Theorem wedged_leader_only_probes_below_match :
  forall s p b, wedged p -> get_app_ents s p = Ret (Some b) ->
    exists pt, b = AppEnts (pr_next p - 1) pt (n_commit s) None /\ pr_next p - 1 < pr_match p \/ pr_next p = 0.
Proof. exact wedged_sends_only_low_probes. Qed.
Print Assumptions wedged_leader_only_probes_below_match.

(* [FULL] part A, a follower answers an entry-less AppEnts with Index equal to its prevLogIndex whether it accepts or rejects, and
   the leader discards every answer whose Index is below matchIndex without changing its state at all *)
Theorem answers_below_match_are_discarded :
  (forall s from pi pt cm s', handle_app_ents s from pi pt cm None = Ret s' ->
      exists m, In m (n_msgs s') /\ m_to m = from /\ exists su hi, m_body m = AppEntsResp su pi hi) /\
  (forall s from p su ix hi, peer_get from (l_peers s) = Some p -> ix < pr_match p ->
      handle_app_ents_resp s from su ix hi = Ret s).
Proof. split; [exact probe_answer_index | exact low_answer_discarded]. Qed.
Print Assumptions answers_below_match_are_discarded.

(* ---------------------------------------------------------------- restart over ALL reachable states (uses C02's run-level invariants) *)

(* [FULL] part A, restart_never_fatal. For every schedule of the general system of Raft/Election.v (deliveries of any message ever sent incl. InstallSnapshot to any node any number of times or never, ticks, proposals, AddNode, RemoveNode, SnapshotDone, restarts, a crash after any durable mutation of any event, no side condition on the schedule), for every node s of every reachable state and every store p that can survive at s (its current store, or the store at the crash point k of any event ev whose delivered message is well formed, which every message of the soup is): newCore on p returns a node (no Fatalf, no panic), that node is a follower without leader on a contiguous store whose commit index is its snapshot index, and it handles every message of the rejoin traffic (VoteReq, InstallSnapshot, AppEnts heartbeat, AppEnts with non-empty consecutive entries starting at prevLogIndex plus 1) without reaching any Fatalf, with or without a further crash point *)
Theorem restart_never_fatal :
  forall q σ0 sched σ, cinv σ0 -> run sys sys_event (sstep q) σ0 sched σ ->
  forall s p, In s (sy_nodes σ) -> survivor s p ->
    exists s', new_core (n_id s) (n_cfg s) p = Ret s' /\ fresh s' /\
      forall m k', rejoin_msg m -> nf (fun _ => True) (handle_msg (with_budget (settle s') k') m).
Proof. exact restart_never_fatal_lemma. Qed.
Print Assumptions restart_never_fatal.

(* [FULL] part A, node level behind it: newCore on ANY store with consecutive log indices (starting at 1 when there is no snapshot) never reaches a Fatalf, whatever the relation between snapshot and log *)
Theorem new_core_never_fatal_on_any_crash_store :
  forall id cfg p, pcontig p -> exists s', new_core id cfg p = Ret s' /\ fresh s' /\ n_id s' = id /\ n_cfg s' = cfg.
Proof. exact new_core_never_fatal. Qed.
Print Assumptions new_core_never_fatal_on_any_crash_store.

(* [FULL] part A, node level behind it: a follower without leader on a contiguous store whose snapshot is not ahead of its commit index handles every message of the rejoin traffic without reaching a Fatalf, whatever the message claims (terms, indices, commit index, sender) *)
Theorem rejoin_traffic_never_fatal :
  forall s m, J s -> n_role s = Follower -> n_leader s = 0 -> rejoin_msg m -> nf (fun _ => True) (handle_msg s m).
Proof. exact handle_msg_never_fatal. Qed.
Print Assumptions rejoin_traffic_never_fatal.

(* [FULL] part A, how the leader builds the messages of the rejoin traffic: an AppEnts with entries produced by getAppEnts, in any node state, carries entries with consecutive indices that start at prevLogIndex plus 1 (two of the three conditions rejoin_msg puts on such a message; non-emptiness needs MaximumAppendEntries of at least 1 and matchIndex below the last index and is not proved) *)
Theorem app_ents_entries_start_after_prev :
  forall s p pi pt cm es, get_app_ents s p = Ret (Some (AppEnts pi pt cm (Some es))) -> wf_from (pi + 1) es.
Proof. exact get_app_ents_shape. Qed.
Print Assumptions app_ents_entries_start_after_prev.

(* [FULL] part A, crash_prefix_preserves_persistent_inv, contiguity level, every schedule of the general system: the store at the crash point k of any event has consecutive log indices (pcontig), its term is not lower and a vote cast in the same term is kept (pext); newCore on it returns a node whose store extends it in the same sense, is contiguous with the snapshot, whose commit index is the snapshot index and at most the last index, a follower with an empty outbox *)
Theorem crash_prefix_preserves_persistent_inv :
  forall q σ0 sched σ, cinv σ0 -> run sys sys_event (sstep q) σ0 sched σ ->
  forall s ev k p, In s (sy_nodes σ) -> (forall m, ev = EDeliver m -> In m (sy_soup σ)) ->
    run_event (with_budget (settle s) k) ev = Crashed p ->
    pcontig p /\ pext (n_p s) p /\
    exists s', new_core (n_id s) (n_cfg s) p = Ret s' /\ pext p (n_p s') /\ contig (n_p s') /\
               n_commit s' = match p_snap (n_p s') with Some m => sn_index m | None => 0 end /\
               n_commit s' <= last_index (n_p s') /\ n_role s' = Follower /\ n_msgs s' = [].
Proof. exact crash_prefix_persistent_lemma. Qed.
Print Assumptions crash_prefix_preserves_persistent_inv.

(* [FULL] part A, crash_prefix_preserves_persistent_inv, log level, alphabet sstepS of C02 (fixed membership, snapshots, every step with a crash after any durable mutation followed by newCore): in every state of every run, hence right after every crashed step, every node has a ghost prefix C under which its store has the shape the four clauses of C02 rest on. The logical log C ++ log is index contiguous from 1, the snapshot names one of its positions with that entry's term and is at most the commit index, terms are non-decreasing along the logical log and bounded by the durable term. The four clauses themselves are C02's theorems log_matching_with_snapshots, leader_completeness_with_snapshots, state_machine_safety_with_snapshots, committed_entry_never_truncated_with_snapshots over the same runs *)
Theorem crash_steps_keep_store_shape :
  forall (bm : list nid) (be : N) (σ0 σ : sys) (sched : list sys_event),
    cinit σ0 -> length bm = length (sy_nodes σ0) ->
    run sys sys_event (sstepS bm be (length (sy_nodes σ0))) σ0 sched σ ->
    forall a, In a (sy_nodes σ) -> exists C, store_inv C a.
Proof. exact crash_steps_keep_shape_lemma. Qed.
Print Assumptions crash_steps_keep_store_shape.

(* [FULL] part A, vote_respects_snapshot for arbitrary logs, same alphabet sstepS: in every reachable state a node that holds a snapshot grants its vote (canGrantVote answers true, for any requester and any claimed last index and term) only to a candidate whose last term is above the snapshot's term, or equal to it with a last index at least the snapshot's index *)
Theorem vote_respects_snapshot :
  forall (bm : list nid) (be : N) (σ0 σ : sys) (sched : list sys_event),
    cinit σ0 -> length bm = length (sy_nodes σ0) ->
    run sys sys_event (sstepS bm be (length (sy_nodes σ0))) σ0 sched σ ->
    forall a m from li lt, In a (sy_nodes σ) -> p_snap (n_p a) = Some m ->
      can_grant_vote a from li lt = Ret true ->
      sn_term m < lt \/ (lt = sn_term m /\ sn_index m <= li).
Proof. exact vote_respects_snapshot_lemma. Qed.
Print Assumptions vote_respects_snapshot.

(* [FULL] part A, non-vacuity of the restart theorems: on node 2 of a reachable state (Raft/SnapshotExample.v t13, log 1..2) an InstallSnapshot for index 5 crashes right after the snapshot commit, the surviving store has the snapshot ahead of the stale log (not contiguous, pcontig), newCore returns a fresh node with empty log and commit index 5, and the next AppEnts (prev 5, entry 6) is appended *)
Theorem restart_never_fatal_nonvacuous :
  In xs (sy_nodes Raft.SnapshotExample.t13) /\ contig (n_p xs) /\ mwf xm /\
  run_event (with_budget (settle xs) 1) (EDeliver xm) = Crashed xp /\
  (exists m, p_snap xp = Some m /\ sn_index m = 5 /\ last_index xp = 2) /\
  ~ contig xp /\ pcontig xp /\
  new_core (n_id xs) (n_cfg xs) xp = Ret xs' /\ p_log (n_p xs') = [] /\ n_commit xs' = 5 /\ fresh xs' /\
  rejoin_msg xa /\
  exists s'', handle_msg (settle xs') xa = Ret s'' /\ length (p_log (n_p s'')) = 1%nat /\ last_index (n_p s'') = 6.
Proof. exact restart_nonvacuous. Qed.
Print Assumptions restart_never_fatal_nonvacuous.

(* [FULL] part A, snapshot_metadata_carries_membership, over any number of lives. Model of the three places where the fsm loop touches lastAppliedMembership (an applied configuration entry replaces it, restoreFromSnapshot takes it from the snapshot metadata, a new snapshot's metadata carries it). For every committed sequence L with consecutive indices from 1 and every sequence of lives (restore from the current snapshot if any, apply the next k committed entries for any k, take a snapshot): the metadata of the resulting snapshot carries exactly the membership of the last configuration entry at or below its index. The seeded variant whose restore does not record the membership violates this on a two-life run (A_FsmMember.ex_bad) *)
Theorem snapshot_metadata_carries_membership :
  forall L, wf_from 1 L -> forall m, lives L m ->
    match m with
    | None => True
    | Some m1 => (N.to_nat (sn_index m1) <= length L)%nat /\ sn_conf m1 = conf_upto L (N.to_nat (sn_index m1))
    end.
Proof. exact snapshot_membership_lemma. Qed.
Print Assumptions snapshot_metadata_carries_membership.

(* [FULL] part A, and what a restart reads from it: when the log behind the snapshot is gone, newCore's latest configuration is the membership in the snapshot's metadata; non-vacuity of the lives theorem (two lives, snapshot at 2 then at 4, membership still 1 2 3) *)
Theorem restart_reads_group_from_snapshot :
  (forall p m, p_log p = [] -> p_snap p = Some m -> init_latest_conf p = sn_conf m) /\
  (let m1 := life ex_L None 2 in let m2 := life ex_L (Some m1) 2 in
   lives ex_L (Some m2) /\ sn_index m2 = 4 /\ exists c, sn_conf m2 = Some c /\ mb_members c = [1; 2; 3]).
Proof. split; [exact init_latest_conf_from_snapshot | exact ex_two_lives]. Qed.
Print Assumptions restart_reads_group_from_snapshot.

(* [FULL] part A, crash_steps_keep_store_shape over C02's COMBINED alphabet cstep (membership changes AddNode and RemoveNode together with snapshots, SnapshotDone and InstallSnapshot, every step with a crash after any durable mutation followed by newCore): in every state of every run every node has a ghost prefix C under which its store has the shape of its snapshot (logical log contiguous from 1, snapshot names one of its positions with that entry's term, at most the commit index), the snapshot metadata carries the configuration of the prefix it covers (shapeC), and terms along the logical log are non-decreasing and bounded by the durable term *)
Theorem crash_steps_keep_store_shape_combined :
  forall bm be, NoDup bm ->
  forall a0 a sched, Raft.MemberRun.minitS a0 -> run Raft.MemberVotes.asys sys_event (Raft.MemberSnapSystemU.cstep bm be) a0 sched a ->
    forall x, In x (sy_nodes (fst a)) -> exists C, C07.A_VoteC.store_inv_c C x.
Proof. exact C07.A_VoteC.crash_steps_keep_shape_combined_lemma. Qed.
Print Assumptions crash_steps_keep_store_shape_combined.

(* [FULL] part A, vote_respects_snapshot over the same combined alphabet: in every reachable state a node that holds a snapshot grants its vote only to a candidate whose last term is above the snapshot's term, or equal to it with a last index at least the snapshot's index *)
Theorem vote_respects_snapshot_combined :
  forall bm be, NoDup bm ->
  forall a0 a sched, Raft.MemberRun.minitS a0 -> run Raft.MemberVotes.asys sys_event (Raft.MemberSnapSystemU.cstep bm be) a0 sched a ->
    forall x m from li lt, In x (sy_nodes (fst a)) -> p_snap (n_p x) = Some m ->
      can_grant_vote x from li lt = Ret true ->
      sn_term m < lt \/ (lt = sn_term m /\ sn_index m <= li).
Proof. exact C07.A_VoteC.vote_respects_snapshot_combined_lemma. Qed.
Print Assumptions vote_respects_snapshot_combined.

(* [PARTIAL] part A, no_fatal_on_same_term_leader_message, over the combined alphabet cstep. In every reachable state, when a node X that is Leader faces an AppEnts or InstallSnapshot of its own term in the soup, X is recorded as leader of that term, every node ever recorded as leader of that term is X (election_safety_combined), and the leader-log record of the run invariant that backs the message belongs to X. So such a message never comes from ANOTHER leader. Missing for unreachability of the Fatalf leader-got-append: the soup invariant that the sender of an AppEnts or InstallSnapshot is the owner of its record and never its addressee, which is not a field of MSI, EM or ginvM *)
Theorem no_fatal_on_same_term_leader_message_partial :
  forall bm be, NoDup bm ->
  forall a0 a sched, Raft.MemberRun.minitS a0 -> run Raft.MemberVotes.asys sys_event (Raft.MemberSnapSystemU.cstep bm be) a0 sched a ->
    forall X m, In X (sy_nodes (fst a)) -> n_role X = Leader -> In m (sy_soup (fst a)) -> C07.A_NoFatalC.leader_traffic m ->
      m_term m = p_term (n_p X) ->
      In (m_term m, n_id X) (sy_hist (fst a)) /\
      (forall j, In (m_term m, j) (sy_hist (fst a)) -> j = n_id X) /\
      (exists (G : list Raft.LogMatch.lrec) i l, In (m_term m, i, l) G /\ i = n_id X).
Proof. exact C07.A_NoFatalC.same_term_leader_message_lemma. Qed.
Print Assumptions no_fatal_on_same_term_leader_message_partial.

(* [FULL] part A, no_fatal_on_response_above_term for granted vote responses, over the combined alphabet cstep. In every reachable state a granted VoteResp in the soup carries a term that is at most the durable term of its addressee (it answers a VoteReq of that term which the addressee sent), so HandleMsg never takes the Fatalf branch for a response above the own term on it. For refused VoteResp and for AppEntsResp the corresponding soup invariant is not exported by C02 (e_mterm bounds a message by its sender's term) *)
Theorem no_fatal_on_granted_vote_response_above_term :
  forall bm be, NoDup bm ->
  forall a0 a sched, Raft.MemberRun.minitS a0 -> run Raft.MemberVotes.asys sys_event (Raft.MemberSnapSystemU.cstep bm be) a0 sched a ->
    forall r X, In r (sy_soup (fst a)) -> m_body r = VoteResp true ->
      get_node (m_to r) (sy_nodes (fst a)) = Some X ->
      m_term r <= p_term (n_p X).
Proof. exact C07.A_NoFatalC.granted_vote_response_term_lemma. Qed.
Print Assumptions no_fatal_on_granted_vote_response_above_term.
