(* C07/FileProofsState.v — lemmas for the state-file half of C07 part B (fsState over FileFS). *)
From Coq Require Import List ZArith NArith Bool Lia.
From BLB Require Import C07.FileFS C07.FileModel.
Import ListNotations.

(* ------------------------------------------------------------------ codec *)

Lemma dec_enc_pairs l : dec_pairs (length l) (enc_pairs l) = Some l.
Proof.
  induction l as [|[a b] l IH]; cbn; auto.
  unfold enc_pairs in IH. rewrite IH. reflexivity.
Qed.

Lemma dec_enc_state st : dec_state (enc_state st) = Some st.
Proof.
  destruct st as [v t g seen]. unfold enc_state, dec_state. cbn [app rs_vote rs_term rs_guid rs_seen].
  destruct (Z.of_nat (length seen) <? 0)%Z eqn:E; [apply Z.ltb_lt in E; lia|].
  rewrite Nat2Z.id. rewrite dec_enc_pairs. reflexivity.
Qed.

(* ------------------------------------------------------------------ generic list facts *)

Lemma firstn_app_cases {A} (l1 l2 : list A) r :
  r <= length (l1 ++ l2) ->
  (r <= length l1 /\ firstn r (l1 ++ l2) = firstn r l1) \/
  (exists r', r = length l1 + r' /\ r' <= length l2 /\ firstn r (l1 ++ l2) = l1 ++ firstn r' l2).
Proof.
  intros H. rewrite app_length in H. destruct (Nat.le_gt_cases r (length l1)) as [Hle|Hgt].
  - left. split; auto. rewrite firstn_app. replace (r - length l1) with 0 by lia. cbn. apply app_nil_r.
  - right. exists (r - length l1). repeat split; try lia.
    rewrite firstn_app. rewrite firstn_all2 by lia. reflexivity.
Qed.

Lemma select_nil_r {A} bs : @select A bs [] = [].
Proof. destruct bs as [|[|] bs]; reflexivity. Qed.

Lemma select_single {A} bs (x : A) : select bs [x] = [] \/ select bs [x] = [x].
Proof. destruct bs as [|b bs]; cbn; auto. destruct b; cbn; destruct bs; cbn; auto. Qed.

Lemma Forall_firstn_ {A} (P : A -> Prop) l n : Forall P l -> Forall P (firstn n l).
Proof.
  revert n. induction l as [|a l IH]; intros [|n] H; cbn; auto.
  inversion H; subst. constructor; auto.
Qed.

(* ------------------------------------------------------------------ invariants *)

Definition open_matches (o : option rstate) (r : open_res) : Prop :=
  match o with None => r = OpenFresh | Some st => r = OpenOk st end.

Definition clean_with (s : fs) (i : N) (tok : list Z) : Prop :=
  f_dirty (inodes s i) = false /\ f_cur (inodes s i) = tok.

Definition old_ok (s : fs) (old : option rstate) : Prop :=
  match old with
  | None => lookup NState (dir s) = None
  | Some st => exists i, lookup NState (dir s) = Some i /\ clean_with s i (enc_state st) /\
                         lookup NStateTmp (dir s) <> Some i
  end.

Definition bounded (s : fs) : Prop := forall n i, lookup n (dir s) = Some i -> (i < nexti s)%N.

(* a quiescent directory: nothing pending, the state file (if any) complete and durable; a left-over temporary
   file may be present with any content *)
Definition stable (s : fs) (old : option rstate) : Prop :=
  pend s = [] /\ sdir s = dir s /\ bounded s /\ old_ok s old.

Definition mid (s : fs) (old : option rstate) (j : N) : Prop :=
  stable s old /\ lookup NStateTmp (dir s) = Some j.

Lemma stable_crash s old c : stable s old -> crash_cache s c -> open_matches old (open_state c).
Proof.
  intros (Hp & Hs & _ & Ho) ((bs & Hd) & Hc).
  rewrite Hp in Hd. rewrite select_nil_r in Hd. cbn in Hd. rewrite Hs in Hd.
  unfold open_state. rewrite Hd.
  destruct old as [st|]; unfold old_ok, open_matches in *.
  - destruct Ho as (i & Hl & (Hcl & Hcur) & _). rewrite Hl. rewrite (Hc i Hcl). rewrite Hcur.
    rewrite dec_enc_state. reflexivity.
  - rewrite Ho. reflexivity.
Qed.

Lemma set_inode_same f i x : set_inode f i x i = x.
Proof. unfold set_inode. rewrite N.eqb_refl. reflexivity. Qed.

Lemma set_inode_other f i x j : j <> i -> set_inode f i x j = f j.
Proof. intros H. unfold set_inode. apply N.eqb_neq in H. rewrite H. reflexivity. Qed.

(* changing only the inode of the temporary file keeps a mid state mid *)
Lemma mid_touch s old j x :
  mid s old j ->
  mid (mkFS (set_inode (inodes s) j x) (dir s) (sdir s) (pend s) (nexti s)) old j.
Proof.
  intros ((Hp & Hs & Hb & Ho) & Hj). split; [|exact Hj].
  split; [exact Hp|]. split; [exact Hs|]. split; [exact Hb|].
  destruct old as [st|]; unfold old_ok, open_matches in *; auto.
  destruct Ho as (i & Hl & (Hcl & Hcur) & Hne). exists i. split; auto. split; auto.
  assert (i <> j) by (intro; subst; congruence).
  unfold clean_with. cbn. rewrite set_inode_other by auto. auto.
Qed.

Lemma mid_write s old j d :
  mid s old j ->
  mid (apply_mut s (MWrite NStateTmp d)) old j /\
  f_cur (inodes (apply_mut s (MWrite NStateTmp d)) j) = f_cur (inodes s j) ++ d.
Proof.
  intros H. destruct H as (Hst & Hj) eqn:E. clear E. cbn. rewrite Hj. split.
  - apply mid_touch. exact H.
  - cbn. rewrite set_inode_same. reflexivity.
Qed.

Definition is_tmp_write (m : mut) : Prop := exists d, m = MWrite NStateTmp d.

Lemma mid_writes l s old j :
  Forall is_tmp_write l -> mid s old j -> mid (run l s) old j.
Proof.
  revert s. induction l as [|m l IH]; intros s Hf Hm; cbn; auto.
  inversion Hf as [|? ? (d & ->) Hf']; subst. apply IH; auto. apply mid_write. exact Hm.
Qed.

Lemma state_writes_forall L tok : Forall is_tmp_write (state_writes L tok).
Proof.
  unfold state_writes. apply Forall_app. split.
  - apply Forall_forall. intros x Hx. apply repeat_spec in Hx. subst. eexists; reflexivity.
  - constructor; [eexists; reflexivity|constructor].
Qed.

Lemma run_repeat_empty_writes m s old j :
  mid s old j ->
  f_cur (inodes (run (repeat (MWrite NStateTmp []) m) s) j) = f_cur (inodes s j).
Proof.
  revert s. induction m as [|m IH]; intros s Hm; [reflexivity|].
  change (run (repeat (MWrite NStateTmp []) (S m)) s)
    with (run (repeat (MWrite NStateTmp []) m) (apply_mut s (MWrite NStateTmp []))).
  destruct (mid_write s old j [] Hm) as (Hm' & Hc).
  rewrite (IH _ Hm'). rewrite Hc. apply app_nil_r.
Qed.

Lemma state_writes_content L tok s old j :
  mid s old j ->
  f_cur (inodes (run (state_writes L tok) s) j) = f_cur (inodes s j) ++ tok.
Proof.
  intros Hm. unfold state_writes. rewrite run_app.
  set (s1 := run (repeat (MWrite NStateTmp []) (Init.Nat.pred (nblocks 0 L))) s).
  assert (Hm1 : mid s1 old j).
  { apply mid_writes; auto. apply Forall_forall. intros x Hx. apply repeat_spec in Hx. subst. eexists; reflexivity. }
  cbn [run fold_left].
  destruct (mid_write s1 old j tok Hm1) as (_ & Hc). rewrite Hc.
  unfold s1. rewrite (run_repeat_empty_writes _ _ old j Hm). reflexivity.
Qed.

(* ------------------------------------------------------------------ phase 1: open (create or truncate) + directory fsync *)

Lemma lookup_bound_fresh s n : bounded s -> lookup n (dir s) <> Some (nexti s).
Proof. intros Hb H. apply Hb in H. lia. Qed.

Lemma open_phase s old :
  stable s old ->
  let s1 := apply_mut s (MOpenCT NStateTmp) in
  (forall c, crash_cache s1 c -> open_matches old (open_state c)) /\
  exists j, mid (apply_mut s1 MDirSync) old j /\ f_cur (inodes (apply_mut s1 MDirSync) j) = [].
Proof.
  intros Hst. destruct Hst as (Hp & Hs & Hb & Ho) eqn:E. clear E.
  cbn zeta. cbn [apply_mut].
  destruct (lookup NStateTmp (dir s)) as [j|] eqn:Hj.
  - (* the temporary file exists: truncated in place *)
    destruct (f_cur (inodes s j)) eqn:Hcur.
    + split.
      * intros c Hc. eapply stable_crash; eauto.
      * exists j. split.
        -- split; [|exact Hj]. split; [reflexivity|]. split; [reflexivity|]. split; [exact Hb|exact Ho].
        -- exact Hcur.
    + assert (Hm : mid s old j) by (split; auto).
      pose proof (mid_touch s old j (mkFile [] (f_synced (inodes s j)) true) Hm) as Hm'.
      split.
      * intros c Hc. eapply stable_crash; [apply Hm'|exact Hc].
      * exists j. destruct Hm' as ((Hp' & Hs' & Hb' & Ho') & Hj'). split.
        -- split; [|exact Hj']. split; [reflexivity|]. split; [reflexivity|]. split; [exact Hb'|exact Ho'].
        -- cbn. rewrite set_inode_same. reflexivity.
  - (* created: a new inode, linked by a pending directory operation *)
    set (j := nexti s).
    assert (Hold' : forall d', (d' = dir s \/ d' = bind NStateTmp j (dir s)) ->
                    lookup NState d' = lookup NState (dir s)).
    { intros d' [->| ->]; auto. apply lookup_bind_other. discriminate. }
    split.
    + intros c ((bs & Hd) & Hc). cbn in Hd, Hc.
      rewrite Hp in Hd. cbn in Hd.
      assert (Hdir : c_dir c = dir s \/ c_dir c = bind NStateTmp j (dir s)).
      { destruct (select_single bs (DLink NStateTmp j)) as [Hx|Hx]; rewrite Hx in Hd; cbn in Hd; rewrite Hs in Hd; auto. }
      unfold open_state. rewrite (Hold' _ Hdir).
      destruct old as [st|]; unfold old_ok, open_matches in *.
      * destruct Ho as (i & Hl & (Hcl & Hcur) & _). rewrite Hl.
        assert (i <> j) by (intro; subst i; apply (lookup_bound_fresh s NState Hb); exact Hl).
        specialize (Hc i). rewrite set_inode_other in Hc by auto. rewrite (Hc Hcl), Hcur, dec_enc_state. reflexivity.
      * rewrite Ho. reflexivity.
    + exists j. split.
      * split; [|cbn; first [reflexivity | apply lookup_bind_same]].
        split; [reflexivity|]. split; [reflexivity|]. split.
        -- intros n i Hl. cbn [dir nexti sdir pend inodes] in Hl |- *.
           destruct (name_eq_dec n NStateTmp) as [->|Hn].
           ++ rewrite lookup_bind_same in Hl. inversion Hl. subst. unfold j. lia.
           ++ rewrite lookup_bind_other in Hl by auto. apply Hb in Hl. lia.
        -- destruct old as [st|]; unfold old_ok, open_matches in *.
           ++ cbn [dir inodes].
              destruct Ho as (i & Hl & (Hcl & Hcur) & _).
              assert (i <> j) by (intro; subst i; apply (lookup_bound_fresh s NState Hb); exact Hl).
              exists i. split; [rewrite lookup_bind_other by discriminate; exact Hl|].
              split; [unfold clean_with; cbn; rewrite set_inode_other by auto; auto|].
              rewrite lookup_bind_same. congruence.
           ++ cbn [dir inodes]. rewrite lookup_bind_other by discriminate. exact Ho.
      * cbn. rewrite set_inode_same. reflexivity.
Qed.

(* ------------------------------------------------------------------ phase 3: fsync, rename, directory fsync *)

Lemma fsync_phase s old j :
  mid s old j ->
  mid (apply_mut s (MFsync NStateTmp)) old j /\
  clean_with (apply_mut s (MFsync NStateTmp)) j (f_cur (inodes s j)).
Proof.
  intros Hm. destruct Hm as (Hst & Hj) eqn:E. clear E. cbn. rewrite Hj. split.
  - apply mid_touch. exact Hm.
  - unfold clean_with. cbn. rewrite set_inode_same. auto.
Qed.

Lemma rename_phase s old j st :
  mid s old j -> clean_with s j (enc_state st) ->
  let s1 := apply_mut s (MRename NStateTmp NState) in
  (forall c, crash_cache s1 c -> open_matches old (open_state c) \/ open_state c = OpenOk st) /\
  stable (apply_mut s1 MDirSync) (Some st) /\
  lookup NStateTmp (dir (apply_mut s1 MDirSync)) = None.
Proof.
  intros ((Hp & Hs & Hb & Ho) & Hj) (Hjc & Hjcur). cbn zeta. cbn [apply_mut]. rewrite Hj.
  split; [|split].
  - intros c ((bs & Hd) & Hc). cbn in Hd, Hc. rewrite Hp in Hd. cbn in Hd.
    destruct (select_single bs (DRename NStateTmp NState j)) as [Hx|Hx]; rewrite Hx in Hd; cbn in Hd; rewrite Hs in Hd.
    + left. unfold open_state. rewrite Hd.
      destruct old as [st0|]; unfold old_ok, open_matches in *.
      * destruct Ho as (i & Hl & (Hcl & Hcur) & _). rewrite Hl. rewrite (Hc i Hcl), Hcur, dec_enc_state. reflexivity.
      * rewrite Ho. reflexivity.
    + right. unfold open_state. rewrite Hd. rewrite lookup_bind_same.
      rewrite (Hc j Hjc), Hjcur, dec_enc_state. reflexivity.
  - split; [reflexivity|]. split; [reflexivity|]. split.
    + intros n i Hl. cbn [dir nexti sdir pend inodes] in Hl |- *.
      destruct (name_eq_dec n NState) as [->|Hn].
      * rewrite lookup_bind_same in Hl. inversion Hl; subst. apply (Hb NStateTmp). exact Hj.
      * rewrite lookup_bind_other in Hl by auto.
        destruct (name_eq_dec n NStateTmp) as [->|Hn2].
        -- rewrite lookup_remove_same in Hl. discriminate.
        -- rewrite lookup_remove_other in Hl by auto. apply (Hb n). exact Hl.
    + unfold old_ok. cbn [dir inodes]. exists j. split; [apply lookup_bind_same|]. split; [split; auto|].
      rewrite lookup_bind_other by discriminate. rewrite lookup_remove_same. discriminate.
  - cbn [dir]. rewrite lookup_bind_other by discriminate. apply lookup_remove_same.
Qed.

(* ------------------------------------------------------------------ one complete stateToFile *)

Lemma state_to_file_length st L : length (state_to_file st L) = 2 + (length (state_writes L (enc_state st)) + 3).
Proof. unfold state_to_file. rewrite !app_length. reflexivity. Qed.

Lemma state_to_file_crash s old st L r c :
  stable s old ->
  r <= length (state_to_file st L) ->
  crash_cache (run (firstn r (state_to_file st L)) s) c ->
  (open_matches old (open_state c) \/ open_state c = OpenOk st) /\
  (r = length (state_to_file st L) -> open_state c = OpenOk st).
Proof.
  intros Hst Hr Hc.
  pose proof (open_phase s old Hst) as (Hcrash1 & j & Hmid2 & Hcur2). cbn zeta in *.
  set (s1 := apply_mut s (MOpenCT NStateTmp)) in *.
  set (s2 := apply_mut s1 MDirSync) in *.
  set (W := state_writes L (enc_state st)) in *.
  set (s3 := run W s2).
  assert (Hmid3 : mid s3 old j) by (apply mid_writes; [apply state_writes_forall|exact Hmid2]).
  assert (Hcur3 : f_cur (inodes s3 j) = enc_state st).
  { unfold s3, W. rewrite (state_writes_content _ _ _ old j Hmid2). rewrite Hcur2. reflexivity. }
  destruct (fsync_phase s3 old j Hmid3) as (Hmid4 & Hclean4). rewrite Hcur3 in Hclean4.
  set (s4 := apply_mut s3 (MFsync NStateTmp)) in *.
  pose proof (rename_phase s4 old j st Hmid4 Hclean4) as (Hcrash5 & Hst6 & _). cbn zeta in *.
  set (s5 := apply_mut s4 (MRename NStateTmp NState)) in *.
  set (s6 := apply_mut s5 MDirSync) in *.
  rewrite state_to_file_length in *. fold W in Hr |- *.
  unfold state_to_file in Hc. fold W in Hc.
  change ([MOpenCT NStateTmp; MDirSync] ++ W ++ [MFsync NStateTmp; MRename NStateTmp NState; MDirSync])
    with ([MOpenCT NStateTmp; MDirSync] ++ (W ++ [MFsync NStateTmp; MRename NStateTmp NState; MDirSync])) in Hc.
  destruct (firstn_app_cases [MOpenCT NStateTmp; MDirSync] (W ++ [MFsync NStateTmp; MRename NStateTmp NState; MDirSync]) r)
    as [(Hr1 & E1) | (r' & -> & Hr' & E1)].
  { rewrite !app_length. simpl (length [_; _]). simpl (length [_; _; _]). lia. }
  - (* inside the first two mutations *)
    rewrite E1 in Hc. cbn [length] in Hr1.
    split; [|intros; lia].
    destruct r as [|[|[|r]]]; try lia; cbn in Hc.
    + left. eapply stable_crash; eauto.
    + left. apply Hcrash1. exact Hc.
    + left. eapply stable_crash; [apply Hmid2|exact Hc].
  - rewrite E1 in Hc. rewrite run_app in Hc.
    change (run [MOpenCT NStateTmp; MDirSync] s) with s2 in Hc.
    destruct (firstn_app_cases W [MFsync NStateTmp; MRename NStateTmp NState; MDirSync] r' Hr')
      as [(Hr2 & E2) | (r'' & -> & Hr'' & E2)].
    + (* inside the block writes *)
      rewrite E2 in Hc.
      split.
      * left. eapply stable_crash; [|exact Hc].
        apply (mid_writes (firstn r' W) s2 old j); [apply Forall_firstn_; apply state_writes_forall|exact Hmid2].
      * cbn [length]. intros. lia.
    + rewrite E2 in Hc. rewrite run_app in Hc. fold s3 in Hc. cbn [length] in Hr''.
      destruct r'' as [|[|[|[|r'']]]]; try lia; cbn in Hc.
      * split; [|cbn [length]; intros; lia]. left. eapply stable_crash; [apply Hmid3|exact Hc].
      * split; [|cbn [length]; intros; lia]. left. eapply stable_crash; [apply Hmid4|exact Hc].
      * split; [|cbn [length]; intros; lia]. apply Hcrash5. exact Hc.
      * assert (Hnew : open_state c = OpenOk st) by (apply (stable_crash s6 (Some st) c Hst6 Hc)).
        split; auto.
Qed.

Lemma state_to_file_stable s old st L :
  stable s old -> stable (run (state_to_file st L) s) (Some st).
Proof.
  intros Hst.
  pose proof (open_phase s old Hst) as (_ & j & Hmid2 & Hcur2). cbn zeta in *.
  set (s2 := apply_mut (apply_mut s (MOpenCT NStateTmp)) MDirSync) in *.
  set (W := state_writes L (enc_state st)).
  set (s3 := run W s2).
  assert (Hmid3 : mid s3 old j) by (apply mid_writes; [apply state_writes_forall|exact Hmid2]).
  assert (Hcur3 : f_cur (inodes s3 j) = enc_state st).
  { unfold s3, W. rewrite (state_writes_content _ _ _ old j Hmid2). rewrite Hcur2. reflexivity. }
  destruct (fsync_phase s3 old j Hmid3) as (Hmid4 & Hclean4). rewrite Hcur3 in Hclean4.
  pose proof (rename_phase _ old j st Hmid4 Hclean4) as (_ & Hst6 & _). cbn zeta in *.
  unfold state_to_file. fold W.
  change ([MOpenCT NStateTmp; MDirSync] ++ W ++ [MFsync NStateTmp; MRename NStateTmp NState; MDirSync])
    with ([MOpenCT NStateTmp; MDirSync] ++ (W ++ [MFsync NStateTmp; MRename NStateTmp NState; MDirSync])).
  rewrite !run_app. exact Hst6.
Qed.

(* ------------------------------------------------------------------ whole executions *)

Fixpoint sfold (st : rstate) (ops : list (sop * N)) : rstate :=
  match ops with [] => st | (o, _) :: r => sfold (sop_apply o st) r end.

Fixpoint strace (st : rstate) (ops : list (sop * N)) : list mut :=
  match ops with
  | [] => []
  | (o, L) :: r => state_to_file (sop_apply o st) L ++ strace (sop_apply o st) r
  end.

Lemma strace_stable ops : forall s st, stable s (Some st) -> stable (run (strace st ops) s) (Some (sfold st ops)).
Proof.
  induction ops as [|[o L] ops IH]; intros s st Hst; cbn; auto.
  rewrite run_app. apply IH. eapply state_to_file_stable; eauto.
Qed.

(* all operation sequences, the operation in flight, every crash point inside it, every power-loss state *)
Theorem state_file_atomic_lemma :
  forall s0 st0 ops1 o L r c,
    stable s0 (Some st0) ->
    let st_old := sfold st0 ops1 in
    let st_new := sop_apply o st_old in
    r <= length (state_to_file st_new L) ->
    crash_cache (run (strace st0 ops1 ++ firstn r (state_to_file st_new L)) s0) c ->
    (open_state c = OpenOk st_old \/ open_state c = OpenOk st_new) /\
    (r = length (state_to_file st_new L) -> open_state c = OpenOk st_new).
Proof.
  intros s0 st0 ops1 o L r c Hst st_old st_new Hr Hc.
  rewrite run_app in Hc.
  pose proof (strace_stable ops1 s0 st0 Hst) as Hst1.
  exact (state_to_file_crash _ (Some st_old) st_new L r c Hst1 Hr Hc).
Qed.

(* the very first start: no state file yet; NewFSState writes the initial state with a fresh GUID g *)
Theorem state_file_first_start_lemma :
  forall s0 g L r c,
    stable s0 None ->
    r <= length (state_to_file (fresh_state g) L) ->
    crash_cache (run (firstn r (state_to_file (fresh_state g) L)) s0) c ->
    (open_state c = OpenFresh \/ open_state c = OpenOk (fresh_state g)) /\
    (r = length (state_to_file (fresh_state g) L) -> open_state c = OpenOk (fresh_state g)).
Proof.
  intros s0 g L r c Hst Hr Hc.
  exact (state_to_file_crash s0 None (fresh_state g) L r c Hst Hr Hc).
Qed.

(* what survives a crash is again a quiescent directory holding the old or the new state (possibly with a
   left-over temporary file): so the two theorems above apply again after any number of crashes *)
Lemma recover_stable c old next :
  open_matches old (open_state c) ->
  (forall n i, lookup n (c_dir c) = Some i -> (i < next)%N) ->
  (forall i, lookup NState (c_dir c) = Some i -> lookup NStateTmp (c_dir c) <> Some i) ->
  (forall st, old = Some st -> forall i, lookup NState (c_dir c) = Some i -> c_data c i = enc_state st) ->
  stable (recover c next) old.
Proof.
  intros Hm Hb Hne Hdata. split; [reflexivity|]. split; [reflexivity|]. split; [exact Hb|].
  destruct old as [st|]; unfold old_ok, open_matches in *.
  - unfold open_state in Hm. destruct (lookup NState (c_dir c)) as [i|] eqn:Hl; [|discriminate].
    exists i. split; auto. split; [split; cbn; auto; apply (Hdata st eq_refl i eq_refl)|apply Hne; reflexivity].
  - unfold open_state in Hm. destruct (lookup NState (c_dir c)) as [i|] eqn:Hl; auto.
    destruct (dec_state (c_data c i)); discriminate.
Qed.

Lemma fs_empty_stable : stable fs_empty None.
Proof. split; [reflexivity|]. split; [reflexivity|]. split; [intros n i H; discriminate|reflexivity]. Qed.
