(* C07/A_VoteC.v — part A over C02's COMBINED alphabet (Raft/MemberSnapSystemU.v cstep: membership changes + snapshots,
   every event with a crash after any durable mutation + newCore): the store shape under the ghost prefix and
   "a vote is never granted to a candidate behind the voter's snapshot". Import only; same argument as A_Vote.v /
   A_Restart.v, on the clones (LogMatchNodeSQ.shape, LogMatchM.ginvM) the combined invariant MSI is built from. *)
From Coq Require Import List NArith ZArith Bool Lia.
From BLB Require Import Lib.LTS Raft.Core Raft.Wire Raft.Election Raft.LogMatchLists Raft.LogMatch Raft.LogMatchNodeSQ
     Raft.LogMatchM Raft.CompletenessAckM Raft.CompletenessVoteM Raft.MemberVotes Raft.MemberSafety Raft.MemberRun
     Raft.SnapVirtualQ Raft.MemberSnapNode Raft.MemberSnapSystemU.
Import ListNotations.
Open Scope N_scope.

Lemma vote_respects_snapshot_node_c C s m from li lt :
  shape C (n_p s) (n_commit s) -> tmono (C ++ p_log (n_p s)) ->
  p_snap (n_p s) = Some m ->
  can_grant_vote s from li lt = Ret true ->
  sn_term m < lt \/ (lt = sn_term m /\ sn_index m <= li).
Proof.
  intros Sh Tm Hs. unfold can_grant_vote.
  destruct (negb (p_vote (n_p s) =? 0) && negb (p_vote (n_p s) =? from)); [discriminate|].
  rewrite (last_index_S C (n_p s) (n_commit s) Sh).
  set (L := C ++ p_log (n_p s)) in *.
  destruct (st_term (n_p s) (N.of_nat (length L))) as [[t0 ok] | c | q] eqn:Et; simpl; try discriminate.
  destruct ok; simpl; [| discriminate].
  intro H. inversion H as [Hb]. clear H.
  pose proof Sh as [W Sx]. rewrite Hs in Sx. destruct Sx as [S1 [S2 [S3 [S4 S5]]]]. fold L in S2, S3, W.
  destruct (st_term_S C (n_p s) (n_commit s) Sh _ _ _ Et) as [[_ [_ [_ Ta]]] | [X _]]; [| discriminate].
  fold L in Ta.
  assert (Hge : sn_term m <= t0).
  { destruct S3 as [Z | [e1 [N1 T1]]]; [lia|].
    destruct Ta as [Z | [e2 [N2 T2]]]; [lia|].
    rewrite <- T1, <- T2. apply (Tm (N.to_nat (sn_index m - 1)) (N.to_nat (N.of_nat (length L) - 1)) e1 e2); auto. lia. }
  apply orb_true_iff in Hb. destruct Hb as [Hb | Hb].
  - apply N.ltb_lt in Hb. left. lia.
  - apply andb_true_iff in Hb. destruct Hb as [B1 B2]. apply N.eqb_eq in B1. apply N.leb_le in B2. subst lt.
    destruct (N.eq_dec (sn_term m) t0) as [E | E]; [right; split; [auto | lia] | left; lia].
Qed.

Definition store_inv_c (C : list entry) (s : node) : Prop :=
  shape C (n_p s) (n_commit s) /\ shapeC C (n_p s) /\
  tmono (C ++ p_log (n_p s)) /\ tbound (p_term (n_p s)) (C ++ p_log (n_p s)).

Theorem crash_steps_keep_shape_combined_lemma :
  forall bm be, NoDup bm ->
  forall a0 a sched, minitS a0 -> run asys sys_event (cstep bm be) a0 sched a ->
    forall x, In x (sy_nodes (fst a)) -> exists C, store_inv_c C x.
Proof.
  intros bm be Hnd a0 a sched Hi Hrun x Hx.
  destruct (MSI_run bm be _ _ _ _ _ _ _ _ _ _ (MSI_init bm be Hnd a0 Hi) Hrun) as [Cf [S [G [A [CL [GR [GL [HI _]]]]]]]].
  pose proof (mi_ms _ _ _ _ _ _ _ _ _ _ HI) as M.
  pose proof (k_g _ _ _ _ _ (w_k _ _ _ _ _ _ _ _ (ms_w _ _ _ _ _ _ _ _ M))) as GI. cbn [fst] in GI.
  pose proof (LogMatchM.g_nd _ _ _ _ GI) as Hn.
  pose proof (in_get_node _ _ Hn (vsys_in Cf S _ x Hx)) as Gx.
  destruct (LogMatchM.g_tb_node _ _ _ _ GI _ _ Gx) as [Tb Tm]. simpl in Tb, Tm.
  destruct (MSI_fits bm be _ _ _ _ _ _ _ _ HI x Hx) as [Sh Sc].
  exists (Cf (n_id x)). split; [exact Sh|]. split; [exact Sc|]. split; [exact Tm | exact Tb].
Qed.

Theorem vote_respects_snapshot_combined_lemma :
  forall bm be, NoDup bm ->
  forall a0 a sched, minitS a0 -> run asys sys_event (cstep bm be) a0 sched a ->
    forall x m from li lt, In x (sy_nodes (fst a)) -> p_snap (n_p x) = Some m ->
      can_grant_vote x from li lt = Ret true ->
      sn_term m < lt \/ (lt = sn_term m /\ sn_index m <= li).
Proof.
  intros bm be Hnd a0 a sched Hi Hrun x m from li lt Hx Hs Hg.
  destruct (crash_steps_keep_shape_combined_lemma bm be Hnd a0 a sched Hi Hrun x Hx) as [C [Sh [_ [Tm _]]]].
  eapply vote_respects_snapshot_node_c; eauto.
Qed.
