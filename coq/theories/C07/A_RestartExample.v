(* C07/A_RestartExample.v — non-vacuity for restart_never_fatal / crash_prefix_preserves_persistent_inv: on node 2 of the
   reachable state t13 of Raft/SnapshotExample.v (log = entries 1..2, no snapshot) an InstallSnapshot for index 5 is
   delivered and the process dies right after the snapshot commit (k = 1): the surviving store has a snapshot ahead of
   a stale log (the state F10 was about); newCore returns a node with an empty log and commit index 5; the leader's next
   AppEnts (prev 5, one entry 6) is then appended without any Fatalf. *)
From Coq Require Import List NArith ZArith Bool Lia.
From BLB Require Import Lib.LTS Raft.Core Raft.Wire Raft.Election Raft.ElectionFixed Raft.ElectionExample Raft.LogMatchExample
     Raft.SnapshotExample Raft.LogMatchLists Raft.SnapContig C07.A_NoFatal C07.A_Restart.
Import ListNotations.
Open Scope N_scope.

Definition xs : node := Eval vm_compute in nth 1 (sy_nodes t13) (mk_node 9).
Definition xconf : membership := {| mb_members := [1; 2; 3]; mb_epoch := 5; mb_index := 1; mb_term := 1 |}.
Definition xm : msg :=
  {| m_term := 2; m_from := 1; m_to := 2; m_fromg := 7001; m_tog := 0; m_epoch := 5; m_body := InstallSnap 5 2 xconf |}.
Definition xa : msg :=
  {| m_term := 2; m_from := 1; m_to := 2; m_fromg := 7001; m_tog := 0; m_epoch := 5;
     m_body := AppEnts 5 2 5 (Some [{| e_term := 2; e_index := 6; e_type := 0; e_pl := [7%Z] |}]) |}.

Definition xp : pstate := Eval vm_compute in
  match run_event (with_budget (settle xs) 1) (EDeliver xm) with Crashed p => p | _ => n_p xs end.
Definition xs' : node := Eval vm_compute in
  match new_core (n_id xs) (n_cfg xs) xp with Ret s => s | _ => xs end.

Ltac crunch := vm_compute; repeat split; try reflexivity; try discriminate; try (let H := fresh in intro H; discriminate H).

Example restart_nonvacuous :
  In xs (sy_nodes t13) /\ contig (n_p xs) /\ mwf xm /\
  run_event (with_budget (settle xs) 1) (EDeliver xm) = Crashed xp /\
  (exists m, p_snap xp = Some m /\ sn_index m = 5 /\ last_index xp = 2) /\      (* snapshot ahead of a stale log *)
  ~ contig xp /\ pcontig xp /\
  new_core (n_id xs) (n_cfg xs) xp = Ret xs' /\ p_log (n_p xs') = [] /\ n_commit xs' = 5 /\ fresh xs' /\
  rejoin_msg xa /\
  exists s'', handle_msg (settle xs') xa = Ret s'' /\ length (p_log (n_p s'')) = 1%nat /\ last_index (n_p s'') = 6.
Proof.
  split; [vm_compute; auto|].
  split; [crunch|].
  split; [exact I|].
  split; [vm_compute; reflexivity|].
  split; [eexists; crunch|].
  split; [vm_compute; intros [_ [_ H]]; lia|].
  split; [crunch|].
  split; [vm_compute; reflexivity|].
  split; [vm_compute; reflexivity|].
  split; [vm_compute; reflexivity|].
  split.
  { assert (Q : pcontig xp) by crunch.
    destruct (new_core_never_fatal (n_id xs) (n_cfg xs) xp Q) as [s1 [E [F _]]].
    assert (X : new_core (n_id xs) (n_cfg xs) xp = Ret xs') by (vm_compute; reflexivity).
    rewrite X in E. inversion E. subst. exact F. }
  split; [vm_compute; split; [discriminate | auto]|].
  eexists. split; [vm_compute; reflexivity|]. split; vm_compute; reflexivity.
Qed.
