(* C09/Proofs.v — the property-level statements of C09/Props.v assembled from the Store lemmas,
   plus non-vacuity examples (concrete runs of the model in which each clause's hypotheses hold). *)
From Coq Require Import List NArith ZArith Bool Lia.
From BLB Require Import Gen.Consts Store.Bytes Store.BytesProofs Store.MapProofs Store.Model Store.Proofs Store.WF Store.Conflict Store.Mono
     Store.Steps Store.Monotone Store.Readd Store.FaultModel Store.Faults Store.Crash Store.CrashProofs Store.CrashInv Store.CrashPull C09.Model.
Import ListNotations.

Lemma reachable_wf_lemma : forall m ops, wf (run (init m) ops).
Proof. intros. apply wf_run, wf_init. Qed.

Lemma fence_exact_lemma :
  forall m ops t v,
    let s := run (init m) ops in
    (forall len off,
        ((fst (read s t v len off) = E_OK \/ fst (read s t v len off) = E_EOF) <-> cur_ver s t = Some v) /\
        (cur_ver s t <> Some v -> snd (read s t v len off) = []) /\
        (forall f, cur s t = Some f -> f_ver f = Some v ->
                   snd (read s t v len off) = rle_read (f_data f) off len) /\
        fst (step s (Read t v len off)) = s) /\
    ((fst (fst (stat s t v)) = E_OK <-> cur_ver s t = Some v) /\
     (cur_ver s t <> Some v -> snd (fst (stat s t v)) = 0%N) /\
     (forall f, cur s t = Some f -> f_ver f = Some v -> snd (fst (stat s t v)) = rle_len (f_data f)) /\
     fst (step s (Stat t v)) = s) /\
    (forall d off,
        (snd (do_write s t v d off) = E_OK <-> cur_ver s t = Some v) /\
        (forall f, cur s t = Some f -> f_ver f = Some v ->
                   cur (fst (do_write s t v d off)) t = Some (mkfile (Some v) (rle_write (f_data f) d off))) /\
        (cur_ver s t <> Some v ->
         let s' := fst (do_write s t v d off) in
         s' = bump_stamp s t /\ disks s' = disks s /\ slots s' = slots s /\
         (forall t', cur s' t' = cur s t') /\
         (forall t', t' <> t -> lookup s' t' = lookup s t') /\
         (forall slot st, lookup s t = Some (slot, st) -> lookup s' t = Some (slot, stamp_succ st)))).
Proof.
  intros m ops t v s. split; [|split].
  - intros len off. pose proof (read_fence s t v len off) as H.
    simpl. destruct (read s t v len off) as [e b]. destruct H as (H1 & H2 & H3). simpl.
    repeat split; auto; try tauto. intros f Hc Hv. now destruct (H3 f Hc Hv).
  - pose proof (stat_fence s t v) as H. simpl.
    destruct (stat s t v) as [[e sz] st]. destruct H as (H1 & H2 & H3). simpl. repeat split; auto; tauto.
  - intros d off. pose proof (write_fence s t v d off) as H.
    destruct (do_write s t v d off) as [s' e]. destruct H as (H1 & H2 & H3). simpl.
    split; [exact H1|]. split; [exact H3|]. intros Hne. rewrite (H2 Hne).
    destruct (bump_stamp_effect s t) as (A & B & C & D & E). repeat split; auto.
Qed.

Lemma setversion_guards_lemma :
  forall m ops t v c,
    let s := run (init m) ops in
    let s' := fst (set_version s t v c) in
    let e := fst (snd (set_version s t v c)) in
    ((v <= 1)%Z -> s' = s /\ e = E_BadVersion) /\
    ((1 < v)%Z -> cond_stale s t c = true -> s' = s /\ e = E_StampChanged) /\
    ((1 < v)%Z -> cond_stale s t c = false ->
     match cur s t with
     | None => s' = s /\ is_fail e
     | Some f =>
         match f_ver f with
         | None => s' = s /\ is_fail e
         | Some cv =>
             ((v <= cv)%Z -> s' = s /\ e = E_OK) /\
             (v = (cv + 1)%Z -> e = E_OK /\ cur s' t = Some (mkfile (Some v) (f_data f)) /\
                                (exists pd, s' = put_file s pd t (mkfile (Some v) (f_data f)))) /\
             ((cv + 1 < v)%Z -> s' = s /\ e = E_VersionMismatch)
         end
     end).
Proof.
  intros m ops t v c s. pose proof (set_version_spec s t v c) as H.
  destruct (set_version s t v c) as [s' [e fv]]. exact H.
Qed.

Lemma pull_respects_version_lemma :
  forall m ops t srcs v orc,
    let s := run (init m) ops in
    (forall f c, cur s t = Some f -> f_ver f = Some c -> (v < c)%Z ->
                 fst (pull_tract s t srcs v orc) = s /\
                 (srcs <> [] -> snd (pull_tract s t srcs v orc) = E_InvalidState)) /\
    (snd (pull_tract s t srcs v orc) = E_OK ->
     (srcs = [] /\ fst (pull_tract s t srcs v orc) = s) \/
     exists re data, In (re, data) srcs /\ (re = E_OK \/ re = E_EOF) /\
                     cur (fst (pull_tract s t srcs v orc)) t = Some (mkfile (Some v) (rle_write [] data 0%N))).
Proof.
  intros m ops t srcs v orc s. split.
  - intros f c Hc Hv Hlt. eapply pull_never_overwrites_newer; eauto.
  - unfold pull_tract. destruct (pull_all s t srcs v orc E_OK) as [s' e] eqn:P. simpl. intros ->.
    exact (pull_installs_complete_copy _ _ _ _ _ _ _ P).
Qed.

Lemma version_durable_lemma :
  forall m ops,
    let s := run (init m) ops in
    disks (restart s) = disks s /\
    (forall pd, disks (fst (remove_disk s pd)) = disks s) /\
    (forall pd s2, slot_of s pd <> None ->
                   add_disk (fst (remove_disk s pd)) pd = (s2, E_OK) ->
                   disks s2 = disks s /\ forall t, cur s2 t = cur s t).
Proof.
  intros m ops s. split; [reflexivity|]. split; [intros; apply remove_disk_disks|].
  intros pd s2 HS HA. eapply reattach_preserves; eauto. apply reachable_wf_lemma.
Qed.

Lemma attach_serves_lemma :
  forall m ops pd s',
    let s := run (init m) ops in
    add_disk s pd = (s', E_OK) ->
    (forall t, copy s pd t <> None -> lookup s t = None) ->
    disks s' = disks s /\
    forall t, cur s' t = match copy s pd t with Some f => Some f | None => cur s t end.
Proof. intros m ops pd s' s HA HN. eapply add_disk_no_conflict; eauto. apply reachable_wf_lemma. Qed.

Lemma conflict_keeps_newer_lemma :
  forall m ops pd s' t pd1 f1 f2,
    let s := run (init m) ops in
    add_disk s pd = (s', E_OK) ->
    open_existing s t = Op_ok pd1 f1 -> copy s pd t = Some f2 ->
    pd1 <> pd /\
    match verdict s t pd1 pd with
    | KeepOld => cur s' t = Some f1 /\ copy s' pd t = None /\ copy s' pd1 t = Some f1
    | KeepNew => cur s' t = Some f2 /\ copy s' pd1 t = None /\ copy s' pd t = Some f2
    | DropBoth => lookup s' t = None /\ cur s' t = None /\ copy s' pd1 t = None /\ copy s' pd t = None
    end.
Proof. intros. eapply add_disk_conflict; eauto. apply reachable_wf_lemma. Qed.

Lemma gc_respects_version_lemma :
  forall m ops t v,
    let s := run (init m) ops in
    (forall f c, cur s t = Some f -> f_ver f = Some c ->
                 ((v < c)%Z -> maybe_gc s (t, v) = s) /\
                 ((c <= v)%Z ->
                  let s' := maybe_gc s (t, v) in
                  lookup s' t = None /\ cur s' t = None /\
                  exists pd, copy s pd t = Some f /\ copy s' pd t = None /\
                             forall pd' t', (pd', t') <> (pd, t) -> copy s' pd' t' = copy s pd' t')) /\
    (cur_ver s t = None -> maybe_gc s (t, v) = s) /\
    (forall f, cur s t = Some f -> cur (fst (remove_tract s t)) t = None).
Proof.
  intros m ops t v s. split; [|split].
  - intros f c Hc Hv. destruct (maybe_gc_spec s t v f c Hc Hv) as [Hle Hgt]. split; [exact Hgt|].
    intros L. simpl. rewrite (Hle L).
    destruct (remove_tract_gone s t f Hc) as (A & B & _ & D & _). auto.
  - apply maybe_gc_unreadable.
  - intros f Hc. now destruct (remove_tract_gone s t f Hc) as (_ & B & _).
Qed.

Lemma reachable_inv_lemma : forall m ops, inv (run (init m) ops).
Proof. intros. apply inv_run, inv_init. Qed.

Lemma version_monotone_lemma :
  forall m ops,
    let s := run (init m) ops in
    (forall o pd t, copy_change s o pd t (copy s pd t) (copy (fst (step s o)) pd t)) /\
    (forall o pd t f f',
        copy s pd t = Some f -> copy (fst (step s o)) pd t = Some f' ->
        ver_le f f' /\
        (forall c c', f_ver f = Some c -> f_ver f' = Some c' -> (c < c')%Z ->
           (exists cond, o = SetVersion t c' cond /\ c' = (c + 1)%Z /\ f_data f' = f_data f) \/
           (exists srcs orc re data, o = PullTract t srcs c' orc /\ In (re, data) srcs /\ ok_reply re /\
                                     f' = mkfile (Some c') (rle_write [] data 0%N)))) /\
    versioned s /\
    (forall ops2 pd t f f',
        stored_throughout s ops2 pd t -> copy s pd t = Some f ->
        copy (run s ops2) pd t = Some f' -> ver_le f f') /\
    (forall ops2 t f f',
        served_throughout s ops2 t -> cur s t = Some f ->
        cur (run s ops2) t = Some f' -> ver_le f f').
Proof.
  intros m ops s. destruct (reachable_inv_lemma m ops) as [W V]. fold s in W, V.
  split; [intros; now apply copy_step_cases|].
  split.
  { intros o pd t f f' C C'. split; [eapply copy_step_mono; eauto|].
    intros c c' Hc Hc' Hlt. eapply copy_rise_cases; eauto. }
  split; [exact V|]. split.
  - intros ops2 pd t f f' ST C C'. exact (copy_monotone ops2 s pd t f f' W ST C C').
  - intros ops2 t f f' ST C C'. exact (served_monotone ops2 s t f f' (conj W V) ST C C').
Qed.

Lemma restart_readd_lemma :
  forall m ops l s',
    let s := run (init m) ops in
    NoDup l -> (forall p, In p l <-> attached s p) ->
    adds (restart s) l = Some s' ->
    run s (Restart :: map AddDisk l) = s' /\ disks s' = disks s /\ forall t, cur s' t = cur s t.
Proof.
  intros m ops l s' s ND AT H.
  destruct (restart_readd s (reachable_wf_lemma m ops) l s' ND AT H) as (R & _ & D & V). auto.
Qed.

Lemma failed_install_lemma :
  forall m,
    (forall fops, Forall fop_ok fops -> exists ops, frun (init m) fops = run (init m) ops) /\
    (forall s t d off orc fe, fault_code fe ->
        (reaches_open s t = false /\ create_f s t d off orc (Some fe) = create s t d off orc) \/
        (reaches_open s t = true /\ create_f s t d off orc (Some fe) = (s, fe))) /\
    (forall s t srcs v orc fe, fault_code fe ->
        (exists srcs', pull_tract_f s t srcs v orc (Some fe) = pull_tract s t srcs' v orc /\
                       length srcs' = length srcs /\
                       forall r, In r srcs' -> In r srcs \/ r = (fe, [])) /\
        (snd (pull_tract_f s t srcs v orc (Some fe)) = E_OK ->
         (srcs = [] /\ fst (pull_tract_f s t srcs v orc (Some fe)) = s) \/
         exists re data, In (re, data) srcs /\ ok_reply re /\
                         cur (fst (pull_tract_f s t srcs v orc (Some fe))) t =
                         Some (mkfile (Some v) (rle_write [] data 0%N)))).
Proof.
  intros m. split; [intros; now apply faults_add_nothing|]. split; [intros; now apply create_f_cases|].
  intros s t srcs v orc fe [F NA].
  destruct (pull_tract_f_is_pull s t srcs v orc fe F) as (srcs' & E & L & I).
  split; [exists srcs'; auto|].
  rewrite E. unfold pull_tract. destruct (pull_all s t srcs' v orc E_OK) as [s' e] eqn:P. simpl. intros ->.
  destruct (pull_installs_complete_copy _ _ _ _ _ _ _ P) as [[-> ->]|(re & data & Hin & Hok & Hc)].
  - left. destruct srcs; [auto|discriminate].
  - right. exists re, data. destruct (I _ Hin) as [H|H]; [auto|].
    exfalso. inversion H; subst re. destruct F as [F1 F2]. destruct Hok; contradiction.
Qed.

(* ---------- byte-level meaning of the observables ---------- *)
Definition contents_canon (s : store) : Prop := forall pd t f, copy s pd t = Some f -> canon (f_data f).

Lemma contents_canon_step : forall s o, wf s -> contents_canon s -> contents_canon (fst (step s o)).
Proof.
  intros s o W CC pd t f' H.
  pose proof (copy_step_cases s o pd t W) as X. rewrite H in X.
  destruct (cc_to_some _ _ _ _ _ _ X) as
      [E|[(f & v & d & off & E & _ & _ & ->)|[(f & d & off & orc & E & _ & _ & ->)
       |[(f & v & c & E & _ & _ & ->)|[(d & off & orc & _ & _ & _ & ->)
       |(srcs & v & orc & re & data & _ & _ & _ & _ & ->)]]]]]; simpl.
  - eapply CC; eauto.
  - apply canon_write. eapply CC; eauto.
  - apply canon_write. eapply CC; eauto.
  - eapply CC; eauto.
  - apply canon_write. exact I.
  - apply canon_write. exact I.
Qed.

Lemma contents_canon_run : forall ops s, wf s -> contents_canon s -> contents_canon (run s ops).
Proof.
  induction ops as [|o ops IH]; intros s W C; simpl; [exact C|].
  apply IH; [now apply wf_step|now apply contents_canon_step].
Qed.

Lemma reachable_canon : forall m ops, contents_canon (run (init m) ops).
Proof.
  intros. apply contents_canon_run; [apply wf_init|].
  intros pd t f H. unfold copy, files_of in H. simpl in H. discriminate.
Qed.

Lemma cur_is_copy : forall s t f, cur s t = Some f -> exists pd, copy s pd t = Some f.
Proof. intros s t f H. destruct (cur_some s t f H) as (_ & _ & pd & _ & _ & C). eauto. Qed.

Lemma plain_write_nil_0 : forall b, plain_write [] b 0 = b.
Proof. intros. unfold plain_write. simpl. rewrite skipn_nil. apply app_nil_r. Qed.

Lemma bytes_lemma :
  forall m ops t v f,
    let s := run (init m) ops in
    cur s t = Some f -> f_ver f = Some v ->
    canon (f_data f) /\
    (forall r, canon r -> expand r = expand (f_data f) -> r = f_data f) /\
    (forall len off,
        expand (snd (read s t v len off)) = plain_read (expand (f_data f)) (N.to_nat off) (N.to_nat len) /\
        canon (snd (read s t v len off)) /\
        (fst (read s t v len off) = E_OK <-> (len <= rle_len (f_data f) - off)%N) /\
        (fst (read s t v len off) = E_OK \/ fst (read s t v len off) = E_EOF)) /\
    (N.to_nat (snd (fst (stat s t v))) = length (expand (f_data f))) /\
    (forall d off,
        let s' := fst (do_write s t v d off) in
        snd (do_write s t v d off) = E_OK /\
        exists f', cur s' t = Some f' /\ f_ver f' = Some v /\ canon (f_data f') /\
                   expand (f_data f') = plain_write (expand (f_data f)) (expand d) (N.to_nat off) /\
                   rle_len (f_data f') = N.max (rle_len (f_data f)) (off + rle_len d) /\
                   forall len off',
                     expand (snd (read s' t v len off')) =
                     plain_read (plain_write (expand (f_data f)) (expand d) (N.to_nat off))
                                (N.to_nat off') (N.to_nat len)).
Proof.
  intros m ops t v f s Hc Hv.
  destruct (cur_is_copy s t f Hc) as [pd Cp].
  pose proof (reachable_canon m ops pd t f Cp) as CF. fold s in CF.
  assert (CV : cur_ver s t = Some v) by (unfold cur_ver; now rewrite Hc).
  split; [exact CF|]. split; [intros r Cr E; now apply canon_unique|]. split; [|split].
  - intros len off. pose proof (read_fence s t v len off) as R.
    destruct (read s t v len off) as [e b]. destruct R as (R1 & _ & R3). simpl.
    destruct (R3 f Hc Hv) as [Eb Eok]. subst b.
    split; [apply expand_read|]. split; [apply canon_read|]. split; [|tauto].
    rewrite Eok, rle_len_read. lia.
  - pose proof (stat_fence s t v) as S. destruct (stat s t v) as [[e sz] st]. destruct S as (_ & _ & S3).
    simpl. rewrite (S3 f Hc Hv), length_expand. reflexivity.
  - intros d off. pose proof (write_fence s t v d off) as Wf.
    destruct (do_write s t v d off) as [s' e] eqn:DW. destruct Wf as (W1 & _ & W3). simpl.
    split; [tauto|]. exists (mkfile (Some v) (rle_write (f_data f) d off)).
    pose proof (W3 f Hc Hv) as Hc'. simpl.
    split; [exact Hc'|]. split; [reflexivity|]. split; [now apply canon_write|].
    split; [apply expand_write|]. split; [apply rle_len_write|].
    intros len off'. pose proof (read_fence s' t v len off') as R.
    destruct (read s' t v len off') as [e2 b2]. destruct R as (_ & _ & R3). simpl.
    destruct (R3 _ Hc' eq_refl) as [Eb _]. subst b2. simpl. now rewrite expand_read, expand_write.
Qed.

Lemma install_bytes_lemma :
  forall data d off,
    expand (rle_write [] data 0) = expand data /\ canon (rle_write [] data 0) /\
    rle_write [] data 0 = rle_norm data /\
    expand (rle_write [] d off) = zeros_l (N.to_nat off) ++ expand d.
Proof.
  intros data d off. split; [|split; [|split]].
  - rewrite expand_write. apply plain_write_nil_0.
  - apply canon_write. exact I.
  - apply canon_unique; [apply canon_write; exact I|apply canon_norm|].
    rewrite expand_write, expand_norm. apply plain_write_nil_0.
  - rewrite expand_write. unfold plain_write. simpl.
    rewrite Nat.sub_0_r, firstn_all2 by (unfold zeros_l; rewrite repeat_length; lia).
    rewrite skipn_all2 by (unfold zeros_l; rewrite repeat_length; lia). now rewrite app_nil_r.
Qed.

(* ---------- power loss ---------- *)
Lemma acked_bump_lemma :
  forall m xs f t v cond cs' f' rv pd fl,
    let cs := xrun (cinit m) xs in
    open_existing (vs cs) t = Op_ok pd fl ->
    x_set_version cs f t v cond = (cs', f', (E_OK, rv)) ->
    exists c', (v <= c')%Z /\
      durable_copy cs' pd t = Some (mkfile (Some c') (f_data fl)) /\
      copy (vs cs') pd t = Some (mkfile (Some c') (f_data fl)) /\
      copy (vs (power_loss cs')) pd t = Some (mkfile (Some c') (f_data fl)) /\
      (forall s3, add_disk (vs (power_loss cs')) pd = (s3, E_OK) ->
          cur s3 t = Some (mkfile (Some c') (f_data fl)) /\
          forall v0 d off, v0 <> c' ->
            snd (do_write s3 t v0 d off) <> E_OK /\ disks (fst (do_write s3 t v0 d off)) = disks s3).
Proof.
  intros m xs f t v cond cs' f' rv pd fl cs HO H.
  destruct (acked_bump_synced cs f t v cond cs' f' rv pd fl HO H) as (DN & c' & C & L & _).
  exists c'. split; [exact L|]. split; [unfold durable_copy; now rewrite DN|]. split; [exact C|].
  pose proof (power_loss_keeps_synced cs' pd t DN) as PL. rewrite C in PL.
  split; [exact PL|]. intros s3 HA.
  assert (W : wf (vs (power_loss cs'))) by apply wf_restart.
  assert (HN : forall t0, copy (vs (power_loss cs')) pd t0 <> None -> lookup (vs (power_loss cs')) t0 = None)
    by (intros; reflexivity).
  destruct (add_disk_no_conflict _ pd s3 W HA HN) as [_ CU].
  assert (Cu : cur s3 t = Some (mkfile (Some c') (f_data fl))) by (rewrite CU, PL; reflexivity).
  split; [exact Cu|]. intros v0 d off Hne.
  pose proof (write_fence s3 t v0 d off) as WF. destruct (do_write s3 t v0 d off) as [s4 e].
  destruct WF as (W1 & W2 & _). simpl.
  assert (CV : cur_ver s3 t <> Some v0) by (unfold cur_ver; rewrite Cu; simpl; congruence).
  split; [intros X; apply CV; now apply W1|]. rewrite (W2 CV). apply bump_stamp_disks.
Qed.

Lemma reachable_cinv : forall m xs, cinv (xrun (cinit m) xs).
Proof. intros. apply cinv_xrun, cinv_init. Qed.

Lemma durable_version_monotone_lemma :
  forall m xs0,
    let cs := xrun (cinit m) xs0 in
    cinv cs /\
    (forall pd t g, durable_copy cs pd t = Some g -> exists f, copy (vs cs) pd t = Some f /\ ver_le g f) /\
    (forall x pd t g g', xop_ok_for t x -> durable_copy cs pd t = Some g ->
                         durable_copy (xstep cs x) pd t = Some g' -> ver_le g g') /\
    (forall xs pd t g g', Forall (xop_ok_for t) xs ->
                          xstays (fun c => durable_copy c pd t <> None) cs xs ->
                          durable_copy cs pd t = Some g -> durable_copy (xrun cs xs) pd t = Some g' ->
                          ver_le g g') /\
    (forall pd t, copy (vs (power_loss cs)) pd t = durable_copy cs pd t).
Proof.
  intros m xs0 cs. pose proof (reachable_cinv m xs0) as I. fold cs in I.
  split; [exact I|]. split; [intros; eapply durable_le_visible; eauto; apply I|].
  split; [intros; eapply x_durable_monotone_for; eauto|].
  split; [intros; eapply durable_monotone_run_for; eauto|].
  intros. apply power_loss_visible. apply I.
Qed.

Lemma acked_later_lemma :
  forall m xs0 f t v cond cs' f' rv pd fl xs g',
    let cs := xrun (cinit m) xs0 in
    open_existing (vs cs) t = Op_ok pd fl ->
    x_set_version cs f t v cond = (cs', f', (E_OK, rv)) ->
    Forall (xop_ok_for t) xs ->
    xstays (fun c => durable_copy c pd t <> None) cs' xs ->
    durable_copy (xrun cs' xs) pd t = Some g' ->
    (exists c, f_ver g' = Some c /\ (v <= c)%Z) /\
    copy (vs (power_loss (xrun cs' xs))) pd t = Some g'.
Proof.
  intros m xs0 f t v cond cs' f' rv pd fl xs g' cs HO H OK ST Dg'.
  pose proof (reachable_cinv m xs0) as I. fold cs in I.
  destruct (acked_bump_synced cs f t v cond cs' f' rv pd fl HO H) as (DN & c' & C & L & _).
  assert (I' : cinv cs').
  { pose proof (good_x_set_version cs f t v cond I) as [X _]. rewrite H in X. exact X. }
  assert (D0 : durable_copy cs' pd t = Some (mkfile (Some c') (f_data fl)))
    by (unfold durable_copy; now rewrite DN).
  pose proof (durable_monotone_run_for xs cs' pd t _ g' I' OK ST D0 Dg') as VL.
  destruct (VL c' eq_refl) as (c & Hc & Lc). split; [exists c; split; [exact Hc|lia]|].
  rewrite power_loss_visible; [exact Dg'|]. apply (cinv_xrun xs cs' I').
Qed.

Lemma faulted_ops_lemma :
  forall m xs0 f o,
    let cs := xrun (cinit m) xs0 in
    wf (vs cs) /\ wf (vs (fst (x_step cs f o))) /\
    (is_pull o = false ->
     forall pd t fl fl', copy (vs cs) pd t = Some fl -> copy (vs (fst (x_step cs f o))) pd t = Some fl' ->
                         ver_le fl fl').
Proof.
  intros m xs0 f o cs. pose proof (reachable_cinv m xs0) as I. fold cs in I.
  split; [apply I|]. split; [apply (cinv_xstep cs (XOp f o) I)|].
  intros NP pd t fl fl'. now apply x_visible_monotone.
Qed.

Lemma faulted_pull_lemma :
  forall m xs0 f t srcs v orc,
    let cs := xrun (cinit m) xs0 in
    (pre_ok cs f t srcs v orc ->
     forall pd t0,
       let cs' := fst (x_step cs f (PullTract t srcs v orc)) in
       (forall fl fl', copy (vs cs) pd t0 = Some fl -> copy (vs cs') pd t0 = Some fl' -> ver_le fl fl') /\
       (forall g g', durable_copy cs pd t0 = Some g -> durable_copy cs' pd t0 = Some g' -> ver_le g g')) /\
    (forall r pd fl c,
        precheck_err cs f t = false ->
        open_existing (vs cs) t = Op_ok pd fl -> f_ver fl = Some c -> (v < c)%Z ->
        x_pull_once cs f t r v orc = (d_clear cs pd t, snd (tick (snd (tick f))), E_InvalidState)).
Proof.
  intros m xs0 f t srcs v orc cs. pose proof (reachable_cinv m xs0) as I. fold cs in I. split.
  - intros PO pd t0. now apply faulted_pull_refuses_newer.
  - intros. eapply faulted_pull_newer_refused; eauto.
Qed.

Lemma named_events_lemma :
  forall m xs0 f o pd t,
    let cs := xrun (cinit m) xs0 in
    (x_ok cs f o ->
     let cs' := fst (x_step cs f o) in
     (forall fl fl', copy (vs cs) pd t = Some fl -> copy (vs cs') pd t = Some fl' -> ver_le fl fl') /\
     (forall g g', durable_copy cs pd t = Some g -> durable_copy cs' pd t = Some g' -> ver_le g g')) /\
    durable_copy (power_loss cs) pd t = durable_copy cs pd t /\
    copy (vs (power_loss cs)) pd t = durable_copy cs pd t.
Proof.
  intros m xs0 f o pd t cs. pose proof (reachable_cinv m xs0) as I. fold cs in I.
  split; [intros OK; now apply versions_only_lowered_by_named_events|].
  split; [apply durable_power_loss; apply I|apply power_loss_visible; apply I].
Qed.

(* ---------- non-vacuity: concrete histories in which the clauses' hypotheses hold ---------- *)
Open Scope N_scope.
Definition d5 : rle := [(3, 5)].
Definition d7 : rle := [(2, 7)].
(* two disks; tract 0 created (on slot 0), bumped to version 2 *)
Definition h1 : list op := [AddDisk 0; AddDisk 1; Create 0 d5 0 0; SetVersion 0 2%Z None].

Example ex_fence_current : read (run (init false) h1) 0 2%Z 3 0 = (E_OK, d5).
Proof. vm_compute. reflexivity. Qed.
Example ex_fence_stale : read (run (init false) h1) 0 1%Z 3 0 = (E_VersionMismatch, []).
Proof. vm_compute. reflexivity. Qed.
Example ex_fence_future : snd (do_write (run (init false) h1) 0 3%Z d7 0) = E_VersionMismatch.
Proof. vm_compute. reflexivity. Qed.
Example ex_rejected_write_bumps_stamp :
  lookup (fst (do_write (run (init false) h1) 0 1%Z d7 0)) 0 = Some (0, (1, 1)) /\
  lookup (run (init false) h1) 0 = Some (0, (1, 0)).
Proof. vm_compute. auto. Qed.
Example ex_setversion_skip : fst (snd (set_version (run (init false) h1) 0 4%Z None)) = E_VersionMismatch.
Proof. vm_compute. reflexivity. Qed.
Example ex_setversion_idempotent : set_version (run (init false) h1) 0 2%Z None = (run (init false) h1, (E_OK, 2%Z)).
Proof. vm_compute. reflexivity. Qed.
Example ex_pull_onto_newer :
  pull_tract (run (init false) h1) 0 [(E_OK, d7)] 1%Z 0 = (run (init false) h1, E_InvalidState).
Proof. vm_compute. reflexivity. Qed.
Example ex_pull_installs :
  cur (fst (pull_tract (run (init false) h1) 0 [(st_NoSpace, []); (E_EOF, d7)] 3%Z 1)) 0 = Some (mkfile (Some 3%Z) d7).
Proof. vm_compute. reflexivity. Qed.

(* conflict: tract 0 at version 2 on disk 0; disk 0 removed; tract 0 created again on disk 1 (version 1);
   disk 0 comes back: the newer copy (disk 0) wins, the copy on disk 1 is deleted *)
Definition h2 : list op := h1 ++ [RemoveDisk 0; Create 0 d7 0 1].
Example ex_conflict_newer_wins :
  let s := run (init false) h2 in
  open_existing s 0 = Op_ok 1 (mkfile (Some 1%Z) d7) /\ copy s 0 0 = Some (mkfile (Some 2%Z) d5) /\
  verdict s 0 1 0 = KeepNew /\
  cur (fst (add_disk s 0)) 0 = Some (mkfile (Some 2%Z) d5) /\ copy (fst (add_disk s 0)) 1 0 = None.
Proof. vm_compute. auto. Qed.
(* equal versions: both dropped *)
Definition h3 : list op := h2 ++ [SetVersion 0 2%Z None].
Example ex_conflict_tie :
  let s := run (init false) h3 in
  verdict s 0 1 0 = DropBoth /\
  lookup (fst (add_disk s 0)) 0 = None /\ copy (fst (add_disk s 0)) 0 0 = None /\ copy (fst (add_disk s 0)) 1 0 = None.
Proof. vm_compute. auto. Qed.
(* restart + re-attach keeps version and content *)
Example ex_restart_durable :
  cur (run (init true) (h1 ++ [Restart; AddDisk 1; AddDisk 0])) 0 = cur (run (init true) h1) 0 /\
  cur (run (init true) h1) 0 = Some (mkfile (Some 2%Z) d5).
Proof. vm_compute. auto. Qed.
Example ex_gc :
  cur (gc_tracts (run (init false) h1) [(0, 1%Z)] []) 0 = Some (mkfile (Some 2%Z) d5) /\
  cur (gc_tracts (run (init false) h1) [(0, 2%Z)] []) 0 = None /\
  cur (gc_tracts (run (init false) h1) [] [0]) 0 = None.
Proof. vm_compute. auto. Qed.

(* ---------- non-vacuity for version_monotone / restart_readd_restores_view ---------- *)
(* tract 0 stays served while it is bumped, re-pulled from the second of two sources onto the OTHER disk
   (first source fails after the local copy is already deleted), written, bumped again: 2 -> 3 -> 3 -> 4 *)
Definition h4 : list op :=
  [SetVersion 0 3%Z None; PullTract 0 [(st_NoSpace, []); (E_EOF, d7)] 3%Z 1; Write 0 3%Z d5 1;
   SetVersion 0 4%Z None; GCTracts [(0, 3%Z)] []; Check [(0, 9%Z)]].
Example ex_served_throughout :
  let s := run (init false) h1 in
  served_throughout s h4 0 /\
  cur_ver s 0 = Some 2%Z /\ cur_ver (run s h4) 0 = Some 4%Z /\
  (* the copy moved from disk 0 to disk 1 inside the PullTract *)
  copy s 0 0 <> None /\ copy (run s h4) 0 0 = None /\ copy (run s h4) 1 0 <> None.
Proof. vm_compute. repeat split; discriminate. Qed.
Example ex_stored_throughout :
  stored_throughout (run (init false) h1) [SetVersion 0 3%Z None; Write 0 3%Z d7 0; Restart; AddDisk 1; AddDisk 0] 0 0.
Proof. vm_compute. repeat split; discriminate. Qed.
(* the three ways a copy stops existing *)
Example ex_stop_gc :
  copy (run (init false) h1) 0 0 <> None /\ copy (fst (step (run (init false) h1) (GCTracts [(0, 2%Z)] []))) 0 0 = None.
Proof. vm_compute. split; [discriminate|reflexivity]. Qed.
Example ex_stop_pull :
  copy (fst (step (run (init false) h1) (PullTract 0 [(st_NoSpace, [])] 2%Z 0))) 0 0 = None.
Proof. vm_compute. reflexivity. Qed.
Example ex_stop_conflict :
  copy (run (init false) h2) 1 0 <> None /\ copy (fst (step (run (init false) h2) (AddDisk 0))) 1 0 = None.
Proof. vm_compute. split; [discriminate|reflexivity]. Qed.
(* restart, then the two disks in the other order *)
Definition h5 : list op := h1 ++ [Create 1 d7 0 1; SetVersion 1 2%Z None].
Example ex_readd :
  let s := run (init true) h5 in
  exists s', adds (restart s) [1; 0] = Some s' /\
             cur s' 0 = cur s 0 /\ cur s' 1 = cur s 1 /\ cur s 0 <> None /\ cur s 1 <> None /\
             attached s 0 /\ attached s 1.
Proof.
  eexists. split; [vm_compute; reflexivity|]. vm_compute.
  repeat split; try discriminate; [exists 0%N|exists 1%N]; reflexivity.
Qed.

(* ---------- non-vacuity for failed_install_leaves_nothing ---------- *)
(* tract 1 is not served and a disk can allocate: the faulted Create is consumed and changes nothing;
   a faulted two-source PullTract of tract 0 at version 3: the first source's doCreate is hit (the local
   copy at version 2 is already deleted), the second source installs the complete copy *)
Example ex_fault_create :
  let s := run (init false) h1 in
  reaches_open s 1 = true /\ create_f s 1 d5 0 0 (Some st_NoSpace) = (s, st_NoSpace).
Proof. vm_compute. auto. Qed.
Example ex_fault_pull :
  let s := run (init false) h1 in
  pull_tract_f s 0 [(E_OK, d5); (E_OK, d7)] 3%Z 1 (Some st_NoSpace) =
  pull_tract s 0 [(st_NoSpace, []); (E_OK, d7)] 3%Z 1 /\
  cur (fst (pull_tract_f s 0 [(E_OK, d5); (E_OK, d7)] 3%Z 1 (Some st_NoSpace))) 0 = Some (mkfile (Some 3%Z) d7) /\
  cur (fst (pull_tract_f s 0 [(E_OK, d5)] 3%Z 1 (Some st_NoSpace))) 0 = None.
Proof. vm_compute. auto. Qed.

(* ---------- non-vacuity for the byte-level theorems ---------- *)
Example ex_bytes :
  expand (rle_write [(3, 5)] [(2, 7)] 5) = [5; 5; 5; 0; 0; 7; 7]%N /\
  rle_write [(3, 5)] [(2, 7)] 5 = [(3, 5); (2, 0); (2, 7)]%N /\
  expand (rle_read [(3, 5); (2, 0); (2, 7)] 2 4) = [5; 0; 0; 7]%N /\
  plain_write [5; 5; 5]%N [7; 7]%N 5 = [5; 5; 5; 0; 0; 7; 7]%N.
Proof. vm_compute. auto. Qed.

(* ---------- non-vacuity for the power-loss theorems ---------- *)
(* tract 0 at version 2 on disk 0 (h1).  A bump to 3 whose Close (3rd faultable call: Open, Setxattr, Close)
   fails is NOT acknowledged and a power loss takes it back; the same bump without fault is acknowledged and
   survives the power loss. *)
Example ex_power_loss :
  let cs := xrun (cinit false) (map (XOp None) h1) in
  (let '(cs1, r1) := x_step cs (Some 2%nat) (SetVersion 0 3%Z None) in
   r1 = RSetV E_IO 3%Z /\ cur_ver (vs cs1) 0 = Some 3%Z /\
   copy (vs (power_loss cs1)) 0 0 = Some (mkfile (Some 2%Z) d5)) /\
  (let '(cs2, r2) := x_step cs None (SetVersion 0 3%Z None) in
   r2 = RSetV E_OK 3%Z /\ copy (vs (power_loss cs2)) 0 0 = Some (mkfile (Some 3%Z) d5)).
Proof. vm_compute. auto. Qed.

(* ---------- non-vacuity: later histories ---------- *)
(* after the acknowledged bump to 3: a write whose Close fails, a read (its successful Close syncs the written bytes),
   a bump attempt to 4 whose Close fails (visible 4, durable 3), a pull of ANOTHER tract, then the power fails: the copy comes back at version 3 >= 3 *)
Example ex_later_history :
  let cs := xrun (cinit false) (map (XOp None) h1) in
  let cs' := fst (x_step cs None (SetVersion 0 3%Z None)) in
  let xs := [XOp (Some 2%nat) (Write 0 3%Z d7 0); XOp None (Read 0 3%Z 1 0);
             XOp (Some 2%nat) (SetVersion 0 4%Z None); XOp (Some 1%nat) (PullTract 1 [(E_OK, d7)] 5%Z 1)] in
  Forall (xop_ok_for 0) xs /\
  xstays (fun c => durable_copy c 0 0 <> None) cs' xs /\
  cur_ver (vs (xrun cs' xs)) 0 = Some 4%Z /\
  (exists g, durable_copy (xrun cs' xs) 0 0 = Some g /\ f_ver g = Some 3%Z) /\
  (exists g, copy (vs (power_loss (xrun cs' xs))) 0 0 = Some g /\ f_ver g = Some 3%Z).
Proof.
  vm_compute. repeat split; try discriminate; try (repeat constructor; discriminate); eauto.
Qed.

(* ---------- non-vacuity: faulted pulls ---------- *)
(* tract 0 at version 2 (h1).  A stale PullTract at version 1:
   - fault on the 3rd call or none: the pre-check (Open, Close) succeeds -> pre_ok, refused, version stays 2;
   - fault on the 1st call (the pre-check Open): the named event - the newer copy is replaced, version 1 *)
Example ex_faulted_pull :
  let cs := xrun (cinit false) (map (XOp None) h1) in
  pre_ok cs (Some 2%nat) 0 [(E_OK, d7)] 1%Z 1 /\
  snd (x_step cs (Some 2%nat) (PullTract 0 [(E_OK, d7)] 1%Z 1)) = RErr E_InvalidState /\
  cur_ver (vs (fst (x_step cs (Some 2%nat) (PullTract 0 [(E_OK, d7)] 1%Z 1)))) 0 = Some 2%Z /\
  precheck_err cs (Some 0%nat) 0 = true /\
  cur_ver (vs (fst (x_step cs (Some 0%nat) (PullTract 0 [(E_OK, d7)] 1%Z 1)))) 0 = Some 1%Z.
Proof. vm_compute. auto. Qed.
(* an up-to-date pull with a fault inside the install of the first source: second source installs at 3 *)
Example ex_faulted_pull_up :
  let cs := xrun (cinit false) (map (XOp None) h1) in
  pre_ok cs (Some 4%nat) 0 [(E_OK, d5); (E_OK, d7)] 3%Z 1 /\
  cur (vs (fst (x_step cs (Some 4%nat) (PullTract 0 [(E_OK, d5); (E_OK, d7)] 3%Z 1)))) 0 = Some (mkfile (Some 3%Z) d7).
Proof. vm_compute. auto. Qed.
