(* C09/Props.v — property-level theorems only (statements + `exact`), each followed by Print Assumptions. *)
From Coq Require Import List NArith ZArith Bool.
From BLB Require Import Store.Bytes Store.Model.
Import ListNotations.

(* [PARTIAL] placeholder while the development is being built: a restart never touches stored files *)
Theorem restart_keeps_files : forall s, disks (restart s) = disks s.
Proof. reflexivity. Qed.
Print Assumptions restart_keeps_files.
