(* C09/Props.v — property-level theorems only (statements + `exact`), each followed by Print Assumptions.
   Every theorem quantifies over ALL operation sequences [ops] (any mix of Create, Write, Read, Stat,
   SetVersion, PullTract, GCTracts, Check, Restart, AddDisk, RemoveDisk, SetAlloc with arbitrary
   arguments and arbitrary oracle/remote inputs) from the empty store over either disk kind [m], and
   then over the arguments of the call being judged in the reached state. *)
From Coq Require Import List NArith ZArith Bool.
From BLB Require Import Store.Bytes Store.BytesProofs Store.Model Store.Proofs Store.WF Store.Conflict Store.Mono
     Store.Steps Store.Monotone Store.Readd Store.FaultModel Store.Faults Store.Crash Store.CrashProofs Store.CrashInv Store.CrashPull C09.Model C09.Proofs.
Import ListNotations.

(* [FULL] Read succeeds (NoError or EOF) iff the named version is the served copy's version and then returns exactly the stored bytes of the range, otherwise returns no bytes; Stat succeeds iff the version is current and then returns the stored size, otherwise 0; reads and stats never change the state; Write succeeds iff the version is current and then the served copy is the old content overwritten at the offset with the same version, otherwise the state is unchanged except that the named tract's mod stamp IS bumped, files and disk table untouched *)
Theorem fence_exact :
  forall m ops t v,
    let s := run (init m) ops in
    (forall len off,
        ((fst (read s t v len off) = E_OK \/ fst (read s t v len off) = E_EOF) <-> cur_ver s t = Some v) /\
        (cur_ver s t <> Some v -> snd (read s t v len off) = []) /\
        (forall f, cur s t = Some f -> f_ver f = Some v ->
                   snd (read s t v len off) = rle_read (f_data f) off len) /\
        fst (step s (Read t v len off)) = s) /\
    ((fst (fst (stat s t v)) = E_OK <-> cur_ver s t = Some v) /\
     (cur_ver s t <> Some v -> snd (fst (stat s t v)) = 0%N) /\
     (forall f, cur s t = Some f -> f_ver f = Some v -> snd (fst (stat s t v)) = rle_len (f_data f)) /\
     fst (step s (Stat t v)) = s) /\
    (forall d off,
        (snd (do_write s t v d off) = E_OK <-> cur_ver s t = Some v) /\
        (forall f, cur s t = Some f -> f_ver f = Some v ->
                   cur (fst (do_write s t v d off)) t = Some (mkfile (Some v) (rle_write (f_data f) d off))) /\
        (cur_ver s t <> Some v ->
         let s' := fst (do_write s t v d off) in
         s' = bump_stamp s t /\ disks s' = disks s /\ slots s' = slots s /\
         (forall t', cur s' t' = cur s t') /\
         (forall t', t' <> t -> lookup s' t' = lookup s t') /\
         (forall slot st, lookup s t = Some (slot, st) -> lookup s' t = Some (slot, stamp_succ st)))).
Proof. exact fence_exact_lemma. Qed.
Print Assumptions fence_exact.

(* [FULL] SetVersion: a version at most 1 is refused with ErrBadVersion before anything is looked at; a conditional call whose stamp is not the tract's current stamp is refused with ErrStampChanged; otherwise with current version c: v at most c is acknowledged and changes nothing (idempotent), v equal to c+1 sets exactly the version and leaves the content, v above c+1 is refused with ErrVersionMismatch; every refusal leaves the whole state unchanged *)
Theorem setversion_guards :
  forall m ops t v c,
    let s := run (init m) ops in
    let s' := fst (set_version s t v c) in
    let e := fst (snd (set_version s t v c)) in
    ((v <= 1)%Z -> s' = s /\ e = E_BadVersion) /\
    ((1 < v)%Z -> cond_stale s t c = true -> s' = s /\ e = E_StampChanged) /\
    ((1 < v)%Z -> cond_stale s t c = false ->
     match cur s t with
     | None => s' = s /\ is_fail e
     | Some f =>
         match f_ver f with
         | None => s' = s /\ is_fail e
         | Some cv =>
             ((v <= cv)%Z -> s' = s /\ e = E_OK) /\
             (v = (cv + 1)%Z -> e = E_OK /\ cur s' t = Some (mkfile (Some v) (f_data f)) /\
                                (exists pd, s' = put_file s pd t (mkfile (Some v) (f_data f)))) /\
             ((cv + 1 < v)%Z -> s' = s /\ e = E_VersionMismatch)
         end
     end).
Proof. exact setversion_guards_lemma. Qed.
Print Assumptions setversion_guards.

(* [FULL] PullTract at a version below the served copy's version changes nothing whatever the sources answer, and fails with ErrInvalidState when at least one source is named; a PullTract that succeeds with at least one source serves afterwards exactly the bytes one of its sources answered with NoError or EOF, complete from offset 0, at exactly the requested version *)
Theorem pull_respects_version :
  forall m ops t srcs v orc,
    let s := run (init m) ops in
    (forall f c, cur s t = Some f -> f_ver f = Some c -> (v < c)%Z ->
                 fst (pull_tract s t srcs v orc) = s /\
                 (srcs <> [] -> snd (pull_tract s t srcs v orc) = E_InvalidState)) /\
    (snd (pull_tract s t srcs v orc) = E_OK ->
     (srcs = [] /\ fst (pull_tract s t srcs v orc) = s) \/
     exists re data, In (re, data) srcs /\ (re = E_OK \/ re = E_EOF) /\
                     cur (fst (pull_tract s t srcs v orc)) t = Some (mkfile (Some v) (rle_write [] data 0%N))).
Proof. exact pull_respects_version_lemma. Qed.
Print Assumptions pull_respects_version.

(* [FULL] durability: a restart and a RemoveDisk leave every file of every disk as it is; removing an attached disk and attaching it again (when AddDisk succeeds) leaves every file as it is and the server serves every tract with the same version and content as before *)
Theorem version_durable :
  forall m ops,
    let s := run (init m) ops in
    disks (restart s) = disks s /\
    (forall pd, disks (fst (remove_disk s pd)) = disks s) /\
    (forall pd s2, slot_of s pd <> None ->
                   add_disk (fst (remove_disk s pd)) pd = (s2, E_OK) ->
                   disks s2 = disks s /\ forall t, cur s2 t = cur s t).
Proof. exact version_durable_lemma. Qed.
Print Assumptions version_durable.

(* [FULL] durability across a restart: attaching to a freshly restarted store a disk none of whose tracts is served yet deletes nothing and serves every copy on that disk with its stored version and content, and keeps serving what was served *)
Theorem attach_serves_stored_copies :
  forall m ops pd s',
    let s := run (init m) ops in
    add_disk s pd = (s', E_OK) ->
    (forall t, copy s pd t <> None -> lookup s t = None) ->
    disks s' = disks s /\
    forall t, cur s' t = match copy s pd t with Some f => Some f | None => cur s t end.
Proof. exact attach_serves_lemma. Qed.
Print Assumptions attach_serves_stored_copies.

(* [FULL] when AddDisk finds a second copy of a served tract (versions read as resolveConflicts reads them, an unreadable version counting as 0): the strictly older copy is deleted and the strictly newer one is served unchanged, whichever disk it is on; with equal versions both copies are deleted and the tract is no longer in the table *)
Theorem conflict_keeps_newer :
  forall m ops pd s' t pd1 f1 f2,
    let s := run (init m) ops in
    add_disk s pd = (s', E_OK) ->
    open_existing s t = Op_ok pd1 f1 -> copy s pd t = Some f2 ->
    pd1 <> pd /\
    match verdict s t pd1 pd with
    | KeepOld => cur s' t = Some f1 /\ copy s' pd t = None /\ copy s' pd1 t = Some f1
    | KeepNew => cur s' t = Some f2 /\ copy s' pd1 t = None /\ copy s' pd t = Some f2
    | DropBoth => lookup s' t = None /\ cur s' t = None /\ copy s' pd1 t = None /\ copy s' pd t = None
    end.
Proof. exact conflict_keeps_newer_lemma. Qed.
Print Assumptions conflict_keeps_newer.

(* [FULL] garbage collection: an instruction (t, v) for a served copy with readable version c removes the copy iff c is at most v and otherwise changes nothing; a copy whose version cannot be read is kept; removal deletes the file and the table entry and touches no other file *)
Theorem gc_respects_version :
  forall m ops t v,
    let s := run (init m) ops in
    (forall f c, cur s t = Some f -> f_ver f = Some c ->
                 ((v < c)%Z -> maybe_gc s (t, v) = s) /\
                 ((c <= v)%Z ->
                  let s' := maybe_gc s (t, v) in
                  lookup s' t = None /\ cur s' t = None /\
                  exists pd, copy s pd t = Some f /\ copy s' pd t = None /\
                             forall pd' t', (pd', t') <> (pd, t) -> copy s' pd' t' = copy s pd' t')) /\
    (cur_ver s t = None -> maybe_gc s (t, v) = s) /\
    (forall f, cur s t = Some f -> cur (fst (remove_tract s t)) t = None).
Proof. exact gc_respects_version_lemma. Qed.
Print Assumptions gc_respects_version.

(* [FULL] after every operation sequence the store is well formed: no disk is attached twice, every table entry points at an attached disk that holds the file, and every file on an attached disk is in the table at that disk's slot, so no two attached disks hold the same tract *)
Theorem reachable_wf : forall m ops, wf (run (init m) ops).
Proof. exact reachable_wf_lemma. Qed.
Print Assumptions reachable_wf.

(* [FULL] the property's second sentence as one statement over every operation sequence from the empty store and every next operation, covering Create and create-as-write, Write, SetVersion, multi-source PullTract, GCTracts lists, Check, Restart, AddDisk with any number of conflicts, RemoveDisk and SetAlloc. First, for every stored copy (physical disk, tract) the operation does exactly one of the things listed by copy_change, namely nothing, or a write at the copy's own version, or one SetVersion step from v-1 to v with the content kept, or a new copy where there was none (Create of an unknown tract), or a PullTract for which whatever was there had a version at most the requested one and afterwards there is nothing or the complete bytes of one source at exactly the requested version, or the copy stops existing through a GC instruction at or above its version or naming it gone, or through conflict resolution where the other copy is not older (a tie drops both). Second, a copy that exists before and after keeps a readable version that does not decrease, and a strict increase is either SetVersion from c to c+1 with the same content or PullTract installing complete source bytes at the new version. Third, every stored file has a readable version. Fourth and fifth, along any further sequence a copy that stays stored never decreases, and neither does the served view of a tract that stays served, even when PullTract or conflict resolution moves it to another disk *)
Theorem version_monotone :
  forall m ops,
    let s := run (init m) ops in
    (forall o pd t, copy_change s o pd t (copy s pd t) (copy (fst (step s o)) pd t)) /\
    (forall o pd t f f',
        copy s pd t = Some f -> copy (fst (step s o)) pd t = Some f' ->
        ver_le f f' /\
        (forall c c', f_ver f = Some c -> f_ver f' = Some c' -> (c < c')%Z ->
           (exists cond, o = SetVersion t c' cond /\ c' = (c + 1)%Z /\ f_data f' = f_data f) \/
           (exists srcs orc re data, o = PullTract t srcs c' orc /\ In (re, data) srcs /\ ok_reply re /\
                                     f' = mkfile (Some c') (rle_write [] data 0%N)))) /\
    versioned s /\
    (forall ops2 pd t f f',
        stored_throughout s ops2 pd t -> copy s pd t = Some f ->
        copy (run s ops2) pd t = Some f' -> ver_le f f') /\
    (forall ops2 t f f',
        served_throughout s ops2 t -> cur s t = Some f ->
        cur (run s ops2) t = Some f' -> ver_le f f').
Proof. exact version_monotone_lemma. Qed.
Print Assumptions version_monotone.

(* [FULL] a restart followed by AddDisk of exactly the previously attached disks in any order, each AddDisk succeeding, is the run of Restart and those AddDisk operations, leaves every file of every disk as it was and serves every tract with the same version and content as before the restart, and serves nothing else *)
Theorem restart_readd_restores_view :
  forall m ops l s',
    let s := run (init m) ops in
    NoDup l -> (forall p, In p l <-> attached s p) ->
    adds (restart s) l = Some s' ->
    run s (Restart :: map AddDisk l) = s' /\ disks s' = disks s /\ forall t, cur s' t = cur s t.
Proof. exact restart_readd_lemma. Qed.
Print Assumptions restart_readd_restores_view.

(* [FULL] injected disk faults while a new copy is installed, the Open, the Setxattr or the data Write of doCreate failing with any error other than success, EOF and already-exists, inside Create or inside any source round of PullTract. Every history containing such faulted calls ends in a state that a history without faults also reaches, so every theorem above covers it. A faulted Create either never reaches the new file and is the ordinary Create, or returns the error and leaves the whole state unchanged, no file and no table entry. A faulted PullTract equals the PullTract in which at most one source that answered data answers the error instead, so it leaves no partial copy, and if it succeeds the served copy is the complete bytes of one of the ORIGINAL sources at exactly the requested version *)
Theorem failed_install_leaves_nothing :
  forall m,
    (forall fops, Forall fop_ok fops -> exists ops, frun (init m) fops = run (init m) ops) /\
    (forall s t d off orc fe, fault_code fe ->
        (reaches_open s t = false /\ create_f s t d off orc (Some fe) = create s t d off orc) \/
        (reaches_open s t = true /\ create_f s t d off orc (Some fe) = (s, fe))) /\
    (forall s t srcs v orc fe, fault_code fe ->
        (exists srcs', pull_tract_f s t srcs v orc (Some fe) = pull_tract s t srcs' v orc /\
                       length srcs' = length srcs /\
                       forall r, In r srcs' -> In r srcs \/ r = (fe, [])) /\
        (snd (pull_tract_f s t srcs v orc (Some fe)) = E_OK ->
         (srcs = [] /\ fst (pull_tract_f s t srcs v orc (Some fe)) = s) \/
         exists re data, In (re, data) srcs /\ ok_reply re /\
                         cur (fst (pull_tract_f s t srcs v orc (Some fe))) t =
                         Some (mkfile (Some v) (rle_write [] data 0%N)))).
Proof. exact failed_install_lemma. Qed.
Print Assumptions failed_install_leaves_nothing.

(* [FULL] the byte-level meaning of the observables, for the served copy f of a tract at its current version v in any reached state. Its run list is canonical and is the only canonical run list with its bytes, so comparing run lists compares bytes. A read at v returns exactly the bytes of the requested range of the stored byte string, plain_read of expand, in canonical form, with NoError iff the whole range lies inside the file and EOF otherwise. Stat returns the number of stored bytes. A write at v succeeds and the served copy then holds exactly the old bytes overwritten at the offset with the written bytes, any hole between the old end and the offset filled with zeros, plain_write, its size is the maximum of the old size and offset plus length, the version is kept, and every later read at v returns the requested range of exactly those bytes *)
Theorem read_returns_last_write_bytes :
  forall m ops t v f,
    let s := run (init m) ops in
    cur s t = Some f -> f_ver f = Some v ->
    canon (f_data f) /\
    (forall r, canon r -> expand r = expand (f_data f) -> r = f_data f) /\
    (forall len off,
        expand (snd (read s t v len off)) = plain_read (expand (f_data f)) (N.to_nat off) (N.to_nat len) /\
        canon (snd (read s t v len off)) /\
        (fst (read s t v len off) = E_OK <-> (len <= rle_len (f_data f) - off)%N) /\
        (fst (read s t v len off) = E_OK \/ fst (read s t v len off) = E_EOF)) /\
    (N.to_nat (snd (fst (stat s t v))) = length (expand (f_data f))) /\
    (forall d off,
        let s' := fst (do_write s t v d off) in
        snd (do_write s t v d off) = E_OK /\
        exists f', cur s' t = Some f' /\ f_ver f' = Some v /\ canon (f_data f') /\
                   expand (f_data f') = plain_write (expand (f_data f)) (expand d) (N.to_nat off) /\
                   rle_len (f_data f') = N.max (rle_len (f_data f)) (off + rle_len d) /\
                   forall len off',
                     expand (snd (read s' t v len off')) =
                     plain_read (plain_write (expand (f_data f)) (expand d) (N.to_nat off))
                                (N.to_nat off') (N.to_nat len)).
Proof. exact bytes_lemma. Qed.
Print Assumptions read_returns_last_write_bytes.

(* [FULL] the content every install writes, as bytes. The copy PullTract installs, rle_write of the fetched data into an empty file at offset 0 as named in pull_respects_version and version_monotone, denotes exactly the fetched bytes, is canonical and is the normal form of the fetched run list, so it is complete. The copy Create installs denotes offset many zero bytes followed by the given bytes *)
Theorem installed_copy_bytes :
  forall data d off,
    expand (rle_write [] data 0) = expand data /\ canon (rle_write [] data 0) /\
    rle_write [] data 0 = rle_norm data /\
    expand (rle_write [] d off) = zeros_l (N.to_nat off) ++ expand d.
Proof. exact install_bytes_lemma. Qed.
Print Assumptions installed_copy_bytes.

(* [FULL] power loss. In the disk-call-level model of Store/Crash.v, where updates made through a handle become durable only when a handle of that file is closed successfully and any Open, Setxattr, Write or Close of any operation may fail, after every history of operations with arbitrary fault positions and arbitrary power losses, a SetVersion of a served tract that is acknowledged with NoError, whatever fault was armed for it, leaves a copy with a version at least the acknowledged one and the old content that is on stable storage, so a power loss immediately after it leaves exactly that copy on the disk, and once that disk is attached to the restarted server the tract is served at that version and a write naming any other version, in particular any older one, is refused and changes no file *)
Theorem acked_bump_survives_power_loss :
  forall m xs f t v cond cs' f' rv pd fl,
    let cs := xrun (cinit m) xs in
    open_existing (vs cs) t = Op_ok pd fl ->
    x_set_version cs f t v cond = (cs', f', (E_OK, rv)) ->
    exists c', (v <= c')%Z /\
      durable_copy cs' pd t = Some (mkfile (Some c') (f_data fl)) /\
      copy (vs cs') pd t = Some (mkfile (Some c') (f_data fl)) /\
      copy (vs (power_loss cs')) pd t = Some (mkfile (Some c') (f_data fl)) /\
      (forall s3, add_disk (vs (power_loss cs')) pd = (s3, E_OK) ->
          cur s3 t = Some (mkfile (Some c') (f_data fl)) /\
          forall v0 d off, v0 <> c' ->
            snd (do_write s3 t v0 d off) <> E_OK /\ disks (fst (do_write s3 t v0 d off)) = disks s3).
Proof. exact acked_bump_lemma. Qed.
Print Assumptions acked_bump_survives_power_loss.

(* [FULL] the disk-call-level model refines the sequential one. An operation issued with no fault armed returns the same result and leaves the same visible state as the step function of Store/Model.v about which all theorems above are stated, and a file with no unsynced update is untouched by a power loss *)
Theorem crash_model_refines_sequential :
  (forall cs o, vs (fst (x_step cs None o)) = fst (step (vs cs) o) /\
                snd (x_step cs None o) = snd (step (vs cs) o)) /\
  (forall cs pd t, d_find pd t (dirty cs) = None ->
                   copy (vs (power_loss cs)) pd t = copy (vs cs) pd t).
Proof. split; [exact x_step_nofault|exact power_loss_keeps_synced]. Qed.
Print Assumptions crash_model_refines_sequential.

(* [FULL] durable-version monotonicity as an invariant of the crash model. After every history of operations with arbitrary fault positions and arbitrary power losses the state satisfies cinv, that is the visible state is well formed, every file with unsynced updates exists and the dirty list has one entry per file, and the visible version of every copy is at least its durable version. From such a state, for every stored copy, no single transition other than a PullTract of that very tract lowers the durable version while the copy stays on stable storage, whatever fault is armed and including power loss, and hence along any later history of such transitions during which the copy stays on stable storage the durable version never decreases. A power loss makes the visible copy equal to the durable copy. GC and conflict loss remove the copy, so the premise that it stays on stable storage ends there, and PullTract of the tract re-installs it, which starts a fresh history *)
Theorem durable_version_monotone :
  forall m xs0,
    let cs := xrun (cinit m) xs0 in
    cinv cs /\
    (forall pd t g, durable_copy cs pd t = Some g -> exists f, copy (vs cs) pd t = Some f /\ ver_le g f) /\
    (forall x pd t g g', xop_ok_for t x -> durable_copy cs pd t = Some g ->
                         durable_copy (xstep cs x) pd t = Some g' -> ver_le g g') /\
    (forall xs pd t g g', Forall (xop_ok_for t) xs ->
                          xstays (fun c => durable_copy c pd t <> None) cs xs ->
                          durable_copy cs pd t = Some g -> durable_copy (xrun cs xs) pd t = Some g' ->
                          ver_le g g') /\
    (forall pd t, copy (vs (power_loss cs)) pd t = durable_copy cs pd t).
Proof. exact durable_version_monotone_lemma. Qed.
Print Assumptions durable_version_monotone.

(* [FULL] an acknowledged bump survives any later history. After any history, a SetVersion of a served tract acknowledged with NoError, then any later history of operations with arbitrary faults and power losses that contains no PullTract of that tract and during which the copy stays on stable storage, leaves a durable copy whose version is at least the acknowledged one, and a power loss at the end leaves exactly that copy on the disk *)
Theorem acked_bump_survives_later_history :
  forall m xs0 f t v cond cs' f' rv pd fl xs g',
    let cs := xrun (cinit m) xs0 in
    open_existing (vs cs) t = Op_ok pd fl ->
    x_set_version cs f t v cond = (cs', f', (E_OK, rv)) ->
    Forall (xop_ok_for t) xs ->
    xstays (fun c => durable_copy c pd t <> None) cs' xs ->
    durable_copy (xrun cs' xs) pd t = Some g' ->
    (exists c, f_ver g' = Some c /\ (v <= c)%Z) /\
    copy (vs (power_loss (xrun cs' xs))) pd t = Some g'.
Proof. exact acked_later_lemma. Qed.
Print Assumptions acked_bump_survives_later_history.

(* [FULL] the visible state under faulted operations. After every history of faulted operations and power losses the visible state is well formed, it is still well formed after any operation with any fault position, and the visible version of a stored copy that exists before and after an operation with any fault position does not decrease unless the operation is a PullTract. The two named events that lower a visible version are therefore a power loss, which takes back updates that were never acknowledged, and a PullTract whose look at the local copy meets an I/O error *)
Theorem faulted_ops_keep_wf_and_versions :
  forall m xs0 f o,
    let cs := xrun (cinit m) xs0 in
    wf (vs cs) /\ wf (vs (fst (x_step cs f o))) /\
    (is_pull o = false ->
     forall pd t fl fl', copy (vs cs) pd t = Some fl -> copy (vs (fst (x_step cs f o))) pd t = Some fl' ->
                         ver_le fl fl').
Proof. exact faulted_ops_lemma. Qed.
Print Assumptions faulted_ops_keep_wf_and_versions.

(* [FULL] a PullTract with any fault position whose pre-check disk calls, the Open and the Close of its look at the local copy, succeed in every source round never lowers the visible or the durable version of any existing copy, of the pulled tract or of any other. In particular when the local copy is newer than the requested version such a round refuses with ErrInvalidState and the only effect is that the look synced the copy, and when the local copy is equal or older it is deleted and re-copied at the requested version as the code does *)
Theorem faulted_pull_refuses_newer_copy :
  forall m xs0 f t srcs v orc,
    let cs := xrun (cinit m) xs0 in
    (pre_ok cs f t srcs v orc ->
     forall pd t0,
       let cs' := fst (x_step cs f (PullTract t srcs v orc)) in
       (forall fl fl', copy (vs cs) pd t0 = Some fl -> copy (vs cs') pd t0 = Some fl' -> ver_le fl fl') /\
       (forall g g', durable_copy cs pd t0 = Some g -> durable_copy cs' pd t0 = Some g' -> ver_le g g')) /\
    (forall r pd fl c,
        precheck_err cs f t = false ->
        open_existing (vs cs) t = Op_ok pd fl -> f_ver fl = Some c -> (v < c)%Z ->
        x_pull_once cs f t r v orc = (d_clear cs pd t, snd (tick (snd (tick f))), E_InvalidState)).
Proof. exact faulted_pull_lemma. Qed.
Print Assumptions faulted_pull_refuses_newer_copy.

(* [FULL] summary without a blanket PullTract exclusion. After every history of faulted operations and power losses, an operation with any fault position lowers neither the visible nor the durable version of any stored copy that exists before and after it, unless it is a PullTract one of whose pre-check disk calls fails. A power loss never changes a durable copy and makes the visible copy equal to it. So the only version-lowering events are exactly the two named ones, a power loss taking the visible copy back to its durable image, and the PullTract whose look at the local copy meets an I/O error *)
Theorem versions_lowered_only_by_named_events :
  forall m xs0 f o pd t,
    let cs := xrun (cinit m) xs0 in
    (x_ok cs f o ->
     let cs' := fst (x_step cs f o) in
     (forall fl fl', copy (vs cs) pd t = Some fl -> copy (vs cs') pd t = Some fl' -> ver_le fl fl') /\
     (forall g g', durable_copy cs pd t = Some g -> durable_copy cs' pd t = Some g' -> ver_le g g')) /\
    durable_copy (power_loss cs) pd t = durable_copy cs pd t /\
    copy (vs (power_loss cs)) pd t = durable_copy cs pd t.
Proof. exact named_events_lemma. Qed.
Print Assumptions versions_lowered_only_by_named_events.
