(* C09/Model.v — wire layer of the C09 check on top of the shared sequential Store model
   (Store/Model.v).  Decodes the integer op lines written by go/C09/zz_verif_c09_test.go into
   [Store.Model.op], runs [step], and encodes the predicted observation: the call's result followed
   by a scan of the whole world (the tract table as GetTractsByDisk shows it, and every physical
   disk's files with version and content in run-length form).
   The harness never shows a mod stamp's value: it remembers, per tract, the stamp of the last
   successful Stat, reports "changed since then", and can pass that remembered stamp to SetVersion.
   The same bookkeeping is done here in [last].
   Definitions only. *)
From Coq Require Import List NArith ZArith Bool.
From BLB Require Import Store.Bytes Store.Model Store.Crash.
Import ListNotations.
Open Scope N_scope.

Record wstate := mkw { w_cs : cstore; w_last : amap stamp; w_nd : N }.
Definition w_store (w : wstate) : store := vs (w_cs w).

Definition zN (z : Z) : N := Z.to_N z.

(* ---------- decoding ---------- *)
Fixpoint take_pairs (n : nat) (l : list Z) : option (list (Z * Z) * list Z) :=
  match n with
  | O => Some ([], l)
  | S n' => match l with
            | a :: b :: r => match take_pairs n' r with
                             | Some (ps, r') => Some ((a, b) :: ps, r')
                             | None => None end
            | _ => None
            end
  end.

Definition take_rle (l : list Z) : option (rle * list Z) :=
  match l with
  | n :: r => match take_pairs (Z.to_nat n) r with
              | Some (ps, r') => Some (rle_norm (map (fun p => (zN (fst p), zN (snd p))) ps), r')
              | None => None end
  | [] => None
  end.

Definition take_tvs (l : list Z) : option (list (tract * Z) * list Z) :=
  match l with
  | n :: r => match take_pairs (Z.to_nat n) r with
              | Some (ps, r') => Some (map (fun p => (zN (fst p), snd p)) ps, r')
              | None => None end
  | [] => None
  end.

Definition take_ns (l : list Z) : option (list N * list Z) :=
  match l with
  | n :: r => let k := Z.to_nat n in
              if Nat.leb k (length r) then Some (map zN (firstn k r), skipn k r) else None
  | [] => None
  end.

Fixpoint take_srcs (n : nat) (l : list Z) : option (list (Z * rle) * list Z) :=
  match n with
  | O => Some ([], l)
  | S n' => match l with
            | e :: r => match take_rle r with
                        | Some (d, r') => match take_srcs n' r' with
                                          | Some (ss, r'') => Some ((e, d) :: ss, r'')
                                          | None => None end
                        | None => None end
            | [] => None
            end
  end.

(* the stamp the harness passes for condition kind 2: matches no stamp a Store ever holds (epochs start at 1) *)
Definition bogus_stamp : stamp := (0, 0).

Definition decode (w : wstate) (l : list Z) : option op :=
  match l with
  | 1%Z :: t :: off :: orc :: r =>
      match take_rle r with Some (d, []) => Some (Create (zN t) d (zN off) (zN orc)) | _ => None end
  | 2%Z :: t :: v :: off :: r =>
      match take_rle r with Some (d, []) => Some (Write (zN t) v d (zN off)) | _ => None end
  | [3%Z; t; v; len; off] => Some (Read (zN t) v (zN len) (zN off))
  | [4%Z; t; v] => Some (Stat (zN t) v)
  | [5%Z; t; v; ck] =>
      let c := if (ck =? 0)%Z then None
               else if (ck =? 1)%Z then
                      match get (zN t) (w_last w) with Some st => Some st | None => Some bogus_stamp end
               else Some bogus_stamp in
      Some (SetVersion (zN t) v c)
  | 6%Z :: t :: v :: orc :: n :: r =>
      match take_srcs (Z.to_nat n) r with
      | Some (ss, []) => Some (PullTract (zN t) ss v (zN orc))
      | _ => None end
  | 7%Z :: r =>
      match take_tvs r with
      | Some (old, r') => match take_ns r' with
                          | Some (gone, []) => Some (GCTracts old gone)
                          | _ => None end
      | None => None end
  | 8%Z :: r => match take_tvs r with Some (ts, []) => Some (Check ts) | _ => None end
  | [9%Z] => Some Restart
  | [10%Z; pd] => Some (AddDisk (zN pd))
  | [11%Z; pd] => Some (RemoveDisk (zN pd))
  | [12%Z; pd; stop] => Some (SetAlloc (zN pd) (negb (stop =? 0)%Z))
  | _ => None
  end.

(* ---------- encoding ---------- *)
Definition enc_rle (r : rle) : list Z :=
  Z.of_nat (length r) :: flat_map (fun p => [Z.of_N (fst p); Z.of_N (snd p)]) r.

Definition enc_file (tf : tract * file) : list Z :=
  Z.of_N (fst tf) ::
  match f_ver (snd tf) with Some v => [1%Z; v] | None => [0%Z; 0%Z] end ++ enc_rle (f_data (snd tf)).

Definition enc_disk (s : store) (pd : N) : list Z :=
  let d := files_of s pd in Z.of_nat (length d) :: flat_map enc_file d.

Fixpoint upto (n : nat) (i : N) : list N :=
  match n with O => [] | S n' => i :: upto n' (i + 1) end.

Definition enc_scan (w : wstate) : list Z :=
  let s := w_store w in
  Z.of_nat (length (table s)) ::
  flat_map (fun e => [Z.of_N (fst e); Z.of_N (fst (snd e))]) (table s) ++
  flat_map (enc_disk s) (upto (N.to_nat (w_nd w)) 0).

Definition enc_tvs (l : list (tract * Z)) : list Z :=
  Z.of_nat (length l) :: flat_map (fun p => [Z.of_N (fst p); snd p]) l.

(* result of one call, and the harness-side memory of Stat stamps *)
Definition enc_res (w : wstate) (o : op) (r : res) : list Z * amap stamp :=
  match r with
  | RErr e => ([e], w_last w)
  | RRead e d => (e :: enc_rle d, w_last w)
  | RSetV e v => ([e; v], w_last w)
  | RUnit => ([], w_last w)
  | RCheck m => (enc_tvs m, w_last w)
  | RStat e sz st =>
      match o, st with
      | Stat t _, Some st' =>
          if (e =? E_OK)%Z then
            let chg := match get t (w_last w) with
                       | None => 2%Z
                       | Some old => if stamp_eqb old st' then 0%Z else 1%Z
                       end in
            ([e; Z.of_N sz; chg], put t st' (w_last w))
          else ([e; Z.of_N sz; 0%Z], w_last w)
      | _, _ => ([e; Z.of_N sz; 0%Z], w_last w)
      end
  end.

(* one decoded operation with fault [f] armed *)
Definition step_op (w : wstate) (f : fault) (l : list Z) : wstate * list Z :=
  match decode w l with
  | None => (w, [(-1)%Z])
  | Some o =>
      let '(cs', r) := x_step (w_cs w) f o in
      let '(out, last') := enc_res w o r in
      let w' := mkw cs' last' (w_nd w) in
      (w', out ++ enc_scan w')
  end.

Definition step_wire (w : wstate) (l : list Z) : wstate * list Z :=
  match l with
  | [0%Z; kind; nd] =>
      let w' := mkw (cinit (negb (kind =? 0)%Z)) [] (zN nd) in (w', enc_scan w')
  | 15%Z :: n :: rest =>
      (* the operation [rest] with its n-th faultable disk call (Open/Setxattr/Write/Close) failing *)
      step_op w (Some (Z.to_nat n)) rest
  | [16%Z] =>
      (* power loss: unsynced updates are gone, the process restarts with no disk attached *)
      let w' := mkw (power_loss (w_cs w)) (w_last w) (w_nd w) in (w', enc_scan w')
  | _ => step_op w None l
  end.

Fixpoint run_wire (w : wstate) (ops : list (list Z)) : list (list Z) :=
  match ops with
  | [] => []
  | l :: rest => let '(w', out) := step_wire w l in out :: run_wire w' rest
  end.

(* Generic driver entry point: ops of one case -> expected observation lines. *)
Definition run_case (ops : list (list Z)) : list (list Z) :=
  run_wire (mkw (cinit false) [] 0) ops.
