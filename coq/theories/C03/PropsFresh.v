(* C03/PropsFresh.v - property-level theorems for the freshness clause of C03 (verified reads are never stale),
   over the Raft system model of C02. Statements + `exact`, each followed by Print Assumptions. *)
From Coq Require Import List NArith ZArith Bool.
From BLB Require Import Lib.LTS Raft.Core Raft.Election Raft.LogMatch Raft.CompletenessCommit Raft.LogMatchExample
  Raft.SnapVirtual Raft.SnapSystem C03.VerifyFresh C03.VerifyFreshSnap C03.VerifyFreshExample.
Import ListNotations.
Open Scope N_scope.

(* [FULL] verify_read_fresh, fixed membership without snapshot events, the lstep alphabet of C02 - every interleaving of
   deliveries with loss, duplication, reordering and stale messages, ticks, proposals, restarts and crashes after any
   durable mutation, nodes starting empty. Moment 1 is the request - node b1 is a Leader. Moment 2 is the conclusion -
   the same node, same id, same term, has in its log at a position that did not exist at moment 1 an entry of its own
   term, which is what the verification NOP of raft.go is, and its commit index covers that position. Then the commit
   index of b at moment 2 is at least the commit index every node a had at moment 1 and the first n_commit a entries
   of b's log are a's committed entries. With Layer.v, where the VerifyRead group is concluded by the FSM loop after
   every tuple before its NOP was applied, the local read served after a successful verification reflects every
   command committed, hence every command acknowledged, anywhere before the verification was requested *)
Theorem verify_read_fresh :
  forall (bm : list nid) (be : N) (σ0 σ1 σ2 : sys) (sched1 sched2 : list sys_event),
    cinit σ0 ->
    run sys sys_event (lstep (length (sy_nodes σ0)) bm be) σ0 sched1 σ1 ->
    run sys sys_event (lstep (length (sy_nodes σ0)) bm be) σ1 sched2 σ2 ->
    forall a b1 b i e,
      In a (sy_nodes σ1) -> In b1 (sy_nodes σ1) -> In b (sy_nodes σ2) ->
      n_role b1 = Leader -> n_id b1 = n_id b -> p_term (n_p b1) = p_term (n_p b) ->
      (length (p_log (n_p b1)) <= i)%nat -> nth_error (p_log (n_p b)) i = Some e -> e_term e = p_term (n_p b) ->
      (i < N.to_nat (n_commit b))%nat ->
      (N.to_nat (n_commit a) <= N.to_nat (n_commit b))%nat /\
      firstn (N.to_nat (n_commit a)) (p_log (n_p b)) = firstn (N.to_nat (n_commit a)) (p_log (n_p a)).
Proof. exact verify_read_fresh_sys. Qed.
Print Assumptions verify_read_fresh.

(* [FULL] a deposed leader cannot conclude a verification, same model and alphabet: if at the moment of the request some
   node has committed an entry of a term greater than the term of leader b1, then at no later moment does that node,
   still in that term, have a committed entry of its own term at a position that did not exist at the request *)
Theorem deposed_leader_cannot_conclude_verify_read :
  forall (bm : list nid) (be : N) (σ0 σ1 σ2 : sys) (sched1 sched2 : list sys_event),
    cinit σ0 ->
    run sys sys_event (lstep (length (sy_nodes σ0)) bm be) σ0 sched1 σ1 ->
    run sys sys_event (lstep (length (sy_nodes σ0)) bm be) σ1 sched2 σ2 ->
    forall a b1 b k x,
      In a (sy_nodes σ1) -> In b1 (sy_nodes σ1) -> In b (sy_nodes σ2) ->
      n_role b1 = Leader -> n_id b1 = n_id b -> p_term (n_p b1) = p_term (n_p b) ->
      nth_error (p_log (n_p a)) k = Some x -> (k < N.to_nat (n_commit a))%nat -> p_term (n_p b) < e_term x ->
      forall i e, (length (p_log (n_p b1)) <= i)%nat -> nth_error (p_log (n_p b)) i = Some e -> e_term e = p_term (n_p b) ->
                  ~ (i < N.to_nat (n_commit b))%nat.
Proof. exact deposed_leader_cannot_verify_sys. Qed.
Print Assumptions deposed_leader_cannot_conclude_verify_read.

(* [FULL] verify_read_fresh WITH snapshots, the sstepS alphabet of C02 - fixed membership, all events including
   SnapshotDone reporting an applied position, InstallSnapshot deliveries, log trim, Restart, crashes. Over logical
   logs llog = entries covered by the snapshot and no longer held, followed by the log, under ghost assignments that
   fit the states. Same hypotheses and conclusion as verify_read_fresh with positions taken in the logical logs *)
Theorem verify_read_fresh_with_snapshots :
  forall (bm : list nid) (be : N) (σ0 σ1 σ2 : sys) (sched1 sched2 : list sys_event),
    cinit σ0 -> length bm = length (sy_nodes σ0) ->
    run sys sys_event (sstepS bm be (length (sy_nodes σ0))) σ0 sched1 σ1 ->
    run sys sys_event (sstepS bm be (length (sy_nodes σ0))) σ1 sched2 σ2 ->
    exists Cf1 Cf2, ghost_ok σ1 Cf1 /\ ghost_ok σ2 Cf2 /\
      forall a b1 b i e,
        In a (sy_nodes σ1) -> In b1 (sy_nodes σ1) -> In b (sy_nodes σ2) ->
        n_role b1 = Leader -> n_id b1 = n_id b -> p_term (n_p b1) = p_term (n_p b) ->
        (length (llog Cf1 b1) <= i)%nat -> nth_error (llog Cf2 b) i = Some e -> e_term e = p_term (n_p b) ->
        (i < N.to_nat (n_commit b))%nat ->
        (N.to_nat (n_commit a) <= N.to_nat (n_commit b))%nat /\
        firstn (N.to_nat (n_commit a)) (llog Cf2 b) = firstn (N.to_nat (n_commit a)) (llog Cf1 a).
Proof. exact verify_read_fresh_with_snapshots_sys. Qed.
Print Assumptions verify_read_fresh_with_snapshots.

(* [FULL] verify_read_fresh with snapshots, ghost-free: b holds in its physical log an entry of its own term whose index
   is greater than the last index b1 had at the request and at most b's commit index. Then every node's commit index
   of moment 1 is at most b's commit index, and every entry of that node's log up to its commit index is in b's log
   or under b's snapshot. Same alphabet *)
Theorem verify_read_fresh_with_snapshots_ghost_free :
  forall (bm : list nid) (be : N) (σ0 σ1 σ2 : sys) (sched1 sched2 : list sys_event),
    cinit σ0 -> length bm = length (sy_nodes σ0) ->
    run sys sys_event (sstepS bm be (length (sy_nodes σ0))) σ0 sched1 σ1 ->
    run sys sys_event (sstepS bm be (length (sy_nodes σ0))) σ1 sched2 σ2 ->
    forall a b1 b e,
      In a (sy_nodes σ1) -> In b1 (sy_nodes σ1) -> In b (sy_nodes σ2) ->
      n_role b1 = Leader -> n_id b1 = n_id b -> p_term (n_p b1) = p_term (n_p b) ->
      In e (p_log (n_p b)) -> e_term e = p_term (n_p b) -> last_index (n_p b1) < e_index e -> e_index e <= n_commit b ->
      n_commit a <= n_commit b /\
      forall x, In x (p_log (n_p a)) -> e_index x <= n_commit a ->
        In x (p_log (n_p b)) \/ exists mb, p_snap (n_p b) = Some mb /\ e_index x <= sn_index mb.
Proof. exact verify_read_fresh_with_snapshots_entries. Qed.
Print Assumptions verify_read_fresh_with_snapshots_ghost_free.

(* [FULL] non-vacuity, a concrete 3-node run of 29 events: node 2, elected for term 3 while node 1 still runs as leader of
   term 2, requests a verification at moment 1 and has committed its NOP of term 3 at moment 2 - every hypothesis of
   verify_read_fresh holds; the deposed node 1, Leader of term 2 at moments 2 and 3, appends a fresh NOP at moment 2
   which is in its log and NOT committed at moment 3 although old acknowledgements arrived and it did commit *)
Theorem verify_read_fresh_nonvacuous :
  exists σ0 σ1 σ2 σ3 s1 s2 s3 a b1 b i e d1 d,
    cinit σ0 /\
    run sys sys_event (lstep (length (sy_nodes σ0)) [1; 2; 3] 5) σ0 s1 σ1 /\
    run sys sys_event (lstep (length (sy_nodes σ0)) [1; 2; 3] 5) σ1 s2 σ2 /\
    run sys sys_event (lstep (length (sy_nodes σ0)) [1; 2; 3] 5) σ2 s3 σ3 /\
    In a (sy_nodes σ1) /\ In b1 (sy_nodes σ1) /\ In b (sy_nodes σ2) /\
    n_role b1 = Leader /\ n_role b = Leader /\ n_id b1 = n_id b /\ p_term (n_p b1) = p_term (n_p b) /\
    (length (p_log (n_p b1)) <= i)%nat /\ nth_error (p_log (n_p b)) i = Some e /\ e_term e = p_term (n_p b) /\
    e_type e = EntryNOP /\ (i < N.to_nat (n_commit b))%nat /\
    In d1 (sy_nodes σ2) /\ In d (sy_nodes σ3) /\ n_id d1 = n_id d /\ n_role d1 = Leader /\ n_role d = Leader /\
    p_term (n_p d1) = p_term (n_p d) /\ p_term (n_p d) < p_term (n_p b) /\
    (exists x, nth_error (p_log (n_p d)) (length (p_log (n_p d1))) = Some x /\ e_term x = p_term (n_p d) /\ e_type x = EntryNOP) /\
    n_commit d1 < n_commit d /\ (N.to_nat (n_commit d) <= length (p_log (n_p d1)))%nat.
Proof. exact verify_read_fresh_nonvacuous_ex. Qed.
Print Assumptions verify_read_fresh_nonvacuous.

(* [REFUTED] necessity of the new-entry hypothesis - verify_read_fresh WITHOUT the requirement that the committed entry
   was appended after the request is false: in the same run a request made on the deposed node 1 after node 2 committed
   three entries, if allowed to ride the verification NOP that was already in flight, is concluded by the late
   acknowledgements of term 2 with node 1's commit index 2 below node 2's 3 and its log lacking the third entry. This
   is the seeded change that let VerifyRead join the in-flight NOP group, caught by the directed held-acks scenario *)
Theorem verify_read_fresh_refuted_without_fresh_entry :
  exists σ0 σ1 σ2 s1 s2 a b1 b i e,
    cinit σ0 /\
    run sys sys_event (lstep (length (sy_nodes σ0)) [1; 2; 3] 5) σ0 s1 σ1 /\
    run sys sys_event (lstep (length (sy_nodes σ0)) [1; 2; 3] 5) σ1 s2 σ2 /\
    In a (sy_nodes σ1) /\ In b1 (sy_nodes σ1) /\ In b (sy_nodes σ2) /\
    n_role b1 = Leader /\ n_role b = Leader /\ n_id b1 = n_id b /\ p_term (n_p b1) = p_term (n_p b) /\
    nth_error (p_log (n_p b)) i = Some e /\ e_term e = p_term (n_p b) /\ e_type e = EntryNOP /\
    (i < N.to_nat (n_commit b))%nat /\
    (i < length (p_log (n_p b1)))%nat /\
    n_commit b < n_commit a /\
    firstn (N.to_nat (n_commit a)) (p_log (n_p b)) <> firstn (N.to_nat (n_commit a)) (p_log (n_p a)).
Proof. exact verify_read_fresh_refuted_without_fresh_entry_ex. Qed.
Print Assumptions verify_read_fresh_refuted_without_fresh_entry.

From BLB Require Import Raft.MemberVotes Raft.MemberRun C03.VerifyFreshM C03.VerifyFreshMExample.

(* [FULL] verify_read_fresh ACROSS MEMBERSHIP CHANGE, the mstepS alphabet of C02 round 8 - every event on any node
   including AddNode and RemoveNode as the core accepts or refuses them, restarts, crashes after any durable
   mutation, any deliveries; one bootstrap membership without duplicates, no SnapshotDone, proposals carry no
   configuration entries, no node is asked to add itself; no condition on the configurations. Same statement as
   verify_read_fresh. Proved by replaying the freshness lemma on the round-8 invariant MS; nothing that MS does not
   export was needed *)
Theorem verify_read_fresh_membership_change :
  forall (bm : list nid) (be : N), NoDup bm ->
  forall (a0 a1 a2 : asys) (sched1 sched2 : list sys_event),
    minitS a0 -> run asys sys_event (mstepS bm be) a0 sched1 a1 -> run asys sys_event (mstepS bm be) a1 sched2 a2 ->
    forall a b1 b i e,
      In a (sy_nodes (fst a1)) -> In b1 (sy_nodes (fst a1)) -> In b (sy_nodes (fst a2)) ->
      n_role b1 = Leader -> n_id b1 = n_id b -> p_term (n_p b1) = p_term (n_p b) ->
      (length (p_log (n_p b1)) <= i)%nat -> nth_error (p_log (n_p b)) i = Some e -> e_term e = p_term (n_p b) ->
      (i < N.to_nat (n_commit b))%nat ->
      (N.to_nat (n_commit a) <= N.to_nat (n_commit b))%nat /\
      firstn (N.to_nat (n_commit a)) (p_log (n_p b)) = firstn (N.to_nat (n_commit a)) (p_log (n_p a)).
Proof. exact verify_read_fresh_membership_change_sys. Qed.
Print Assumptions verify_read_fresh_membership_change.

(* [FULL] non-vacuity with a membership change inside the window: C02's run A - bootstrap of nodes 1 and 2, node 1 leader of
   term 2 at the request, then AddNode 3 accepted, its configuration entry of term 2 committed under the three-node
   configuration while node 1 is still Leader of term 2 - meets every hypothesis of verify_read_fresh_membership_change *)
Theorem verify_read_fresh_membership_change_nonvacuous :
  exists a0 a1 a2 s1 s2 a b1 b i e,
    minitS a0 /\ NoDup [1; 2] /\
    run asys sys_event (mstepS [1; 2] 5) a0 s1 a1 /\ run asys sys_event (mstepS [1; 2] 5) a1 s2 a2 /\
    In (1, EAddNode 3 77, 0) s2 /\
    In a (sy_nodes (fst a1)) /\ In b1 (sy_nodes (fst a1)) /\ In b (sy_nodes (fst a2)) /\
    n_role b1 = Leader /\ n_role b = Leader /\ n_id b1 = n_id b /\ p_term (n_p b1) = p_term (n_p b) /\
    (length (p_log (n_p b1)) <= i)%nat /\ nth_error (p_log (n_p b)) i = Some e /\ e_term e = p_term (n_p b) /\
    e_type e = EntryConf /\ (i < N.to_nat (n_commit b))%nat /\ 0 < n_commit a.
Proof. exact verify_read_fresh_membership_change_nonvacuous_ex. Qed.
Print Assumptions verify_read_fresh_membership_change_nonvacuous.

From BLB Require Import Raft.CombinedExample Raft.MemberSnapSystemU C03.VerifyFreshC C03.VerifyFreshCExample.

(* [FULL] verify_read_fresh over the COMBINED alphabet of C02, membership change and snapshots in one run - cstep of
   Raft/MemberSnapSystemU - every event of the core on any node, deliveries of any message ever sent including
   InstallSnapshot any number of times or never, ticks, proposals without configuration entries, AddNode not of the
   node itself, RemoveNode, SnapshotDone as the state machine issues it, restart, crash after any durable mutation;
   one bootstrap membership without duplicates. Same statement as verify_read_fresh over logical logs llogC under
   ghost assignments that fit the states. Proved by the freshness lemma on the virtual system of the combined invariant *)
Theorem verify_read_fresh_combined :
  forall (bm : list nid) (be : N), NoDup bm ->
  forall (a0 a1 a2 : asys) (sched1 sched2 : list sys_event),
    minitS a0 -> run asys sys_event (cstep bm be) a0 sched1 a1 -> run asys sys_event (cstep bm be) a1 sched2 a2 ->
    exists Cf1 Cf2, fitsC a1 Cf1 /\ fitsC a2 Cf2 /\
      forall a b1 b i e,
        In a (sy_nodes (fst a1)) -> In b1 (sy_nodes (fst a1)) -> In b (sy_nodes (fst a2)) ->
        n_role b1 = Leader -> n_id b1 = n_id b -> p_term (n_p b1) = p_term (n_p b) ->
        (length (llogC Cf1 b1) <= i)%nat -> nth_error (llogC Cf2 b) i = Some e -> e_term e = p_term (n_p b) ->
        (i < N.to_nat (n_commit b))%nat ->
        (N.to_nat (n_commit a) <= N.to_nat (n_commit b))%nat /\
        firstn (N.to_nat (n_commit a)) (llogC Cf2 b) = firstn (N.to_nat (n_commit a)) (llogC Cf1 a).
Proof. exact verify_read_fresh_combined_sys. Qed.
Print Assumptions verify_read_fresh_combined.

(* [FULL] verify_read_fresh over the combined alphabet, ghost-free: b holds in its physical log an entry of its own term with
   index greater than the last index b1 had at the request and at most b's commit index. Then every node's commit
   index of moment 1 is at most b's, and every entry of that node's log up to its commit index is in b's log or under
   b's snapshot. Same alphabet *)
Theorem verify_read_fresh_combined_ghost_free :
  forall (bm : list nid) (be : N), NoDup bm ->
  forall (a0 a1 a2 : asys) (sched1 sched2 : list sys_event),
    minitS a0 -> run asys sys_event (cstep bm be) a0 sched1 a1 -> run asys sys_event (cstep bm be) a1 sched2 a2 ->
    forall a b1 b e,
      In a (sy_nodes (fst a1)) -> In b1 (sy_nodes (fst a1)) -> In b (sy_nodes (fst a2)) ->
      n_role b1 = Leader -> n_id b1 = n_id b -> p_term (n_p b1) = p_term (n_p b) ->
      In e (p_log (n_p b)) -> e_term e = p_term (n_p b) -> last_index (n_p b1) < e_index e -> e_index e <= n_commit b ->
      n_commit a <= n_commit b /\
      forall x, In x (p_log (n_p a)) -> e_index x <= n_commit a ->
        In x (p_log (n_p b)) \/ exists mb, p_snap (n_p b) = Some mb /\ e_index x <= sn_index mb.
Proof. exact verify_read_fresh_combined_entries. Qed.
Print Assumptions verify_read_fresh_combined_ghost_free.

(* [FULL] non-vacuity on C02's 20-step combined run: AddNode 3 committed before the request on leader 1 of term 2; inside the
   window SnapshotDone trims the leader's whole log, InstallSnapshot is delivered to node 3, RemoveNode 2 becomes
   entry 4 of term 2 and is committed by nodes 1 and 3; leader 1 then meets every hypothesis of the ghost-free theorem *)
Theorem verify_read_fresh_combined_nonvacuous :
  exists a0 a1 a2 s1 s2 a b1 b e,
    minitS a0 /\ NoDup [1; 2] /\
    run asys sys_event (cstep [1; 2] 5) a0 s1 a1 /\ run asys sys_event (cstep [1; 2] 5) a1 s2 a2 /\
    In (1, EAddNode 3 77, 0) s1 /\
    In (1, ESnapDone sm3, 0) s2 /\ In (3, EDeliver q15, 0) s2 /\ In (1, ERemoveNode 2, 0) s2 /\
    In a (sy_nodes (fst a1)) /\ In b1 (sy_nodes (fst a1)) /\ In b (sy_nodes (fst a2)) /\
    n_role b1 = Leader /\ n_role b = Leader /\ n_id b1 = n_id b /\ p_term (n_p b1) = p_term (n_p b) /\
    In e (p_log (n_p b)) /\ e_term e = p_term (n_p b) /\ e_type e = EntryConf /\
    last_index (n_p b1) < e_index e /\ e_index e <= n_commit b /\
    0 < n_commit a /\ (exists mb, p_snap (n_p b) = Some mb /\ sn_index mb = 3) /\ length (p_log (n_p b)) = 1%nat.
Proof. exact verify_read_fresh_combined_nonvacuous_ex. Qed.
Print Assumptions verify_read_fresh_combined_nonvacuous.
