(* C03/Props.v - property-level theorems only (statements + `exact`), each followed by Print Assumptions.
   Tags [FULL]/[PARTIAL]/[REFUTED] are read by bin/check. *)
From Coq Require Import List ZArith Bool.
From BLB Require Import C03.Model C03.Proofs.
Import ListNotations.
Open Scope Z_scope.

(* [FULL] for every recorded history (any operations, stamps, outcomes, results, replica states): if the checker
   accepts it then there is a total order of all acknowledged operations plus some indefinite writes and no
   definitely rejected operation, consistent with the observed real-time order, whose sequential replay on the
   revealing state machine yields every returned result, and every recorded replica state is a prefix of the
   writes of that order *)
Theorem check_history_sound :
  forall h, check_history h = true -> replicated_linearizable h.
Proof. exact check_history_sound_lemma. Qed.
Print Assumptions check_history_sound.

(* [FULL] corollary in the plain client-visible form: an accepted history is linearizable w.r.t. the sequential
   specification of the revealing state machine *)
Theorem check_history_sound_linearizable :
  forall h, check_history h = true -> linearizable h.
Proof. intros h H. apply replicated_linearizable_linearizable, check_history_sound_lemma, H. Qed.
Print Assumptions check_history_sound_linearizable.
