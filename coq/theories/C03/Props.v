(* C03/Props.v - property-level theorems only (statements + `exact`), each followed by Print Assumptions.
   Tags [FULL]/[PARTIAL]/[REFUTED] are read by bin/check. *)
From Coq Require Import List ZArith Bool Permutation.
From BLB Require Import Raft.Core Raft.LeaderSuffix C03.Model C03.Proofs C03.Complete C03.Layer C03.LayerCore C03.LayerCoreExample.
Import ListNotations.
Open Scope Z_scope.

(* [FULL] for every recorded history, any operations, stamps, outcomes, results and replica states: if the checker
   accepts it then there is a total order containing all acknowledged operations, some of the indefinite writes
   and no definitely rejected operation, consistent with the observed real-time order, whose sequential replay on
   the revealing term-conditional state machine yields every returned result, every recorded replica state is a
   prefix of the writes of that order, and every acknowledged command is in a recorded replica state *)
Theorem check_history_sound :
  forall h, check_history h = true -> replicated_linearizable h.
Proof. exact check_history_sound_lemma. Qed.
Print Assumptions check_history_sound.

(* [FULL] corollary in the plain client-visible form: an accepted history is linearizable w.r.t. the sequential
   specification of the revealing state machine *)
Theorem check_history_sound_linearizable :
  forall h, check_history h = true -> linearizable h.
Proof. intros h H. apply replicated_linearizable_linearizable, check_history_sound_lemma, H. Qed.
Print Assumptions check_history_sound_linearizable.

(* [FULL] no false alarms: the checker is complete. For every history with pairwise distinct operation ids, if
   ANY total order witnesses replicated linearizability - whatever it is, it need not be given - then the checker
   accepts, using the longest recorded replica state as its own witness; so every rejection, with whatever verdict
   code, is a real violation of the specification, and the internal verdict 13 is unreachable. The sequential
   specification is the revealing state machine, which is what makes the log order the only possible witness *)
Theorem check_history_complete_for_revealing_fsm :
  forall h, NoDup (map oid (hops h)) -> replicated_linearizable h -> check_history h = true.
Proof. exact check_history_complete_lemma. Qed.
Print Assumptions check_history_complete_for_revealing_fsm.

(* [FULL] the state machine is revealing: in ANY two linearizations of a history an acknowledged operation has the
   same number of commands before it, namely the number its result reveals; so the linearization order of the
   acknowledged commands is unique and no order other than the one the results name can be a witness *)
Theorem revealing_order_unique :
  forall h lin1 lin2, linearization h lin1 -> linearization h lin2 ->
  forall o t1 t2 i j, nth_error lin1 i = Some (o, t1) -> nth_error lin2 j = Some (o, t2) -> oout o = OOk ->
  wcount (firstn i lin1) = wcount (firstn j lin2).
Proof. exact revealing_order_unique_lemma. Qed.
Print Assumptions revealing_order_unique.

(* [PARTIAL] layer model of runLeader and handleCommits, for every event sequence that satisfies the named core
   contract core_contract, which is assumed and not proved here - entries returned by TakeNewlyCommitted in the
   loop are in order a prefix of the entries handed to core.Propose in the loop: the queue is never empty when a
   commit arrives, the k-th committed entry is paired with the k-th enqueued waiter, a Normal entry is paired
   with the Pending of the request it was proposed for and that Pending receives the result of applying its own
   command in the FSM state reached by the entries before it, a NOP entry is paired with a VerifyRead group.
   Membership entries and pendingReconfig are outside the model *)
Theorem pairing_correct :
  forall (St R : Type) (apply : St -> Z -> St * R) cur evs,
  core_contract R cur evs ->
  let st := run R cur evs in
  fatal R st = false /\
  map fst (tofsm R st) = committed R st /\
  map snd (tofsm R st) = firstn (length (committed R st)) (enqueued R st) /\
  (forall k cmd tag c, nth_error (tofsm R st) k = Some (ENormal cmd tag, c) ->
     c = CPending tag /\
     (exists r, In r (reqs R st) /\ rp r = tag /\ rcmd r = cmd) /\
     forall s0, In (tag, Applied R (Some (snd (apply (fsm_state St R apply s0 (firstn k (tofsm R st))) cmd))))
                   (fsm_run St R apply s0 (tofsm R st))) /\
  (forall k c, nth_error (tofsm R st) k = Some (ENop, c) -> exists g, c = CGroup g).
Proof. exact pairing_lemma. Qed.
Print Assumptions pairing_correct.

(* [PARTIAL] same model and contract, Pending ids pairwise distinct: no Pending is concluded twice or concluded
   while still queued, and once the leader loop has ended every Pending received was concluded exactly once *)
Theorem pending_concluded_exactly_once :
  forall (St R : Type) (apply : St -> Z -> St * R) cur evs s0,
  core_contract R cur evs ->
  let st := run R cur evs in
  NoDup (seen R st) ->
  NoDup (map fst (concl R st ++ fsm_run St R apply s0 (tofsm R st)) ++
         flat_map (fun ce => pids (fst ce)) (queue R st)) /\
  (leading R st = false ->
   Permutation (map fst (concl R st ++ fsm_run St R apply s0 (tofsm R st))) (seen R st)).
Proof. exact concluded_once_lemma. Qed.
Print Assumptions pending_concluded_exactly_once.

(* [PARTIAL] same model and contract: a request answered with ErrNodeNotLeader or ErrTermMismatch was never
   handed to core.Propose, the term filter being evaluated inside the loop *)
Theorem definite_error_never_proposed :
  forall (R : Type) cur evs,
  core_contract R cur evs ->
  let st := run R cur evs in
  NoDup (seen R st) ->
  forall p o, In (p, o) (concl R st) -> (o = ENotLeader R \/ o = ETermMismatch R) ->
  forall cmd, ~ In (ENormal cmd p) (proposed R st).
Proof. exact definite_error_never_proposed_lemma. Qed.
Print Assumptions definite_error_never_proposed.

(* [FULL] pairing_correct without the core_contract hypothesis, for every run of the leader loop whose core events come
   from the Raft node model of Raft/Core.v - start loop_start s0 as in leader_commits_own_suffix of C02, any sequence of
   coupled iterations CProp batch, CVerify group, CCore with Deliver of any message or Tick or Bootstrap, each a completed
   core step after which the node still leads the same term, the committed entries returned by the node model handed to
   the layer by position, the term filter using the node's term; then optionally EvStepDown followed by any layer
   events. Restricted alphabet - no membership change, no snapshot-done, no restart inside one leadership, membership
   entries not modelled. Conclusions as in pairing_correct *)
Theorem pairing_correct_over_raft_core :
  forall (St R : Type) (apply : St -> Z -> St * R) s0 its evs s tail,
  loop_start s0 -> crun R (loop_term s0) (cstart R s0) its evs s -> tail_ok tail ->
  let st := run R (loop_term s0) (evs ++ tail) in
  fatal R st = false /\
  map fst (tofsm R st) = committed R st /\
  map snd (tofsm R st) = firstn (length (committed R st)) (enqueued R st) /\
  (forall k cmd tag c, nth_error (tofsm R st) k = Some (ENormal cmd tag, c) ->
     c = CPending tag /\
     (exists r, In r (reqs R st) /\ rp r = tag /\ rcmd r = cmd) /\
     forall f0, In (tag, Applied R (Some (snd (apply (fsm_state St R apply f0 (firstn k (tofsm R st))) cmd))))
                   (fsm_run St R apply f0 (tofsm R st))) /\
  (forall k c, nth_error (tofsm R st) k = Some (ENop, c) -> exists g, c = CGroup g).
Proof. exact pairing_over_raft_lemma. Qed.
Print Assumptions pairing_correct_over_raft_core.

(* [FULL] the coupling is faithful, same runs and alphabet: the layer state is the layer run on the emitted events, it
   still leads, and the entries it was handed as committed and holds as proposed are - up to the ghost tag, that is in
   type and command, entry by entry in order - exactly what the Raft node model returned from TakeNewlyCommitted and
   was handed through core.Propose; this is where leader_commits_own_suffix of C02 is used *)
Theorem coupled_commits_are_core_commits :
  forall (R : Type) cur s0 its evs l c,
  loop_start s0 -> crun R cur (cstart R s0) its evs (l, c) ->
  l = run R cur evs /\ leading R l = true /\
  map (er) (committed R l) = map cmd_of (lp_comm c) /\
  map (er) (proposed R l) = map cmd_of (lp_prop c) /\
  exists cevs, loop_run {| lp_node := s0; lp_prop := []; lp_comm := [] |} cevs c.
Proof. exact coupled_faithful. Qed.
Print Assumptions coupled_commits_are_core_commits.

(* [FULL] pending_concluded_exactly_once without the core_contract hypothesis, same runs and restricted alphabet as
   pairing_correct_over_raft_core, Pending ids pairwise distinct *)
Theorem pending_concluded_exactly_once_over_raft_core :
  forall (St R : Type) (apply : St -> Z -> St * R) s0 its evs s tail f0,
  loop_start s0 -> crun R (loop_term s0) (cstart R s0) its evs s -> tail_ok tail ->
  let st := run R (loop_term s0) (evs ++ tail) in
  NoDup (seen R st) ->
  NoDup (map fst (concl R st ++ fsm_run St R apply f0 (tofsm R st)) ++
         flat_map (fun ce => pids (fst ce)) (queue R st)) /\
  (leading R st = false ->
   Permutation (map fst (concl R st ++ fsm_run St R apply f0 (tofsm R st))) (seen R st)).
Proof. exact concluded_once_over_raft_lemma. Qed.
Print Assumptions pending_concluded_exactly_once_over_raft_core.

(* [FULL] definite_error_never_proposed without the core_contract hypothesis, same runs and restricted alphabet *)
Theorem definite_error_never_proposed_over_raft_core :
  forall (R : Type) s0 its evs s tail,
  loop_start s0 -> crun R (loop_term s0) (cstart R s0) its evs s -> tail_ok tail ->
  let st := run R (loop_term s0) (evs ++ tail) in
  NoDup (seen R st) ->
  forall p o, In (p, o) (concl R st) -> (o = ENotLeader R \/ o = ETermMismatch R) ->
  forall cmd, ~ In (ENormal cmd p) (proposed R st).
Proof. exact definite_error_over_raft_lemma. Qed.
Print Assumptions definite_error_never_proposed_over_raft_core.

(* [FULL] non-vacuity of the composition: a concrete coupled run over the node model - the term-2 leader of the C02
   example gets one Propose request through the layer, a tick, the follower's acknowledgement - ends with the waiter of
   request 1 paired with the committed entry of its command 43 and an empty queue *)
Theorem coupled_run_nonvacuous_thm :
  exists evs l c,
    crun unit (loop_term Raft.LeaderSuffixExample.ldr0) (cstart unit Raft.LeaderSuffixExample.ldr0) ex_its evs (l, c) /\
    tofsm unit l = [(ENormal 43 1, CPending 1)] /\
    map cmd_of (lp_comm c) = [(EntryNormal, [43])] /\ queue unit l = [] /\ length evs = 4%nat.
Proof. exact coupled_run_nonvacuous. Qed.
Print Assumptions coupled_run_nonvacuous_thm.

From BLB Require Import Raft.LeaderSuffixS C03.LeaderLoopSnap C03.LayerCoreS C03.LayerCoreSExample.

(* [FULL] the leader-loop contract for leaderships that contain SnapshotDone events, node level over Raft Core.v: start
   state as in leader_commits_own_suffix_with_snapshots of C02 - Leader, log contiguous with the snapshot, snapshot
   index at most the commit index, commit index equal to the last index; events Deliver of any message, Tick, Propose,
   Bootstrap leaving the node leader of the same term, and SnapshotDone with an applied position, 1 up to the commit
   index, which commits the snapshot metadata and trims the log. After every event what was committed so far followed
   by the newly returned entries is a prefix of what was proposed so far *)
Theorem leader_commits_own_suffix_with_snapshot_done :
  forall s0 evs st1 ev st2,
    loop_start_snap s0 -> loop_runS {| lp_node := s0; lp_prop := []; lp_comm := [] |} evs st1 -> loop_stepS st1 ev st2 ->
    lp_comm st2 = lp_comm st1 ++ n_commits (lp_node st2) /\
    lp_prop st2 = lp_prop st1 ++ proposed_by (lp_node st1) ev /\
    Raft.LeaderSuffix.prefix (lp_comm st1 ++ n_commits (lp_node st2)) (lp_prop st2).
Proof. exact leader_commits_own_suffix_snapdone_stepwise. Qed.
Print Assumptions leader_commits_own_suffix_with_snapshot_done.

(* [FULL] pairing_correct over the Raft core for leaderships with snapshots - the start state may hold a snapshot and
   the leadership may contain SnapshotDone events with an applied position, CCoreS of ESnapDone; otherwise the coupled
   iterations, tail and conclusions of pairing_correct_over_raft_core. Still outside one leadership - AddNode and
   RemoveNode; a Restart ends the leadership *)
Theorem pairing_correct_over_raft_core_with_snapshots :
  forall (St R : Type) (apply : St -> Z -> St * R) s0 its evs s tail,
  loop_start_snap s0 -> crunS R (loop_termS s0) (cstartS R s0) its evs s -> tail_okS tail ->
  let st := run R (loop_termS s0) (evs ++ tail) in
  fatal R st = false /\
  map fst (tofsm R st) = committed R st /\
  map snd (tofsm R st) = firstn (length (committed R st)) (enqueued R st) /\
  (forall k cmd tag c, nth_error (tofsm R st) k = Some (ENormal cmd tag, c) ->
     c = CPending tag /\
     (exists r, In r (reqs R st) /\ rp r = tag /\ rcmd r = cmd) /\
     forall f0, In (tag, Applied R (Some (snd (apply (fsm_state St R apply f0 (firstn k (tofsm R st))) cmd))))
                   (fsm_run St R apply f0 (tofsm R st))) /\
  (forall k c, nth_error (tofsm R st) k = Some (ENop, c) -> exists g, c = CGroup g).
Proof. exact pairing_over_raft_lemmaS. Qed.
Print Assumptions pairing_correct_over_raft_core_with_snapshots.

(* [FULL] the coupling with snapshots is faithful - same runs - the entries handed to the layer are in type and command
   and order what the node model returned from TakeNewlyCommitted and got through core.Propose *)
Theorem coupled_commits_are_core_commits_with_snapshots :
  forall (R : Type) cur s0 its evs l c,
  loop_start_snap s0 -> crunS R cur (cstartS R s0) its evs (l, c) ->
  l = run R cur evs /\ leading R l = true /\
  map erS (committed R l) = map cmd_of (lp_comm c) /\
  map erS (proposed R l) = map cmd_of (lp_prop c) /\
  exists cevs, loop_runS {| lp_node := s0; lp_prop := []; lp_comm := [] |} cevs c.
Proof. exact coupled_faithfulS. Qed.
Print Assumptions coupled_commits_are_core_commits_with_snapshots.

(* [FULL] pending_concluded_exactly_once over the Raft core for leaderships with snapshots, same runs *)
Theorem pending_concluded_exactly_once_over_raft_core_with_snapshots :
  forall (St R : Type) (apply : St -> Z -> St * R) s0 its evs s tail f0,
  loop_start_snap s0 -> crunS R (loop_termS s0) (cstartS R s0) its evs s -> tail_okS tail ->
  let st := run R (loop_termS s0) (evs ++ tail) in
  NoDup (seen R st) ->
  NoDup (map fst (concl R st ++ fsm_run St R apply f0 (tofsm R st)) ++
         flat_map (fun ce => pids (fst ce)) (queue R st)) /\
  (leading R st = false ->
   Permutation (map fst (concl R st ++ fsm_run St R apply f0 (tofsm R st))) (seen R st)).
Proof. exact concluded_once_over_raft_lemmaS. Qed.
Print Assumptions pending_concluded_exactly_once_over_raft_core_with_snapshots.

(* [FULL] definite_error_never_proposed over the Raft core for leaderships with snapshots, same runs *)
Theorem definite_error_never_proposed_over_raft_core_with_snapshots :
  forall (R : Type) s0 its evs s tail,
  loop_start_snap s0 -> crunS R (loop_termS s0) (cstartS R s0) its evs s -> tail_okS tail ->
  let st := run R (loop_termS s0) (evs ++ tail) in
  NoDup (seen R st) ->
  forall p o, In (p, o) (concl R st) -> (o = ENotLeader R \/ o = ETermMismatch R) ->
  forall cmd, ~ In (ENormal cmd p) (proposed R st).
Proof. exact definite_error_over_raft_lemmaS. Qed.
Print Assumptions definite_error_never_proposed_over_raft_core_with_snapshots.

(* [FULL] non-vacuity with a SnapshotDone inside the leadership: request 1 proposed, committed and paired, then
   fsmSnapshotDone for position 3 trims the whole log of the leader, then request 2 is proposed on the trimmed log
   at index 4 and waits in the queue *)
Theorem coupled_run_with_snapshot_done_nonvacuous_thm :
  exists evs l c,
    crunS unit (loop_termS Raft.LeaderSuffixExample.ldr0) (cstartS unit Raft.LeaderSuffixExample.ldr0) exS_its evs (l, c) /\
    tofsm unit l = [(ENormal 43 1, CPending 1)] /\
    proposed unit l = [ENormal 43 1; ENormal 44 2] /\ queue unit l = [(CPending 2, ENormal 44 2)] /\
    p_log (n_p (lp_node c)) = [{| e_term := 2; e_index := 4; e_type := EntryNormal; e_pl := [44%Z] |}] /\
    p_snap (n_p (lp_node c)) = Some sm3 /\ n_role (lp_node c) = Leader.
Proof. exact coupled_run_with_snapshot_done_nonvacuous. Qed.
Print Assumptions coupled_run_with_snapshot_done_nonvacuous_thm.
