(* C03/LayerCoreSExample.v - non-vacuity of the composition with SnapshotDone inside the leadership: the term-2 leader of
   Raft/LeaderSuffixExample.v gets request 1 (command 43) through the layer, a tick, the follower's acknowledgement
   (entry 3 committed and paired), then fsmSnapshotDone for position 3 trims its WHOLE log, then request 2 (command 44)
   is proposed on the trimmed log (index 4). *)
From Coq Require Import List NArith ZArith Bool Lia.
From BLB Require Import Raft.Core Raft.LeaderSuffix Raft.LeaderSuffixS Raft.LeaderSuffixExample C03.Layer C03.LeaderLoopSnap C03.LayerCoreS.
Import ListNotations.

Definition sm3 : snapmeta := {| sn_index := 3; sn_term := 2; sn_conf := None |}.
Definition ldr4 : node := Eval vm_compute in step_node ldr3 (ESnapDone sm3).
Definition e4 : Core.entry := {| e_term := 0; e_index := 0; e_type := EntryNormal; e_pl := [44%Z] |}.
Definition ldr5 : node := Eval vm_compute in step_node ldr4 (EPropose [e4]).

Definition exS_its : list citerS :=
  [CPropS [mkReq 1 43%Z 0%Z]; CCoreS ETick; CCoreS (EDeliver m15); CCoreS (ESnapDone sm3); CPropS [mkReq 2 44%Z 2%Z]].

Lemma exS_start : loop_start_snap ldr0.
Proof. apply loop_start_is_snap. unfold loop_start. split; [reflexivity|]. split; [reflexivity|]. split; [simpl; auto | reflexivity]. Qed.

Example coupled_run_with_snapshot_done_nonvacuous :
  exists evs l c,
    crunS unit (loop_termS ldr0) (cstartS unit ldr0) exS_its evs (l, c) /\
    tofsm unit l = [(ENormal 43%Z 1, CPending 1)] /\
    proposed unit l = [ENormal 43%Z 1; ENormal 44%Z 2] /\ queue unit l = [(CPending 2, ENormal 44%Z 2)] /\
    p_log (n_p (lp_node c)) = [{| e_term := 2; e_index := 4; e_type := EntryNormal; e_pl := [44%Z] |}] /\
    p_snap (n_p (lp_node c)) = Some sm3 /\ n_role (lp_node c) = Leader.
Proof.
  eexists. eexists. eexists. split.
  { unfold exS_its. eapply crun_consS.
  { eapply CSPropS.
    - vm_compute. discriminate.
    - apply LSev. apply (loop_step_exec _ (EPropose [e3]) 0%N ldr1); [exact I | vm_compute; reflexivity | reflexivity | reflexivity]. }
  eapply crun_consS.
  { eapply CSCoreS; [exact I|]. apply LSev.
    apply (loop_step_exec _ ETick 0%N ldr2); [exact I | vm_compute; reflexivity | reflexivity | reflexivity]. }
  eapply crun_consS.
  { eapply CSCoreS; [exact I|]. apply LSev.
    apply (loop_step_exec _ (EDeliver m15) 0%N ldr3); [exact I | vm_compute; reflexivity | reflexivity | reflexivity]. }
  eapply crun_consS.
  { eapply CSCoreS; [exact I|].
    eapply (LSsnap _ sm3 0%N ldr4); [split; vm_compute; discriminate | vm_compute; reflexivity]. }
  eapply crun_consS.
  { eapply CSPropS.
    - vm_compute. discriminate.
    - apply LSev. apply (loop_step_exec _ (EPropose [e4]) 0%N ldr5); [exact I | vm_compute; reflexivity | reflexivity | reflexivity]. }
  apply crun_nilS. }
  repeat split; vm_compute; reflexivity.
Qed.
