(* C03/LayerCore.v - the leader-loop layer model (Layer.v) composed with the Raft node model (Raft/Core.v), so that
   the layer theorems hold WITHOUT the hypothesis core_contract: it is discharged by Raft/LeaderSuffix.v
   (leader_commits_own_suffix, C02).

   One iteration of runLeader, coupled:
     CProp batch  - the propCh case: the layer filters by term and enqueues; the accepted commands are handed to the
                    node model as ONE event EPropose (if none is accepted nothing reaches the core);
     CVerify g    - the verifyReadCh case: one EntryNOP is proposed for the drained group;
     CCore ev     - a transport message, a tick (or a bootstrap request): ev is EDeliver m, ETick or EBootstrap;
   in every case the core event is a completed Raft.LeaderSuffix.loop_step (the node is still leader of the same term)
   and the entries the node model returns from TakeNewlyCommitted (n_commits) are handed to the layer as EvCommit.
   The layer's entries carry a ghost tag (which Pending a log entry was proposed for) that core entries do not have;
   raft.go pairs by POSITION, so the tagged form of the k core entries just committed is the next k entries of the
   layer's ghost list `proposed` after `committed`. That this is faithful - the core entries returned ARE, up to the
   ghost tag, these k entries: same type and same command, in the same order, and there are at least k of them - is
   exactly what leader_commits_own_suffix gives (coupled_faithful below).
   Alphabet = that of Raft.LeaderSuffix: within one leadership no AddNode/RemoveNode, no SnapshotDone, no Restart
   (Layer.v does not model membership entries either). After the leadership: EvStepDown and then arbitrary layer events. *)
From Coq Require Import List NArith ZArith Bool Lia Permutation.
From BLB Require Import Raft.Core Raft.LeaderSuffix C03.Layer.
Import ListNotations.

Section LayerCore.
Variable R : Type.

(* a layer entry as the command handed to core.Propose, and its erasure (type, payload) = LeaderSuffix.cmd_of *)
Definition enc (e : Layer.entry) : Core.entry :=
  match e with
  | ENormal cmd _ => {| e_term := 0; e_index := 0; e_type := EntryNormal; e_pl := [cmd] |}
  | ENop => {| e_term := 0; e_index := 0; e_type := EntryNOP; e_pl := [] |}
  end.
Definition er (e : Layer.entry) : N * list Z := cmd_of (enc e).

Inductive citer :=
| CProp (batch : list req)
| CVerify (g : list nat)
| CCore (ev : Core.event).

Definition core_only (ev : Core.event) : Prop :=
  match ev with EDeliver _ | ETick | EBootstrap _ _ => True | _ => False end.

(* the tagged form of the next k committed entries: positional *)
Definition next_committed (l : lstate R) (k : nat) : list Layer.entry :=
  firstn k (skipn (length (committed R l)) (proposed R l)).

Definition commit_event (l : lstate R) (c : loop_st) : Layer.event :=
  EvCommit (next_committed l (length (n_commits (lp_node c)))).

Definition cstate := (lstate R * loop_st)%type.

(* cstep cur s it evs s' : iteration it takes s to s' and feeds the layer events evs *)
Inductive cstep (cur : Z) : cstate -> citer -> list Layer.event -> cstate -> Prop :=
| CSPropNone : forall l c batch,
    filter (term_ok cur) batch = [] ->
    cstep cur (l, c) (CProp batch) [EvProp batch] (step R cur l (EvProp batch), c)
| CSProp : forall l c batch c1,
    filter (term_ok cur) batch <> [] ->
    loop_step c (EPropose (map enc (map ent_of (filter (term_ok cur) batch)))) c1 ->
    let l1 := step R cur l (EvProp batch) in
    cstep cur (l, c) (CProp batch) [EvProp batch; commit_event l1 c1] (step R cur l1 (commit_event l1 c1), c1)
| CSVerify : forall l c g c1,
    loop_step c (EPropose [enc ENop]) c1 ->
    let l1 := step R cur l (EvVerify g) in
    cstep cur (l, c) (CVerify g) [EvVerify g; commit_event l1 c1] (step R cur l1 (commit_event l1 c1), c1)
| CSCore : forall l c ev c1,
    core_only ev -> loop_step c ev c1 ->
    cstep cur (l, c) (CCore ev) [commit_event l c1] (step R cur l (commit_event l c1), c1).

Inductive crun (cur : Z) : cstate -> list citer -> list Layer.event -> cstate -> Prop :=
| crun_nil : forall s, crun cur s [] [] s
| crun_cons : forall s it evs s1 its evs' s2,
    cstep cur s it evs s1 -> crun cur s1 its evs' s2 -> crun cur s (it :: its) (evs ++ evs') s2.

Definition cstart (s0 : node) : cstate := (init R, {| lp_node := s0; lp_prop := []; lp_comm := [] |}).

(* ---------- small facts about the layer ---------- *)
Lemma fold_pair_fields ents : forall st,
  let st' := fold_left (pair_one R) ents st in
  committed R st' = committed R st ++ ents /\ proposed R st' = proposed R st /\ leading R st' = leading R st.
Proof.
  induction ents as [|e ents IH]; intros st; simpl.
  - rewrite app_nil_r. auto.
  - destruct (IH (pair_one R st e)) as [A [B C]]. rewrite A, B, C.
    unfold pair_one. destruct (queue R st) as [|[c g] q]; simpl; rewrite <- app_assoc; auto.
Qed.

Lemma run_ok_app cur a : forall st b,
  run_ok R cur st (a ++ b) <-> run_ok R cur st a /\ run_ok R cur (fold_left (step R cur) a st) b.
Proof.
  induction a as [|ev a IH]; intros st b; simpl; [tauto|]. rewrite IH. tauto.
Qed.

Lemma prefix_map {A B} (f : A -> B) a b : Layer.prefix a b -> Layer.prefix (map f a) (map f b).
Proof. intros [c Hc]. subst b. exists (map f c). apply map_app. Qed.

Lemma prefix_app_cancel {A} (a x y : list A) : Layer.prefix (a ++ x) (a ++ y) -> Layer.prefix x y.
Proof. intros [c H]. rewrite <- app_assoc in H. apply app_inv_head in H. exists c. exact H. Qed.

Lemma prefix_firstn {A} (x y : list A) : Layer.prefix x y -> x = firstn (length x) y.
Proof. intros [c Hc]. subst y. rewrite firstn_app, Nat.sub_diag, firstn_all. simpl. rewrite app_nil_r. reflexivity. Qed.

Lemma map_er_enc l : map cmd_of (map enc l) = map er l.
Proof. rewrite map_map. reflexivity. Qed.

(* ---------- the coupling invariant ---------- *)
Record CInv (cur : Z) (s0 : node) (evs : list Layer.event) (cevs : list Core.event) (s : cstate) : Prop := {
  ci_layer : fst s = run R cur evs;
  ci_ok    : core_contract R cur evs;
  ci_lead  : leading R (fst s) = true;
  ci_core  : loop_run {| lp_node := s0; lp_prop := []; lp_comm := [] |} cevs (snd s);
  ci_prop  : map er (proposed R (fst s)) = map cmd_of (lp_prop (snd s));
  ci_comm  : map er (committed R (fst s)) = map cmd_of (lp_comm (snd s))
}.

Lemma run_snoc cur evs more : run R cur (evs ++ more) = fold_left (step R cur) more (run R cur evs).
Proof. unfold run. apply fold_left_app. Qed.

(* the heart: after a core loop_step, handing the positional slice to the layer keeps everything in step, and the
   slice IS what the core returned *)
Lemma commit_coupled cur s0 evs cevs l c ev c1 :
  loop_start s0 ->
  l = run R cur evs -> core_contract R cur evs -> leading R l = true ->
  loop_run {| lp_node := s0; lp_prop := []; lp_comm := [] |} cevs c ->
  map er (committed R l) = map cmd_of (lp_comm c) ->
  loop_step c ev c1 ->
  map er (proposed R l) = map cmd_of (lp_prop c1) ->
  map er (next_committed l (length (n_commits (lp_node c1)))) = map cmd_of (n_commits (lp_node c1)) /\
  CInv cur s0 (evs ++ [commit_event l c1]) (cevs ++ [ev]) (step R cur l (commit_event l c1), c1).
Proof.
  intros H0 Hl Hok Hlead Hcore Hc Hstep Hp1.
  destruct (leader_commits_own_suffix_stepwise s0 cevs c ev c1 H0 Hcore Hstep) as [Ec [Epp Pre]].
  pose proof (run_Inv R cur evs Hok) as HI. rewrite <- Hl in HI.
  pose proof (inv_prop R l HI) as IP.
  set (rest := map snd (queue R l) ++ map snd (failed R l)) in *.
  set (new := n_commits (lp_node c1)) in *.
  assert (skipn (length (committed R l)) (proposed R l) = rest) as ESK.
  { rewrite IP. rewrite skipn_app, Nat.sub_diag, skipn_all. reflexivity. }
  assert (Layer.prefix (map cmd_of new) (map er rest)) as PN.
  { apply (prefix_app_cancel (map er (committed R l))).
    rewrite <- map_app, <- IP, Hc, Hp1, <- map_app.
    destruct Pre as [x Hx]. exists (map cmd_of x). rewrite Hx, map_app. reflexivity. }
  assert (map er (next_committed l (length new)) = map cmd_of new) as EF.
  { unfold next_committed. rewrite ESK. rewrite <- firstn_map.
    transitivity (firstn (length (map cmd_of new)) (map er rest)).
    - rewrite map_length. reflexivity.
    - symmetry. apply prefix_firstn, PN. }
  split; [exact EF|].
  unfold commit_event. fold new.
  destruct (fold_pair_fields (next_committed l (length new)) l) as [FA [FB FC]].
  constructor; simpl.
  - rewrite run_snoc, <- Hl. reflexivity.
  - unfold core_contract in *. apply run_ok_app. split; [exact Hok|].
    fold (run R cur evs). rewrite <- Hl. simpl. split; [|exact I].
    intros _. unfold next_committed. rewrite ESK, IP.
    exists (skipn (length new) rest). rewrite <- app_assoc. rewrite firstn_skipn. reflexivity.
  - rewrite Hlead. rewrite FC. exact Hlead.
  - apply loop_run_snoc with (st1 := c); assumption.
  - rewrite Hlead. rewrite FB. exact Hp1.
  - rewrite Hlead. rewrite FA, map_app, Hc, EF, Ec, map_app. reflexivity.
Qed.

Lemma cstep_inv cur s0 evs cevs s it new s' :
  loop_start s0 -> CInv cur s0 evs cevs s -> cstep cur s it new s' ->
  exists cnew, CInv cur s0 (evs ++ new) (cevs ++ cnew) s'.
Proof.
  intros H0 HI Hs. destruct HI as [Hl Hok Hlead Hcore Hp Hc].
  destruct Hs as [l c batch Hnone | l c batch c1 Hsome Hstep l1 | l c g c1 Hstep l1 | l c ev c1 Hev Hstep]; simpl in *.
  - exists []. rewrite app_nil_r. constructor; simpl.
    + rewrite run_snoc, <- Hl. reflexivity.
    + unfold core_contract in *. apply run_ok_app. split; [exact Hok|]. simpl. auto.
    + rewrite Hlead. reflexivity.
    + exact Hcore.
    + rewrite Hlead. simpl. rewrite Hnone. simpl. rewrite app_nil_r. exact Hp.
    + rewrite Hlead. simpl. exact Hc.
  - destruct (leader_commits_own_suffix_stepwise s0 cevs c _ c1 H0 Hcore Hstep) as [_ [Epp _]].
    exists [EPropose (map enc (map ent_of (filter (term_ok cur) batch)))].
    replace (evs ++ [EvProp batch; commit_event l1 c1]) with ((evs ++ [EvProp batch]) ++ [commit_event l1 c1])
      by (rewrite <- app_assoc; reflexivity).
    apply (commit_coupled cur s0 (evs ++ [EvProp batch]) cevs l1 c _ c1 H0); try assumption.
    + unfold l1. rewrite run_snoc, <- Hl. reflexivity.
    + unfold core_contract in *. apply run_ok_app. split; [exact Hok|]. simpl. auto.
    + unfold l1. simpl. rewrite Hlead. reflexivity.
    + unfold l1. simpl. rewrite Hlead. simpl. exact Hc.
    + rewrite Epp. unfold l1. simpl. rewrite Hlead. simpl. rewrite !map_app, Hp. f_equal.
      rewrite cmd_of_stamp. rewrite map_er_enc. reflexivity.
  - destruct (leader_commits_own_suffix_stepwise s0 cevs c _ c1 H0 Hcore Hstep) as [_ [Epp _]].
    exists [EPropose [enc ENop]].
    replace (evs ++ [EvVerify g; commit_event l1 c1]) with ((evs ++ [EvVerify g]) ++ [commit_event l1 c1])
      by (rewrite <- app_assoc; reflexivity).
    apply (commit_coupled cur s0 (evs ++ [EvVerify g]) cevs l1 c _ c1 H0); try assumption.
    + unfold l1. rewrite run_snoc, <- Hl. reflexivity.
    + unfold core_contract in *. apply run_ok_app. split; [exact Hok|]. simpl. auto.
    + unfold l1. simpl. rewrite Hlead. reflexivity.
    + unfold l1. simpl. rewrite Hlead. simpl. exact Hc.
    + rewrite Epp. unfold l1. simpl. rewrite Hlead. simpl. rewrite !map_app, Hp. reflexivity.
  - destruct (leader_commits_own_suffix_stepwise s0 cevs c _ c1 H0 Hcore Hstep) as [_ [Epp _]].
    exists [ev]. apply (commit_coupled cur s0 evs cevs l c ev c1 H0); try assumption.
    rewrite Epp, Hp. destruct ev; simpl in Hev; try contradiction; simpl; rewrite app_nil_r; reflexivity.
Qed.

Lemma CInv_start cur s0 : CInv cur s0 [] [] (cstart s0).
Proof. constructor; simpl; auto; try constructor. Qed.

Lemma crun_inv cur s0 : forall s its new s',
  loop_start s0 -> crun cur s its new s' ->
  forall evs cevs, CInv cur s0 evs cevs s -> exists cnew, CInv cur s0 (evs ++ new) (cevs ++ cnew) s'.
Proof.
  intros s its new s' H0 Hr. induction Hr as [s | s it e1 s1 its e2 s2 Hs Hr IH]; intros evs cevs HI.
  - exists []. rewrite !app_nil_r. exact HI.
  - destruct (cstep_inv cur s0 evs cevs s it e1 s1 H0 HI Hs) as [c1 HI1].
    destruct (IH _ _ HI1) as [c2 HI2]. exists (c1 ++ c2). rewrite !app_assoc. exact HI2.
Qed.

(* after the leadership: the loop ends (EvStepDown), then anything *)
Definition tail_ok (tail : list Layer.event) : Prop := tail = [] \/ exists t, tail = EvStepDown :: t.

Lemma step_nonleading cur st ev : leading R st = false -> leading R (step R cur st ev) = false.
Proof. intros H. destruct ev; simpl; rewrite H; simpl; auto. Qed.

Lemma run_ok_nonleading cur t : forall st, leading R st = false -> run_ok R cur st t.
Proof.
  induction t as [|ev t IH]; intros st H; simpl; [exact I|]. split.
  - destruct ev; simpl; auto. intros Hl. congruence.
  - apply IH, step_nonleading, H.
Qed.

(* the contract assumed by Layer.v holds for every run whose core events come from the Raft node model *)
Lemma coupled_core_contract cur s0 its evs s tail :
  loop_start s0 -> crun cur (cstart s0) its evs s -> tail_ok tail -> core_contract R cur (evs ++ tail).
Proof.
  intros H0 Hr Ht. destruct (crun_inv cur s0 _ _ _ _ H0 Hr [] [] (CInv_start cur s0)) as [cnew HI]. simpl in HI.
  destruct HI as [Hl Hok Hlead _ _ _].
  destruct Ht as [E | [t E]]; subst tail.
  - rewrite app_nil_r. exact Hok.
  - unfold core_contract in *. apply run_ok_app. split; [exact Hok|]. simpl. split; [exact I|].
    apply run_ok_nonleading. fold (run R cur evs). rewrite <- Hl. rewrite Hlead. reflexivity.
Qed.

(* faithfulness of the coupling: what the layer was handed as committed / holds as proposed is, up to the ghost tag,
   what the node model returned from TakeNewlyCommitted / was handed by core.Propose, entry by entry in order *)
Lemma coupled_faithful cur s0 its evs l c :
  loop_start s0 -> crun cur (cstart s0) its evs (l, c) ->
  l = run R cur evs /\ leading R l = true /\
  map er (committed R l) = map cmd_of (lp_comm c) /\
  map er (proposed R l) = map cmd_of (lp_prop c) /\
  exists cevs, loop_run {| lp_node := s0; lp_prop := []; lp_comm := [] |} cevs c.
Proof.
  intros H0 Hr. destruct (crun_inv cur s0 _ _ _ _ H0 Hr [] [] (CInv_start cur s0)) as [cnew HI]. simpl in HI.
  destruct HI as [Hl Hok Hlead Hcore Hp Hc]. simpl in *. repeat split; try assumption. exists cnew. exact Hcore.
Qed.

(* the term the loop filters by is the node's term (constant during the loop: every loop_step keeps it) *)
Definition loop_term (s0 : node) : Z := Z.of_N (p_term (n_p s0)).

End LayerCore.

(* ---------- the three layer theorems without the core_contract hypothesis ---------- *)
Lemma pairing_over_raft_lemma (St R : Type) (apply : St -> Z -> St * R) s0 its evs s tail :
  loop_start s0 -> crun R (loop_term s0) (cstart R s0) its evs s -> tail_ok tail ->
  let st := run R (loop_term s0) (evs ++ tail) in
  fatal R st = false /\
  map fst (tofsm R st) = committed R st /\
  map snd (tofsm R st) = firstn (length (committed R st)) (enqueued R st) /\
  (forall k cmd tag c, nth_error (tofsm R st) k = Some (ENormal cmd tag, c) ->
     c = CPending tag /\
     (exists r, In r (reqs R st) /\ rp r = tag /\ rcmd r = cmd) /\
     forall f0, In (tag, Applied R (Some (snd (apply (fsm_state St R apply f0 (firstn k (tofsm R st))) cmd))))
                   (fsm_run St R apply f0 (tofsm R st))) /\
  (forall k c, nth_error (tofsm R st) k = Some (ENop, c) -> exists g, c = CGroup g).
Proof.
  intros H0 Hr Ht. apply (pairing_lemma St R apply). eapply coupled_core_contract; eauto.
Qed.

Lemma concluded_once_over_raft_lemma (St R : Type) (apply : St -> Z -> St * R) s0 its evs s tail f0 :
  loop_start s0 -> crun R (loop_term s0) (cstart R s0) its evs s -> tail_ok tail ->
  let st := run R (loop_term s0) (evs ++ tail) in
  NoDup (seen R st) ->
  NoDup (map fst (concl R st ++ fsm_run St R apply f0 (tofsm R st)) ++
         flat_map (fun ce => pids (fst ce)) (queue R st)) /\
  (leading R st = false ->
   Permutation (map fst (concl R st ++ fsm_run St R apply f0 (tofsm R st))) (seen R st)).
Proof.
  intros H0 Hr Ht. apply (concluded_once_lemma St R apply). eapply coupled_core_contract; eauto.
Qed.

Lemma definite_error_over_raft_lemma (R : Type) s0 its evs s tail :
  loop_start s0 -> crun R (loop_term s0) (cstart R s0) its evs s -> tail_ok tail ->
  let st := run R (loop_term s0) (evs ++ tail) in
  NoDup (seen R st) ->
  forall p o, In (p, o) (concl R st) -> (o = ENotLeader R \/ o = ETermMismatch R) ->
  forall cmd, ~ In (ENormal cmd p) (proposed R st).
Proof.
  intros H0 Hr Ht. apply (definite_error_never_proposed_lemma R). eapply coupled_core_contract; eauto.
Qed.
