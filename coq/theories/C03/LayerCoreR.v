(* C03/LayerCoreR.v - GENERATED from LayerCoreS.v (identifiers suffixed R) over the layer model WITH reconfiguration requests
   (LayerR.v: EConf entries, the pendingReconfig waiter, EvReconf) and the core alphabet of Raft/LeaderSuffixR.v (C02 round 13):
   the leadership may start with a snapshot and may contain SnapshotDone, AddNode and RemoveNode events. New coupled iterations:
   CReconfBusyR p (pendingReconfig != nil: ErrTooManyPendingReqs without asking the core) and CReconfR p ev with ev an AddNode /
   RemoveNode event of the node model, a completed loop_stepR; what the core appended decides: nothing = it refused (the request
   is concluded with the core's error), one EntryConf entry = accepted (pendingReconfig := the request, the entry counts as
   proposed). The contract is discharged by leader_commits_own_suffix_with_reconfiguration. *)
From Coq Require Import List NArith ZArith Bool Lia Permutation.
From BLB Require Import Raft.Core Raft.LeaderSuffix Raft.LeaderSuffixS Raft.LeaderSuffixR C03.LayerR.
Import ListNotations.

Section LayerCoreR.
Variable R : Type.

(* a layer entry as the command handed to core.Propose, and its erasure (type, payload) = LeaderSuffix.cmd_of *)
Definition encR (e : LayerR.entry) : Core.entry :=
  match e with
  | ENormal cmd _ => {| e_term := 0; e_index := 0; e_type := EntryNormal; e_pl := [cmd] |}
  | ENop => {| e_term := 0; e_index := 0; e_type := EntryNOP; e_pl := [] |}
  | EConf pl _ => {| e_term := 0; e_index := 0; e_type := EntryConf; e_pl := pl |}
  end.
Definition erR (e : LayerR.entry) : N * list Z := cmd_of (encR e).

Inductive citerR :=
| CPropR (batch : list req)
| CVerifyR (g : list nat)
| CCoreR (ev : Core.event)
| CReconfR (p : nat) (ev : Core.event)      (* reconfigCh: AddNode / RemoveNode request handed to the core *)
| CReconfBusyR (p : nat).                   (* reconfigCh while pendingReconfig != nil: refused without asking the core *)

Definition core_onlyR (ev : Core.event) : Prop :=
  match ev with EDeliver _ | ETick | EBootstrap _ _ | ESnapDone _ => True | _ => False end.

(* the tagged form of the next k committed entries: positional *)
Definition next_committedR (l : lstate R) (k : nat) : list LayerR.entry :=
  firstn k (skipn (length (committed R l)) (proposed R l)).

Definition commit_eventR (l : lstate R) (c : loop_st) : LayerR.event :=
  EvCommit (next_committedR l (length (n_commits (lp_node c)))).

Definition cstateR := (lstate R * loop_st)%type.

(* cstepR cur s it evs s' : iteration it takes s to s' and feeds the layer events evs *)
Inductive cstepR (cur : Z) : cstateR -> citerR -> list LayerR.event -> cstateR -> Prop :=
| CSPropNoneR : forall l c batch,
    filter (term_ok cur) batch = [] ->
    cstepR cur (l, c) (CPropR batch) [EvProp batch] (step R cur l (EvProp batch), c)
| CSPropR : forall l c batch c1,
    filter (term_ok cur) batch <> [] ->
    loop_stepR c (EPropose (map encR (map ent_of (filter (term_ok cur) batch)))) c1 ->
    let l1 := step R cur l (EvProp batch) in
    cstepR cur (l, c) (CPropR batch) [EvProp batch; commit_eventR l1 c1] (step R cur l1 (commit_eventR l1 c1), c1)
| CSVerifyR : forall l c g c1,
    loop_stepR c (EPropose [encR ENop]) c1 ->
    let l1 := step R cur l (EvVerify g) in
    cstepR cur (l, c) (CVerifyR g) [EvVerify g; commit_eventR l1 c1] (step R cur l1 (commit_eventR l1 c1), c1)
| CSCoreR : forall l c ev c1,
    core_onlyR ev -> loop_stepR c ev c1 ->
    cstepR cur (l, c) (CCoreR ev) [commit_eventR l c1] (step R cur l (commit_eventR l c1), c1)
| CSReconfBusyR : forall l c p res,
    existsb (fun ce => is_conf (snd ce)) (queue R l) = true ->
    cstepR cur (l, c) (CReconfBusyR p) [EvReconf p res] (step R cur l (EvReconf p res), c)
| CSReconfRefusedR : forall l c p ev c1,
    existsb (fun ce => is_conf (snd ce)) (queue R l) = false ->
    reconf_event ev -> loop_stepR c ev c1 ->
    appended (lp_node c) (lp_node c1) = [] ->                         (* the core refused: nothing appended *)
    let l1 := step R cur l (EvReconf p None) in
    cstepR cur (l, c) (CReconfR p ev) [EvReconf p None; commit_eventR l1 c1] (step R cur l1 (commit_eventR l1 c1), c1)
| CSReconfAcceptedR : forall l c p ev c1 e,
    existsb (fun ce => is_conf (snd ce)) (queue R l) = false ->
    reconf_event ev -> loop_stepR c ev c1 ->
    appended (lp_node c) (lp_node c1) = [e] -> e_type e = EntryConf -> (* the core accepted: its configuration entry *)
    let l1 := step R cur l (EvReconf p (Some (e_pl e))) in
    cstepR cur (l, c) (CReconfR p ev) [EvReconf p (Some (e_pl e)); commit_eventR l1 c1] (step R cur l1 (commit_eventR l1 c1), c1).

Inductive crunR (cur : Z) : cstateR -> list citerR -> list LayerR.event -> cstateR -> Prop :=
| crun_nilR : forall s, crunR cur s [] [] s
| crun_consR : forall s it evs s1 its evs' s2,
    cstepR cur s it evs s1 -> crunR cur s1 its evs' s2 -> crunR cur s (it :: its) (evs ++ evs') s2.

Definition cstartR (s0 : node) : cstateR := (init R, {| lp_node := s0; lp_prop := []; lp_comm := [] |}).

(* ---------- small facts about the layer ---------- *)
Lemma fold_pair_fieldsR ents : forall st,
  let st' := fold_left (pair_one R) ents st in
  committed R st' = committed R st ++ ents /\ proposed R st' = proposed R st /\ leading R st' = leading R st.
Proof.
  induction ents as [|e ents IH]; intros st; simpl.
  - rewrite app_nil_r. auto.
  - destruct (IH (pair_one R st e)) as [A [B C]]. rewrite A, B, C.
    unfold pair_one. destruct (take_first _ (queue R st)) as [[c q]|]; simpl; rewrite <- app_assoc; auto.
Qed.

Lemma run_ok_appR cur a : forall st b,
  run_ok R cur st (a ++ b) <-> run_ok R cur st a /\ run_ok R cur (fold_left (step R cur) a st) b.
Proof.
  induction a as [|ev a IH]; intros st b; simpl; [tauto|]. rewrite IH. tauto.
Qed.

Lemma prefix_mapR {A B} (f : A -> B) a b : LayerR.prefix a b -> LayerR.prefix (map f a) (map f b).
Proof. intros [c Hc]. subst b. exists (map f c). apply map_app. Qed.

Lemma prefix_app_cancelR {A} (a x y : list A) : LayerR.prefix (a ++ x) (a ++ y) -> LayerR.prefix x y.
Proof. intros [c H]. rewrite <- app_assoc in H. apply app_inv_head in H. exists c. exact H. Qed.

Lemma prefix_firstnR {A} (x y : list A) : LayerR.prefix x y -> x = firstn (length x) y.
Proof. intros [c Hc]. subst y. rewrite firstn_app, Nat.sub_diag, firstn_all. simpl. rewrite app_nil_r. reflexivity. Qed.

Lemma map_er_encR l : map cmd_of (map encR l) = map erR l.
Proof. rewrite map_map. reflexivity. Qed.

(* ---------- the coupling invariant ---------- *)
Record CInvR (cur : Z) (s0 : node) (evs : list LayerR.event) (cevs : list Core.event) (s : cstateR) : Prop := {
  ci_layerR : fst s = run R cur evs;
  ci_okR    : core_contract R cur evs;
  ci_leadR  : leading R (fst s) = true;
  ci_coreR  : loop_runR {| lp_node := s0; lp_prop := []; lp_comm := [] |} cevs (snd s);
  ci_propR  : map erR (proposed R (fst s)) = map cmd_of (lp_prop (snd s));
  ci_commR  : map erR (committed R (fst s)) = map cmd_of (lp_comm (snd s))
}.

Lemma run_snocR cur evs more : run R cur (evs ++ more) = fold_left (step R cur) more (run R cur evs).
Proof. unfold run. apply fold_left_app. Qed.

(* the heart: after a core loop_stepR, handing the positional slice to the layer keeps everything in step, and the
   slice IS what the core returned *)
Lemma commit_coupledR cur s0 evs cevs l c ev c1 :
  loop_start_snap s0 ->
  l = run R cur evs -> core_contract R cur evs -> leading R l = true ->
  loop_runR {| lp_node := s0; lp_prop := []; lp_comm := [] |} cevs c ->
  map erR (committed R l) = map cmd_of (lp_comm c) ->
  loop_stepR c ev c1 ->
  map erR (proposed R l) = map cmd_of (lp_prop c1) ->
  map erR (next_committedR l (length (n_commits (lp_node c1)))) = map cmd_of (n_commits (lp_node c1)) /\
  CInvR cur s0 (evs ++ [commit_eventR l c1]) (cevs ++ [ev]) (step R cur l (commit_eventR l c1), c1).
Proof.
  intros H0 Hl Hok Hlead Hcore Hc Hstep Hp1.
  destruct (leader_commits_own_suffix_with_reconfiguration s0 cevs c ev c1 H0 Hcore Hstep) as [Ec [Epp Pre]].
  pose proof (run_Inv R cur evs Hok) as HI. rewrite <- Hl in HI.
  pose proof (inv_prop R l HI) as IP.
  set (rest := map snd (queue R l) ++ map snd (failed R l)) in *.
  set (new := n_commits (lp_node c1)) in *.
  assert (skipn (length (committed R l)) (proposed R l) = rest) as ESK.
  { rewrite IP. rewrite skipn_app, Nat.sub_diag, skipn_all. reflexivity. }
  assert (LayerR.prefix (map cmd_of new) (map erR rest)) as PN.
  { apply (prefix_app_cancelR (map erR (committed R l))).
    rewrite <- map_app, <- IP, Hc, Hp1, <- map_app.
    destruct Pre as [x Hx]. exists (map cmd_of x). rewrite Hx, map_app. reflexivity. }
  assert (map erR (next_committedR l (length new)) = map cmd_of new) as EF.
  { unfold next_committedR. rewrite ESK. rewrite <- firstn_map.
    transitivity (firstn (length (map cmd_of new)) (map erR rest)).
    - rewrite map_length. reflexivity.
    - symmetry. apply prefix_firstnR, PN. }
  split; [exact EF|].
  unfold commit_eventR. fold new.
  destruct (fold_pair_fieldsR (next_committedR l (length new)) l) as [FA [FB FC]].
  constructor; simpl.
  - rewrite run_snocR, <- Hl. reflexivity.
  - unfold core_contract in *. apply run_ok_appR. split; [exact Hok|].
    fold (run R cur evs). rewrite <- Hl. simpl. split; [|exact I].
    intros _. unfold next_committedR. rewrite ESK, IP.
    exists (skipn (length new) rest). rewrite <- app_assoc. rewrite firstn_skipn. reflexivity.
  - rewrite Hlead. rewrite FC. exact Hlead.
  - apply loop_runR_snoc with (st1 := c); assumption.
  - rewrite Hlead. rewrite FB. exact Hp1.
  - rewrite Hlead. rewrite FA, map_app, Hc, EF, Ec, map_app. reflexivity.
Qed.

Lemma cstep_invR cur s0 evs cevs s it new s' :
  loop_start_snap s0 -> CInvR cur s0 evs cevs s -> cstepR cur s it new s' ->
  exists cnew, CInvR cur s0 (evs ++ new) (cevs ++ cnew) s'.
Proof.
  intros H0 HI Hs. destruct HI as [Hl Hok Hlead Hcore Hp Hc].
  destruct Hs as [l c batch Hnone | l c batch c1 Hsome Hstep l1 | l c g c1 Hstep l1 | l c ev c1 Hev Hstep
                 | l c p res Hbusy | l c p ev c1 Hfree Hev Hstep Happ l1 | l c p ev c1 e Hfree Hev Hstep Happ Hty l1]; simpl in *.
  - exists []. rewrite app_nil_r. constructor; simpl.
    + rewrite run_snocR, <- Hl. reflexivity.
    + unfold core_contract in *. apply run_ok_appR. split; [exact Hok|]. simpl. auto.
    + rewrite Hlead. reflexivity.
    + exact Hcore.
    + rewrite Hlead. simpl. rewrite Hnone. simpl. rewrite app_nil_r. exact Hp.
    + rewrite Hlead. simpl. exact Hc.
  - destruct (leader_commits_own_suffix_with_reconfiguration s0 cevs c _ c1 H0 Hcore Hstep) as [_ [Epp _]].
    exists [EPropose (map encR (map ent_of (filter (term_ok cur) batch)))].
    replace (evs ++ [EvProp batch; commit_eventR l1 c1]) with ((evs ++ [EvProp batch]) ++ [commit_eventR l1 c1])
      by (rewrite <- app_assoc; reflexivity).
    apply (commit_coupledR cur s0 (evs ++ [EvProp batch]) cevs l1 c _ c1 H0); try assumption.
    + unfold l1. rewrite run_snocR, <- Hl. reflexivity.
    + unfold core_contract in *. apply run_ok_appR. split; [exact Hok|]. simpl. auto.
    + unfold l1. simpl. rewrite Hlead. reflexivity.
    + unfold l1. simpl. rewrite Hlead. simpl. exact Hc.
    + rewrite Epp. unfold l1. simpl. rewrite Hlead. simpl. rewrite !map_app, Hp. f_equal.
      rewrite cmd_of_stamp. rewrite map_er_encR. reflexivity.
  - destruct (leader_commits_own_suffix_with_reconfiguration s0 cevs c _ c1 H0 Hcore Hstep) as [_ [Epp _]].
    exists [EPropose [encR ENop]].
    replace (evs ++ [EvVerify g; commit_eventR l1 c1]) with ((evs ++ [EvVerify g]) ++ [commit_eventR l1 c1])
      by (rewrite <- app_assoc; reflexivity).
    apply (commit_coupledR cur s0 (evs ++ [EvVerify g]) cevs l1 c _ c1 H0); try assumption.
    + unfold l1. rewrite run_snocR, <- Hl. reflexivity.
    + unfold core_contract in *. apply run_ok_appR. split; [exact Hok|]. simpl. auto.
    + unfold l1. simpl. rewrite Hlead. reflexivity.
    + unfold l1. simpl. rewrite Hlead. simpl. exact Hc.
    + rewrite Epp. unfold l1. simpl. rewrite Hlead. simpl. rewrite !map_app, Hp. reflexivity.
  - destruct (leader_commits_own_suffix_with_reconfiguration s0 cevs c _ c1 H0 Hcore Hstep) as [_ [Epp _]].
    exists [ev]. apply (commit_coupledR cur s0 evs cevs l c ev c1 H0); try assumption.
    rewrite Epp, Hp. destruct ev; simpl in Hev; try contradiction; simpl; rewrite app_nil_r; reflexivity.
  - exists []. rewrite app_nil_r. constructor; simpl.
    + rewrite run_snocR, <- Hl. reflexivity.
    + unfold core_contract in *. apply run_ok_appR. split; [exact Hok|]. simpl. auto.
    + rewrite Hlead, Hbusy. reflexivity.
    + exact Hcore.
    + rewrite Hlead, Hbusy. simpl. exact Hp.
    + rewrite Hlead, Hbusy. simpl. exact Hc.
  - destruct (leader_commits_own_suffix_with_reconfiguration s0 cevs c _ c1 H0 Hcore Hstep) as [_ [Epp _]].
    exists [ev].
    replace (evs ++ [EvReconf p None; commit_eventR l1 c1]) with ((evs ++ [EvReconf p None]) ++ [commit_eventR l1 c1])
      by (rewrite <- app_assoc; reflexivity).
    apply (commit_coupledR cur s0 (evs ++ [EvReconf p None]) cevs l1 c _ c1 H0); try assumption.
    + unfold l1. rewrite run_snocR, <- Hl. reflexivity.
    + unfold core_contract in *. apply run_ok_appR. split; [exact Hok|]. simpl. auto.
    + unfold l1. simpl. rewrite Hlead, Hfree. reflexivity.
    + unfold l1. simpl. rewrite Hlead, Hfree. simpl. exact Hc.
    + rewrite Epp. unfold l1. simpl. rewrite Hlead, Hfree. simpl. rewrite Hp.
      destruct ev; simpl in Hev; try contradiction; simpl; rewrite Happ, app_nil_r; reflexivity.
  - destruct (leader_commits_own_suffix_with_reconfiguration s0 cevs c _ c1 H0 Hcore Hstep) as [_ [Epp _]].
    exists [ev].
    replace (evs ++ [EvReconf p (Some (e_pl e)); commit_eventR l1 c1]) with ((evs ++ [EvReconf p (Some (e_pl e))]) ++ [commit_eventR l1 c1])
      by (rewrite <- app_assoc; reflexivity).
    apply (commit_coupledR cur s0 (evs ++ [EvReconf p (Some (e_pl e))]) cevs l1 c _ c1 H0); try assumption.
    + unfold l1. rewrite run_snocR, <- Hl. reflexivity.
    + unfold core_contract in *. apply run_ok_appR. split; [exact Hok|]. simpl. auto.
    + unfold l1. simpl. rewrite Hlead, Hfree. reflexivity.
    + unfold l1. simpl. rewrite Hlead, Hfree. simpl. exact Hc.
    + rewrite Epp. unfold l1. simpl. rewrite Hlead, Hfree. simpl. rewrite !map_app, Hp. f_equal.
      destruct ev; simpl in Hev; try contradiction; simpl; rewrite Happ; simpl; unfold erR, cmd_of; simpl; rewrite Hty; reflexivity.
Qed.

Lemma CInv_startR cur s0 : CInvR cur s0 [] [] (cstartR s0).
Proof. constructor; simpl; auto; try constructor. Qed.

Lemma crun_invR cur s0 : forall s its new s',
  loop_start_snap s0 -> crunR cur s its new s' ->
  forall evs cevs, CInvR cur s0 evs cevs s -> exists cnew, CInvR cur s0 (evs ++ new) (cevs ++ cnew) s'.
Proof.
  intros s its new s' H0 Hr. induction Hr as [s | s it e1 s1 its e2 s2 Hs Hr IH]; intros evs cevs HI.
  - exists []. rewrite !app_nil_r. exact HI.
  - destruct (cstep_invR cur s0 evs cevs s it e1 s1 H0 HI Hs) as [c1 HI1].
    destruct (IH _ _ HI1) as [c2 HI2]. exists (c1 ++ c2). rewrite !app_assoc. exact HI2.
Qed.

(* after the leadership: the loop ends (EvStepDown), then anything *)
Definition tail_okR (tail : list LayerR.event) : Prop := tail = [] \/ exists t, tail = EvStepDown :: t.

Lemma step_nonleadingR cur st ev : leading R st = false -> leading R (step R cur st ev) = false.
Proof. intros H. destruct ev; simpl; rewrite H; simpl; auto. Qed.

Lemma run_ok_nonleadingR cur t : forall st, leading R st = false -> run_ok R cur st t.
Proof.
  induction t as [|ev t IH]; intros st H; simpl; [exact I|]. split.
  - destruct ev; simpl; auto. intros Hl. congruence.
  - apply IH, step_nonleadingR, H.
Qed.

(* the contract assumed by Layer.v holds for every run whose core events come from the Raft node model *)
Lemma coupled_core_contractR cur s0 its evs s tail :
  loop_start_snap s0 -> crunR cur (cstartR s0) its evs s -> tail_okR tail -> core_contract R cur (evs ++ tail).
Proof.
  intros H0 Hr Ht. destruct (crun_invR cur s0 _ _ _ _ H0 Hr [] [] (CInv_startR cur s0)) as [cnew HI]. simpl in HI.
  destruct HI as [Hl Hok Hlead _ _ _].
  destruct Ht as [E | [t E]]; subst tail.
  - rewrite app_nil_r. exact Hok.
  - unfold core_contract in *. apply run_ok_appR. split; [exact Hok|]. simpl. split; [exact I|].
    apply run_ok_nonleadingR. fold (run R cur evs). rewrite <- Hl. rewrite Hlead. reflexivity.
Qed.

(* faithfulness of the coupling: what the layer was handed as committed / holds as proposed is, up to the ghost tag,
   what the node model returned from TakeNewlyCommitted / was handed by core.Propose, entry by entry in order *)
Lemma coupled_faithfulR cur s0 its evs l c :
  loop_start_snap s0 -> crunR cur (cstartR s0) its evs (l, c) ->
  l = run R cur evs /\ leading R l = true /\
  map erR (committed R l) = map cmd_of (lp_comm c) /\
  map erR (proposed R l) = map cmd_of (lp_prop c) /\
  exists cevs, loop_runR {| lp_node := s0; lp_prop := []; lp_comm := [] |} cevs c.
Proof.
  intros H0 Hr. destruct (crun_invR cur s0 _ _ _ _ H0 Hr [] [] (CInv_startR cur s0)) as [cnew HI]. simpl in HI.
  destruct HI as [Hl Hok Hlead Hcore Hp Hc]. simpl in *. repeat split; try assumption. exists cnew. exact Hcore.
Qed.

(* the term the loop filters by is the node's term (constant during the loop: every loop_stepR keeps it) *)
Definition loop_termR (s0 : node) : Z := Z.of_N (p_term (n_p s0)).

End LayerCoreR.

(* ---------- the three layer theorems without the core_contract hypothesis ---------- *)
Lemma pairing_over_raft_lemmaR (St R : Type) (apply : St -> Z -> St * R) s0 its evs s tail :
  loop_start_snap s0 -> crunR R (loop_termR s0) (cstartR R s0) its evs s -> tail_okR tail ->
  let st := run R (loop_termR s0) (evs ++ tail) in
  fatal R st = false /\
  map fst (tofsm R st) = committed R st /\
  map snd (tofsm R st) = firstn (length (committed R st)) (enqueued R st) /\
  (forall k cmd tag c, nth_error (tofsm R st) k = Some (ENormal cmd tag, c) ->
     c = CPending tag /\
     (exists r, In r (reqs R st) /\ rp r = tag /\ rcmd r = cmd) /\
     forall f0, In (tag, Applied R (Some (snd (apply (fsm_state St R apply f0 (firstn k (tofsm R st))) cmd))))
                   (fsm_run St R apply f0 (tofsm R st))) /\
  (forall k c, nth_error (tofsm R st) k = Some (ENop, c) -> exists g, c = CGroup g).
Proof.
  intros H0 Hr Ht. apply (pairing_lemma St R apply). eapply coupled_core_contractR; eauto.
Qed.

Lemma concluded_once_over_raft_lemmaR (St R : Type) (apply : St -> Z -> St * R) s0 its evs s tail f0 :
  loop_start_snap s0 -> crunR R (loop_termR s0) (cstartR R s0) its evs s -> tail_okR tail ->
  let st := run R (loop_termR s0) (evs ++ tail) in
  NoDup (seen R st) ->
  NoDup (map fst (concl R st ++ fsm_run St R apply f0 (tofsm R st)) ++
         flat_map (fun ce => pids (fst ce)) (queue R st)) /\
  (leading R st = false ->
   Permutation (map fst (concl R st ++ fsm_run St R apply f0 (tofsm R st))) (seen R st)).
Proof.
  intros H0 Hr Ht. apply (concluded_once_lemma St R apply). eapply coupled_core_contractR; eauto.
Qed.

Lemma definite_error_over_raft_lemmaR (R : Type) s0 its evs s tail :
  loop_start_snap s0 -> crunR R (loop_termR s0) (cstartR R s0) its evs s -> tail_okR tail ->
  let st := run R (loop_termR s0) (evs ++ tail) in
  NoDup (seen R st) ->
  forall p o, In (p, o) (concl R st) -> (o = ENotLeader R \/ o = ETermMismatch R) ->
  forall cmd, ~ In (ENormal cmd p) (proposed R st).
Proof.
  intros H0 Hr Ht. apply (definite_error_never_proposed_lemma R). eapply coupled_core_contractR; eauto.
Qed.

(* ---------- additions for reconfiguration requests ---------- *)
Lemma pairing_conf_over_raft_lemmaR (St R : Type) (apply : St -> Z -> St * R) s0 its evs s tail :
  loop_start_snap s0 -> crunR R (loop_termR s0) (cstartR R s0) its evs s -> tail_okR tail ->
  let st := run R (loop_termR s0) (evs ++ tail) in
  forall k pl tag c, nth_error (tofsm R st) k = Some (EConf pl tag, c) ->
    c = CPending tag /\ forall f0, In (tag, Applied R None) (fsm_run St R apply f0 (tofsm R st)).
Proof.
  intros H0 Hr Ht. apply (pairing_conf_lemma St R apply). eapply coupled_core_contractR; eauto.
Qed.

Lemma definite_error_all_over_raft_lemmaR (R : Type) s0 its evs s tail :
  loop_start_snap s0 -> crunR R (loop_termR s0) (cstartR R s0) its evs s -> tail_okR tail ->
  let st := run R (loop_termR s0) (evs ++ tail) in
  NoDup (seen R st) ->
  forall p o, In (p, o) (concl R st) -> (o = ENotLeader R \/ o = ETermMismatch R \/ o = ETooMany R \/ o = ERefused R) ->
  (forall cmd, ~ In (ENormal cmd p) (proposed R st)) /\ (forall pl, ~ In (EConf pl p) (proposed R st)).
Proof.
  intros H0 Hr Ht st Hnd p o Hin Ho.
  assert (Hc : core_contract R (loop_termR s0) (evs ++ tail)) by (eapply coupled_core_contractR; eauto).
  split.
  - apply (definite_error_never_proposed_normal_lemma R _ _ Hc Hnd p o Hin Ho).
  - apply (definite_error_never_proposed_conf_lemma R _ _ Hc Hnd p o Hin Ho).
Qed.
