(* C03/LayerCoreS.v - GENERATED from LayerCore.v (identifiers suffixed S): the same composition of the leader-loop layer with
   the Raft node model, over the wider core alphabet of C03/LeaderLoopSnap.v: the leadership may start from a state with
   a snapshot (loop_start_snap of Raft/LeaderSuffixS.v: log contiguous with the snapshot, snapshot index <= commit index,
   commit index = last index) and may CONTAIN SnapshotDone events (CCoreS (ESnapDone m), with the snapshot position
   applied: 1 <= index <= commit index), which trim the log but change neither what was proposed nor what was
   committed. The contract is discharged by leader_commits_own_suffix_snapdone_stepwise. Still outside: AddNode /
   RemoveNode inside a leadership; Restart ends a leadership. *)
From Coq Require Import List NArith ZArith Bool Lia Permutation.
From BLB Require Import Raft.Core Raft.LeaderSuffix Raft.LeaderSuffixS C03.Layer C03.LeaderLoopSnap.
Import ListNotations.

Section LayerCoreS.
Variable R : Type.

(* a layer entry as the command handed to core.Propose, and its erasure (type, payload) = LeaderSuffix.cmd_of *)
Definition encS (e : Layer.entry) : Core.entry :=
  match e with
  | ENormal cmd _ => {| e_term := 0; e_index := 0; e_type := EntryNormal; e_pl := [cmd] |}
  | ENop => {| e_term := 0; e_index := 0; e_type := EntryNOP; e_pl := [] |}
  end.
Definition erS (e : Layer.entry) : N * list Z := cmd_of (encS e).

Inductive citerS :=
| CPropS (batch : list req)
| CVerifyS (g : list nat)
| CCoreS (ev : Core.event).

Definition core_onlyS (ev : Core.event) : Prop :=
  match ev with EDeliver _ | ETick | EBootstrap _ _ | ESnapDone _ => True | _ => False end.

(* the tagged form of the next k committed entries: positional *)
Definition next_committedS (l : lstate R) (k : nat) : list Layer.entry :=
  firstn k (skipn (length (committed R l)) (proposed R l)).

Definition commit_eventS (l : lstate R) (c : loop_st) : Layer.event :=
  EvCommit (next_committedS l (length (n_commits (lp_node c)))).

Definition cstateS := (lstate R * loop_st)%type.

(* cstepS cur s it evs s' : iteration it takes s to s' and feeds the layer events evs *)
Inductive cstepS (cur : Z) : cstateS -> citerS -> list Layer.event -> cstateS -> Prop :=
| CSPropNoneS : forall l c batch,
    filter (term_ok cur) batch = [] ->
    cstepS cur (l, c) (CPropS batch) [EvProp batch] (step R cur l (EvProp batch), c)
| CSPropS : forall l c batch c1,
    filter (term_ok cur) batch <> [] ->
    loop_stepS c (EPropose (map encS (map ent_of (filter (term_ok cur) batch)))) c1 ->
    let l1 := step R cur l (EvProp batch) in
    cstepS cur (l, c) (CPropS batch) [EvProp batch; commit_eventS l1 c1] (step R cur l1 (commit_eventS l1 c1), c1)
| CSVerifyS : forall l c g c1,
    loop_stepS c (EPropose [encS ENop]) c1 ->
    let l1 := step R cur l (EvVerify g) in
    cstepS cur (l, c) (CVerifyS g) [EvVerify g; commit_eventS l1 c1] (step R cur l1 (commit_eventS l1 c1), c1)
| CSCoreS : forall l c ev c1,
    core_onlyS ev -> loop_stepS c ev c1 ->
    cstepS cur (l, c) (CCoreS ev) [commit_eventS l c1] (step R cur l (commit_eventS l c1), c1).

Inductive crunS (cur : Z) : cstateS -> list citerS -> list Layer.event -> cstateS -> Prop :=
| crun_nilS : forall s, crunS cur s [] [] s
| crun_consS : forall s it evs s1 its evs' s2,
    cstepS cur s it evs s1 -> crunS cur s1 its evs' s2 -> crunS cur s (it :: its) (evs ++ evs') s2.

Definition cstartS (s0 : node) : cstateS := (init R, {| lp_node := s0; lp_prop := []; lp_comm := [] |}).

(* ---------- small facts about the layer ---------- *)
Lemma fold_pair_fieldsS ents : forall st,
  let st' := fold_left (pair_one R) ents st in
  committed R st' = committed R st ++ ents /\ proposed R st' = proposed R st /\ leading R st' = leading R st.
Proof.
  induction ents as [|e ents IH]; intros st; simpl.
  - rewrite app_nil_r. auto.
  - destruct (IH (pair_one R st e)) as [A [B C]]. rewrite A, B, C.
    unfold pair_one. destruct (queue R st) as [|[c g] q]; simpl; rewrite <- app_assoc; auto.
Qed.

Lemma run_ok_appS cur a : forall st b,
  run_ok R cur st (a ++ b) <-> run_ok R cur st a /\ run_ok R cur (fold_left (step R cur) a st) b.
Proof.
  induction a as [|ev a IH]; intros st b; simpl; [tauto|]. rewrite IH. tauto.
Qed.

Lemma prefix_mapS {A B} (f : A -> B) a b : Layer.prefix a b -> Layer.prefix (map f a) (map f b).
Proof. intros [c Hc]. subst b. exists (map f c). apply map_app. Qed.

Lemma prefix_app_cancelS {A} (a x y : list A) : Layer.prefix (a ++ x) (a ++ y) -> Layer.prefix x y.
Proof. intros [c H]. rewrite <- app_assoc in H. apply app_inv_head in H. exists c. exact H. Qed.

Lemma prefix_firstnS {A} (x y : list A) : Layer.prefix x y -> x = firstn (length x) y.
Proof. intros [c Hc]. subst y. rewrite firstn_app, Nat.sub_diag, firstn_all. simpl. rewrite app_nil_r. reflexivity. Qed.

Lemma map_er_encS l : map cmd_of (map encS l) = map erS l.
Proof. rewrite map_map. reflexivity. Qed.

(* ---------- the coupling invariant ---------- *)
Record CInvS (cur : Z) (s0 : node) (evs : list Layer.event) (cevs : list Core.event) (s : cstateS) : Prop := {
  ci_layerS : fst s = run R cur evs;
  ci_okS    : core_contract R cur evs;
  ci_leadS  : leading R (fst s) = true;
  ci_coreS  : loop_runS {| lp_node := s0; lp_prop := []; lp_comm := [] |} cevs (snd s);
  ci_propS  : map erS (proposed R (fst s)) = map cmd_of (lp_prop (snd s));
  ci_commS  : map erS (committed R (fst s)) = map cmd_of (lp_comm (snd s))
}.

Lemma run_snocS cur evs more : run R cur (evs ++ more) = fold_left (step R cur) more (run R cur evs).
Proof. unfold run. apply fold_left_app. Qed.

(* the heart: after a core loop_stepS, handing the positional slice to the layer keeps everything in step, and the
   slice IS what the core returned *)
Lemma commit_coupledS cur s0 evs cevs l c ev c1 :
  loop_start_snap s0 ->
  l = run R cur evs -> core_contract R cur evs -> leading R l = true ->
  loop_runS {| lp_node := s0; lp_prop := []; lp_comm := [] |} cevs c ->
  map erS (committed R l) = map cmd_of (lp_comm c) ->
  loop_stepS c ev c1 ->
  map erS (proposed R l) = map cmd_of (lp_prop c1) ->
  map erS (next_committedS l (length (n_commits (lp_node c1)))) = map cmd_of (n_commits (lp_node c1)) /\
  CInvS cur s0 (evs ++ [commit_eventS l c1]) (cevs ++ [ev]) (step R cur l (commit_eventS l c1), c1).
Proof.
  intros H0 Hl Hok Hlead Hcore Hc Hstep Hp1.
  destruct (leader_commits_own_suffix_snapdone_stepwise s0 cevs c ev c1 H0 Hcore Hstep) as [Ec [Epp Pre]].
  pose proof (run_Inv R cur evs Hok) as HI. rewrite <- Hl in HI.
  pose proof (inv_prop R l HI) as IP.
  set (rest := map snd (queue R l) ++ map snd (failed R l)) in *.
  set (new := n_commits (lp_node c1)) in *.
  assert (skipn (length (committed R l)) (proposed R l) = rest) as ESK.
  { rewrite IP. rewrite skipn_app, Nat.sub_diag, skipn_all. reflexivity. }
  assert (Layer.prefix (map cmd_of new) (map erS rest)) as PN.
  { apply (prefix_app_cancelS (map erS (committed R l))).
    rewrite <- map_app, <- IP, Hc, Hp1, <- map_app.
    destruct Pre as [x Hx]. exists (map cmd_of x). rewrite Hx, map_app. reflexivity. }
  assert (map erS (next_committedS l (length new)) = map cmd_of new) as EF.
  { unfold next_committedS. rewrite ESK. rewrite <- firstn_map.
    transitivity (firstn (length (map cmd_of new)) (map erS rest)).
    - rewrite map_length. reflexivity.
    - symmetry. apply prefix_firstnS, PN. }
  split; [exact EF|].
  unfold commit_eventS. fold new.
  destruct (fold_pair_fieldsS (next_committedS l (length new)) l) as [FA [FB FC]].
  constructor; simpl.
  - rewrite run_snocS, <- Hl. reflexivity.
  - unfold core_contract in *. apply run_ok_appS. split; [exact Hok|].
    fold (run R cur evs). rewrite <- Hl. simpl. split; [|exact I].
    intros _. unfold next_committedS. rewrite ESK, IP.
    exists (skipn (length new) rest). rewrite <- app_assoc. rewrite firstn_skipn. reflexivity.
  - rewrite Hlead. rewrite FC. exact Hlead.
  - apply loop_runS_snoc with (st1 := c); assumption.
  - rewrite Hlead. rewrite FB. exact Hp1.
  - rewrite Hlead. rewrite FA, map_app, Hc, EF, Ec, map_app. reflexivity.
Qed.

Lemma cstep_invS cur s0 evs cevs s it new s' :
  loop_start_snap s0 -> CInvS cur s0 evs cevs s -> cstepS cur s it new s' ->
  exists cnew, CInvS cur s0 (evs ++ new) (cevs ++ cnew) s'.
Proof.
  intros H0 HI Hs. destruct HI as [Hl Hok Hlead Hcore Hp Hc].
  destruct Hs as [l c batch Hnone | l c batch c1 Hsome Hstep l1 | l c g c1 Hstep l1 | l c ev c1 Hev Hstep]; simpl in *.
  - exists []. rewrite app_nil_r. constructor; simpl.
    + rewrite run_snocS, <- Hl. reflexivity.
    + unfold core_contract in *. apply run_ok_appS. split; [exact Hok|]. simpl. auto.
    + rewrite Hlead. reflexivity.
    + exact Hcore.
    + rewrite Hlead. simpl. rewrite Hnone. simpl. rewrite app_nil_r. exact Hp.
    + rewrite Hlead. simpl. exact Hc.
  - destruct (leader_commits_own_suffix_snapdone_stepwise s0 cevs c _ c1 H0 Hcore Hstep) as [_ [Epp _]].
    exists [EPropose (map encS (map ent_of (filter (term_ok cur) batch)))].
    replace (evs ++ [EvProp batch; commit_eventS l1 c1]) with ((evs ++ [EvProp batch]) ++ [commit_eventS l1 c1])
      by (rewrite <- app_assoc; reflexivity).
    apply (commit_coupledS cur s0 (evs ++ [EvProp batch]) cevs l1 c _ c1 H0); try assumption.
    + unfold l1. rewrite run_snocS, <- Hl. reflexivity.
    + unfold core_contract in *. apply run_ok_appS. split; [exact Hok|]. simpl. auto.
    + unfold l1. simpl. rewrite Hlead. reflexivity.
    + unfold l1. simpl. rewrite Hlead. simpl. exact Hc.
    + rewrite Epp. unfold l1. simpl. rewrite Hlead. simpl. rewrite !map_app, Hp. f_equal.
      rewrite cmd_of_stamp. rewrite map_er_encS. reflexivity.
  - destruct (leader_commits_own_suffix_snapdone_stepwise s0 cevs c _ c1 H0 Hcore Hstep) as [_ [Epp _]].
    exists [EPropose [encS ENop]].
    replace (evs ++ [EvVerify g; commit_eventS l1 c1]) with ((evs ++ [EvVerify g]) ++ [commit_eventS l1 c1])
      by (rewrite <- app_assoc; reflexivity).
    apply (commit_coupledS cur s0 (evs ++ [EvVerify g]) cevs l1 c _ c1 H0); try assumption.
    + unfold l1. rewrite run_snocS, <- Hl. reflexivity.
    + unfold core_contract in *. apply run_ok_appS. split; [exact Hok|]. simpl. auto.
    + unfold l1. simpl. rewrite Hlead. reflexivity.
    + unfold l1. simpl. rewrite Hlead. simpl. exact Hc.
    + rewrite Epp. unfold l1. simpl. rewrite Hlead. simpl. rewrite !map_app, Hp. reflexivity.
  - destruct (leader_commits_own_suffix_snapdone_stepwise s0 cevs c _ c1 H0 Hcore Hstep) as [_ [Epp _]].
    exists [ev]. apply (commit_coupledS cur s0 evs cevs l c ev c1 H0); try assumption.
    rewrite Epp, Hp. destruct ev; simpl in Hev; try contradiction; simpl; rewrite app_nil_r; reflexivity.
Qed.

Lemma CInv_startS cur s0 : CInvS cur s0 [] [] (cstartS s0).
Proof. constructor; simpl; auto; try constructor. Qed.

Lemma crun_invS cur s0 : forall s its new s',
  loop_start_snap s0 -> crunS cur s its new s' ->
  forall evs cevs, CInvS cur s0 evs cevs s -> exists cnew, CInvS cur s0 (evs ++ new) (cevs ++ cnew) s'.
Proof.
  intros s its new s' H0 Hr. induction Hr as [s | s it e1 s1 its e2 s2 Hs Hr IH]; intros evs cevs HI.
  - exists []. rewrite !app_nil_r. exact HI.
  - destruct (cstep_invS cur s0 evs cevs s it e1 s1 H0 HI Hs) as [c1 HI1].
    destruct (IH _ _ HI1) as [c2 HI2]. exists (c1 ++ c2). rewrite !app_assoc. exact HI2.
Qed.

(* after the leadership: the loop ends (EvStepDown), then anything *)
Definition tail_okS (tail : list Layer.event) : Prop := tail = [] \/ exists t, tail = EvStepDown :: t.

Lemma step_nonleadingS cur st ev : leading R st = false -> leading R (step R cur st ev) = false.
Proof. intros H. destruct ev; simpl; rewrite H; simpl; auto. Qed.

Lemma run_ok_nonleadingS cur t : forall st, leading R st = false -> run_ok R cur st t.
Proof.
  induction t as [|ev t IH]; intros st H; simpl; [exact I|]. split.
  - destruct ev; simpl; auto. intros Hl. congruence.
  - apply IH, step_nonleadingS, H.
Qed.

(* the contract assumed by Layer.v holds for every run whose core events come from the Raft node model *)
Lemma coupled_core_contractS cur s0 its evs s tail :
  loop_start_snap s0 -> crunS cur (cstartS s0) its evs s -> tail_okS tail -> core_contract R cur (evs ++ tail).
Proof.
  intros H0 Hr Ht. destruct (crun_invS cur s0 _ _ _ _ H0 Hr [] [] (CInv_startS cur s0)) as [cnew HI]. simpl in HI.
  destruct HI as [Hl Hok Hlead _ _ _].
  destruct Ht as [E | [t E]]; subst tail.
  - rewrite app_nil_r. exact Hok.
  - unfold core_contract in *. apply run_ok_appS. split; [exact Hok|]. simpl. split; [exact I|].
    apply run_ok_nonleadingS. fold (run R cur evs). rewrite <- Hl. rewrite Hlead. reflexivity.
Qed.

(* faithfulness of the coupling: what the layer was handed as committed / holds as proposed is, up to the ghost tag,
   what the node model returned from TakeNewlyCommitted / was handed by core.Propose, entry by entry in order *)
Lemma coupled_faithfulS cur s0 its evs l c :
  loop_start_snap s0 -> crunS cur (cstartS s0) its evs (l, c) ->
  l = run R cur evs /\ leading R l = true /\
  map erS (committed R l) = map cmd_of (lp_comm c) /\
  map erS (proposed R l) = map cmd_of (lp_prop c) /\
  exists cevs, loop_runS {| lp_node := s0; lp_prop := []; lp_comm := [] |} cevs c.
Proof.
  intros H0 Hr. destruct (crun_invS cur s0 _ _ _ _ H0 Hr [] [] (CInv_startS cur s0)) as [cnew HI]. simpl in HI.
  destruct HI as [Hl Hok Hlead Hcore Hp Hc]. simpl in *. repeat split; try assumption. exists cnew. exact Hcore.
Qed.

(* the term the loop filters by is the node's term (constant during the loop: every loop_stepS keeps it) *)
Definition loop_termS (s0 : node) : Z := Z.of_N (p_term (n_p s0)).

End LayerCoreS.

(* ---------- the three layer theorems without the core_contract hypothesis ---------- *)
Lemma pairing_over_raft_lemmaS (St R : Type) (apply : St -> Z -> St * R) s0 its evs s tail :
  loop_start_snap s0 -> crunS R (loop_termS s0) (cstartS R s0) its evs s -> tail_okS tail ->
  let st := run R (loop_termS s0) (evs ++ tail) in
  fatal R st = false /\
  map fst (tofsm R st) = committed R st /\
  map snd (tofsm R st) = firstn (length (committed R st)) (enqueued R st) /\
  (forall k cmd tag c, nth_error (tofsm R st) k = Some (ENormal cmd tag, c) ->
     c = CPending tag /\
     (exists r, In r (reqs R st) /\ rp r = tag /\ rcmd r = cmd) /\
     forall f0, In (tag, Applied R (Some (snd (apply (fsm_state St R apply f0 (firstn k (tofsm R st))) cmd))))
                   (fsm_run St R apply f0 (tofsm R st))) /\
  (forall k c, nth_error (tofsm R st) k = Some (ENop, c) -> exists g, c = CGroup g).
Proof.
  intros H0 Hr Ht. apply (pairing_lemma St R apply). eapply coupled_core_contractS; eauto.
Qed.

Lemma concluded_once_over_raft_lemmaS (St R : Type) (apply : St -> Z -> St * R) s0 its evs s tail f0 :
  loop_start_snap s0 -> crunS R (loop_termS s0) (cstartS R s0) its evs s -> tail_okS tail ->
  let st := run R (loop_termS s0) (evs ++ tail) in
  NoDup (seen R st) ->
  NoDup (map fst (concl R st ++ fsm_run St R apply f0 (tofsm R st)) ++
         flat_map (fun ce => pids (fst ce)) (queue R st)) /\
  (leading R st = false ->
   Permutation (map fst (concl R st ++ fsm_run St R apply f0 (tofsm R st))) (seen R st)).
Proof.
  intros H0 Hr Ht. apply (concluded_once_lemma St R apply). eapply coupled_core_contractS; eauto.
Qed.

Lemma definite_error_over_raft_lemmaS (R : Type) s0 its evs s tail :
  loop_start_snap s0 -> crunS R (loop_termS s0) (cstartS R s0) its evs s -> tail_okS tail ->
  let st := run R (loop_termS s0) (evs ++ tail) in
  NoDup (seen R st) ->
  forall p o, In (p, o) (concl R st) -> (o = ENotLeader R \/ o = ETermMismatch R) ->
  forall cmd, ~ In (ENormal cmd p) (proposed R st).
Proof.
  intros H0 Hr Ht. apply (definite_error_never_proposed_lemma R). eapply coupled_core_contractS; eauto.
Qed.
