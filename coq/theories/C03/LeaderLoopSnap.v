(* C03/LeaderLoopSnap.v - the leader-loop contract of Raft/LeaderSuffixS.v (C02, round 9: start states with snapshots)
   extended to leaderships that CONTAIN SnapshotDone events: fsmSnapshotDone commits the snapshot metadata and trims the
   log (core.TrimLog), which changes neither what was proposed nor what was committed in the loop.
   New node-level lemma snapdone_pre (snapshot_done on a leader whose snapshot position is applied: 1 <= index <= commit
   index) and a base-independent loop invariant: lp_comm = the first (commit - c0) entries of lp_prop, and lp_prop
   agrees with the physical log where they overlap.  Raft/*.v is not edited. *)
From Coq Require Import List NArith ZArith Bool Lia ZifyN ZifyNat ZifyBool.
From BLB Require Import Raft.Core Raft.NodeProofs Raft.LogMatchLists Raft.SnapContig Raft.LeaderSuffix Raft.LeaderSuffixS.
Import ListNotations.
Open Scope N_scope.

(* ---------------------------------------------------------------- list facts *)
Lemma trim_wf l : forall b u, wf_from (b + 1) l -> b <= u -> mem_trim u l = skipn (N.to_nat (u - b)) l.
Proof.
  induction l as [|e r IH]; intros b u W Hu; unfold mem_trim; simpl.
  - rewrite skipn_nil. reflexivity.
  - destruct W as [Hi W]. destruct (e_index e <=? u) eqn:E.
    + apply N.leb_le in E. fold (mem_trim u r). rewrite (IH (b + 1) u W) by lia.
      replace (N.to_nat (u - b)) with (S (N.to_nat (u - (b + 1)))) by lia. reflexivity.
    + apply N.leb_gt in E. replace (N.to_nat (u - b)) with 0%nat by lia. reflexivity.
Qed.

Lemma wf_skipn l : forall c n, wf_from c l -> wf_from (c + N.of_nat n) (skipn n l).
Proof.
  induction l as [|e r IH]; intros c n W.
  - rewrite skipn_nil. exact I.
  - destruct n as [|n]; simpl.
    + replace (c + 0) with c by lia. exact W.
    + destruct W as [_ W]. replace (c + N.pos (Pos.of_succ_nat n)) with (c + 1 + N.of_nat n) by lia. apply IH, W.
Qed.

(* ---------------------------------------------------------------- snapshot_done on a node *)
Lemma do_mut_ret m s s' : do_mut m s = Ret s' -> s' = upd_p s (apply_mut (n_p s) m) (n_cnt s + 1) (n_muts s ++ [m]).
Proof. unfold do_mut. destruct (negb (n_budget s =? 0) && (n_budget s =? n_cnt s + 1)); [discriminate|]. intro H. inversion H. reflexivity. Qed.

Lemma snapdone_pre b s m s' :
  preS b s -> 1 <= sn_index m -> sn_index m <= n_commit s ->
  snapshot_done s m = Ret s' ->
  exists b', b <= b' /\ b' <= n_commit s /\ preS b' s' /\
             p_log (n_p s') = skipn (N.to_nat (b' - b)) (p_log (n_p s)) /\
             n_commit s' = n_commit s /\ n_commits s' = n_commits s /\ n_role s' = n_role s /\
             p_term (n_p s') = p_term (n_p s).
Proof.
  intros P H1 Hc Hrun. pose proof P as [W [Hli [Hs [Hb Hle]]]].
  assert (Same : exists b', b <= b' /\ b' <= n_commit s /\ preS b' s /\
                   p_log (n_p s) = skipn (N.to_nat (b' - b)) (p_log (n_p s)) /\
                   n_commit s = n_commit s /\ n_commits s = n_commits s /\ n_role s = n_role s /\ p_term (n_p s) = p_term (n_p s)).
  { exists b. replace (N.to_nat (b - b)) with 0%nat by lia. repeat split; auto; lia. }
  unfold snapshot_done in Hrun.
  destruct (match p_snap (n_p s) with Some cur => sn_index m <=? sn_index cur | None => false end) eqn:Enew.
  { inversion Hrun. subst s'. exact Same. }
  assert (Hold : sidxS (n_p s) < sn_index m).
  { unfold sidxS. destruct (p_snap (n_p s)) as [cur|]; [apply N.leb_gt in Enew; lia | lia]. }
  cbv beta iota delta [bind] in Hrun.
  destruct (do_mut (MSnapCommit m) s) as [s1| |] eqn:E1; try discriminate.
  apply do_mut_ret in E1.
  assert (L1 : p_log (n_p s1) = p_log (n_p s)) by (subst s1; reflexivity).
  assert (S1 : p_snap (n_p s1) = Some m) by (subst s1; reflexivity).
  assert (V1 : n_commit s1 = n_commit s /\ n_commits s1 = n_commits s /\ n_role s1 = n_role s /\ p_term (n_p s1) = p_term (n_p s) /\
               n_cfg s1 = n_cfg s) by (subst s1; simpl; auto).
  destruct V1 as [V1 [V2 [V3 [V4 V5]]]].
  (* the physical log is not empty: otherwise last index = old snapshot index < sn_index m <= commit <= last index *)
  assert (Hne : p_log (n_p s) <> []).
  { intro Z. unfold lenS in *. rewrite Z in *. simpl in *. unfold last_index in Hli. rewrite Z in Hli. simpl in Hli.
    unfold sidxS in *. destruct (p_snap (n_p s)); lia. }
  assert (P1 : preS b s1).
  { unfold preS. split; [rewrite L1; exact W|]. split.
    - apply last_index_wfb; rewrite L1; assumption.
    - unfold lenS, sidxS in *. rewrite L1, S1, V1. repeat split; auto. }
  assert (Keep : exists b', b <= b' /\ b' <= n_commit s /\ preS b' s1 /\
                   p_log (n_p s1) = skipn (N.to_nat (b' - b)) (p_log (n_p s)) /\
                   n_commit s1 = n_commit s /\ n_commits s1 = n_commits s /\ n_role s1 = n_role s /\ p_term (n_p s1) = p_term (n_p s)).
  { exists b. replace (N.to_nat (b - b)) with 0%nat by lia. simpl skipn.
    split; [lia|]. split; [exact Hb|]. split; [exact P1|]. split; [exact L1|]. repeat split; assumption. }
  unfold trim_log in Hrun. rewrite L1 in Hrun.
  rewrite (log_first_wf _ _ W Hne) in Hrun.
  assert (Ell : log_last (p_log (n_p s)) = Some (b + lenS (n_p s))).
  { rewrite (log_last_wf _ _ W Hne). unfold lenS. f_equal. destruct (p_log (n_p s)); [congruence|]. simpl length. lia. }
  rewrite Ell in Hrun.
  destruct (sn_index m =? b + 1 - 1); [inversion Hrun; subst s'; exact Keep|].
  destruct ((sn_index m <? b + 1) || (b + lenS (n_p s) <? sn_index m)) eqn:Eo; [discriminate|].
  apply orb_false_iff in Eo. destruct Eo as [Eo1 Eo2]. apply N.ltb_ge in Eo1. apply N.ltb_ge in Eo2.
  destruct (sn_index m - (b + 1) <? cf_keep (n_cfg s1)) eqn:Ek; [inversion Hrun; subst s'; exact Keep|].
  apply N.ltb_ge in Ek.
  set (u := sn_index m - cf_keep (n_cfg s1)) in *.
  assert (Hu1 : b <= u) by (unfold u; lia). assert (Hu2 : u <= sn_index m) by (unfold u; lia).
  apply do_mut_ret in Hrun. subst s'.
  exists u. split; [exact Hu1|]. split; [lia|].
  assert (ET : p_log (n_p (upd_p s1 (apply_mut (n_p s1) (MTrim u)) (n_cnt s1 + 1) (n_muts s1 ++ [MTrim u]))) =
               skipn (N.to_nat (u - b)) (p_log (n_p s))).
  { simpl. rewrite L1. apply trim_wf; assumption. }
  split; [| split; [exact ET | simpl; repeat split; auto]].
  unfold preS. rewrite ET. simpl n_commit. simpl sidxS. rewrite V1.
  assert (Hlen : (N.to_nat (u - b) <= length (p_log (n_p s)))%nat) by (unfold lenS in *; lia).
  assert (Wn : wf_from (u + 1) (skipn (N.to_nat (u - b)) (p_log (n_p s)))).
  { replace (u + 1) with (b + 1 + N.of_nat (N.to_nat (u - b))) by lia. apply wf_skipn, W. }
  assert (Ln : N.of_nat (length (skipn (N.to_nat (u - b)) (p_log (n_p s)))) = b + lenS (n_p s) - u).
  { rewrite skipn_length. unfold lenS in *. lia. }
  split; [exact Wn|]. unfold lenS. simpl p_log. rewrite L1.
  change (mem_trim u (p_log (n_p s))) with (mem_trim u (p_log (n_p s))). rewrite (trim_wf _ b u W Hu1).
  split.
  - unfold last_index. simpl p_log. rewrite L1, (trim_wf _ b u W Hu1). simpl p_snap. rewrite S1.
    destruct (skipn (N.to_nat (u - b)) (p_log (n_p s))) as [|x r] eqn:Esk.
    + simpl in Ln. simpl. unfold lenS in *. lia.
    + rewrite (log_last_wf _ _ Wn) by discriminate. rewrite Ln. unfold lenS in *. simpl length in Ln. lia.
  - unfold sidxS. simpl p_snap. rewrite S1. rewrite Ln. unfold lenS in *. repeat split; lia.
Qed.
