(* C03/VerifyFresh.v - verify_read_fresh over the Raft system model of C02 (Raft/CompletenessCommit.v).

   VerifyRead in raft.go: the leader proposes an EntryNOP for the (group of) request(s) and concludes them when that
   entry - an entry of ITS term, appended after the request was made - is committed and applied.  In the system model:
     moment 1 (sigma1): the request is made on node b1, a Leader;
     moment 2 (sigma2): the same node (b, same id, same term, still Leader) has committed an entry of its term at a
                        position that did not exist in its log at moment 1.
   Theorem: at moment 2 b's commit index covers the commit index every node had at moment 1, and b's log agrees with
   that node's committed prefix - so once the FSM loop has applied b's committed prefix (Layer.v: the group is
   concluded by the FSM loop after all entries before the NOP), the local read reflects every command committed
   (hence every command acknowledged) anywhere before the verification was requested.
   Corollary: a deposed leader cannot conclude a VerifyRead requested after a higher-term entry was committed.
   Alphabet: lstep of C02 = fixed membership, no snapshot events; ALL interleavings of deliveries (loss, duplication,
   reordering, stale messages), ticks, proposals, restarts and crashes after any durable mutation. *)
From Coq Require Import List NArith ZArith Bool Lia ZifyN ZifyNat ZifyBool.
From BLB Require Import Lib.LTS Raft.Core Raft.Wire Raft.NodeProofs Raft.NodeKeep Raft.NodeElect Raft.NodeConf
  Raft.Election Raft.ElectionFixed Raft.LogMatchLists Raft.CommitCount Raft.LogMatchNode Raft.LogMatch Raft.Completeness
  Raft.CompletenessAck Raft.CompletenessVote Raft.CompletenessCommit.
Import ListNotations.
Open Scope N_scope.

Lemma pfx_len {A} (a b : list A) : pfx a b -> (length a <= length b)%nat.
Proof. intros [y Hy]. rewrite Hy, app_length. lia. Qed.

Lemma pfx_nth_error {A} (a b : list A) k x : pfx a b -> nth_error a k = Some x -> nth_error b k = Some x.
Proof. intros [y Hy] H. rewrite Hy. rewrite nth_error_app1; [exact H | apply nth_error_Some; congruence]. Qed.

Lemma nth_error_firstn_lt {A} (l : list A) c k : (k < c)%nat -> nth_error (firstn c l) k = nth_error l k.
Proof.
  revert c k. induction l as [|x l IH]; intros c k H; destruct c, k; simpl; auto; try lia. apply IH. lia.
Qed.

Section Fresh.
  Variables (bm : list nid) (be : N).

  (* the core of the argument, on the invariants of C02 *)
  Lemma fresh_inv σ1 σ2 G1 A1 CL1 GR1 G2 A2 CL2 GR2 a b1 b i e :
    cminv bm be σ1 G1 A1 CL1 GR1 -> cminv bm be σ2 G2 A2 CL2 GR2 -> incl G1 G2 -> incl A1 A2 ->
    quorum_of (map n_id (sy_nodes σ2)) = quorum_of (map n_id (sy_nodes σ1)) ->
    In a (sy_nodes σ1) -> In b1 (sy_nodes σ1) -> In b (sy_nodes σ2) ->
    n_role b1 = Leader -> n_id b1 = n_id b -> p_term (n_p b1) = p_term (n_p b) ->
    (length (p_log (n_p b1)) <= i)%nat -> nth_error (p_log (n_p b)) i = Some e -> e_term e = p_term (n_p b) ->
    (i < N.to_nat (n_commit b))%nat ->
    (N.to_nat (n_commit a) <= N.to_nat (n_commit b))%nat /\
    firstn (N.to_nat (n_commit a)) (p_log (n_p b)) = firstn (N.to_nat (n_commit a)) (p_log (n_p a)).
  Proof.
    intros C1 C2 HG HA Hq Ha Hb1 Hb Rb1 Eid Et Hlen Hnth Hte Hic.
    pose proof (c_w _ _ _ _ _ _ _ C1) as W1. pose proof (c_w _ _ _ _ _ _ _ C2) as W2.
    pose proof (k_g _ _ _ _ _ (w_k _ _ _ _ _ _ _ W1)) as GI1. pose proof (k_g _ _ _ _ _ (w_k _ _ _ _ _ _ _ W2)) as GI2.
    pose proof (in_get_node _ _ (i_nodup _ _ (g_el _ _ _ _ GI1)) Ha) as Ga.
    pose proof (in_get_node _ _ (i_nodup _ _ (g_el _ _ _ _ GI1)) Hb1) as Gb1.
    pose proof (in_get_node _ _ (i_nodup _ _ (g_el _ _ _ _ GI2)) Hb) as Gb.
    destruct (c_node _ _ _ _ _ _ _ C1 _ _ Ga) as [Hal Hap].
    destruct (c_node _ _ _ _ _ _ _ C2 _ _ Gb) as [Hbl Hbp].
    set (ca := N.to_nat (n_commit a)) in *. set (cb := N.to_nat (n_commit b)) in *.
    set (La := p_log (n_p a)) in *. set (Lb := p_log (n_p b)) in *.
    destruct Hap as [Za | [Ta [Pa [Cma [HTa Hpa]]]]]; [rewrite Za; split; [lia | reflexivity]|].
    destruct Hbp as [Zb | [Tb [Pb [Cmb [HTb Hpb]]]]]; [lia|].
    pose proof (committed_mono σ1 σ2 G1 G2 A1 A2 Ta Pa Hq HG HA Cma) as Cma2.
    pose proof (committed_comparable bm be σ2 G2 A2 CL2 GR2 Ta Pa Tb Pb W2 Cma2 Cmb) as Cmp.
    assert (Cmp2 : comparable (firstn ca La) (firstn cb Lb)).
    { destruct Cmp as [X | X].
      - eapply pfx_comparable; [eapply pfx_trans; [exact Hpa | exact X] | exact Hpb].
      - eapply pfx_comparable; [exact Hpa | eapply pfx_trans; [exact Hpb | exact X]]. }
    assert (Lena : length (firstn ca La) = ca) by (rewrite firstn_length; lia).
    assert (Lenb : length (firstn cb Lb) = cb) by (rewrite firstn_length; lia).
    assert (Hle : (ca <= cb)%nat).
    { destruct (le_lt_dec ca cb) as [H | H]; [exact H | exfalso].
      (* then a's committed prefix at moment 1 already contains the term-T entry at position i *)
      assert (X : pfx (firstn cb Lb) (firstn ca La)).
      { destruct Cmp2 as [X | X]; [apply pfx_len in X; lia | exact X]. }
      assert (Ea : nth_error La i = Some e).
      { rewrite <- (nth_error_firstn_lt La ca i) by lia. apply (pfx_nth_error _ _ _ _ X).
        rewrite nth_error_firstn_lt by lia. exact Hnth. }
      destruct (g_lm_node _ _ _ _ GI1 _ _ Ga i e Ea) as [j [l [Rl El]]].
      assert (Ll : (i < length l)%nat).
      { pose proof (f_equal (@length _) El) as HL. rewrite !firstn_length in HL.
        assert (i < length La)%nat by (apply nth_error_Some; congruence). fold La in HL. lia. }
      rewrite Hte, <- Et in Rl.
      pose proof (g_hist_leader _ _ _ _ GI1 _ _ Gb1 Rb1) as Hh1.
      destruct (g_rec_hist _ _ _ _ GI1 _ _ _ Rl) as [[Z1 [Z2 Z3]] | [Nz [Hh2 _]]].
      - (* the bootstrap record has term 1; a leader's term is >= 2 *)
        pose proof (g_rec_leader _ _ _ _ GI1 _ _ Gb1 Rb1) as Rb.
        destruct (g_rec_hist _ _ _ _ GI1 _ _ _ Rb) as [[Y1 _] | [_ [_ Y3]]].
        + eapply i_nz; [exact (g_el _ _ _ _ GI1) | exact Gb1 | exact Y1].
        + lia.
      - pose proof (inv_election _ _ (g_el _ _ _ _ GI1) _ _ _ Hh1 Hh2) as Ej. subst j.
        destruct (g_rec_node _ _ _ _ GI1 _ _ _ Rl Nz) as [s [Gs [_ Hs]]].
        rewrite Gb1 in Gs. inversion Gs. subst s.
        destruct (Hs eq_refl) as [_ Hp]. apply Hp in Rb1. apply pfx_len in Rb1. lia. }
    split; [exact Hle|].
    assert (X : pfx (firstn ca La) (firstn cb Lb)).
    { destruct Cmp2 as [X | X]; [exact X|]. pose proof (pfx_len _ _ X) as HL.
      destruct X as [y Hy]. assert (y = []).
      { pose proof (f_equal (@length _) Hy) as E. rewrite app_length in E. destruct y; [reflexivity | simpl in E; lia]. }
      subst y. rewrite app_nil_r in Hy. rewrite Hy. apply pfx_refl. }
    transitivity (firstn ca (firstn cb Lb)).
    - rewrite firstn_firstn, Nat.min_l by lia. reflexivity.
    - rewrite <- (pfx_firstn ca _ _ X) by lia. rewrite firstn_firstn, Nat.min_id. reflexivity.
  Qed.
End Fresh.

(* ---------------------------------------------------------------- ghost-free statements *)
Theorem verify_read_fresh_sys :
  forall (bm : list nid) (be : N) (σ0 σ1 σ2 : sys) (sched1 sched2 : list sys_event),
    cinit σ0 ->
    run sys sys_event (lstep (length (sy_nodes σ0)) bm be) σ0 sched1 σ1 ->
    run sys sys_event (lstep (length (sy_nodes σ0)) bm be) σ1 sched2 σ2 ->
    forall a b1 b i e,
      In a (sy_nodes σ1) -> In b1 (sy_nodes σ1) -> In b (sy_nodes σ2) ->
      n_role b1 = Leader -> n_id b1 = n_id b -> p_term (n_p b1) = p_term (n_p b) ->
      (length (p_log (n_p b1)) <= i)%nat -> nth_error (p_log (n_p b)) i = Some e -> e_term e = p_term (n_p b) ->
      (i < N.to_nat (n_commit b))%nat ->
      (N.to_nat (n_commit a) <= N.to_nat (n_commit b))%nat /\
      firstn (N.to_nat (n_commit a)) (p_log (n_p b)) = firstn (N.to_nat (n_commit a)) (p_log (n_p a)).
Proof.
  intros bm be σ0 σ1 σ2 sched1 sched2 [Hinit Hc0] Hr1 Hr2 a b1 b i e Ha Hb1 Hb.
  assert (Hc0' : forall s, In s (sy_nodes σ0) -> n_commit s = 0) by (intros s Hs; apply Hc0; auto).
  destruct (cmrun_inv bm be _ σ0 sched1 σ1 _ _ _ _ eq_refl (cminv_init bm be σ0 Hinit Hc0') Hr1) as [G1 [A1 [CL1 [GR1 [C1 _]]]]].
  assert (Hn1 : length (sy_nodes σ1) = length (sy_nodes σ0)) by (eapply lrun_length; eauto).
  destruct (cmrun_inv bm be _ σ1 sched2 σ2 G1 A1 CL1 GR1 Hn1 C1 Hr2) as [G2 [A2 [CL2 [GR2 [C2 [HG HA]]]]]].
  apply (fresh_inv bm be σ1 σ2 G1 A1 CL1 GR1 G2 A2 CL2 GR2 a b1 b i e C1 C2 HG HA (lrun_quorum _ _ _ _ _ _ Hr2 Hn1) Ha Hb1 Hb).
Qed.

(* a deposed leader cannot conclude: if some node had, at the moment of the request, committed an entry of a term greater
   than b's, then b never commits an entry of its own term that it appended after the request *)
Theorem deposed_leader_cannot_verify_sys :
  forall (bm : list nid) (be : N) (σ0 σ1 σ2 : sys) (sched1 sched2 : list sys_event),
    cinit σ0 ->
    run sys sys_event (lstep (length (sy_nodes σ0)) bm be) σ0 sched1 σ1 ->
    run sys sys_event (lstep (length (sy_nodes σ0)) bm be) σ1 sched2 σ2 ->
    forall a b1 b k x,
      In a (sy_nodes σ1) -> In b1 (sy_nodes σ1) -> In b (sy_nodes σ2) ->
      n_role b1 = Leader -> n_id b1 = n_id b -> p_term (n_p b1) = p_term (n_p b) ->
      nth_error (p_log (n_p a)) k = Some x -> (k < N.to_nat (n_commit a))%nat -> p_term (n_p b) < e_term x ->
      forall i e, (length (p_log (n_p b1)) <= i)%nat -> nth_error (p_log (n_p b)) i = Some e -> e_term e = p_term (n_p b) ->
                  ~ (i < N.to_nat (n_commit b))%nat.
Proof.
  intros bm be σ0 σ1 σ2 sched1 sched2 Hi Hr1 Hr2 a b1 b k x Ha Hb1 Hb Rb Eid Et Hk Hkc Hlt i e Hlen Hnth Hte Hic.
  destruct (verify_read_fresh_sys bm be σ0 σ1 σ2 sched1 sched2 Hi Hr1 Hr2 a b1 b i e Ha Hb1 Hb Rb Eid Et Hlen Hnth Hte Hic) as [_ E].
  assert (Hx : nth_error (p_log (n_p b)) k = Some x).
  { rewrite <- (nth_error_firstn_lt (p_log (n_p b)) (N.to_nat (n_commit a)) k) by lia. rewrite E.
    rewrite nth_error_firstn_lt by lia. exact Hk. }
  destruct Hi as [Hinit Hc0].
  assert (Hc0' : forall s, In s (sy_nodes σ0) -> n_commit s = 0) by (intros s Hs; apply Hc0; auto).
  destruct (cmrun_inv bm be _ σ0 sched1 σ1 _ _ _ _ eq_refl (cminv_init bm be σ0 Hinit Hc0') Hr1) as [G1 [A1 [CL1 [GR1 [C1 _]]]]].
  assert (Hn1 : length (sy_nodes σ1) = length (sy_nodes σ0)) by (eapply lrun_length; eauto).
  destruct (cmrun_inv bm be _ σ1 sched2 σ2 G1 A1 CL1 GR1 Hn1 C1 Hr2) as [G2 [A2 [CL2 [GR2 [C2 _]]]]].
  pose proof (k_g _ _ _ _ _ (w_k _ _ _ _ _ _ _ (c_w _ _ _ _ _ _ _ C2))) as GI2.
  pose proof (in_get_node _ _ (i_nodup _ _ (g_el _ _ _ _ GI2)) Hb) as Gb.
  destruct (g_tb_node _ _ _ _ GI2 _ _ Gb) as [TB _]. unfold tbound in TB. rewrite Forall_forall in TB.
  pose proof (TB x (nth_error_In _ _ Hx)). lia.
Qed.
