(* C03/ReconfShape.v - what core.AddNode / core.RemoveNode append at a leader: nothing (refused) or exactly one EntryConf entry.
   This makes the two CReconfR constructors of LayerCoreR.v exhaustive. *)
From Coq Require Import List NArith ZArith Bool Lia ZifyN ZifyNat ZifyBool.
From BLB Require Import Raft.Core Raft.NodeProofs Raft.LogMatchLists Raft.SnapContig Raft.LeaderSuffix Raft.LeaderSuffixS Raft.LeaderSuffixR.
Import ListNotations.
Open Scope N_scope.

Lemma appended_refl s : appended s s = [].
Proof. unfold appended. apply skipn_all. Qed.

Lemma reconf_appended_shape b s ev code s' :
  preS b s -> n_role s = Leader -> reconf_event ev ->
  run_event (settle s) ev = Ret (code, s') ->
  appended s s' = [] \/ exists e, appended s s' = [e] /\ e_type e = EntryConf.
Proof.
  intros P Hr Hev Hrun. assert (P0 : preS b (settle s)) by exact P.
  assert (Hr0 : n_role (settle s) = Leader) by exact Hr.
  assert (EL : p_log (n_p (settle s)) = p_log (n_p s)) by reflexivity.
  unfold appended. rewrite <- EL. fold (appended (settle s) s').
  revert P0 Hr0 Hrun. generalize (settle s) as s0. clear P Hr EL s. intros s P Hr Hrun.
  destruct ev; simpl in Hev; try contradiction; simpl in Hrun.
  - unfold add_node in Hrun. rewrite Hr in Hrun. unfold leader_add_node in Hrun.
    pose proof (pure_verify_nop_committed s) as Pv.
    destruct (verify_nop_committed s) as [[] | |]; simpl in *; try discriminate; try contradiction.
    destruct (n_conf s) as [c |] eqn:Ec; [| discriminate].
    destruct (memb member (mb_members c)); [inversion Hrun; subst; left; apply appended_refl|].
    destruct (negb (latest_conf_committed s)); [inversion Hrun; subst; left; apply appended_refl|].
    cbv zeta in Hrun.
    match type of Hrun with bind (leader_propose ?x2 ?es) _ = _ => set (s2 := x2) in *; set (es0 := es) in * end.
    destruct (leader_propose s2 es0) as [s3 | |] eqn:E; simpl in Hrun; try discriminate. inversion Hrun. subst s3.
    assert (P2 : preS b s2) by exact P.
    destruct (leader_propose_lcS b s2 es0 s' P2 E) as [_ [L _]].
    right. eexists. split.
    + apply (appended_app s s'). exact L.
    + reflexivity.
  - unfold remove_node in Hrun. rewrite Hr in Hrun. unfold leader_remove_node in Hrun.
    pose proof (pure_verify_nop_committed s) as Pv.
    destruct (verify_nop_committed s) as [[] | |]; simpl in *; try discriminate; try contradiction.
    destruct (n_conf s) as [c |] eqn:Ec; [| discriminate].
    destruct (negb (memb member (mb_members c))); [inversion Hrun; subst; left; apply appended_refl|].
    destruct (negb (latest_conf_committed s)); [inversion Hrun; subst; left; apply appended_refl|].
    cbv zeta in Hrun.
    match type of Hrun with bind (leader_propose ?x2 ?es) _ = _ => set (s2 := x2) in *; set (es0 := es) in * end.
    destruct (leader_propose s2 es0) as [s3 | |] eqn:E; simpl in Hrun; try discriminate.
    pose proof (lx0S_leader_maybe_commit b s3) as K.
    destruct (leader_maybe_commit s3) as [s4 | |]; simpl in Hrun; try discriminate. inversion Hrun. subst s4.
    assert (P2 : preS b s2) by exact P.
    destruct (leader_propose_lcS b s2 es0 s3 P2 E) as [P3 [L _]].
    destruct (K P3) as [_ [L4 _]].
    right. eexists. split.
    + apply (appended_app s s'). rewrite L4. exact L.
    + reflexivity.
Qed.
