(* C03/PropsReconf.v - property-level theorems: the layer theorems over the Raft core for leaderships that contain
   reconfiguration requests (AddNode / RemoveNode), SnapshotDone and a start state with a snapshot. *)
From Coq Require Import List NArith ZArith Bool Permutation.
From BLB Require Import Raft.Core Raft.LeaderSuffix Raft.LeaderSuffixS Raft.LeaderSuffixR Raft.LeaderSuffixExample
  C03.LayerR C03.LayerCoreR C03.ReconfShape C03.LayerCoreRExample.
Import ListNotations.
Open Scope Z_scope.

(* [FULL] pairing_correct over the Raft core with reconfiguration - layer model LayerR with raft.go's reconfiguration
   bookkeeping: a request on reconfigCh is refused with ErrTooManyPendingReqs while pendingReconfig is set, otherwise
   handed to core.AddNode or core.RemoveNode, concluded with the core's error if it refuses, else kept as
   pendingReconfig; a committed EntryConf is paired with pendingReconfig, every other entry with pendingCommands[0];
   on step-down both are failed. Core events are completed steps of the Raft node model including AddNode,
   RemoveNode, SnapshotDone with an applied position, Deliver, Tick, Propose, Bootstrap, the node still leader of the
   same term, start state as in leader_commits_own_suffix_with_reconfiguration of C02. Conclusions of
   pairing_correct, plus - a committed configuration entry is paired with the reconfiguration request it was
   appended for, which is concluded without error after the entries before it were applied *)
Theorem pairing_correct_over_raft_core_with_reconfiguration :
  forall (St R : Type) (apply : St -> Z -> St * R) s0 its evs s tail,
  loop_start_snap s0 -> crunR R (loop_termR s0) (cstartR R s0) its evs s -> tail_okR tail ->
  let st := run R (loop_termR s0) (evs ++ tail) in
  (fatal R st = false /\
   map fst (tofsm R st) = committed R st /\
   map snd (tofsm R st) = firstn (length (committed R st)) (enqueued R st) /\
   (forall k cmd tag c, nth_error (tofsm R st) k = Some (ENormal cmd tag, c) ->
      c = CPending tag /\
      (exists r, In r (reqs R st) /\ rp r = tag /\ rcmd r = cmd) /\
      forall f0, In (tag, Applied R (Some (snd (apply (fsm_state St R apply f0 (firstn k (tofsm R st))) cmd))))
                    (fsm_run St R apply f0 (tofsm R st))) /\
   (forall k c, nth_error (tofsm R st) k = Some (ENop, c) -> exists g, c = CGroup g)) /\
  (forall k pl tag c, nth_error (tofsm R st) k = Some (EConf pl tag, c) ->
     c = CPending tag /\ forall f0, In (tag, Applied R None) (fsm_run St R apply f0 (tofsm R st))).
Proof.
  intros St R apply s0 its evs s tail H0 Hr Ht st. split.
  - exact (pairing_over_raft_lemmaR St R apply s0 its evs s tail H0 Hr Ht).
  - exact (pairing_conf_over_raft_lemmaR St R apply s0 its evs s tail H0 Hr Ht).
Qed.
Print Assumptions pairing_correct_over_raft_core_with_reconfiguration.

(* [FULL] pending_concluded_exactly_once over the Raft core with reconfiguration, same runs, the ids of all Pendings
   including reconfiguration requests pairwise distinct *)
Theorem pending_concluded_exactly_once_over_raft_core_with_reconfiguration :
  forall (St R : Type) (apply : St -> Z -> St * R) s0 its evs s tail f0,
  loop_start_snap s0 -> crunR R (loop_termR s0) (cstartR R s0) its evs s -> tail_okR tail ->
  let st := run R (loop_termR s0) (evs ++ tail) in
  NoDup (seen R st) ->
  NoDup (map fst (concl R st ++ fsm_run St R apply f0 (tofsm R st)) ++
         flat_map (fun ce => pids (fst ce)) (queue R st)) /\
  (leading R st = false ->
   Permutation (map fst (concl R st ++ fsm_run St R apply f0 (tofsm R st))) (seen R st)).
Proof. exact concluded_once_over_raft_lemmaR. Qed.
Print Assumptions pending_concluded_exactly_once_over_raft_core_with_reconfiguration.

(* [FULL] definite_error_never_proposed over the Raft core with reconfiguration, same runs - a request concluded with
   ErrNodeNotLeader, ErrTermMismatch, ErrTooManyPendingReqs or the core's refusal was never handed to the log,
   neither as a command nor as a configuration entry *)
Theorem definite_error_never_proposed_over_raft_core_with_reconfiguration :
  forall (R : Type) s0 its evs s tail,
  loop_start_snap s0 -> crunR R (loop_termR s0) (cstartR R s0) its evs s -> tail_okR tail ->
  let st := run R (loop_termR s0) (evs ++ tail) in
  NoDup (seen R st) ->
  forall p o, In (p, o) (concl R st) -> (o = ENotLeader R \/ o = ETermMismatch R \/ o = ETooMany R \/ o = ERefused R) ->
  (forall cmd, ~ In (ENormal cmd p) (proposed R st)) /\ (forall pl, ~ In (EConf pl p) (proposed R st)).
Proof. exact definite_error_all_over_raft_lemmaR. Qed.
Print Assumptions definite_error_never_proposed_over_raft_core_with_reconfiguration.

(* [FULL] the coupling with reconfiguration is faithful - the entries handed to the layer equal in type, payload and
   order what the node model returned from TakeNewlyCommitted and appended for proposals and accepted
   reconfigurations *)
Theorem coupled_commits_are_core_commits_with_reconfiguration :
  forall (R : Type) cur s0 its evs l c,
  loop_start_snap s0 -> crunR R cur (cstartR R s0) its evs (l, c) ->
  l = run R cur evs /\ leading R l = true /\
  map erR (committed R l) = map cmd_of (lp_comm c) /\
  map erR (proposed R l) = map cmd_of (lp_prop c) /\
  exists cevs, loop_runR {| lp_node := s0; lp_prop := []; lp_comm := [] |} cevs c.
Proof. exact coupled_faithfulR. Qed.
Print Assumptions coupled_commits_are_core_commits_with_reconfiguration.

(* [FULL] the two coupled cases of a reconfiguration request are exhaustive, node level - an AddNode or RemoveNode event
   completed at a leader appends nothing, the refusal, or exactly one entry of type EntryConf, the acceptance *)
Theorem reconfiguration_appends_nothing_or_one_conf_entry :
  forall b s ev code s',
  preS b s -> n_role s = Leader -> reconf_event ev ->
  run_event (settle s) ev = Ret (code, s') ->
  appended s s' = [] \/ exists e, appended s s' = [e] /\ e_type e = EntryConf.
Proof. exact reconf_appended_shape. Qed.
Print Assumptions reconfiguration_appends_nothing_or_one_conf_entry.

(* [FULL] non-vacuity with an accepted and a refused reconfiguration request: AddNode of an existing member is refused
   by the core, AddNode 3 is accepted and becomes pendingReconfig, a third request meets ErrTooManyPendingReqs, a
   normal proposal follows, and the acknowledgement of index 3 commits the configuration entry, which is paired with
   request 2 while the proposal stays queued *)
Theorem coupled_run_with_reconfiguration_nonvacuous_thm :
  exists evs l c,
    crunR unit (loop_termR ldr0) (cstartR unit ldr0) exR_its evs (l, c) /\
    concl unit l = [(1%nat, ERefused unit); (3%nat, ETooMany unit)] /\
    tofsm unit l = [(EConf (e_pl cfe) 2%nat, CPending 2%nat)] /\
    proposed unit l = [EConf (e_pl cfe) 2%nat; ENormal 43 4%nat] /\ queue unit l = [(CPending 4%nat, ENormal 43 4%nat)] /\
    e_type cfe = EntryConf /\ n_commit (lp_node c) = 3%N /\ n_role (lp_node c) = Leader /\ fatal unit l = false.
Proof. exact coupled_run_with_reconfiguration_nonvacuous. Qed.
Print Assumptions coupled_run_with_reconfiguration_nonvacuous_thm.
