(* C03/Layer.v - a small Gallina model of the leader loop of pkg/raft/raft/raft.go (runLeader) and of
   fsm_loop.go (handleCommits), as a state machine over the outputs of the core layer:
     - EvProp batch   : the propCh case (takeBatchedProposals + the ProposeIfTerm filter INSIDE the loop);
     - EvVerify g     : the verifyReadCh case (one NOP entry for a drained group of VerifyRead requests);
     - EvCommit ents  : TakeNewlyCommitted returned ents; every entry is paired with pendingCommands[0];
     - EvStepDown     : the loop ends, everything still queued is concluded with ErrNotLeaderAnymore;
   after EvStepDown (and before the node leads) requests are concluded with ErrNodeNotLeader (runNonLeader).
   Membership entries / pendingReconfig are outside this model.
   Ghost components (not present in the Go code, used only to state the theorem): the tag of a Normal entry
   (the id of the Pending it was proposed for), the entry remembered next to a queued concluder, the lists
   proposed / committed / enqueued / seen.

   The CORE CONTRACT (named hypothesis, not proved here - it is a statement about the Raft core, "invariants 2-4"
   in the comment of runLeader): after the term's NOP was applied, the entries returned by TakeNewlyCommitted in
   this loop are, in order, a prefix of the entries handed to core.Propose in this loop  (run_ok below). *)
From Coq Require Import List ZArith Bool Lia Permutation.
Import ListNotations.

Section LayerR.
Variables (St R : Type) (apply : St -> Z -> St * R).

Inductive entry := ENormal (cmd : Z) (tag : nat) | ENop | EConf (pl : list Z) (tag : nat).
Definition is_conf (e : entry) : bool := match e with EConf _ _ => true | _ => false end.
Inductive conc := CPending (p : nat) | CGroup (g : list nat).
Inductive outcome := Applied (r : option R) | ENotLeader | ETermMismatch | ENotLeaderAnymore | ETooMany | ERefused.
Record req := mkReq { rp : nat; rcmd : Z; rterm : Z }.
Inductive event :=
| EvProp (batch : list req)
| EvVerify (g : list nat)
| EvCommit (ents : list entry)
| EvStepDown
| EvReconf (p : nat) (res : option (list Z)).   (* reconfigCh: AddNode / RemoveNode request; res = what the core appended (None: it refused) *)

Record lstate := mkL {
  leading   : bool;
  queue     : list (conc * entry);      (* pendingCommands (+ ghost: the entry proposed for it) *)
  failed    : list (conc * entry);      (* ghost: what was still queued when the loop ended *)
  proposed  : list entry;               (* ghost: everything handed to core.Propose in this loop, in order *)
  committed : list entry;               (* ghost: everything TakeNewlyCommitted returned in this loop *)
  enqueued  : list conc;                (* ghost: every concluder ever appended to pendingCommands *)
  tofsm     : list (entry * conc);      (* commit tuples handed to the FSM loop, in order *)
  concl     : list (nat * outcome);     (* conclusions made by the core loop itself (errors) *)
  seen      : list nat;                 (* ghost: ids of all Pendings received so far *)
  reqs      : list req;                 (* ghost: all proposal requests received while leading *)
  fatal     : bool                      (* pendingCommands[0] on an empty queue *)
}.

Definition init : lstate := mkL true [] [] [] [] [] [] [] [] [] false.

Definition pids (c : conc) : list nat := match c with CPending p => [p] | CGroup g => g end.
Definition conclude (c : conc) (o : outcome) : list (nat * outcome) := map (fun p => (p, o)) (pids c).

Definition term_ok (cur : Z) (r : req) : bool := (rterm r =? 0)%Z || (rterm r =? cur)%Z.
Definition ent_of (r : req) : entry := ENormal (rcmd r) (rp r).

(* pendingCommands = the non-configuration waiters of [queue], pendingReconfig = its configuration waiter (at most one) *)
Fixpoint take_first (f : conc * entry -> bool) (l : list (conc * entry)) : option (conc * list (conc * entry)) :=
  match l with
  | [] => None
  | x :: r => if f x then Some (fst x, r)
              else match take_first f r with Some (c, r') => Some (c, x :: r') | None => None end
  end.

Definition pair_one (st : lstate) (e : entry) : lstate :=
  (* EntryNormal / EntryNOP: pendingCommands[0]; EntryConf: pendingReconfig *)
  match take_first (fun ce => Bool.eqb (is_conf (snd ce)) (is_conf e)) (queue st) with
  | None => mkL (leading st) (queue st) (failed st) (proposed st) (committed st ++ [e]) (enqueued st) (tofsm st) (concl st)
              (seen st) (reqs st) true
  | Some (c, q) => mkL (leading st) q (failed st) (proposed st) (committed st ++ [e]) (enqueued st) (tofsm st ++ [(e, c)])
                       (concl st) (seen st) (reqs st) (fatal st)
  end.

Definition step (cur : Z) (st : lstate) (ev : event) : lstate :=
  match ev with
  | EvProp batch =>
      if leading st then
        let acc := filter (term_ok cur) batch in
        let rej := filter (fun r => negb (term_ok cur r)) batch in
        mkL true (queue st ++ map (fun r => (CPending (rp r), ent_of r)) acc) (failed st)
            (proposed st ++ map ent_of acc) (committed st)
            (enqueued st ++ map (fun r => CPending (rp r)) acc) (tofsm st)
            (concl st ++ map (fun r => (rp r, ETermMismatch)) rej)
            (seen st ++ map rp batch) (reqs st ++ batch) (fatal st)
      else
        mkL false (queue st) (failed st) (proposed st) (committed st) (enqueued st) (tofsm st)
            (concl st ++ map (fun r => (rp r, ENotLeader)) batch)
            (seen st ++ map rp batch) (reqs st) (fatal st)
  | EvVerify g =>
      if leading st then
        mkL true (queue st ++ [(CGroup g, ENop)]) (failed st) (proposed st ++ [ENop]) (committed st)
            (enqueued st ++ [CGroup g]) (tofsm st) (concl st) (seen st ++ g) (reqs st) (fatal st)
      else
        mkL false (queue st) (failed st) (proposed st) (committed st) (enqueued st) (tofsm st)
            (concl st ++ map (fun p => (p, ENotLeader)) g) (seen st ++ g) (reqs st) (fatal st)
  | EvCommit ents => if leading st then fold_left pair_one ents st else st
  | EvStepDown =>
      if leading st then
        mkL false [] (queue st) (proposed st) (committed st) (enqueued st) (tofsm st)
            (concl st ++ flat_map (fun ce => conclude (fst ce) ENotLeaderAnymore) (queue st))
            (seen st) (reqs st) (fatal st)
      else st
  | EvReconf p res =>
      if leading st then
        if existsb (fun ce => is_conf (snd ce)) (queue st) then      (* pendingReconfig != nil *)
          mkL true (queue st) (failed st) (proposed st) (committed st) (enqueued st) (tofsm st)
              (concl st ++ [(p, ETooMany)]) (seen st ++ [p]) (reqs st) (fatal st)
        else match res with
             | Some pl =>                                             (* core.AddNode / RemoveNode accepted: pendingReconfig = pending *)
                 mkL true (queue st ++ [(CPending p, EConf pl p)]) (failed st) (proposed st ++ [EConf pl p]) (committed st)
                     (enqueued st ++ [CPending p]) (tofsm st) (concl st) (seen st ++ [p]) (reqs st) (fatal st)
             | None =>
                 mkL true (queue st) (failed st) (proposed st) (committed st) (enqueued st) (tofsm st)
                     (concl st ++ [(p, ERefused)]) (seen st ++ [p]) (reqs st) (fatal st)
             end
      else
        mkL false (queue st) (failed st) (proposed st) (committed st) (enqueued st) (tofsm st)
            (concl st ++ [(p, ENotLeader)]) (seen st ++ [p]) (reqs st) (fatal st)
  end.

Definition run (cur : Z) (evs : list event) : lstate := fold_left (step cur) evs init.

(* the FSM loop: applies the tuples in order and concludes the paired waiter with the result *)
Fixpoint fsm_run (s : St) (l : list (entry * conc)) : list (nat * outcome) :=
  match l with
  | [] => []
  | (ENormal cmd _, c) :: r => let (s', res) := apply s cmd in conclude c (Applied (Some res)) ++ fsm_run s' r
  | (ENop, c) :: r => conclude c (Applied None) ++ fsm_run s r
  | (EConf _ _, c) :: r => conclude c (Applied None) ++ fsm_run s r     (* applyMembership; no result *)
  end.

(* state of the FSM before the k-th tuple *)
Fixpoint fsm_state (s : St) (l : list (entry * conc)) : St :=
  match l with
  | [] => s
  | (ENormal cmd _, _) :: r => fsm_state (fst (apply s cmd)) r
  | (ENop, _) :: r => fsm_state s r
  | (EConf _ _, _) :: r => fsm_state s r
  end.

(* ---------- the core contract ---------- *)
Definition prefix {A} (a b : list A) : Prop := exists c, b = a ++ c.
Definition step_ok (st : lstate) (ev : event) : Prop :=
  match ev with
  | EvCommit ents => leading st = true -> prefix (committed st ++ ents) (proposed st)
  | _ => True
  end.
Fixpoint run_ok (cur : Z) (st : lstate) (evs : list event) : Prop :=
  match evs with
  | [] => True
  | ev :: r => step_ok st ev /\ run_ok cur (step cur st ev) r
  end.
Definition core_contract (cur : Z) (evs : list event) : Prop := run_ok cur init evs.

(* ---------- invariant ---------- *)
Definition matches (e : entry) (c : conc) : Prop :=
  match c, e with
  | CPending p, ENormal _ tag => tag = p
  | CGroup _, ENop => True
  | CPending p, EConf _ tag => tag = p
  | _, _ => False
  end.

Definition all_pids (st : lstate) : list nat :=
  map fst (concl st) ++ flat_map (fun ec => pids (snd ec)) (tofsm st) ++ flat_map (fun ce => pids (fst ce)) (queue st).

Record Inv (st : lstate) : Prop := {
  inv_fatal : fatal st = false;
  inv_prop  : proposed st = committed st ++ map snd (queue st) ++ map snd (failed st);
  inv_lf    : leading st = true -> failed st = [];
  inv_mfl   : Forall (fun ce => matches (snd ce) (fst ce)) (failed st);
  inv_fl    : forall ce p, In ce (failed st) -> In p (pids (fst ce)) -> In (p, ENotLeaderAnymore) (concl st);
  inv_comm  : map fst (tofsm st) = committed st;
  inv_enq   : enqueued st = map snd (tofsm st) ++ map fst (queue st) ++ map fst (failed st);
  inv_mq    : Forall (fun ce => matches (snd ce) (fst ce)) (queue st);
  inv_mf    : Forall (fun ec => matches (fst ec) (snd ec)) (tofsm st);
  inv_nl    : leading st = false -> queue st = [];
  inv_perm  : Permutation (all_pids st) (seen st);
  inv_reqs  : forall cmd p, In (ENormal cmd p) (proposed st) -> exists r, In r (reqs st) /\ rp r = p /\ rcmd r = cmd;
  inv_err   : forall p o, In (p, o) (concl st) -> o = ENotLeader \/ o = ETermMismatch \/ o = ENotLeaderAnymore \/ o = ETooMany \/ o = ERefused
}.

Lemma Inv_init : Inv init.
Proof.
  constructor; simpl; auto.
  - intros cmd p [].
  - intros p o [].
Qed.

Lemma prefix_app_inv {A} (a x y : list A) : prefix (a ++ x) (a ++ y) -> prefix x y.
Proof. intros [c H]. rewrite <- app_assoc in H. apply app_inv_head in H. exists c. exact H. Qed.

Lemma prefix_cons_inv {A} (e : A) x y : prefix (e :: x) y -> exists y', y = e :: y' /\ prefix x y'.
Proof. intros [c H]. simpl in H. exists (x ++ c). split; [exact H | exists c; reflexivity]. Qed.

Lemma filter_partition_perm {A} (f : A -> bool) (l : list A) :
  Permutation (filter f l ++ filter (fun x => negb (f x)) l) l.
Proof.
  induction l as [|x l IH]; simpl; [constructor|].
  destruct (f x); simpl.
  - constructor. exact IH.
  - eapply Permutation_trans; [apply Permutation_sym, Permutation_middle|]. constructor. exact IH.
Qed.

Lemma commit_fold ents : forall st,
  Inv st -> leading st = true -> prefix (committed st ++ ents) (proposed st) ->
  let st' := fold_left pair_one ents st in
  Inv st' /\ leading st' = true.
Proof.
  induction ents as [|e ents IH]; intros st HI HL HP; simpl.
  - split; assumption.
  - destruct HI as [Hf Hp Hlf Hmfl Hfl Hc He Hq Hm Hn Hperm Hr Herr].
    pose proof (Hlf HL) as Hfe. unfold all_pids in Hperm.
    assert (prefix (e :: ents) (map snd (queue st))) as HP2.
    { rewrite Hp, Hfe in HP. simpl in HP. rewrite app_nil_r in HP. apply prefix_app_inv in HP. exact HP. }
    apply prefix_cons_inv in HP2. destruct HP2 as [y' [Hy HP3]].
    destruct (queue st) as [|[c g] q] eqn:Hqueue; [discriminate|].
    simpl in Hy. inversion Hy; subst g y'. clear Hy.
    assert (pair_one st e = mkL (leading st) q (failed st) (proposed st) (committed st ++ [e]) (enqueued st)
                                (tofsm st ++ [(e, c)]) (concl st) (seen st) (reqs st) (fatal st)) as Hpo.
    { unfold pair_one. rewrite Hqueue. simpl. rewrite Bool.eqb_reflx. reflexivity. }
    rewrite Hpo. apply IH.
    + constructor; simpl.
      * exact Hf.
      * rewrite Hp. simpl. rewrite <- app_assoc. reflexivity.
      * exact Hlf.
      * exact Hmfl.
      * exact Hfl.
      * rewrite map_app. simpl. rewrite Hc. reflexivity.
      * rewrite He. rewrite map_app. simpl. rewrite <- app_assoc. reflexivity.
      * inversion Hq; assumption.
      * apply Forall_app. split; [exact Hm|]. constructor; [|constructor]. inversion Hq; subst. simpl in *. assumption.
      * intros Hl. congruence.
      * unfold all_pids in *. simpl in *. rewrite flat_map_app. simpl. rewrite app_nil_r.
        rewrite <- app_assoc. exact Hperm.
      * exact Hr.
      * exact Herr.
    + simpl. exact HL.
    + simpl. rewrite Hp, Hfe. simpl. rewrite app_nil_r. rewrite <- app_assoc. simpl.
      destruct HP3 as [c3 Hc3]. exists c3. rewrite Hc3. rewrite <- app_assoc. reflexivity.
Qed.

Lemma flat_map_conclude_fst (l : list (conc * entry)) o :
  map fst (flat_map (fun ce => conclude (fst ce) o) l) = flat_map (fun ce => pids (fst ce)) l.
Proof.
  induction l as [|[c e] l IH]; simpl; [reflexivity|].
  rewrite map_app, IH. unfold conclude. rewrite map_map. simpl. rewrite map_id. reflexivity.
Qed.

Lemma step_Inv cur st ev : Inv st -> step_ok st ev -> Inv (step cur st ev).
Proof.
  intros HI Hok. destruct ev as [batch|g|ents| |p res]; simpl.
  - destruct HI as [Hf Hp Hlf Hmfl Hfl Hc He Hq Hm Hn Hperm Hr Herr].
    destruct (leading st) eqn:HL.
    + constructor; simpl.
      * exact Hf.
      * rewrite Hp, (Hlf eq_refl), map_app, map_map. simpl. rewrite !app_nil_r. rewrite <- app_assoc. reflexivity.
      * exact Hlf.
      * exact Hmfl.
      * intros ce p A B. apply in_or_app. left. eapply Hfl; eauto.
      * exact Hc.
      * rewrite He, (Hlf eq_refl), map_app, map_map. simpl. rewrite !app_nil_r. rewrite <- app_assoc. reflexivity.
      * apply Forall_app. split; [exact Hq|]. apply Forall_forall. intros x Hx.
        apply in_map_iff in Hx. destruct Hx as [r [Hx _]]. subst x. simpl. reflexivity.
      * exact Hm.
      * discriminate.
      * unfold all_pids in *. simpl. rewrite !map_app, !flat_map_app, !map_map. simpl.
        assert (flat_map (fun ce : conc * entry => pids (fst ce))
                         (map (fun r : req => (CPending (rp r), ent_of r)) (filter (term_ok cur) batch))
                = map rp (filter (term_ok cur) batch)) as E1.
        { induction (filter (term_ok cur) batch) as [|x l IHl]; simpl; [reflexivity|]. rewrite IHl. reflexivity. }
        rewrite E1.
        assert (Permutation (map rp (filter (term_ok cur) batch) ++
                             map (fun x : req => rp x) (filter (fun r : req => negb (term_ok cur r)) batch))
                            (map rp batch)) as HP1.
        { rewrite <- map_app. apply Permutation_map. apply filter_partition_perm. }
        eapply Permutation_trans; [|apply Permutation_app; [exact Hperm | exact HP1]].
        rewrite <- !app_assoc. apply Permutation_app_head.
        eapply Permutation_trans; [apply Permutation_app_comm|]. rewrite <- !app_assoc.
        apply Permutation_app_head. apply Permutation_app_head. apply Permutation_refl.
      * intros cmd p Hin. apply in_app_or in Hin. destruct Hin as [Hin|Hin].
        -- destruct (Hr _ _ Hin) as [r [A [B C]]]. exists r. split; [apply in_or_app; left; exact A | split; assumption].
        -- apply in_map_iff in Hin. destruct Hin as [r [E Hin]]. apply filter_In in Hin. destruct Hin as [Hin _].
           unfold ent_of in E. inversion E; subst. exists r. split; [apply in_or_app; right; exact Hin | split; reflexivity].
      * intros p o Hin. apply in_app_or in Hin. destruct Hin as [Hin|Hin]; [eapply Herr; eauto|].
        apply in_map_iff in Hin. destruct Hin as [r [E _]]. inversion E. right. left. reflexivity.
    + constructor; simpl; try assumption.
      * intros ce p A B. apply in_or_app. left. eapply Hfl; eauto.
      * unfold all_pids in *. simpl. rewrite map_app, map_map. simpl.
        rewrite (Hn eq_refl) in *. simpl in *. rewrite !app_nil_r in *.
        rewrite <- app_assoc.
        eapply Permutation_trans; [|apply Permutation_app; [exact Hperm | apply Permutation_refl]].
        rewrite <- !app_assoc. apply Permutation_app_head. apply Permutation_app_comm.
      * intros p o Hin. apply in_app_or in Hin. destruct Hin as [Hin|Hin]; [eapply Herr; eauto|].
        apply in_map_iff in Hin. destruct Hin as [r [E _]]. inversion E. left. reflexivity.
  - destruct HI as [Hf Hp Hlf Hmfl Hfl Hc He Hq Hm Hn Hperm Hr Herr].
    destruct (leading st) eqn:HL.
    + constructor; simpl.
      * exact Hf.
      * rewrite Hp, (Hlf eq_refl), map_app. simpl. rewrite !app_nil_r. rewrite <- app_assoc. reflexivity.
      * exact Hlf.
      * exact Hmfl.
      * exact Hfl.
      * exact Hc.
      * rewrite He, (Hlf eq_refl), map_app. simpl. rewrite !app_nil_r. rewrite <- app_assoc. reflexivity.
      * apply Forall_app. split; [exact Hq|]. constructor; [simpl; exact I|constructor].
      * exact Hm.
      * discriminate.
      * unfold all_pids in *. simpl. rewrite flat_map_app. simpl. rewrite app_nil_r.
        rewrite !app_assoc. apply Permutation_app; [|apply Permutation_refl].
        rewrite <- !app_assoc. exact Hperm.
      * intros cmd p Hin. apply in_app_or in Hin. destruct Hin as [Hin|Hin]; [apply Hr; exact Hin|].
        destruct Hin as [E|[]]. discriminate.
      * exact Herr.
    + constructor; simpl; try assumption.
      * intros ce p A B. apply in_or_app. left. eapply Hfl; eauto.
      * unfold all_pids in *. simpl. rewrite map_app, map_map. simpl. rewrite map_id.
        rewrite (Hn eq_refl) in *. simpl in *. rewrite !app_nil_r in *.
        rewrite <- app_assoc.
        eapply Permutation_trans; [|apply Permutation_app; [exact Hperm | apply Permutation_refl]].
        rewrite <- !app_assoc. apply Permutation_app_head. apply Permutation_app_comm.
      * intros p o Hin. apply in_app_or in Hin. destruct Hin as [Hin|Hin]; [eapply Herr; eauto|].
        apply in_map_iff in Hin. destruct Hin as [r [E _]]. inversion E. left. reflexivity.
  - destruct (leading st) eqn:HL; [|exact HI].
    simpl in Hok. apply (commit_fold ents st HI HL (Hok HL)).
  - destruct (leading st) eqn:HL; [|exact HI].
    destruct HI as [Hf Hp Hlf Hmfl Hfl Hc He Hq Hm Hn Hperm Hr Herr].
    constructor; simpl.
    + exact Hf.
    + rewrite Hp, (Hlf HL). simpl. rewrite app_nil_r. reflexivity.
    + discriminate.
    + exact Hq.
    + intros ce p A B. apply in_or_app. right. apply in_flat_map. exists ce. split; [exact A|].
      unfold conclude. apply in_map_iff. exists p. split; [reflexivity | exact B].
    + exact Hc.
    + rewrite He, (Hlf HL). simpl. rewrite app_nil_r. reflexivity.
    + constructor.
    + exact Hm.
    + reflexivity.
    + unfold all_pids in *. simpl. rewrite map_app, flat_map_conclude_fst. rewrite app_nil_r.
      eapply Permutation_trans; [|exact Hperm].
      rewrite <- !app_assoc. apply Permutation_app_head. apply Permutation_app_comm.
    + exact Hr.
    + intros p o Hin. apply in_app_or in Hin. destruct Hin as [Hin|Hin]; [eapply Herr; eauto|].
      apply in_flat_map in Hin. destruct Hin as [ce [_ Hin]]. unfold conclude in Hin.
      apply in_map_iff in Hin. destruct Hin as [x [E _]]. inversion E. right. right. left. reflexivity.
  - destruct HI as [Hf Hp Hlf Hmfl Hfl Hc He Hq Hm Hn Hperm Hr Herr].
    assert (PI : forall X o, Permutation (map fst (concl st ++ [(p, o)]) ++ X) (seen st ++ [p]) <->
                             Permutation (map fst (concl st ++ [(p, o)]) ++ X) (seen st ++ [p])) by tauto.
    assert (Pins : forall (o : outcome) B, Permutation (map fst (concl st) ++ B) (seen st) ->
                     Permutation (map fst (concl st ++ [(p, o)]) ++ B) (seen st ++ [p])).
    { intros o B H. rewrite map_app. simpl. rewrite <- app_assoc. simpl.
      eapply Permutation_trans; [apply Permutation_sym, Permutation_middle|].
      eapply Permutation_trans; [apply perm_skip, H | apply Permutation_cons_append]. }
    assert (Eerr : forall (o : outcome), (o = ENotLeader \/ o = ETermMismatch \/ o = ENotLeaderAnymore \/ o = ETooMany \/ o = ERefused) ->
              forall q o', In (q, o') (concl st ++ [(p, o)]) ->
              o' = ENotLeader \/ o' = ETermMismatch \/ o' = ENotLeaderAnymore \/ o' = ETooMany \/ o' = ERefused).
    { intros o Ho q o' Hin. apply in_app_or in Hin. destruct Hin as [Hin|[E|[]]]; [eapply Herr; eauto | inversion E; subst; exact Ho]. }
    destruct (leading st) eqn:HL.
    + destruct (existsb (fun ce : conc * entry => is_conf (snd ce)) (queue st)) eqn:EB.
      * constructor; simpl; try assumption.
        -- intros ce q A B. apply in_or_app. left. eapply Hfl; eauto.
        -- unfold all_pids in *. simpl. apply Pins. exact Hperm.
        -- apply Eerr. tauto.
      * destruct res as [pl|].
        -- constructor; simpl.
           ++ exact Hf.
           ++ rewrite Hp, (Hlf eq_refl), map_app. simpl. rewrite !app_nil_r. rewrite <- app_assoc. reflexivity.
           ++ exact Hlf.
           ++ exact Hmfl.
           ++ exact Hfl.
           ++ exact Hc.
           ++ rewrite He, (Hlf eq_refl), map_app. simpl. rewrite !app_nil_r. rewrite <- app_assoc. reflexivity.
           ++ apply Forall_app. split; [exact Hq|]. constructor; [simpl; reflexivity|constructor].
           ++ exact Hm.
           ++ discriminate.
           ++ unfold all_pids in *. simpl. rewrite flat_map_app. simpl.
              rewrite !app_assoc. apply Permutation_app; [|apply Permutation_refl].
              rewrite <- !app_assoc. exact Hperm.
           ++ intros cmd q Hin. apply in_app_or in Hin. destruct Hin as [Hin|Hin]; [apply Hr; exact Hin|].
              destruct Hin as [E|[]]. discriminate.
           ++ exact Herr.
        -- constructor; simpl; try assumption.
           ++ intros ce q A B. apply in_or_app. left. eapply Hfl; eauto.
           ++ unfold all_pids in *. simpl. apply Pins. exact Hperm.
           ++ apply Eerr. tauto.
    + constructor; simpl; try assumption.
      * intros ce q A B. apply in_or_app. left. eapply Hfl; eauto.
      * unfold all_pids in *. simpl. apply Pins. exact Hperm.
      * apply Eerr. tauto.
Qed.

Lemma run_Inv_from cur evs : forall st, Inv st -> run_ok cur st evs -> Inv (fold_left (step cur) evs st).
Proof.
  induction evs as [|ev evs IH]; intros st HI Hok; simpl; [exact HI|].
  destruct Hok as [H1 H2]. apply IH; [apply step_Inv; assumption | exact H2].
Qed.

Lemma run_Inv cur evs : core_contract cur evs -> Inv (run cur evs).
Proof. intros H. apply run_Inv_from; [apply Inv_init | exact H]. Qed.

Lemma fsm_run_pids l : forall s, map fst (fsm_run s l) = flat_map (fun ec => pids (snd ec)) l.
Proof.
  induction l as [|[e c] l IH]; intros s; simpl; [reflexivity|].
  destruct e as [cmd tag| |pl tag].
  - destruct (apply s cmd) as [s' res]. rewrite map_app, IH. unfold conclude. rewrite map_map. simpl.
    rewrite map_id. reflexivity.
  - rewrite map_app, IH. unfold conclude. rewrite map_map. simpl. rewrite map_id. reflexivity.
  - rewrite map_app, IH. unfold conclude. rewrite map_map. simpl. rewrite map_id. reflexivity.
Qed.

Lemma fsm_run_result l : forall s k cmd tag c p,
  nth_error l k = Some (ENormal cmd tag, c) -> In p (pids c) ->
  In (p, Applied (Some (snd (apply (fsm_state s (firstn k l)) cmd)))) (fsm_run s l).
Proof.
  induction l as [|[e c0] l IH]; intros s k cmd tag c p Hn Hp.
  - destruct k; discriminate.
  - destruct k as [|k].
    + simpl in Hn. inversion Hn; subst. simpl. destruct (apply s cmd) as [s' res] eqn:E. simpl.
      apply in_or_app. left. unfold conclude. apply in_map_iff. exists p. split; [reflexivity | exact Hp].
    + simpl in Hn. simpl. destruct e as [cmd0 tag0| |pl0 tag0].
      * destruct (apply s cmd0) as [s' res] eqn:E. simpl. apply in_or_app. right.
        apply (IH s' k cmd tag c p Hn Hp).
      * apply in_or_app. right. apply (IH s k cmd tag c p Hn Hp).
      * apply in_or_app. right. apply (IH s k cmd tag c p Hn Hp).
Qed.

Lemma nodup_app_disj {A} (a b : list A) x : NoDup (a ++ b) -> In x a -> In x b -> False.
Proof.
  induction a as [|y a IH]; simpl; intros Hnd Ha Hb; [contradiction|].
  inversion Hnd; subst. destruct Ha as [E|Ha].
  - subst y. apply H1. apply in_or_app. right. exact Hb.
  - apply IH; assumption.
Qed.

Lemma nodup_app_l {A} (a b : list A) : NoDup (a ++ b) -> NoDup a.
Proof.
  induction a as [|y a IH]; simpl; intros H; [constructor|].
  inversion H; subst. constructor.
  - intro Hin. apply H2. apply in_or_app. left. exact Hin.
  - apply IH, H3.
Qed.

Lemma two_outcomes_dup {B} (l : list (nat * B)) p o1 o2 :
  In (p, o1) l -> In (p, o2) l -> o1 <> o2 -> ~ NoDup (map fst l).
Proof.
  induction l as [|[q o] l IH]; simpl; intros H1 H2 Hne Hnd; [contradiction|].
  inversion Hnd; subst.
  destruct H1 as [E1|H1]; destruct H2 as [E2|H2].
  - inversion E1; inversion E2; subst. contradiction.
  - inversion E1; subst. apply H3. apply in_map_iff. exists (p, o2). split; [reflexivity | exact H2].
  - inversion E2; subst. apply H3. apply in_map_iff. exists (p, o1). split; [reflexivity | exact H1].
  - apply (IH H1 H2 Hne H4).
Qed.

(* ---------- the layer theorem ---------- *)
Lemma pairing_lemma cur evs :
  core_contract cur evs ->
  let st := run cur evs in
  fatal st = false /\
  map fst (tofsm st) = committed st /\
  map snd (tofsm st) = firstn (length (committed st)) (enqueued st) /\
  (forall k cmd tag c, nth_error (tofsm st) k = Some (ENormal cmd tag, c) ->
     c = CPending tag /\
     (exists r, In r (reqs st) /\ rp r = tag /\ rcmd r = cmd) /\
     forall s0, In (tag, Applied (Some (snd (apply (fsm_state s0 (firstn k (tofsm st))) cmd))))
                   (fsm_run s0 (tofsm st))) /\
  (forall k c, nth_error (tofsm st) k = Some (ENop, c) -> exists g, c = CGroup g).
Proof.
  intros Hc st. pose proof (run_Inv cur evs Hc) as HI. fold st in HI.
  destruct HI as [Hf Hp Hlf Hmfl Hfl Hcm He Hq Hm Hn Hperm Hr Herr].
  split; [exact Hf|]. split; [exact Hcm|]. split.
  - rewrite He. rewrite <- Hcm. rewrite map_length. rewrite <- (map_length snd (tofsm st)).
    rewrite firstn_app, Nat.sub_diag, firstn_all. simpl. rewrite app_nil_r. reflexivity.
  - split.
    + intros k cmd tag c Hk.
      assert (In (ENormal cmd tag, c) (tofsm st)) as Hin by (eapply nth_error_In; eauto).
      rewrite Forall_forall in Hm. specialize (Hm _ Hin). simpl in Hm.
      destruct c as [p|g]; simpl in Hm; [|contradiction]. subst p.
      split; [reflexivity|]. split.
      * apply Hr. rewrite Hp. apply in_or_app. left. rewrite <- Hcm.
        apply in_map_iff. exists (ENormal cmd tag, CPending tag). split; [reflexivity | exact Hin].
      * intros s0. eapply fsm_run_result; [exact Hk | simpl; left; reflexivity].
    + intros k c Hk.
      assert (In (ENop, c) (tofsm st)) as Hin by (eapply nth_error_In; eauto).
      rewrite Forall_forall in Hm. specialize (Hm _ Hin). simpl in Hm.
      destruct c as [p|g]; simpl in Hm; [contradiction|]. exists g. reflexivity.
Qed.

(* every Pending is concluded at most once (by the loop or by the FSM loop) and is never both concluded and
   still queued; once the loop has ended every Pending received has been concluded exactly once *)
Lemma concluded_once_lemma cur evs s0 :
  core_contract cur evs ->
  let st := run cur evs in
  NoDup (seen st) ->
  NoDup (map fst (concl st ++ fsm_run s0 (tofsm st)) ++ flat_map (fun ce => pids (fst ce)) (queue st)) /\
  (leading st = false -> Permutation (map fst (concl st ++ fsm_run s0 (tofsm st))) (seen st)).
Proof.
  intros Hc st Hnd. pose proof (run_Inv cur evs Hc) as HI. fold st in HI.
  destruct HI as [Hf Hp Hlf Hmfl Hfl Hcm He Hq Hm Hn Hperm Hr Herr].
  unfold all_pids in Hperm. rewrite map_app, fsm_run_pids. split.
  - rewrite <- app_assoc. eapply Permutation_NoDup; [apply Permutation_sym; exact Hperm | exact Hnd].
  - intros Hl. rewrite (Hn Hl) in Hperm. simpl in Hperm. rewrite app_nil_r in Hperm. exact Hperm.
Qed.

(* a request answered with a definite error (ErrNodeNotLeader, ErrTermMismatch) was never handed to core.Propose *)
Lemma definite_error_never_proposed_lemma cur evs :
  core_contract cur evs ->
  let st := run cur evs in
  NoDup (seen st) ->
  forall p o, In (p, o) (concl st) -> (o = ENotLeader \/ o = ETermMismatch) ->
  forall cmd, ~ In (ENormal cmd p) (proposed st).
Proof.
  intros Hc st Hnd p o Hin Ho cmd Hpr. pose proof (run_Inv cur evs Hc) as HI. fold st in HI.
  destruct HI as [Hf Hp Hlf Hmfl Hfl Hcm He Hq Hm Hn Hperm Hr Herr].
  assert (NoDup (all_pids st)) as Hnd2.
  { eapply Permutation_NoDup; [apply Permutation_sym; exact Hperm | exact Hnd]. }
  unfold all_pids in Hnd2.
  assert (In p (map fst (concl st))) as Hpc.
  { apply in_map_iff. exists (p, o). split; [reflexivity | exact Hin]. }
  rewrite Hp in Hpr. apply in_app_or in Hpr. destruct Hpr as [Hpr|Hpr]; [|apply in_app_or in Hpr; destruct Hpr as [Hpr|Hpr]].
  - rewrite <- Hcm in Hpr. apply in_map_iff in Hpr. destruct Hpr as [[e c] [E Hec]]. simpl in E. subst e.
    rewrite Forall_forall in Hm. pose proof (Hm _ Hec) as M. simpl in M.
    destruct c as [p'|g]; simpl in M; [|contradiction]. subst p'.
    eapply (nodup_app_disj _ _ p Hnd2 Hpc). apply in_or_app. left.
    apply in_flat_map. exists (ENormal cmd p, CPending p). split; [exact Hec | simpl; left; reflexivity].
  - apply in_map_iff in Hpr. destruct Hpr as [[c e] [E Hec]]. simpl in E. subst e.
    rewrite Forall_forall in Hq. pose proof (Hq _ Hec) as M. simpl in M.
    destruct c as [p'|g]; simpl in M; [|contradiction]. subst p'.
    eapply (nodup_app_disj _ _ p Hnd2 Hpc). apply in_or_app. right.
    apply in_flat_map. exists (CPending p, ENormal cmd p). split; [exact Hec | simpl; left; reflexivity].
  - apply in_map_iff in Hpr. destruct Hpr as [[c e] [E Hec]]. simpl in E. subst e.
    rewrite Forall_forall in Hmfl. pose proof (Hmfl _ Hec) as M. simpl in M.
    destruct c as [p'|g]; simpl in M; [|contradiction]. subst p'.
    assert (In (p, ENotLeaderAnymore) (concl st)) as H2.
    { eapply Hfl; [exact Hec | simpl; left; reflexivity]. }
    apply nodup_app_l in Hnd2.
    eapply (two_outcomes_dup (concl st) p o ENotLeaderAnymore Hin H2); [|exact Hnd2].
    destruct Ho; subst; discriminate.
Qed.


Lemma definite_error_never_proposed_normal_lemma cur evs :
  core_contract cur evs ->
  let st := run cur evs in
  NoDup (seen st) ->
  forall p o, In (p, o) (concl st) -> (o = ENotLeader \/ o = ETermMismatch \/ o = ETooMany \/ o = ERefused) ->
  forall cmd, ~ In (ENormal cmd p) (proposed st).
Proof.
  intros Hc st Hnd p o Hin Ho cmd Hpr. pose proof (run_Inv cur evs Hc) as HI. fold st in HI.
  destruct HI as [Hf Hp Hlf Hmfl Hfl Hcm He Hq Hm Hn Hperm Hr Herr].
  assert (NoDup (all_pids st)) as Hnd2.
  { eapply Permutation_NoDup; [apply Permutation_sym; exact Hperm | exact Hnd]. }
  unfold all_pids in Hnd2.
  assert (In p (map fst (concl st))) as Hpc.
  { apply in_map_iff. exists (p, o). split; [reflexivity | exact Hin]. }
  rewrite Hp in Hpr. apply in_app_or in Hpr. destruct Hpr as [Hpr|Hpr]; [|apply in_app_or in Hpr; destruct Hpr as [Hpr|Hpr]].
  - rewrite <- Hcm in Hpr. apply in_map_iff in Hpr. destruct Hpr as [[e c] [E Hec]]. simpl in E. subst e.
    rewrite Forall_forall in Hm. pose proof (Hm _ Hec) as M. simpl in M.
    destruct c as [p'|g]; simpl in M; [|contradiction]. subst p'.
    eapply (nodup_app_disj _ _ p Hnd2 Hpc). apply in_or_app. left.
    apply in_flat_map. exists (ENormal cmd p, CPending p). split; [exact Hec | simpl; left; reflexivity].
  - apply in_map_iff in Hpr. destruct Hpr as [[c e] [E Hec]]. simpl in E. subst e.
    rewrite Forall_forall in Hq. pose proof (Hq _ Hec) as M. simpl in M.
    destruct c as [p'|g]; simpl in M; [|contradiction]. subst p'.
    eapply (nodup_app_disj _ _ p Hnd2 Hpc). apply in_or_app. right.
    apply in_flat_map. exists (CPending p, ENormal cmd p). split; [exact Hec | simpl; left; reflexivity].
  - apply in_map_iff in Hpr. destruct Hpr as [[c e] [E Hec]]. simpl in E. subst e.
    rewrite Forall_forall in Hmfl. pose proof (Hmfl _ Hec) as M. simpl in M.
    destruct c as [p'|g]; simpl in M; [|contradiction]. subst p'.
    assert (In (p, ENotLeaderAnymore) (concl st)) as H2.
    { eapply Hfl; [exact Hec | simpl; left; reflexivity]. }
    apply nodup_app_l in Hnd2.
    eapply (two_outcomes_dup (concl st) p o ENotLeaderAnymore Hin H2); [|exact Hnd2].
    destruct Ho as [|[|[|]]]; subst; discriminate.
Qed.


Lemma definite_error_never_proposed_conf_lemma cur evs :
  core_contract cur evs ->
  let st := run cur evs in
  NoDup (seen st) ->
  forall p o, In (p, o) (concl st) -> (o = ENotLeader \/ o = ETermMismatch \/ o = ETooMany \/ o = ERefused) ->
  forall pl, ~ In (EConf pl p) (proposed st).
Proof.
  intros Hc st Hnd p o Hin Ho pl Hpr. pose proof (run_Inv cur evs Hc) as HI. fold st in HI.
  destruct HI as [Hf Hp Hlf Hmfl Hfl Hcm He Hq Hm Hn Hperm Hr Herr].
  assert (NoDup (all_pids st)) as Hnd2.
  { eapply Permutation_NoDup; [apply Permutation_sym; exact Hperm | exact Hnd]. }
  unfold all_pids in Hnd2.
  assert (In p (map fst (concl st))) as Hpc.
  { apply in_map_iff. exists (p, o). split; [reflexivity | exact Hin]. }
  rewrite Hp in Hpr. apply in_app_or in Hpr. destruct Hpr as [Hpr|Hpr]; [|apply in_app_or in Hpr; destruct Hpr as [Hpr|Hpr]].
  - rewrite <- Hcm in Hpr. apply in_map_iff in Hpr. destruct Hpr as [[e c] [E Hec]]. simpl in E. subst e.
    rewrite Forall_forall in Hm. pose proof (Hm _ Hec) as M. simpl in M.
    destruct c as [p'|g]; simpl in M; [|contradiction]. subst p'.
    eapply (nodup_app_disj _ _ p Hnd2 Hpc). apply in_or_app. left.
    apply in_flat_map. exists (EConf pl p, CPending p). split; [exact Hec | simpl; left; reflexivity].
  - apply in_map_iff in Hpr. destruct Hpr as [[c e] [E Hec]]. simpl in E. subst e.
    rewrite Forall_forall in Hq. pose proof (Hq _ Hec) as M. simpl in M.
    destruct c as [p'|g]; simpl in M; [|contradiction]. subst p'.
    eapply (nodup_app_disj _ _ p Hnd2 Hpc). apply in_or_app. right.
    apply in_flat_map. exists (CPending p, EConf pl p). split; [exact Hec | simpl; left; reflexivity].
  - apply in_map_iff in Hpr. destruct Hpr as [[c e] [E Hec]]. simpl in E. subst e.
    rewrite Forall_forall in Hmfl. pose proof (Hmfl _ Hec) as M. simpl in M.
    destruct c as [p'|g]; simpl in M; [|contradiction]. subst p'.
    assert (In (p, ENotLeaderAnymore) (concl st)) as H2.
    { eapply Hfl; [exact Hec | simpl; left; reflexivity]. }
    apply nodup_app_l in Hnd2.
    eapply (two_outcomes_dup (concl st) p o ENotLeaderAnymore Hin H2); [|exact Hnd2].
    destruct Ho as [|[|[|]]]; subst; discriminate.
Qed.


(* a committed configuration entry is paired with the reconfiguration request it was appended for *)
Lemma pairing_conf_lemma cur evs :
  core_contract cur evs ->
  let st := run cur evs in
  forall k pl tag c, nth_error (tofsm st) k = Some (EConf pl tag, c) ->
    c = CPending tag /\ forall s0, In (tag, Applied None) (fsm_run s0 (tofsm st)).
Proof.
  intros Hc st k pl tag c Hk. pose proof (run_Inv cur evs Hc) as HI. fold st in HI.
  destruct HI as [Hf Hp Hlf Hmfl Hfl Hcm He Hq Hm Hn Hperm Hr Herr].
  assert (In (EConf pl tag, c) (tofsm st)) as Hin by (eapply nth_error_In; eauto).
  rewrite Forall_forall in Hm. specialize (Hm _ Hin). simpl in Hm.
  destruct c as [p|g]; simpl in Hm; [|contradiction]. subst p. split; [reflexivity|].
  intros s0. clear - Hin. revert s0. induction (tofsm st) as [|[e c0] l IH]; intros s0; [contradiction|].
  destruct Hin as [E|Hin].
  - inversion E; subst. simpl. left. reflexivity.
  - simpl. destruct e as [cmd0 tag0| |pl0 tag0].
    + destruct (apply s0 cmd0) as [s' res]. apply in_or_app. right. apply IH, Hin.
    + apply in_or_app. right. apply IH, Hin.
    + apply in_or_app. right. apply IH, Hin.
Qed.

End LayerR.

