(* C03/LayerCoreRExample.v - non-vacuity of the composition with reconfiguration requests: the term-2 leader of
   Raft/LeaderSuffixExample.v (members 1 and 2) gets  request 1 = AddNode 2 (the core REFUSES: already a member),
   request 2 = AddNode 3 (ACCEPTED: configuration entry 3 appended, pendingReconfig := request 2),
   request 3 = another reconfiguration while one is pending (ErrTooManyPendingReqs without asking the core),
   request 4 = Propose 43 (entry 4), a tick, and node 2's acknowledgement of index 3: the configuration entry is
   committed and paired with request 2, request 4 stays queued. *)
From Coq Require Import List NArith ZArith Bool Lia.
From BLB Require Import Raft.Core Raft.LeaderSuffix Raft.LeaderSuffixS Raft.LeaderSuffixR Raft.LeaderSuffixExample C03.LayerR C03.LayerCoreR.
Import ListNotations.

Definition rA : node := Eval vm_compute in step_node ldr0 (EAddNode 2 7).
Definition rB : node := Eval vm_compute in step_node rA (EAddNode 3 77).
Definition rC : node := Eval vm_compute in step_node rB (EPropose [e3]).
Definition rD : node := Eval vm_compute in step_node rC ETick.
Definition rE : node := Eval vm_compute in step_node rD (EDeliver m15).
Definition cfe : Core.entry := Eval vm_compute in nth 0 (appended rA rB) e3.

Definition exR_its : list citerR :=
  [CReconfR 1 (EAddNode 2 7); CReconfR 2 (EAddNode 3 77); CReconfBusyR 3; CPropR [mkReq 4 43%Z 0%Z]; CCoreR ETick; CCoreR (EDeliver m15)].

Lemma exR_start : loop_start_snap ldr0.
Proof. apply loop_start_is_snap. unfold loop_start. split; [reflexivity|]. split; [reflexivity|]. split; [simpl; auto | reflexivity]. Qed.

Lemma recstep st ev code s' :
  reconf_event ev -> run_event (settle (lp_node st)) ev = Ret (code, s') ->
  n_role s' = Leader -> p_term (n_p s') = p_term (n_p (lp_node st)) ->
  loop_stepR st ev {| lp_node := s'; lp_prop := lp_prop st ++ appended (lp_node st) s'; lp_comm := lp_comm st ++ n_commits s' |}.
Proof. intros. eapply LRrec; eauto. Qed.

Example coupled_run_with_reconfiguration_nonvacuous :
  exists evs l c,
    crunR unit (loop_termR ldr0) (cstartR unit ldr0) exR_its evs (l, c) /\
    concl unit l = [(1%nat, ERefused unit); (3%nat, ETooMany unit)] /\
    tofsm unit l = [(EConf (e_pl cfe) 2%nat, CPending 2%nat)] /\
    proposed unit l = [EConf (e_pl cfe) 2%nat; ENormal 43%Z 4%nat] /\ queue unit l = [(CPending 4%nat, ENormal 43%Z 4%nat)] /\
    e_type cfe = EntryConf /\ n_commit (lp_node c) = 3%N /\ n_role (lp_node c) = Leader /\ fatal unit l = false.
Proof.
  eexists. eexists. eexists. split.
  { unfold exR_its. eapply crun_consR.
    { eapply CSReconfRefusedR.
      - vm_compute; reflexivity.
      - exact I.
      - apply (recstep _ (EAddNode 2 7) 3%N rA); [exact I | vm_compute; reflexivity | reflexivity | reflexivity].
      - vm_compute; reflexivity. }
    eapply crun_consR.
    { eapply (CSReconfAcceptedR _ _ _ _ _ _ _ cfe).
      - vm_compute; reflexivity.
      - exact I.
      - apply (recstep _ (EAddNode 3 77) 0%N rB); [exact I | vm_compute; reflexivity | reflexivity | reflexivity].
      - vm_compute; reflexivity.
      - reflexivity. }
    eapply crun_consR.
    { eapply (CSReconfBusyR _ _ _ _ 3 None). vm_compute. reflexivity. }
    eapply crun_consR.
    { eapply CSPropR.
      - vm_compute. discriminate.
      - apply LRev. apply (loop_step_exec _ (EPropose [e3]) 0%N rC); [exact I | vm_compute; reflexivity | reflexivity | reflexivity]. }
    eapply crun_consR.
    { eapply CSCoreR; [exact I|]. apply LRev.
      apply (loop_step_exec _ ETick 0%N rD); [exact I | vm_compute; reflexivity | reflexivity | reflexivity]. }
    eapply crun_consR.
    { eapply CSCoreR; [exact I|]. apply LRev.
      apply (loop_step_exec _ (EDeliver m15) 0%N rE); [exact I | vm_compute; reflexivity | reflexivity | reflexivity]. }
    apply crun_nilR. }
  repeat split; vm_compute; reflexivity.
Qed.
