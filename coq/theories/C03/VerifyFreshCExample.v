(* C03/VerifyFreshCExample.v - non-vacuity of verify_read_fresh_combined on C02's 20-step combined run (Raft/CombinedRunC.v /
   CombinedRunU.v): request on leader 1 (term 2) at A13, after AddNode 3 was committed (last index 3); inside the window:
   SnapshotDone (3, term 2, [1;2;3]) trims the leader's whole log, a tick emits InstallSnap 1 -> 3, node 3 installs it,
   RemoveNode 2 = entry 4 (term 2), replicated to node 3 and committed by the quorum {1, 3} at C20. Leader 1, still Leader of
   term 2, holds in its (trimmed) log the committed entry 4 of its term, with index beyond its last index at the request. *)
From Coq Require Import List NArith ZArith Bool Lia.
From BLB Require Import Lib.LTS Raft.Core Raft.Wire Raft.Election Raft.LogMatchExample Raft.MemberVotes Raft.MemberVotesExample Raft.MemberRun
  Raft.MemberRunExample Raft.CombinedExample Raft.CombinedRunC Raft.CombinedRunU.
From BLB Require Raft.MemberSnapSystemU.
Import ListNotations.
Open Scope N_scope.
Import MemberSnapSystemU.

Definition cnode (a : asys) (k : nat) : node := nth k (sy_nodes (fst a)) (mk_node 1).
Lemma cnode_In a k : (k < length (sy_nodes (fst a)))%nat -> In (cnode a k) (sy_nodes (fst a)).
Proof. intro H. apply nth_In. exact H. Qed.

Example verify_read_fresh_combined_nonvacuous_ex :
  exists a0 a1 a2 s1 s2 a b1 b e,
    minitS a0 /\ NoDup [1; 2] /\
    run asys sys_event (cstep [1; 2] 5) a0 s1 a1 /\ run asys sys_event (cstep [1; 2] 5) a1 s2 a2 /\
    In (1, EAddNode 3 77, 0) s1 /\
    In (1, ESnapDone sm3, 0) s2 /\ In (3, EDeliver q15, 0) s2 /\ In (1, ERemoveNode 2, 0) s2 /\
    In a (sy_nodes (fst a1)) /\ In b1 (sy_nodes (fst a1)) /\ In b (sy_nodes (fst a2)) /\
    n_role b1 = Leader /\ n_role b = Leader /\ n_id b1 = n_id b /\ p_term (n_p b1) = p_term (n_p b) /\
    In e (p_log (n_p b)) /\ e_term e = p_term (n_p b) /\ e_type e = EntryConf /\
    last_index (n_p b1) < e_index e /\ e_index e <= n_commit b /\
    0 < n_commit a /\ (exists mb, p_snap (n_p b) = Some mb /\ sn_index mb = 3) /\ length (p_log (n_p b)) = 1%nat.
Proof.
  exists A0, A13, C20, (sched10 ++ sched13), schedT, (cnode A13 1), (cnode A13 0), (cnode C20 0).
  eexists.
  split; [exact minitS_A0|]. split; [exact Hn12|]. split; [exact urun_to_A13|]. split; [exact urun_C20|].
  split; [apply in_or_app; right; left; reflexivity|].
  split; [vm_compute; tauto|]. split; [vm_compute; tauto|]. split; [vm_compute; tauto|].
  split; [apply cnode_In; vm_compute; lia|]. split; [apply cnode_In; vm_compute; lia|]. split; [apply cnode_In; vm_compute; lia|].
  split; [vm_compute; reflexivity|]. split; [vm_compute; reflexivity|]. split; [vm_compute; reflexivity|].
  split; [vm_compute; reflexivity|].
  split; [vm_compute; left; reflexivity|]. split; [vm_compute; reflexivity|]. split; [vm_compute; reflexivity|].
  split; [vm_compute; reflexivity|]. split; [vm_compute; discriminate|]. split; [vm_compute; reflexivity|].
  split; [eexists; split; vm_compute; reflexivity | vm_compute; reflexivity].
Qed.
