(* C03/VerifyFreshExample.v - a concrete 3-node run of the C02 system model for verify_read_fresh:
   node 1 is leader of term 2 and has a verification NOP (index 2) in flight whose acknowledgements are not delivered;
   node 2 times out, is elected for term 3 by node 3, proposes its NOP (index 3) and commits it (moment t26);
   node 1 - deposed, still running, still Leader of term 2 - proposes a fresh NOP (index 3) for a new VerifyRead,
   then the old term-2 acknowledgements arrive and it commits the OLD NOP (index 2) (moment t29).
   - positive instance: node 2's verification requested at t21 and concluded at t26 meets every hypothesis of
     verify_read_fresh;
   - the deposed leader's fresh NOP is not committed at t29 (and by deposed_leader_cannot_verify never will be);
   - necessity witness: if a request made at t26 were allowed to ride the NOP that was already in flight (position
     below the log length at the request) the conclusion fails: node 2 had committed 3 entries, node 1 concludes with 2. *)
From Coq Require Import List NArith ZArith Bool Lia.
From BLB Require Import Lib.LTS Raft.Core Raft.Wire Raft.Election Raft.ElectionExample Raft.NodeConf Raft.ElectionFixed
  Raft.LogMatchLists Raft.LogMatchNode Raft.LogMatch Raft.LogMatchExample Raft.CompletenessCommit.
Import ListNotations.
Open Scope N_scope.

Definition nop : entry := {| e_term := 0; e_index := 0; e_type := EntryNOP; e_pl := [] |}.
Definition t0 : sys := {| sy_nodes := [mk_node 1; mk_node 2; mk_node 3]; sy_soup := []; sy_cast := []; sy_hist := [] |}.
Definition t1 := apply_step t0 1 (EBootstrap [1; 2; 3] 5) 0.
Definition t2 := apply_step t1 1 ETick 0.
Definition t3 := apply_step t2 1 ETick 0.                         (* node 1 campaigns for term 2 *)
Definition x3 := Eval vm_compute in nthmsg t3 0.
Definition t4 := apply_step t3 2 (EDeliver x3) 0.
Definition x4 := Eval vm_compute in nthmsg t4 2.
Definition t5 := apply_step t4 1 (EDeliver x4) 0.                 (* node 1 leader of term 2 *)
Definition x5a := Eval vm_compute in nthmsg t5 3.
Definition x5b := Eval vm_compute in nthmsg t5 4.
Definition t6 := apply_step t5 2 (EDeliver x5a) 0.
Definition t7 := apply_step t6 3 (EDeliver x5b) 0.
Definition x7a := Eval vm_compute in nthmsg t7 5.
Definition x7b := Eval vm_compute in nthmsg t7 6.
Definition t8 := apply_step t7 1 (EDeliver x7a) 0.
Definition t9 := apply_step t8 1 (EDeliver x7b) 0.
Definition x9a := Eval vm_compute in nthmsg t9 7.
Definition x9b := Eval vm_compute in nthmsg t9 8.
Definition t10 := apply_step t9 2 (EDeliver x9a) 0.
Definition t11 := apply_step t10 3 (EDeliver x9b) 0.
Definition x11a := Eval vm_compute in nthmsg t11 9.
Definition x11b := Eval vm_compute in nthmsg t11 10.
Definition t12 := apply_step t11 1 (EDeliver x11a) 0.
Definition t13 := apply_step t12 1 (EDeliver x11b) 0.
Definition t14 := apply_step t13 1 (EPropose [nop]) 0.           (* the in-flight verification NOP, index 2 term 2 *)
Definition x14a := Eval vm_compute in nthmsg t14 11.
Definition x14b := Eval vm_compute in nthmsg t14 12.
Definition t15 := apply_step t14 2 (EDeliver x14a) 0.
Definition t16 := apply_step t15 3 (EDeliver x14b) 0.
Definition held2 := Eval vm_compute in nthmsg t16 13.            (* AppEntsResp true 2, term 2, from node 2: held back *)
Definition held3 := Eval vm_compute in nthmsg t16 14.            (* the same from node 3 *)
Definition t17 := apply_step t16 2 ETick 0.
Definition t18 := apply_step t17 2 ETick 0.
Definition t19 := apply_step t18 2 ETick 0.                      (* node 2 campaigns for term 3 *)
Definition x19 := Eval vm_compute in nthmsg t19 16.
Definition t20 := apply_step t19 3 (EDeliver x19) 0.
Definition x20 := Eval vm_compute in nthmsg t20 17.
Definition t21 := apply_step t20 2 (EDeliver x20) 0.             (* node 2 leader of term 3; node 1 does not know *)
Definition t22 := apply_step t21 2 (EPropose [nop]) 0.           (* node 2's verification NOP, index 3 term 3 *)
Definition x22 := Eval vm_compute in nthmsg t22 19.
Definition t23 := apply_step t22 3 (EDeliver x22) 0.
Definition x23 := Eval vm_compute in nthmsg t23 20.
Definition t24 := apply_step t23 2 (EDeliver x23) 0.
Definition x24 := Eval vm_compute in nthmsg t24 21.
Definition t25 := apply_step t24 3 (EDeliver x24) 0.
Definition x25 := Eval vm_compute in nthmsg t25 22.
Definition t26 := apply_step t25 2 (EDeliver x25) 0.             (* node 2 commits index 3 *)
Definition t27 := apply_step t26 1 (EPropose [nop]) 0.           (* deposed node 1: fresh NOP, index 3 term 2 *)
Definition t28 := apply_step t27 1 (EDeliver held2) 0.           (* the old acknowledgements arrive *)
Definition t29 := apply_step t28 1 (EDeliver held3) 0.           (* node 1 commits the OLD NOP, index 2 *)

Definition vf_sched_a : list sys_event :=
  [(1, EBootstrap [1; 2; 3] 5, 0); (1, ETick, 0); (1, ETick, 0); (2, EDeliver x3, 0); (1, EDeliver x4, 0);
   (2, EDeliver x5a, 0); (3, EDeliver x5b, 0); (1, EDeliver x7a, 0); (1, EDeliver x7b, 0);
   (2, EDeliver x9a, 0); (3, EDeliver x9b, 0); (1, EDeliver x11a, 0); (1, EDeliver x11b, 0);
   (1, EPropose [nop], 0); (2, EDeliver x14a, 0); (3, EDeliver x14b, 0);
   (2, ETick, 0); (2, ETick, 0); (2, ETick, 0); (3, EDeliver x19, 0); (2, EDeliver x20, 0)].
Definition vf_sched_b : list sys_event :=
  [(2, EPropose [nop], 0); (3, EDeliver x22, 0); (2, EDeliver x23, 0); (3, EDeliver x24, 0); (2, EDeliver x25, 0)].
Definition vf_sched_c : list sys_event :=
  [(1, EPropose [nop], 0); (1, EDeliver held2, 0); (1, EDeliver held3, 0)].

Lemma vf_cinit : cinit t0.
Proof.
  split; [split|].
  - unfold sinit2. split; [| split; [| auto]].
    + simpl. repeat constructor; simpl; intuition discriminate.
    + intros s [H | [H | [H | []]]]; subst s; (split; [vm_compute; discriminate|]; split; [reflexivity|]);
        unfold sok, pok; vm_compute; repeat split; auto.
  - intros s [H | [H | [H | []]]]; subst s; vm_compute; auto.
  - intros s [H | [H | [H | []]]]; subst s; vm_compute; auto.
Qed.

Lemma vf_run_a : run sys sys_event (lstep 3 [1; 2; 3] 5) t0 vf_sched_a t21.
Proof.
  unfold vf_sched_a.
  apply run_cons with (s1 := t1); [lstep_plain; repeat split; auto|].
  apply run_cons with (s1 := t2); [lstep_plain|].
  apply run_cons with (s1 := t3); [lstep_plain|].
  apply run_cons with (s1 := t4); [lstep_deliver|].
  apply run_cons with (s1 := t5); [lstep_deliver|].
  apply run_cons with (s1 := t6); [lstep_deliver|].
  apply run_cons with (s1 := t7); [lstep_deliver|].
  apply run_cons with (s1 := t8); [lstep_deliver|].
  apply run_cons with (s1 := t9); [lstep_deliver|].
  apply run_cons with (s1 := t10); [lstep_deliver|].
  apply run_cons with (s1 := t11); [lstep_deliver|].
  apply run_cons with (s1 := t12); [lstep_deliver|].
  apply run_cons with (s1 := t13); [lstep_deliver|].
  apply run_cons with (s1 := t14); [lstep_plain; constructor; [unfold eok; vm_compute; exact Logic.I | constructor]|].
  apply run_cons with (s1 := t15); [lstep_deliver|].
  apply run_cons with (s1 := t16); [lstep_deliver|].
  apply run_cons with (s1 := t17); [lstep_plain|].
  apply run_cons with (s1 := t18); [lstep_plain|].
  apply run_cons with (s1 := t19); [lstep_plain|].
  apply run_cons with (s1 := t20); [lstep_deliver|].
  apply run_cons with (s1 := t21); [lstep_deliver|].
  apply run_nil.
Qed.

Lemma vf_run_b : run sys sys_event (lstep 3 [1; 2; 3] 5) t21 vf_sched_b t26.
Proof.
  unfold vf_sched_b.
  apply run_cons with (s1 := t22); [lstep_plain; constructor; [unfold eok; vm_compute; exact Logic.I | constructor]|].
  apply run_cons with (s1 := t23); [lstep_deliver|].
  apply run_cons with (s1 := t24); [lstep_deliver|].
  apply run_cons with (s1 := t25); [lstep_deliver|].
  apply run_cons with (s1 := t26); [lstep_deliver|].
  apply run_nil.
Qed.

Lemma vf_run_c : run sys sys_event (lstep 3 [1; 2; 3] 5) t26 vf_sched_c t29.
Proof.
  unfold vf_sched_c.
  apply run_cons with (s1 := t27); [lstep_plain; constructor; [unfold eok; vm_compute; exact Logic.I | constructor]|].
  apply run_cons with (s1 := t28); [lstep_deliver|].
  apply run_cons with (s1 := t29); [lstep_deliver|].
  apply run_nil.
Qed.

Definition node_at (σ : sys) (k : nat) : node := nth k (sy_nodes σ) (mk_node 1).

Lemma node_at_In σ k : (k < length (sy_nodes σ))%nat -> In (node_at σ k) (sy_nodes σ).
Proof. intro H. apply nth_In. exact H. Qed.

Lemma run_append {S E} (st : S -> E -> S -> Prop) a x b y c : run S E st a x b -> run S E st b y c -> run S E st a (x ++ y) c.
Proof. intros H1 H2. induction H1; simpl; auto. econstructor; eauto. Qed.

Ltac inat := apply node_at_In; vm_compute; lia.
Ltac vc := vm_compute; reflexivity.

(* positive instance + the deposed leader's fresh NOP stays uncommitted *)
Example verify_read_fresh_nonvacuous_ex :
  exists σ0 σ1 σ2 σ3 s1 s2 s3 a b1 b i e d1 d,
    cinit σ0 /\
    run sys sys_event (lstep (length (sy_nodes σ0)) [1; 2; 3] 5) σ0 s1 σ1 /\
    run sys sys_event (lstep (length (sy_nodes σ0)) [1; 2; 3] 5) σ1 s2 σ2 /\
    run sys sys_event (lstep (length (sy_nodes σ0)) [1; 2; 3] 5) σ2 s3 σ3 /\
    (* the new leader's verification: every hypothesis of verify_read_fresh *)
    In a (sy_nodes σ1) /\ In b1 (sy_nodes σ1) /\ In b (sy_nodes σ2) /\
    n_role b1 = Leader /\ n_role b = Leader /\ n_id b1 = n_id b /\ p_term (n_p b1) = p_term (n_p b) /\
    (length (p_log (n_p b1)) <= i)%nat /\ nth_error (p_log (n_p b)) i = Some e /\ e_term e = p_term (n_p b) /\
    e_type e = EntryNOP /\ (i < N.to_nat (n_commit b))%nat /\
    (* the deposed leader: still Leader of the smaller term at both later moments, proposes a fresh NOP at moment 2,
       which is in its log but not committed at moment 3, although it does commit something (the old NOP) *)
    In d1 (sy_nodes σ2) /\ In d (sy_nodes σ3) /\ n_id d1 = n_id d /\ n_role d1 = Leader /\ n_role d = Leader /\
    p_term (n_p d1) = p_term (n_p d) /\ p_term (n_p d) < p_term (n_p b) /\
    (exists x, nth_error (p_log (n_p d)) (length (p_log (n_p d1))) = Some x /\ e_term x = p_term (n_p d) /\ e_type x = EntryNOP) /\
    n_commit d1 < n_commit d /\ (N.to_nat (n_commit d) <= length (p_log (n_p d1)))%nat.
Proof.
  exists t0, t21, t26, t29, vf_sched_a, vf_sched_b, vf_sched_c,
    (node_at t21 0), (node_at t21 1), (node_at t26 1), 2%nat,
    {| e_term := 3; e_index := 3; e_type := EntryNOP; e_pl := [] |}, (node_at t26 0), (node_at t29 0).
  split; [exact vf_cinit|]. split; [exact vf_run_a|]. split; [exact vf_run_b|]. split; [exact vf_run_c|].
  split; [inat|]. split; [inat|]. split; [inat|].
  split; [vc|]. split; [vc|]. split; [vc|]. split; [vc|].
  split; [vm_compute; lia|]. split; [vc|]. split; [vc|]. split; [vc|]. split; [vm_compute; lia|].
  split; [inat|]. split; [inat|]. split; [vc|]. split; [vc|]. split; [vc|]. split; [vc|]. split; [vc|].
  split; [eexists; split; [vc|]; split; vc|].
  split; [vc|]. vm_compute; lia.
Qed.

(* necessity of "the committed entry was appended AFTER the request": riding the NOP that was already in flight *)
Example verify_read_fresh_refuted_without_fresh_entry_ex :
  exists σ0 σ1 σ2 s1 s2 a b1 b i e,
    cinit σ0 /\
    run sys sys_event (lstep (length (sy_nodes σ0)) [1; 2; 3] 5) σ0 s1 σ1 /\
    run sys sys_event (lstep (length (sy_nodes σ0)) [1; 2; 3] 5) σ1 s2 σ2 /\
    In a (sy_nodes σ1) /\ In b1 (sy_nodes σ1) /\ In b (sy_nodes σ2) /\
    n_role b1 = Leader /\ n_role b = Leader /\ n_id b1 = n_id b /\ p_term (n_p b1) = p_term (n_p b) /\
    nth_error (p_log (n_p b)) i = Some e /\ e_term e = p_term (n_p b) /\ e_type e = EntryNOP /\
    (i < N.to_nat (n_commit b))%nat /\
    (i < length (p_log (n_p b1)))%nat /\                     (* the only hypothesis dropped: the entry is not new *)
    n_commit b < n_commit a /\                               (* the conclusion fails: b misses a committed entry *)
    firstn (N.to_nat (n_commit a)) (p_log (n_p b)) <> firstn (N.to_nat (n_commit a)) (p_log (n_p a)).
Proof.
  exists t0, t26, t29, (vf_sched_a ++ vf_sched_b), vf_sched_c,
    (node_at t26 1), (node_at t26 0), (node_at t29 0), 1%nat,
    {| e_term := 2; e_index := 2; e_type := EntryNOP; e_pl := [] |}.
  split; [exact vf_cinit|].
  split; [eapply run_append; [exact vf_run_a | exact vf_run_b]|]. split; [exact vf_run_c|].
  split; [inat|]. split; [inat|]. split; [inat|].
  split; [vc|]. split; [vc|]. split; [vc|]. split; [vc|]. split; [vc|]. split; [vc|]. split; [vc|].
  split; [vm_compute; lia|]. split; [vm_compute; lia|]. split; [vc|].
  vm_compute. discriminate.
Qed.
