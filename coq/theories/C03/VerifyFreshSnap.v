(* C03/VerifyFreshSnap.v - verify_read_fresh WITH snapshots: alphabet sstepS of C02 (Raft/SnapSystem.v) = fixed membership,
   every event including SnapshotDone (reporting an applied position), InstallSnapshot deliveries, log trim, Restart,
   crashes after any durable mutation.  Stated over logical logs llog Cf a = (entries the snapshot covers and the log no
   longer holds) ++ log; the proof is fresh_inv on C02's virtual system. *)
From Coq Require Import List NArith ZArith Bool Lia ZifyN ZifyNat ZifyBool.
From BLB Require Import Lib.LTS Raft.Core Raft.Wire Raft.NodeProofs Raft.NodeKeep Raft.NodeElect Raft.NodeConf
  Raft.Election Raft.ElectionFixed Raft.LogMatchLists Raft.CommitCount Raft.LogMatchNode Raft.LogMatch Raft.Completeness
  Raft.CompletenessAck Raft.CompletenessVote Raft.CompletenessCommit Raft.LogMatchNodeS Raft.SnapVirtual Raft.SnapSystem
  C03.VerifyFresh.
Import ListNotations.
Open Scope N_scope.

Theorem verify_read_fresh_with_snapshots_sys :
  forall (bm : list nid) (be : N) (σ0 σ1 σ2 : sys) (sched1 sched2 : list sys_event),
    cinit σ0 -> length bm = length (sy_nodes σ0) ->
    run sys sys_event (sstepS bm be (length (sy_nodes σ0))) σ0 sched1 σ1 ->
    run sys sys_event (sstepS bm be (length (sy_nodes σ0))) σ1 sched2 σ2 ->
    exists Cf1 Cf2, ghost_ok σ1 Cf1 /\ ghost_ok σ2 Cf2 /\
      forall a b1 b i e,
        In a (sy_nodes σ1) -> In b1 (sy_nodes σ1) -> In b (sy_nodes σ2) ->
        n_role b1 = Leader -> n_id b1 = n_id b -> p_term (n_p b1) = p_term (n_p b) ->
        (length (llog Cf1 b1) <= i)%nat -> nth_error (llog Cf2 b) i = Some e -> e_term e = p_term (n_p b) ->
        (i < N.to_nat (n_commit b))%nat ->
        (N.to_nat (n_commit a) <= N.to_nat (n_commit b))%nat /\
        firstn (N.to_nat (n_commit a)) (llog Cf2 b) = firstn (N.to_nat (n_commit a)) (llog Cf1 a).
Proof.
  intros bm be σ0 σ1 σ2 sched1 sched2 Hc Hbm Hr1 Hr2.
  destruct (SI_run bm be _ σ0 sched1 σ1 _ _ _ _ _ _ (SI_init bm be σ0 Hc Hbm) Hr1) as [Cf1 [S1 [G1 [A1 [CL1 [GR1 [H1 _]]]]]]].
  destruct (SI_run bm be _ σ1 sched2 σ2 _ _ _ _ _ _ H1 Hr2) as [Cf2 [S2 [G2 [A2 [CL2 [GR2 [H2 [HG [HA Hid]]]]]]]]].
  exists Cf1, Cf2. split; [eapply SI_ghost_ok; eauto|]. split; [eapply SI_ghost_ok; eauto|].
  intros a b1 b i e Ha Hb1 Hb Rb Eid Et Hlen Hnth Hte Hic.
  assert (Hq : quorum_of (map n_id (sy_nodes (vsys Cf2 S2 σ2))) = quorum_of (map n_id (sy_nodes (vsys Cf1 S1 σ1)))).
  { simpl. rewrite !ids_vsys, Hid. reflexivity. }
  exact (fresh_inv bm be _ _ _ _ _ _ _ _ _ _ (vnode Cf1 a) (vnode Cf1 b1) (vnode Cf2 b) i e
           (si_cm _ _ _ _ _ _ _ _ _ _ H1) (si_cm _ _ _ _ _ _ _ _ _ _ H2) HG HA Hq
           (vsys_in Cf1 S1 σ1 a Ha) (vsys_in Cf1 S1 σ1 b1 Hb1) (vsys_in Cf2 S2 σ2 b Hb) Rb Eid Et Hlen Hnth Hte Hic).
Qed.

Lemma shape_len C p cm : shape C p cm -> N.of_nat (length (C ++ p_log p)) = last_index p.
Proof.
  intros [W Sn]. unfold last_index. destruct (p_log p) as [|x r] eqn:EL.
  - simpl. rewrite app_nil_r in *. destruct (p_snap p) as [m|].
    + destruct Sn as [A [B _]]. lia.
    + subst C. reflexivity.
  - apply wf_from_app in W. destruct W as [_ W].
    rewrite (log_last_wf _ _ W) by discriminate. rewrite app_length. lia.
Qed.

(* ghost-free form: commit indices and physical entries *)
Theorem verify_read_fresh_with_snapshots_entries :
  forall (bm : list nid) (be : N) (σ0 σ1 σ2 : sys) (sched1 sched2 : list sys_event),
    cinit σ0 -> length bm = length (sy_nodes σ0) ->
    run sys sys_event (sstepS bm be (length (sy_nodes σ0))) σ0 sched1 σ1 ->
    run sys sys_event (sstepS bm be (length (sy_nodes σ0))) σ1 sched2 σ2 ->
    forall a b1 b e,
      In a (sy_nodes σ1) -> In b1 (sy_nodes σ1) -> In b (sy_nodes σ2) ->
      n_role b1 = Leader -> n_id b1 = n_id b -> p_term (n_p b1) = p_term (n_p b) ->
      In e (p_log (n_p b)) -> e_term e = p_term (n_p b) -> last_index (n_p b1) < e_index e -> e_index e <= n_commit b ->
      n_commit a <= n_commit b /\
      forall x, In x (p_log (n_p a)) -> e_index x <= n_commit a ->
        In x (p_log (n_p b)) \/ exists mb, p_snap (n_p b) = Some mb /\ e_index x <= sn_index mb.
Proof.
  intros bm be σ0 σ1 σ2 sched1 sched2 Hc Hbm Hr1 Hr2 a b1 b e Ha Hb1 Hb Rb Eid Et Hin Hte Hnew Hcm.
  destruct (verify_read_fresh_with_snapshots_sys bm be σ0 σ1 σ2 sched1 sched2 Hc Hbm Hr1 Hr2) as [Cf1 [Cf2 [G1 [G2 F]]]].
  pose proof (G1 a Ha) as Sa. pose proof (G1 b1 Hb1) as Sb1. pose proof (G2 b Hb) as Sb.
  destruct (phys_pos _ _ _ e Sb Hin) as [He1 Hpos].
  pose proof (shape_len _ _ _ Sb1) as L1.
  assert (Hlen : (length (llog Cf1 b1) <= N.to_nat (e_index e) - 1)%nat) by (unfold llog; lia).
  assert (Hic : (N.to_nat (e_index e) - 1 < N.to_nat (n_commit b))%nat) by lia.
  destruct (F a b1 b _ e Ha Hb1 Hb Rb Eid Et Hlen Hpos Hte Hic) as [Hle Heq].
  split; [lia|]. intros x Hx Hxc. unfold llog in *.
  set (c := N.to_nat (n_commit a)) in *.
  destruct (phys_pos _ _ _ x Sa Hx) as [H1 Hp].
  assert (Hk : (N.to_nat (e_index x) - 1 < c)%nat) by (unfold c; lia).
  assert (X : nth_error (Cf2 (n_id b) ++ p_log (n_p b)) (N.to_nat (e_index x) - 1) = Some x).
  { rewrite <- (nth_error_firstn_lt _ c) by exact Hk. rewrite Heq. rewrite nth_error_firstn_lt by exact Hk. exact Hp. }
  destruct (covered_or_held _ _ _ _ x Sb X) as [_ Y]. exact Y.
Qed.
