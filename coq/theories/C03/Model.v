(* C03/Model.v - definitions only.
   (1) the sequential specification of the "revealing" replicated state machine the harness runs on the
       real Raft groups (every command appends its unique id to a log and returns the new length, the
       previous last id and the term of its log entry; a verified read returns length and last id);
   (2) recorded histories (client operations with invocation/return stamps and outcome classes, final
       state of every replica segment);
   (3) linearizability of a history w.r.t. (1), and the replicated variant (the replicas follow the order);
   (4) the executable checker check_history / check_code that uses the agreed log as the witness;
   (5) run_history_case: wire decoding (run_case, which also serves the layer-model lines, is in Wire.v). *)
From Coq Require Import List ZArith Bool.
Import ListNotations.
Open Scope Z_scope.

(* ---------- histories ---------- *)
Inductive kind := KWrite | KRead.
Inductive outcome := OOk | ODef | OIndef.
(* OOk: acknowledged without error.  ODef: definite error (ErrNodeNotLeader / ErrTermMismatch: concluded before
   anything was handed to core.Propose).  OIndef: ErrNotLeaderAnymore or never concluded: may or may not have
   been / be applied. *)

Record op := mkOp {
  oid   : Z;        (* unique id > 0; for a write it is the command *)
  okind : kind;
  oinv  : Z;        (* stamp taken BEFORE the call *)
  oret  : Z;        (* stamp taken AFTER the result was observed (meaningful for OOk only) *)
  oout  : outcome;
  ores1 : Z;        (* write: new length; read: observed length *)
  ores2 : Z;        (* write: previous last id (0 if none); read: last id (0 if empty) *)
  ores3 : Z;        (* write: term of the log entry as seen by Apply; read: 0 *)
  oterm : Z         (* ProposeIfTerm: required term; 0 = unconditional *)
}.

Definition item := (Z * Z)%type.            (* (command id, term of its log entry) *)
Record history := mkHist {
  hops    : list op;
  hstates : list (list item)                (* state of every replica at the end of every segment of its life *)
}.

(* ---------- sequential specification ---------- *)
(* state: applied commands, newest first.  The term in which a command is applied is chosen by the environment
   (argument t); the specification constrains it: terms never decrease, and a term-conditional command is
   applied only in the term it names. *)
Definition sstate := list item.
Definition slen (s : sstate) : Z := Z.of_nat (length s).
Definition slast (s : sstate) : Z := match s with [] => 0 | (i, _) :: _ => i end.
Definition sterm (s : sstate) : Z := match s with [] => 0 | (_, t) :: _ => t end.

Definition write_allowed (s : sstate) (o : op) (t : Z) : Prop :=
  sterm s <= t /\ (oterm o <> 0 -> t = oterm o).
Definition write_result_ok (s : sstate) (o : op) (t : Z) : Prop :=
  ores1 o = slen s + 1 /\ ores2 o = slast s /\ ores3 o = t.
Definition read_result_ok (s : sstate) (o : op) : Prop :=
  ores1 o = slen s /\ ores2 o = slast s.

(* sequential replay of a candidate order; acknowledged operations must have returned what the
   specification returns at their place *)
Fixpoint seq_replay (s : sstate) (lin : list (op * Z)) : Prop :=
  match lin with
  | [] => True
  | (o, t) :: r =>
      match okind o with
      | KWrite => write_allowed s o t /\ (oout o = OOk -> write_result_ok s o t) /\ seq_replay ((oid o, t) :: s) r
      | KRead  => read_result_ok s o /\ seq_replay s r
      end
  end.

(* ---------- linearizability ---------- *)
(* lin is a total order (a duplicate-free sequence) of: all acknowledged operations, no operation that was
   rejected with a definite error, possibly some of the indefinite writes; it respects the observed real-time
   order (a returned before b was invoked => a before b) and its sequential replay yields the returned results. *)
Definition linearization (h : history) (lin : list (op * Z)) : Prop :=
  NoDup (map (fun x => oid (fst x)) lin) /\
  (forall x, In x lin -> In (fst x) (hops h) /\ oout (fst x) <> ODef /\ (okind (fst x) = KRead -> oout (fst x) = OOk)) /\
  (forall o, In o (hops h) -> oout o = OOk -> exists t, In (o, t) lin) /\
  (forall i j a b, nth_error lin i = Some a -> nth_error lin j = Some b ->
                   oout (fst a) = OOk -> oret (fst a) < oinv (fst b) -> (i < j)%nat) /\
  seq_replay [] lin.

Definition linearizable (h : history) : Prop := exists lin, linearization h lin.

(* the replicas follow that order: every recorded replica state is a prefix of the writes of lin *)
Definition is_write (x : op * Z) : bool := match okind (fst x) with KWrite => true | KRead => false end.
Definition witems (lin : list (op * Z)) : list item :=
  map (fun x => (oid (fst x), snd x)) (filter is_write lin).
Definition prefix {A} (a b : list A) : Prop := exists c, b = a ++ c.
(* ... every acknowledged command has been applied by some replica (is in a recorded replica state), and a verified
   read did not observe more commands than the longest recorded replica state holds (replica states only grow) *)
Fixpoint longest (acc : list item) (l : list (list item)) : list item :=
  match l with
  | [] => acc
  | s :: r => if (length acc <? length s)%nat then longest s r else longest acc r
  end.
Definition agreed_log (h : history) : list item := longest [] (hstates h).

Definition replicated_linearizable (h : history) : Prop :=
  exists lin, linearization h lin /\
    (forall S, In S (hstates h) -> prefix S (witems lin)) /\
    (forall o, In o (hops h) -> okind o = KWrite -> oout o = OOk ->
               exists S, In S (hstates h) /\ In (oid o) (map fst S)) /\
    (forall o, In o (hops h) -> okind o = KRead -> oout o = OOk ->
               ores1 o <= Z.of_nat (length (agreed_log h))).

(* ---------- executable checker ---------- *)
Definition kind_eqb (a b : kind) : bool :=
  match a, b with KWrite, KWrite | KRead, KRead => true | _, _ => false end.
Definition out_eqb (a b : outcome) : bool :=
  match a, b with OOk, OOk | ODef, ODef | OIndef, OIndef => true | _, _ => false end.
Definition op_eqb (a b : op) : bool :=
  (oid a =? oid b) && kind_eqb (okind a) (okind b) && (oinv a =? oinv b) && (oret a =? oret b) &&
  out_eqb (oout a) (oout b) && (ores1 a =? ores1 b) && (ores2 a =? ores2 b) && (ores3 a =? ores3 b) &&
  (oterm a =? oterm b).
Definition item_eqb (a b : item) : bool := (fst a =? fst b) && (snd a =? snd b).

Definition isW (o : op) : bool := kind_eqb (okind o) KWrite.
Definition isR (o : op) : bool := kind_eqb (okind o) KRead.
Definition isOk (o : op) : bool := out_eqb (oout o) OOk.
Definition isDef (o : op) : bool := out_eqb (oout o) ODef.

Definition memZ (x : Z) (l : list Z) : bool := existsb (Z.eqb x) l.
Fixpoint nodupZ (l : list Z) : bool :=
  match l with [] => true | x :: r => negb (memZ x r) && nodupZ r end.
Fixpoint prefixb (a b : list item) : bool :=
  match a, b with
  | [], _ => true
  | x :: a', y :: b' => item_eqb x y && prefixb a' b'
  | _ :: _, [] => false
  end.

(* boolean forms of the clauses of [linearization] *)
Fixpoint rt_ok (lin : list (op * Z)) : bool :=
  match lin with
  | [] => true
  | b :: r => forallb (fun a => negb (isOk (fst a) && (oret (fst a) <? oinv (fst b)))) (b :: r) && rt_ok r
  end.
Fixpoint replay_ok (s : sstate) (lin : list (op * Z)) : bool :=
  match lin with
  | [] => true
  | (o, t) :: r =>
      match okind o with
      | KWrite =>
          (sterm s <=? t) && ((oterm o =? 0) || (t =? oterm o)) &&
          (negb (isOk o) || ((ores1 o =? slen s + 1) && (ores2 o =? slast s) && (ores3 o =? t))) &&
          replay_ok ((oid o, t) :: s) r
      | KRead => (ores1 o =? slen s) && (ores2 o =? slast s) && replay_ok s r
      end
  end.
Definition member_ok (ops : list op) (x : op * Z) : bool :=
  existsb (op_eqb (fst x)) ops && negb (isDef (fst x)) && (negb (isR (fst x)) || isOk (fst x)).
Definition acked_in (lin : list (op * Z)) (o : op) : bool :=
  negb (isOk o) || existsb (fun x => op_eqb (fst x) o) lin.

Definition check_lin (h : history) (lin : list (op * Z)) : bool :=
  nodupZ (map (fun x => oid (fst x)) lin) &&
  forallb (member_ok (hops h)) lin &&
  forallb (acked_in lin) (hops h) &&
  rt_ok lin &&
  replay_ok [] lin &&
  forallb (fun S => prefixb S (witems lin)) (hstates h).

(* the witness: the agreed log = the longest recorded replica state (agreed_log above) *)

Definition find_write (ops : list op) (id : Z) : option op :=
  find (fun o => isW o && (oid o =? id)) ops.
Fixpoint ins_inv (o : op) (l : list op) : list op :=
  match l with
  | [] => [o]
  | y :: r => if oinv o <=? oinv y then o :: l else y :: ins_inv o r
  end.
Definition sort_inv (l : list op) : list op := fold_right ins_inv [] l.
Definition reads_at (ops : list op) (k : Z) : list (op * Z) :=
  map (fun o => (o, 0)) (sort_inv (filter (fun o => isR o && isOk o && (ores1 o =? k)) ops)).

(* reads that observed k commands are placed after the k-th command of the log (ordered by invocation stamp) *)
Fixpoint build_from (ops : list op) (k : Z) (L : list item) : list (op * Z) :=
  reads_at ops k ++
  match L with
  | [] => []
  | (id, t) :: r =>
      match find_write ops id with
      | Some o => (o, t) :: build_from ops (k + 1) r
      | None => build_from ops (k + 1) r
      end
  end.
Definition build (h : history) : list (op * Z) := build_from (hops h) 0 (agreed_log h).

(* ---- the property's clauses evaluated one by one on the agreed log (diagnosis: which clause failed) ---- *)
(* writes of the log with their 1-based position *)
Fixpoint log_ops (ops : list op) (k : Z) (L : list item) : list (op * Z) :=
  match L with
  | [] => []
  | (id, _) :: r =>
      match find_write ops id with
      | Some o => (o, k) :: log_ops ops (k + 1) r
      | None => log_ops ops (k + 1) r
      end
  end.
Fixpoint results_ok (ops : list op) (k prev : Z) (L : list item) : bool :=
  match L with
  | [] => true
  | (id, t) :: r =>
      match find_write ops id with
      | Some o => (negb (isOk o) || ((ores1 o =? k) && (ores2 o =? prev) && (ores3 o =? t)))
      | None => true
      end && results_ok ops (k + 1) id r
  end.
Fixpoint terms_ok (ops : list op) (L : list item) : bool :=
  match L with
  | [] => true
  | (id, t) :: r =>
      match find_write ops id with
      | Some o => (oterm o =? 0) || (t =? oterm o)
      | None => true
      end && terms_ok ops r
  end.
Fixpoint terms_mono (prev : Z) (L : list item) : bool :=
  match L with [] => true | (_, t) :: r => (prev <=? t) && terms_mono t r end.
Fixpoint nth_id (L : list item) (k : Z) (cur : Z) : Z :=   (* id of the k-th element (1-based), 0 if k = 0 *)
  match L with
  | [] => 0
  | (id, _) :: r => if cur =? k then id else nth_id r k (cur + 1)
  end.

Definition check_code (h : history) : Z :=
  let ops := hops h in
  let L := agreed_log h in
  let ids := map fst L in
  let wl := log_ops ops 1 L in
  let n := Z.of_nat (length L) in
  let okreads := filter (fun o => isR o && isOk o) ops in
  if negb (nodupZ (map oid ops)) then 2
  else if negb (forallb (fun S => prefixb S L) (hstates h)) then 3
  else if negb (nodupZ ids) then 4
  else if negb (forallb (fun o => negb (isW o && isOk o) || memZ (oid o) ids) ops) then 5
  else if negb (forallb (fun o => negb (isW o && isDef o) || negb (memZ (oid o) ids)) ops) then 6
  else if negb (forallb (fun id => match find_write ops id with Some _ => true | None => false end) ids) then 7
  else if negb (results_ok ops 1 0 L) then 8
  else if negb (rt_ok wl) then 9
  else if negb (forallb (fun r => (0 <=? ores1 r) && (ores1 r <=? n) &&
                                   (ores2 r =? (if ores1 r =? 0 then 0 else nth_id L (ores1 r) 1))) okreads) then 10
  else if negb (forallb (fun r => forallb (fun a => negb (isW a && isOk a && (oret a <? oinv r)) ||
                                                     (ores1 a <=? ores1 r)) ops) okreads) then 11
  else if negb (forallb (fun r => forallb (fun bk => negb (oret r <? oinv (fst bk)) || (ores1 r <? snd bk)) wl &&
                                   forallb (fun r2 => negb (oret r <? oinv r2) || (ores1 r <=? ores1 r2)) okreads)
                        okreads) then 12
  else if negb (terms_ok ops L) then 14
  else if negb (terms_mono 0 L) then 15
  else if negb (check_lin h (build h)) then 13
  else 1.

Definition check_history (h : history) : bool := check_code h =? 1.

(* ---------- wire ---------- *)
(* line 1: 1 id kind(1 Propose | 2 ProposeIfTerm | 3 VerifyRead+read) node inv ret outcome(1|2|3) r1 r2 r3 reqterm
   line 2: 2 node n (id term)*n          a replica state
   line 777: verdict *)
Definition dec_op (l : list Z) : option op :=
  match l with
  | [id; k; _; inv; ret; out; r1; r2; r3; rt] =>
      match (if (k =? 1) || (k =? 2) then Some KWrite else if k =? 3 then Some KRead else None),
            (if out =? 1 then Some OOk else if out =? 2 then Some ODef else if out =? 3 then Some OIndef else None) with
      | Some kd, Some oc => if 0 <? id then Some (mkOp id kd inv ret oc r1 r2 r3 rt) else None
      | _, _ => None
      end
  | _ => None
  end.
Fixpoint dec_items (n : nat) (l : list Z) : option (list item) :=
  match n, l with
  | O, [] => Some []
  | S n', id :: t :: r => match dec_items n' r with Some x => Some ((id, t) :: x) | None => None end
  | _, _ => None
  end.
Definition dec_state (l : list Z) : option (list item) :=
  match l with
  | _ :: n :: r => if 0 <=? n then dec_items (Z.to_nat n) r else None
  | _ => None
  end.

Fixpoint parse (lines : list (list Z)) (ops : list op) (sts : list (list item)) : history :=
  match lines with
  | [] => mkHist (rev ops) (rev sts)
  | (1 :: r) :: rest => match dec_op r with Some o => parse rest (o :: ops) sts | None => parse rest ops sts end
  | (2 :: r) :: rest => match dec_state r with Some s => parse rest ops (s :: sts) | None => parse rest ops sts end
  | _ :: rest => parse rest ops sts
  end.

Definition run_history_case (ops : list (list Z)) : list (list Z) :=
  let h := parse ops [] [] in
  map (fun l => match l with
                | 1 :: r => match dec_op r with Some _ => [0] | None => [-1] end
                | 2 :: r => match dec_state r with Some _ => [0] | None => [-1] end
                | [777] => [777; check_code h]
                | _ => [-1]
                end) ops.
