(* C03/Proofs.v - soundness of the history checker (boolean reflection of every clause of [linearization]). *)
From Coq Require Import List ZArith Bool Lia ZifyN ZifyNat ZifyBool.
From BLB Require Import C03.Model.
Import ListNotations.
Open Scope Z_scope.

Lemma kind_eqb_eq a b : kind_eqb a b = true -> a = b.
Proof. destruct a, b; simpl; congruence. Qed.
Lemma out_eqb_eq a b : out_eqb a b = true -> a = b.
Proof. destruct a, b; simpl; congruence. Qed.

Lemma op_eqb_eq a b : op_eqb a b = true -> a = b.
Proof.
  unfold op_eqb. rewrite !andb_true_iff.
  intros [[[[[[[[H1 H2] H3] H4] H5] H6] H7] H8] H9].
  destruct a, b; simpl in *.
  apply Z.eqb_eq in H1, H3, H4, H6, H7, H8, H9.
  apply kind_eqb_eq in H2. apply out_eqb_eq in H5. subst. reflexivity.
Qed.

Lemma memZ_In x l : memZ x l = true <-> In x l.
Proof.
  unfold memZ. rewrite existsb_exists. split.
  - intros [y [Hy He]]. apply Z.eqb_eq in He. subst. exact Hy.
  - intros H. exists x. split; [exact H | apply Z.eqb_refl].
Qed.

Lemma nodupZ_NoDup l : nodupZ l = true -> NoDup l.
Proof.
  induction l as [|x r IH]; simpl; intros H.
  - constructor.
  - apply andb_true_iff in H. destruct H as [H1 H2]. constructor.
    + intro Hin. apply memZ_In in Hin. rewrite Hin in H1. discriminate.
    + apply IH, H2.
Qed.

Lemma item_eqb_eq a b : item_eqb a b = true -> a = b.
Proof.
  unfold item_eqb. rewrite andb_true_iff. intros [H1 H2].
  apply Z.eqb_eq in H1, H2. destruct a, b; simpl in *; subst; reflexivity.
Qed.

Lemma prefixb_prefix a : forall b, prefixb a b = true -> prefix a b.
Proof.
  induction a as [|x a IH]; intros b H.
  - exists b. reflexivity.
  - destruct b as [|y b]; simpl in H; [discriminate|].
    apply andb_true_iff in H. destruct H as [H1 H2].
    apply item_eqb_eq in H1. subst y.
    destruct (IH _ H2) as [c Hc]. exists c. simpl. rewrite Hc. reflexivity.
Qed.

Lemma isOk_true o : isOk o = true <-> oout o = OOk.
Proof. unfold isOk. destruct (oout o); simpl; split; congruence. Qed.

Lemma rt_ok_spec lin :
  rt_ok lin = true ->
  forall i j a b, nth_error lin i = Some a -> nth_error lin j = Some b ->
                  oout (fst a) = OOk -> oret (fst a) < oinv (fst b) -> (i < j)%nat.
Proof.
  induction lin as [|x r IH]; intros H i j a b Ha Hb Hok Hlt.
  - destruct i; discriminate.
  - cbn [rt_ok] in H. apply andb_true_iff in H. destruct H as [H1 H2].
    destruct j as [|j'].
    + exfalso. simpl in Hb. inversion Hb; subst b.
      rewrite forallb_forall in H1.
      assert (In a (x :: r)) as Hin by (eapply nth_error_In; eauto).
      specialize (H1 a Hin). apply negb_true_iff in H1.
      apply andb_false_iff in H1. destruct H1 as [H1|H1].
      * apply isOk_true in Hok. congruence.
      * apply Z.ltb_ge in H1. lia.
    + destruct i as [|i']; [lia|].
      simpl in Ha, Hb. specialize (IH H2 i' j' a b Ha Hb Hok Hlt). lia.
Qed.

Lemma replay_ok_spec lin : forall s, replay_ok s lin = true -> seq_replay s lin.
Proof.
  induction lin as [|[o t] r IH]; intros s H; simpl; [exact I|].
  simpl in H. destruct (okind o).
  - rewrite !andb_true_iff in H. destruct H as [[[H1 H2] H3] H4].
    split; [|split].
    + split.
      * apply Z.leb_le in H1. exact H1.
      * intros Hne. apply orb_true_iff in H2. destruct H2 as [H2|H2].
        -- apply Z.eqb_eq in H2. contradiction.
        -- apply Z.eqb_eq in H2. exact H2.
    + intros Hok. apply orb_true_iff in H3. destruct H3 as [H3|H3].
      * apply negb_true_iff in H3. apply isOk_true in Hok. congruence.
      * rewrite !andb_true_iff in H3. destruct H3 as [[A B] C].
        apply Z.eqb_eq in A, B, C. repeat split; assumption.
    + apply IH, H4.
  - rewrite !andb_true_iff in H. destruct H as [[H1 H2] H3].
    apply Z.eqb_eq in H1, H2. split; [split; assumption | apply IH, H3].
Qed.

Lemma check_lin_sound h lin :
  check_lin h lin = true ->
  linearization h lin /\ (forall S, In S (hstates h) -> prefix S (witems lin)).
Proof.
  unfold check_lin. rewrite !andb_true_iff.
  intros [[[[[H1 H2] H3] H4] H5] H6].
  split; [split; [|split; [|split; [|split]]]|].
  - apply nodupZ_NoDup, H1.
  - intros x Hx. rewrite forallb_forall in H2. specialize (H2 x Hx).
    unfold member_ok in H2. rewrite !andb_true_iff in H2. destruct H2 as [[A B] C].
    split; [|split].
    + apply existsb_exists in A. destruct A as [y [Hy He]]. apply op_eqb_eq in He. rewrite He. exact Hy.
    + intro Hd. unfold isDef in B. rewrite Hd in B. discriminate.
    + intro Hk. apply orb_true_iff in C. destruct C as [C|C].
      * unfold isR in C. rewrite Hk in C. discriminate.
      * apply isOk_true, C.
  - intros o Ho Hok. rewrite forallb_forall in H3. specialize (H3 o Ho).
    unfold acked_in in H3. apply orb_true_iff in H3. destruct H3 as [A|A].
    + apply negb_true_iff in A. apply isOk_true in Hok. congruence.
    + apply existsb_exists in A. destruct A as [[o' t] [Hy He]]. simpl in He.
      apply op_eqb_eq in He. subst o'. exists t. exact Hy.
  - apply rt_ok_spec, H4.
  - apply replay_ok_spec, H5.
  - intros S HS. rewrite forallb_forall in H6. apply prefixb_prefix, H6, HS.
Qed.

Definition acked_applied_b (h : history) : bool :=
  forallb (fun o => negb (isW o && isOk o) || memZ (oid o) (map fst (agreed_log h))) (hops h).
Definition reads_bounded_b (h : history) : bool :=
  forallb (fun r => (0 <=? ores1 r) && (ores1 r <=? Z.of_nat (length (agreed_log h))) &&
                    (ores2 r =? (if ores1 r =? 0 then 0 else nth_id (agreed_log h) (ores1 r) 1)))
          (filter (fun o => isR o && isOk o) (hops h)).

Lemma check_code_1 h :
  check_code h = 1 -> check_lin h (build h) = true /\ acked_applied_b h = true /\ reads_bounded_b h = true.
Proof.
  unfold check_code, acked_applied_b, reads_bounded_b.
  repeat match goal with
         | |- context [if negb ?c then _ else _] =>
             let E := fresh "E" in destruct c eqn:E; cbn [negb]; try discriminate
         end.
  intros _. repeat split; reflexivity.
Qed.

Lemma longest_in l : forall acc, longest acc l = acc \/ In (longest acc l) l.
Proof.
  induction l as [|s r IH]; intros acc; simpl; [left; reflexivity|].
  destruct (length acc <? length s)%nat.
  - destruct (IH s) as [E|E]; [right; left; symmetry; exact E | right; right; exact E].
  - destruct (IH acc) as [E|E]; [left; exact E | right; right; exact E].
Qed.

Lemma check_history_sound_lemma h : check_history h = true -> replicated_linearizable h.
Proof.
  unfold check_history. intros H. apply Z.eqb_eq in H. apply check_code_1 in H. destruct H as [H [H5 H10]].
  apply check_lin_sound in H. destruct H as [A B]. exists (build h). split; [exact A|]. split; [exact B|].
  split.
  2:{ intros o Ho Hk Hok. unfold reads_bounded_b in H10. rewrite forallb_forall in H10.
      assert (In o (filter (fun o => isR o && isOk o) (hops h))) as Hin.
      { apply filter_In. split; [exact Ho|]. unfold isR, isOk. rewrite Hk, Hok. reflexivity. }
      specialize (H10 o Hin). rewrite !andb_true_iff in H10. destruct H10 as [[_ H10] _].
      apply Z.leb_le in H10. exact H10. }
  intros o Ho Hk Hok. unfold acked_applied_b in H5. rewrite forallb_forall in H5. specialize (H5 o Ho).
  apply orb_true_iff in H5. destruct H5 as [H5|H5].
  - apply negb_true_iff in H5. unfold isW, isOk in H5. rewrite Hk, Hok in H5. discriminate.
  - apply memZ_In in H5. unfold agreed_log in H5.
    destruct (longest_in (hstates h) []) as [E|E].
    + rewrite E in H5. destruct H5.
    + exists (longest [] (hstates h)). split; assumption.
Qed.

Lemma replicated_linearizable_linearizable h : replicated_linearizable h -> linearizable h.
Proof. intros [lin [A _]]. exists lin. exact A. Qed.

(* ---------- the state machine is "revealing": a result pins down the place in any linearization ---------- *)
Definition wcount (l : list (op * Z)) : nat := length (filter is_write l).

Lemma slen_cons x s : slen (x :: s) = slen s + 1.
Proof. unfold slen. simpl length. lia. Qed.

Lemma replay_reveals lin : forall s i o t,
  seq_replay s lin -> nth_error lin i = Some (o, t) -> oout o = OOk ->
  match okind o with
  | KWrite => ores1 o = slen s + Z.of_nat (wcount (firstn i lin)) + 1
  | KRead => ores1 o = slen s + Z.of_nat (wcount (firstn i lin))
  end.
Proof.
  induction lin as [|[o' t'] r IH]; intros s i o t Hr Hn Hok.
  - destruct i; discriminate.
  - destruct i as [|i].
    + simpl in Hn. inversion Hn; subst o' t'. simpl in Hr. unfold wcount. simpl.
      destruct (okind o) eqn:K.
      * destruct Hr as [_ [Hres _]]. destruct (Hres Hok) as [A _]. simpl. rewrite A. ring.
      * destruct Hr as [[A _] _]. simpl. rewrite A. ring.
    + simpl in Hn. simpl in Hr. unfold wcount. simpl firstn. simpl filter.
      assert (is_write (o', t') = match okind o' with KWrite => true | KRead => false end) as W by reflexivity.
      rewrite W. clear W.
      destruct (okind o') eqn:K'.
      * destruct Hr as [_ [_ Hr]]. specialize (IH _ _ _ _ Hr Hn Hok). rewrite slen_cons in IH.
        simpl length. unfold wcount in IH. destruct (okind o); lia.
      * destruct Hr as [_ Hr]. specialize (IH _ _ _ _ Hr Hn Hok). unfold wcount in IH. exact IH.
Qed.

Lemma revealing_order_unique_lemma h lin1 lin2 :
  linearization h lin1 -> linearization h lin2 ->
  forall o t1 t2 i j, nth_error lin1 i = Some (o, t1) -> nth_error lin2 j = Some (o, t2) -> oout o = OOk ->
  wcount (firstn i lin1) = wcount (firstn j lin2).
Proof.
  intros [_ [_ [_ [_ R1]]]] [_ [_ [_ [_ R2]]]] o t1 t2 i j H1 H2 Hok.
  pose proof (replay_reveals _ _ _ _ _ R1 H1 Hok) as A.
  pose proof (replay_reveals _ _ _ _ _ R2 H2 Hok) as B.
  unfold slen in A, B. simpl in A, B. destruct (okind o); lia.
Qed.
