(* C03/VerifyFreshMExample.v - non-vacuity of verify_read_fresh_membership_change on C02's run A (Raft/MemberRunExample.v):
   bootstrap [1;2], node 1 leader of term 2 with 2 entries committed (moment A10 = the request); then EAddNode 3 is
   accepted, the configuration entry (index 3, term 2) is replicated and committed under [1;2;3], node 3 is caught up
   and even elected for term 3 (moment A21). Node 1, still Leader of term 2, has committed an entry of its term at a
   position that did not exist at the request: every hypothesis of the theorem holds, with an AddNode in between. *)
From Coq Require Import List NArith ZArith Bool Lia.
From BLB Require Import Lib.LTS Raft.Core Raft.Wire Raft.Election Raft.ElectionExample Raft.LogMatch Raft.LogMatchExample
  Raft.MembershipExample Raft.MemberVotes Raft.MemberConfTrack Raft.MemberVotesExample Raft.MemberRun Raft.MemberRunExample.
Import ListNotations.
Open Scope N_scope.

Definition mnode (a : asys) (k : nat) : node := nth k (sy_nodes (fst a)) (mk_node 1).
Lemma mnode_In a k : (k < length (sy_nodes (fst a)))%nat -> In (mnode a k) (sy_nodes (fst a)).
Proof. intro H. apply nth_In. exact H. Qed.

Example verify_read_fresh_membership_change_nonvacuous_ex :
  exists a0 a1 a2 s1 s2 a b1 b i e,
    minitS a0 /\ NoDup [1; 2] /\
    run asys sys_event (mstepS [1; 2] 5) a0 s1 a1 /\ run asys sys_event (mstepS [1; 2] 5) a1 s2 a2 /\
    In (1, EAddNode 3 77, 0) s2 /\
    In a (sy_nodes (fst a1)) /\ In b1 (sy_nodes (fst a1)) /\ In b (sy_nodes (fst a2)) /\
    n_role b1 = Leader /\ n_role b = Leader /\ n_id b1 = n_id b /\ p_term (n_p b1) = p_term (n_p b) /\
    (length (p_log (n_p b1)) <= i)%nat /\ nth_error (p_log (n_p b)) i = Some e /\ e_term e = p_term (n_p b) /\
    e_type e = EntryConf /\ (i < N.to_nat (n_commit b))%nat /\ 0 < n_commit a.
Proof.
  exists A0, A10, A21, sched10, schedA2, (mnode A10 0), (mnode A10 0), (mnode A21 0), 2%nat.
  eexists.
  split; [exact minitS_A0|]. split; [exact Hn12|]. split; [exact RS1|]. split; [exact RS2|].
  split; [left; reflexivity|].
  split; [apply mnode_In; vm_compute; lia|]. split; [apply mnode_In; vm_compute; lia|]. split; [apply mnode_In; vm_compute; lia|].
  split; [vm_compute; reflexivity|]. split; [vm_compute; reflexivity|]. split; [vm_compute; reflexivity|].
  split; [vm_compute; reflexivity|]. split; [vm_compute; lia|]. split; [vm_compute; reflexivity|].
  split; [vm_compute; reflexivity|]. split; [vm_compute; reflexivity|]. split; [vm_compute; lia | vm_compute; reflexivity].
Qed.
