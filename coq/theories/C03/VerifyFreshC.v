(* C03/VerifyFreshC.v - verify_read_fresh over the COMBINED alphabet of C02 (Raft/MemberSnapSystemU.cstep: membership change
   AND snapshots in one run - every event of Core.run_event on any node: deliveries of any message ever sent incl.
   InstallSnap, any number of times or never, ticks, proposals without configuration entries, AddNode (not of the node
   itself), RemoveNode, SnapshotDone as the state machine issues it, restart; crash after any durable mutation).
   Over logical logs llogC. The proof is fresh_invM (VerifyFreshM.v) on the virtual system of the combined invariant MSI,
   which exports the round-8 invariant MS there (mi_ms). *)
From Coq Require Import List NArith ZArith Bool Lia ZifyN ZifyNat ZifyBool.
From BLB Require Import Lib.LTS Raft.Core Raft.Wire Raft.NodeProofs Raft.NodeKeep Raft.NodeElect Raft.NodeConf
  Raft.Election Raft.ElectionFixed Raft.LogMatchLists Raft.CommitCount Raft.LogMatchNode Raft.LogMatch Raft.Completeness Raft.CompletenessAck
  Raft.CompletenessVote Raft.MembershipQuorum Raft.NodeKeepV Raft.MemberNode Raft.MemberVotes Raft.MemberConfStep
  Raft.MemberPeers Raft.MemberConfTrack Raft.MemberLeaderOut Raft.MemberLeaderLog
  Raft.LogMatchNodeM Raft.LogMatchM Raft.CompletenessAckM Raft.MemberAbstract Raft.CompletenessVoteM Raft.MemberSafety Raft.MemberStep
  Raft.MemberRun Raft.LogMatchNodeSQ Raft.SnapVirtualQ Raft.MemberSnapSystemU C03.VerifyFreshM.
Import ListNotations.
Open Scope N_scope.

Theorem verify_read_fresh_combined_sys :
  forall (bm : list nid) (be : N), NoDup bm ->
  forall (a0 a1 a2 : asys) (sched1 sched2 : list sys_event),
    minitS a0 -> run asys sys_event (cstep bm be) a0 sched1 a1 -> run asys sys_event (cstep bm be) a1 sched2 a2 ->
    exists Cf1 Cf2, fitsC a1 Cf1 /\ fitsC a2 Cf2 /\
      forall a b1 b i e,
        In a (sy_nodes (fst a1)) -> In b1 (sy_nodes (fst a1)) -> In b (sy_nodes (fst a2)) ->
        n_role b1 = Leader -> n_id b1 = n_id b -> p_term (n_p b1) = p_term (n_p b) ->
        (length (llogC Cf1 b1) <= i)%nat -> nth_error (llogC Cf2 b) i = Some e -> e_term e = p_term (n_p b) ->
        (i < N.to_nat (n_commit b))%nat ->
        (N.to_nat (n_commit a) <= N.to_nat (n_commit b))%nat /\
        firstn (N.to_nat (n_commit a)) (llogC Cf2 b) = firstn (N.to_nat (n_commit a)) (llogC Cf1 a).
Proof.
  intros bm be Hbm a0 a1 a2 sched1 sched2 Hi Hr1 Hr2.
  destruct (MSI_run bm be _ _ _ _ _ _ _ _ _ _ (MSI_init bm be Hbm a0 Hi) Hr1) as [Cf1 [S1 [G1 [A1 [CL1 [GR1 [GL1 [HI1 _]]]]]]]].
  destruct (MSI_run bm be _ _ _ _ _ _ _ _ _ _ HI1 Hr2) as [Cf2 [S2 [G2 [A2 [CL2 [GR2 [GL2 [HI2 [HG HA]]]]]]]]].
  exists Cf1, Cf2. split; [eapply MSI_fits; eauto|]. split; [eapply MSI_fits; eauto|].
  intros a b1 b i e Ha Hb1 Hb Rb Eid Et Hlen Hnth Hte Hic.
  exact (fresh_invM bm be _ _ _ _ _ _ _ _ _ _ _ _ (vnode Cf1 a) (vnode Cf1 b1) (vnode Cf2 b) i e
           (mi_ms _ _ _ _ _ _ _ _ _ _ HI1) (mi_ms _ _ _ _ _ _ _ _ _ _ HI2) HG HA
           (vsys_in Cf1 S1 _ a Ha) (vsys_in Cf1 S1 _ b1 Hb1) (vsys_in Cf2 S2 _ b Hb) Rb Eid Et Hlen Hnth Hte Hic).
Qed.

(* ---------------------------------------------------------------- ghost-free form *)
Lemma covered_or_heldC C p cm k e :
  shape C p cm -> nth_error (C ++ p_log p) k = Some e ->
  e_index e = N.of_nat (S k) /\ (In e (p_log p) \/ exists m, p_snap p = Some m /\ e_index e <= sn_index m).
Proof.
  intros Sh H. pose proof Sh as [W Sx]. pose proof (wf_from_nth _ _ _ _ W H) as Ix. split; [lia|].
  destruct (Nat.lt_ge_cases k (length C)) as [Hk | Hk].
  - right. destruct (p_snap p) as [m |]; [| subst C; simpl in Hk; lia]. exists m. split; [reflexivity|]. lia.
  - left. rewrite nth_error_app2 in H by exact Hk. eapply nth_error_In; eauto.
Qed.

Lemma phys_posC C p cm e : shape C p cm -> In e (p_log p) -> 1 <= e_index e /\ nth_error (C ++ p_log p) (N.to_nat (e_index e) - 1) = Some e.
Proof.
  intros Sh Hin. pose proof Sh as [W _]. apply In_nth_error in Hin. destruct Hin as [k Hk].
  assert (HL : nth_error (C ++ p_log p) (length C + k) = Some e).
  { rewrite nth_error_app2 by lia. replace (length C + k - length C)%nat with k by lia. exact Hk. }
  pose proof (wf_from_nth _ _ _ _ W HL) as Ix. split; [lia|]. rewrite <- HL. f_equal. lia.
Qed.

Lemma shape_lenC C p cm : shape C p cm -> N.of_nat (length (C ++ p_log p)) = last_index p.
Proof.
  intros [W Sn]. unfold last_index. destruct (p_log p) as [|x r] eqn:EL.
  - simpl. rewrite app_nil_r in *. destruct (p_snap p) as [m|].
    + destruct Sn as [A [B _]]. lia.
    + subst C. reflexivity.
  - apply wf_from_app in W. destruct W as [_ W].
    rewrite (log_last_wf _ _ W) by discriminate. rewrite app_length. lia.
Qed.

Theorem verify_read_fresh_combined_entries :
  forall (bm : list nid) (be : N), NoDup bm ->
  forall (a0 a1 a2 : asys) (sched1 sched2 : list sys_event),
    minitS a0 -> run asys sys_event (cstep bm be) a0 sched1 a1 -> run asys sys_event (cstep bm be) a1 sched2 a2 ->
    forall a b1 b e,
      In a (sy_nodes (fst a1)) -> In b1 (sy_nodes (fst a1)) -> In b (sy_nodes (fst a2)) ->
      n_role b1 = Leader -> n_id b1 = n_id b -> p_term (n_p b1) = p_term (n_p b) ->
      In e (p_log (n_p b)) -> e_term e = p_term (n_p b) -> last_index (n_p b1) < e_index e -> e_index e <= n_commit b ->
      n_commit a <= n_commit b /\
      forall x, In x (p_log (n_p a)) -> e_index x <= n_commit a ->
        In x (p_log (n_p b)) \/ exists mb, p_snap (n_p b) = Some mb /\ e_index x <= sn_index mb.
Proof.
  intros bm be Hbm a0 a1 a2 sched1 sched2 Hi Hr1 Hr2 a b1 b e Ha Hb1 Hb Rb Eid Et Hin Hte Hnew Hcm.
  destruct (verify_read_fresh_combined_sys bm be Hbm a0 a1 a2 sched1 sched2 Hi Hr1 Hr2) as [Cf1 [Cf2 [G1 [G2 F]]]].
  destruct (G1 a Ha) as [Sa _]. destruct (G1 b1 Hb1) as [Sb1 _]. destruct (G2 b Hb) as [Sb _].
  destruct (phys_posC _ _ _ e Sb Hin) as [He1 Hpos].
  pose proof (shape_lenC _ _ _ Sb1) as L1.
  assert (Hlen : (length (llogC Cf1 b1) <= N.to_nat (e_index e) - 1)%nat) by (unfold llogC; lia).
  assert (Hic : (N.to_nat (e_index e) - 1 < N.to_nat (n_commit b))%nat) by lia.
  destruct (F a b1 b _ e Ha Hb1 Hb Rb Eid Et Hlen Hpos Hte Hic) as [Hle Heq].
  split; [lia|]. intros x Hx Hxc. unfold llogC in *.
  set (c := N.to_nat (n_commit a)) in *.
  destruct (phys_posC _ _ _ x Sa Hx) as [H1 Hp].
  assert (Hk : (N.to_nat (e_index x) - 1 < c)%nat) by (unfold c; lia).
  assert (X : nth_error (Cf2 (n_id b) ++ p_log (n_p b)) (N.to_nat (e_index x) - 1) = Some x).
  { rewrite <- (C03.VerifyFresh.nth_error_firstn_lt _ c) by exact Hk. rewrite Heq.
    rewrite C03.VerifyFresh.nth_error_firstn_lt by exact Hk. exact Hp. }
  destruct (covered_or_heldC _ _ _ _ x Sb X) as [_ Y]. exact Y.
Qed.
