(* C03/Wire.v - definitions only: the generic driver entry point run_case.
   A case is either a recorded history (lines 1, 2, 777: judged by Model.check_code) or a sequential script
   against a real single-node group (lines 3), predicted by the layer model of Layer.v composed with a core that
   commits at once what was proposed (which is what a one-member group does) and the revealing FSM.
   line 3: 3 kind(1 Propose | 2 ProposeIfTerm | 3 VerifyRead) pid cmd reqterm curterm leading(0|1)
           observation: code(1 applied | 2 ErrNodeNotLeader | 3 ErrTermMismatch | 4 ErrNotLeaderAnymore) result
           (result = new length for an applied command, 0 otherwise) *)
From Coq Require Import List ZArith Bool.
From BLB Require Import C03.Model C03.Layer.
Import ListNotations.
Open Scope Z_scope.

Definition rev_apply (s : Z) (cmd : Z) : Z * Z := (s + 1, s + 1).

Definition code_of (o : outcome Z) : list Z :=
  match o with
  | Applied _ (Some r) => [1; r]
  | Applied _ None => [1; 0]
  | ENotLeader _ => [2; 0]
  | ETermMismatch _ => [3; 0]
  | ENotLeaderAnymore _ => [4; 0]
  end.

Record lwire := mkW { wst : lstate Z; wfsm : Z }.

Definition layer_line (w : lwire) (l : list Z) : lwire * list Z :=
  match l with
  | [kind; pid; cmd; reqterm; cur; lead] =>
      let p := Z.to_nat pid in
      let st0 := if (lead =? 1) && negb (leading Z (wst w)) then init Z
                 else if (lead =? 0) && leading Z (wst w) then step Z cur (wst w) EvStepDown
                 else wst w in
      let ev := if kind =? 3 then EvVerify [p] else EvProp [mkReq p cmd (if kind =? 1 then 0 else reqterm)] in
      let st1 := step Z cur st0 ev in
      (* the one-member core: everything proposed and not yet committed is committed at once *)
      let st2 := step Z cur st1 (EvCommit (skipn (length (committed Z st1)) (proposed Z st1))) in
      let newc := skipn (length (concl Z st0)) (concl Z st2) in
      let newf := skipn (length (tofsm Z st0)) (tofsm Z st2) in
      let fs := fsm_run Z Z rev_apply (wfsm w) newf in
      let out := match newc ++ fs with
                 | [(q, o)] => if Nat.eqb q p then code_of o else [-2]
                 | _ => [-3]
                 end in
      (mkW st2 (fsm_state Z Z rev_apply (wfsm w) newf), if fatal Z st2 then [-4] else out)
  | _ => (w, [-1])
  end.

Fixpoint layer_lines (w : lwire) (ls : list (list Z)) : list (list Z) :=
  match ls with
  | [] => []
  | (3 :: r) :: rest => let (w', o) := layer_line w r in o :: layer_lines w' rest
  | _ :: rest => [-1] :: layer_lines w rest
  end.

Definition is_layer_case (ops : list (list Z)) : bool :=
  match ops with (3 :: _) :: _ => true | _ => false end.

Definition run_case (ops : list (list Z)) : list (list Z) :=
  if is_layer_case ops then layer_lines (mkW (init Z) 0) ops else run_history_case ops.
