(* C03/VerifyFreshM.v - verify_read_fresh ACROSS MEMBERSHIP CHANGE: alphabet mstepS of C02 (Raft/MemberRun.v, round 8) = every
   event on any node incl. AddNode / RemoveNode as the core accepts or refuses them, restarts, crashes, any deliveries;
   one bootstrap membership, no SnapshotDone, proposals carry no configuration entries, no node is asked to add itself.
   The proof is fresh_inv of VerifyFresh.v replayed on the round-8 invariant MS (ms_cn: commit indices inside
   committedM prefixes; committedM_comparable; ginvM: log matching against leader records, election safety on the
   history, leader record is a prefix of the leader's log). Nothing MS does not export was needed. *)
From Coq Require Import List NArith ZArith Bool Lia ZifyN ZifyNat ZifyBool.
From BLB Require Import Lib.LTS Raft.Core Raft.Wire Raft.NodeProofs Raft.NodeKeep Raft.NodeElect Raft.NodeConf
  Raft.Election Raft.ElectionFixed Raft.LogMatchLists Raft.CommitCount Raft.LogMatchNode Raft.LogMatch Raft.Completeness Raft.CompletenessAck
  Raft.CompletenessVote Raft.SMSafetyNode Raft.SMSafetyBound Raft.MembershipQuorum Raft.NodeKeepV Raft.MemberNode Raft.MemberVotes Raft.MemberConfStep
  Raft.MemberPeers Raft.MemberConfTrack Raft.MemberLeaderOut Raft.MemberLeaderLog
  Raft.LogMatchNodeM Raft.LogMatchM Raft.CompletenessAckM Raft.MemberAbstract Raft.CompletenessVoteM Raft.MemberSafety Raft.MemberStep Raft.MemberRun
  C03.VerifyFresh.
Import ListNotations.
Open Scope N_scope.

Section FreshM.
  Variables (bm : list nid) (be : N).
  Hypothesis Hbm : NoDup bm.

  (* the core of the argument, on the invariants of C02 *)
  Lemma fresh_invM (x1 x2 : asys) G1 A1 CL1 GR1 GL1 G2 A2 CL2 GR2 GL2 a b1 b i e :
    let σ1 := fst x1 in let σ2 := fst x2 in
    MS bm be x1 G1 A1 CL1 GR1 GL1 -> MS bm be x2 G2 A2 CL2 GR2 GL2 -> incl G1 G2 -> incl A1 A2 ->
    In a (sy_nodes σ1) -> In b1 (sy_nodes σ1) -> In b (sy_nodes σ2) ->
    n_role b1 = Leader -> n_id b1 = n_id b -> p_term (n_p b1) = p_term (n_p b) ->
    (length (p_log (n_p b1)) <= i)%nat -> nth_error (p_log (n_p b)) i = Some e -> e_term e = p_term (n_p b) ->
    (i < N.to_nat (n_commit b))%nat ->
    (N.to_nat (n_commit a) <= N.to_nat (n_commit b))%nat /\
    firstn (N.to_nat (n_commit a)) (p_log (n_p b)) = firstn (N.to_nat (n_commit a)) (p_log (n_p a)).
  Proof.
    intros σ1 σ2 C1 C2 HG HA Ha Hb1 Hb Rb1 Eid Et Hlen Hnth Hte Hic.
    pose proof (k_g _ _ _ _ _ (w_k _ _ _ _ _ _ _ _ (ms_w _ _ _ _ _ _ _ _ C1))) as GI1.
    pose proof (k_g _ _ _ _ _ (w_k _ _ _ _ _ _ _ _ (ms_w _ _ _ _ _ _ _ _ C2))) as GI2.
    pose proof (in_get_node _ _ (LogMatchM.g_nd _ _ _ _ GI1) Ha) as Ga.
    pose proof (in_get_node _ _ (LogMatchM.g_nd _ _ _ _ GI1) Hb1) as Gb1.
    pose proof (in_get_node _ _ (LogMatchM.g_nd _ _ _ _ GI2) Hb) as Gb.
    destruct (ms_cn _ _ _ _ _ _ _ _ C1 _ _ Ga) as [Hal Hap].
    destruct (ms_cn _ _ _ _ _ _ _ _ C2 _ _ Gb) as [Hbl Hbp].
    set (ca := N.to_nat (n_commit a)) in *. set (cb := N.to_nat (n_commit b)) in *.
    set (La := p_log (n_p a)) in *. set (Lb := p_log (n_p b)) in *.
    destruct Hap as [Za | [Ta [Pa [Cma [HTa Hpa]]]]]; [rewrite Za; split; [lia | reflexivity]|].
    destruct Hbp as [Zb | [Tb [Pb [Cmb [HTb Hpb]]]]]; [lia|].
    pose proof (committedM_mono G1 G2 A1 A2 Ta Pa HG HA Cma) as Cma2.
    pose proof (committedM_comparable bm be x2 G2 A2 CL2 GR2 GL2 Ta Pa Tb Pb C2 Cma2 Cmb) as Cmp.
    assert (Cmp2 : comparable (firstn ca La) (firstn cb Lb)).
    { destruct Cmp as [X | X].
      - eapply pfx_comparable; [eapply pfx_trans; [exact Hpa | exact X] | exact Hpb].
      - eapply pfx_comparable; [exact Hpa | eapply pfx_trans; [exact Hpb | exact X]]. }
    assert (Lena : length (firstn ca La) = ca) by (rewrite firstn_length; lia).
    assert (Lenb : length (firstn cb Lb) = cb) by (rewrite firstn_length; lia).
    assert (Hle : (ca <= cb)%nat).
    { destruct (le_lt_dec ca cb) as [H | H]; [exact H | exfalso].
      (* then a's committed prefix at moment 1 already contains the term-T entry at position i *)
      assert (X : pfx (firstn cb Lb) (firstn ca La)).
      { destruct Cmp2 as [X | X]; [apply pfx_len in X; lia | exact X]. }
      assert (Ea : nth_error La i = Some e).
      { rewrite <- (nth_error_firstn_lt La ca i) by lia. apply (pfx_nth_error _ _ _ _ X).
        rewrite nth_error_firstn_lt by lia. exact Hnth. }
      destruct (LogMatchM.g_lm_node _ _ _ _ GI1 _ _ Ga i e Ea) as [j [l [Rl El]]].
      assert (Ll : (i < length l)%nat).
      { pose proof (f_equal (@length _) El) as HL. rewrite !firstn_length in HL.
        assert (i < length La)%nat by (apply nth_error_Some; congruence). fold La in HL. lia. }
      rewrite Hte, <- Et in Rl.
      pose proof (LogMatchM.g_hist_leader _ _ _ _ GI1 _ _ Gb1 Rb1) as Hh1.
      destruct (LogMatchM.g_rec_hist _ _ _ _ GI1 _ _ _ Rl) as [[Z1 [Z2 Z3]] | [Nz [Hh2 _]]].
      - (* the bootstrap record has term 1; a leader's term is >= 2 *)
        pose proof (LogMatchM.g_rec_leader _ _ _ _ GI1 _ _ Gb1 Rb1) as Rb.
        destruct (LogMatchM.g_rec_hist _ _ _ _ GI1 _ _ _ Rb) as [[Y1 _] | [_ [_ Y3]]].
        + exact (LogMatchM.g_nz _ _ _ _ GI1 _ _ Gb1 Y1).
        + lia.
      - pose proof (LogMatchM.g_es _ _ _ _ GI1 _ _ _ Hh1 Hh2) as Ej. subst j.
        destruct (LogMatchM.g_rec_node _ _ _ _ GI1 _ _ _ Rl Nz) as [s [Gs [_ Hs]]].
        rewrite Gb1 in Gs. inversion Gs. subst s.
        destruct (Hs eq_refl) as [_ Hp]. apply Hp in Rb1. apply pfx_len in Rb1. lia. }
    split; [exact Hle|].
    assert (X : pfx (firstn ca La) (firstn cb Lb)).
    { destruct Cmp2 as [X | X]; [exact X|]. pose proof (pfx_len _ _ X) as HL.
      destruct X as [y Hy]. assert (y = []).
      { pose proof (f_equal (@length _) Hy) as E. rewrite app_length in E. destruct y; [reflexivity | simpl in E; lia]. }
      subst y. rewrite app_nil_r in Hy. rewrite Hy. apply pfx_refl. }
    transitivity (firstn ca (firstn cb Lb)).
    - rewrite firstn_firstn, Nat.min_l by lia. reflexivity.
    - rewrite <- (pfx_firstn ca _ _ X) by lia. rewrite firstn_firstn, Nat.min_id. reflexivity.
  Qed.

  Theorem verify_read_fresh_membership_change_sys a0 a1 a2 sched1 sched2 :
    minitS a0 -> run asys sys_event (mstepS bm be) a0 sched1 a1 -> run asys sys_event (mstepS bm be) a1 sched2 a2 ->
    forall a b1 b i e,
      In a (sy_nodes (fst a1)) -> In b1 (sy_nodes (fst a1)) -> In b (sy_nodes (fst a2)) ->
      n_role b1 = Leader -> n_id b1 = n_id b -> p_term (n_p b1) = p_term (n_p b) ->
      (length (p_log (n_p b1)) <= i)%nat -> nth_error (p_log (n_p b)) i = Some e -> e_term e = p_term (n_p b) ->
      (i < N.to_nat (n_commit b))%nat ->
      (N.to_nat (n_commit a) <= N.to_nat (n_commit b))%nat /\
      firstn (N.to_nat (n_commit a)) (p_log (n_p b)) = firstn (N.to_nat (n_commit a)) (p_log (n_p a)).
  Proof.
    intros Hi Hr1 Hr2 a b1 b i e.
    destruct (MS_run bm be _ _ _ _ _ _ _ _ (MS_init bm be Hbm a0 Hi) Hr1) as [G1 [A1 [CL1 [GR1 [GL1 [M1 _]]]]]].
    destruct (MS_run bm be _ _ _ _ _ _ _ _ M1 Hr2) as [G2 [A2 [CL2 [GR2 [GL2 [M2 [HG HA]]]]]]].
    exact (fresh_invM a1 a2 G1 A1 CL1 GR1 GL1 G2 A2 CL2 GR2 GL2 a b1 b i e M1 M2 HG HA).
  Qed.
End FreshM.
