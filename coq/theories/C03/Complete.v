(* C03/Complete.v - completeness of the named clauses of the history checker: if a history is
   replicated-linearizable (and its operation ids are distinct) then none of the clause verdicts 2-12, 14, 15 can be
   produced: a clause verdict is always a real violation of the specification. *)
From Coq Require Import List ZArith Bool Lia ZifyN ZifyNat ZifyBool Permutation Sorted.
From BLB Require Import C03.Model C03.Proofs.
Import ListNotations.
Open Scope Z_scope.

(* ---------- generic list facts ---------- *)
Lemma nodupZ_complete l : NoDup l -> nodupZ l = true.
Proof.
  induction 1 as [|x l Hn Hnd IH]; simpl; [reflexivity|].
  rewrite IH, andb_true_r. apply negb_true_iff. destruct (memZ x l) eqn:E; [|reflexivity].
  apply memZ_In in E. contradiction.
Qed.

Lemma item_eqb_refl x : item_eqb x x = true.
Proof. unfold item_eqb. rewrite !Z.eqb_refl. reflexivity. Qed.

Lemma prefixb_complete a : forall b, prefix a b -> prefixb a b = true.
Proof.
  induction a as [|x a IH]; intros b [c Hc]; simpl; [reflexivity|].
  subst b. simpl. rewrite item_eqb_refl. simpl. apply IH. exists c. reflexivity.
Qed.

Lemma prefix_total {A} (a : list A) : forall b w, prefix a w -> prefix b w -> (length a <= length b)%nat -> prefix a b.
Proof.
  induction a as [|x a IH]; intros b w Ha Hb Hl.
  - exists b. reflexivity.
  - destruct b as [|y b]; [simpl in Hl; lia|].
    destruct Ha as [ca Ha]. destruct Hb as [cb Hb]. subst w. simpl in Hb. inversion Hb; subst y.
    destruct (IH b (a ++ ca)) as [c Hc].
    + exists ca. reflexivity.
    + exists cb. exact H1.
    + simpl in Hl. lia.
    + exists c. simpl. rewrite Hc. reflexivity.
Qed.

Lemma prefix_In {A} (a b : list A) x : prefix a b -> In x a -> In x b.
Proof. intros [c Hc] Hi. subst b. apply in_or_app. left. exact Hi. Qed.

Lemma prefix_map {A B} (f : A -> B) a b : prefix a b -> prefix (map f a) (map f b).
Proof. intros [c Hc]. subst b. exists (map f c). apply map_app. Qed.

Lemma prefix_length {A} (a b : list A) : prefix a b -> (length a <= length b)%nat.
Proof. intros [c Hc]. subst b. rewrite app_length. lia. Qed.

Lemma NoDup_prefix {A} (a b : list A) : prefix a b -> NoDup b -> NoDup a.
Proof.
  intros [c Hc] Hn. subst b. induction a as [|x a IH]; [constructor|].
  simpl in Hn. inversion Hn; subst. constructor.
  - intro Hi. apply H1. apply in_or_app. left. exact Hi.
  - apply IH, H2.
Qed.

Lemma NoDup_map_inj {A B} (f : A -> B) l a b :
  NoDup (map f l) -> In a l -> In b l -> f a = f b -> a = b.
Proof.
  induction l as [|x l IH]; simpl; intros Hn Ha Hb Hf; [contradiction|].
  inversion Hn; subst.
  destruct Ha as [Ha|Ha]; destruct Hb as [Hb|Hb]; subst.
  - reflexivity.
  - exfalso. apply H1. rewrite Hf. apply in_map. exact Hb.
  - exfalso. apply H1. rewrite <- Hf. apply in_map. exact Ha.
  - apply IH; assumption.
Qed.

Lemma NoDup_map_filter {A B} (f : A -> B) (p : A -> bool) l : NoDup (map f l) -> NoDup (map f (filter p l)).
Proof.
  induction l as [|x l IH]; simpl; intros Hn; [constructor|].
  inversion Hn; subst. destruct (p x); simpl.
  - constructor; [|apply IH, H2]. intro Hi. apply H1.
    apply in_map_iff in Hi. destruct Hi as [y [E Hy]]. apply filter_In in Hy. destruct Hy as [Hy _].
    rewrite <- E. apply in_map. exact Hy.
  - apply IH, H2.
Qed.

Lemma longest_ge l : forall acc,
  (length acc <= length (longest acc l))%nat /\ forall S, In S l -> (length S <= length (longest acc l))%nat.
Proof.
  induction l as [|s r IH]; intros acc; simpl.
  - split; [lia | intros S []].
  - destruct (length acc <? length s)%nat eqn:E.
    + apply Nat.ltb_lt in E. destruct (IH s) as [A B]. split; [lia|].
      intros S [HS|HS]; [subst; exact A | apply B, HS].
    + apply Nat.ltb_ge in E. destruct (IH acc) as [A B]. split; [exact A|].
      intros S [HS|HS]; [subst; lia | apply B, HS].
Qed.

(* ---------- the setting ---------- *)
Section Complete.
Variable h : history.
Variable lin : list (op * Z).
Hypothesis U : NoDup (map oid (hops h)).
Hypothesis HLin : linearization h lin.
Hypothesis PS : forall S, In S (hstates h) -> prefix S (witems lin).
Hypothesis AP : forall o, In o (hops h) -> okind o = KWrite -> oout o = OOk ->
                          exists S, In S (hstates h) /\ In (oid o) (map fst S).
Hypothesis AR : forall o, In o (hops h) -> okind o = KRead -> oout o = OOk ->
                          ores1 o <= Z.of_nat (length (agreed_log h)).

Local Notation ops := (hops h).
Local Notation L := (agreed_log h).
Local Notation W := (witems lin).

Lemma lin_nodup : NoDup (map (fun x => oid (fst x)) lin).
Proof. destruct HLin as [A _]. exact A. Qed.
Lemma lin_member x : In x lin -> In (fst x) ops /\ oout (fst x) <> ODef /\ (okind (fst x) = KRead -> oout (fst x) = OOk).
Proof. destruct HLin as [_ [A _]]. apply A. Qed.
Lemma lin_acked o : In o ops -> oout o = OOk -> exists t, In (o, t) lin.
Proof. destruct HLin as [_ [_ [A _]]]. apply A. Qed.
Lemma lin_rt i j a b : nth_error lin i = Some a -> nth_error lin j = Some b ->
                       oout (fst a) = OOk -> oret (fst a) < oinv (fst b) -> (i < j)%nat.
Proof. destruct HLin as [_ [_ [_ [A _]]]]. apply A. Qed.
Lemma lin_replay : seq_replay [] lin.
Proof. destruct HLin as [_ [_ [_ [_ A]]]]. exact A. Qed.

Lemma L_prefix_W : prefix L W.
Proof.
  unfold agreed_log. destruct (longest_in (hstates h) []) as [E|E].
  - rewrite E. exists W. reflexivity.
  - apply PS, E.
Qed.

Lemma state_prefix_L S : In S (hstates h) -> prefix S L.
Proof.
  intros HS. apply (prefix_total S L W); [apply PS, HS | apply L_prefix_W |].
  unfold agreed_log. apply (proj2 (longest_ge (hstates h) [])), HS.
Qed.

Lemma witems_In id t : In (id, t) W -> exists o, In (o, t) lin /\ okind o = KWrite /\ oid o = id.
Proof.
  unfold witems. intros Hi. apply in_map_iff in Hi. destruct Hi as [[o t'] [E Hx]].
  simpl in E. inversion E; subst. apply filter_In in Hx. destruct Hx as [Hx Hw].
  exists o. split; [exact Hx|]. split; [|reflexivity].
  unfold is_write in Hw. simpl in Hw. destruct (okind o); [reflexivity | discriminate].
Qed.

Lemma W_ids_nodup : NoDup (map fst W).
Proof.
  unfold witems. rewrite map_map. simpl.
  apply (NoDup_map_filter (fun x : op * Z => oid (fst x)) is_write lin). apply lin_nodup.
Qed.

Lemma ops_inj a b : In a ops -> In b ops -> oid a = oid b -> a = b.
Proof. apply NoDup_map_inj. exact U. Qed.

Lemma isW_true o : isW o = true <-> okind o = KWrite.
Proof. unfold isW. destruct (okind o); simpl; split; congruence. Qed.
Lemma isR_true o : isR o = true <-> okind o = KRead.
Proof. unfold isR. destruct (okind o); simpl; split; congruence. Qed.
Lemma isDef_true o : isDef o = true <-> oout o = ODef.
Proof. unfold isDef. destruct (oout o); simpl; split; congruence. Qed.

Lemma find_write_unique o : In o ops -> okind o = KWrite -> find_write ops (oid o) = Some o.
Proof.
  intros Ho Hk. unfold find_write.
  destruct (find (fun o0 => isW o0 && (oid o0 =? oid o)) ops) as [o'|] eqn:E.
  - apply find_some in E. destruct E as [Ho' E]. apply andb_true_iff in E. destruct E as [_ E].
    apply Z.eqb_eq in E. f_equal. apply ops_inj; assumption.
  - exfalso. pose proof (find_none _ _ E o Ho) as N. simpl in N.
    rewrite (proj2 (isW_true o) Hk), Z.eqb_refl in N. discriminate.
Qed.

Lemma lin_find o t : In (o, t) lin -> okind o = KWrite -> find_write ops (oid o) = Some o.
Proof. intros Hi Hk. apply find_write_unique; [|exact Hk]. apply (lin_member (o, t) Hi). Qed.

(* ---------- clauses 2 - 7 ---------- *)
Lemma c2 : nodupZ (map oid ops) = true.
Proof. apply nodupZ_complete, U. Qed.

Lemma c3 : forallb (fun S => prefixb S L) (hstates h) = true.
Proof. apply forallb_forall. intros S HS. apply prefixb_complete, state_prefix_L, HS. Qed.

Lemma c4 : nodupZ (map fst L) = true.
Proof.
  apply nodupZ_complete. apply (NoDup_prefix (map fst L) (map fst W)); [apply prefix_map, L_prefix_W | apply W_ids_nodup].
Qed.

Lemma c5 : forallb (fun o => negb (isW o && isOk o) || memZ (oid o) (map fst L)) ops = true.
Proof.
  apply forallb_forall. intros o Ho.
  destruct (isW o && isOk o) eqn:E; [|reflexivity]. simpl.
  apply andb_true_iff in E. destruct E as [E1 E2]. apply isW_true in E1. apply isOk_true in E2.
  destruct (AP o Ho E1 E2) as [S [HS Hi]]. apply memZ_In.
  apply (prefix_In (map fst S) (map fst L)); [apply prefix_map, state_prefix_L, HS | exact Hi].
Qed.

Lemma L_id_op id : In id (map fst L) -> exists o t, In (o, t) lin /\ okind o = KWrite /\ oid o = id /\ In o ops.
Proof.
  intros Hi. apply in_map_iff in Hi. destruct Hi as [[id' t] [E Hx]]. simpl in E. subst id'.
  apply (prefix_In L W _ L_prefix_W) in Hx. destruct (witems_In _ _ Hx) as [o [A [B C]]].
  exists o, t. repeat split; try assumption. apply (lin_member (o, t) A).
Qed.

Lemma c6 : forallb (fun o => negb (isW o && isDef o) || negb (memZ (oid o) (map fst L))) ops = true.
Proof.
  apply forallb_forall. intros o Ho.
  destruct (isW o && isDef o) eqn:E; [|reflexivity]. simpl.
  apply andb_true_iff in E. destruct E as [E1 E2]. apply isDef_true in E2.
  apply negb_true_iff. destruct (memZ (oid o) (map fst L)) eqn:M; [|reflexivity].
  apply memZ_In in M. destruct (L_id_op _ M) as [o' [t [A [B [C D]]]]].
  assert (o' = o) by (apply ops_inj; assumption). subst o'.
  exfalso. apply (proj1 (proj2 (lin_member (o, t) A))). exact E2.
Qed.

Lemma c7 : forallb (fun id => match find_write ops id with Some _ => true | None => false end) (map fst L) = true.
Proof.
  apply forallb_forall. intros id Hi. destruct (L_id_op _ Hi) as [o [t [A [B [C D]]]]].
  subst id. rewrite (find_write_unique o D B). reflexivity.
Qed.

(* ---------- clauses 8, 14, 15: one induction along the replay ---------- *)
Lemma walk_complete lin' : forall s Lp,
  seq_replay s lin' -> prefix Lp (witems lin') ->
  (forall o t, In (o, t) lin' -> okind o = KWrite -> find_write ops (oid o) = Some o) ->
  results_ok ops (slen s + 1) (slast s) Lp = true /\ terms_ok ops Lp = true /\ terms_mono (sterm s) Lp = true.
Proof.
  induction lin' as [|[o t] r IH]; intros s Lp Hr Hp Hf.
  - unfold witems in Hp. simpl in Hp. destruct Hp as [c Hc]. destruct Lp; [|discriminate]. simpl. auto.
  - simpl in Hr. destruct (okind o) eqn:K.
    + destruct Hr as [[Hm Ht] [Hres Hr]].
      assert (witems ((o, t) :: r) = (oid o, t) :: witems r) as EW.
      { unfold witems. simpl. unfold is_write at 1. simpl. rewrite K. reflexivity. }
      rewrite EW in Hp. destruct Lp as [|[id t'] Lp]; [simpl; auto|].
      destruct Hp as [c Hc]. simpl in Hc. inversion Hc; subst id t'.
      assert (prefix Lp (witems r)) as Hp' by (exists c; assumption).
      assert (forall o0 t0, In (o0, t0) r -> okind o0 = KWrite -> find_write ops (oid o0) = Some o0) as Hf'.
      { intros o0 t0 Hi. apply (Hf o0 t0). right. exact Hi. }
      destruct (IH ((oid o, t) :: s) Lp Hr Hp' Hf') as [A [B C]].
      rewrite slen_cons in A. simpl slast in A. simpl sterm in C.
      cbn [results_ok terms_ok terms_mono]. rewrite (Hf o t (or_introl eq_refl) K).
      rewrite A, B, C, !andb_true_r.
      split; [|split].
      * destruct (isOk o) eqn:EO; [|reflexivity]. simpl. apply isOk_true in EO.
        destruct (Hres EO) as [R1 [R2 R3]]. rewrite R1, R2, R3, !Z.eqb_refl. reflexivity.
      * destruct (oterm o =? 0) eqn:E0; [reflexivity|]. simpl. apply Z.eqb_neq in E0.
        rewrite (Ht E0). apply Z.eqb_refl.
      * apply Z.leb_le. exact Hm.
    + destruct Hr as [_ Hr].
      assert (witems ((o, t) :: r) = witems r) as EW.
      { unfold witems. simpl. unfold is_write at 1. simpl. rewrite K. reflexivity. }
      rewrite EW in Hp. apply (IH s Lp Hr Hp). intros o0 t0 Hi. apply (Hf o0 t0). right. exact Hi.
Qed.

Lemma c8_14_15 : results_ok ops 1 0 L = true /\ terms_ok ops L = true /\ terms_mono 0 L = true.
Proof.
  apply (walk_complete lin [] L lin_replay L_prefix_W). intros o t Hi Hk. apply (lin_find o t Hi Hk).
Qed.

(* ---------- positions ---------- *)
Lemma wcount_app a b : wcount (a ++ b) = (wcount a + wcount b)%nat.
Proof. unfold wcount. rewrite filter_app, app_length. reflexivity. Qed.

Lemma wcount_firstn_le l : forall i j, (i <= j)%nat -> (wcount (firstn i l) <= wcount (firstn j l))%nat.
Proof.
  induction l as [|x l IH]; intros i j Hij.
  - rewrite !firstn_nil. lia.
  - destruct i as [|i]; [simpl; unfold wcount; simpl; lia|].
    destruct j as [|j]; [lia|]. simpl firstn. unfold wcount in *. simpl.
    specialize (IH i j ltac:(lia)). destruct (is_write x); simpl; lia.
Qed.

Lemma wcount_firstn_lt l : forall i j x, (i < j)%nat -> nth_error l i = Some x -> is_write x = true ->
  (wcount (firstn i l) < wcount (firstn j l))%nat.
Proof.
  induction l as [|y l IH]; intros i j x Hij Hn Hw.
  - destruct i; discriminate.
  - destruct j as [|j]; [lia|]. destruct i as [|i].
    + simpl in Hn. inversion Hn; subst y. simpl firstn. unfold wcount. simpl. rewrite Hw. simpl. lia.
    + simpl in Hn. simpl firstn. unfold wcount in *. simpl.
      specialize (IH i j x ltac:(lia) Hn Hw). destruct (is_write y); simpl; lia.
Qed.

Definition pos_in_lin (b : op) (k : Z) : Prop :=
  exists j t, nth_error lin j = Some (b, t) /\ Z.of_nat (wcount (firstn j lin)) + 1 = k /\ okind b = KWrite.

Lemma is_write_kind o t : is_write (o, t) = true <-> okind o = KWrite.
Proof. unfold is_write. simpl. destruct (okind o); split; congruence. Qed.

Lemma log_ops_pos lin' : forall pre Lp,
  lin = pre ++ lin' -> prefix Lp (witems lin') ->
  forall b k, In (b, k) (log_ops ops (Z.of_nat (wcount pre) + 1) Lp) -> pos_in_lin b k.
Proof.
  induction lin' as [|[o t] r IH]; intros pre Lp El Hp b k Hi.
  - unfold witems in Hp. simpl in Hp. destruct Hp as [c Hc]. destruct Lp; [|discriminate]. simpl in Hi. contradiction.
  - assert (lin = (pre ++ [(o, t)]) ++ r) as El' by (rewrite <- app_assoc; exact El).
    destruct (okind o) eqn:K.
    + assert (witems ((o, t) :: r) = (oid o, t) :: witems r) as EW.
      { unfold witems. simpl. unfold is_write at 1. simpl. rewrite K. reflexivity. }
      rewrite EW in Hp. destruct Lp as [|[id t'] Lp]; [simpl in Hi; contradiction|].
      destruct Hp as [c Hc]. simpl in Hc. inversion Hc; subst id t'.
      assert (In (o, t) lin) as Hin by (rewrite El; apply in_or_app; right; left; reflexivity).
      simpl in Hi. rewrite (lin_find o t Hin K) in Hi. destruct Hi as [Hi|Hi].
      * inversion Hi; subst b k. exists (length pre), t. split; [|split].
        -- rewrite El. rewrite nth_error_app2; [|lia]. rewrite Nat.sub_diag. reflexivity.
        -- rewrite El. rewrite firstn_app, Nat.sub_diag, firstn_all. simpl. rewrite app_nil_r. reflexivity.
        -- exact K.
      * apply (IH (pre ++ [(o, t)]) Lp El'); [exists c; assumption|].
        rewrite wcount_app. unfold wcount at 2. simpl. rewrite (proj2 (is_write_kind o t) K). simpl.
        replace (Z.of_nat (wcount pre + 1) + 1) with (Z.of_nat (wcount pre) + 1 + 1) by lia. exact Hi.
    + assert (witems ((o, t) :: r) = witems r) as EW.
      { unfold witems. simpl. unfold is_write at 1. simpl. rewrite K. reflexivity. }
      rewrite EW in Hp. apply (IH (pre ++ [(o, t)]) Lp El' Hp).
      rewrite wcount_app. unfold wcount at 2. simpl.
      assert (is_write (o, t) = false) as Hw by (unfold is_write; simpl; rewrite K; reflexivity).
      rewrite Hw. simpl. rewrite Nat.add_0_r. exact Hi.
Qed.

Lemma wl_pos b k : In (b, k) (log_ops ops 1 L) -> pos_in_lin b k.
Proof. apply (log_ops_pos lin [] L eq_refl L_prefix_W). Qed.

Lemma log_ops_ge Lp : forall k0 b k, In (b, k) (log_ops ops k0 Lp) -> k0 <= k.
Proof.
  induction Lp as [|[id t] r IH]; intros k0 b k Hi; simpl in Hi; [contradiction|].
  destruct (find_write ops id).
  - destruct Hi as [Hi|Hi]; [inversion Hi; lia | specialize (IH _ _ _ Hi); lia].
  - specialize (IH _ _ _ Hi). lia.
Qed.

Lemma pos_order a ka b kb :
  pos_in_lin a ka -> pos_in_lin b kb -> oout a = OOk -> oret a < oinv b -> ka < kb.
Proof.
  intros [ja [ta [Ha [Ea Ka]]]] [jb [tb [Hb [Eb Kb]]]] Hok Hlt.
  assert (ja < jb)%nat as Hj by (apply (lin_rt ja jb (a, ta) (b, tb)); assumption).
  pose proof (wcount_firstn_lt lin ja jb (a, ta) Hj Ha (proj2 (is_write_kind a ta) Ka)). lia.
Qed.

Lemma rt_ok_log Lp : forall k0,
  (forall b k, In (b, k) (log_ops ops k0 Lp) -> pos_in_lin b k) -> rt_ok (log_ops ops k0 Lp) = true.
Proof.
  induction Lp as [|[id t] r IH]; intros k0 Hpos; simpl; [reflexivity|].
  simpl in Hpos. destruct (find_write ops id) as [o|] eqn:F.
  - cbn [rt_ok]. apply andb_true_iff. split.
    + apply forallb_forall. intros [a ka] Hi. simpl. apply negb_true_iff.
      destruct (isOk a && (oret a <? oinv o)) eqn:E; [|reflexivity]. exfalso.
      apply andb_true_iff in E. destruct E as [E1 E2]. apply isOk_true in E1. apply Z.ltb_lt in E2.
      assert (k0 <= ka) as Hge.
      { destruct Hi as [Hi|Hi]; [inversion Hi; lia | apply log_ops_ge in Hi; lia]. }
      pose proof (pos_order a ka o k0 (Hpos a ka Hi) (Hpos o k0 (or_introl eq_refl)) E1 E2). lia.
    + apply IH. intros b k Hi. apply Hpos. right. exact Hi.
  - apply IH. exact Hpos.
Qed.

Lemma c9 : rt_ok (log_ops ops 1 L) = true.
Proof. apply rt_ok_log. intros b k. apply wl_pos. Qed.

(* ---------- reads ---------- *)
Lemma in_lin_index x : In x lin -> exists j, nth_error lin j = Some x.
Proof. apply In_nth_error. Qed.

Lemma okread_facts r : In r (filter (fun o => isR o && isOk o) ops) ->
  In r ops /\ okind r = KRead /\ oout r = OOk /\
  exists j t, nth_error lin j = Some (r, t) /\ ores1 r = Z.of_nat (wcount (firstn j lin)).
Proof.
  intros Hi. apply filter_In in Hi. destruct Hi as [Ho E]. apply andb_true_iff in E. destruct E as [E1 E2].
  apply isR_true in E1. apply isOk_true in E2. split; [exact Ho|]. split; [exact E1|]. split; [exact E2|].
  destruct (lin_acked r Ho E2) as [t Ht]. destruct (in_lin_index _ Ht) as [j Hj]. exists j, t. split; [exact Hj|].
  pose proof (replay_reveals lin [] j r t lin_replay Hj E2) as R. rewrite E1 in R. unfold slen in R. simpl in R. lia.
Qed.

Lemma c11 : forallb (fun r => forallb (fun a => negb (isW a && isOk a && (oret a <? oinv r)) ||
                                                 (ores1 a <=? ores1 r)) ops)
                    (filter (fun o => isR o && isOk o) ops) = true.
Proof.
  apply forallb_forall. intros r Hr. destruct (okread_facts r Hr) as [Ho [Kr [Okr [j [t [Hj Er]]]]]].
  apply forallb_forall. intros a Ha.
  destruct (isW a && isOk a && (oret a <? oinv r)) eqn:E; [|reflexivity]. simpl.
  rewrite !andb_true_iff in E. destruct E as [[E1 E2] E3].
  apply isW_true in E1. apply isOk_true in E2. apply Z.ltb_lt in E3.
  destruct (lin_acked a Ha E2) as [ta Hta]. destruct (in_lin_index _ Hta) as [i Hi].
  assert (i < j)%nat as Hij by (apply (lin_rt i j (a, ta) (r, t)); assumption).
  pose proof (replay_reveals lin [] i a ta lin_replay Hi E2) as R. rewrite E1 in R. unfold slen in R. simpl in R.
  pose proof (wcount_firstn_lt lin i j (a, ta) Hij Hi (proj2 (is_write_kind a ta) E1)).
  apply Z.leb_le. lia.
Qed.

Lemma c12 : forallb (fun r => forallb (fun bk => negb (oret r <? oinv (fst bk)) || (ores1 r <? snd bk)) (log_ops ops 1 L) &&
                             forallb (fun r2 => negb (oret r <? oinv r2) || (ores1 r <=? ores1 r2))
                                     (filter (fun o => isR o && isOk o) ops))
                    (filter (fun o => isR o && isOk o) ops) = true.
Proof.
  apply forallb_forall. intros r Hr. destruct (okread_facts r Hr) as [Ho [Kr [Okr [i [t [Hi Er]]]]]].
  apply andb_true_iff. split.
  - apply forallb_forall. intros [b k] Hb. simpl.
    destruct (oret r <? oinv b) eqn:E; [|reflexivity]. simpl. apply Z.ltb_lt in E.
    destruct (wl_pos b k Hb) as [j [tb [Hj [Ek Kb]]]].
    assert (i < j)%nat as Hij by (apply (lin_rt i j (r, t) (b, tb)); assumption).
    pose proof (wcount_firstn_le lin i j ltac:(lia)). apply Z.ltb_lt. lia.
  - apply forallb_forall. intros r2 Hr2. destruct (okread_facts r2 Hr2) as [Ho2 [Kr2 [Okr2 [j [t2 [Hj Er2]]]]]].
    destruct (oret r <? oinv r2) eqn:E; [|reflexivity]. simpl. apply Z.ltb_lt in E.
    assert (i < j)%nat as Hij by (apply (lin_rt i j (r, t) (r2, t2)); assumption).
    pose proof (wcount_firstn_le lin i j ltac:(lia)). apply Z.leb_le. lia.
Qed.

(* ---------- clause 10: what a verified read observed is a prefix of the agreed log ---------- *)
Lemma witems_app a b : witems (a ++ b) = witems a ++ witems b.
Proof. unfold witems. rewrite filter_app, map_app. reflexivity. Qed.

Lemma witems_length l : length (witems l) = wcount l.
Proof. unfold witems, wcount. apply map_length. Qed.

Lemma slast_app (a b : sstate) : a <> [] -> slast (a ++ b) = slast a.
Proof. destruct a as [|[i t] a]; [congruence | reflexivity]. Qed.

Lemma replay_state lin' : forall s i o t,
  seq_replay s lin' -> nth_error lin' i = Some (o, t) -> okind o = KRead ->
  ores2 o = slast (rev (witems (firstn i lin')) ++ s).
Proof.
  induction lin' as [|[o' t'] r IH]; intros s i o t Hr Hn Hk.
  - destruct i; discriminate.
  - destruct i as [|i].
    + simpl in Hn. inversion Hn; subst o' t'. simpl in Hr. rewrite Hk in Hr.
      destruct Hr as [[_ A] _]. unfold witems. simpl. exact A.
    + simpl in Hn. simpl in Hr. simpl firstn. destruct (okind o') eqn:K'.
      * destruct Hr as [_ [_ Hr]]. rewrite (IH _ _ _ _ Hr Hn Hk).
        assert (witems ((o', t') :: firstn i r) = (oid o', t') :: witems (firstn i r)) as EW.
        { unfold witems. simpl. unfold is_write at 1. simpl. rewrite K'. reflexivity. }
        rewrite EW. simpl rev. rewrite <- app_assoc. reflexivity.
      * destruct Hr as [_ Hr]. rewrite (IH _ _ _ _ Hr Hn Hk).
        assert (witems ((o', t') :: firstn i r) = witems (firstn i r)) as EW.
        { unfold witems. simpl. unfold is_write at 1. simpl. rewrite K'. reflexivity. }
        rewrite EW. reflexivity.
Qed.

Lemma nth_id_app (X : list item) : forall c cur, X <> [] ->
  nth_id (X ++ c) (cur + Z.of_nat (length X) - 1) cur = slast (rev X).
Proof.
  induction X as [|[id t] X IH]; intros c cur Hne; [congruence|].
  destruct X as [|x' X'].
  - simpl. replace (cur + 1 - 1) with cur by lia. rewrite Z.eqb_refl. reflexivity.
  - change (((id, t) :: x' :: X') ++ c) with ((id, t) :: ((x' :: X') ++ c)).
    remember (x' :: X') as Y eqn:EY.
    cbn [nth_id].
    match goal with
    | |- (if ?c then _ else _) = _ =>
        assert (c = false) as E by (apply Z.eqb_neq; subst Y; simpl length; lia); rewrite E
    end.
    match goal with
    | |- nth_id _ ?k _ = _ =>
        replace k with ((cur + 1) + Z.of_nat (length Y) - 1) by (simpl length; lia)
    end.
    rewrite (IH c (cur + 1)); [|subst Y; congruence].
    subst Y.
    change (rev ((id, t) :: x' :: X')) with (rev (x' :: X') ++ [(id, t)]).
    rewrite slast_app; [reflexivity|]. simpl. intro Hn. apply app_eq_nil in Hn. destruct Hn as [_ Hn]. discriminate.
Qed.

Lemma c10 : forallb (fun r => (0 <=? ores1 r) && (ores1 r <=? Z.of_nat (length L)) &&
                             (ores2 r =? (if ores1 r =? 0 then 0 else nth_id L (ores1 r) 1)))
                    (filter (fun o => isR o && isOk o) ops) = true.
Proof.
  apply forallb_forall. intros r Hr. destruct (okread_facts r Hr) as [Ho [Kr [Okr [j [t [Hj Er]]]]]].
  pose proof (AR r Ho Kr Okr) as Hb.
  rewrite !andb_true_iff. split; [split|].
  - apply Z.leb_le. lia.
  - apply Z.leb_le. exact Hb.
  - pose proof (replay_state lin [] j r t lin_replay Hj Kr) as R2. rewrite app_nil_r in R2.
    set (X := witems (firstn j lin)) in *.
    assert (length X = wcount (firstn j lin)) as HX by (apply witems_length).
    assert (prefix X W) as PX.
    { exists (witems (skipn j lin)). unfold X. rewrite <- witems_app, firstn_skipn. reflexivity. }
    assert (prefix X L) as PXL.
    { apply (prefix_total X L W PX L_prefix_W). lia. }
    destruct PXL as [c Hc].
    destruct (ores1 r =? 0) eqn:E0.
    + apply Z.eqb_eq in E0. assert (X = []) as EX by (destruct X; [reflexivity | simpl in HX; lia]).
      rewrite R2, EX. reflexivity.
    + apply Z.eqb_neq in E0. assert (X <> []) as NX by (intro EX; rewrite EX in HX; simpl in HX; lia).
      rewrite Hc. replace (ores1 r) with (1 + Z.of_nat (length X) - 1) by lia.
      rewrite (nth_id_app X c 1 NX). rewrite R2. apply Z.eqb_refl.
Qed.

(* ================= the constructed order build h is a linearization (verdict 13 is unreachable) ================= *)
Definition inv_le (a b : op) : Prop := oinv a <= oinv b.

Lemma ins_inv_In o l x : In x (ins_inv o l) <-> x = o \/ In x l.
Proof.
  induction l as [|y r IH]; simpl.
  - split; [intros [E|[]]; left; congruence | intros [E|[]]; left; congruence].
  - destruct (oinv o <=? oinv y); simpl.
    + split; [intros [E|H]; [left; congruence | right; exact H] | intros [E|H]; [left; congruence | right; exact H]].
    + rewrite IH. split.
      * intros [E|[E|H]]; [right; left; exact E | left; exact E | right; right; exact H].
      * intros [E|[E|H]]; [right; left; exact E | left; exact E | right; right; exact H].
Qed.

Lemma sort_inv_In l x : In x (sort_inv l) <-> In x l.
Proof.
  induction l as [|y r IH]; simpl; [tauto|].
  unfold sort_inv in *. simpl. rewrite ins_inv_In, IH. split; intros [E|H]; auto.
Qed.

Lemma ins_inv_perm o l : Permutation (ins_inv o l) (o :: l).
Proof.
  induction l as [|y r IH]; simpl; [apply Permutation_refl|].
  destruct (oinv o <=? oinv y); [apply Permutation_refl|].
  eapply Permutation_trans; [apply perm_skip, IH | apply perm_swap].
Qed.

Lemma sort_inv_perm l : Permutation (sort_inv l) l.
Proof.
  induction l as [|y r IH]; [apply Permutation_refl|].
  unfold sort_inv in *. simpl. eapply Permutation_trans; [apply ins_inv_perm | apply perm_skip, IH].
Qed.

Lemma ins_inv_sorted o l : StronglySorted inv_le l -> StronglySorted inv_le (ins_inv o l).
Proof.
  induction l as [|y r IH]; intros Hs; simpl.
  - constructor; constructor.
  - destruct (oinv o <=? oinv y) eqn:E.
    + apply Z.leb_le in E. constructor; [exact Hs|]. constructor; [exact E|].
      inversion Hs; subst. eapply Forall_impl; [|exact H2]. intros a Ha. unfold inv_le in *. lia.
    + apply Z.leb_gt in E. inversion Hs; subst. constructor; [apply IH, H1|].
      apply Forall_forall. intros a Ha. apply ins_inv_In in Ha. destruct Ha as [Ha|Ha].
      * subst a. unfold inv_le. lia.
      * rewrite Forall_forall in H2. apply H2, Ha.
Qed.

Lemma sort_inv_sorted l : StronglySorted inv_le (sort_inv l).
Proof.
  induction l as [|y r IH]; [constructor|]. unfold sort_inv in *. simpl. apply ins_inv_sorted, IH.
Qed.

Local Notation okreads := (filter (fun o => isR o && isOk o) ops).

Lemma reads_at_In k x :
  In x (reads_at ops k) <-> snd x = 0 /\ In (fst x) okreads /\ ores1 (fst x) = k.
Proof.
  unfold reads_at. rewrite in_map_iff. split.
  - intros [o [E Ho]]. subst x. simpl. apply (proj1 (sort_inv_In _ _)) in Ho. apply filter_In in Ho. destruct Ho as [Ho E].
    rewrite !andb_true_iff in E. destruct E as [[E1 E2] E3]. apply Z.eqb_eq in E3.
    split; [reflexivity|]. split; [|exact E3]. apply filter_In. split; [exact Ho|]. rewrite E1, E2. reflexivity.
  - intros [E0 [Hr Ek]]. destruct x as [o t]. simpl in *. subst t. exists o. split; [reflexivity|].
    apply sort_inv_In. apply filter_In in Hr. destruct Hr as [Ho E]. apply filter_In. split; [exact Ho|].
    rewrite E. simpl. apply Z.eqb_eq. exact Ek.
Qed.

Lemma log_ops_app A : forall B k0,
  log_ops ops k0 (A ++ B) = log_ops ops k0 A ++ log_ops ops (k0 + Z.of_nat (length A)) B.
Proof.
  induction A as [|[id t] A IH]; intros B k0; simpl.
  - replace (k0 + 0) with k0 by lia. reflexivity.
  - rewrite IH. replace (k0 + 1 + Z.of_nat (length A)) with (k0 + Z.pos (Pos.of_succ_nat (length A))) by lia.
    destruct (find_write ops id); reflexivity.
Qed.

Lemma find_write_some id o : find_write ops id = Some o -> In o ops /\ okind o = KWrite /\ oid o = id.
Proof.
  unfold find_write. intros F. apply find_some in F. destruct F as [Ho E].
  apply andb_true_iff in E. destruct E as [E1 E2]. apply isW_true in E1. apply Z.eqb_eq in E2. auto.
Qed.

(* what the elements of build_from are *)
Lemma build_elems Lrest : forall k x, In x (build_from ops k Lrest) ->
  (In (fst x) okreads /\ snd x = 0 /\ k <= ores1 (fst x)) \/
  (okind (fst x) = KWrite /\ In (fst x) ops /\ In (oid (fst x), snd x) Lrest /\
   exists p, k < p /\ In (fst x, p) (log_ops ops (k + 1) Lrest)).
Proof.
  induction Lrest as [|[id t] r IH]; intros k x Hi; simpl in Hi.
  - rewrite app_nil_r in Hi. apply reads_at_In in Hi. destruct Hi as [A [B C]]. left. repeat split; try assumption. lia.
  - apply in_app_or in Hi. destruct Hi as [Hi|Hi].
    + apply reads_at_In in Hi. destruct Hi as [A [B C]]. left. repeat split; try assumption. lia.
    + destruct (find_write ops id) as [o|] eqn:F.
      * destruct Hi as [Hi|Hi].
        -- subst x. simpl. destruct (find_write_some _ _ F) as [A [B C]]. right.
           repeat split; try assumption.
           ++ left. rewrite C. reflexivity.
           ++ exists (k + 1). split; [lia|]. simpl. rewrite F. left. reflexivity.
        -- destruct (IH (k + 1) x Hi) as [[A [B C]]|[A [B [C [p [D E]]]]]].
           ++ left. repeat split; try assumption. lia.
           ++ right. repeat split; try assumption.
              ** right. exact C.
              ** exists p. split; [lia|]. simpl. rewrite F. right. exact E.
      * destruct (IH (k + 1) x Hi) as [[A [B C]]|[A [B [C [p [D E]]]]]].
        -- left. repeat split; try assumption. lia.
        -- right. repeat split; try assumption.
           ** right. exact C.
           ** exists p. split; [lia|]. simpl. rewrite F. exact E.
Qed.

(* ---------- a rank read off the given linearization orders the constructed list ---------- *)
Definition lrank (e : op) (r : Z) : Prop :=
  exists j t, nth_error lin j = Some (e, t) /\
              r = 2 * Z.of_nat (wcount (firstn j lin)) + (if is_write (e, t) then 1 else 0).

Lemma lrank_read e : In e okreads -> lrank e (2 * ores1 e).
Proof.
  intros He. destruct (okread_facts e He) as [_ [K [_ [j [t [Hj E]]]]]]. exists j, t. split; [exact Hj|].
  assert (is_write (e, t) = false) as Wf by (unfold is_write; simpl; rewrite K; reflexivity).
  rewrite Wf. lia.
Qed.

Lemma lrank_write e p : pos_in_lin e p -> lrank e (2 * p - 1).
Proof.
  intros [j [t [Hj [E K]]]]. exists j, t. split; [exact Hj|]. rewrite (proj2 (is_write_kind e t) K). lia.
Qed.

Lemma lrank_rt a ra b rb :
  lrank a ra -> lrank b rb -> oout a = OOk -> oret a < oinv b -> ra <= rb /\ (okind a = KWrite -> ra < rb).
Proof.
  intros [ja [ta [Ha Ea]]] [jb [tb [Hb Eb]]] Hok Hlt.
  assert (ja < jb)%nat as Hj by (apply (lin_rt ja jb (a, ta) (b, tb)); assumption).
  pose proof (wcount_firstn_le lin ja jb ltac:(lia)) as Hle.
  split.
  - destruct (is_write (a, ta)) eqn:Wa.
    + pose proof (wcount_firstn_lt lin ja jb (a, ta) Hj Ha Wa). destruct (is_write (b, tb)); lia.
    + destruct (is_write (b, tb)); lia.
  - intros K. pose proof (wcount_firstn_lt lin ja jb (a, ta) Hj Ha (proj2 (is_write_kind a ta) K)).
    rewrite (proj2 (is_write_kind a ta) K) in Ea. destruct (is_write (b, tb)); lia.
Qed.

Lemma lrank_self a ra : lrank a ra -> oout a = OOk -> ~ oret a < oinv a.
Proof.
  intros [j [t [Hj _]]] Hok Hlt. pose proof (lin_rt j j (a, t) (a, t) Hj Hj Hok Hlt). lia.
Qed.

Definition badb (a b : op * Z) : bool := isOk (fst a) && (oret (fst a) <? oinv (fst b)).

Lemma rt_ok_unfold b r : rt_ok (b :: r) = forallb (fun a => negb (badb a b)) (b :: r) && rt_ok r.
Proof. reflexivity. Qed.

Lemma rt_ok_app_intro A : forall B,
  rt_ok A = true -> rt_ok B = true -> (forall b a, In b A -> In a B -> badb a b = false) -> rt_ok (A ++ B) = true.
Proof.
  induction A as [|b A IH]; intros B HA HB Hc; [exact HB|].
  rewrite rt_ok_unfold in HA. apply andb_true_iff in HA. destruct HA as [HA1 HA2].
  change ((b :: A) ++ B) with (b :: (A ++ B)). rewrite rt_ok_unfold. apply andb_true_iff. split.
  - change (b :: A ++ B) with ((b :: A) ++ B). rewrite forallb_app, HA1. simpl.
    apply forallb_forall. intros a Ha. rewrite (Hc b a (or_introl eq_refl) Ha). reflexivity.
  - apply IH; [exact HA2 | exact HB |]. intros b' a Hb' Ha. apply Hc; [right; exact Hb' | exact Ha].
Qed.

Lemma rt_ok_sorted l :
  StronglySorted inv_le l -> (forall o, In o l -> oout o = OOk -> ~ oret o < oinv o) ->
  rt_ok (map (fun o => (o, 0)) l) = true.
Proof.
  induction 1 as [|b r Hs IH Hall]; intros Hself; [reflexivity|].
  simpl map. rewrite rt_ok_unfold. apply andb_true_iff. split.
  - apply forallb_forall. intros [a ta] Ha. unfold badb. simpl.
    apply negb_true_iff. destruct (isOk a) eqn:Oa; [|reflexivity]. simpl. apply Z.ltb_ge.
    apply isOk_true in Oa.
    change ((b, 0) :: map (fun o => (o, 0)) r) with (map (fun o : op => (o, 0)) (b :: r)) in Ha.
    apply in_map_iff in Ha. destruct Ha as [a' [E Ha]]. inversion E; subst a' ta.
    pose proof (Hself a Ha Oa) as Hs1.
    destruct Ha as [Ha|Ha].
    + subst a. lia.
    + rewrite Forall_forall in Hall. pose proof (Hall a Ha) as Hle. unfold inv_le in Hle. lia.
  - apply IH. intros o Ho. apply Hself. right. exact Ho.
Qed.

Lemma rt_ok_reads k : rt_ok (reads_at ops k) = true.
Proof.
  unfold reads_at. apply rt_ok_sorted; [apply sort_inv_sorted|].
  intros o Ho Hok. apply (proj1 (sort_inv_In _ _)) in Ho.
  assert (In o okreads) as Hr.
  { apply filter_In in Ho. destruct Ho as [Ho E]. rewrite !andb_true_iff in E. destruct E as [[E1 E2] _].
    apply filter_In. split; [exact Ho|]. rewrite E1, E2. reflexivity. }
  apply (lrank_self o _ (lrank_read o Hr) Hok).
Qed.

Lemma build_rank Ldone Lrest x :
  L = Ldone ++ Lrest -> In x (build_from ops (Z.of_nat (length Ldone)) Lrest) ->
  exists r, lrank (fst x) r /\
            ((In (fst x) okreads /\ r = 2 * ores1 (fst x) /\ 2 * Z.of_nat (length Ldone) <= r) \/
             (okind (fst x) = KWrite /\ 2 * Z.of_nat (length Ldone) + 1 <= r)).
Proof.
  intros EL Hi. destruct (build_elems Lrest _ x Hi) as [[A [B C]]|[A [B [C [p [D E]]]]]].
  - exists (2 * ores1 (fst x)). split; [apply lrank_read, A|]. left. repeat split; [exact A | lia].
  - exists (2 * p - 1). split.
    + apply lrank_write, wl_pos. rewrite EL, log_ops_app. apply in_or_app. right.
      replace (1 + Z.of_nat (length Ldone)) with (Z.of_nat (length Ldone) + 1) by lia. exact E.
    + right. split; [exact A | lia].
Qed.

Lemma rt_ok_build Lrest : forall Ldone,
  L = Ldone ++ Lrest -> rt_ok (build_from ops (Z.of_nat (length Ldone)) Lrest) = true.
Proof.
  induction Lrest as [|[id t] r IH]; intros Ldone EL.
  - simpl. rewrite app_nil_r. apply rt_ok_reads.
  - set (k := Z.of_nat (length Ldone)).
    assert (L = (Ldone ++ [(id, t)]) ++ r) as EL' by (rewrite <- app_assoc; exact EL).
    assert (Z.of_nat (length (Ldone ++ [(id, t)])) = k + 1) as Ek by (rewrite app_length; simpl; lia).
    pose proof (IH _ EL') as IHB. rewrite Ek in IHB.
    assert (forall a, In a (build_from ops (k + 1) r) ->
                      exists ra, lrank (fst a) ra /\ 2 * k + 2 <= ra) as RB.
    { intros a Ha. rewrite <- Ek in Ha. destruct (build_rank _ _ a EL' Ha) as [ra [R [[_ [_ Hge]]|[_ Hge]]]];
        exists ra; (split; [exact R | rewrite Ek in Hge; lia]). }
    assert (forall b, In b (reads_at ops k) -> lrank (fst b) (2 * k)) as RA.
    { intros b Hb. apply reads_at_In in Hb. destruct Hb as [_ [Hr Hk]]. rewrite <- Hk. apply lrank_read, Hr. }
    cbn [build_from]. fold k.
    destruct (find_write ops id) as [o|] eqn:F.
    + destruct (find_write_some _ _ F) as [Ho [Ko Io]].
      assert (lrank o (2 * k + 1)) as RO.
      { replace (2 * k + 1) with (2 * (k + 1) - 1) by lia. apply lrank_write, wl_pos.
        rewrite EL, log_ops_app. apply in_or_app. right. cbn [log_ops]. rewrite F. left.
        f_equal. unfold k. ring. }
      apply rt_ok_app_intro.
      * apply rt_ok_reads.
      * rewrite rt_ok_unfold. apply andb_true_iff. split; [|exact IHB].
        apply forallb_forall. intros a Ha. apply negb_true_iff. unfold badb. simpl.
        destruct (isOk (fst a)) eqn:Oa; [|reflexivity]. simpl. apply Z.ltb_ge. apply isOk_true in Oa.
        destruct Ha as [Ha|Ha].
        -- subst a. simpl in *. pose proof (lrank_self o _ RO Oa). lia.
        -- destruct (RB a Ha) as [ra [Ra Hge]].
           destruct (Z_lt_ge_dec (oret (fst a)) (oinv o)) as [Hlt|Hge2]; [|lia].
           destruct (lrank_rt _ _ _ _ Ra RO Oa Hlt) as [Hle _]. lia.
      * intros b a Hb Ha. unfold badb.
        destruct (isOk (fst a)) eqn:Oa; [|reflexivity]. simpl. apply Z.ltb_ge. apply isOk_true in Oa.
        pose proof (RA b Hb) as Rb.
        destruct (Z_lt_ge_dec (oret (fst a)) (oinv (fst b))) as [Hlt|Hge2]; [|lia].
        destruct Ha as [Ha|Ha].
        -- subst a. simpl in *. destruct (lrank_rt _ _ _ _ RO Rb Oa Hlt) as [_ Hs]. specialize (Hs Ko). lia.
        -- destruct (RB a Ha) as [ra [Ra Hge]]. destruct (lrank_rt _ _ _ _ Ra Rb Oa Hlt) as [Hle _]. lia.
    + apply rt_ok_app_intro.
      * apply rt_ok_reads.
      * exact IHB.
      * intros b a Hb Ha. unfold badb.
        destruct (isOk (fst a)) eqn:Oa; [|reflexivity]. simpl. apply Z.ltb_ge. apply isOk_true in Oa.
        pose proof (RA b Hb) as Rb.
        destruct (Z_lt_ge_dec (oret (fst a)) (oinv (fst b))) as [Hlt|Hge2]; [|lia].
        destruct (RB a Ha) as [ra [Ra Hge]]. destruct (lrank_rt _ _ _ _ Ra Rb Oa Hlt) as [Hle _]. lia.
Qed.

(* ---------- the other clauses of check_lin for the constructed list ---------- *)
Lemma okreads_facts2 o : In o okreads -> In o ops /\ okind o = KRead /\ oout o = OOk.
Proof. intros H. destruct (okread_facts o H) as [A [B [C _]]]. auto. Qed.

Lemma witems_reads k : witems (reads_at ops k) = [].
Proof.
  unfold witems. assert (forall x, In x (reads_at ops k) -> is_write x = false) as Hall.
  { intros x Hx. apply reads_at_In in Hx. destruct Hx as [_ [Hr _]]. destruct (okreads_facts2 _ Hr) as [_ [K _]].
    unfold is_write. rewrite K. reflexivity. }
  induction (reads_at ops k) as [|x l IH]; [reflexivity|]. simpl.
  rewrite (Hall x (or_introl eq_refl)). apply IH. intros y Hy. apply Hall. right. exact Hy.
Qed.

Lemma witems_build Lrest : forall k,
  (forall id, In id (map fst Lrest) -> find_write ops id <> None) -> witems (build_from ops k Lrest) = Lrest.
Proof.
  induction Lrest as [|[id t] r IH]; intros k Hf; cbn [build_from]; rewrite witems_app, witems_reads; simpl.
  - reflexivity.
  - destruct (find_write ops id) as [o|] eqn:F.
    + destruct (find_write_some _ _ F) as [_ [K I]].
      assert (witems ((o, t) :: build_from ops (k + 1) r) = (oid o, t) :: witems (build_from ops (k + 1) r)) as EW.
      { unfold witems. simpl. unfold is_write at 1. simpl. rewrite K. reflexivity. }
      rewrite EW, I, IH; [reflexivity|]. intros id' Hi. apply Hf. right. exact Hi.
    + exfalso. apply (Hf id); [left; reflexivity | exact F].
Qed.

Lemma L_found id : In id (map fst L) -> find_write ops id <> None.
Proof.
  intros Hi. pose proof c7 as C. rewrite forallb_forall in C. specialize (C id Hi).
  destruct (find_write ops id); [discriminate | discriminate].
Qed.

Lemma replay_reads rs : forall s rest,
  (forall x, In x rs -> okind (fst x) = KRead /\ ores1 (fst x) = slen s /\ ores2 (fst x) = slast s) ->
  replay_ok s (rs ++ rest) = replay_ok s rest.
Proof.
  induction rs as [|[o t] rs IH]; intros s rest Hall; [reflexivity|].
  destruct (Hall (o, t) (or_introl eq_refl)) as [K [R1 R2]]. simpl in K, R1, R2.
  simpl. rewrite K, R1, R2, !Z.eqb_refl. simpl. apply IH. intros x Hx. apply Hall. right. exact Hx.
Qed.

Lemma slen_rev (X : list item) : slen (rev X) = Z.of_nat (length X).
Proof. unfold slen. rewrite rev_length. reflexivity. Qed.

Lemma replay_build Lrest : forall Ldone,
  L = Ldone ++ Lrest ->
  results_ok ops (Z.of_nat (length Ldone) + 1) (slast (rev Ldone)) Lrest = true ->
  terms_ok ops Lrest = true -> terms_mono (sterm (rev Ldone)) Lrest = true ->
  (forall id, In id (map fst Lrest) -> find_write ops id <> None) ->
  replay_ok (rev Ldone) (build_from ops (Z.of_nat (length Ldone)) Lrest) = true.
Proof.
  induction Lrest as [|[id t] r IH]; intros Ldone EL HR HT HM HF; cbn [build_from].
  - rewrite app_nil_r. rewrite <- (app_nil_r (reads_at ops _)). rewrite replay_reads; [reflexivity|].
    intros x Hx. apply reads_at_In in Hx. destruct Hx as [_ [Hr Hk]].
    destruct (okreads_facts2 _ Hr) as [_ [K _]]. split; [exact K|]. split; [rewrite slen_rev; exact Hk|].
    pose proof c10 as C. rewrite forallb_forall in C. specialize (C _ Hr). rewrite !andb_true_iff in C.
    destruct C as [_ C]. apply Z.eqb_eq in C. rewrite C, Hk.
    destruct Ldone as [|d Ld]; [reflexivity|].
    assert (Z.of_nat (length (d :: Ld)) =? 0 = false) as E0 by (apply Z.eqb_neq; simpl length; lia).
    rewrite E0, EL.
    replace (Z.of_nat (length (d :: Ld))) with (1 + Z.of_nat (length (d :: Ld)) - 1) by lia.
    apply nth_id_app. discriminate.
  - rewrite replay_reads.
    2:{ intros x Hx. apply reads_at_In in Hx. destruct Hx as [_ [Hr Hk]].
        destruct (okreads_facts2 _ Hr) as [_ [K _]]. split; [exact K|]. split; [rewrite slen_rev; exact Hk|].
        pose proof c10 as C. rewrite forallb_forall in C. specialize (C _ Hr). rewrite !andb_true_iff in C.
        destruct C as [_ C]. apply Z.eqb_eq in C. rewrite C, Hk.
        destruct Ldone as [|d Ld]; [reflexivity|].
        assert (Z.of_nat (length (d :: Ld)) =? 0 = false) as E0 by (apply Z.eqb_neq; simpl length; lia).
        rewrite E0, EL.
        replace (Z.of_nat (length (d :: Ld))) with (1 + Z.of_nat (length (d :: Ld)) - 1) by lia.
        apply nth_id_app. discriminate. }
    destruct (find_write ops id) as [o|] eqn:F.
    2:{ exfalso. apply (HF id); [left; reflexivity | exact F]. }
    destruct (find_write_some _ _ F) as [_ [K I]].
    cbn [results_ok terms_ok terms_mono] in HR, HT, HM. rewrite F in HR, HT.
    apply andb_true_iff in HR. destruct HR as [HR1 HR2].
    apply andb_true_iff in HT. destruct HT as [HT1 HT2].
    apply andb_true_iff in HM. destruct HM as [HM1 HM2].
    cbn [replay_ok]. rewrite K. rewrite HM1, HT1. rewrite slen_rev. rewrite HR1. simpl andb.
    assert (L = (Ldone ++ [(id, t)]) ++ r) as EL' by (rewrite <- app_assoc; exact EL).
    assert (Z.of_nat (length (Ldone ++ [(id, t)])) = Z.of_nat (length Ldone) + 1) as Ek
        by (rewrite app_length; simpl; lia).
    assert ((oid o, t) :: rev Ldone = rev (Ldone ++ [(id, t)])) as ER by (rewrite rev_unit, I; reflexivity).
    rewrite ER. rewrite <- Ek. apply (IH (Ldone ++ [(id, t)]) EL').
    + rewrite <- ER. simpl slast. rewrite I. rewrite Ek. exact HR2.
    + exact HT2.
    + rewrite <- ER. simpl sterm. exact HM2.
    + intros id' Hi. apply HF. right. exact Hi.
Qed.

Lemma nodup_app_intro {A} (a b : list A) :
  NoDup a -> NoDup b -> (forall x, In x a -> In x b -> False) -> NoDup (a ++ b).
Proof.
  induction a as [|x a IH]; intros Ha Hb Hd; [exact Hb|]. simpl. inversion Ha; subst. constructor.
  - intro Hi. apply in_app_or in Hi. destruct Hi as [Hi|Hi]; [contradiction|]. apply (Hd x); [left; reflexivity | exact Hi].
  - apply IH; [assumption | assumption |]. intros y Hy1 Hy2. apply (Hd y); [right; exact Hy1 | exact Hy2].
Qed.

Local Notation idof := (fun x : op * Z => oid (fst x)).

Lemma nodup_reads k : NoDup (map idof (reads_at ops k)).
Proof.
  unfold reads_at. rewrite map_map. simpl.
  eapply Permutation_NoDup; [apply Permutation_sym, Permutation_map, sort_inv_perm|].
  apply NoDup_map_filter. exact U.
Qed.

Lemma build_elem_ops Lrest k x : In x (build_from ops k Lrest) -> In (fst x) ops.
Proof.
  intros Hi. destruct (build_elems Lrest k x Hi) as [[A _]|[_ [B _]]]; [|exact B].
  apply (okreads_facts2 _ A).
Qed.

Lemma nodup_build Lrest : forall k, NoDup (map fst Lrest) -> NoDup (map idof (build_from ops k Lrest)).
Proof.
  induction Lrest as [|[id t] r IH]; intros k Hn; cbn [build_from].
  - rewrite app_nil_r. apply nodup_reads.
  - simpl in Hn. inversion Hn; subst.
    assert (forall a x, In a (reads_at ops k) -> In x (build_from ops (k + 1) r) -> idof a = idof x -> False) as D1.
    { intros a x Ha Hx E. apply reads_at_In in Ha. destruct Ha as [_ [Hr Hk]].
      destruct (okreads_facts2 _ Hr) as [Ao [Ka _]].
      pose proof (build_elem_ops _ _ _ Hx) as Xo.
      assert (fst a = fst x) as EQ by (apply ops_inj; assumption).
      destruct (build_elems r _ x Hx) as [[_ [_ C]]|[Kx _]]; [rewrite <- EQ in C; lia | rewrite <- EQ in Kx; congruence]. }
    rewrite map_app. destruct (find_write ops id) as [o|] eqn:F.
    + destruct (find_write_some _ _ F) as [Oo [Ko Io]].
      apply nodup_app_intro; [apply nodup_reads | |].
      * simpl. constructor; [|apply IH, H2].
        intro Hi. apply in_map_iff in Hi. destruct Hi as [x [E Hx]]. simpl in E.
        pose proof (build_elem_ops _ _ _ Hx) as Xo.
        assert (fst x = o) as EQ by (apply ops_inj; assumption).
        destruct (build_elems r _ x Hx) as [[A _]|[_ [_ [C _]]]].
        -- destruct (okreads_facts2 _ A) as [_ [Kx _]]. rewrite EQ in Kx. congruence.
        -- apply H1. apply in_map_iff. exists (oid (fst x), snd x). split; [simpl; rewrite EQ; exact Io | exact C].
      * intros y Hy1 Hy2. apply in_map_iff in Hy1. destruct Hy1 as [a [Ea Ha]].
        simpl in Hy2. destruct Hy2 as [Hy2|Hy2].
        -- pose proof Ha as Ha'. apply reads_at_In in Ha'. destruct Ha' as [_ [Hr _]].
           destruct (okreads_facts2 _ Hr) as [Ao [Ka _]].
           assert (fst a = o) as EQ by (apply ops_inj; [exact Ao | exact Oo | simpl in Ea; rewrite Ea, Hy2; reflexivity]).
           rewrite EQ in Ka. congruence.
        -- apply in_map_iff in Hy2. destruct Hy2 as [x [Ex Hx]]. apply (D1 a x Ha Hx). rewrite Ea, Ex. reflexivity.
    + apply nodup_app_intro; [apply nodup_reads | apply IH, H2 |].
      intros y Hy1 Hy2. apply in_map_iff in Hy1. destruct Hy1 as [a [Ea Ha]].
      apply in_map_iff in Hy2. destruct Hy2 as [x [Ex Hx]]. apply (D1 a x Ha Hx). rewrite Ea, Ex. reflexivity.
Qed.

Lemma op_eqb_refl o : op_eqb o o = true.
Proof.
  unfold op_eqb. rewrite !Z.eqb_refl. destruct (okind o), (oout o); reflexivity.
Qed.

Lemma build_has_read Lrest : forall k0 k x,
  k0 <= k <= k0 + Z.of_nat (length Lrest) -> In x (reads_at ops k) -> In x (build_from ops k0 Lrest).
Proof.
  induction Lrest as [|[id t] r IH]; intros k0 k x Hk Hx; cbn [build_from].
  - simpl in Hk. assert (k = k0) by lia. subst k. rewrite app_nil_r. exact Hx.
  - apply in_or_app. destruct (Z.eq_dec k k0) as [E|E]; [subst k; left; exact Hx|]. right.
    assert (In x (build_from ops (k0 + 1) r)) as Hin by (apply (IH (k0 + 1) k x); [simpl length in Hk; lia | exact Hx]).
    destruct (find_write ops id); [right; exact Hin | exact Hin].
Qed.

Lemma build_has_write Lrest : forall k id t o,
  In (id, t) Lrest -> find_write ops id = Some o -> In (o, t) (build_from ops k Lrest).
Proof.
  induction Lrest as [|[id' t'] r IH]; intros k id t o Hi F; [contradiction|]. cbn [build_from].
  apply in_or_app. right. destruct Hi as [Hi|Hi].
  - inversion Hi; subst id' t'. rewrite F. left. reflexivity.
  - pose proof (IH (k + 1) id t o Hi F) as Hin. destruct (find_write ops id'); [right; exact Hin | exact Hin].
Qed.

Lemma check_lin_build : check_lin h (build h) = true.
Proof.
  unfold check_lin, build. rewrite !andb_true_iff. repeat split.
  - apply nodupZ_complete. apply (nodup_build L 0).
    apply (NoDup_prefix (map fst L) (map fst W)); [apply prefix_map, L_prefix_W | apply W_ids_nodup].
  - apply forallb_forall. intros x Hx. unfold member_ok. rewrite !andb_true_iff. repeat split.
    + apply existsb_exists. exists (fst x). split; [apply (build_elem_ops _ _ _ Hx) | apply op_eqb_refl].
    + apply negb_true_iff. destruct (isDef (fst x)) eqn:D; [|reflexivity]. exfalso. apply isDef_true in D.
      destruct (build_elems L 0 x Hx) as [[A _]|[Kx [Xo [C _]]]].
      * destruct (okreads_facts2 _ A) as [_ [_ Ok]]. congruence.
      * pose proof c6 as C6. rewrite forallb_forall in C6. specialize (C6 _ Xo).
        rewrite (proj2 (isW_true _) Kx), (proj2 (isDef_true _) D) in C6. simpl in C6.
        apply negb_true_iff in C6.
        assert (memZ (oid (fst x)) (map fst L) = true) as M.
        { apply memZ_In. apply in_map_iff. exists (oid (fst x), snd x). split; [reflexivity | exact C]. }
        congruence.
    + destruct (build_elems L 0 x Hx) as [[A _]|[Kx _]].
      * destruct (okreads_facts2 _ A) as [_ [_ Ok]]. rewrite (proj2 (isOk_true _) Ok). apply orb_true_r.
      * unfold isR. rewrite Kx. reflexivity.
  - apply forallb_forall. intros o Ho. unfold acked_in. destruct (isOk o) eqn:Oo; [|reflexivity]. simpl.
    apply isOk_true in Oo. apply existsb_exists. destruct (okind o) eqn:K.
    + pose proof c5 as C5. rewrite forallb_forall in C5. specialize (C5 _ Ho).
      rewrite (proj2 (isW_true _) K), (proj2 (isOk_true _) Oo) in C5. simpl in C5. apply memZ_In in C5.
      apply in_map_iff in C5. destruct C5 as [[id t] [E Hi]]. simpl in E. subst id.
      exists (o, t). split; [|apply op_eqb_refl]. apply (build_has_write L 0 (oid o) t o Hi).
      apply find_write_unique; assumption.
    + assert (In o okreads) as Hr.
      { apply filter_In. split; [exact Ho|]. rewrite (proj2 (isR_true _) K), (proj2 (isOk_true _) Oo). reflexivity. }
      exists (o, 0). split; [|apply op_eqb_refl].
      pose proof c10 as C. rewrite forallb_forall in C. specialize (C _ Hr). rewrite !andb_true_iff in C.
      destruct C as [[C1 C2] _]. apply Z.leb_le in C1, C2.
      apply (build_has_read L 0 (ores1 o)); [lia|]. apply reads_at_In. simpl. repeat split. exact Hr.
  - apply (rt_ok_build L [] eq_refl).
  - destruct c8_14_15 as [C8 [C14 C15]]. apply (replay_build L [] eq_refl); try assumption.
    intros id Hi. apply L_found, Hi.
  - apply forallb_forall. intros S HS. rewrite (witems_build L 0); [|intros id Hi; apply L_found, Hi].
    apply prefixb_complete, state_prefix_L, HS.
Qed.

End Complete.

(* ---------- assembling the verdict ---------- *)
Lemma check_clauses_complete_lemma h :
  NoDup (map oid (hops h)) -> replicated_linearizable h -> check_code h = 1 \/ check_code h = 13.
Proof.
  intros U [lin [HLin [PS [AP AR]]]].
  Ltac feed H := repeat match type of H with ?A -> _ => specialize (H ltac:(assumption)) end.
  pose proof (c2 h) as C2. feed C2. pose proof (c3 h lin) as C3. feed C3. pose proof (c4 h lin) as C4. feed C4.
  pose proof (c5 h lin) as C5. feed C5. pose proof (c6 h lin) as C6. feed C6. pose proof (c7 h lin) as C7. feed C7.
  pose proof (c8_14_15 h lin) as C8. feed C8. destruct C8 as [C8 [C14 C15]].
  pose proof (c9 h lin) as C9. feed C9. pose proof (c10 h lin) as C10. feed C10.
  pose proof (c11 h lin) as C11. feed C11. pose proof (c12 h lin) as C12. feed C12.
  unfold check_code.
  rewrite C2, C3, C4, C5, C6, C7, C8, C9, C10, C11, C12, C14, C15. cbn [negb].
  destruct (check_lin h (build h)); cbn [negb]; [left | right]; reflexivity.
Qed.

Lemma check_history_complete_lemma h :
  NoDup (map oid (hops h)) -> replicated_linearizable h -> check_history h = true.
Proof.
  intros U HR. pose proof (check_clauses_complete_lemma h U HR) as HC.
  destruct HR as [lin [HLin [PS [AP AR]]]].
  pose proof (check_lin_build h lin) as CB. feed CB.
  unfold check_history. destruct HC as [HC|HC]; [rewrite HC; reflexivity|].
  exfalso. revert HC. unfold check_code.
  repeat match goal with
         | |- context [if negb ?c then _ else _] => destruct c; cbn [negb]; try discriminate
         end.
Qed.
