(* C03/LayerCoreExample.v - non-vacuity of the composition: the leader of Raft/LeaderSuffixExample.v (term 2, everything
   committed) receives one Propose request through the layer, a tick passes, the follower's acknowledgement arrives;
   the coupled run exists and the waiter of request 1 is paired with the committed entry of command 43. *)
From Coq Require Import List NArith ZArith Bool.
From BLB Require Import Raft.Core Raft.LeaderSuffix Raft.LeaderSuffixExample C03.Layer C03.LayerCore.
Import ListNotations.

Definition ex_its : list citer := [CProp [mkReq 1 43%Z 0%Z]; CCore ETick; CCore (EDeliver m15)].

Lemma ex_loop_start : loop_start ldr0.
Proof. unfold loop_start. split; [reflexivity|]. split; [reflexivity|]. split; [simpl; auto | reflexivity]. Qed.

Example coupled_run_nonvacuous :
  exists evs l c,
    crun unit (loop_term ldr0) (cstart unit ldr0) ex_its evs (l, c) /\
    tofsm unit l = [(ENormal 43%Z 1, CPending 1)] /\
    map cmd_of (lp_comm c) = [(EntryNormal, [43%Z])] /\ queue unit l = [] /\ length evs = 4%nat.
Proof.
  eexists. eexists. eexists. split; [|split; [|split; [|split]]].
  - unfold ex_its. eapply crun_cons.
    { eapply CSProp.
      - vm_compute. discriminate.
      - apply (loop_step_exec _ (EPropose [e3]) 0%N ldr1); [exact I | vm_compute; reflexivity | reflexivity | reflexivity]. }
    eapply crun_cons.
    { eapply CSCore; [exact I|].
      apply (loop_step_exec _ ETick 0%N ldr2); [exact I | vm_compute; reflexivity | reflexivity | reflexivity]. }
    eapply crun_cons.
    { eapply CSCore; [exact I|].
      apply (loop_step_exec _ (EDeliver m15) 0%N ldr3); [exact I | vm_compute; reflexivity | reflexivity | reflexivity]. }
    apply crun_nil.
  - vm_compute. reflexivity.
  - vm_compute. reflexivity.
  - vm_compute. reflexivity.
  - vm_compute. reflexivity.
Qed.
