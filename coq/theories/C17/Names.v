(* C17/Names.v — RackBasedFailureDomain.GetFailureDomain: the names it produces follow the documented
   convention, are globally unique per physical rack / cluster, and form a nested forest (so that the
   completeness half of the placement theorem applies to every topology this service can produce). *)
From Coq Require Import List Arith ZArith Bool Lia.
From BLB Require Import Lib.Shuffle C17.Model C17.Proofs.
Import ListNotations.

Definition all_digits (s : list Z) : Prop := Forall (fun c => is_digit c = true) s.
(* the letters part of a name: it does not end in a digit *)
Definition no_trailing_digit (s : list Z) : Prop := s = [] \/ is_digit (last s 0%Z) = false.

Lemma trim_digits_only d : all_digits d -> trim_right_digits d = [].
Proof.
  induction 1 as [|c r Hc _ IH]; simpl; auto. rewrite IH, Hc. reflexivity.
Qed.

Lemma trim_nonempty_keeps c r : trim_right_digits r <> [] -> trim_right_digits (c :: r) = c :: trim_right_digits r.
Proof. simpl. destruct (trim_right_digits r); congruence. Qed.

Lemma trim_letters l : no_trailing_digit l -> trim_right_digits l = l.
Proof.
  induction l as [|c r IH]; intros H; simpl; auto.
  destruct r as [|c' r'].
  - simpl. destruct H as [H|H]; [discriminate|]. simpl in H. rewrite H. reflexivity.
  - assert (Hr : no_trailing_digit (c' :: r')).
    { right. destruct H as [H|H]; [discriminate|]. exact H. }
    specialize (IH Hr). rewrite IH. reflexivity.
Qed.

Lemma trim_app l d : all_digits d -> trim_right_digits (l ++ d) = trim_right_digits l.
Proof.
  intros Hd. induction l as [|c r IH]; simpl.
  - apply trim_digits_only; auto.
  - rewrite IH. reflexivity.
Qed.

(* convention "letters ++ digits": the rack name is exactly the letters part *)
Lemma rack_of_convention l d : no_trailing_digit l -> all_digits d -> rack_of (l ++ d) = l.
Proof. intros Hl Hd. unfold rack_of. rewrite trim_app, trim_letters; auto. Qed.

Lemma cluster_of_convention l d : no_trailing_digit l -> all_digits d ->
  cluster_of (l ++ d) = if (2 <? length l)%nat then firstn 2 l else l.
Proof. intros Hl Hd. unfold cluster_of. rewrite rack_of_convention; auto. Qed.

(* every name splits (uniquely) as rack name ++ digits, and the rack name has no trailing digit *)
Lemma trim_split s : exists d, s = trim_right_digits s ++ d /\ all_digits d.
Proof.
  induction s as [|c r IH].
  - exists []. split; [reflexivity|constructor].
  - destruct IH as (d & Hs & Hd). cbn [trim_right_digits].
    destruct (trim_right_digits r) as [|x t] eqn:E.
    + simpl in Hs. subst r. destruct (is_digit c) eqn:Hc.
      * exists (c :: d). split; [reflexivity|constructor; auto].
      * exists d. split; [reflexivity|auto].
    + exists d. split; auto. simpl. f_equal. exact Hs.
Qed.

Lemma trim_no_trailing s : no_trailing_digit (trim_right_digits s).
Proof.
  induction s as [|c r IH]; simpl; [left; auto|].
  destruct (trim_right_digits r) as [|x t] eqn:E.
  - destruct (is_digit c) eqn:Hc; [left; auto|right; simpl; auto].
  - right. destruct IH as [IH|IH]; [discriminate|]. exact IH.
Qed.

(* global uniqueness: two hosts get the same rack name iff their letters parts are equal *)
Lemma rack_unique l1 d1 l2 d2 :
  no_trailing_digit l1 -> all_digits d1 -> no_trailing_digit l2 -> all_digits d2 ->
  (rack_of (l1 ++ d1) = rack_of (l2 ++ d2) <-> l1 = l2).
Proof. intros. rewrite !rack_of_convention; auto. tauto. Qed.

(* nestedness at the level of names: the host determines the rack, the rack determines the cluster *)
Lemma rack_determines_cluster h1 h2 : rack_of h1 = rack_of h2 -> cluster_of h1 = cluster_of h2.
Proof. unfold cluster_of. intros ->. reflexivity. Qed.

(* the cluster name is a prefix of the rack name, the rack name a prefix of the host name *)
Lemma cluster_prefix_of_rack h : exists t, rack_of h = cluster_of h ++ t.
Proof.
  unfold cluster_of. destruct (2 <? length (rack_of h))%nat.
  - exists (skipn 2 (rack_of h)). symmetry. apply firstn_skipn.
  - exists []. rewrite app_nil_r. reflexivity.
Qed.
Lemma rack_prefix_of_host h : exists d, h = rack_of h ++ d /\ all_digits d.
Proof. apply trim_split. Qed.

(* ---------- the chains of any host list, through ANY injective naming of strings, are a uniform nested forest ---------- *)
Section Encoded.
  Variable enc : list Z -> N.
  Hypothesis enc_inj : forall a b, enc a = enc b -> a = b.

  Definition gfd_chain (h : list Z) : chain := map enc (gfd h).

  Lemma gfd_chain_nth h : forall L, (L < 3)%nat -> nth L (gfd_chain h) 0%N = enc (nth L (gfd h) []).
  Proof.
    intros L HL. unfold gfd_chain, gfd. destruct L as [|[|[|L]]]; simpl; auto; lia.
  Qed.

  Lemma gfd_topo_nested hosts : topo_nested (map gfd_chain hosts) = true.
  Proof.
    unfold topo_nested. apply forallb_forall. intros c1 H1. apply forallb_forall. intros c2 H2.
    apply in_map_iff in H1 as (h1 & <- & _). apply in_map_iff in H2 as (h2 & <- & _).
    apply forallb_forall. intros L HL. apply in_seq in HL.
    assert (Hn : (nlevels (map gfd_chain hosts) <= 3)%nat).
    { unfold nlevels. destruct hosts; simpl; lia. }
    assert (HL3 : (S L < 3)%nat) by lia.
    rewrite !gfd_chain_nth by lia.
    destruct (N.eqb_spec (enc (nth L (gfd h1) [])) (enc (nth L (gfd h2) []))) as [E|E]; cbn [implb]; auto.
    apply N.eqb_eq. apply enc_inj in E. f_equal.
    destruct L as [|[|L]]; cbn [nth gfd] in *.
    - rewrite E. reflexivity.
    - apply rack_determines_cluster; auto.
    - lia.
  Qed.

  Lemma gfd_topo_uniform hosts : NoDup hosts -> topo_uniform (map gfd_chain hosts) = true.
  Proof.
    intros Hnd. unfold topo_uniform. rewrite !andb_true_iff. repeat split.
    - apply forallb_forall. intros c Hc. apply in_map_iff in Hc as (h & <- & Hin).
      unfold nlevels. destruct hosts; [inversion Hin|reflexivity].
    - rewrite map_map. simpl.
      apply distinctb_NoDup. apply FinFun.Injective_map_NoDup; auto.
    - apply forallb_forall. intros c Hc. apply in_map_iff in Hc as (h & <- & _). reflexivity.
  Qed.
End Encoded.
