(* C17/Top.v — the functional model, started from monitor data and the failure-domain service's answer,
   meets the relational specification that the correspondence harness applies to the real allocateTS. *)
From Coq Require Import List Arith NArith ZArith Bool Lia Permutation.
From BLB Require Import Lib.Shuffle C17.Model C17.Proofs C17.Index C17.Spread.
Import ListNotations.
Open Scope N_scope.

(* ---------- chain_of / topo facts ---------- *)
Lemma chain_of_hd topo h : In h (map (hd 0) topo) -> Forall (fun c => c <> []) topo ->
  hd 0 (chain_of topo h) = h /\ In (chain_of topo h) topo.
Proof.
  intros Hin Hne. unfold chain_of.
  destruct (find (fun c => match c with x :: _ => N.eqb x h | [] => false end) topo) as [c|] eqn:Hf.
  - apply find_some in Hf as [Hc Hx]. destruct c as [|x t]; [discriminate|]. apply N.eqb_eq in Hx. subst. auto.
  - exfalso. apply in_map_iff in Hin as (c & Hc & Hcin).
    pose proof (find_none _ _ Hf c Hcin) as Hn. simpl in Hn.
    rewrite Forall_forall in Hne. specialize (Hne c Hcin).
    destruct c as [|x t]; [congruence|]. simpl in Hc. subst. rewrite N.eqb_refl in Hn. discriminate.
Qed.

Definition topo_wf (topo : list chain) : Prop := topo_uniform topo = true.

Lemma topo_uniform_spec topo : topo_uniform topo = true ->
  Forall (fun c => length c = nlevels topo) topo /\ NoDup (map (hd 0) topo) /\ Forall (fun c => c <> []) topo.
Proof.
  unfold topo_uniform. rewrite !andb_true_iff. intros [[H1 H2] H3]. repeat split.
  - apply Forall_forall. intros c Hc. rewrite forallb_forall in H1. apply Nat.eqb_eq. auto.
  - apply distinctb_NoDup. exact H2.
  - apply Forall_forall. intros c Hc. rewrite forallb_forall in H3. specialize (H3 c Hc). destruct c; congruence.
Qed.

Lemma topo_nested_spec topo : topo_nested topo = true ->
  forall c1 c2 L, In c1 topo -> In c2 topo -> (S L < nlevels topo)%nat ->
                  nth L c1 0 = nth L c2 0 -> nth (S L) c1 0 = nth (S L) c2 0.
Proof.
  unfold topo_nested. intros H c1 c2 L H1 H2 HL Heq.
  rewrite forallb_forall in H. specialize (H c1 H1). rewrite forallb_forall in H. specialize (H c2 H2).
  rewrite forallb_forall in H. specialize (H L).
  assert (In L (seq 0 (pred (nlevels topo)))). { apply in_seq. lia. }
  specialize (H H0). cbv beta in H.
  match type of H with implb ?a ?b = true => assert (Ha : a = true) by (apply N.eqb_eq; exact Heq); rewrite Ha in H end.
  simpl in H. apply N.eqb_eq in H. exact H.
Qed.

Lemma nonempty_in {A} (l : list A) : l <> [] -> exists x, In x l.
Proof. destruct l as [|x r]; [congruence|]. intros _. exists x. left. reflexivity. Qed.

Section Top.
  Variable topo : list chain.
  Variable cands cands' ex0 down : list host.
  Hypothesis Hu : topo_uniform topo = true.
  Hypothesis Hc : forall h, In h cands -> In h (map (hd 0) topo).
  Hypothesis Hnd : NoDup cands.
  Hypothesis Hperm : Permutation cands' cands.
  Hypothesis Hne : cands <> [].
  (* the failure-domain service knows the existing holders too *)
  Hypothesis Hex : forall e, In e ex0 -> In e (map (hd 0) topo).

  Let n := nlevels topo.
  Let cs := map (chain_of topo) cands'.
  Let idx := build_index cs.

  Lemma cands'_in h : In h cands' <-> In h cands.
  Proof. split; apply Permutation_in; [|apply Permutation_sym]; auto. Qed.

  Lemma heads_cs : map (hd 0) cs = cands'.
  Proof.
    unfold cs. rewrite map_map. destruct (topo_uniform_spec topo Hu) as (_ & _ & Hnonempty).
    rewrite <- (map_id cands') at 2. apply map_ext_in. intros h Hh.
    apply chain_of_hd; auto. apply Hc. apply cands'_in; auto.
  Qed.

  Lemma n_pos : n <> 0%nat.
  Proof.
    unfold n. destruct (topo_uniform_spec topo Hu) as (Hl & _ & Hnonempty).
    destruct (nonempty_in cands Hne) as [h Hh].
    assert (Hin : In h (map (hd 0) topo)) by (apply Hc; auto).
    destruct (chain_of_hd topo h Hin Hnonempty) as [_ Hct].
    rewrite Forall_forall in Hl, Hnonempty. specialize (Hl _ Hct). specialize (Hnonempty _ Hct).
    destruct (chain_of topo h); [congruence|]. simpl in Hl. lia.
  Qed.

  Lemma cs_ok : chains_ok cs n.
  Proof.
    destruct (topo_uniform_spec topo Hu) as (Hl & _ & Hnonempty).
    split; [apply n_pos|]. split.
    - unfold cs. apply Forall_forall. intros c Hcin. apply in_map_iff in Hcin as (h & <- & Hh).
      rewrite Forall_forall in Hl. apply Hl. apply chain_of_hd; auto. apply Hc, cands'_in; auto.
    - rewrite heads_cs. eapply Permutation_NoDup; [apply Permutation_sym; eauto|auto].
  Qed.

  Lemma cs_nonempty : cs <> [].
  Proof.
    unfold cs. destruct cands' eqn:E; [|simpl; congruence].
    apply Permutation_nil in Hperm. congruence.
  Qed.

  Lemma idx_len : length idx = n.
  Proof. apply build_index_length; [apply cs_ok|apply cs_nonempty]. Qed.

  Lemma idx_level_ok L : (L < n)%nat -> level_ok cands (nth L idx []).
  Proof.
    intros HL. pose proof (build_index_level_ok cs n L cs_ok HL) as [H1 H2]. rewrite heads_cs in H2.
    split; auto. intros h. split; intros Hh.
    - apply cands'_in. apply H2. exact Hh.
    - apply H2. apply cands'_in. exact Hh.
  Qed.

  Lemma idx_all_ok : Forall (level_ok cands) idx.
  Proof.
    apply Forall_forall. intros l Hl. apply In_nth with (d := []) in Hl as (L & HL & <-).
    rewrite idx_len in HL. apply idx_level_ok; auto.
  Qed.

  Lemma idx_key L k hs h : (L < n)%nat -> In (k, hs) (nth L idx []) -> In h hs -> dom topo L h = k.
  Proof.
    intros HL Hin Hh. destruct (build_index_entry cs n L k hs h cs_ok HL Hin Hh) as (c & Hcin & Hhd & Hk).
    unfold cs in Hcin. apply in_map_iff in Hcin as (h' & <- & Hh').
    destruct (topo_uniform_spec topo Hu) as (_ & _ & Hnonempty).
    destruct (chain_of_hd topo h' (Hc _ (proj1 (cands'_in h') Hh')) Hnonempty) as [Hhd' _].
    rewrite Hhd' in Hhd. subst h'. unfold dom. exact Hk.
  Qed.

  Lemma idx_knd L : (L < n)%nat -> NoDup (map fst (nth L idx [])).
  Proof. intros HL. apply (build_index_keys_nodup cs n L cs_ok HL). Qed.

  Lemma known_in_topo h : known cands ex0 h -> In h (map (hd 0) topo).
  Proof. intros [H|H]; auto. Qed.

  Lemma nest_dom : topo_nested topo = true ->
    forall L x y, (S L < n)%nat -> known cands ex0 x -> known cands ex0 y ->
                  dom topo L x = dom topo L y -> dom topo (S L) x = dom topo (S L) y.
  Proof.
    intros Hn L x y HL Hx Hy Heq. unfold dom in *.
    destruct (topo_uniform_spec topo Hu) as (_ & _ & Hnonempty).
    apply (topo_nested_spec topo Hn); auto; apply chain_of_hd; auto; apply known_in_topo; auto.
  Qed.

  Lemma ex_chain_len e : In e ex0 -> length (chain_of topo e) = n.
  Proof.
    intros He. destruct (topo_uniform_spec topo Hu) as (Hl & _ & Hnonempty).
    rewrite Forall_forall in Hl. apply Hl. apply chain_of_hd; auto.
  Qed.

  Lemma top_sound exch num o perms R :
    allocate idx num exch ex0 down o perms = Some R ->
    length R = num /\ NoDup R /\ (forall r, In r R -> In r cands /\ ~ In r ex0 /\ ~ In r down).
  Proof. apply alloc_sound_lemma. apply idx_all_ok. Qed.

  Lemma top_spread num o perms R :
    topo_nested topo = true ->
    allocate idx num (map (chain_of topo) ex0) ex0 down o perms = Some R ->
    forallb (spread_level topo cands ex0 down R) (seq 0 n) = true.
  Proof.
    intros Hn Ha. apply forallb_forall. intros L HL. apply in_seq in HL.
    apply (alloc_spread_section topo cands ex0 down (map (chain_of topo) ex0) n idx idx_len idx_level_ok idx_key idx_knd
                                (nest_dom Hn) eq_refl ex_chain_len num o perms R Ha). lia.
  Qed.
  Lemma dom0_known h : known cands ex0 h -> dom topo 0 h = h.
  Proof.
    intros Hk. destruct (topo_uniform_spec topo Hu) as (_ & _ & Hnonempty).
    destruct (chain_of_hd topo h (known_in_topo h Hk) Hnonempty) as [Hhd _].
    unfold dom. destruct (chain_of topo h); simpl in *; auto.
  Qed.

  Lemma top_complete num o perms :
    topo_nested topo = true -> (0 < num)%nat ->
    allocate idx num (map (chain_of topo) ex0) ex0 down o perms = None ->
    (length (eligible_hosts cands ex0 down) < num)%nat.
  Proof.
    intros Hn Hnum Ha.
    apply (alloc_complete_section topo cands ex0 down (map (chain_of topo) ex0) n idx idx_len idx_level_ok idx_key idx_knd
                                  (nest_dom Hn) eq_refl ex_chain_len dom0_known Hnd num o perms); auto.
    pose proof n_pos. lia.
  Qed.
End Top.

(* ---------- verdict of the model's own results ---------- *)
Lemma verdict_some_ok topo cands cands' ex0 down num o perms R :
  topo_uniform topo = true -> (forall h, In h cands -> In h (map (hd 0) topo)) -> NoDup cands ->
  Permutation cands' cands ->
  (forall e, In e ex0 -> In e (map (hd 0) topo)) ->
  allocate (build_index (map (chain_of topo) cands')) num (map (chain_of topo) ex0) ex0 down o perms = Some R ->
  alloc_verdict topo cands ex0 down num false (Some R) = V_OK.
Proof.
  intros Hu Hc Hnd Hperm Hex Ha.
  destruct cands as [|c0 ct] eqn:Ec.
  - (* no candidates: the index is empty, only num = 0 can succeed *)
    apply Permutation_sym, Permutation_nil in Hperm. subst cands'. simpl in Ha. unfold allocate in Ha. simpl in Ha.
    destruct num; [|discriminate]. inversion Ha; subst. unfold alloc_verdict. simpl.
    destruct (topo_uniform topo && topo_nested topo) eqn:E; simpl; auto.
    assert (forallb (spread_level topo [] ex0 down []) (seq 0 (nlevels topo)) = true).
    { apply forallb_forall. intros L _. unfold spread_level. simpl. reflexivity. }
    match goal with |- context[negb ?a] => replace a with true by (symmetry; exact H) end. reflexivity.
  - rewrite <- Ec in *.
    assert (Hne : cands <> []) by (rewrite Ec; discriminate).
    destruct (top_sound topo cands cands' ex0 down Hu Hc Hnd Hperm Hne _ num o perms R Ha) as (Hl & Hd & Hr).
    unfold alloc_verdict. simpl.
    rewrite Hl, Nat.eqb_refl. simpl.
    assert (Hdb : distinctb R = true) by (apply distinctb_NoDup; auto). rewrite Hdb. simpl.
    assert (Hcb : forallb (fun h => mem h cands) R = true).
    { apply forallb_forall. intros r Hrin. apply mem_In. apply Hr; auto. }
    rewrite Hcb. simpl.
    assert (Heb : existsb (fun h => mem h ex0 || mem h down) R = false).
    { destruct (existsb (fun h => mem h ex0 || mem h down) R) eqn:E; auto.
      apply existsb_exists in E as (r & Hrin & Hm). destruct (Hr r Hrin) as (_ & H1 & H2).
      apply orb_true_iff in Hm as [Hm|Hm]; apply mem_In in Hm; tauto. }
    rewrite Heb.
    destruct (topo_uniform topo && topo_nested topo) eqn:E; simpl; auto.
    apply andb_true_iff in E as [_ Hn].
    rewrite (top_spread topo cands cands' ex0 down Hu Hc Hnd Hperm Hne Hex num o perms R Hn Ha). reflexivity.
Qed.

Lemma verdict_none_ok topo cands cands' ex0 down num o perms :
  topo_uniform topo = true -> (forall h, In h cands -> In h (map (hd 0) topo)) -> NoDup cands ->
  Permutation cands' cands ->
  (forall e, In e ex0 -> In e (map (hd 0) topo)) -> topo_nested topo = true ->
  allocate (build_index (map (chain_of topo) cands')) num (map (chain_of topo) ex0) ex0 down o perms = None ->
  alloc_verdict topo cands ex0 down num false None = V_OK.
Proof.
  intros Hu Hc Hnd Hperm Hex Hn Ha. unfold alloc_verdict.
  destruct num as [|num']; [rewrite !andb_false_r; reflexivity|].
  destruct cands as [|c0 ct] eqn:Ec.
  - reflexivity.
  - rewrite <- Ec in *.
    assert (Hne : cands <> []) by (rewrite Ec; discriminate).
    pose proof (top_complete topo cands cands' ex0 down Hu Hc Hnd Hperm Hne Hex (S num') o perms Hn (Nat.lt_0_succ _) Ha) as Hlt.
    assert (Hleb : Nat.leb (S num') (length (eligible_hosts cands ex0 down)) = false) by (apply Nat.leb_gt; exact Hlt).
    rewrite Hleb. reflexivity.
Qed.

Lemma verdict_model_ok topo cands cands' ex0 down num o perms :
  topo_uniform topo = true -> (forall h, In h cands -> In h (map (hd 0) topo)) -> NoDup cands ->
  Permutation cands' cands ->
  (forall e, In e ex0 -> In e (map (hd 0) topo)) -> topo_nested topo = true ->
  alloc_verdict topo cands ex0 down num false
    (allocate (build_index (map (chain_of topo) cands')) num (map (chain_of topo) ex0) ex0 down o perms) = V_OK.
Proof.
  intros Hu Hc Hnd Hperm Hex Hn.
  destruct (allocate (build_index (map (chain_of topo) cands')) num (map (chain_of topo) ex0) ex0 down o perms) as [R|] eqn:Ha.
  - eapply verdict_some_ok; eauto.
  - eapply verdict_none_ok; eauto.
Qed.

(* ---------- a concrete witness for the finding, and non-vacuity ---------- *)
Definition w_topo : list chain :=
  [[1; 100001; 200001; 300008]; [2; 100001; 200001; 300008]; [3; 100007; 200002; 300003]; [4; 100001; 200001; 300008]].
Definition w_cfg : moncfg := {| now := 100%Z; start := 0%Z; grace := 10%Z; unhealthy_thr := 20%Z; min_avail := 1000 |}.
Definition w_tss : list tsdata :=
  [ {| ts_addr := 1; ts_beaten := true; ts_last := 95%Z; ts_avail := 5000 |};
    {| ts_addr := 2; ts_beaten := true; ts_last := 95%Z; ts_avail := 1000 |};   (* healthy but full: not a candidate *)
    {| ts_addr := 3; ts_beaten := true; ts_last := 95%Z; ts_avail := 5000 |};
    {| ts_addr := 4; ts_beaten := true; ts_last := 95%Z; ts_avail := 5000 |} ].

(* without the explicit failure-domain lookup for existing holders (exchains = [] is the algorithm as it was
   before the repair) the spread clause fails; with it, the same input is placed in the other rack *)
Lemma hidden_existing_witness :
  exists topo cfg tss num existing down o perms R R',
    topo_uniform topo = true /\ topo_nested topo = true /\
    allocate (build_index (map (chain_of topo) (candidates cfg tss))) num [] existing down o perms = Some R /\
    alloc_verdict topo (candidates cfg tss) existing down num false (Some R) = V_SPREAD_HIDDEN_EXISTING /\
    allocate_from_monitor cfg tss topo [] num existing down o perms = Some R' /\
    alloc_verdict topo (candidates cfg tss) existing down num false (Some R') = V_OK.
Proof.
  exists w_topo, w_cfg, w_tss, 1%nat, [2], [], [0], [], [1], [3]. vm_compute. repeat split; reflexivity.
Qed.

(* non-vacuity: a 3-level nested forest, 7 candidates, one existing holder (a candidate), one server being
   replaced; three servers are requested and land in three different racks of two clusters *)
Definition nv_topo : list chain :=
  [[1; 101; 201]; [2; 101; 201]; [3; 102; 201]; [4; 102; 201]; [5; 103; 202]; [6; 103; 202]; [7; 104; 202]].
Definition nv_cands : list host := [1; 2; 3; 4; 5; 6; 7].
Example nv_hyps :
  topo_uniform nv_topo = true /\ topo_nested nv_topo = true /\ NoDup nv_cands /\
  all_existing_visible nv_cands [1] = true /\
  allocate (build_index (map (chain_of nv_topo) nv_cands)) 3 (map (chain_of nv_topo) [1]) [1] [5] [4; 1; 0; 2] [] = Some [6; 4; 7].
Proof.
  split; [vm_compute; reflexivity|]. split; [vm_compute; reflexivity|].
  split; [apply distinctb_NoDup; vm_compute; reflexivity|]. split; vm_compute; reflexivity.
Qed.
