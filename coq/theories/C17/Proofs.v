(* C17/Proofs.v — lemmas about the placement model. *)
From Coq Require Import List Arith NArith ZArith Bool Lia Permutation.
From BLB Require Import Lib.Shuffle C17.Model.
Import ListNotations.
Open Scope N_scope.

(* ---------- small list facts ---------- *)
Lemma mem_In x l : mem x l = true <-> In x l.
Proof.
  unfold mem. rewrite existsb_exists. split.
  - intros [y [Hy He]]. apply N.eqb_eq in He. subst; auto.
  - intros H. exists x. split; auto. apply N.eqb_refl.
Qed.

Lemma mem_false x l : mem x l = false <-> ~ In x l.
Proof. rewrite <- mem_In. destruct (mem x l); split; congruence || tauto. Qed.

Lemma NoDup_app_iff {A} (a b : list A) :
  NoDup (a ++ b) <-> NoDup a /\ NoDup b /\ (forall x, In x a -> ~ In x b).
Proof.
  induction a as [|x a IH]; simpl.
  - split; [intros H; repeat split; auto; constructor | tauto].
  - split.
    + intros H. inversion H as [|? ? Hn Hd]; subst. apply IH in Hd as (Ha & Hb & Hab).
      repeat split; auto.
      * constructor; auto. intros Hx. apply Hn, in_or_app; auto.
      * intros y [->|Hy]; auto. intros Hyb. apply Hn, in_or_app; auto.
    + intros (Ha & Hb & Hab). inversion Ha as [|? ? Hn Hd]; subst. constructor.
      * intros Hx. apply in_app_or in Hx as [Hx|Hx]; auto. apply (Hab x); auto.
      * apply IH. repeat split; auto.
Qed.

Lemma distinctb_NoDup l : distinctb l = true <-> NoDup l.
Proof.
  induction l as [|x l IH]; simpl.
  - split; auto. constructor.
  - rewrite andb_true_iff, negb_true_iff, mem_false, IH. split.
    + intros [? ?]; constructor; auto.
    + intros H; inversion H; auto.
Qed.

(* ---------- selection of hosts from distinct domains ---------- *)
Inductive sel : list host -> list (list host) -> Prop :=
| sel_nil pool : sel [] pool
| sel_cons h hs a b xs : In h hs -> sel xs (a ++ b) -> sel (h :: xs) (a ++ hs :: b).

Lemma sel_length xs pool : sel xs pool -> (length xs <= length pool)%nat.
Proof.
  induction 1; simpl; [lia|]. rewrite app_length in *. simpl. lia.
Qed.

Lemma sel_in xs pool : sel xs pool -> forall x, In x xs -> exists hs, In hs pool /\ In x hs.
Proof.
  induction 1 as [|h hs a b xs Hh Hs IH]; simpl; [tauto|].
  intros x [<-|Hx].
  - exists hs. split; auto. apply in_or_app. right; left; auto.
  - destruct (IH x Hx) as (hs' & Hin & Hx'). exists hs'. split; auto.
    apply in_app_or in Hin as [?|?]; apply in_or_app; [left|right; right]; auto.
Qed.

Lemma concat_app_cons {A} (a : list (list A)) hs b : concat (a ++ hs :: b) = concat a ++ hs ++ concat b.
Proof. rewrite concat_app. reflexivity. Qed.

Lemma sel_NoDup xs pool : sel xs pool -> NoDup (concat pool) -> NoDup xs.
Proof.
  induction 1 as [|h hs a b xs Hh Hs IH]; intros Hnd; [constructor|].
  rewrite concat_app_cons in Hnd.
  apply NoDup_app_iff in Hnd as (Ha & Hhb & Hab).
  apply NoDup_app_iff in Hhb as (Hhs & Hb & Hhsb).
  constructor.
  - intros Hx. destruct (sel_in _ _ Hs _ Hx) as (hs' & Hin & Hx').
    apply in_app_or in Hin as [Hin|Hin].
    + apply (Hab h); [apply in_concat; eauto | apply in_or_app; auto].
    + apply (Hhsb h); auto. apply in_concat; eauto.
  - apply IH. rewrite concat_app. apply NoDup_app_iff. repeat split; auto.
    intros x Hxa Hxb. apply (Hab x); auto. apply in_or_app; auto.
Qed.

Lemma in_concat_mid {A} (a b : list (list A)) hs z :
  In z (concat (a ++ b)) -> In z (concat (a ++ hs :: b)).
Proof.
  rewrite !concat_app. simpl. rewrite !in_app_iff. tauto.
Qed.

Lemma split_mid {A} (a b a' b' : list (list A)) hs hs' :
  a ++ b = a' ++ hs' :: b' ->
  exists (a2 b2 : list (list A)), a ++ hs :: b = a2 ++ hs' :: b2 /\
                (forall z, In z (concat (a' ++ b')) -> In z (concat (a2 ++ b2))).
Proof.
  revert a'. induction a as [|a0 a IHa]; intros a' Heq; simpl in *.
  - subst b. exists (hs :: a'), b'. split; auto. intros z Hz.
    change (In z (concat ([] ++ hs :: (a' ++ b')))). apply in_concat_mid. auto.
  - destruct a' as [|a0' a']; simpl in Heq.
    + inversion Heq; subst. exists [], (a ++ hs :: b). split; auto. intros z Hz. simpl in *.
      apply in_concat_mid; auto.
    + inversion Heq; subst. destruct (IHa a' H1) as (a2 & b2 & He & Hsub).
      exists (a0' :: a2), b2. split; [simpl; f_equal; auto|].
      intros z Hz. simpl in *. rewrite in_app_iff in *. destruct Hz; auto.
Qed.

(* distinct domains: a function that is constant on each pool entry and separates entries
   takes distinct values on a selection *)
Lemma sel_distinct_images (f : host -> N) xs pool :
  sel xs pool ->
  (forall hs x y, In hs pool -> In x hs -> In y hs -> f x = f y) ->
  (forall a hs b x y, pool = a ++ hs :: b -> In x hs -> In y (concat (a ++ b)) -> f x <> f y) ->
  NoDup (map f xs).
Proof.
  induction 1 as [|h hs a b xs Hh Hs IH]; intros Hconst Hsep; simpl; [constructor|].
  constructor.
  - intros Hin. apply in_map_iff in Hin as (y & Hfy & Hy).
    destruct (sel_in _ _ Hs _ Hy) as (hs' & Hin' & Hy').
    apply (Hsep a hs b h y eq_refl Hh); [apply in_concat; eauto | auto].
  - apply IH.
    + intros hs' x y Hin. apply Hconst. apply in_app_or in Hin as [?|?]; apply in_or_app; [left|right;right]; auto.
    + intros a' hs' b' x y Heq Hx Hy.
      (* hs' is an entry of a ++ b, so it is an entry of the big pool at some position *)
      assert (Hsplit : exists a2 b2, a ++ hs :: b = a2 ++ hs' :: b2 /\
                                     (forall z, In z (concat (a' ++ b')) -> In z (concat (a2 ++ b2)))).
      { clear - Heq. eapply split_mid; eauto. }
      destruct Hsplit as (a2 & b2 & He & Hsub).
      apply (Hsep a2 hs' b2 x y He Hx). apply Hsub; auto.
Qed.

(* ---------- pool_of ---------- *)
Lemma pool_of_spec existing down doms p :
  In p (pool_of existing down doms) ->
  exists d, In d doms /\ p = filter (fun h => negb (mem h down)) d /\ p <> [] /\
            (forall e, In e existing -> ~ In e d).
Proof.
  unfold pool_of. rewrite in_flat_map. intros (d & Hd & Hp).
  destruct (existsb (fun ex => mem ex d) existing) eqn:He; [destruct Hp|].
  destruct (filter (fun h => negb (mem h down)) d) eqn:Hf; [destruct Hp|].
  destruct Hp as [Hp|[]]. exists d. rewrite Hf. subst p. split; [auto|]. split; [auto|]. split; [congruence|].
  intros e Hee Hed.
  assert (existsb (fun ex => mem ex d) existing = true); [|congruence].
  apply existsb_exists. exists e. split; auto. apply mem_In; auto.
Qed.

Definition pool_entry (existing down : list host) (hosts : list host) : list (list host) :=
  if existsb (fun ex => mem ex hosts) existing then []
  else match filter (fun h => negb (mem h down)) hosts with
       | [] => []
       | c => [c]
       end.

Lemma pool_of_cons existing down d doms :
  pool_of existing down (d :: doms) = pool_entry existing down d ++ pool_of existing down doms.
Proof. reflexivity. Qed.

Lemma pool_entry_concat existing down d :
  concat (pool_entry existing down d) =
  if existsb (fun ex => mem ex d) existing then [] else filter (fun h => negb (mem h down)) d.
Proof.
  unfold pool_entry. destruct (existsb (fun ex => mem ex d) existing); [reflexivity|].
  destruct (filter (fun h => negb (mem h down)) d); simpl; rewrite ?app_nil_r; reflexivity.
Qed.

Lemma pool_of_concat_sub existing down doms x :
  In x (concat (pool_of existing down doms)) -> In x (concat doms).
Proof.
  induction doms as [|d doms IH]; [simpl; auto|].
  rewrite pool_of_cons, concat_app, pool_entry_concat. simpl. rewrite !in_app_iff.
  intros [H|H]; [left|right; auto].
  destruct (existsb (fun ex => mem ex d) existing); [destruct H|]. apply filter_In in H as [H _]; auto.
Qed.

Lemma pool_of_NoDup existing down doms :
  NoDup (concat doms) -> NoDup (concat (pool_of existing down doms)).
Proof.
  induction doms as [|d doms IH]; intros H; [constructor|].
  simpl in H. apply NoDup_app_iff in H as (Hd & Hr & Hdr).
  rewrite pool_of_cons, concat_app, pool_entry_concat.
  apply NoDup_app_iff. split; [|split; [auto|]].
  - destruct (existsb (fun ex => mem ex d) existing); [constructor|]. apply NoDup_filter; auto.
  - intros x Hx Hx'. apply pool_of_concat_sub in Hx'.
    destruct (existsb (fun ex => mem ex d) existing); [destruct Hx|]. apply filter_In in Hx as [Hx _].
    apply (Hdr x); auto.
Qed.

Lemma pool_of_nonempty existing down doms : Forall (fun p => p <> []) (pool_of existing down doms).
Proof.
  apply Forall_forall. intros p Hp. apply pool_of_spec in Hp as (d & _ & _ & Hne & _). auto.
Qed.

(* ---------- the two pickers ---------- *)
Lemma draw_lt o n : n <> 0 -> fst (draw o n) < n.
Proof.
  intros Hn. destruct o; simpl; [lia|]. apply N.mod_lt; auto.
Qed.

Lemma one_from_each_sel pool o :
  Forall (fun p => p <> []) pool -> sel (fst (one_from_each pool o)) pool /\
                                     length (fst (one_from_each pool o)) = length pool.
Proof.
  revert o. induction pool as [|hs rest IH]; intros o Hne; simpl; [split; auto; constructor|].
  inversion Hne as [|? ? Hhs Hrest]; subst.
  destruct (draw o (N.of_nat (length hs))) as [i o1] eqn:Hd.
  destruct (one_from_each rest o1) as [r o2] eqn:Hr. simpl.
  specialize (IH o1 Hrest). rewrite Hr in IH. simpl in IH. destruct IH as [IH1 IH2].
  split; [|simpl; congruence].
  apply (sel_cons _ hs [] rest); auto.
  apply nth_In.
  assert (fst (draw o (N.of_nat (length hs))) < N.of_nat (length hs)).
  { apply draw_lt. destruct hs; simpl; [congruence|lia]. }
  rewrite Hd in H. simpl in H. lia.
Qed.

Lemma pick_at_spec pool i h pool' :
  pick_at pool i = Some (h, pool') ->
  exists a hs b, pool = a ++ hs :: b /\ pool' = a ++ b /\ In h hs.
Proof.
  revert i h pool'. induction pool as [|hs rest IH]; intros i h pool' H; simpl in H; [discriminate|].
  destruct (i <? N.of_nat (length hs)) eqn:Hlt.
  - inversion H; subst. exists [], hs, pool'. repeat split; auto.
    apply nth_In. apply N.ltb_lt in Hlt. lia.
  - destruct (pick_at rest (i - N.of_nat (length hs))) as [[h' rest']|] eqn:Hp; [|discriminate].
    inversion H; subst. destruct (IH _ _ _ Hp) as (a & hs' & b & -> & -> & Hin).
    exists (hs :: a), hs', b. repeat split; auto.
Qed.

Lemma weighted_rand_sel pool n o : sel (fst (weighted_rand pool n o)) pool.
Proof.
  revert pool o. induction n as [|n IH]; intros pool o; simpl; [constructor|].
  destruct (draw o (total_size pool)) as [i o1].
  destruct (pick_at pool i) as [[h pool']|] eqn:Hp; simpl; [|constructor].
  destruct (weighted_rand pool' n o1) as [r o2] eqn:Hw. simpl.
  destruct (pick_at_spec _ _ _ _ Hp) as (a & hs & b & -> & -> & Hin).
  constructor; auto. specialize (IH (a ++ b) o1). rewrite Hw in IH. auto.
Qed.

Lemma weighted_rand_length pool n o : (length (fst (weighted_rand pool n o)) <= n)%nat.
Proof.
  revert pool o. induction n as [|n IH]; intros pool o; simpl; [lia|].
  destruct (draw o (total_size pool)) as [i o1].
  destruct (pick_at pool i) as [[h pool']|]; simpl; [|lia].
  specialize (IH pool' o1). destruct (weighted_rand pool' n o1). simpl in *. lia.
Qed.

Lemma total_size_pos pool : pool <> [] -> Forall (fun p => p <> []) pool -> 0 < total_size pool.
Proof.
  destruct pool as [|hs rest]; [congruence|]. intros _ H. inversion H; subst.
  unfold total_size. cbn [fold_right]. destruct hs; [congruence|]. cbn [length]. lia.
Qed.

Lemma pick_at_some pool i : i < total_size pool -> exists r, pick_at pool i = Some r.
Proof.
  revert i. induction pool as [|hs rest IH]; intros i Hi; simpl in *; [lia|].
  destruct (i <? N.of_nat (length hs)) eqn:Hlt; [eauto|].
  apply N.ltb_ge in Hlt. destruct (IH (i - N.of_nat (length hs))) as [[h r] Hr]; [lia|].
  rewrite Hr. eauto.
Qed.

(* when the pool has at least n non-empty domains, weightedRand returns exactly n *)
Lemma weighted_rand_exact pool n o :
  Forall (fun p => p <> []) pool -> (n <= length pool)%nat -> length (fst (weighted_rand pool n o)) = n.
Proof.
  revert pool o. induction n as [|n IH]; intros pool o Hne Hlen; simpl; [auto|].
  destruct (draw o (total_size pool)) as [i o1] eqn:Hd.
  assert (Hpos : 0 < total_size pool). { apply total_size_pos; auto. destruct pool; simpl in *; [lia|congruence]. }
  assert (Hi : i < total_size pool).
  { pose proof (draw_lt o (total_size pool)) as H. rewrite Hd in H. simpl in H. apply H. lia. }
  destruct (pick_at_some pool i Hi) as [[h pool'] Hp]. rewrite Hp.
  destruct (pick_at_spec _ _ _ _ Hp) as (a & hs & b & -> & -> & Hin).
  specialize (IH (a ++ b) o1). destruct (weighted_rand (a ++ b) n o1) as [r o2]. simpl in *.
  f_equal. apply IH.
  - apply Forall_app in Hne as [Ha Hb]. inversion Hb; subst. apply Forall_app; auto.
  - rewrite app_length in *. simpl in Hlen. lia.
Qed.

Lemma pick_n_sel num existing down doms o :
  let pool := pool_of existing down doms in
  let chosen := fst (pick_n num existing down doms o) in
  sel chosen pool /\ (length chosen <= num)%nat /\
  length chosen = Nat.min num (length pool).
Proof.
  simpl. unfold pick_n.
  destruct (Nat.leb (length (pool_of existing down doms)) num) eqn:Hle.
  - apply Nat.leb_le in Hle.
    destruct (one_from_each_sel (pool_of existing down doms) o (pool_of_nonempty _ _ _)) as [H1 H2].
    repeat split; auto; lia.
  - apply Nat.leb_gt in Hle. repeat split.
    + apply weighted_rand_sel.
    + apply weighted_rand_length.
    + rewrite weighted_rand_exact; [lia|apply pool_of_nonempty|lia].
Qed.

Lemma Permutation_concat_compat {A} (l l' : list (list A)) :
  Permutation l l' -> Permutation (concat l) (concat l').
Proof.
  induction 1; simpl; auto.
  - apply Permutation_app_head; auto.
  - rewrite !app_assoc. apply Permutation_app_tail, Permutation_app_comm.
  - eapply Permutation_trans; eauto.
Qed.

(* ---------- allocation over levels ---------- *)
Definition level_hosts (l : level) : list host := concat (map snd l).

(* the reverse index is well formed for a candidate set: at every level the domains
   partition exactly the candidates *)
Definition level_ok (cands : list host) (l : level) : Prop :=
  NoDup (level_hosts l) /\ (forall h, In h (level_hosts l) <-> In h cands).

Lemma pick_n_props num existing down doms o cands :
  NoDup (concat doms) -> (forall h, In h (concat doms) -> In h cands) ->
  let chosen := fst (pick_n num existing down doms o) in
  NoDup chosen /\ (length chosen <= num)%nat /\
  (forall c, In c chosen -> In c cands /\ ~ In c existing /\ ~ In c down).
Proof.
  intros Hnd Hsub. simpl.
  destruct (pick_n_sel num existing down doms o) as (Hsel & Hlen & _).
  repeat split; auto.
  - eapply sel_NoDup; eauto. apply pool_of_NoDup; auto.
  - destruct (sel_in _ _ Hsel _ H) as (p & Hp & Hc).
    apply pool_of_spec in Hp as (d & Hd & -> & _ & _). apply filter_In in Hc as [Hc _].
    apply Hsub. apply in_concat; eauto.
  - destruct (sel_in _ _ Hsel _ H) as (p & Hp & Hc).
    apply pool_of_spec in Hp as (d & Hd & -> & _ & Hex). apply filter_In in Hc as [Hc _].
    intros He. apply (Hex c He Hc).
  - destruct (sel_in _ _ Hsel _ H) as (p & Hp & Hc).
    apply pool_of_spec in Hp as (d & Hd & -> & _ & _). apply filter_In in Hc as [_ Hc].
    apply negb_true_iff, mem_false in Hc. auto.
Qed.

Lemma alloc_levels_inv lvls : forall num exch existing down o perms acc cands ex0 num0,
  Forall (level_ok cands) lvls ->
  NoDup acc -> (forall c, In c acc -> In c cands /\ ~ In c ex0 /\ ~ In c down) ->
  (forall x, In x existing <-> In x ex0 \/ In x acc) ->
  (length acc + num = num0)%nat ->
  let '(acc', rem) := alloc_levels lvls num exch existing down o perms acc in
  NoDup acc' /\ (forall c, In c acc' -> In c cands /\ ~ In c ex0 /\ ~ In c down) /\
  (length acc' + rem = num0)%nat.
Proof.
  induction lvls as [|l ls IH]; intros num exch existing down o perms acc cands ex0 num0 Hok Hnd Hacc Hex Hlen; simpl.
  - auto.
  - destruct num as [|n]; [auto|].
    apply Forall_cons_iff in Hok as [[Hl1 Hl2] Hoks].
    set (doms := shuffle (hd [] perms) (map snd l)).
    set (avoid := domain_members exch (length ls) l ++ existing).
    destruct (pick_n (S n) avoid down doms o) as [chosen o'] eqn:Hp.
    assert (Hperm : Permutation (concat doms) (level_hosts l)).
    { unfold doms, level_hosts. apply Permutation_concat_compat, shuffle_perm. }
    assert (Hnd' : NoDup (concat doms)). { eapply Permutation_NoDup; [symmetry; eauto|auto]. }
    assert (Hsub : forall h, In h (concat doms) -> In h cands).
    { intros h Hh. apply Hl2. eapply Permutation_in; eauto. }
    pose proof (pick_n_props (S n) avoid down doms o cands Hnd' Hsub) as Hpp.
    rewrite Hp in Hpp. simpl in Hpp. destruct Hpp as (Hc1 & Hc2 & Hc3).
    apply (IH _ _ _ _ _ _ _ cands ex0 num0); auto.
    + apply NoDup_app_iff. repeat split; auto.
      intros x Hxa Hxc. destruct (Hc3 x Hxc) as (_ & Hne & _). apply Hne. unfold avoid.
      apply in_or_app. right. apply Hex; auto.
    + intros c Hc. apply in_app_or in Hc as [Hc|Hc]; auto.
      destruct (Hc3 c Hc) as (H1 & H2 & H3). repeat split; auto.
      intros He. apply H2. unfold avoid. apply in_or_app. right. apply Hex; auto.
    + intros x. rewrite !in_app_iff, Hex. tauto.
    + rewrite app_length. lia.
Qed.

Lemma alloc_sound_lemma idx cands num exch existing down o perms R :
  Forall (level_ok cands) idx ->
  allocate idx num exch existing down o perms = Some R ->
  length R = num /\ NoDup R /\
  (forall r, In r R -> In r cands /\ ~ In r existing /\ ~ In r down).
Proof.
  unfold allocate. intros Hok H.
  pose proof (alloc_levels_inv (rev idx) num exch existing down o perms [] cands existing num) as Hinv.
  destruct (alloc_levels (rev idx) num exch existing down o perms []) as [acc rem].
  destruct rem; [|discriminate]. inversion H; subst.
  destruct Hinv as (H1 & H2 & H3); simpl; auto.
  - apply Forall_rev; auto.
  - constructor.
  - tauto.
  - intros x; tauto.
  - repeat split; auto; try lia; apply H2; auto.
Qed.

Lemma alloc_all_or_nothing_lemma idx num exch existing down o perms :
  allocate idx num exch existing down o perms = None \/
  exists R, allocate idx num exch existing down o perms = Some R /\ length R = num.
Proof.
  unfold allocate.
  pose proof (alloc_levels_inv (rev idx) num exch existing down o perms [] [] existing num) as Hinv.
  destruct (alloc_levels (rev idx) num exch existing down o perms []) as [acc rem] eqn:He.
  destruct rem; [|left; auto]. right. exists acc. split; auto.
  (* length follows from the counting part of the invariant, which needs no well-formedness *)
  clear Hinv.
  assert (Hcount : forall lvls n ex o p acc acc' rem,
             alloc_levels lvls n exch ex down o p acc = (acc', rem) ->
             (length acc' + rem <= length acc + n)%nat /\ (length acc + n <= length acc' + rem + 0 \/ True)%nat).
  { intros; split; [|auto].
    revert n ex o0 p acc0 acc' rem H. induction lvls as [|l ls IH]; intros n ex o0 p acc0 acc' rem H; simpl in H.
    - inversion H; subst; lia.
    - destruct n; [inversion H; subst; lia|].
      destruct (pick_n (S n) (domain_members exch (length ls) l ++ ex) down (shuffle (hd [] p) (map snd l)) o0) as [ch o'] eqn:Hp.
      apply IH in H. rewrite app_length in H.
      destruct (pick_n_sel (S n) (domain_members exch (length ls) l ++ ex) down (shuffle (hd [] p) (map snd l)) o0) as (_ & Hl & _).
      rewrite Hp in Hl. simpl in Hl. lia. }
  assert (Hexact : forall lvls n ex o p acc acc' rem,
             alloc_levels lvls n exch ex down o p acc = (acc', rem) ->
             (length acc' + rem = length acc + n)%nat).
  { induction lvls as [|l ls IH]; intros n ex o0 p acc0 acc' rem H; simpl in H.
    - inversion H; subst; lia.
    - destruct n; [inversion H; subst; lia|].
      destruct (pick_n (S n) (domain_members exch (length ls) l ++ ex) down (shuffle (hd [] p) (map snd l)) o0) as [ch o'] eqn:Hp.
      apply IH in H. rewrite app_length in H.
      destruct (pick_n_sel (S n) (domain_members exch (length ls) l ++ ex) down (shuffle (hd [] p) (map snd l)) o0) as (_ & Hl & _).
      rewrite Hp in Hl. simpl in Hl. lia. }
  apply Hexact in He. simpl in He. lia.
Qed.
