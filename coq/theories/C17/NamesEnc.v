(* C17/NamesEnc.v — a concrete injective numbering of byte strings (std++'s `encode` of the countable type
   list Z), so that the Section of Names.v is not vacuous and the placement theorems (stated over numeric
   domain names) apply to the topologies RackBasedFailureDomain produces from host NAMES. *)
From stdpp Require Import countable.
From Coq Require Import List ZArith NArith.
From BLB Require Import C17.Model C17.Names.

Definition enc_str (s : list Z) : N := Npos (encode s).

Lemma enc_str_inj a b : enc_str a = enc_str b -> a = b.
Proof.
  unfold enc_str. intros H. injection H as H. exact (encode_inj a b H).
Qed.

Definition rack_topology (hosts : list (list Z)) : list chain := List.map (gfd_chain enc_str) hosts.

Lemma rack_topology_nested hosts : topo_nested (rack_topology hosts) = true.
Proof. apply gfd_topo_nested. exact enc_str_inj. Qed.

Lemma rack_topology_uniform hosts : NoDup hosts -> topo_uniform (rack_topology hosts) = true.
Proof. apply gfd_topo_uniform. exact enc_str_inj. Qed.

From Coq Require Import Permutation.
From BLB Require Import Lib.Shuffle C17.Proofs C17.Index C17.Spread C17.Top.

(* placement over the topology that RackBasedFailureDomain derives from ANY set of distinct host names:
   the hypotheses `uniform` and `nested` of the completeness theorem are discharged *)
Lemma rack_placement_ok :
  forall names cands cands' ex0 down num o perms,
    NoDup names ->
    (forall h, In h cands -> In h (List.map (hd 0%N) (rack_topology names))) -> NoDup cands ->
    Permutation cands' cands ->
    (forall e, In e ex0 -> In e (List.map (hd 0%N) (rack_topology names))) ->
    alloc_verdict (rack_topology names) cands ex0 down num false
      (allocate (build_index (List.map (chain_of (rack_topology names)) cands')) num
                (List.map (chain_of (rack_topology names)) ex0) ex0 down o perms) = V_OK.
Proof.
  intros names cands cands' ex0 down num o perms Hnd Hc Hndc Hp He.
  apply verdict_model_ok; auto.
  - apply rack_topology_uniform; auto.
  - apply rack_topology_nested.
Qed.

Lemma rack_names_facts :
  (forall l d, no_trailing_digit l -> all_digits d ->
     rack_of (l ++ d) = l /\ cluster_of (l ++ d) = (if (2 <? length l)%nat then firstn 2 l else l)) /\
  (forall l1 d1 l2 d2, no_trailing_digit l1 -> all_digits d1 -> no_trailing_digit l2 -> all_digits d2 ->
     (rack_of (l1 ++ d1) = rack_of (l2 ++ d2) <-> l1 = l2)) /\
  (forall h1 h2, rack_of h1 = rack_of h2 -> cluster_of h1 = cluster_of h2) /\
  (forall h, exists d t, h = rack_of h ++ d /\ all_digits d /\ no_trailing_digit (rack_of h) /\
                         rack_of h = cluster_of h ++ t).
Proof.
  repeat split.
  - apply rack_of_convention; auto.
  - apply cluster_of_convention; auto.
  - apply rack_unique; auto.
  - apply rack_unique; auto.
  - apply rack_determines_cluster.
  - intros h. destruct (rack_prefix_of_host h) as (d & Hd & Hdd). destruct (cluster_prefix_of_rack h) as (t & Ht).
    exists d, t. repeat split; auto. apply trim_no_trailing.
Qed.

(* the documentation's example: "bbaa20" -> {"bbaa20", "bbaa", "bb"}; "ggaa23" shares rack letters "aa" with it
   and still gets a different rack name; names without the convention are handled totally *)
Example gfd_examples :
  gfd [98;98;97;97;50;48]%Z = [[98;98;97;97;50;48]; [98;98;97;97]; [98;98]]%Z /\
  rack_of [103;103;97;97;50;51]%Z <> rack_of [98;98;97;97;50;48]%Z /\
  gfd [49;50]%Z = [[49;50]; []; []]%Z /\ gfd [120]%Z = [[120]; [120]; [120]]%Z /\
  gfd [97;49;98;50]%Z = [[97;49;98;50]; [97;49;98]; [97;49]]%Z.
Proof. repeat split; try reflexivity. vm_compute. discriminate. Qed.
