(* C17/Model.v — executable model of replica placement.
   Transcribes internal/curator/tractserver_monitor.go (refreshStatus candidate rule,
   buildReverseIndex) and internal/curator/tractserver_picker.go (allocateTS,
   pickNFromDomain, weightedRand).  Randomness (rand.Intn) and Go map iteration
   order are oracle inputs.  Definitions only; proofs live in Proofs.v. *)
From Coq Require Import List Arith NArith ZArith Bool Lia.
From BLB Require Import Lib.Shuffle.
Import ListNotations.
Open Scope N_scope.

Definition host := N.            (* a tractserver address *)
Definition dname := N.           (* a failure-domain name *)
Definition chain := list dname.  (* what FailureDomainService returns for one host: [host; rack; cluster; ...] *)
Definition level := list (dname * list host).   (* one level of the reverse index: domain -> hosts *)

Definition mem (x : N) (l : list N) : bool := existsb (N.eqb x) l.

(* ---------- tractserver_monitor.go: refreshStatus ---------- *)
Record tsdata := { ts_addr : host; ts_beaten : bool; ts_last : Z; ts_avail : N }.
Record moncfg := { now : Z; start : Z; grace : Z; unhealthy_thr : Z; min_avail : N }.

Definition is_healthy (c : moncfg) (d : tsdata) : bool :=
  if (now c - start c <? grace c)%Z then true
  else let since := if ts_beaten d then ts_last d else start c in
       (now c - since <? unhealthy_thr c)%Z.

Definition can_host (c : moncfg) (d : tsdata) : bool :=
  is_healthy c d && (min_avail c <? ts_avail d).

(* ---------- buildReverseIndex ---------- *)
Fixpoint assoc_add (k : dname) (h : host) (l : level) : level :=
  match l with
  | [] => [(k, [h])]
  | (k', hs) :: r => if N.eqb k k' then (k', hs ++ [h]) :: r else (k', hs) :: assoc_add k h r
  end.

Fixpoint add_chain (h : host) (c : chain) (idx : list level) : list level :=
  match c with
  | [] => idx
  | d :: ds => match idx with
               | [] => assoc_add d h [] :: add_chain h ds []
               | l :: ls => assoc_add d h l :: add_chain h ds ls
               end
  end.

Definition build_index (chains : list chain) : list level :=
  fold_left (fun idx c => match c with [] => idx | h :: _ => add_chain h c idx end) chains [].

(* ---------- pickNFromDomain / weightedRand ---------- *)
Definition oracle := list N.
Definition draw (o : oracle) (n : N) : N * oracle :=
  match o with [] => (0, []) | r :: o' => (r mod n, o') end.

Definition pool_of (existing down : list host) (doms : list (list host)) : list (list host) :=
  flat_map (fun hosts =>
              if existsb (fun ex => mem ex hosts) existing then []
              else match filter (fun h => negb (mem h down)) hosts with
                   | [] => []
                   | c => [c]
                   end) doms.

Fixpoint one_from_each (pool : list (list host)) (o : oracle) : list host * oracle :=
  match pool with
  | [] => ([], o)
  | hs :: rest =>
      let '(i, o1) := draw o (N.of_nat (length hs)) in
      let '(r, o2) := one_from_each rest o1 in
      (nth (N.to_nat i) hs 0 :: r, o2)
  end.

Fixpoint pick_at (pool : list (list host)) (index : N) : option (host * list (list host)) :=
  match pool with
  | [] => None
  | hs :: rest =>
      if index <? N.of_nat (length hs) then Some (nth (N.to_nat index) hs 0, rest)
      else match pick_at rest (index - N.of_nat (length hs)) with
           | Some (h, rest') => Some (h, hs :: rest')
           | None => None
           end
  end.

Definition total_size (pool : list (list host)) : N :=
  fold_right (fun hs a => N.of_nat (length hs) + a) 0 pool.

Fixpoint weighted_rand (pool : list (list host)) (num : nat) (o : oracle) : list host * oracle :=
  match num with
  | O => ([], o)
  | S n =>
      let '(i, o1) := draw o (total_size pool) in
      match pick_at pool i with
      | Some (h, pool') => let '(r, o2) := weighted_rand pool' n o1 in (h :: r, o2)
      | None => ([], o1)
      end
  end.

Definition pick_n (num : nat) (existing down : list host) (doms : list (list host)) (o : oracle)
  : list host * oracle :=
  let pool := pool_of existing down doms in
  if Nat.leb (length pool) num then one_from_each pool o else weighted_rand pool num o.

(* ---------- allocateTS ---------- *)
(* domainMembers: one member of the level-L domain of every existing holder, if that domain is in the
   reverse index (the holders themselves may be absent from it: full or unhealthy servers are not indexed). *)
Definition domain_members (exchains : list chain) (L : nat) (l : level) : list host :=
  flat_map (fun c => match nth_error c L with
                     | Some d => match find (fun e => N.eqb (fst e) d) l with
                                 | Some (_, h :: _) => [h]
                                 | _ => []
                                 end
                     | None => []
                     end) exchains.

(* [lvls] is the reverse index with the HIGHEST level first (the Go loop runs i = len-1 downto 0), so the
   level number of the head is [length ls]; [perms] supplies one shuffle code list per level (Go map
   iteration order); [exchains] are the failure-domain chains of the existing holders. *)
Fixpoint alloc_levels (lvls : list level) (num : nat) (exchains : list chain) (existing down : list host)
         (o : oracle) (perms : list (list N)) (acc : list host) : list host * nat :=
  match lvls with
  | [] => (acc, num)
  | l :: ls =>
      match num with
      | O => (acc, num)
      | _ =>
          let doms := shuffle (hd [] perms) (map snd l) in
          let avoid := domain_members exchains (length ls) l ++ existing in
          let '(chosen, o') := pick_n num avoid down doms o in
          alloc_levels ls (num - length chosen) exchains (existing ++ chosen) down o' (tl perms) (acc ++ chosen)
      end
  end.

Definition allocate (idx : list level) (num : nat) (exchains : list chain) (existing down : list host)
           (o : oracle) (perms : list (list N)) : option (list host) :=
  let '(acc, rem) := alloc_levels (rev idx) num exchains existing down o perms [] in
  match rem with O => Some acc | _ => None end.

(* The whole path from monitor data to an allocation. [chains h] is the FDS answer for h. *)
Definition chain_of (topo : list chain) (h : host) : chain :=
  match find (fun c => match c with x :: _ => N.eqb x h | [] => false end) topo with
  | Some c => c | None => [] end.

Definition candidates (c : moncfg) (tss : list tsdata) : list host :=
  map ts_addr (filter (can_host c) tss).

Definition allocate_from_monitor (c : moncfg) (tss : list tsdata) (topo : list chain)
           (mapperm : list N) (num : nat) (existing down : list host) (o : oracle) (perms : list (list N)) :=
  let cands := shuffle mapperm (candidates c tss) in
  allocate (build_index (map (chain_of topo) cands)) num (map (chain_of topo) existing) existing down o perms.

(* ---------- the property as a decidable predicate over a result (the relational spec) ---------- *)
Definition dom (topo : list chain) (L : nat) (h : host) : dname := nth L (chain_of topo h) 0.

Fixpoint distinctb (l : list N) : bool :=
  match l with [] => true | x :: r => negb (mem x r) && distinctb r end.

Definition elig (topo : list chain) (cands existing down : list host) (L : nat) (D : dname) : bool :=
  forallb (fun e => negb (N.eqb (dom topo L e) D)) existing &&
  existsb (fun c => N.eqb (dom topo L c) D && negb (mem c down)) cands.

Definition spread_level (topo : list chain) (cands existing down res : list host) (L : nat) : bool :=
  (distinctb (map (dom topo L) res) && forallb (fun r => elig topo cands existing down L (dom topo L r)) res)
  || forallb (fun c => implb (elig topo cands existing down L (dom topo L c))
                              (existsb (fun r => N.eqb (dom topo L r) (dom topo L c)) res)) cands.

Definition nlevels (topo : list chain) : nat := match topo with [] => 0 | c :: _ => length c end.

Definition topo_uniform (topo : list chain) : bool :=
  forallb (fun c => Nat.eqb (length c) (nlevels topo)) topo &&
  distinctb (map (fun c => hd 0 c) topo) &&
  forallb (fun c => match c with [] => false | _ => true end) topo.

(* nested: a host's level-k domain determines its level-(k+1) domain; and level 0 is the host itself *)
Fixpoint chain_pairs (c : chain) : list (dname * dname) :=
  match c with a :: ((b :: _) as r) => (a, b) :: chain_pairs r | _ => [] end.
Definition topo_nested (topo : list chain) : bool :=
  forallb (fun c1 => forallb (fun c2 =>
     forallb (fun L => implb (N.eqb (nth L c1 0) (nth L c2 0)) (N.eqb (nth (S L) c1 0) (nth (S L) c2 0)))
             (seq 0 (pred (nlevels topo)))) topo) topo.

Definition eligible_hosts (cands existing down : list host) : list host :=
  filter (fun h => negb (mem h existing) && negb (mem h down)) cands.

(* verdict codes: 1 = satisfies the property; other values name the clause that fails *)
Definition V_OK := 1.  Definition V_COUNT := 2.  Definition V_DUP := 3.  Definition V_NOTCAND := 4.
Definition V_EXCLUDED := 5.  Definition V_SPREAD := 6.  Definition V_SPREAD_HIDDEN_EXISTING := 7.
Definition V_NONE_BUT_FEASIBLE := 9.  Definition V_MISSING_BUT_ALLOCATED := 10.

Definition all_existing_visible (cands existing : list host) : bool :=
  forallb (fun e => mem e cands) existing.

Definition alloc_verdict (topo : list chain) (cands existing down : list host) (num : nat)
           (missing : bool) (res : option (list host)) : N :=
  match res with
  | None =>
      if missing then V_OK
      else if Nat.leb num (length (eligible_hosts cands existing down)) && topo_uniform topo
                && negb (Nat.eqb num 0)
           then V_NONE_BUT_FEASIBLE else V_OK
  | Some r =>
      if missing then V_MISSING_BUT_ALLOCATED
      else if negb (Nat.eqb (length r) num) then V_COUNT
      else if negb (distinctb r) then V_DUP
      else if negb (forallb (fun h => mem h cands) r) then V_NOTCAND
      else if existsb (fun h => mem h existing || mem h down) r then V_EXCLUDED
      else if topo_uniform topo && topo_nested topo
              && negb (forallb (spread_level topo cands existing down r) (seq 0 (nlevels topo)))
           then (if all_existing_visible cands existing then V_SPREAD else V_SPREAD_HIDDEN_EXISTING)
      else V_OK
  end.

(* ---------- wire format (see DESIGN.md 2.1) ---------- *)
(* op = [now; start; grace; unhealthy; minavail; num; missing;
         nE; e...; nD; d...; nH; (addr; beaten; last; avail; nC; c...)...; some; nR; r...] *)
Definition zN (z : Z) : N := Z.to_N z.

Definition take_list (l : list Z) : option (list Z * list Z) :=
  match l with
  | [] => None
  | n :: r => let k := Z.to_nat n in
              if Nat.leb k (length r) then Some (firstn k r, skipn k r) else None
  end.

Fixpoint take_hosts (fuel : nat) (n : nat) (l : list Z) : option (list (tsdata * chain) * list Z) :=
  match n with
  | O => Some ([], l)
  | S n' =>
      match l with
      | a :: b :: la :: av :: r =>
          match take_list r with
          | Some (c, r') =>
              match take_hosts fuel n' r' with
              | Some (hs, r'') =>
                  Some (({| ts_addr := zN a; ts_beaten := negb (Z.eqb b 0); ts_last := la; ts_avail := zN av |},
                         map zN c) :: hs, r'')
              | None => None
              end
          | None => None
          end
      | _ => None
      end
  end.

Definition check_wire (op : list Z) : option N :=
  match op with
  | nw :: st :: gr :: un :: mi :: num :: missing :: r0 =>
      match take_list r0 with
      | Some (ex, r1) =>
          match take_list r1 with
          | Some (dn, r2) =>
              match r2 with
              | nH :: r3 =>
                  match take_hosts 0 (Z.to_nat nH) r3 with
                  | Some (hs, r4) =>
                      match r4 with
                      | some :: r5 =>
                          match take_list r5 with
                          | Some (res, []) =>
                              let cfg := {| now := nw; start := st; grace := gr; unhealthy_thr := un; min_avail := zN mi |} in
                              let cands := candidates cfg (map fst hs) in
                              let nz := filter (fun a => negb (N.eqb a 0)) in
                              Some (alloc_verdict (map snd hs) cands (nz (map zN ex)) (nz (map zN dn)) (Z.to_nat num)
                                                  (negb (Z.eqb missing 0))
                                                  (if Z.eqb some 0 then None else Some (map zN res)))
                          | _ => None
                          end
                      | _ => None
                      end
                  | None => None
                  end
              | _ => None
              end
          | None => None
          end
      | None => None
      end
  | _ => None
  end.

(* ---- functional sub-checks: deterministic pieces compared exactly with the code ---- *)
Fixpoint take_lists (n : nat) (l : list Z) : option (list (list Z) * list Z) :=
  match n with
  | O => Some ([], l)
  | S n' => match take_list l with
            | Some (x, r) => match take_lists n' r with
                             | Some (xs, r') => Some (x :: xs, r')
                             | None => None end
            | None => None end
  end.

(* op 2: weightedRand(pool, num) with the raw random values it will consume *)
Definition wrand_wire (op : list Z) : option (list Z) :=
  match op with
  | num :: r0 =>
      match take_list r0 with
      | Some (raws, np :: r1) =>
          match take_lists (Z.to_nat np) r1 with
          | Some (pool, []) =>
              Some (map Z.of_N (fst (weighted_rand (map (map zN) pool) (Z.to_nat num) (map zN raws))))
          | _ => None end
      | _ => None end
  | _ => None
  end.

(* op 3: buildReverseIndex(chains), canonicalised: per level, domains sorted by name *)
Fixpoint ins_sorted (x : dname * list host) (l : level) : level :=
  match l with
  | [] => [x]
  | y :: r => if fst x <=? fst y then x :: l else y :: ins_sorted x r
  end.
Definition sort_level (l : level) : level := fold_right ins_sorted [] l.
Definition enc_level (l : level) : list Z :=
  Z.of_nat (length l) ::
  flat_map (fun '(d, hs) => Z.of_N d :: Z.of_nat (length hs) :: map Z.of_N hs) (sort_level l).
Definition index_wire (op : list Z) : option (list Z) :=
  match op with
  | nc :: r =>
      match take_lists (Z.to_nat nc) r with
      | Some (cs, []) =>
          let idx := build_index (map (map zN) cs) in
          Some (Z.of_nat (length idx) :: flat_map enc_level idx)
      | _ => None end
  | _ => None
  end.

(* op 4: refreshStatus candidate rule: sorted addresses that can host new data *)
Fixpoint ins_N (x : N) (l : list N) : list N :=
  match l with [] => [x] | y :: r => if x <=? y then x :: l else y :: ins_N x r end.
Definition cand_wire (op : list Z) : option (list Z) :=
  match op with
  | nw :: st :: gr :: un :: mi :: nH :: r =>
      match take_hosts 0 (Z.to_nat nH) r with
      | Some (hs, []) =>
          let cfg := {| now := nw; start := st; grace := gr; unhealthy_thr := un; min_avail := zN mi |} in
          Some (map Z.of_N (fold_right ins_N [] (candidates cfg (map fst hs))))
      | _ => None end
  | _ => None
  end.

(* ---------- failure_domain.go: RackBasedFailureDomain.GetFailureDomain ----------
   A host name is a byte string (list of byte values).  strings.TrimRight(host, "0123456789") removes the
   trailing ASCII digits (byte-wise: the cut set is ASCII); the cluster is the first two bytes of the rack
   name when it is longer than two bytes, else the rack name itself.  Result: [host; rack; cluster]. *)
Definition is_digit (c : Z) : bool := ((48 <=? c) && (c <=? 57))%Z.
Fixpoint trim_right_digits (s : list Z) : list Z :=
  match s with
  | [] => []
  | c :: r => match trim_right_digits r with
              | [] => if is_digit c then [] else [c]
              | r' => c :: r'
              end
  end.
Definition rack_of (h : list Z) : list Z := trim_right_digits h.
Definition cluster_of (h : list Z) : list Z :=
  let r := rack_of h in if (2 <? length r)%nat then firstn 2 r else r.
Definition gfd (h : list Z) : list (list Z) := [h; rack_of h; cluster_of h].

(* wire: 5 :: bytes of the host name  ->  length-prefixed rack name, length-prefixed cluster name *)
Definition gfd_wire (h : list Z) : list Z :=
  (Z.of_nat (length (rack_of h)) :: rack_of h) ++ (Z.of_nat (length (cluster_of h)) :: cluster_of h).

(* ---------- tractserver_monitor.go: recvHeartbeat ----------
   Each heartbeat REPLACES what the monitor knows about that tractserver (address, time of the beat, load);
   nothing of an earlier report survives.  A beat is (address, time, available space). *)
Fixpoint upd_beat (a : host) (d : tsdata) (l : list tsdata) : list tsdata :=
  match l with
  | [] => [d]
  | x :: r => if N.eqb (ts_addr x) a then d :: r else x :: upd_beat a d r
  end.
Definition beat_data (b : Z * Z * Z) : tsdata :=
  let '(a, t, av) := b in {| ts_addr := zN a; ts_beaten := true; ts_last := t; ts_avail := zN av |}.
Definition recv_beat (l : list tsdata) (b : Z * Z * Z) : list tsdata := upd_beat (ts_addr (beat_data b)) (beat_data b) l.
Definition apply_beats (bs : list (Z * Z * Z)) : list tsdata := fold_left recv_beat bs [].
Fixpoint take_beats (l : list Z) : option (list (Z * Z * Z)) :=
  match l with
  | [] => Some []
  | a :: t :: av :: r => match take_beats r with Some bs => Some ((a, t, av) :: bs) | None => None end
  | _ => None
  end.
(* wire: 6 :: now :: start :: grace :: unhealthy :: min_avail :: (addr, time, avail)*  ->  sorted candidate addresses *)
Definition beats_wire (op : list Z) : option (list Z) :=
  match op with
  | nw :: st :: gr :: un :: mi :: r =>
      match take_beats r with
      | Some bs =>
          let cfg := {| now := nw; start := st; grace := gr; unhealthy_thr := un; min_avail := zN mi |} in
          Some (map Z.of_N (fold_right ins_N [] (candidates cfg (apply_beats bs))))
      | None => None
      end
  | _ => None
  end.

Definition step_wire (op : list Z) : list Z :=
  let bad := [(-1)%Z] in
  match op with
  | 1%Z :: r => match check_wire r with Some v => [777%Z; Z.of_N v] | None => bad end
  | 2%Z :: r => match wrand_wire r with Some v => v | None => bad end
  | 3%Z :: r => match index_wire r with Some v => v | None => bad end
  | 4%Z :: r => match cand_wire r with Some v => v | None => bad end
  | 5%Z :: r => gfd_wire r
  | 6%Z :: r => match beats_wire r with Some v => v | None => bad end
  | _ => bad
  end.

(* Generic driver entry point: ops of one case -> expected observation lines.
   An undecodable op yields [-1] (a harness bug, reported as a broken check). *)
Definition run_case (ops : list (list Z)) : list (list Z) := map step_wire ops.
