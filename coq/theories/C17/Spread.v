(* C17/Spread.v — the spread clause: at every level of a nested failure-domain forest the chosen
   servers either lie in pairwise distinct domains free of existing holders, or every eligible
   domain of that level received a server. Also completeness (None only when infeasible). *)
From Coq Require Import List Arith NArith Bool Lia Permutation.
From BLB Require Import Lib.Shuffle C17.Model C17.Proofs C17.Index.
Import ListNotations.
Open Scope N_scope.

(* ---------- shuffle commutes with map ---------- *)
Lemma insert_at_map {A B} (f : A -> B) n x l : insert_at n (f x) (map f l) = map f (insert_at n x l).
Proof. revert n; induction l as [|y l IH]; intros [|n]; simpl; auto. f_equal; auto. Qed.

Lemma shuffle_map {A B} (f : A -> B) codes l : shuffle codes (map f l) = map f (shuffle codes l).
Proof.
  revert codes; induction l as [|x l IH]; intros codes; simpl; auto.
  rewrite IH, map_length, insert_at_map. reflexivity.
Qed.

(* ---------- pools with their domain keys ---------- *)
Definition pool_keyed (ex dn : list host) (lvl : level) : level :=
  flat_map (fun e => map (fun p => (fst e, p)) (pool_entry ex dn (snd e))) lvl.

Lemma pool_keyed_snd ex dn lvl : map snd (pool_keyed ex dn lvl) = pool_of ex dn (map snd lvl).
Proof.
  induction lvl as [|[k hs] r IH]; [reflexivity|].
  change (map snd ((k, hs) :: r)) with (hs :: map snd r). rewrite pool_of_cons, <- IH.
  unfold pool_keyed. cbn [flat_map fst snd]. rewrite map_app, map_map. cbn [snd]. rewrite map_id.
  reflexivity.
Qed.

Lemma pool_entry_cases ex dn hs : pool_entry ex dn hs = [] \/ exists p, pool_entry ex dn hs = [p].
Proof.
  unfold pool_entry. destruct (existsb (fun e => mem e hs) ex); auto.
  destruct (filter (fun h => negb (mem h dn)) hs); auto. right; eauto.
Qed.

Lemma pool_keyed_keys ex dn lvl k : In k (map fst (pool_keyed ex dn lvl)) -> In k (map fst lvl).
Proof.
  unfold pool_keyed. rewrite in_map_iff. intros ([k' p] & <- & Hin).
  apply in_flat_map in Hin as ([k2 hs] & He & Hp). apply in_map_iff in Hp as (p' & Heq & _).
  simpl in Heq. inversion Heq; subst. apply in_map_iff. eexists; split; [|exact He]. reflexivity.
Qed.

Lemma pool_keyed_nodup ex dn lvl : NoDup (map fst lvl) -> NoDup (map fst (pool_keyed ex dn lvl)).
Proof.
  induction lvl as [|[k hs] r IH]; simpl; intros H; [constructor|].
  inversion H as [|? ? Hn Hd]; subst. unfold pool_keyed in *. simpl. rewrite map_app.
  destruct (pool_entry_cases ex dn hs) as [->|[p ->]]; simpl; auto.
  constructor; auto. intros Hin. apply Hn. apply (pool_keyed_keys ex dn r). exact Hin.
Qed.

Lemma pool_keyed_in ex dn lvl k p :
  In (k, p) (pool_keyed ex dn lvl) ->
  exists hs, In (k, hs) lvl /\ p = filter (fun h => negb (mem h dn)) hs /\ p <> [] /\
             (forall e, In e ex -> ~ In e hs).
Proof.
  unfold pool_keyed. intros Hin. apply in_flat_map in Hin as ([k2 hs] & He & Hp).
  apply in_map_iff in Hp as (p' & Heq & Hp'). inversion Heq; subst. simpl in *.
  exists hs. split; auto.
  assert (Hpo : In p (pool_of ex dn [hs])). { rewrite pool_of_cons. simpl. rewrite app_nil_r. auto. }
  apply pool_of_spec in Hpo as (d & [<-|[]] & H1 & H2 & H3). auto.
Qed.

Lemma pool_keyed_complete ex dn lvl k hs :
  In (k, hs) lvl -> (forall e, In e ex -> ~ In e hs) -> filter (fun h => negb (mem h dn)) hs <> [] ->
  In (k, filter (fun h => negb (mem h dn)) hs) (pool_keyed ex dn lvl).
Proof.
  intros Hin Hex Hne. unfold pool_keyed. apply in_flat_map. exists (k, hs). split; auto.
  simpl. apply in_map_iff. exists (filter (fun h => negb (mem h dn)) hs). split; auto.
  unfold pool_entry.
  destruct (existsb (fun ex0 => mem ex0 hs) ex) eqn:He.
  - apply existsb_exists in He as (e & He1 & He2). apply mem_In in He2. exfalso. eapply Hex; eauto.
  - destruct (filter (fun h => negb (mem h dn)) hs); [congruence|left; auto].
Qed.

(* selection from a keyed pool: images under a key-respecting function are distinct *)
Lemma sel_keyed (g : host -> N) xs (kp : level) :
  sel xs (map snd kp) -> NoDup (map fst kp) ->
  (forall k p x, In (k, p) kp -> In x p -> g x = k) ->
  NoDup (map g xs) /\ (forall x, In x xs -> exists k p, In (k, p) kp /\ In x p).
Proof.
  remember (map snd kp) as pool eqn:Hpool. intros Hsel. revert kp Hpool.
  induction Hsel as [|h hs a b xs Hh Hs IH]; intros kp Hpool Hnd Hg.
  - split; [constructor|intros x []].
  - symmetry in Hpool. apply map_eq_app in Hpool as (ka & kb' & -> & Ha & Hb').
    apply map_eq_cons in Hb' as ([k hs'] & kb & -> & Hhs & Hb). simpl in Hhs. subst hs' a b.
    rewrite map_app in Hnd. simpl in Hnd.
    assert (Hnd' : NoDup (map fst (ka ++ kb))).
    { rewrite map_app. eapply NoDup_remove_1; eauto. }
    assert (Hk : ~ In k (map fst (ka ++ kb))).
    { rewrite map_app. eapply NoDup_remove_2; eauto. }
    destruct (IH (ka ++ kb)) as [IH1 IH2].
    + rewrite map_app; auto.
    + auto.
    + intros k0 p x Hin. apply Hg. apply in_app_or in Hin as [?|?]; apply in_or_app; [left|right; right]; auto.
    + split.
      * simpl. constructor; auto. intros Hin. apply in_map_iff in Hin as (y & Hy & Hyin).
        destruct (IH2 y Hyin) as (k0 & p & Hkp & Hyp).
        assert (g y = k0). { apply (Hg k0 p); auto. apply in_app_or in Hkp as [?|?]; apply in_or_app; [left|right; right]; auto. }
        assert (g h = k). { apply (Hg k hs); auto. apply in_or_app. right. left. auto. }
        apply Hk. apply in_map_iff. exists (k0, p). split; auto. simpl. congruence.
      * intros x [<-|Hx].
        -- exists k, hs. split; auto. apply in_or_app. right. left. auto.
        -- destruct (IH2 x Hx) as (k0 & p & Hkp & Hxp). exists k0, p. split; auto.
           apply in_app_or in Hkp as [?|?]; apply in_or_app; [left|right; right]; auto.
Qed.

(* one_from_each / pick_n when the pool is small: every pool entry receives a host *)
Lemma one_from_each_covers pool o :
  Forall (fun p => p <> []) pool ->
  forall p, In p pool -> exists x, In x p /\ In x (fst (one_from_each pool o)).
Proof.
  revert o. induction pool as [|hs rest IH]; intros o Hne p Hp; simpl in *; [tauto|].
  inversion Hne as [|? ? Hhs Hrest]; subst.
  destruct (draw o (N.of_nat (length hs))) as [i o1] eqn:Hd.
  destruct (one_from_each rest o1) as [r o2] eqn:Hr. simpl.
  destruct Hp as [<-|Hp].
  - exists (nth (N.to_nat i) hs 0). split; auto. apply nth_In.
    assert (fst (draw o (N.of_nat (length hs))) < N.of_nat (length hs)).
    { apply draw_lt. destruct hs; simpl; [congruence|lia]. }
    rewrite Hd in H. simpl in H. lia.
  - destruct (IH o1 Hrest p Hp) as (x & Hx1 & Hx2). rewrite Hr in Hx2. exists x; auto.
Qed.

Section Spread.
  Variable topo : list chain.
  Variable cands ex0 down : list host.
  Variable exch : list chain.
  Variable n : nat.
  Variable idx : list level.

  Hypothesis Hlen : length idx = n.
  Hypothesis Hlev : forall L, (L < n)%nat -> level_ok cands (nth L idx []).
  Hypothesis Hkey : forall L k hs h, (L < n)%nat -> In (k, hs) (nth L idx []) -> In h hs -> dom topo L h = k.
  Hypothesis Hknd : forall L, (L < n)%nat -> NoDup (map fst (nth L idx [])).
  Definition known (h : host) : Prop := In h cands \/ In h ex0.
  Hypothesis Hnest : forall L x y, (S L < n)%nat -> known x -> known y ->
                                   dom topo L x = dom topo L y -> dom topo (S L) x = dom topo (S L) y.
  (* the failure-domain chains of the existing holders, as looked up by allocateTS *)
  Hypothesis Hexch : exch = map (chain_of topo) ex0.
  Hypothesis Hexlen : forall e, In e ex0 -> length (chain_of topo e) = n.

  Lemma find_key (l : level) k hs : NoDup (map fst l) -> In (k, hs) l ->
    find (fun e => N.eqb (fst e) k) l = Some (k, hs).
  Proof.
    induction l as [|[k0 h0] r IH]; simpl; intros Hnd Hin; [tauto|].
    inversion Hnd as [|? ? Hn Hd]; subst. destruct Hin as [Heq|Hin].
    - inversion Heq; subst. rewrite N.eqb_refl. reflexivity.
    - destruct (N.eqb_spec k0 k) as [->|Hne]; [|auto].
      exfalso. apply Hn. apply in_map_iff. exists (k, hs). auto.
  Qed.

  Lemma find_key_some (l : level) k e : find (fun e => N.eqb (fst e) k) l = Some e -> In e l /\ fst e = k.
  Proof. intros H. apply find_some in H as [H1 H2]. apply N.eqb_eq in H2. auto. Qed.

  (* a member stands for the level-L domain of some existing holder *)
  Lemma members_in L m : (L < n)%nat -> In m (domain_members exch L (nth L idx [])) ->
    exists e hs, In e ex0 /\ In (dom topo L e, hs) (nth L idx []) /\ In m hs.
  Proof.
    intros HL Hm. unfold domain_members in Hm. apply in_flat_map in Hm as (c & Hc & Hm).
    rewrite Hexch in Hc. apply in_map_iff in Hc as (e & <- & He).
    match type of Hm with In _ (match ?x with _ => _ end) => destruct x as [d|] eqn:Hd end; [|destruct Hm].
    match type of Hm with In _ (match ?x with _ => _ end) => destruct x as [[k hs]|] eqn:Hf end; [|destruct Hm].
    destruct hs as [|h0 t]; [destruct Hm|]. destruct Hm as [<-|[]].
    apply find_key_some in Hf as [Hin Hk]. simpl in Hk. subst k.
    exists e, (h0 :: t). split; auto. split; [|left; auto].
    assert (Hdd : dom topo L e = d) by (unfold dom; apply nth_error_nth; exact Hd).
    rewrite Hdd. exact Hin.
  Qed.

  (* conversely, an entry whose key is the level-L domain of an existing holder contains a member *)
  Lemma members_cover L e hs c : (L < n)%nat -> In e ex0 -> In (dom topo L e, hs) (nth L idx []) -> In c hs ->
    exists m, In m hs /\ In m (domain_members exch L (nth L idx [])).
  Proof.
    intros HL He Hin Hc. destruct hs as [|h0 t]; [destruct Hc|].
    exists h0. split; [left; auto|].
    unfold domain_members. apply in_flat_map. exists (chain_of topo e). split.
    - rewrite Hexch. apply in_map; auto.
    - assert (Hd : nth_error (chain_of topo e) L = Some (dom topo L e)).
      { unfold dom. apply nth_error_nth'. rewrite (Hexlen e He). exact HL. }
      match goal with |- In _ (match ?x with _ => _ end) => replace x with (Some (dom topo L e)) by (symmetry; exact Hd) end.
      match goal with |- In _ (match ?x with _ => _ end) =>
        replace x with (Some (dom topo L e, h0 :: t)) by (symmetry; exact (find_key _ _ _ (Hknd L HL) Hin)) end.
      left. reflexivity.
  Qed.

  Definition eligP (L : nat) (D : dname) : Prop :=
    (forall e, In e ex0 -> dom topo L e <> D) /\ (exists c, In c cands /\ dom topo L c = D /\ ~ In c down).

  Lemma elig_iff L D : elig topo cands ex0 down L D = true <-> eligP L D.
  Proof.
    unfold elig, eligP. rewrite andb_true_iff, forallb_forall, existsb_exists. split.
    - intros [H1 (c & Hc & H2)]. apply andb_true_iff in H2 as [H2 H3].
      split.
      + intros e He. specialize (H1 e He). apply negb_true_iff, N.eqb_neq in H1. auto.
      + exists c. apply N.eqb_eq in H2. apply negb_true_iff, mem_false in H3. auto.
    - intros [H1 (c & Hc & H2 & H3)]. split.
      + intros e He. apply negb_true_iff, N.eqb_neq. auto.
      + exists c. split; auto. apply andb_true_iff. split; [apply N.eqb_eq; auto|apply negb_true_iff, mem_false; auto].
  Qed.

  (* DE L acc: the chosen hosts lie in pairwise distinct eligible domains of level L *)
  Definition DE (L : nat) (acc : list host) : Prop :=
    NoDup (map (dom topo L) acc) /\ (forall r, In r acc -> eligP L (dom topo L r)).

  Definition covered (L : nat) (acc : list host) : Prop :=
    forall c, In c cands -> eligP L (dom topo L c) -> exists r, In r acc /\ dom topo L r = dom topo L c.

  Definition good (acc : list host) : Prop :=
    forall r, In r acc -> In r cands /\ ~ In r ex0 /\ ~ In r down.

  Lemma DE_down L acc : (S L < n)%nat -> good acc -> DE (S L) acc -> DE L acc.
  Proof.
    intros HL Hg [Hnd Hel]. split.
    - (* distinct at L+1 implies distinct at L *)
      clear Hel. induction acc as [|a acc IH]; simpl in *; [constructor|].
      inversion Hnd as [|? ? Hn Hd]; subst. constructor.
      + intros Hin. apply Hn. apply in_map_iff in Hin as (y & Hy & Hyin).
        apply in_map_iff. exists y. split; auto.
        apply Hnest; auto; left; [apply Hg; right; auto|apply Hg; left; auto].
      + apply IH; auto. intros r Hr. apply Hg. right; auto.
    - intros r Hr. destruct (Hel r Hr) as [H1 _]. destruct (Hg r Hr) as (Hc & _ & Hd). split.
      + intros e He Heq. apply (H1 e He). apply Hnest; auto; [right; auto|left; auto].
      + exists r. auto.
  Qed.

  Lemma DE_below L acc : (L < n)%nat -> good acc -> DE L acc -> forall L', (L' <= L)%nat -> DE L' acc.
  Proof.
    intros HL Hg HD L' Hle. induction L as [|L IH].
    - assert (L' = 0)%nat by lia. subst; auto.
    - destruct (Nat.eq_dec L' (S L)) as [->|Hne]; auto.
      apply IH; [lia| |lia]. apply DE_down; auto.
  Qed.

  Lemma spread_of_DE L acc : DE L acc -> spread_level topo cands ex0 down acc L = true.
  Proof.
    intros [Hnd Hel]. unfold spread_level. apply orb_true_iff. left. apply andb_true_iff. split.
    - apply distinctb_NoDup; auto.
    - apply forallb_forall. intros r Hr. apply elig_iff. auto.
  Qed.

  Lemma spread_of_covered L acc : covered L acc -> spread_level topo cands ex0 down acc L = true.
  Proof.
    intros Hc. unfold spread_level. apply orb_true_iff. right. apply forallb_forall. intros c Hcin.
    destruct (elig topo cands ex0 down L (dom topo L c)) eqn:He; simpl; auto.
    apply elig_iff in He. destruct (Hc c Hcin He) as (r & Hr & Heq).
    apply existsb_exists. exists r. split; auto. apply N.eqb_eq; auto.
  Qed.

  Lemma covered_mono L acc acc' : covered L acc -> (forall x, In x acc -> In x acc') -> covered L acc'.
  Proof. intros Hc Hsub c Hcin He. destruct (Hc c Hcin He) as (r & Hr & Heq). exists r; auto. Qed.

  (* --- one level step --- *)
  Lemma level_entry_of L h : (L < n)%nat -> In h cands ->
    exists hs, In (dom topo L h, hs) (nth L idx []) /\ In h hs.
  Proof.
    intros HL Hh. destruct (Hlev L HL) as [_ Hiff]. apply Hiff in Hh.
    unfold level_hosts in Hh. apply in_concat in Hh as (hs & Hhs & Hin).
    apply in_map_iff in Hhs as ([k hs'] & Heq & He). simpl in Heq; subst hs'.
    exists hs. split; auto. rewrite (Hkey L k hs h HL He Hin). auto.
  Qed.

  Lemma entry_unique L k hs hs' : (L < n)%nat ->
    In (k, hs) (nth L idx []) -> In (k, hs') (nth L idx []) -> hs = hs'.
  Proof.
    intros HL H1 H2. specialize (Hknd L HL).
    induction (nth L idx []) as [|[k0 h0] r IH]; simpl in *; [tauto|].
    inversion Hknd as [|? ? Hn Hd]; subst.
    destruct H1 as [H1|H1]; destruct H2 as [H2|H2].
    - congruence.
    - inversion H1; subst. exfalso. apply Hn. apply in_map_iff. exists (k, hs'). auto.
    - inversion H2; subst. exfalso. apply Hn. apply in_map_iff. exists (k, hs). auto.
    - auto.
  Qed.

  Lemma host_entry_key L k hs k' hs' x : (L < n)%nat ->
    In (k, hs) (nth L idx []) -> In (k', hs') (nth L idx []) -> In x hs -> In x hs' -> k = k'.
  Proof.
    intros HL H1 H2 Hx Hx'. rewrite <- (Hkey L k hs x HL H1 Hx). apply (Hkey L k' hs' x HL H2 Hx').
  Qed.

  Lemma step_props L num acc o perms :
    (L < n)%nat -> good acc -> NoDup acc -> DE L acc ->
    let lvl := shuffle (hd [] perms) (nth L idx []) in
    let avoid := domain_members exch L (nth L idx []) ++ ex0 ++ acc in
    let chosen := fst (pick_n num avoid down (map snd lvl) o) in
    good (acc ++ chosen) /\ NoDup (acc ++ chosen) /\ DE L (acc ++ chosen) /\
    (length chosen <= num)%nat /\
    ((length chosen < num)%nat -> covered L (acc ++ chosen)).
  Proof.
    intros HL Hg Hnd HDE lvl avoid chosen.
    assert (Hperm : Permutation lvl (nth L idx [])) by apply shuffle_perm.
    assert (Hin_lvl : forall e, In e lvl <-> In e (nth L idx [])).
    { intros e; split; apply Permutation_in; [|apply Permutation_sym]; auto. }
    assert (Hknd' : NoDup (map fst lvl)).
    { eapply Permutation_NoDup; [apply Permutation_map, Permutation_sym; exact Hperm|auto]. }
    set (kp := pool_keyed avoid down lvl).
    assert (Hkp : map snd kp = pool_of avoid down (map snd lvl)) by apply pool_keyed_snd.
    destruct (pick_n_sel num avoid down (map snd lvl) o) as (Hsel & Hlen_le & Hlen_eq).
    fold chosen in Hsel, Hlen_le, Hlen_eq. rewrite <- Hkp in Hsel, Hlen_eq.
    assert (Hgk : forall k p x, In (k, p) kp -> In x p -> dom topo L x = k).
    { intros k p x Hin Hx. apply pool_keyed_in in Hin as (hs & Hhs & -> & _ & _).
      apply filter_In in Hx as [Hx _]. apply (Hkey L k hs x HL); auto. apply Hin_lvl; auto. }
    destruct (sel_keyed (dom topo L) chosen kp Hsel (pool_keyed_nodup _ _ _ Hknd') Hgk) as [Hdist Hfrom].
    assert (Havoid_acc : forall a, In a acc -> In a avoid).
    { intros a Ha. unfold avoid. apply in_or_app. right. apply in_or_app. auto. }
    assert (Havoid_ex : forall a, In a ex0 -> In a avoid).
    { intros a Ha. unfold avoid. apply in_or_app. right. apply in_or_app. auto. }
    (* facts about each chosen host *)
    assert (Hch : forall c, In c chosen ->
              In c cands /\ ~ In c ex0 /\ ~ In c acc /\ ~ In c down /\
              (forall e, In e (ex0 ++ acc) -> dom topo L e <> dom topo L c)).
    { intros c Hc. destruct (Hfrom c Hc) as (k & p & Hin & Hcp).
      pose proof (Hgk k p c Hin Hcp) as Hdk.
      apply pool_keyed_in in Hin as (hs & Hhs & -> & _ & Hnoex).
      apply filter_In in Hcp as [Hchs Hnd']. apply negb_true_iff, mem_false in Hnd'.
      apply Hin_lvl in Hhs.
      assert (Hcc : In c cands).
      { destruct (Hlev L HL) as [_ Hiff]. apply Hiff. unfold level_hosts. apply in_concat.
        exists hs. split; auto. apply in_map_iff. exists (k, hs). auto. }
      split; [exact Hcc|]. split; [intros He; apply (Hnoex c); auto|].
      split; [intros He; apply (Hnoex c); auto|]. split; [exact Hnd'|].
      intros e He Heq. apply in_app_or in He as [He|He].
      - (* an existing holder in the same level-L domain: its member is in the entry, which is then skipped *)
        rewrite Hdk in Heq. rewrite <- Heq in Hhs.
        destruct (members_cover L e hs c HL He Hhs Hchs) as (m & Hm1 & Hm2).
        apply (Hnoex m); auto. unfold avoid. apply in_or_app. left. exact Hm2.
      - assert (Hec : In e cands) by (apply Hg; auto).
        destruct (level_entry_of L e HL Hec) as (hs' & Hhs' & Hein).
        rewrite Heq, Hdk in Hhs'. rewrite (entry_unique L k hs' hs HL Hhs' Hhs) in Hein.
        apply (Hnoex e); auto. }
    assert (Hgood : good (acc ++ chosen)).
    { intros r Hr. apply in_app_or in Hr as [Hr|Hr]; [apply Hg; auto|].
      destruct (Hch r Hr) as (H1 & H2 & _ & H4 & _). auto. }
    assert (HDE' : DE L (acc ++ chosen)).
    { destruct HDE as [HD1 HD2]. split.
      - rewrite map_app. apply NoDup_app_iff. repeat split; auto.
        intros x Hxa Hxc. apply in_map_iff in Hxa as (a & <- & Ha).
        apply in_map_iff in Hxc as (c & Heq & Hc).
        destruct (Hch c Hc) as (_ & _ & _ & _ & Hne). apply (Hne a); [apply in_or_app; auto|auto].
      - intros r Hr. apply in_app_or in Hr as [Hr|Hr]; auto.
        destruct (Hch r Hr) as (H1 & _ & _ & H4 & Hne). split.
        + intros e He. apply Hne. apply in_or_app; auto.
        + exists r; auto. }
    split; [exact Hgood|]. split; [|split; [exact HDE'|split; [exact Hlen_le|]]].
    - apply NoDup_app_iff. split; [exact Hnd|]. split.
      + assert (Hnd2 : NoDup (map (dom topo L) chosen)) by exact Hdist.
        clear - Hnd2. induction chosen as [|x xs IH]; [constructor|].
        simpl in Hnd2. inversion Hnd2 as [|? ? Hn1 Hn2]; subst. constructor; auto.
        intros Hin. apply Hn1. apply in_map; auto.
      + intros x Hxa Hxc. destruct (Hch x Hxc) as (_ & _ & Hna & _). auto.
    - (* fewer than num chosen: the pool was exhausted, every eligible domain is covered *)
      intros Hlt c Hcin [Hel1 (c' & Hc' & Hc'dom & Hc'down)].
      destruct (level_entry_of L c HL Hcin) as (hs & Hhs & Hchs).
      destruct (existsb (fun a => N.eqb (dom topo L a) (dom topo L c)) acc) eqn:Hex.
      + apply existsb_exists in Hex as (a & Ha & Heq). apply N.eqb_eq in Heq.
        exists a. split; auto. apply in_or_app; auto.
      + assert (Hnoacc : forall a, In a acc -> dom topo L a <> dom topo L c).
        { intros a Ha Heq. assert (existsb (fun a => N.eqb (dom topo L a) (dom topo L c)) acc = true); [|congruence].
          apply existsb_exists. exists a. split; auto. apply N.eqb_eq; auto. }
        assert (Hnoex : forall e, In e avoid -> ~ In e hs).
        { intros e He Hein. unfold avoid in He. apply in_app_or in He as [He|He].
          - destruct (members_in L e HL He) as (e0 & hs0 & He0 & Hhs0 & Hin0).
            apply (Hel1 e0 He0). symmetry. apply (host_entry_key L _ hs _ hs0 e HL Hhs Hhs0 Hein Hin0).
          - apply in_app_or in He as [He|He].
            + apply (Hel1 e He). apply (Hkey L _ hs e HL Hhs Hein).
            + apply (Hnoacc e He). apply (Hkey L _ hs e HL Hhs Hein). }
        assert (Hc'hs : In c' hs).
        { destruct (level_entry_of L c' HL Hc') as (hs' & Hhs' & Hin').
          rewrite Hc'dom in Hhs'. rewrite (entry_unique L _ hs' hs HL Hhs' Hhs) in Hin'. auto. }
        assert (Hne : filter (fun h => negb (mem h down)) hs <> []).
        { intros Hnil. assert (In c' (filter (fun h => negb (mem h down)) hs)).
          { apply filter_In. split; auto. apply negb_true_iff, mem_false; auto. }
          rewrite Hnil in H. destruct H. }
        assert (Hinkp : In (dom topo L c, filter (fun h => negb (mem h down)) hs) kp).
        { apply pool_keyed_complete; auto. apply Hin_lvl; auto. }
        assert (Hsmall : (length (pool_of avoid down (map snd lvl)) <= num)%nat).
        { rewrite <- Hkp, map_length. rewrite map_length in Hlen_eq. lia. }
        unfold chosen, pick_n. apply Nat.leb_le in Hsmall. rewrite Hsmall.
        destruct (one_from_each_covers (pool_of avoid down (map snd lvl)) o (pool_of_nonempty _ _ _)
                    (filter (fun h => negb (mem h down)) hs)) as (x & Hx1 & Hx2).
        { rewrite <- Hkp. apply in_map_iff. exists (dom topo L c, filter (fun h => negb (mem h down)) hs). auto. }
        exists x. split; [apply in_or_app; right; auto|].
        apply filter_In in Hx1 as [Hx1 _]. apply (Hkey L _ hs x HL Hhs Hx1).
  Qed.

  (* --- the loop from level L downwards --- *)
  Lemma levels_from L : (S L <= n)%nat -> rev (firstn (S L) idx) = nth L idx [] :: rev (firstn L idx).
  Proof.
    intros HL. assert (Hsplit : firstn (S L) idx = firstn L idx ++ [nth L idx []]).
    { clear - HL Hlen. revert idx Hlen HL. generalize n. clear.
      induction L as [|L IH]; intros n idx Hlen HL; destruct idx as [|x xs]; simpl in *; try lia; auto.
      f_equal. apply (IH (pred n)); simpl in *; lia. }
    rewrite Hsplit, rev_app_distr. reflexivity.
  Qed.

  Lemma alloc_spread_loop : forall L num acc o perms acc',
    (L <= n)%nat -> good acc -> NoDup acc ->
    (forall L', (L' < L)%nat -> DE L' acc) ->
    (forall L', (L <= L' < n)%nat -> covered L' acc \/ (num = 0%nat /\ DE L' acc)) ->
    alloc_levels (rev (firstn L idx)) num exch (ex0 ++ acc) down o perms acc = (acc', 0%nat) ->
    forall L', (L' < n)%nat -> spread_level topo cands ex0 down acc' L' = true.
  Proof.
    induction L as [|L IH]; intros num acc o perms acc' HL Hg Hnd HDE Hcov Halloc L' HL'.
    - simpl in Halloc. inversion Halloc; subst.
      destruct (Hcov L') as [Hc|[_ Hd]]; [lia| |]; [apply spread_of_covered|apply spread_of_DE]; auto.
    - rewrite levels_from in Halloc by lia. simpl in Halloc.
      destruct num as [|num'].
      + inversion Halloc; subst.
        destruct (Nat.lt_ge_cases L' (S L)) as [Hlt|Hge].
        * apply spread_of_DE. apply HDE. auto.
        * destruct (Hcov L') as [Hc|[_ Hd]]; [lia| |]; [apply spread_of_covered|apply spread_of_DE]; auto.
      + set (lvl := shuffle (hd [] perms) (nth L idx [])) in *.
        rewrite shuffle_map in Halloc. fold lvl in Halloc.
        rewrite rev_length, firstn_length, Nat.min_l in Halloc by lia.
        destruct (pick_n (S num') (domain_members exch L (nth L idx []) ++ ex0 ++ acc) down (map snd lvl) o) as [chosen o'] eqn:Hp.
        pose proof (step_props L (S num') acc o perms) as Hstep. simpl in Hstep.
        fold lvl in Hstep. rewrite Hp in Hstep. simpl in Hstep.
        destruct Hstep as (Hg' & Hnd' & HDE' & Hle & Hcov'); [lia|auto|auto|apply HDE; lia|].
        rewrite <- app_assoc in Halloc.
        eapply (IH _ _ _ _ _); [lia|exact Hg'|exact Hnd'| | |exact Halloc|exact HL'].
        * intros L2 HL2. apply (DE_below L); [lia|auto|auto|lia].
        * intros L2 HL2. destruct (Nat.eq_dec L2 L) as [->|Hne].
          -- destruct (Nat.eq_dec (length chosen) (S num')) as [Heq|Hneq].
             ++ right. split; [lia|auto].
             ++ left. apply Hcov'. lia.
          -- destruct (Hcov L2) as [Hc|[Hz _]]; [lia| |discriminate].
             left. eapply covered_mono; eauto. intros x Hx. apply in_or_app; auto.
  Qed.

  Lemma firstn_all_idx : firstn n idx = idx.
  Proof. rewrite <- Hlen. apply firstn_all. Qed.

  Lemma alloc_spread_section num o perms R :
    allocate idx num exch ex0 down o perms = Some R ->
    forall L', (L' < n)%nat -> spread_level topo cands ex0 down R L' = true.
  Proof.
    unfold allocate. intros H.
    destruct (alloc_levels (rev idx) num exch ex0 down o perms []) as [acc rem] eqn:Ha.
    destruct rem; [|discriminate]. injection H as <-.
    apply (alloc_spread_loop n num [] o perms acc); auto.
    - intros r [].
    - constructor.
    - intros L' _. split; [constructor|intros r []].
    - intros L' HL'. lia.
    - rewrite firstn_all_idx, app_nil_r. exact Ha.
  Qed.

  (* --- completeness: the loop always reaches level 0, where every host is its own domain, and takes as
         many hosts as it still needs if they exist --- *)
  Hypothesis Hdom0 : forall h, known h -> dom topo 0 h = h.
  Hypothesis Hcnd : NoDup cands.

  Lemma level0_entry_singleton k hs x : (0 < n)%nat -> In (k, hs) (nth 0 idx []) -> In x hs -> x = k.
  Proof.
    intros Hn0 Hin Hx. pose proof (Hkey 0 k hs x Hn0 Hin Hx) as Hk.
    rewrite Hdom0 in Hk; auto. left. destruct (Hlev 0 Hn0) as [_ Hiff]. apply Hiff.
    unfold level_hosts. apply in_concat. exists hs. split; auto. apply in_map_iff. exists (k, hs). auto.
  Qed.

  Lemma alloc_complete_loop : forall L num acc o perms acc' rem,
    (L <= n)%nat -> (0 < L)%nat -> good acc -> NoDup acc -> (forall L', (L' < L)%nat -> DE L' acc) ->
    alloc_levels (rev (firstn L idx)) num exch (ex0 ++ acc) down o perms acc = (acc', rem) ->
    (0 < rem)%nat ->
    (length (eligible_hosts cands ex0 down) < length acc + num)%nat.
  Proof.
    induction L as [|L IH]; intros num acc o perms acc' rem HL HL0 Hg Hnd HDE Halloc Hrem; [lia|].
    rewrite levels_from in Halloc by lia.
    destruct num as [|num']; [simpl in Halloc; inversion Halloc; subst; lia|].
    cbn [alloc_levels] in Halloc.
    set (lvl := shuffle (hd [] perms) (nth L idx [])) in *.
    rewrite shuffle_map in Halloc. fold lvl in Halloc.
    rewrite rev_length, firstn_length, Nat.min_l in Halloc by lia.
    set (avoid := domain_members exch L (nth L idx []) ++ ex0 ++ acc) in *.
    destruct (pick_n (S num') avoid down (map snd lvl) o) as [chosen o'] eqn:Hp.
    pose proof (step_props L (S num') acc o perms) as Hstep. simpl in Hstep.
    fold lvl in Hstep. fold avoid in Hstep. rewrite Hp in Hstep. simpl in Hstep.
    destruct Hstep as (Hg' & Hnd' & HDE' & Hle & _); [lia|auto|auto|apply HDE; lia|].
    rewrite <- app_assoc in Halloc.
    destruct L as [|L'].
    - (* this was level 0: the recursion has no level left *)
      change (rev (firstn 0 idx)) with (@nil level) in Halloc. cbn [alloc_levels] in Halloc.
      injection Halloc as <- <-.
      (* count the pool *)
      destruct (pick_n_sel (S num') avoid down (map snd lvl) o) as (_ & _ & Hlen_eq).
      rewrite Hp in Hlen_eq. cbn [fst] in Hlen_eq.
      assert (Hrem' : (0 < S num' - length chosen)%nat) by exact Hrem. clear Hrem.
      assert (Hpool : (length (pool_of avoid down (map snd lvl)) < S num')%nat) by lia.
      rewrite <- pool_keyed_snd, map_length in Hpool.
      set (kp := pool_keyed avoid down lvl) in *.
      set (E' := filter (fun x => negb (mem x acc)) (eligible_hosts cands ex0 down)).
      assert (Hn0 : (0 < n)%nat) by lia.
      assert (Hin_lvl : forall e, In e lvl <-> In e (nth 0 idx [])).
      { intros e; split; apply Permutation_in; [|apply Permutation_sym]; apply shuffle_perm. }
      assert (Hknd' : NoDup (map fst lvl)).
      { eapply Permutation_NoDup; [apply Permutation_map, Permutation_sym, shuffle_perm|apply Hknd; auto]. }
      assert (HE'nd : NoDup E').
      { unfold E', eligible_hosts. apply NoDup_filter, NoDup_filter. exact Hcnd. }
      assert (HE'keys : incl E' (map fst kp)).
      { intros h Hh. unfold E' in Hh. apply filter_In in Hh as [Hel Hnacc].
        apply negb_true_iff, mem_false in Hnacc.
        unfold eligible_hosts in Hel. apply filter_In in Hel as [Hhc Hhb].
        apply andb_true_iff in Hhb as [Hnex Hndown].
        apply negb_true_iff, mem_false in Hnex. apply negb_true_iff, mem_false in Hndown.
        destruct (level_entry_of 0 h Hn0 Hhc) as (hs & Hhs & Hhin).
        rewrite Hdom0 in Hhs by (left; auto).
        assert (Hnoavoid : forall a, In a avoid -> ~ In a hs).
        { intros a Ha Hain. pose proof (level0_entry_singleton h hs a Hn0 Hhs Hain) as ->.
          unfold avoid in Ha. apply in_app_or in Ha as [Ha|Ha].
          - destruct (members_in 0 h Hn0 Ha) as (e0 & hs0 & He0 & Hhs0 & Hin0).
            pose proof (level0_entry_singleton _ hs0 h Hn0 Hhs0 Hin0) as Hk.
            rewrite Hdom0 in Hk by (right; auto). subst e0. auto.
          - apply in_app_or in Ha as [Ha|Ha]; auto. }
        assert (Hne : filter (fun x => negb (mem x down)) hs <> []).
        { intros Hnil. assert (In h (filter (fun x => negb (mem x down)) hs)).
          { apply filter_In. split; auto. apply negb_true_iff, mem_false; auto. }
          rewrite Hnil in H. destruct H. }
        apply in_map_iff. exists (h, filter (fun x => negb (mem x down)) hs). split; auto.
        apply pool_keyed_complete; auto. apply Hin_lvl; auto. }
      pose proof (NoDup_incl_length HE'nd HE'keys) as Hcount. rewrite map_length in Hcount.
      assert (Hsplit : (length (eligible_hosts cands ex0 down) <= length acc + length E')%nat).
      { rewrite <- app_length. apply NoDup_incl_length.
        - unfold eligible_hosts. apply NoDup_filter. exact Hcnd.
        - intros x Hx. apply in_or_app. destruct (mem x acc) eqn:Hm.
          + left. apply mem_In; auto.
          + right. unfold E'. apply filter_In. split; auto. rewrite Hm. reflexivity. }
      lia.
    - assert (Hrec := IH (S num' - length chosen)%nat (acc ++ chosen) o' (tl perms) acc' rem).
      rewrite app_length in Hrec.
      assert ((length (eligible_hosts cands ex0 down) < length acc + length chosen + (S num' - length chosen))%nat); [|lia].
      apply Hrec; auto; try lia.
      intros L2 HL2. apply (DE_below (S L')); [lia|auto|auto|lia].
  Qed.

  Lemma alloc_complete_section num o perms :
    (0 < n)%nat -> (0 < num)%nat ->
    allocate idx num exch ex0 down o perms = None ->
    (length (eligible_hosts cands ex0 down) < num)%nat.
  Proof.
    unfold allocate. intros Hn0 Hnum H.
    destruct (alloc_levels (rev idx) num exch ex0 down o perms []) as [acc rem] eqn:Ha.
    destruct rem as [|rem]; [discriminate|].
    apply (alloc_complete_loop n num [] o perms acc (S rem)); auto; try lia.
    - intros r [].
    - constructor.
    - intros L' _. split; [constructor|intros r []].
    - rewrite firstn_all_idx, app_nil_r. exact Ha.
  Qed.

End Spread.
