(* C17/Index.v — buildReverseIndex produces a well-formed reverse index. *)
From Coq Require Import List Arith NArith Bool Lia Permutation.
From BLB Require Import Lib.Shuffle C17.Model C17.Proofs.
Import ListNotations.
Open Scope N_scope.

(* the (host, key) pairs stored in a level *)
Definition entry_pairs (e : dname * list host) : list (host * dname) := map (fun h => (h, fst e)) (snd e).
Definition level_pairs (l : level) : list (host * dname) := flat_map entry_pairs l.

Definition lvl_inv (l : level) (ps : list (host * dname)) : Prop :=
  NoDup (map fst l) /\ Permutation (level_pairs l) ps.

Lemma level_hosts_pairs l : level_hosts l = map fst (level_pairs l).
Proof.
  unfold level_hosts, level_pairs. induction l as [|[k hs] r IH]; simpl; auto.
  rewrite map_app, <- IH. f_equal. unfold entry_pairs. simpl. rewrite map_map. simpl.
  symmetry. apply map_id.
Qed.

Lemma assoc_add_keys k h l :
  map fst (assoc_add k h l) = if mem k (map fst l) then map fst l else map fst l ++ [k].
Proof.
  induction l as [|[k' hs] r IH]; simpl; auto.
  destruct (N.eqb_spec k k') as [->|Hne]; simpl; auto.
  rewrite IH. destruct (mem k (map fst r)); auto.
Qed.

Lemma assoc_add_pairs k h l : Permutation (level_pairs (assoc_add k h l)) ((h, k) :: level_pairs l).
Proof.
  induction l as [|[k' hs] r IH]; simpl; auto.
  destruct (N.eqb_spec k k') as [->|Hne]; unfold level_pairs in *; simpl.
  - unfold entry_pairs at 1 3. simpl. rewrite map_app. simpl.
    rewrite <- app_assoc. simpl. apply Permutation_sym, Permutation_middle.
  - eapply Permutation_trans; [apply Permutation_app_head; exact IH|].
    apply Permutation_sym, Permutation_middle.
Qed.

Lemma assoc_add_inv k h l ps : lvl_inv l ps -> lvl_inv (assoc_add k h l) ((h, k) :: ps).
Proof.
  intros [Hnd Hp]. split.
  - rewrite assoc_add_keys. destruct (mem k (map fst l)) eqn:Hm; auto.
    apply mem_false in Hm. apply NoDup_app_iff. repeat split; auto.
    + repeat constructor; simpl; tauto.
    + intros x Hx [<-|[]]. auto.
  - eapply Permutation_trans; [apply assoc_add_pairs|]. constructor; auto.
Qed.

Lemma lvl_inv_nil : lvl_inv [] [].
Proof. split; simpl; constructor. Qed.

(* add_chain touches level L with the pair (h, c[L]) *)
Lemma add_chain_nth h c : forall idx L,
  nth L (add_chain h c idx) [] =
  match nth_error c L with
  | Some d => assoc_add d h (nth L idx [])
  | None => nth L idx []
  end.
Proof.
  induction c as [|d ds IH]; intros idx L; simpl.
  - destruct L; reflexivity.
  - destruct idx as [|l ls]; destruct L as [|L]; simpl; auto; rewrite IH.
    all: try reflexivity.
    destruct (nth_error ds L); destruct L; reflexivity.
Qed.

Lemma add_chain_length h c : forall idx, length (add_chain h c idx) = Nat.max (length c) (length idx).
Proof.
  induction c as [|d ds IH]; intros idx; simpl; auto.
  destruct idx as [|l ls]; simpl; rewrite IH; simpl; lia.
Qed.

Definition step_chain (idx : list level) (c : chain) : list level :=
  match c with [] => idx | h :: _ => add_chain h c idx end.

Definition pair_at (L : nat) (c : chain) : list (host * dname) :=
  match c with
  | [] => []
  | h :: _ => match nth_error c L with Some d => [(h, d)] | None => [] end
  end.

Lemma step_chain_inv L c idx ps :
  lvl_inv (nth L idx []) ps -> lvl_inv (nth L (step_chain idx c) []) (pair_at L c ++ ps).
Proof.
  intros H. destruct c as [|h t]; [exact H|].
  unfold step_chain. rewrite add_chain_nth. unfold pair_at.
  destruct (nth_error (h :: t) L); simpl; auto. apply assoc_add_inv; auto.
Qed.

Lemma fold_chain_inv L cs : forall idx ps,
  lvl_inv (nth L idx []) ps ->
  lvl_inv (nth L (fold_left step_chain cs idx) []) (flat_map (pair_at L) (rev cs) ++ ps).
Proof.
  induction cs as [|c cs IH]; intros idx ps H; simpl; auto.
  specialize (IH (step_chain idx c) (pair_at L c ++ ps) (step_chain_inv L c idx ps H)).
  rewrite flat_map_app. simpl. rewrite app_nil_r, <- app_assoc. exact IH.
Qed.

Lemma build_index_fold cs : build_index cs = fold_left step_chain cs [].
Proof. reflexivity. Qed.

Lemma fold_chain_length cs : forall idx n,
  Forall (fun c => length c = n) cs -> (length idx = n \/ (idx = [] /\ cs <> [])) -> n <> 0%nat ->
  length (fold_left step_chain cs idx) = n.
Proof.
  induction cs as [|c cs IH]; intros idx n Hall Hidx Hn; simpl.
  - destruct Hidx as [?|[_ ?]]; congruence.
  - inversion Hall; subst. apply IH; auto. left.
    destruct c as [|h t]; [simpl in *; congruence|].
    unfold step_chain. rewrite add_chain_length.
    destruct Hidx as [->|[-> _]]; simpl; lia.
Qed.

(* ---------- the well-formedness theorem ---------- *)
Definition chains_ok (cs : list chain) (n : nat) : Prop :=
  n <> 0%nat /\ Forall (fun c => length c = n) cs /\ NoDup (map (hd 0) cs).

Lemma pair_at_uniform L n c : length c = n -> (L < n)%nat -> pair_at L c = [(hd 0 c, nth L c 0)].
Proof.
  intros Hl HL. destruct c as [|h t]; [simpl in *; lia|].
  unfold pair_at. destruct (nth_error (h :: t) L) eqn:He.
  - simpl. f_equal. f_equal. symmetry. apply nth_error_nth with (d := 0) in He. auto.
  - apply nth_error_None in He. lia.
Qed.

Lemma flat_pairs_uniform L n cs :
  Forall (fun c => length c = n) cs -> (L < n)%nat ->
  flat_map (pair_at L) cs = map (fun c => (hd 0 c, nth L c 0)) cs.
Proof.
  induction 1; intros HL; simpl; auto.
  rewrite (pair_at_uniform L n); auto. simpl. f_equal; auto.
Qed.

Lemma build_index_level cs n L :
  chains_ok cs n -> (L < n)%nat ->
  lvl_inv (nth L (build_index cs) []) (map (fun c => (hd 0 c, nth L c 0)) (rev cs)).
Proof.
  intros (Hn & Hall & Hnd) HL. rewrite build_index_fold.
  pose proof (fold_chain_inv L cs [] [] ) as H.
  rewrite app_nil_r in H. rewrite <- (flat_pairs_uniform L n); auto.
  - apply H. destruct L; apply lvl_inv_nil.
  - apply Forall_rev; auto.
Qed.

Lemma build_index_length cs n : chains_ok cs n -> cs <> [] -> length (build_index cs) = n.
Proof.
  intros (Hn & Hall & _) Hne. rewrite build_index_fold. apply fold_chain_length; auto.
Qed.

Lemma build_index_level_ok cs n L :
  chains_ok cs n -> (L < n)%nat -> level_ok (map (hd 0) cs) (nth L (build_index cs) []).
Proof.
  intros Hok HL. destruct (build_index_level cs n L Hok HL) as [Hk Hp].
  destruct Hok as (Hn & Hall & Hnd).
  assert (Hh : Permutation (level_hosts (nth L (build_index cs) [])) (map (hd 0) cs)).
  { rewrite level_hosts_pairs. eapply Permutation_trans; [apply Permutation_map; exact Hp|].
    rewrite map_map. simpl. apply Permutation_map, Permutation_sym, Permutation_rev. }
  split.
  - eapply Permutation_NoDup; [apply Permutation_sym; exact Hh|auto].
  - intros h. split; apply Permutation_in; [|apply Permutation_sym]; auto.
Qed.

Lemma build_index_ok_lemma cs n :
  chains_ok cs n -> cs <> [] -> Forall (level_ok (map (hd 0) cs)) (build_index cs).
Proof.
  intros Hok Hne. apply Forall_forall. intros l Hl.
  apply In_nth with (d := []) in Hl as (L & HL & <-).
  rewrite (build_index_length cs n Hok Hne) in HL.
  apply (build_index_level_ok cs n L); auto.
Qed.

(* grouping: membership of a host in an entry is governed by its chain at that level *)
Lemma build_index_entry cs n L k hs h :
  chains_ok cs n -> (L < n)%nat ->
  In (k, hs) (nth L (build_index cs) []) -> In h hs ->
  exists c, In c cs /\ hd 0 c = h /\ nth L c 0 = k.
Proof.
  intros Hok HL Hin Hh. destruct (build_index_level cs n L Hok HL) as [_ Hp].
  assert (Hpair : In (h, k) (level_pairs (nth L (build_index cs) []))).
  { unfold level_pairs. apply in_flat_map. exists (k, hs). split; auto.
    unfold entry_pairs. simpl. apply in_map_iff. exists h; auto. }
  eapply Permutation_in in Hpair; [|exact Hp].
  apply in_map_iff in Hpair as (c & Hc & Hcin). inversion Hc; subst.
  exists c. split; [apply in_rev; auto|auto].
Qed.

Lemma build_index_keys_nodup cs n L :
  chains_ok cs n -> (L < n)%nat -> NoDup (map fst (nth L (build_index cs) [])).
Proof. intros Hok HL. destruct (build_index_level cs n L Hok HL); auto. Qed.
