(* C17/Beats.v — recvHeartbeat: after any sequence of heartbeats the monitor holds, for every tractserver that has
   beaten, exactly its LAST report (time and load); earlier reports have no influence on the candidate set. *)
From Coq Require Import List Arith NArith ZArith Bool Lia.
From BLB Require Import Lib.Shuffle C17.Model C17.Proofs.
Import ListNotations.

Definition addr_of (b : Z * Z * Z) : host := ts_addr (beat_data b).

Lemma upd_beat_addrs a d l : ts_addr d = a ->
  map ts_addr (upd_beat a d l) = if existsb (N.eqb a) (map ts_addr l) then map ts_addr l else map ts_addr l ++ [a].
Proof.
  intros Hd. induction l as [|x r IH]; simpl; [rewrite Hd; reflexivity|].
  rewrite (N.eqb_sym a). destruct (N.eqb_spec (ts_addr x) a) as [E|E]; simpl.
  - rewrite Hd, E. reflexivity.
  - rewrite IH. destruct (existsb (N.eqb a) (map ts_addr r)); reflexivity.
Qed.

Lemma upd_beat_nodup a d l : ts_addr d = a -> NoDup (map ts_addr l) -> NoDup (map ts_addr (upd_beat a d l)).
Proof.
  intros Hd Hn. rewrite upd_beat_addrs by exact Hd.
  destruct (existsb (N.eqb a) (map ts_addr l)) eqn:E; auto.
  apply NoDup_app_iff. repeat split; auto.
  - repeat constructor; simpl; tauto.
  - intros x Hx [Hax|[]]. subst x. assert (existsb (N.eqb a) (map ts_addr l) = true); [|congruence].
    apply existsb_exists. exists a. split; auto. apply N.eqb_refl.
Qed.

Lemma upd_beat_in a d l x : ts_addr d = a -> NoDup (map ts_addr l) ->
  In x (upd_beat a d l) <-> (x = d \/ (In x l /\ ts_addr x <> a)).
Proof.
  intros Hd. induction l as [|y r IH]; intros Hn; simpl.
  - split; [intros [H|[]]; auto | intros [H|[[] _]]; auto].
  - inversion Hn as [|? ? Hy Hr]; subst. destruct (N.eqb_spec (ts_addr y) (ts_addr d)) as [E|E]; simpl.
    + split.
      * intros [H|H]; auto. right. split; auto. intros Hx. apply Hy. rewrite E, <- Hx. apply in_map. exact H.
      * intros [H|[[H|H] Hne]]; auto. subst. congruence.
    + rewrite (IH Hr). split.
      * intros [H|[H|[H Hne]]]; auto. subst. auto.
      * intros [H|[[H|H] Hne]]; auto.
Qed.

Lemma apply_beats_nodup_gen bs : forall l, NoDup (map ts_addr l) -> NoDup (map ts_addr (fold_left recv_beat bs l)).
Proof.
  induction bs as [|b bs IH]; intros l Hn; simpl; auto.
  apply IH. unfold recv_beat. apply upd_beat_nodup; auto.
Qed.

(* the main statement: membership in the monitor after the beats = "is the last beat of its tractserver" *)
Lemma apply_beats_spec bs : forall l x, NoDup (map ts_addr l) ->
  In x (fold_left recv_beat bs l) <->
  ((exists pre b post, bs = pre ++ b :: post /\ x = beat_data b /\ Forall (fun b' => addr_of b' <> addr_of b) post) \/
   (In x l /\ Forall (fun b' => addr_of b' <> ts_addr x) bs)).
Proof.
  induction bs as [|b bs IH]; intros l x Hn; simpl.
  - split.
    + intros H. right. split; auto.
    + intros [(pre & b & post & E & _)|[H _]]; auto. destruct pre; discriminate.
  - rewrite IH by (unfold recv_beat; apply upd_beat_nodup; auto). unfold recv_beat. rewrite upd_beat_in by auto. split.
    + intros [(pre & b' & post & E & Hx & Hp)|[[Hx|[Hx Hne]] Hall]].
      * left. exists (b :: pre), b', post. subst. auto.
      * left. exists [], b, bs. subst. auto.
      * right. split; auto; try (constructor; auto).
    + intros [(pre & b' & post & E & Hx & Hp)|[Hx Hall]].
      * destruct pre as [|p pre]; simpl in E; inversion E; subst.
        -- right. split; auto.
        -- left. exists pre, b', post. auto.
      * inversion Hall; subst. right. split; auto; try (right; split; auto).
Qed.

Theorem last_heartbeat_wins bs x :
  In x (apply_beats bs) <->
  exists pre b post, bs = pre ++ b :: post /\ x = beat_data b /\ Forall (fun b' => addr_of b' <> addr_of b) post.
Proof.
  unfold apply_beats. rewrite apply_beats_spec by constructor. split.
  - intros [H|[[] _]]. exact H.
  - intros H. left. exact H.
Qed.

(* corollary for the candidate rule: whether a tractserver is a placement candidate depends only on its last beat *)
Corollary candidate_depends_on_last_beat cfg bs a :
  In a (candidates cfg (apply_beats bs)) <->
  exists pre b post, bs = pre ++ b :: post /\ addr_of b = a /\ can_host cfg (beat_data b) = true /\
                     Forall (fun b' => addr_of b' <> a) post.
Proof.
  unfold candidates. rewrite in_map_iff. split.
  - intros (x & Ha & Hin). apply filter_In in Hin as [Hin Hc]. apply last_heartbeat_wins in Hin as (pre & b & post & E & Hx & Hp).
    subst x. exists pre, b, post. repeat split; auto. unfold addr_of in *. rewrite <- Ha. exact Hp.
  - intros (pre & b & post & E & Ha & Hc & Hp). exists (beat_data b). split; auto. apply filter_In. split; auto.
    apply last_heartbeat_wins. exists pre, b, post. repeat split; auto. rewrite Ha. exact Hp.
Qed.

(* non-vacuity / the seeded regression: a roomy report followed by an all-zero one leaves no candidate *)
Example zero_report_replaces_roomy_one :
  candidates {| now := 100; start := 0; grace := 10; unhealthy_thr := 50; min_avail := 5 |}
             (apply_beats [(7, 90, 1000); (7, 95, 0)]%Z) = [] /\
  candidates {| now := 100; start := 0; grace := 10; unhealthy_thr := 50; min_avail := 5 |}
             (apply_beats [(7, 90, 0); (7, 95, 1000)]%Z) = [7%N].
Proof. split; reflexivity. Qed.
