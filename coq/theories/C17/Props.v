(* C17/Props.v — property-level theorems only (statements + `exact`), each followed by Print Assumptions.
   Tags [FULL]/[PARTIAL]/[REFUTED] are read by bin/check. *)
From Coq Require Import List NArith Permutation.
From BLB Require Import Lib.Shuffle C17.Model C17.Proofs C17.Index C17.Spread C17.Top C17.Names C17.NamesEnc C17.Beats.
Import ListNotations.

(* [FULL] for every reverse index whose levels partition the candidate set, every existing/down set, every
   requested count, every outcome of the random draws (o) and every map iteration order (perms): a returned
   allocation has exactly num servers, pairwise distinct, each a current candidate (healthy with room), none
   among the existing holders or the servers being replaced *)
Theorem alloc_sound :
  forall idx cands num exchains existing down o perms R,
    Forall (level_ok cands) idx ->
    allocate idx num exchains existing down o perms = Some R ->
    length R = num /\ NoDup R /\
    (forall r, In r R -> In r cands /\ ~ In r existing /\ ~ In r down).
Proof. exact alloc_sound_lemma. Qed.
Print Assumptions alloc_sound.

(* [FULL] all-or-nothing: either nothing is allocated or exactly the requested number (no partial result),
   with no hypothesis on the index at all *)
Theorem alloc_all_or_nothing :
  forall idx num exchains existing down o perms,
    allocate idx num exchains existing down o perms = None \/
    exists R, allocate idx num exchains existing down o perms = Some R /\ length R = num.
Proof. exact alloc_all_or_nothing_lemma. Qed.
Print Assumptions alloc_all_or_nothing.

(* [FULL] buildReverseIndex: for failure-domain chains of equal non-zero length with distinct hosts, every level
   of the reverse index partitions exactly the hosts (so alloc_sound applies to what the monitor builds) *)
Theorem build_index_wf :
  forall cs n, chains_ok cs n -> cs <> [] -> Forall (level_ok (map (hd 0%N) cs)) (build_index cs).
Proof. exact build_index_ok_lemma. Qed.
Print Assumptions build_index_wf.

(* [FULL] the whole path monitor data -> reverse index -> allocation, judged by the decidable specification
   alloc_verdict that the harness applies to the real allocateTS: for every uniform topology, every candidate
   order (map iteration), every existing set known to the failure-domain service (candidates or not: full and
   unhealthy holders included), every down set, count, random draws and level orders, a returned allocation
   satisfies every clause, including the per-level spread clause on nested forests (pairwise distinct
   holder-free domains, or every eligible domain of the level served) *)
Theorem alloc_meets_spec :
  forall topo cands cands' ex0 down num o perms R,
    topo_uniform topo = true -> (forall h, In h cands -> In h (map (hd 0%N) topo)) -> NoDup cands ->
    Permutation cands' cands ->
    (forall e, In e ex0 -> In e (map (hd 0%N) topo)) ->
    allocate (build_index (map (chain_of topo) cands')) num (map (chain_of topo) ex0) ex0 down o perms = Some R ->
    alloc_verdict topo cands ex0 down num false (Some R) = V_OK.
Proof. exact verdict_some_ok. Qed.
Print Assumptions alloc_meets_spec.

(* [FULL] completeness and the model as a whole: on nested forests, when nothing is allocated (and num > 0) fewer
   than num eligible servers exist; hence whatever the functional model returns - an allocation or nothing - is
   judged OK by the relational specification, for every input, random draw and map order. Together with
   alloc_meets_spec this makes the specification neither stronger nor weaker than the modelled algorithm *)
Theorem alloc_model_meets_spec :
  forall topo cands cands' ex0 down num o perms,
    topo_uniform topo = true -> (forall h, In h cands -> In h (map (hd 0%N) topo)) -> NoDup cands ->
    Permutation cands' cands ->
    (forall e, In e ex0 -> In e (map (hd 0%N) topo)) -> topo_nested topo = true ->
    alloc_verdict topo cands ex0 down num false
      (allocate (build_index (map (chain_of topo) cands')) num (map (chain_of topo) ex0) ex0 down o perms) = V_OK.
Proof. exact verdict_model_ok. Qed.
Print Assumptions alloc_model_meets_spec.

(* [REFUTED] the allocation algorithm WITHOUT the explicit failure-domain lookup for existing holders (the code
   before the repair; exchains = nil) violates the spread clause when a holder is healthy-but-full and hence
   absent from the reverse index: concrete monitor state, topology and draws for which the allocation lands in
   the holder's rack although another rack has room, while the repaired algorithm picks the other rack *)
Theorem alloc_spread_needs_domain_lookup_refuted :
  exists topo cfg tss num existing down o perms R R',
    topo_uniform topo = true /\ topo_nested topo = true /\
    allocate (build_index (map (chain_of topo) (candidates cfg tss))) num [] existing down o perms = Some R /\
    alloc_verdict topo (candidates cfg tss) existing down num false (Some R) = V_SPREAD_HIDDEN_EXISTING /\
    allocate_from_monitor cfg tss topo [] num existing down o perms = Some R' /\
    alloc_verdict topo (candidates cfg tss) existing down num false (Some R') = V_OK.
Proof. exact hidden_existing_witness. Qed.
Print Assumptions alloc_spread_needs_domain_lookup_refuted.

(* [FULL] RackBasedFailureDomain.GetFailureDomain (the failure-domain service the placement consults; byte-level
   model compared with the real function on every run): for every host name written by the convention
   "letters ++ digits" the rack name is exactly the letters part and the cluster name its first two bytes, so two
   hosts get the same rack name iff their letters parts are equal (names are globally unique: racks with the same
   rack letters under different clusters stay different); for ALL names whatsoever the rack name determines the
   cluster name, the host name is rack name ++ digits and the rack name is cluster name ++ suffix *)
Theorem rack_based_domain_names_unique_and_nested :
  (forall l d, no_trailing_digit l -> all_digits d ->
     rack_of (l ++ d) = l /\ cluster_of (l ++ d) = (if Nat.ltb 2 (length l) then firstn 2 l else l)) /\
  (forall l1 d1 l2 d2, no_trailing_digit l1 -> all_digits d1 -> no_trailing_digit l2 -> all_digits d2 ->
     (rack_of (l1 ++ d1) = rack_of (l2 ++ d2) <-> l1 = l2)) /\
  (forall h1 h2, rack_of h1 = rack_of h2 -> cluster_of h1 = cluster_of h2) /\
  (forall h, exists d t, h = rack_of h ++ d /\ all_digits d /\ no_trailing_digit (rack_of h) /\
                         rack_of h = cluster_of h ++ t).
Proof. exact rack_names_facts. Qed.
Print Assumptions rack_based_domain_names_unique_and_nested.

(* [FULL] placement through RackBasedFailureDomain: for EVERY set of distinct host names (convention or not) the
   topology the service derives is a uniform nested forest, hence the whole path names -> chains -> reverse index
   -> allocation returns, for every candidate set, existing/down set, count, random draw and map order, only
   results the specification judges OK - including "nothing only when infeasible" (the completeness clause that
   alloc_model_meets_spec states under the hypothesis `nested`, discharged here for the shipped service) *)
Theorem placement_through_rack_based_domains_meets_spec :
  forall names cands cands' ex0 down num o perms,
    NoDup names ->
    (forall h, In h cands -> In h (map (hd 0%N) (rack_topology names))) -> NoDup cands ->
    Permutation cands' cands ->
    (forall e, In e ex0 -> In e (map (hd 0%N) (rack_topology names))) ->
    alloc_verdict (rack_topology names) cands ex0 down num false
      (allocate (build_index (map (chain_of (rack_topology names)) cands')) num
                (map (chain_of (rack_topology names)) ex0) ex0 down o perms) = V_OK.
Proof. exact rack_placement_ok. Qed.
Print Assumptions placement_through_rack_based_domains_meets_spec.

(* [FULL] recvHeartbeat (the monitor state the candidate rule reads): after ANY sequence of heartbeats, a tractserver is a
   placement candidate iff its LAST report makes it one (healthy at `now` by that report's time, room above the floor
   by that report's load); no earlier report - in particular an earlier roomy one before a report of no space at all -
   has any influence.  The real monitor is driven with such histories on every run (op 6) *)
Theorem last_heartbeat_decides_candidacy :
  forall cfg bs a,
    In a (candidates cfg (apply_beats bs)) <->
    exists pre b post, bs = pre ++ b :: post /\ addr_of b = a /\ can_host cfg (beat_data b) = true /\
                       Forall (fun b' => addr_of b' <> a) post.
Proof. exact candidate_depends_on_last_beat. Qed.
Print Assumptions last_heartbeat_decides_candidacy.
