(* C17/Props.v — property-level theorems only (statements + `exact`), each followed by Print Assumptions.
   Tags [FULL]/[PARTIAL]/[REFUTED] are read by bin/check. *)
From Coq Require Import List NArith Permutation.
From BLB Require Import Lib.Shuffle C17.Model C17.Proofs.
Import ListNotations.

(* [FULL] for every reverse index whose levels partition the candidate set, every existing/down set, every
   requested count, every outcome of the random draws (o) and every map iteration order (perms): a returned
   allocation has exactly num servers, pairwise distinct, each a current candidate (healthy with room), none
   among the existing holders or the servers being replaced *)
Theorem alloc_sound :
  forall idx cands num existing down o perms R,
    Forall (level_ok cands) idx ->
    allocate idx num existing down o perms = Some R ->
    length R = num /\ NoDup R /\
    (forall r, In r R -> In r cands /\ ~ In r existing /\ ~ In r down).
Proof. exact alloc_sound_lemma. Qed.
Print Assumptions alloc_sound.

(* [FULL] all-or-nothing: either nothing is allocated or exactly the requested number (no partial result),
   with no hypothesis on the index at all *)
Theorem alloc_all_or_nothing :
  forall idx num existing down o perms,
    allocate idx num existing down o perms = None \/
    exists R, allocate idx num existing down o perms = Some R /\ length R = num.
Proof. exact alloc_all_or_nothing_lemma. Qed.
Print Assumptions alloc_all_or_nothing.
