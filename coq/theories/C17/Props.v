(* C17/Props.v — property-level theorems only (statements + `exact`), each followed by Print Assumptions.
   Tags [FULL]/[PARTIAL]/[REFUTED] are read by bin/check. *)
From Coq Require Import List NArith Permutation.
From BLB Require Import Lib.Shuffle C17.Model C17.Proofs C17.Index C17.Spread C17.Top.
Import ListNotations.

(* [FULL] for every reverse index whose levels partition the candidate set, every existing/down set, every
   requested count, every outcome of the random draws (o) and every map iteration order (perms): a returned
   allocation has exactly num servers, pairwise distinct, each a current candidate (healthy with room), none
   among the existing holders or the servers being replaced *)
Theorem alloc_sound :
  forall idx cands num exchains existing down o perms R,
    Forall (level_ok cands) idx ->
    allocate idx num exchains existing down o perms = Some R ->
    length R = num /\ NoDup R /\
    (forall r, In r R -> In r cands /\ ~ In r existing /\ ~ In r down).
Proof. exact alloc_sound_lemma. Qed.
Print Assumptions alloc_sound.

(* [FULL] all-or-nothing: either nothing is allocated or exactly the requested number (no partial result),
   with no hypothesis on the index at all *)
Theorem alloc_all_or_nothing :
  forall idx num exchains existing down o perms,
    allocate idx num exchains existing down o perms = None \/
    exists R, allocate idx num exchains existing down o perms = Some R /\ length R = num.
Proof. exact alloc_all_or_nothing_lemma. Qed.
Print Assumptions alloc_all_or_nothing.

(* [FULL] buildReverseIndex: for failure-domain chains of equal non-zero length with distinct hosts, every level
   of the reverse index partitions exactly the hosts (so alloc_sound applies to what the monitor builds) *)
Theorem build_index_wf :
  forall cs n, chains_ok cs n -> cs <> [] -> Forall (level_ok (map (hd 0%N) cs)) (build_index cs).
Proof. exact build_index_ok_lemma. Qed.
Print Assumptions build_index_wf.

(* [FULL] the whole path monitor data -> reverse index -> allocation, judged by the decidable specification
   alloc_verdict that the harness applies to the real allocateTS: for every uniform topology, every candidate
   order (map iteration), every existing set known to the failure-domain service (candidates or not: full and
   unhealthy holders included), every down set, count, random draws and level orders, a returned allocation
   satisfies every clause, including the per-level spread clause on nested forests (pairwise distinct
   holder-free domains, or every eligible domain of the level served) *)
Theorem alloc_meets_spec :
  forall topo cands cands' ex0 down num o perms R,
    topo_uniform topo = true -> (forall h, In h cands -> In h (map (hd 0%N) topo)) -> NoDup cands ->
    Permutation cands' cands ->
    (forall e, In e ex0 -> In e (map (hd 0%N) topo)) ->
    allocate (build_index (map (chain_of topo) cands')) num (map (chain_of topo) ex0) ex0 down o perms = Some R ->
    alloc_verdict topo cands ex0 down num false (Some R) = V_OK.
Proof. exact verdict_some_ok. Qed.
Print Assumptions alloc_meets_spec.

(* [FULL] completeness and the model as a whole: on nested forests, when nothing is allocated (and num > 0) fewer
   than num eligible servers exist; hence whatever the functional model returns - an allocation or nothing - is
   judged OK by the relational specification, for every input, random draw and map order. Together with
   alloc_meets_spec this makes the specification neither stronger nor weaker than the modelled algorithm *)
Theorem alloc_model_meets_spec :
  forall topo cands cands' ex0 down num o perms,
    topo_uniform topo = true -> (forall h, In h cands -> In h (map (hd 0%N) topo)) -> NoDup cands ->
    Permutation cands' cands ->
    (forall e, In e ex0 -> In e (map (hd 0%N) topo)) -> topo_nested topo = true ->
    alloc_verdict topo cands ex0 down num false
      (allocate (build_index (map (chain_of topo) cands')) num (map (chain_of topo) ex0) ex0 down o perms) = V_OK.
Proof. exact verdict_model_ok. Qed.
Print Assumptions alloc_model_meets_spec.

(* [REFUTED] the allocation algorithm WITHOUT the explicit failure-domain lookup for existing holders (the code
   before the repair; exchains = nil) violates the spread clause when a holder is healthy-but-full and hence
   absent from the reverse index: concrete monitor state, topology and draws for which the allocation lands in
   the holder's rack although another rack has room, while the repaired algorithm picks the other rack *)
Theorem alloc_spread_needs_domain_lookup_refuted :
  exists topo cfg tss num existing down o perms R R',
    topo_uniform topo = true /\ topo_nested topo = true /\
    allocate (build_index (map (chain_of topo) (candidates cfg tss))) num [] existing down o perms = Some R /\
    alloc_verdict topo (candidates cfg tss) existing down num false (Some R) = V_SPREAD_HIDDEN_EXISTING /\
    allocate_from_monitor cfg tss topo [] num existing down o perms = Some R' /\
    alloc_verdict topo (candidates cfg tss) existing down num false (Some R') = V_OK.
Proof. exact hidden_existing_witness. Qed.
Print Assumptions alloc_spread_needs_domain_lookup_refuted.
