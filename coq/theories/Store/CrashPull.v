(* Store/CrashPull.v — a PullTract (any fault position) whose PRE-CHECK disk calls all succeed never lowers
   the visible or the durable version of an existing copy: it refuses a newer local copy, and re-copies
   over an equal or older one.  Hence the only version-lowering events of the crash model are a power
   loss (visible falls back to durable) and a PullTract whose pre-check Open/Close hits an I/O error. *)
From Coq Require Import List NArith ZArith Bool Lia.
From BLB Require Import Gen.Consts Store.Bytes Store.MapProofs Store.Model Store.Proofs Store.WF Store.Conflict
     Store.Mono Store.Steps Store.Monotone Store.Crash Store.CrashProofs Store.CrashInv.
Import ListNotations.
Open Scope N_scope.

(* does the Open or the Close of pullTractOnce's look at the local copy fail in this round *)
Definition precheck_err (cs : cstore) (f : fault) (t : tract) : bool :=
  match lookup (vs cs) t with
  | Some (slot, _) =>
      match disk_of (vs cs) slot with
      | Some pd => fst (tick f) ||
                   match copy (vs cs) pd t with Some _ => fst (tick (snd (tick f))) | None => false end
      | None => false
      end
  | None => false
  end.

(* the pre-check calls succeed in every source round of the PullTract *)
Fixpoint pre_ok (cs : cstore) (f : fault) (t : tract) (srcs : list (Z * rle)) (v : Z) (orc : N) : Prop :=
  match srcs with
  | [] => True
  | r :: rest =>
      precheck_err cs f t = false /\
      (let '(cs1, f1, e) := x_pull_once cs f t r v orc in
       if (e =? E_OK)%Z then True else pre_ok cs1 f1 t rest v orc)
  end.

(* what such a PullTract of (t, v) may do to the copy of t on one disk *)
Section PullRel.
  Variable t : tract.
  Variable v : Z.

  Definition at_least_v (fl : file) : Prop := exists c, f_ver fl = Some c /\ (v <= c)%Z.

  Definition prel (cs cs' : cstore) (pd : N) : Prop :=
    (* in place: neither version lowered *)
    (exists f f', copy (vs cs) pd t = Some f /\ copy (vs cs') pd t = Some f' /\ ver_le f f' /\
                  (forall g, durable_copy cs pd t = Some g -> exists g', durable_copy cs' pd t = Some g' /\ ver_le g g') /\
                  (forall g', durable_copy cs' pd t = Some g' -> ver_le g' f')) \/
    (* gone: what was there was not newer than v *)
    (copy (vs cs') pd t = None /\ durable_copy cs' pd t = None /\
     forall f, copy (vs cs) pd t = Some f -> vle f v) \/
    (* (re)installed at >= v, synced: what was there was not newer than v *)
    ((exists f', copy (vs cs') pd t = Some f' /\ at_least_v f') /\
     (exists g', durable_copy cs' pd t = Some g' /\ at_least_v g') /\
     forall f, copy (vs cs) pd t = Some f -> vle f v).

  Lemma vle_of_ver_le : forall f0 f1, ver_le f0 f1 -> vle f1 v -> vle f0 v.
  Proof.
    intros f0 f1 L V c Hc. destruct (L c Hc) as (c1 & H1 & L1). specialize (V c1 H1). lia.
  Qed.

  Lemma at_least_ver_le : forall f0 f1, at_least_v f0 -> ver_le f0 f1 -> at_least_v f1.
  Proof.
    intros f0 f1 (c & Hc & L) V. destruct (V c Hc) as (c1 & H1 & L1). exists c1. split; [exact H1|lia].
  Qed.

  Lemma prel_trans : forall a b c pd, prel a b pd -> prel b c pd -> prel a c pd.
  Proof.
    intros a b c pd H1 H2.
    destruct H1 as [(f0 & f1 & A0 & A1 & L01 & Dm1 & Dl1)|[(G1 & GD1 & P1)|((f1 & N1 & AL1) & (g1 & ND1 & AG1) & P1)]];
      destruct H2 as [(f1' & f2 & B1 & B2 & L12 & Dm2 & Dl2)|[(G2 & GD2 & P2)|((f2 & N2 & AL2) & (g2 & ND2 & AG2) & P2)]].
    - rewrite A1 in B1. inversion B1; subst f1'. left. exists f0, f2.
      split; [exact A0|]. split; [exact B2|]. split; [eapply ver_le_trans; eauto|]. split; [|exact Dl2].
      intros g Hg. destruct (Dm1 g Hg) as (g' & Hg' & L'). destruct (Dm2 g' Hg') as (g'' & Hg'' & L'').
      exists g''. split; [exact Hg''|eapply ver_le_trans; eauto].
    - right; left. split; [exact G2|]. split; [exact GD2|]. intros f Hf. rewrite A0 in Hf. inversion Hf; subst.
      apply (vle_of_ver_le f f1 L01). now apply P2.
    - right; right. split; [eauto|]. split; [eauto|]. intros f Hf. rewrite A0 in Hf. inversion Hf; subst.
      apply (vle_of_ver_le f f1 L01). now apply P2.
    - congruence.
    - right; left. auto.
    - right; right. split; [eauto|]. split; [eauto|]. exact P1.
    - rewrite N1 in B1. inversion B1; subst f1'. right; right. split; [|split; [|exact P1]].
      + exists f2. split; [exact B2|exact (at_least_ver_le f1 f2 AL1 L12)].
      + destruct (Dm2 g1 ND1) as (g2 & Hg2 & L2). exists g2. split; [exact Hg2|exact (at_least_ver_le g1 g2 AG1 L2)].
    - right; left. auto.
    - right; right. split; [eauto|]. split; [eauto|]. exact P1.
  Qed.

  (* a transition that keeps or deletes copies, deleting only what is not newer than v *)
  Lemma prel_of_kstepNI : forall cs cs' pd,
      kstepNI cs cs' pd t ->
      (copy (vs cs') pd t = copy (vs cs) pd t \/ forall f, copy (vs cs) pd t = Some f -> vle f v) ->
      prel cs cs' pd.
  Proof.
    intros cs cs' pd [[G GD]|B] H; [|now left].
    right; left. repeat split; auto. destruct H as [E|P]; [|exact P].
    intros f Hf. rewrite <- E, G in Hf. discriminate.
  Qed.

  (* the conclusions *)
  Lemma prel_visible : forall cs cs' pd fl fl',
      prel cs cs' pd -> copy (vs cs) pd t = Some fl -> copy (vs cs') pd t = Some fl' -> ver_le fl fl'.
  Proof.
    intros cs cs' pd fl fl' [(f0 & f1 & A0 & A1 & L & _)|[(G & _)|((f1 & N1 & (c & Hc & Lc)) & _ & P)]] C C'.
    - rewrite C in A0. rewrite C' in A1. inversion A0. inversion A1. subst. exact L.
    - congruence.
    - rewrite C' in N1. inversion N1; subst f1. intros c0 H0. exists c. split; [exact Hc|].
      specialize (P fl C c0 H0). lia.
  Qed.

  Lemma prel_durable : forall cs cs' pd g g',
      DI cs -> prel cs cs' pd -> durable_copy cs pd t = Some g -> durable_copy cs' pd t = Some g' -> ver_le g g'.
  Proof.
    intros cs cs' pd g g' D [(f0 & f1 & _ & _ & _ & Dm & _)|[(_ & GD & _)|(_ & (g1 & ND & (c & Hc & Lc)) & P)]] Dg Dg'.
    - destruct (Dm g Dg) as (g2 & H2 & L). rewrite Dg' in H2. inversion H2; subst. exact L.
    - congruence.
    - rewrite Dg' in ND. inversion ND; subst g1. intros c0 H0. exists c. split; [exact Hc|].
      destruct (durable_le_visible cs pd t g D Dg) as (f & Cf & Lf).
      destruct (Lf c0 H0) as (c1 & H1 & L1). specialize (P f Cf c1 H1). lia.
  Qed.
End PullRel.

(* ---------- one source round ---------- *)
Lemma prel_refl : forall t v cs pd, cinv cs -> prel t v cs cs pd.
Proof.
  intros t v cs pd I. apply prel_of_kstepNI; [now apply goodNI_refl|now left].
Qed.

Lemma prel_sync : forall t v cs pd0 pd, cinv cs -> prel t v cs (d_clear cs pd0 t) pd.
Proof.
  intros t v cs pd0 pd I. apply prel_of_kstepNI; [now apply goodNI_sync|now left].
Qed.

Lemma prel_rm : forall t v cs pd,
    cinv cs -> (forall f, cur (vs cs) t = Some f -> vle f v) -> prel t v cs (fst (x_remove_tract cs t)) pd.
Proof.
  intros t v cs pd I HV. apply prel_of_kstepNI; [now apply goodNI_rm|].
  unfold x_remove_tract. pose proof (remove_tract_effect (vs cs) t) as Eff.
  destruct (remove_tract (vs cs) t) as [s' e]. simpl in *.
  destruct Eff as [->|(pd0 & f & Cu & C & _ & _ & E)]; [now left|].
  rewrite E, N.eqb_refl, andb_true_r. destruct (pd =? pd0) eqn:X; [|now left].
  apply N.eqb_eq in X. subst pd. right. intros f0 Hf. rewrite C in Hf. inversion Hf; subst. now apply HV.
Qed.

Lemma x_pull_pre_prel : forall cs f t v pd,
    cinv cs -> precheck_err cs f t = false ->
    prel t v cs (fst (fst (x_pull_pre cs f t v))) pd /\
    (snd (x_pull_pre cs f t v) = None -> lookup (vs (fst (fst (x_pull_pre cs f t v)))) t = None).
Proof.
  intros cs f t v pd I PE. unfold x_pull_pre, precheck_err in *.
  destruct (lookup (vs cs) t) as [[slot st]|] eqn:L; [|split; [now apply prel_refl|auto]].
  destruct (disk_of (vs cs) slot) as [pd0|] eqn:D; [|split; [now apply prel_refl|discriminate]].
  apply orb_false_iff in PE. destruct PE as [T1 T2].
  unfold x_open. destruct (tick f) as [h1 f1]. simpl in T1, T2. subst h1.
  assert (RMOK : forall c0, lookup (vs (fst (x_remove_tract c0 t))) t = None \/ snd (x_remove_tract c0 t) <> E_OK).
  { intros c0. unfold x_remove_tract. pose proof (remove_tract_ok_lookup (vs c0) t) as K.
    destruct (remove_tract (vs c0) t) as [s' e]. simpl in *. destruct (Z.eq_dec e E_OK); auto. }
  destruct (copy (vs cs) pd0 t) as [fl|] eqn:C.
  - change (E_OK =? E_OK)%Z with true. cbv beta iota.
    unfold getver. rewrite C. unfold x_close_if, x_close. destruct (tick f1) as [h2 f2]. simpl in T2. subst h2.
    assert (Cu : cur (vs cs) t = Some fl).
    { unfold cur, open_existing. rewrite L, D. unfold copy in C. now rewrite C. }
    destruct (f_ver fl) as [cur|] eqn:V.
    + change (E_OK =? E_OK)%Z with true. cbn [andb fst snd].
      destruct (v <? cur)%Z eqn:X; cbn [fst snd].
      * split; [now apply prel_sync|discriminate].
      * pose proof (goodNI_sync cs pd0 t I) as [I2 _].
        pose proof (prel_rm t v (d_clear cs pd0 t) pd I2) as PR.
        pose proof (RMOK (d_clear cs pd0 t)) as RO.
        destruct (x_remove_tract (d_clear cs pd0 t) t) as [cs3 e3]. simpl in *. split.
        -- eapply prel_trans; [now apply prel_sync|]. apply PR. intros f0 Hf.
           change (vs (d_clear cs pd0 t)) with (vs cs) in Hf. rewrite Cu in Hf. inversion Hf; subst f0.
           intros c Hc. rewrite V in Hc. inversion Hc; subst. now apply Z.ltb_ge in X.
        -- destruct (e3 =? E_OK)%Z eqn:Y; [|discriminate]. intros _. apply Z.eqb_eq in Y.
           destruct RO; [assumption|contradiction].
    + cbn [fst snd].
      pose proof (goodNI_sync cs pd0 t I) as [I2 _].
      pose proof (prel_rm t v (d_clear cs pd0 t) pd I2) as PR.
      pose proof (RMOK (d_clear cs pd0 t)) as RO.
      destruct (x_remove_tract (d_clear cs pd0 t) t) as [cs3 e3]. simpl in *. split.
      * eapply prel_trans; [now apply prel_sync|]. apply PR. intros f0 Hf.
        change (vs (d_clear cs pd0 t)) with (vs cs) in Hf. rewrite Cu in Hf. inversion Hf; subst f0.
        intros c Hc. congruence.
      * destruct (e3 =? E_OK)%Z eqn:Y; [|discriminate]. intros _. apply Z.eqb_eq in Y.
        destruct RO; [assumption|contradiction].
  - change (E_NoSuchTract =? E_OK)%Z with false. cbv beta iota. cbn [x_close_if fst snd].
    pose proof (prel_rm t v cs pd I) as PR. pose proof (RMOK cs) as RO.
    destruct (x_remove_tract cs t) as [cs3 e3]. simpl in *. split.
    + apply PR. intros f0 Hf. unfold cur, open_existing in Hf. rewrite L, D in Hf. unfold copy in C.
      rewrite C in Hf. discriminate.
    + destruct (e3 =? E_OK)%Z eqn:Y; [|discriminate]. intros _. apply Z.eqb_eq in Y.
      destruct RO; [assumption|contradiction].
Qed.

Lemma x_do_create_prel : forall cs f t v d orc pd,
    cinv cs -> lookup (vs cs) t = None ->
    prel t v cs (fst (fst (x_do_create cs f t v d 0 orc))) pd.
Proof.
  intros cs f t v d orc pd I L. unfold x_do_create. rewrite L.
  destruct (x_pick (vs cs) f orc) as [[slot pd1]|e] eqn:P; [|now apply prel_refl].
  apply x_pick_ok in P. destruct (tick f) as [h1 f1].
  destruct (copy (vs cs) pd1 t) as [fl|] eqn:C.
  - (* a stray file cannot exist in a well-formed state *)
    exfalso. destruct I as [(_ & _ & B) _]. destruct (B slot pd1 t P) as [st Hs]; [congruence|].
    unfold lookup in L. congruence.
  - destruct h1; [now apply prel_refl|]. destruct (tick f1) as [h2 f2]. destruct h2; [now apply prel_refl|].
    destruct (tick f2) as [h3 f3]. destruct h3; [now apply prel_refl|].
    destruct (tick f3) as [h4 f4]. destruct h4; [now apply prel_refl|]. cbn [fst].
    pose proof (good_install cs t slot pd1 (mkfile (Some v) (rle_write [] d 0)) (stamp0 (vs cs)) L P C I) as [I' K].
    set (cs' := with_vs cs _) in *.
    destruct (N.eq_dec pd pd1) as [->|Hne].
    + right; right.
      assert (CV : copy (vs cs') pd1 t = Some (mkfile (Some v) (rle_write [] d 0))).
      { unfold cs'. simpl. rewrite copy_set_table, copy_put_file, !N.eqb_refl. reflexivity. }
      assert (AL : at_least_v v (mkfile (Some v) (rle_write [] d 0))) by (exists v; split; [reflexivity|lia]).
      split; [eauto|]. split; [|intros f0 Hf; congruence].
      exists (mkfile (Some v) (rle_write [] d 0)). split; [|exact AL].
      unfold durable_copy. change (dirty cs') with (dirty cs).
      destruct (d_find pd1 t (dirty cs)) as [img|] eqn:F; [|exact CV].
      exfalso. apply d_find_some_in in F. destruct I as [_ [_ E]]. destruct (E pd1 t img F) as (f0 & C0 & _). congruence.
    + destruct (K pd t) as [G|[B|(Cn & _ & f' & C' & _)]].
      * apply prel_of_kstepNI; [now left|]. left. unfold cs'. simpl.
        rewrite copy_set_table, copy_put_file. apply N.eqb_neq in Hne. now rewrite Hne.
      * now left.
      * exfalso. unfold cs' in C'. simpl in C'. rewrite copy_set_table, copy_put_file in C'.
        apply N.eqb_neq in Hne. rewrite Hne in C'. simpl in C'. congruence.
Qed.

Lemma x_do_create_fail_lookup : forall cs f t ver d off orc,
    lookup (vs cs) t = None -> snd (x_do_create cs f t ver d off orc) <> E_OK ->
    lookup (vs (fst (fst (x_do_create cs f t ver d off orc)))) t = None.
Proof.
  intros cs f t ver d off orc L. unfold x_do_create. rewrite L.
  destruct (x_pick (vs cs) f orc) as [[slot pd1]|e]; [|auto].
  destruct (tick f) as [h1 f1]. destruct (copy (vs cs) pd1 t); [intros _; exact L|].
  destruct h1; [auto|]. destruct (tick f1) as [h2 f2]. destruct h2; [auto|].
  destruct (tick f2) as [h3 f3]. destruct h3; [auto|].
  destruct (tick f3) as [h4 f4]. destruct h4; [auto|]. simpl. intros H. congruence.
Qed.

Lemma x_pull_once_prel : forall cs f t r v orc pd,
    cinv cs -> precheck_err cs f t = false -> prel t v cs (fst (fst (x_pull_once cs f t r v orc))) pd.
Proof.
  intros cs f t [re data] v orc pd I PE. unfold x_pull_once.
  destruct (x_pull_pre_prel cs f t v pd I PE) as [P1 L1].
  pose proof (cinv_x_pull_pre cs f t v I) as I1.
  destruct (x_pull_pre cs f t v) as [[cs1 f1] r]. simpl in *.
  destruct r as [e|]; [exact P1|]. specialize (L1 eq_refl).
  destruct (negb (re =? E_OK)%Z && negb (re =? E_EOF)%Z); [exact P1|].
  pose proof (x_do_create_prel cs1 f1 t v data orc pd I1 L1) as P2.
  pose proof (good_x_do_create cs1 f1 t v data 0 orc I1) as [I2 _].
  pose proof (x_do_create_fail_lookup cs1 f1 t v data 0 orc L1) as FL.
  destruct (x_do_create cs1 f1 t v data 0 orc) as [[cs2 f2] ce]. simpl in *.
  destruct (ce =? E_OK)%Z eqn:X; cbn [fst]; [eapply prel_trans; eauto|].
  apply Z.eqb_neq in X. specialize (FL X).
  eapply prel_trans; [exact P1|]. eapply prel_trans; [exact P2|].
  apply prel_of_kstepNI; [now apply goodNI_rm|]. left.
  unfold x_remove_tract. rewrite (remove_tract_unserved (vs cs2) t FL). reflexivity.
Qed.

Lemma x_pull_all_prel : forall srcs cs f t v orc last pd,
    cinv cs -> pre_ok cs f t srcs v orc -> prel t v cs (fst (fst (x_pull_all cs f t srcs v orc last))) pd.
Proof.
  induction srcs as [|r rest IH]; intros cs f t v orc last pd I PO; simpl; [now apply prel_refl|].
  simpl in PO. destruct PO as [PE PO].
  pose proof (x_pull_once_prel cs f t r v orc pd I PE) as P1.
  pose proof (cinv_x_pull_once cs f t r v orc I) as I1.
  destruct (x_pull_once cs f t r v orc) as [[cs1 f1] e]. simpl in *.
  destruct (e =? E_OK)%Z; [exact P1|]. eapply prel_trans; [exact P1|]. now apply IH.
Qed.

(* ---------- the theorems ---------- *)
(* the operations after which versions cannot have gone down: everything, with any fault position, except a
   PullTract one of whose pre-check disk calls fails *)
Definition x_ok (cs : cstore) (f : fault) (o : op) : Prop :=
  match o with PullTract t srcs v orc => pre_ok cs f t srcs v orc | _ => True end.

Theorem faulted_pull_refuses_newer : forall cs f t srcs v orc pd t0,
    cinv cs -> pre_ok cs f t srcs v orc ->
    let cs' := fst (x_step cs f (PullTract t srcs v orc)) in
    (forall fl fl', copy (vs cs) pd t0 = Some fl -> copy (vs cs') pd t0 = Some fl' -> ver_le fl fl') /\
    (forall g g', durable_copy cs pd t0 = Some g -> durable_copy cs' pd t0 = Some g' -> ver_le g g').
Proof.
  intros cs f t srcs v orc pd t0 I PO. simpl.
  pose proof (x_pull_all_prel srcs cs f t v orc E_OK pd I PO) as PR.
  pose proof (os_x_pull_all srcs t cs f v orc E_OK I pd t0) as OS.
  destruct (x_pull_all cs f t srcs v orc E_OK) as [[cs1 f1] e]. simpl in *.
  destruct (N.eq_dec t0 t) as [->|Hne].
  - split; [intros; eapply prel_visible; eauto|intros; eapply prel_durable; eauto; apply I].
  - destruct (OS Hne) as [A B]. split.
    + intros fl fl' C C'. rewrite A, C in C'. inversion C'. apply ver_le_refl.
    + intros g g' Dg Dg'. rewrite B, Dg in Dg'. inversion Dg'. apply ver_le_refl.
Qed.

(* a newer local copy makes such a PullTract refuse: nothing visible changes (the look at the copy syncs it) *)
Theorem faulted_pull_newer_refused : forall cs f t r v orc pd fl c,
    precheck_err cs f t = false ->
    open_existing (vs cs) t = Op_ok pd fl -> f_ver fl = Some c -> (v < c)%Z ->
    x_pull_once cs f t r v orc = (d_clear cs pd t, snd (tick (snd (tick f))), E_InvalidState).
Proof.
  intros cs f t r v orc pd fl c PE HO Hv Hlt.
  apply open_existing_ok in HO. destruct HO as (slot & st & L & D & C).
  unfold x_pull_once, x_pull_pre, precheck_err in *. unfold lookup in *. rewrite L in *. rewrite D in *.
  rewrite C in PE. apply orb_false_iff in PE. destruct PE as [T1 T2].
  unfold x_open. destruct (tick f) as [h1 f1]. simpl in *. subst h1. rewrite C.
  change (E_OK =? E_OK)%Z with true. cbv beta iota. unfold getver. rewrite C, Hv.
  unfold x_close_if, x_close. destruct (tick f1) as [h2 f2]. simpl in *. subst h2.
  change (E_OK =? E_OK)%Z with true. cbn [andb].
  assert (X : (v <? c)%Z = true) by now apply Z.ltb_lt. rewrite X. reflexivity.
Qed.

(* summary: under ANY fault position no operation lowers a copy's visible or durable version, except a
   PullTract whose pre-check disk call fails; a power loss never lowers the durable version *)
Theorem versions_only_lowered_by_named_events : forall cs f o pd t,
    cinv cs -> x_ok cs f o ->
    let cs' := fst (x_step cs f o) in
    (forall fl fl', copy (vs cs) pd t = Some fl -> copy (vs cs') pd t = Some fl' -> ver_le fl fl') /\
    (forall g g', durable_copy cs pd t = Some g -> durable_copy cs' pd t = Some g' -> ver_le g g').
Proof.
  intros cs f o pd t I OK.
  destruct (is_pull o) eqn:P.
  - destruct o; try discriminate. now apply faulted_pull_refuses_newer.
  - split.
    + intros fl fl'. now apply x_visible_monotone.
    + intros g g'. exact (x_durable_monotone cs (XOp f o) pd t g g' I P).
Qed.
