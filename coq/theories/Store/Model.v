(* Store/Model.v — sequential executable model of internal/tractserver.Store
   (store.go, store_internal.go, check_tracts_loop.go) over its Disk interface (disk.go MemDisk,
   manager.go Manager + pkg/disk xattr/ChecksumFile seen as "a file with a version attribute").

   Shared by C09 (this file, sequential) and C18 (concurrency layer, Store/Conc*.v, to be added on
   top: the per-tract busy map, open-handle counts and interleavings are NOT in this file; every
   operation here is one whole Store.* call executed alone, i.e. tryLockTract always succeeds).

   What is a state:
     disks   physical disk id -> tract -> file (version xattr option, content).  Physical disks outlive
             the Store object: they are what survives Restart and RemoveDisk.
     noalloc physical disks whose control flags say StopAllocating (persistent with the disk).
     slots   Store.disks[i]: slot index -> physical disk attached there (absent = nil disk).
     table   Store.tracts: tract -> (slot, mod stamp).
     epoch   identifies the Store object: NewStore draws initialStamp from the clock; the model
             writes a stamp as (epoch, number of bumps since it was last set to initialStamp).
     mgr     which Disk implementation is underneath (only the error code of a file without a
             version attribute depends on it).
   Not modelled: the failures map (nothing in the sequential alphabet populates it: the error codes
   that maybeReportError records - ErrCorruptData, ErrIO, ErrNoAttribute - need injected disk faults),
   the metadata tract (hidden from ReadDir), PackTracts/RSEncode, drain and scrub loops.
   Go panics that the code can reach are results with error code [E_PANIC] (model guards, see
   DESIGN.md section 6: AddDisk with all slots used, RemoveDisk of an unknown root, a table entry
   pointing at an empty slot).  Randomness of pickDiskForNewTract is an oracle input ([orc] = the
   slot that was picked).
   Definitions only; proofs live in Store/Proofs*.v. *)
From Coq Require Import List NArith ZArith Bool.
From BLB Require Import Gen.Consts Store.Bytes.
Import ListNotations.
Open Scope N_scope.

(* ---------- error codes (regenerated from internal/core/errors.go on every run) ---------- *)
Definition E_OK : Z := st_NoError.
Definition E_EOF : Z := st_EOF.
Definition E_NoSuchTract : Z := st_NoSuchTract.
Definition E_AlreadyExists : Z := st_AlreadyExists.
Definition E_VersionMismatch : Z := st_VersionMismatch.
Definition E_BadVersion : Z := st_BadVersion.
Definition E_StampChanged : Z := st_StampChanged.
Definition E_InvalidState : Z := st_InvalidState.
Definition E_NoSpace : Z := st_NoSpace.
Definition E_FileNotFound : Z := st_FileNotFound.
(* store.go's plain Go errors and model guards: negative, outside core.Error *)
Definition E_DiskExists : Z := (-2)%Z.     (* ErrDiskExists *)
Definition E_PANIC : Z := (-99)%Z.         (* the Go code would panic here *)
Definition E_BADORACLE : Z := (-98)%Z.     (* the oracle names a slot pickDiskForNewTract cannot return *)

(* ---------- state ---------- *)
Definition tract := N.
Definition stamp := (N * N)%type.            (* (epoch of the Store object, bumps) *)
Record file := mkfile { f_ver : option Z; f_data : rle }.
Definition pdisk := amap file.

Record store := mkstore {
  disks   : amap pdisk;
  noalloc : list N;
  slots   : amap N;
  table   : amap (N * stamp);
  epoch   : N;
  mgr     : bool
}.

(* a world with no files and a fresh Store with no disks attached *)
Definition init (m : bool) : store := mkstore [] [] [] [] 1 m.

Definition stamp_eqb (a b : stamp) : bool := (fst a =? fst b) && (snd a =? snd b).
Definition stamp0 (s : store) : stamp := (epoch s, 0).          (* s.initialStamp *)
Definition stamp_succ (st : stamp) : stamp := (fst st, snd st + 1).

Definition files_of (s : store) (pd : N) : pdisk :=
  match get pd (disks s) with Some d => d | None => [] end.
Definition set_files (s : store) (pd : N) (d : pdisk) : store :=
  mkstore (put pd d (disks s)) (noalloc s) (slots s) (table s) (epoch s) (mgr s).
Definition set_table (s : store) (t : amap (N * stamp)) : store :=
  mkstore (disks s) (noalloc s) (slots s) t (epoch s) (mgr s).
Definition disk_of (s : store) (slot : N) : option N := get slot (slots s).

(* tract ids: wire numbers >= 100 stand for tracts of an RS partition (core.TractID.IsRS) *)
Definition is_rs (t : tract) : bool := 100 <=? t.
Definition initial_version (t : tract) : Z := if is_rs t then st_RSChunkVersion else 1%Z.

(* errTract.getVersion failing on a file without the attribute:
   MemDisk.Getxattr -> ErrNoSuchTract; Manager: XattrError -> ErrBadVersion (manager.go toBlbError) *)
Definition E_nover (s : store) : Z := if mgr s then E_BadVersion else E_NoSuchTract.

(* ---------- store_internal.go: lookup / open ---------- *)
Definition lookup (s : store) (t : tract) : option (N * stamp) := get t (table s).

Inductive opened := Op_ok (pd : N) (f : file) | Op_err (e : Z).

(* lookup + disk.Open of an existing file (openExistingTract followed by nothing yet) *)
Definition open_existing (s : store) (t : tract) : opened :=
  match lookup s t with
  | None => Op_err E_NoSuchTract
  | Some (slot, _) =>
      match disk_of s slot with
      | None => Op_err E_PANIC
      | Some pd =>
          match get t (files_of s pd) with
          | None => Op_err E_NoSuchTract
          | Some f => Op_ok pd f
          end
      end
  end.

(* open + getVersion *)
Inductive versioned := V_ok (pd : N) (f : file) (cur : Z) | V_err (e : Z).
Definition open_version (s : store) (t : tract) : versioned :=
  match open_existing s t with
  | Op_err e => V_err e
  | Op_ok pd f => match f_ver f with Some v => V_ok pd f v | None => V_err (E_nover s) end
  end.

(* lookupAndBumpStamp *)
Definition bump_stamp (s : store) (t : tract) : store :=
  match lookup s t with
  | None => s
  | Some (slot, st) => set_table s (put t (slot, stamp_succ st) (table s))
  end.

Definition put_file (s : store) (pd : N) (t : tract) (f : file) : store :=
  set_files s pd (put t f (files_of s pd)).
Definition del_file (s : store) (pd : N) (t : tract) : store :=
  set_files s pd (del t (files_of s pd)).

(* removeTract *)
Definition remove_tract (s : store) (t : tract) : store * Z :=
  match lookup s t with
  | None => (s, E_OK)
  | Some (slot, _) =>
      match disk_of s slot with
      | None => (s, E_PANIC)
      | Some pd =>
          match get t (files_of s pd) with
          | None => (s, E_NoSuchTract)                       (* disk.Delete fails, entry stays *)
          | Some _ => (set_table (del_file s pd t) (del t (table s)), E_OK)
          end
      end
  end.

(* ---------- store.go: pickDiskForNewTract (random choice = oracle) ---------- *)
Definition can_alloc (s : store) (pd : N) : bool := negb (memN pd (noalloc s)).
Definition pick (s : store) (orc : N) : (N * N) + Z :=
  if existsb (fun p => can_alloc s (snd p)) (slots s) then
    match disk_of s orc with
    | Some pd => if can_alloc s pd then inl (orc, pd) else inr E_BADORACLE
    | None => inr E_BADORACLE
    end
  else inr E_NoSpace.

(* doCreate *)
Definition do_create (s : store) (t : tract) (ver : Z) (data : rle) (off : N) (orc : N) : store * Z :=
  match lookup s t with
  | Some _ => (s, E_AlreadyExists)
  | None =>
      match pick s orc with
      | inr e => (s, e)
      | inl (slot, pd) =>
          match get t (files_of s pd) with
          | Some _ => (del_file s pd t, E_AlreadyExists)     (* O_EXCL open fails; then disk.Delete(id) *)
          | None =>
              let s1 := put_file s pd t (mkfile (Some ver) (rle_write [] data off)) in
              (set_table s1 (put t (slot, stamp0 s) (table s1)), E_OK)
          end
      end
  end.

(* doWrite: the stamp is bumped before the version is looked at *)
Definition do_write (s : store) (t : tract) (v : Z) (data : rle) (off : N) : store * Z :=
  let s1 := bump_stamp s t in
  match open_version s1 t with
  | V_err e => (s1, e)
  | V_ok pd f cur =>
      if (v =? cur)%Z then (put_file s1 pd t (mkfile (f_ver f) (rle_write (f_data f) data off)), E_OK)
      else (s1, E_VersionMismatch)
  end.

(* Create *)
Definition create (s : store) (t : tract) (data : rle) (off : N) (orc : N) : store * Z :=
  let '(s1, e) := do_create s t (initial_version t) data off orc in
  if (e =? E_AlreadyExists)%Z then do_write s1 t (initial_version t) data off else (s1, e).

(* Read: (error, bytes); a short read is ErrEOF with the bytes that exist *)
Definition read (s : store) (t : tract) (v : Z) (len off : N) : Z * rle :=
  match open_version s t with
  | V_err e => (e, [])
  | V_ok _ f cur =>
      if (v =? cur)%Z then
        let b := rle_read (f_data f) off len in
        (if rle_len b =? len then E_OK else E_EOF, b)
      else (E_VersionMismatch, [])
  end.

(* Stat: (error, size, stamp); the stamp is returned even when the version check fails *)
Definition stat (s : store) (t : tract) (v : Z) : Z * N * option stamp :=
  match lookup s t with
  | None => (E_NoSuchTract, 0, None)
  | Some (_, st) =>
      match open_version s t with
      | V_err e => (e, 0, Some st)
      | V_ok _ f cur =>
          if (v =? cur)%Z then (E_OK, rle_len (f_data f), Some st) else (E_VersionMismatch, 0, Some st)
      end
  end.

(* SetVersion with errTract.bumpVersion; returns (error, finalVersion) *)
Definition set_version (s : store) (t : tract) (v : Z) (cond : option stamp) : store * (Z * Z) :=
  if (v <=? 1)%Z then (s, (E_BadVersion, 0%Z))
  else
    let cur_stamp := match lookup s t with Some (_, st) => Some st | None => None end in
    let stale := match cond with
                 | None => false                                   (* conditionalStamp == 0 *)
                 | Some c => match cur_stamp with
                             | Some st => negb (stamp_eqb c st)
                             | None => true                        (* compared with the zero stamp *)
                             end
                 end in
    if stale then (s, (E_StampChanged, 0%Z))
    else match open_version s t with
         | V_err e => (s, (e, v))
         | V_ok pd f cur =>
             if (v <=? cur)%Z then (s, (E_OK, v))
             else if (cur + 1 =? v)%Z then (put_file s pd t (mkfile (Some v) (f_data f)), (E_OK, v))
             else (s, (E_VersionMismatch, v))
         end.

(* pullTractOnce, first half: look at the local copy.  Some e = give up with e; None = no local copy
   (any more), go on and fetch *)
Definition pull_pre (s : store) (t : tract) (v : Z) : store * option Z :=
  let remove := let '(s', e') := remove_tract s t in
                (s', if (e' =? E_OK)%Z then None else Some e') in
  match lookup s t with
  | None => (s, None)
  | Some _ =>
      match open_existing s t with
      | Op_err e => if (e =? E_PANIC)%Z then (s, Some E_PANIC) else remove
      | Op_ok _ f =>
          match f_ver f with
          | Some cur => if (v <? cur)%Z then (s, Some E_InvalidState) else remove
          | None => remove                                  (* unreadable version: overwrite *)
          end
      end
  end.

(* pullTractOnce: [reply] is what TractserverTalker.CtlRead answers for this source *)
Definition pull_once (s : store) (t : tract) (reply : Z * rle) (v : Z) (orc : N) : store * Z :=
  match pull_pre s t v with
  | (s1, Some e) => (s1, e)
  | (s1, None) =>
      let '(re, data) := reply in
      if negb (re =? E_OK)%Z && negb (re =? E_EOF)%Z then (s1, re)
      else let '(s2, ce) := do_create s1 t v data 0 orc in
           if (ce =? E_OK)%Z then (s2, E_OK) else (fst (remove_tract s2 t), ce)
  end.

(* PullTract: sources in order, stop at the first success, report the last error (NoError for no sources) *)
Fixpoint pull_all (s : store) (t : tract) (srcs : list (Z * rle)) (v : Z) (orc : N) (last : Z) : store * Z :=
  match srcs with
  | [] => (s, last)
  | r :: rest =>
      let '(s', e) := pull_once s t r v orc in
      if (e =? E_OK)%Z then (s', E_OK) else pull_all s' t rest v orc e
  end.
Definition pull_tract (s : store) (t : tract) (srcs : list (Z * rle)) (v : Z) (orc : N) : store * Z :=
  pull_all s t srcs v orc E_OK.

(* maybeGCTract / GCTracts *)
Definition maybe_gc (s : store) (tv : tract * Z) : store :=
  match open_version s (fst tv) with
  | V_err _ => s
  | V_ok _ _ cur => if (snd tv <? cur)%Z then s else fst (remove_tract s (fst tv))
  end.
Definition gc_tracts (s : store) (old : list (tract * Z)) (gone : list tract) : store :=
  fold_left (fun s t => fst (remove_tract s t)) gone (fold_left maybe_gc old s).

(* Check: the tracts reported missing *)
Definition check (s : store) (ts : list (tract * Z)) : list (tract * Z) :=
  filter (fun tv => match open_version s (fst tv) with
                    | V_err _ => true
                    | V_ok _ _ cur => (cur <? snd tv)%Z
                    end) ts.

(* NewStore on the same machine: volatile state gone, a new initial stamp *)
Definition restart (s : store) : store := mkstore (disks s) (noalloc s) [] [] (epoch s + 1) (mgr s).

(* ---------- AddDisk / resolveConflicts / RemoveDisk ---------- *)
Fixpoint first_free (fuel : nat) (i : N) (sl : amap N) : option N :=
  match fuel with
  | O => None
  | S f => match get i sl with None => Some i | Some _ => first_free f (i + 1) sl end
  end.
Definition free_slot (s : store) : option N := first_free (N.to_nat st_maxDisks) 0 (slots s).

(* version as resolveConflicts reads it: any error shows up as 0 *)
Definition ver0 (d : pdisk) (t : tract) : Z :=
  match get t d with Some f => match f_ver f with Some v => v | None => 0%Z end | None => 0%Z end.

(* fixTract(id, good, bad): only the branches a single-threaded run can reach change anything;
   the "yet another disk" branch (re-queued conflict) needs a concurrent mutation of the table and
   leaves the table as it is here *)
Definition fix_tract (s : store) (t : tract) (goodslot badslot goodpd badpd : N) : store :=
  let tb := match get t (table s) with
            | Some (d, st) => if d =? goodslot then table s
                              else if d =? badslot then put t (goodslot, stamp_succ st) (table s)
                              else table s
            | None => put t (goodslot, stamp0 s) (table s)
            end in
  del_file (set_table s tb) badpd t.

Definition del_tract (s : store) (t : tract) (i1 i2 pd1 pd2 : N) : store :=
  let tb := match get t (table s) with
            | Some (d, _) => if (d =? i1) || (d =? i2) then del t (table s) else table s
            | None => table s
            end in
  del_file (del_file (set_table s tb) pd1 t) pd2 t.

(* one conflict: tract t is in the table at slot i1 (disk pd1) and also on the new disk pd2 at slot i2 *)
Definition resolve_one (s : store) (c : tract * N * N * N * N) : store :=
  let '(t, i1, i2, pd1, pd2) := c in
  let v1 := ver0 (files_of s pd1) t in
  let v2 := ver0 (files_of s pd2) t in
  if (v2 <? v1)%Z then fix_tract s t i1 i2 pd1 pd2
  else if (v1 <? v2)%Z then fix_tract s t i2 i1 pd2 pd1
  else del_tract s t i1 i2 pd1 pd2.

(* The loop over readTractIDs(disk) under s.lock: ids not yet in the table enter it at the new slot,
   known ones become conflicts (tract, old slot, new slot, old disk, new disk).  The ids of one disk are
   pairwise distinct, so the loop is these two independent passes. *)
Definition new_entries (s : store) (i : N) (tids : list tract) : amap (N * stamp) :=
  fold_left (fun tb t => match get t (table s) with
                         | None => put t (i, stamp0 s) tb
                         | Some _ => tb
                         end) tids (table s).

Definition conflicts_of (s : store) (i pd : N) (tids : list tract) : list (tract * N * N * N * N) :=
  flat_map (fun t => match get t (table s) with
                     | Some (i1, _) => match disk_of s i1 with
                                       | Some pd1 => [(t, i1, i, pd1, pd)]
                                       | None => []
                                       end
                     | None => []
                     end) tids.

(* a table entry pointing at an empty slot: Go captures a nil Disk and panics when it opens the tract *)
Definition dangling (s : store) (tids : list tract) : bool :=
  existsb (fun t => match get t (table s) with
                    | Some (i1, _) => match disk_of s i1 with Some _ => false | None => true end
                    | None => false
                    end) tids.

(* the slot a physical disk is attached at (RemoveDisk / SetControlFlags scan the slots in index order;
   [slots] is kept sorted by index) *)
Definition slot_of (s : store) (pd : N) : option N :=
  find (fun i => match get i (slots s) with Some p => p =? pd | None => false end) (keys (slots s)).

(* readTractIDs: the set of tract ids on the disk (a directory has no duplicate names) *)
Definition tids_of (d : pdisk) : list tract := nodup N.eq_dec (keys d).

Definition add_disk (s : store) (pd : N) : store * Z :=
  if match slot_of s pd with Some _ => true | None => false end then (s, E_DiskExists)
  else match free_slot s with
       | None => (s, E_PANIC)
       | Some i =>
           let tids := tids_of (files_of s pd) in
           if dangling s tids then (s, E_PANIC)
           else
             let s1 := mkstore (disks s) (noalloc s) (put i pd (slots s)) (new_entries s i tids)
                               (epoch s) (mgr s) in
             (fold_left resolve_one (conflicts_of s i pd tids) s1, E_OK)
       end.

(* is tract t recorded on slot i *)
Definition on_slot (s : store) (i : N) (t : tract) : bool :=
  match get t (table s) with Some (d, _) => d =? i | None => false end.

Definition remove_disk (s : store) (pd : N) : store * Z :=
  match slot_of s pd with
  | None => (s, E_PANIC)
  | Some i =>
      (mkstore (disks s) (noalloc s) (del i (slots s))
               (filter (fun e => negb (on_slot s i (fst e))) (table s)) (epoch s) (mgr s), E_OK)
  end.

(* Store.SetControlFlags(root, {StopAllocating: stop}) *)
Definition set_alloc (s : store) (pd : N) (stop : bool) : store * Z :=
  match slot_of s pd with
  | None => (s, E_FileNotFound)
  | Some _ =>
      let na := filter (fun x => negb (x =? pd)) (noalloc s) in
      (mkstore (disks s) (if stop then pd :: na else na) (slots s) (table s) (epoch s) (mgr s), E_OK)
  end.

(* ---------- the operation alphabet ---------- *)
Inductive op :=
| Create (t : tract) (data : rle) (off : N) (orc : N)
| Write (t : tract) (v : Z) (data : rle) (off : N)
| Read (t : tract) (v : Z) (len off : N)
| Stat (t : tract) (v : Z)
| SetVersion (t : tract) (v : Z) (cond : option stamp)
| PullTract (t : tract) (srcs : list (Z * rle)) (v : Z) (orc : N)
| GCTracts (old : list (tract * Z)) (gone : list tract)
| Check (ts : list (tract * Z))
| Restart
| AddDisk (pd : N)
| RemoveDisk (pd : N)
| SetAlloc (pd : N) (stop : bool).

Inductive res :=
| RErr (e : Z)
| RRead (e : Z) (data : rle)
| RStat (e : Z) (size : N) (st : option stamp)
| RSetV (e : Z) (v : Z)
| RUnit
| RCheck (missing : list (tract * Z)).

Definition step (s : store) (o : op) : store * res :=
  match o with
  | Create t d off orc => let '(s', e) := create s t d off orc in (s', RErr e)
  | Write t v d off => let '(s', e) := do_write s t v d off in (s', RErr e)
  | Read t v len off => let '(e, b) := read s t v len off in (s, RRead e b)
  | Stat t v => let '(e, sz, st) := stat s t v in (s, RStat e sz st)
  | SetVersion t v c => let '(s', (e, fv)) := set_version s t v c in (s', RSetV e fv)
  | PullTract t srcs v orc => let '(s', e) := pull_tract s t srcs v orc in (s', RErr e)
  | GCTracts old gone => (gc_tracts s old gone, RUnit)
  | Check ts => (s, RCheck (check s ts))
  | Restart => (restart s, RUnit)
  | AddDisk pd => let '(s', e) := add_disk s pd in (s', RErr e)
  | RemoveDisk pd => let '(s', e) := remove_disk s pd in (s', RErr e)
  | SetAlloc pd stop => let '(s', e) := set_alloc s pd stop in (s', RErr e)
  end.

Definition run (s : store) (ops : list op) : store := fold_left (fun s o => fst (step s o)) ops s.

(* ---------- derived views used by the theorems ---------- *)
(* the copy of t this server serves, if any: what lookup + open find *)
Definition cur (s : store) (t : tract) : option file :=
  match open_existing s t with Op_ok _ f => Some f | Op_err _ => None end.
Definition cur_ver (s : store) (t : tract) : option Z :=
  match cur s t with Some f => f_ver f | None => None end.
(* the copy on one physical disk *)
Definition copy (s : store) (pd : N) (t : tract) : option file := get t (files_of s pd).
