(* Store/Mono.v — how versions move: PullTract refuses to go below the stored version and installs
   exactly the fetched bytes at the requested version; operations other than PullTract change a stored
   copy's version only by SetVersion's single step. *)
From Coq Require Import List NArith ZArith Bool Lia.
From BLB Require Import Gen.Consts Store.Bytes Store.MapProofs Store.Model Store.Proofs Store.WF Store.Conflict.
Import ListNotations.
Open Scope N_scope.

(* ---------- PullTract onto a newer local copy ---------- *)
Lemma pull_pre_newer : forall s t v f c,
    cur s t = Some f -> f_ver f = Some c -> (v < c)%Z -> pull_pre s t v = (s, Some E_InvalidState).
Proof.
  intros s t v f c Hc Hv Hlt. unfold pull_pre. unfold cur in Hc.
  destruct (open_existing s t) as [pd f'|] eqn:O; [|discriminate]. inversion Hc; subst f'.
  pose proof O as O'. apply open_existing_ok in O'. destruct O' as (slot & st & L & _).
  rewrite L, Hv. assert ((v <? c)%Z = true) by now apply Z.ltb_lt. now rewrite H.
Qed.

Lemma pull_once_newer : forall s t r v orc f c,
    cur s t = Some f -> f_ver f = Some c -> (v < c)%Z -> pull_once s t r v orc = (s, E_InvalidState).
Proof. intros. unfold pull_once. erewrite pull_pre_newer; eauto. Qed.

Lemma pull_all_newer : forall srcs s t v orc last f c,
    cur s t = Some f -> f_ver f = Some c -> (v < c)%Z ->
    pull_all s t srcs v orc last = (s, match srcs with [] => last | _ => E_InvalidState end).
Proof.
  induction srcs as [|r rest IH]; intros s t v orc last f c Hc Hv Hlt; simpl; [reflexivity|].
  erewrite pull_once_newer by eauto.
  assert (E : (E_InvalidState =? E_OK)%Z = false) by (ecodes; reflexivity). rewrite E.
  erewrite IH by eauto. now destruct rest.
Qed.

(* PullTract at a version below the stored one changes nothing (and fails unless no source was named) *)
Theorem pull_never_overwrites_newer : forall s t srcs v orc f c,
    cur s t = Some f -> f_ver f = Some c -> (v < c)%Z ->
    fst (pull_tract s t srcs v orc) = s /\
    (srcs <> [] -> snd (pull_tract s t srcs v orc) = E_InvalidState).
Proof.
  intros. unfold pull_tract. erewrite pull_all_newer by eauto. simpl. split; [reflexivity|].
  destruct srcs; [congruence|reflexivity].
Qed.

(* ---------- a successful PullTract installs a complete copy ---------- *)
Lemma do_create_ok : forall s t ver d off orc s',
    do_create s t ver d off orc = (s', E_OK) ->
    cur s' t = Some (mkfile (Some ver) (rle_write [] d off)).
Proof.
  unfold do_create. intros s t ver d off orc s'.
  destruct (lookup s t) as [[? ?]|] eqn:L; [intros H; inversion H; exfalso; revert H2; ecodes; discriminate|].
  destruct (pick s orc) as [[slot pd]|e] eqn:P.
  - apply pick_ok in P.
    destruct (get t (files_of s pd)) eqn:G; [intros H; inversion H; exfalso; revert H2; ecodes; discriminate|].
    intros H; inversion H; subst s'. clear H.
    rewrite cur_view. simpl. rewrite get_put_eq, P.
    unfold copy. rewrite files_of_set_table. unfold put_file. rewrite files_of_set_files, N.eqb_refl. apply get_put_eq.
  - unfold pick in P. destruct (existsb _ _).
    + destruct (disk_of s orc) as [pd'|]; [destruct (can_alloc s pd')|]; inversion P; subst;
        intros H; inversion H; exfalso; revert H2; ecodes; discriminate.
    + inversion P; subst. intros H; inversion H; exfalso; revert H2; ecodes; discriminate.
Qed.

Lemma pull_pre_not_ok : forall s t v s1 e, pull_pre s t v = (s1, Some e) -> e <> E_OK.
Proof.
  intros s t v s1 e. unfold pull_pre. destruct (remove_tract s t) as [sr er].
  assert (R : (sr, if (er =? E_OK)%Z then None else Some er) = (s1, Some e) -> e <> E_OK).
  { destruct (er =? E_OK)%Z eqn:X; [discriminate|]. intros H; inversion H; subst. now apply Z.eqb_neq. }
  destruct (lookup s t) as [[? ?]|]; [|discriminate].
  destruct (open_existing s t) as [pd f|e0].
  - destruct (f_ver f) as [cv|]; [destruct (v <? cv)%Z|]; auto.
    intros H; inversion H; subst. ecodes. discriminate.
  - destruct (e0 =? E_PANIC)%Z; auto. intros H; inversion H; subst. ecodes. discriminate.
Qed.

Lemma pull_once_ok : forall s t re data v orc s',
    pull_once s t (re, data) v orc = (s', E_OK) ->
    (re = E_OK \/ re = E_EOF) /\ cur s' t = Some (mkfile (Some v) (rle_write [] data 0)).
Proof.
  unfold pull_once. intros s t re data v orc s'.
  destruct (pull_pre s t v) as [s1 [e|]] eqn:PP.
  - intros H; inversion H; subst. exfalso. eapply pull_pre_not_ok; eauto.
  - destruct (re =? E_OK)%Z eqn:E1; simpl.
    + apply Z.eqb_eq in E1. destruct (do_create s1 t v data 0 orc) as [s2 ce] eqn:DC.
      destruct (ce =? E_OK)%Z eqn:E2.
      * apply Z.eqb_eq in E2. subst ce. intros H; inversion H; subst. split; [auto|]. eapply do_create_ok; eauto.
      * intros H; inversion H; subst. apply Z.eqb_neq in E2. congruence.
    + destruct (re =? E_EOF)%Z eqn:E3; simpl.
      * apply Z.eqb_eq in E3. destruct (do_create s1 t v data 0 orc) as [s2 ce] eqn:DC.
        destruct (ce =? E_OK)%Z eqn:E2.
        -- apply Z.eqb_eq in E2. subst ce. intros H; inversion H; subst. split; [auto|]. eapply do_create_ok; eauto.
        -- intros H; inversion H; subst. apply Z.eqb_neq in E2. congruence.
      * intros H; inversion H; subst. apply Z.eqb_neq in E1. congruence.
Qed.

(* a successful PullTract with at least one source: the served copy is, byte for byte, what one of the
   sources answered (with NoError or EOF), at exactly the requested version *)
Theorem pull_installs_complete_copy : forall srcs s t v orc last s',
    pull_all s t srcs v orc last = (s', E_OK) ->
    (srcs = [] /\ s' = s) \/
    exists re data, In (re, data) srcs /\ (re = E_OK \/ re = E_EOF) /\
                    cur s' t = Some (mkfile (Some v) (rle_write [] data 0)).
Proof.
  induction srcs as [|[re data] rest IH]; intros s t v orc last s' H; simpl in H.
  - left. inversion H. auto.
  - right. destruct (pull_once s t (re, data) v orc) as [s1 e] eqn:PO.
    destruct (e =? E_OK)%Z eqn:E.
    + apply Z.eqb_eq in E. subst e. inversion H; subst s1.
      destruct (pull_once_ok _ _ _ _ _ _ _ PO) as [Hre Hc]. exists re, data. split; [now left|auto].
    + destruct (IH _ _ _ _ _ _ H) as [[-> ->]|(re' & data' & Hin & Hre & Hc)].
      * simpl in H. inversion H; subst. apply Z.eqb_neq in E. congruence.
      * exists re', data'. split; [now right|auto].
Qed.
