(* Store/FaultModel.v — injected disk faults during the installation of a new copy.
   One fault is armed for one Create / PullTract call: the FIRST doCreate of that call that gets as far
   as opening the new file has one of its disk calls fail with error [fe]:
     Open(O_CREATE|O_EXCL) fails            -> nothing was created;
     Setxattr(version) fails                -> an empty file without version exists;
     the data Write fails (possibly short)  -> a file stamped with the new version and partial bytes exists;
   in every case doCreate's cleanup `disk.Delete(id)` removes the file again, the tract table is not
   touched, and the call returns [fe].  So a consumed fault leaves the state exactly as it was before the
   doCreate ([s], not a state with a stray file): that is what the functions below say, and what the
   harness scans after the failed call and after every later restart.
   The fault is not consumed when doCreate returns before opening (tract already in the table, no disk
   can allocate).  Definitions only; the operation alphabet [op] of Store/Model.v is unchanged:
   Store/Faults.v proves that every faulted call equals an unfaulted one (identity, or a PullTract in
   which the hit source answers the error), so every theorem about [run] covers faulted histories. *)
From Coq Require Import List NArith ZArith Bool.
From BLB Require Import Gen.Consts Store.Bytes Store.Model.
Import ListNotations.
Open Scope N_scope.

(* does doCreate get as far as opening the new file *)
Definition reaches_open (s : store) (t : tract) : bool :=
  match lookup s t with
  | Some _ => false
  | None => existsb (fun p => can_alloc s (snd p)) (slots s)
  end.

(* doCreate with an armed fault [flt]; returns the remaining fault *)
Definition do_create_f (s : store) (t : tract) (ver : Z) (data : rle) (off : N) (orc : N) (flt : option Z)
  : (store * Z) * option Z :=
  match flt with
  | Some fe => if reaches_open s t then ((s, fe), None) else (do_create s t ver data off orc, flt)
  | None => (do_create s t ver data off orc, None)
  end.

Definition create_f (s : store) (t : tract) (data : rle) (off : N) (orc : N) (flt : option Z) : store * Z :=
  let '((s1, e), _) := do_create_f s t (initial_version t) data off orc flt in
  if (e =? E_AlreadyExists)%Z then do_write s1 t (initial_version t) data off else (s1, e).

Definition pull_once_f (s : store) (t : tract) (reply : Z * rle) (v : Z) (orc : N) (flt : option Z)
  : (store * Z) * option Z :=
  match pull_pre s t v with
  | (s1, Some e) => ((s1, e), flt)
  | (s1, None) =>
      let '(re, data) := reply in
      if negb (re =? E_OK)%Z && negb (re =? E_EOF)%Z then ((s1, re), flt)
      else let '((s2, ce), flt') := do_create_f s1 t v data 0 orc flt in
           if (ce =? E_OK)%Z then ((s2, E_OK), flt') else ((fst (remove_tract s2 t), ce), flt')
  end.

Fixpoint pull_all_f (s : store) (t : tract) (srcs : list (Z * rle)) (v : Z) (orc : N) (last : Z)
         (flt : option Z) : store * Z :=
  match srcs with
  | [] => (s, last)
  | r :: rest =>
      let '((s', e), flt') := pull_once_f s t r v orc flt in
      if (e =? E_OK)%Z then (s', E_OK) else pull_all_f s' t rest v orc e flt'
  end.

Definition pull_tract_f (s : store) (t : tract) (srcs : list (Z * rle)) (v : Z) (orc : N) (flt : option Z)
  : store * Z := pull_all_f s t srcs v orc E_OK flt.

(* histories with faulted calls *)
Inductive fop :=
| Plain (o : op)
| CreateF (t : tract) (data : rle) (off : N) (orc : N) (fe : Z)
| PullTractF (t : tract) (srcs : list (Z * rle)) (v : Z) (orc : N) (fe : Z).

Definition fstep (s : store) (o : fop) : store :=
  match o with
  | Plain o => fst (step s o)
  | CreateF t d off orc fe => fst (create_f s t d off orc (Some fe))
  | PullTractF t srcs v orc fe => fst (pull_tract_f s t srcs v orc (Some fe))
  end.

Definition frun (s : store) (ops : list fop) : store := fold_left fstep ops s.
