(* Store/MapProofs.v — lemmas about the association-list maps of Store/Bytes.v. *)
From Coq Require Import List NArith ZArith Bool Lia.
From BLB Require Import Store.Bytes.
Import ListNotations.
Open Scope N_scope.

Section AMapLemmas.
  Context {A : Type}.
  Implicit Types m : amap A.

  Lemma get_put_eq : forall m k a, get k (put k a m) = Some a.
  Proof.
    induction m as [|[k' a'] m IH]; intros k a; simpl.
    - now rewrite N.eqb_refl.
    - destruct (k <? k') eqn:L; simpl.
      + now rewrite N.eqb_refl.
      + destruct (k =? k') eqn:E; simpl.
        * now rewrite N.eqb_refl.
        * rewrite E. apply IH.
  Qed.

  Lemma get_put_ne : forall m k j a, j <> k -> get j (put k a m) = get j m.
  Proof.
    induction m as [|[k' a'] m IH]; intros k j a Hne; simpl.
    - apply N.eqb_neq in Hne. now rewrite Hne.
    - destruct (k <? k') eqn:L; simpl.
      + apply N.eqb_neq in Hne. now rewrite Hne.
      + destruct (k =? k') eqn:E; simpl.
        * apply N.eqb_eq in E. subst k'. apply N.eqb_neq in Hne. now rewrite Hne.
        * destruct (j =? k'); [reflexivity|]. now apply IH.
  Qed.

  Lemma get_del_eq : forall m k, get k (del k m) = None.
  Proof.
    induction m as [|[k' a'] m IH]; intros k; simpl; [reflexivity|].
    destruct (k' =? k) eqn:E; simpl; [apply IH|].
    rewrite (N.eqb_sym k k'), E. apply IH.
  Qed.

  Lemma get_del_ne : forall m k j, j <> k -> get j (del k m) = get j m.
  Proof.
    induction m as [|[k' a'] m IH]; intros k j Hne; simpl; [reflexivity|].
    destruct (k' =? k) eqn:E; simpl.
    - apply N.eqb_eq in E. subst k'. pose proof Hne as Hne'. apply N.eqb_neq in Hne'. rewrite Hne'. now apply IH.
    - destruct (j =? k'); [reflexivity|]. now apply IH.
  Qed.

  Lemma get_put : forall m k j a, get j (put k a m) = if j =? k then Some a else get j m.
  Proof.
    intros. destruct (j =? k) eqn:E.
    - apply N.eqb_eq in E. subst. apply get_put_eq.
    - apply N.eqb_neq in E. now apply get_put_ne.
  Qed.

  Lemma get_del : forall m k j, get j (del k m) = if j =? k then None else get j m.
  Proof.
    intros. destruct (j =? k) eqn:E.
    - apply N.eqb_eq in E. subst. apply get_del_eq.
    - apply N.eqb_neq in E. now apply get_del_ne.
  Qed.

  Lemma get_In_keys : forall m k a, get k m = Some a -> In k (keys m).
  Proof.
    induction m as [|[k' a'] m IH]; intros k a; simpl; [discriminate|].
    destruct (k =? k') eqn:E.
    - apply N.eqb_eq in E. auto.
    - intros H. right. eapply IH; eauto.
  Qed.

  Lemma In_keys_get : forall m k, In k (keys m) -> exists a, get k m = Some a.
  Proof.
    induction m as [|[k' a'] m IH]; intros k; simpl; [tauto|].
    intros [->|H].
    - rewrite N.eqb_refl. eauto.
    - destruct (k =? k'); eauto.
  Qed.

  Lemma get_None_not_In : forall m k, get k m = None -> ~ In k (keys m).
  Proof.
    intros m k H Hin. apply In_keys_get in Hin. destruct Hin as [a Ha]. congruence.
  Qed.

  (* a filter that decides by key keeps or drops a key's binding as a whole *)
  Lemma get_filter_key : forall (p : N -> bool) m k,
      get k (filter (fun e => p (fst e)) m) = if p k then get k m else None.
  Proof.
    induction m as [|[k' a'] m IH]; intros k; simpl.
    - now destruct (p k).
    - destruct (p k') eqn:P; simpl.
      + destruct (k =? k') eqn:E.
        * apply N.eqb_eq in E. subst. now rewrite P.
        * apply IH.
      + destruct (k =? k') eqn:E.
        * apply N.eqb_eq in E. subst. rewrite IH, P. reflexivity.
        * apply IH.
  Qed.
  Lemma put_put : forall m k a b, put k a (put k b m) = put k a m.
  Proof.
    induction m as [|[k' a'] m IH]; intros k a b; simpl.
    - now rewrite N.ltb_irrefl, N.eqb_refl.
    - destruct (k <? k') eqn:L; simpl.
      + now rewrite N.ltb_irrefl, N.eqb_refl.
      + destruct (k =? k') eqn:E; simpl.
        * now rewrite N.ltb_irrefl, N.eqb_refl.
        * now rewrite L, E, IH.
  Qed.
End AMapLemmas.
