(* Store/Bytes.v — byte strings in run-length form, and small finite maps keyed by N.
   Tract contents are kept as canonical run-length lists [(len, val); ...] (every len > 0, adjacent
   values differ) so that 8 MiB tracts cost a few runs.  [expand] gives the denotation as a plain
   byte list; it is used only in statements, never computed on large inputs.
   Definitions only (plus nothing else); lemmas live in Store/BytesProofs.v. *)
From Coq Require Import List NArith ZArith Bool.
Import ListNotations.
Open Scope N_scope.

Definition rle := list (N * N).

Fixpoint rle_len (r : rle) : N :=
  match r with [] => 0 | (n, _) :: r' => n + rle_len r' end.

(* prepend a run, merging with an equal-valued head run and dropping empty runs *)
Definition rle_cons (n v : N) (r : rle) : rle :=
  if n =? 0 then r
  else match r with
       | (m, w) :: r' => if v =? w then (n + m, w) :: r' else (n, v) :: r
       | [] => [(n, v)]
       end.

Fixpoint rle_app (a b : rle) : rle :=
  match a with [] => b | (n, v) :: a' => rle_cons n v (rle_app a' b) end.

(* canonical form of an arbitrary run list (wire input) *)
Definition rle_norm (r : rle) : rle := rle_app r [].

Fixpoint rle_take (k : N) (r : rle) : rle :=
  match r with
  | [] => []
  | (n, v) :: r' =>
      if k =? 0 then []
      else if k <? n then [(k, v)]
      else rle_cons n v (rle_take (k - n) r')
  end.

Fixpoint rle_drop (k : N) (r : rle) : rle :=
  match r with
  | [] => []
  | (n, v) :: r' => if k <? n then rle_cons (n - k) v r' else rle_drop (k - n) r'
  end.

Definition rle_zeros (k : N) : rle := rle_cons k 0 [].

(* pwrite(2) on a file whose holes are zero-filled: MemDisk.Write / ChecksumFile.WriteAt *)
Definition rle_write (c b : rle) (off : N) : rle :=
  let sz := rle_len c in
  let c' := if sz <? off then rle_app c (rle_zeros (off - sz)) else c in
  rle_app (rle_take off c') (rle_app b (rle_drop (off + rle_len b) c')).

(* pread(2): at most len bytes from off *)
Definition rle_read (c : rle) (off len : N) : rle := rle_take len (rle_drop off c).

(* denotation *)
Fixpoint expand (r : rle) : list N :=
  match r with [] => [] | (n, v) :: r' => repeat v (N.to_nat n) ++ expand r' end.

(* ---------- finite maps keyed by N: association lists kept sorted by key ---------- *)
Section AMap.
  Context {A : Type}.
  Definition amap := list (N * A).

  Fixpoint get (k : N) (m : amap) : option A :=
    match m with
    | [] => None
    | (k', a) :: m' => if k =? k' then Some a else get k m'
    end.

  Fixpoint put (k : N) (a : A) (m : amap) : amap :=
    match m with
    | [] => [(k, a)]
    | (k', a') :: m' =>
        if k <? k' then (k, a) :: m
        else if k =? k' then (k, a) :: m'
        else (k', a') :: put k a m'
    end.

  Definition del (k : N) (m : amap) : amap := filter (fun p => negb (fst p =? k)) m.

  Definition keys (m : amap) : list N := map fst m.
End AMap.
Arguments amap : clear implicits.

Definition memN (x : N) (l : list N) : bool := existsb (N.eqb x) l.
