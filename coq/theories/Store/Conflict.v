(* Store/Conflict.v — AddDisk / resolveConflicts: effect of one conflict resolution, preservation of
   well-formedness by AddDisk (hence by every operation), and what AddDisk does to each tract. *)
From Coq Require Import List NArith ZArith Bool Lia.
From BLB Require Import Gen.Consts Store.Bytes Store.MapProofs Store.Model Store.Proofs Store.WF.
Import ListNotations.
Open Scope N_scope.

Definition conflict := (tract * N * N * N * N)%type.
Definition ctract (c : conflict) : tract := let '(t, _, _, _, _) := c in t.

(* ---------- effect of fixTract / delTract / one conflict ---------- *)
Lemma copy_fix_tract : forall s t g b gp bp pd' t',
    copy (fix_tract s t g b gp bp) pd' t' = if (pd' =? bp) && (t' =? t) then None else copy s pd' t'.
Proof. intros. unfold fix_tract. rewrite copy_del_file. reflexivity. Qed.

Lemma copy_del_tract : forall s t i1 i2 p1 p2 pd' t',
    copy (del_tract s t i1 i2 p1 p2) pd' t' =
    if ((pd' =? p1) || (pd' =? p2)) && (t' =? t) then None else copy s pd' t'.
Proof.
  intros. unfold del_tract. rewrite !copy_del_file.
  destruct (pd' =? p1), (pd' =? p2), (t' =? t); reflexivity.
Qed.

Lemma slots_resolve_one : forall s c, slots (resolve_one s c) = slots s.
Proof.
  intros s [[[[t i1] i2] p1] p2]. unfold resolve_one.
  destruct (_ <? _)%Z; [reflexivity|]. destruct (_ <? _)%Z; reflexivity.
Qed.

Lemma table_fix_tract : forall s t g b gp bp,
    table (fix_tract s t g b gp bp) =
    match get t (table s) with
    | Some (d, st) => if d =? g then table s
                      else if d =? b then put t (g, stamp_succ st) (table s) else table s
    | None => put t (g, stamp0 s) (table s)
    end.
Proof. reflexivity. Qed.

Lemma table_del_tract : forall s t i1 i2 p1 p2,
    table (del_tract s t i1 i2 p1 p2) =
    match get t (table s) with
    | Some (d, _) => if (d =? i1) || (d =? i2) then del t (table s) else table s
    | None => table s
    end.
Proof. reflexivity. Qed.

(* a conflict about t leaves every other tract alone *)
Lemma resolve_one_other : forall s c t',
    t' <> ctract c ->
    get t' (table (resolve_one s c)) = get t' (table s) /\
    (forall pd', copy (resolve_one s c) pd' t' = copy s pd' t').
Proof.
  intros s [[[[t i1] i2] p1] p2] t' Hne. simpl in Hne. unfold resolve_one.
  assert (E : (t' =? t) = false) by now apply N.eqb_neq.
  destruct (_ <? _)%Z; [|destruct (_ <? _)%Z].
  - split.
    + rewrite table_fix_tract. destruct (get t (table s)) as [[d st]|].
      * destruct (d =? i1); [reflexivity|]. destruct (d =? i2); [|reflexivity]. now apply get_put_ne.
      * now apply get_put_ne.
    + intros. rewrite copy_fix_tract, E, andb_false_r. reflexivity.
  - split.
    + rewrite table_fix_tract. destruct (get t (table s)) as [[d st]|].
      * destruct (d =? i2); [reflexivity|]. destruct (d =? i1); [|reflexivity]. now apply get_put_ne.
      * now apply get_put_ne.
    + intros. rewrite copy_fix_tract, E, andb_false_r. reflexivity.
  - split.
    + rewrite table_del_tract. destruct (get t (table s)) as [[d st]|]; [|reflexivity].
      destruct ((d =? i1) || (d =? i2)); [|reflexivity]. now apply get_del_ne.
    + intros. rewrite copy_del_tract, E, andb_false_r. reflexivity.
Qed.

(* the outcome for the conflicting tract itself *)
Inductive outcome := KeepOld | KeepNew | DropBoth.
Definition verdict (s : store) (t : tract) (p1 p2 : N) : outcome :=
  let v1 := ver0 (files_of s p1) t in
  let v2 := ver0 (files_of s p2) t in
  if (v2 <? v1)%Z then KeepOld else if (v1 <? v2)%Z then KeepNew else DropBoth.

Lemma resolve_one_self : forall s (t : tract) i1 i2 p1 p2 st,
    get t (table s) = Some (i1, st) -> i1 <> i2 -> p1 <> p2 ->
    let s' := resolve_one s (t, i1, i2, p1, p2) in
    match verdict s t p1 p2 with
    | KeepOld => get t (table s') = Some (i1, st) /\ copy s' p2 t = None /\ copy s' p1 t = copy s p1 t
    | KeepNew => get t (table s') = Some (i2, stamp_succ st) /\ copy s' p1 t = None /\ copy s' p2 t = copy s p2 t
    | DropBoth => get t (table s') = None /\ copy s' p1 t = None /\ copy s' p2 t = None
    end /\
    (forall pd', pd' <> p1 -> pd' <> p2 -> copy s' pd' t = copy s pd' t).
Proof.
  intros s t i1 i2 p1 p2 st G Hi Hp. simpl. unfold verdict, resolve_one.
  assert (E12 : (i1 =? i2) = false) by now apply N.eqb_neq.
  assert (P12 : (p1 =? p2) = false) by now apply N.eqb_neq.
  assert (P21 : (p2 =? p1) = false) by (rewrite N.eqb_sym; exact P12).
  destruct (_ <? _)%Z; [|destruct (_ <? _)%Z].
  - split; [split; [|split]|].
    + rewrite table_fix_tract, G, N.eqb_refl. exact G.
    + rewrite copy_fix_tract, !N.eqb_refl. reflexivity.
    + rewrite copy_fix_tract, P12. reflexivity.
    + intros pd' H1 H2. rewrite copy_fix_tract. apply N.eqb_neq in H2. now rewrite H2.
  - split; [split; [|split]|].
    + rewrite table_fix_tract, G, E12, N.eqb_refl. apply get_put_eq.
    + rewrite copy_fix_tract, !N.eqb_refl. reflexivity.
    + rewrite copy_fix_tract, P21. reflexivity.
    + intros pd' H1 H2. rewrite copy_fix_tract. apply N.eqb_neq in H1. now rewrite H1.
  - split; [split; [|split]|].
    + rewrite table_del_tract, G, N.eqb_refl. simpl. apply get_del_eq.
    + rewrite copy_del_tract, !N.eqb_refl. reflexivity.
    + rewrite copy_del_tract, !N.eqb_refl, orb_true_r. reflexivity.
    + intros pd' H1 H2. rewrite copy_del_tract. apply N.eqb_neq in H1, H2. now rewrite H1, H2.
Qed.

(* ---------- the first pass of AddDisk ---------- *)
Lemma get_new_entries : forall s i tids t,
    get t (new_entries s i tids) =
    match get t (table s) with
    | Some x => Some x
    | None => if memN t tids then Some (i, stamp0 s) else None
    end.
Proof.
  intros s i tids t. unfold new_entries.
  assert (H : forall tb,
             get t (fold_left (fun tb t0 => match get t0 (table s) with
                                            | None => put t0 (i, stamp0 s) tb | Some _ => tb end) tids tb) =
             if memN t tids && match get t (table s) with None => true | Some _ => false end
             then Some (i, stamp0 s) else get t tb).
  { induction tids as [|t0 rest IH]; intros tb; simpl; [reflexivity|].
    rewrite IH. destruct (get t0 (table s)) eqn:G0.
    - destruct (t =? t0) eqn:E; simpl; [|reflexivity].
      apply N.eqb_eq in E. subst t0. rewrite G0. rewrite andb_false_r. reflexivity.
    - rewrite get_put. destruct (t =? t0) eqn:E; simpl.
      + apply N.eqb_eq in E. subst t0. rewrite G0. simpl.
        destruct (memN t rest); reflexivity.
      + reflexivity. }
  rewrite H. destruct (get t (table s)); [now rewrite andb_false_r|]. now rewrite andb_true_r.
Qed.

Lemma memN_In : forall x l, memN x l = true <-> In x l.
Proof.
  intros. unfold memN. rewrite existsb_exists. split.
  - intros (y & Hy & E). apply N.eqb_eq in E. now subst.
  - intros H. exists x. split; [exact H|apply N.eqb_refl].
Qed.

Lemma In_conflicts_of : forall s i pd tids c,
    In c (conflicts_of s i pd tids) <->
    exists t i1 st pd1, c = (t, i1, i, pd1, pd) /\ In t tids /\
                        get t (table s) = Some (i1, st) /\ disk_of s i1 = Some pd1.
Proof.
  intros. unfold conflicts_of. rewrite in_flat_map. split.
  - intros (t & Ht & Hc). destruct (get t (table s)) as [[i1 st]|] eqn:G; [|destruct Hc].
    destruct (disk_of s i1) as [pd1|] eqn:D; [|destruct Hc].
    destruct Hc as [<-|[]]. exists t, i1, st, pd1. auto.
  - intros (t & i1 & st & pd1 & -> & Ht & G & D). exists t. split; [exact Ht|].
    rewrite G, D. now left.
Qed.

Lemma NoDup_conflicts_of : forall s i pd tids,
    NoDup tids -> NoDup (map ctract (conflicts_of s i pd tids)).
Proof.
  intros s i pd tids. induction 1 as [|t rest Hnin Hnd IH]; simpl; [constructor|].
  rewrite map_app. destruct (get t (table s)) as [[i1 st]|]; [|exact IH].
  destruct (disk_of s i1) as [pd1|]; [|exact IH]. simpl. constructor; [|exact IH].
  intros Hin. apply in_map_iff in Hin. destruct Hin as (c & Hc & Hin).
  apply In_conflicts_of in Hin. destruct Hin as (t' & ? & ? & ? & -> & Ht' & _). simpl in Hc. now subst.
Qed.

(* ---------- the fold over conflicts keeps the (relaxed) invariant ---------- *)
(* [pend] = conflicts not yet resolved; while a conflict about t is pending, the new disk [pd] holds a
   copy of t that the table does not point at *)
Definition wf_pending (s : store) (i pd : N) (pend : list conflict) : Prop :=
  slots_inj (slots s) /\
  get i (slots s) = Some pd /\
  (forall t d st, get t (table s) = Some (d, st) ->
                  exists p, get d (slots s) = Some p /\ copy s p t <> None) /\
  (forall d p t, get d (slots s) = Some p -> copy s p t <> None ->
                 (exists st, get t (table s) = Some (d, st)) \/ (p = pd /\ In t (map ctract pend))) /\
  (forall c, In c pend ->
             exists t i1 pd1 st, c = (t, i1, i, pd1, pd) /\ i1 <> i /\ pd1 <> pd /\
                                 get i1 (slots s) = Some pd1 /\ get t (table s) = Some (i1, st) /\
                                 copy s pd t <> None) /\
  NoDup (map ctract pend).

Lemma wf_pending_step : forall s i pd c rest,
    wf_pending s i pd (c :: rest) -> wf_pending (resolve_one s c) i pd rest.
Proof.
  intros s i pd c rest (I & Gi & A & B & P & ND).
  destruct (P c (or_introl eq_refl)) as (t & i1 & pd1 & st & -> & Hi & Hp & G1 & Gt & Cn).
  inversion ND as [|x l Hnin ND']; subst. simpl in Hnin.
  pose proof (resolve_one_self s t i1 i pd1 pd st Gt Hi Hp) as Hres. cbv zeta in Hres.
  destruct Hres as [Hself Hoth].
  remember (resolve_one s (t, i1, i, pd1, pd)) as s' eqn:Es' in *.
  assert (SL : slots s' = slots s) by (subst s'; apply slots_resolve_one).
  assert (OT : forall t', t' <> t -> get t' (table s') = get t' (table s) /\
                                     forall p, copy s' p t' = copy s p t').
  { intros t' Hne. subst s'. apply (resolve_one_other s (t, i1, i, pd1, pd) t'). exact Hne. }
  clear Es'.
  (* the old copy exists, on pd1 *)
  assert (C1 : copy s pd1 t <> None).
  { destruct (A t i1 st Gt) as (p & Gp & Cp). rewrite G1 in Gp. inversion Gp; subst. exact Cp. }
  (* any attached disk other than pd1, pd has no copy of t *)
  assert (NoOther : forall d p, get d (slots s) = Some p -> p <> pd1 -> p <> pd -> copy s p t = None).
  { intros d p Gd H1 H2. destruct (copy s p t) eqn:C; [|reflexivity]. exfalso.
    assert (Cn' : copy s p t <> None) by congruence.
    destruct (B d p t Gd Cn') as [[st' Hs]|[Hpd _]]; [|contradiction].
    rewrite Gt in Hs. inversion Hs; subst d. rewrite G1 in Gd. inversion Gd. congruence. }
  unfold wf_pending. rewrite SL. split; [exact I|]. split; [exact Gi|]. split; [|split; [|split; [|exact ND']]].
  - (* table entries valid *)
    intros t' d st' G'. destruct (N.eq_dec t' t) as [->|Hne].
    + destruct (verdict s t pd1 pd); destruct Hself as (Ht & Ca & Cb).
      * rewrite Ht in G'. inversion G'; subst. exists pd1. split; [exact G1|]. rewrite Cb. exact C1.
      * rewrite Ht in G'. inversion G'; subst. exists pd. split; [exact Gi|]. rewrite Cb. exact Cn.
      * rewrite Ht in G'. discriminate.
    + destruct (OT t' Hne) as [Tt Ct]. rewrite Tt in G'.
      destruct (A t' d st' G') as (p & Gp & Cp). exists p. split; [exact Gp|]. rewrite Ct. exact Cp.
  - (* files on attached disks *)
    intros d p t' Gd C'. destruct (N.eq_dec t' t) as [->|Hne].
    + left.
      destruct (N.eq_dec p pd1) as [->|H1]; [|destruct (N.eq_dec p pd) as [->|H2]].
      * assert (d = i1) by (eapply I; eauto). subst d.
        destruct (verdict s t pd1 pd); destruct Hself as (Ht & Ca & Cb); try congruence. eauto.
      * assert (d = i) by (eapply I; eauto). subst d.
        destruct (verdict s t pd1 pd); destruct Hself as (Ht & Ca & Cb); try congruence. eauto.
      * rewrite (Hoth p H1 H2) in C'. rewrite (NoOther d p Gd H1 H2) in C'. congruence.
    + destruct (OT t' Hne) as [Tt Ct]. rewrite Ct in C'. rewrite Tt.
      destruct (B d p t' Gd C') as [?|[-> Hin]]; [now left|]. right. split; [reflexivity|].
      simpl in Hin. destruct Hin as [Heq|Hin]; [congruence|exact Hin].
  - (* pending conflicts still well described *)
    intros c Hc. destruct (P c (or_intror Hc)) as (t' & i1' & pd1' & st' & -> & Hi' & Hp' & G1' & Gt' & Cn').
    assert (Hne : t' <> t).
    { intros ->. apply Hnin. apply in_map_iff. exists (t, i1', i, pd1', pd). auto. }
    destruct (OT t' Hne) as [Tt Ct].
    exists t', i1', pd1', st'. rewrite Tt, Ct. repeat split; auto.
Qed.

Lemma wf_pending_fold : forall cs s i pd,
    wf_pending s i pd cs -> wf_pending (fold_left resolve_one cs s) i pd [].
Proof.
  induction cs as [|c rest IH]; intros s i pd W; simpl; [exact W|].
  apply IH. now apply wf_pending_step.
Qed.

Lemma wf_pending_nil : forall s i pd, wf_pending s i pd [] -> wf s.
Proof.
  intros s i pd (I & Gi & A & B & _ & _). repeat split; auto.
  intros d p t Gd C. destruct (B d p t Gd C) as [?|[_ []]]. assumption.
Qed.

Lemma first_free_spec : forall fuel i sl j, first_free fuel i sl = Some j -> get j sl = None.
Proof.
  induction fuel as [|f IH]; intros i sl j; simpl; [discriminate|].
  destruct (get i sl) eqn:G; [apply IH|]. intros H; inversion H; subst. exact G.
Qed.

Lemma In_tids_of : forall d t, In t (tids_of d) <-> get t d <> None.
Proof.
  intros d t. unfold tids_of. rewrite nodup_In. split.
  - intros H. apply In_keys_get in H. destruct H as [a Ha]. congruence.
  - intros H. destruct (get t d) eqn:G; [|congruence]. eapply get_In_keys; eauto.
Qed.

Lemma dangling_false : forall s tids t i1 st,
    dangling s tids = false -> In t tids -> get t (table s) = Some (i1, st) -> exists pd1, disk_of s i1 = Some pd1.
Proof.
  intros s tids t i1 st H Hin G. unfold dangling in H.
  destruct (disk_of s i1) as [p|] eqn:D; [eauto|]. exfalso.
  assert (existsb (fun t0 => match get t0 (table s) with
                             | Some (i2, _) => match disk_of s i2 with Some _ => false | None => true end
                             | None => false end) tids = true).
  { apply existsb_exists. exists t. split; [exact Hin|]. now rewrite G, D. }
  congruence.
Qed.

(* the state between the two passes of AddDisk satisfies the relaxed invariant *)
Lemma wf_pending_start : forall s pd i,
    wf s -> slot_of s pd = None -> get i (slots s) = None ->
    let tids := tids_of (files_of s pd) in
    dangling s tids = false ->
    wf_pending (mkstore (disks s) (noalloc s) (put i pd (slots s)) (new_entries s i tids) (epoch s) (mgr s))
               i pd (conflicts_of s i pd tids).
Proof.
  intros s pd i (I & A & B) SN Fi tids DG.
  set (s1 := mkstore _ _ _ _ _ _).
  assert (CP : forall p t, copy s1 p t = copy s p t) by reflexivity.
  assert (ND : NoDup tids) by apply NoDup_nodup.
  unfold wf_pending. split; [|split; [|split; [|split; [|split]]]].
  - intros a b p Ga Gb. simpl in Ga, Gb. rewrite get_put in Ga, Gb.
    destruct (a =? i) eqn:Ea; destruct (b =? i) eqn:Eb.
    + apply N.eqb_eq in Ea, Eb. congruence.
    + inversion Ga; subst p. exfalso. eapply slot_of_none; eauto.
    + inversion Gb; subst p. exfalso. eapply slot_of_none; eauto.
    + eapply I; eauto.
  - simpl. apply get_put_eq.
  - intros t d st G. simpl in G. rewrite get_new_entries in G.
    destruct (get t (table s)) as [[d' st']|] eqn:G0.
    + inversion G; subst d' st'. destruct (A t d st G0) as (p & Gp & Cp).
      exists p. split; [|rewrite CP; exact Cp]. simpl. rewrite get_put.
      destruct (d =? i) eqn:E; [|exact Gp]. apply N.eqb_eq in E. subst d. congruence.
    + destruct (memN t tids) eqn:M; [|discriminate]. inversion G; subst d st.
      exists pd. split; [simpl; apply get_put_eq|]. rewrite CP.
      apply memN_In in M. now apply In_tids_of in M.
  - intros d p t Gd C. simpl in Gd. rewrite get_put in Gd. rewrite CP in C.
    destruct (d =? i) eqn:E.
    + apply N.eqb_eq in E. subst d. inversion Gd; subst p.
      assert (Hin : In t tids) by now apply In_tids_of.
      simpl. rewrite get_new_entries.
      destruct (get t (table s)) as [[i1 st]|] eqn:G0.
      * right. split; [reflexivity|].
        destruct (dangling_false s tids t i1 st DG Hin G0) as [pd1 D1].
        apply in_map_iff. exists (t, i1, i, pd1, pd). split; [reflexivity|].
        apply In_conflicts_of. exists t, i1, st, pd1. auto.
      * left. apply memN_In in Hin. rewrite Hin. eauto.
    + destruct (B d p t Gd C) as [st Hs]. left. exists st. simpl. rewrite get_new_entries, Hs. reflexivity.
  - intros c Hc. apply In_conflicts_of in Hc. destruct Hc as (t & i1 & st & pd1 & -> & Ht & G0 & D1).
    exists t, i1, pd1, st. unfold disk_of in D1.
    assert (i1 <> i) by congruence.
    repeat split; auto.
    + intros ->. eapply slot_of_none; eauto.
    + simpl. rewrite get_put. apply N.eqb_neq in H. now rewrite H.
    + simpl. rewrite get_new_entries, G0. reflexivity.
    + rewrite CP. now apply In_tids_of in Ht.
  - now apply NoDup_conflicts_of.
Qed.

Lemma wf_add_disk : forall s pd, wf s -> wf (fst (add_disk s pd)).
Proof.
  intros s pd W. unfold add_disk.
  destruct (slot_of s pd) eqn:SN; [exact W|].
  destruct (free_slot s) as [i|] eqn:F; [|exact W].
  destruct (dangling s (tids_of (files_of s pd))) eqn:DG; [exact W|]. simpl.
  apply first_free_spec in F.
  eapply wf_pending_nil. apply wf_pending_fold. now apply wf_pending_start.
Qed.

(* ---------- every operation preserves well-formedness; so does every sequence ---------- *)
Theorem wf_step : forall s o, wf s -> wf (fst (step s o)).
Proof.
  intros s o W. destruct o; simpl.
  - pose proof (wf_create s t data off orc W). now destruct (create s t data off orc).
  - pose proof (wf_do_write s t v data off W). now destruct (do_write s t v data off).
  - now destruct (read s t v len off).
  - now destruct (stat s t v) as [[? ?] ?].
  - pose proof (wf_set_version s t v cond W). now destruct (set_version s t v cond) as [? [? ?]].
  - pose proof (wf_pull_all srcs s t v orc E_OK W). unfold pull_tract.
    now destruct (pull_all s t srcs v orc E_OK).
  - now apply wf_gc_tracts.
  - exact W.
  - apply wf_restart.
  - pose proof (wf_add_disk s pd W). now destruct (add_disk s pd).
  - pose proof (wf_remove_disk s pd W). now destruct (remove_disk s pd).
  - pose proof (wf_set_alloc s pd stop W). now destruct (set_alloc s pd stop).
Qed.

Theorem wf_run : forall ops s, wf s -> wf (run s ops).
Proof.
  induction ops as [|o ops IH]; intros s W; simpl; [exact W|]. apply IH. now apply wf_step.
Qed.

(* ---------- what AddDisk does to one tract ---------- *)
Lemma cur_view : forall s t,
    cur s t = match get t (table s) with
              | Some (d, _) => match get d (slots s) with Some p => copy s p t | None => None end
              | None => None
              end.
Proof.
  intros. unfold cur, open_existing, lookup, disk_of, copy.
  destruct (get t (table s)) as [[d st]|]; [|reflexivity].
  destruct (get d (slots s)) as [p|]; [|reflexivity].
  now destruct (get t (files_of s p)).
Qed.

Lemma fold_resolve_other : forall l s t,
    ~ In t (map ctract l) ->
    get t (table (fold_left resolve_one l s)) = get t (table s) /\
    (forall p, copy (fold_left resolve_one l s) p t = copy s p t).
Proof.
  induction l as [|c l IH]; intros s t Hnin; simpl; [auto|].
  simpl in Hnin. assert (H1 : t <> ctract c) by (intros ->; apply Hnin; now left).
  assert (H2 : ~ In t (map ctract l)) by (intros H; apply Hnin; now right).
  destruct (IH (resolve_one s c) t H2) as [Ta Ca].
  destruct (resolve_one_other s c t H1) as [Tb Cb].
  split; [now rewrite Ta, Tb|]. intros p. now rewrite Ca, Cb.
Qed.

Lemma slots_fold_resolve : forall l s, slots (fold_left resolve_one l s) = slots s.
Proof.
  induction l as [|c l IH]; intros s; simpl; [reflexivity|]. now rewrite IH, slots_resolve_one.
Qed.

Lemma disks_fold_nil : forall s, fold_left resolve_one [] s = s.
Proof. reflexivity. Qed.

(* the successful AddDisk, opened up *)
Lemma add_disk_ok : forall s pd s',
    add_disk s pd = (s', E_OK) ->
    exists i, slot_of s pd = None /\ get i (slots s) = None /\
              dangling s (tids_of (files_of s pd)) = false /\
              s' = fold_left resolve_one (conflicts_of s i pd (tids_of (files_of s pd)))
                     (mkstore (disks s) (noalloc s) (put i pd (slots s))
                              (new_entries s i (tids_of (files_of s pd))) (epoch s) (mgr s)).
Proof.
  unfold add_disk. intros s pd s'.
  destruct (slot_of s pd) eqn:SN; [intros H; inversion H; exfalso; revert H2; ecodes; discriminate|].
  destruct (free_slot s) as [i|] eqn:F; [|intros H; inversion H; exfalso; revert H2; ecodes; discriminate].
  destruct (dangling s _) eqn:DG; [intros H; inversion H; exfalso; revert H2; ecodes; discriminate|].
  intros H; inversion H. exists i. apply first_free_spec in F. auto.
Qed.

(* AddDisk finds a second copy of a served tract: the strictly older copy is deleted, the newer one is
   served unchanged; equal versions (errors count as 0): both deleted, the tract is no longer served *)
Theorem add_disk_conflict : forall s pd s' t pd1 f1 f2,
    wf s -> add_disk s pd = (s', E_OK) ->
    open_existing s t = Op_ok pd1 f1 -> copy s pd t = Some f2 ->
    pd1 <> pd /\
    match verdict s t pd1 pd with
    | KeepOld => cur s' t = Some f1 /\ copy s' pd t = None /\ copy s' pd1 t = Some f1
    | KeepNew => cur s' t = Some f2 /\ copy s' pd1 t = None /\ copy s' pd t = Some f2
    | DropBoth => lookup s' t = None /\ cur s' t = None /\ copy s' pd1 t = None /\ copy s' pd t = None
    end.
Proof.
  intros s pd s' t pd1 f1 f2 W HA HO HC.
  destruct (add_disk_ok s pd s' HA) as (i & SN & Fi & DG & ->).
  apply open_existing_ok in HO. destruct HO as (i1 & st & L & D & C1).
  unfold lookup in L. unfold disk_of in D.
  assert (Hp : pd1 <> pd) by (intros ->; eapply slot_of_none; eauto).
  split; [exact Hp|].
  assert (Hi : i1 <> i) by congruence.
  set (tids := tids_of (files_of s pd)) in *.
  set (s1 := mkstore (disks s) (noalloc s) (put i pd (slots s)) (new_entries s i tids) (epoch s) (mgr s)).
  assert (Ht : In t tids) by (apply In_tids_of; unfold copy in HC; congruence).
  set (c0 := ((t, i1, i, pd1, pd) : conflict)).
  assert (Hc0 : In c0 (conflicts_of s i pd tids)).
  { apply In_conflicts_of. exists t, i1, st, pd1. auto. }
  assert (ND : NoDup (map ctract (conflicts_of s i pd tids))) by (apply NoDup_conflicts_of, NoDup_nodup).
  destruct (in_split _ _ Hc0) as (l1 & l2 & Hsplit). rewrite Hsplit in *.
  rewrite map_app in ND. simpl in ND.
  assert (N1 : ~ In t (map ctract l1)).
  { intros H. apply NoDup_remove_2 in ND. apply ND. apply in_or_app. now left. }
  assert (N2 : ~ In t (map ctract l2)).
  { intros H. apply NoDup_remove_2 in ND. apply ND. apply in_or_app. now right. }
  rewrite fold_left_app. cbn [fold_left].
  set (sm := fold_left resolve_one l1 s1).
  destruct (fold_resolve_other l1 s1 t N1) as [Tm Cm]. fold sm in Tm, Cm.
  assert (Tm' : get t (table sm) = Some (i1, st)).
  { rewrite Tm. unfold s1. simpl. rewrite get_new_entries, L. reflexivity. }
  assert (Cm' : forall p, copy sm p t = copy s p t) by (intros; rewrite Cm; reflexivity).
  assert (V : verdict sm t pd1 pd = verdict s t pd1 pd).
  { unfold verdict, ver0. fold (copy sm pd1 t) (copy sm pd t) (copy s pd1 t) (copy s pd t).
    now rewrite !Cm'. }
  pose proof (resolve_one_self sm t i1 i pd1 pd st Tm' Hi Hp) as Hres. cbv zeta in Hres.
  destruct Hres as [Hself _]. fold c0 in Hself. rewrite V in Hself.
  set (sr := resolve_one sm c0) in *.
  destruct (fold_resolve_other l2 sr t N2) as [Tf Cf].
  assert (SL : slots (fold_left resolve_one l2 sr) = put i pd (slots s)).
  { rewrite slots_fold_resolve. unfold sr. rewrite slots_resolve_one. unfold sm.
    rewrite slots_fold_resolve. reflexivity. }
  change (fold_left resolve_one l2 (resolve_one (fold_left resolve_one l1 s1) c0))
    with (fold_left resolve_one l2 sr).
  destruct (verdict s t pd1 pd); destruct Hself as (Ha & Hb & Hc).
  - rewrite cur_view, Tf, Ha, SL, get_put_ne by exact Hi. rewrite D.
    rewrite !Cf, Hb, Hc, Cm', C1. auto.
  - rewrite cur_view, Tf, Ha, SL, get_put_eq.
    rewrite !Cf, Hb, Hc, Cm', HC. auto.
  - unfold lookup. rewrite cur_view, Tf, Ha, !Cf, Hb, Hc. auto.
Qed.

(* AddDisk of a disk none of whose tracts is in the table: nothing is deleted, its copies are served *)
Lemma conflicts_of_nil : forall s i pd tids,
    (forall t, In t tids -> get t (table s) = None) -> conflicts_of s i pd tids = [].
Proof.
  intros s i pd tids H. unfold conflicts_of.
  induction tids as [|t rest IH]; simpl; [reflexivity|].
  rewrite (H t (or_introl eq_refl)). simpl. apply IH. intros. apply H. now right.
Qed.

Theorem add_disk_no_conflict : forall s pd s',
    wf s -> add_disk s pd = (s', E_OK) ->
    (forall t, copy s pd t <> None -> lookup s t = None) ->
    disks s' = disks s /\
    forall t, cur s' t = match copy s pd t with Some f => Some f | None => cur s t end.
Proof.
  intros s pd s' W HA HN.
  destruct (add_disk_ok s pd s' HA) as (i & SN & Fi & DG & ->).
  rewrite conflicts_of_nil by (intros t Ht; apply In_tids_of in Ht; now apply HN).
  simpl. split; [reflexivity|]. intros t. rewrite cur_view. simpl. rewrite get_new_entries.
  change (copy (mkstore (disks s) (noalloc s) (put i pd (slots s))
                        (new_entries s i (tids_of (files_of s pd))) (epoch s) (mgr s)))
    with (copy s).
  destruct (copy s pd t) as [f|] eqn:C.
  - assert (L : get t (table s) = None) by (apply HN; congruence). rewrite L.
    assert (M : memN t (tids_of (files_of s pd)) = true).
    { apply memN_In, In_tids_of. unfold copy in C. congruence. }
    rewrite M, get_put_eq. exact C.
  - rewrite cur_view. destruct (get t (table s)) as [[d st]|] eqn:G.
    + destruct W as (_ & A & _). destruct (A t d st G) as (p & Gp & Cp).
      assert (d <> i) by congruence. rewrite get_put_ne by assumption. reflexivity.
    + assert (M : memN t (tids_of (files_of s pd)) = false).
      { destruct (memN t _) eqn:M; [|reflexivity]. apply memN_In, In_tids_of in M. unfold copy in C. congruence. }
      now rewrite M.
Qed.

(* RemoveDisk followed by AddDisk of the same disk: every file and the whole served view are as before *)
Theorem reattach_preserves : forall s pd s2,
    wf s -> slot_of s pd <> None ->
    add_disk (fst (remove_disk s pd)) pd = (s2, E_OK) ->
    disks s2 = disks s /\ forall t, cur s2 t = cur s t.
Proof.
  intros s pd s2 W HS HA. pose proof W as (I & A & B).
  pose proof (wf_remove_disk s pd W) as W1.
  unfold remove_disk in *. destruct (slot_of s pd) as [i|] eqn:S; [|congruence]. simpl in *.
  apply slot_of_some in S.
  set (s1 := mkstore (disks s) (noalloc s) (del i (slots s))
                     (filter (fun e => negb (on_slot s i (fst e))) (table s)) (epoch s) (mgr s)) in *.
  assert (CP : forall p t, copy s1 p t = copy s p t) by reflexivity.
  assert (HN : forall t, copy s1 pd t <> None -> lookup s1 t = None).
  { intros t C. rewrite CP in C. destruct (B i pd t S C) as [st Hs].
    unfold lookup, s1. simpl. rewrite get_table_remove_disk, Hs, N.eqb_refl. reflexivity. }
  destruct (add_disk_no_conflict s1 pd s2 W1 HA HN) as [D V].
  split; [exact D|]. intros t. rewrite V. change (copy s1 pd t) with (copy s pd t).
  destruct (copy s pd t) as [f|] eqn:C.
  - assert (Cn : copy s pd t <> None) by congruence.
    destruct (B i pd t S Cn) as [st Hs]. rewrite cur_view, Hs, S. now symmetry.
  - rewrite !cur_view. unfold s1 at 1. simpl. rewrite get_table_remove_disk.
    destruct (get t (table s)) as [[d st]|] eqn:G; [|reflexivity].
    destruct (d =? i) eqn:E.
    + apply N.eqb_eq in E. subst d. rewrite S. now rewrite C.
    + unfold s1. simpl. rewrite get_del, E. reflexivity.
Qed.
