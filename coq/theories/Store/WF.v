(* Store/WF.v — the well-formedness invariant of the sequential Store model and its preservation by
   every operation (so it holds after EVERY operation sequence from the initial state).
     wf s :  no physical disk is attached twice;
             every table entry points at an attached disk that really holds the file;
             every file on an attached disk is in the table, at that disk's slot
             (hence two attached disks never both hold a tract once AddDisk has returned). *)
From Coq Require Import List NArith ZArith Bool Lia.
From BLB Require Import Gen.Consts Store.Bytes Store.MapProofs Store.Model Store.Proofs.
Import ListNotations.
Open Scope N_scope.

Definition slots_inj (sl : amap N) : Prop :=
  forall i j pd, get i sl = Some pd -> get j sl = Some pd -> i = j.

Definition wf (s : store) : Prop :=
  slots_inj (slots s) /\
  (forall t i st, get t (table s) = Some (i, st) ->
                  exists pd, get i (slots s) = Some pd /\ copy s pd t <> None) /\
  (forall i pd t, get i (slots s) = Some pd -> copy s pd t <> None ->
                  exists st, get t (table s) = Some (i, st)).

Lemma wf_init : forall m, wf (init m).
Proof. intros m. repeat split; simpl; intros; discriminate. Qed.

(* ---------- small building blocks ---------- *)
Lemma wf_bump_stamp : forall s t, wf s -> wf (bump_stamp s t).
Proof.
  intros s t (I & A & B). unfold bump_stamp.
  destruct (lookup s t) as [[slot st]|] eqn:L; [|now repeat split].
  repeat split; simpl; auto.
  - intros t' i st' G. rewrite get_put in G. destruct (t' =? t) eqn:E.
    + apply N.eqb_eq in E. subst t'. inversion G; subst. eapply A; eauto.
    + eapply A; eauto.
  - intros i pd t' G C. destruct (B i pd t' G C) as [st' Hs].
    rewrite get_put. destruct (t' =? t) eqn:E; [|eauto].
    apply N.eqb_eq in E. subst t'. unfold lookup in L. rewrite L in Hs. inversion Hs; subst. eauto.
Qed.

Lemma wf_put_file_existing : forall s pd t f, copy s pd t <> None -> wf s -> wf (put_file s pd t f).
Proof.
  intros s pd t f Hc (I & A & B). repeat split; simpl; auto.
  - intros t' i st G. destruct (A t' i st G) as (pd' & G' & C). exists pd'. split; [exact G'|].
    rewrite copy_put_file. destruct ((pd' =? pd) && (t' =? t)); [discriminate|exact C].
  - intros i pd' t' G C. apply (B i pd' t' G).
    rewrite copy_put_file in C. destruct ((pd' =? pd) && (t' =? t)) eqn:E; [|exact C].
    apply andb_true_iff in E. destruct E as [E1 E2]. apply N.eqb_eq in E1, E2. now subst.
Qed.

Lemma wf_del_file_unserved : forall s pd t, lookup s t = None -> wf s -> wf (del_file s pd t).
Proof.
  intros s pd t L (I & A & B). repeat split; simpl; auto.
  - intros t' i st G. destruct (A t' i st G) as (pd' & G' & C). exists pd'. split; [exact G'|].
    rewrite copy_del_file. destruct ((pd' =? pd) && (t' =? t)) eqn:E; [|exact C].
    apply andb_true_iff in E. destruct E as [_ E2]. apply N.eqb_eq in E2. subst. unfold lookup in L. congruence.
  - intros i pd' t' G C. apply (B i pd' t' G).
    rewrite copy_del_file in C. destruct ((pd' =? pd) && (t' =? t)); [congruence|exact C].
Qed.

Lemma wf_remove_tract : forall s t, wf s -> wf (fst (remove_tract s t)).
Proof.
  intros s t W. pose proof W as (I & A & B). unfold remove_tract.
  destruct (lookup s t) as [[slot st]|] eqn:L; [|exact W].
  destruct (disk_of s slot) as [pd|] eqn:D; [|exact W].
  destruct (get t (files_of s pd)) as [f|] eqn:G; [|exact W].
  simpl. repeat split; simpl; auto.
  - intros t' i st' G'. rewrite get_del in G'. destruct (t' =? t) eqn:E; [discriminate|].
    destruct (A t' i st' G') as (pd' & G'' & C). exists pd'. split; [exact G''|].
    unfold copy. rewrite files_of_set_table. fold (copy (del_file s pd t) pd' t').
    rewrite copy_del_file, E, andb_false_r. exact C.
  - intros i pd' t' G' C. unfold copy in C. rewrite files_of_set_table in C.
    fold (copy (del_file s pd t) pd' t') in C. rewrite copy_del_file in C.
    destruct ((pd' =? pd) && (t' =? t)) eqn:E; [congruence|].
    destruct (B i pd' t' G' C) as [st' Hs]. exists st'.
    rewrite get_del. destruct (t' =? t) eqn:E2; [|exact Hs].
    apply N.eqb_eq in E2. subst t'. rewrite andb_true_r in E.
    unfold lookup in L. rewrite L in Hs. inversion Hs; subst i.
    unfold disk_of in D. rewrite D in G'. inversion G'; subst pd'. now rewrite N.eqb_refl in E.
Qed.

Lemma pick_ok : forall s orc slot pd, pick s orc = inl (slot, pd) -> get slot (slots s) = Some pd.
Proof.
  unfold pick. intros s orc slot pd.
  destruct (existsb _ _); [|discriminate].
  destruct (disk_of s orc) as [pd'|] eqn:D; [|discriminate].
  destruct (can_alloc s pd'); [|discriminate]. intros H; inversion H; subst. exact D.
Qed.

Lemma wf_do_create : forall s t ver d off orc, wf s -> wf (fst (do_create s t ver d off orc)).
Proof.
  intros s t ver d off orc W. pose proof W as (I & A & B). unfold do_create.
  destruct (lookup s t) as [[slot0 st0]|] eqn:L; [exact W|].
  destruct (pick s orc) as [[slot pd]|e] eqn:P; [|exact W].
  apply pick_ok in P.
  destruct (get t (files_of s pd)) as [f|] eqn:G; simpl.
  - now apply wf_del_file_unserved.
  - repeat split; simpl; auto.
    + intros t' i st G'. rewrite get_put in G'. destruct (t' =? t) eqn:E.
      * apply N.eqb_eq in E. subst t'. inversion G'; subst. exists pd. split; [exact P|].
        unfold copy. rewrite files_of_set_table. fold (copy (put_file s pd t (mkfile (Some ver) (rle_write [] d off))) pd t).
        rewrite copy_put_file, !N.eqb_refl. discriminate.
      * destruct (A t' i st G') as (pd' & G'' & C). exists pd'. split; [exact G''|].
        unfold copy. rewrite files_of_set_table.
        fold (copy (put_file s pd t (mkfile (Some ver) (rle_write [] d off))) pd' t').
        rewrite copy_put_file, E, andb_false_r. exact C.
    + intros i pd' t' G' C. unfold copy in C. rewrite files_of_set_table in C.
      fold (copy (put_file s pd t (mkfile (Some ver) (rle_write [] d off))) pd' t') in C.
      rewrite copy_put_file in C. rewrite get_put.
      destruct (t' =? t) eqn:E2.
      * apply N.eqb_eq in E2. subst t'. rewrite andb_true_r in C.
        destruct (pd' =? pd) eqn:E1.
        -- apply N.eqb_eq in E1. subst pd'. rewrite (I i slot pd G' P). eauto.
        -- destruct (B i pd' t G' C) as [st' Hs]. unfold lookup in L. congruence.
      * rewrite andb_false_r in C. eapply B; eauto.
Qed.

Lemma wf_do_write : forall s t v d off, wf s -> wf (fst (do_write s t v d off)).
Proof.
  intros s t v d off W. unfold do_write.
  pose proof (wf_bump_stamp s t W) as W1.
  destruct (open_version (bump_stamp s t) t) as [pd f c|e] eqn:O; [|exact W1].
  destruct (v =? c)%Z; [|exact W1]. simpl.
  apply open_version_ok in O. destruct O as (Oe & _).
  apply open_existing_ok in Oe. destruct Oe as (slot & st & L & D & C).
  apply wf_put_file_existing; [congruence|exact W1].
Qed.

Lemma wf_create : forall s t d off orc, wf s -> wf (fst (create s t d off orc)).
Proof.
  intros s t d off orc W. unfold create.
  pose proof (wf_do_create s t (initial_version t) d off orc W) as W1.
  destruct (do_create s t (initial_version t) d off orc) as [s1 e]. simpl in W1.
  destruct (e =? E_AlreadyExists)%Z; [|exact W1]. now apply wf_do_write.
Qed.

Lemma wf_set_version : forall s t v c, wf s -> wf (fst (set_version s t v c)).
Proof.
  intros s t v c W. unfold set_version.
  destruct (v <=? 1)%Z; [exact W|].
  match goal with |- context [if ?b then (s, (E_StampChanged, _)) else _] => destruct b end; [exact W|].
  destruct (open_version s t) as [pd f cv|e] eqn:O; [|exact W].
  destruct (v <=? cv)%Z; [exact W|]. destruct (cv + 1 =? v)%Z; [|exact W]. simpl.
  apply open_version_ok in O. destruct O as (Oe & _).
  apply open_existing_ok in Oe. destruct Oe as (slot & st & L & D & C).
  apply wf_put_file_existing; [congruence|exact W].
Qed.

Lemma pull_pre_cases : forall s t v,
    pull_pre s t v = (s, None) \/ (exists e, pull_pre s t v = (s, Some e)) \/
    pull_pre s t v = (fst (remove_tract s t),
                      if (snd (remove_tract s t) =? E_OK)%Z then None else Some (snd (remove_tract s t))).
Proof.
  intros. unfold pull_pre. destruct (remove_tract s t) as [sr er]. simpl.
  destruct (lookup s t) as [[? ?]|]; [|auto].
  destruct (open_existing s t) as [pd f|e].
  - destruct (f_ver f) as [cv|]; [destruct (v <? cv)%Z|]; eauto.
  - destruct (e =? E_PANIC)%Z; eauto.
Qed.

Lemma wf_pull_pre : forall s t v, wf s -> wf (fst (pull_pre s t v)).
Proof.
  intros s t v W. destruct (pull_pre_cases s t v) as [->|[[e ->]| ->]]; auto.
  simpl. now apply wf_remove_tract.
Qed.

Lemma wf_pull_once : forall s t r v orc, wf s -> wf (fst (pull_once s t r v orc)).
Proof.
  intros s t r v orc W. unfold pull_once.
  pose proof (wf_pull_pre s t v W) as W1.
  destruct (pull_pre s t v) as [s1 [e|]]; simpl in W1; [exact W1|].
  destruct r as [re data].
  destruct (negb (re =? E_OK)%Z && negb (re =? E_EOF)%Z); [exact W1|].
  pose proof (wf_do_create s1 t v data 0 orc W1) as W2.
  destruct (do_create s1 t v data 0 orc) as [s2 ce]. simpl in W2.
  destruct (ce =? E_OK)%Z; [exact W2|]. now apply wf_remove_tract.
Qed.

Lemma wf_pull_all : forall srcs s t v orc last, wf s -> wf (fst (pull_all s t srcs v orc last)).
Proof.
  induction srcs as [|r rest IH]; intros s t v orc last W; simpl; [exact W|].
  pose proof (wf_pull_once s t r v orc W) as W1.
  destruct (pull_once s t r v orc) as [s' e]. simpl in W1.
  destruct (e =? E_OK)%Z; [exact W1|]. now apply IH.
Qed.

Lemma wf_maybe_gc : forall s tv, wf s -> wf (maybe_gc s tv).
Proof.
  intros s tv W. unfold maybe_gc. destruct (open_version s (fst tv)); [|exact W].
  destruct (snd tv <? cur)%Z; [exact W|]. now apply wf_remove_tract.
Qed.

Lemma wf_gc_tracts : forall s old gone, wf s -> wf (gc_tracts s old gone).
Proof.
  intros s old gone W. unfold gc_tracts.
  assert (W1 : wf (fold_left maybe_gc old s)).
  { revert s W. induction old as [|x old IH]; intros s W; simpl; [exact W|]. apply IH. now apply wf_maybe_gc. }
  revert W1. generalize (fold_left maybe_gc old s). clear.
  induction gone as [|x gone IH]; intros s W; simpl; [exact W|]. apply IH. now apply wf_remove_tract.
Qed.

Lemma wf_restart : forall s, wf (restart s).
Proof. intros s. repeat split; simpl; intros; discriminate. Qed.

Lemma slot_of_some : forall s pd i, slot_of s pd = Some i -> get i (slots s) = Some pd.
Proof.
  unfold slot_of. intros s pd i H. apply find_some in H. destruct H as [_ H].
  destruct (get i (slots s)) as [p|]; [|discriminate]. apply N.eqb_eq in H. now subst.
Qed.

Lemma slot_of_none : forall s pd i, slot_of s pd = None -> get i (slots s) <> Some pd.
Proof.
  unfold slot_of. intros s pd i H G.
  pose proof (find_none _ _ H i (get_In_keys _ _ _ G)) as F. simpl in F.
  rewrite G, N.eqb_refl in F. discriminate.
Qed.

Lemma get_table_remove_disk : forall s i t,
    get t (filter (fun e => negb (on_slot s i (fst e))) (table s)) =
    match get t (table s) with
    | Some (d, st) => if d =? i then None else Some (d, st)
    | None => None
    end.
Proof.
  intros. rewrite (get_filter_key (fun k => negb (on_slot s i k))). unfold on_slot.
  destruct (get t (table s)) as [[d st]|]; [|reflexivity]. now destruct (d =? i).
Qed.

Lemma wf_remove_disk : forall s pd, wf s -> wf (fst (remove_disk s pd)).
Proof.
  intros s pd W. pose proof W as (I & A & B). unfold remove_disk.
  destruct (slot_of s pd) as [i|] eqn:S; [|exact W]. simpl.
  repeat split; simpl.
  - intros a b p Ga Gb. rewrite get_del in Ga, Gb.
    destruct (a =? i); [discriminate|]. destruct (b =? i); [discriminate|]. eapply I; eauto.
  - intros t d st G. rewrite get_table_remove_disk in G.
    destruct (get t (table s)) as [[d' st']|] eqn:G0; [|discriminate].
    destruct (d' =? i) eqn:E; [discriminate|]. inversion G; subst d' st'.
    destruct (A t d st G0) as (pd' & G' & C). exists pd'. split; [|exact C].
    rewrite get_del. apply N.eqb_neq in E. apply N.eqb_neq in E. now rewrite E.
  - intros a p t Ga C. rewrite get_del in Ga. destruct (a =? i) eqn:E; [discriminate|].
    destruct (B a p t Ga C) as [st Hs]. exists st. rewrite get_table_remove_disk, Hs, E. reflexivity.
Qed.

Lemma wf_set_alloc : forall s pd b, wf s -> wf (fst (set_alloc s pd b)).
Proof. intros s pd b W. unfold set_alloc. destruct (slot_of s pd); exact W. Qed.
