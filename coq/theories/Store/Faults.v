(* Store/Faults.v — a faulted Create / PullTract equals an unfaulted call: nothing new is reachable. *)
From Coq Require Import List NArith ZArith Bool Lia.
From BLB Require Import Gen.Consts Store.Bytes Store.MapProofs Store.Model Store.Proofs Store.WF Store.Conflict
     Store.Mono Store.Steps Store.FaultModel.
Import ListNotations.
Open Scope N_scope.

(* an injectable error: a real failure, and not the code doCreate uses for "already there" *)
Definition fault_code (fe : Z) : Prop := is_fail fe /\ fe <> E_AlreadyExists.

Lemma pull_once_f_none : forall s t r v orc, pull_once_f s t r v orc None = (pull_once s t r v orc, None).
Proof.
  intros s t [re data] v orc. unfold pull_once_f, pull_once, do_create_f.
  destruct (pull_pre s t v) as [s1 [e|]]; [reflexivity|].
  destruct (negb (re =? E_OK)%Z && negb (re =? E_EOF)%Z); [reflexivity|].
  destruct (do_create s1 t v data 0 orc) as [s2 ce]. now destruct (ce =? E_OK)%Z.
Qed.

Lemma pull_all_f_none : forall srcs s t v orc last,
    pull_all_f s t srcs v orc last None = pull_all s t srcs v orc last.
Proof.
  induction srcs as [|r rest IH]; intros; simpl; [reflexivity|].
  rewrite pull_once_f_none. destruct (pull_once s t r v orc) as [s' e].
  destruct (e =? E_OK)%Z; [reflexivity|apply IH].
Qed.

(* the source whose doCreate is hit behaves exactly as if its fetch had answered the error *)
Lemma pull_once_f_some : forall s t re data v orc fe,
    is_fail fe ->
    pull_once_f s t (re, data) v orc (Some fe) = (pull_once s t (re, data) v orc, Some fe) \/
    (ok_reply re /\ pull_once_f s t (re, data) v orc (Some fe) = (pull_once s t (fe, []) v orc, None)).
Proof.
  intros s t re data v orc fe [F1 F2]. unfold pull_once_f, pull_once.
  destruct (pull_pre s t v) as [s1 r] eqn:PP.
  destruct (pull_pre_effect t v s s1 r PP) as [_ HL].
  destruct r as [e|]; [now left|]. specialize (HL eq_refl).
  destruct (negb (re =? E_OK)%Z && negb (re =? E_EOF)%Z) eqn:BAD; [now left|].
  unfold do_create_f. destruct (reaches_open s1 t) eqn:RO.
  - right. split.
    + unfold ok_reply. apply andb_false_iff in BAD. destruct BAD as [X|X]; apply negb_false_iff in X;
        apply Z.eqb_eq in X; auto.
    + assert (X1 : (fe =? E_OK)%Z = false) by now apply Z.eqb_neq.
      assert (X2 : (fe =? E_EOF)%Z = false) by now apply Z.eqb_neq.
      rewrite X1, X2. simpl. rewrite (remove_tract_unserved s1 t HL). reflexivity.
  - left. destruct (do_create s1 t v data 0 orc) as [s2 ce]. now destruct (ce =? E_OK)%Z.
Qed.

Lemma pull_all_f_some : forall srcs s t v orc last fe,
    is_fail fe ->
    exists srcs',
      pull_all_f s t srcs v orc last (Some fe) = pull_all s t srcs' v orc last /\
      length srcs' = length srcs /\
      forall r, In r srcs' -> In r srcs \/ r = (fe, []).
Proof.
  induction srcs as [|[re data] rest IH]; intros s t v orc last fe F; simpl.
  - exists []. auto.
  - destruct (pull_once_f_some s t re data v orc fe F) as [E|[_ E]]; rewrite E.
    + destruct (pull_once s t (re, data) v orc) as [s' e] eqn:PO.
      destruct (e =? E_OK)%Z eqn:X.
      * exists ((re, data) :: rest). simpl. rewrite PO, X. repeat split; auto.
      * destruct (IH s' t v orc e fe F) as (rest' & E' & L' & I').
        exists ((re, data) :: rest'). simpl. rewrite PO, X. split; [exact E'|]. split; [now rewrite L'|].
        intros r [<-|Hr]; [left; now left|]. destruct (I' r Hr); auto.
    + destruct (pull_once s t (fe, []) v orc) as [s' e] eqn:PO.
      exists ((fe, []) :: rest). simpl. rewrite PO.
      destruct (e =? E_OK)%Z; [|rewrite pull_all_f_none]; repeat split; auto;
        intros r [<-|Hr]; auto.
Qed.

(* a faulted PullTract is a PullTract in which (at most) one source that answered data answers the error *)
Theorem pull_tract_f_is_pull : forall s t srcs v orc fe,
    is_fail fe ->
    exists srcs', pull_tract_f s t srcs v orc (Some fe) = pull_tract s t srcs' v orc /\
                  length srcs' = length srcs /\
                  forall r, In r srcs' -> In r srcs \/ r = (fe, []).
Proof. intros. unfold pull_tract_f, pull_tract. now apply pull_all_f_some. Qed.

(* a faulted Create either never reaches the new file (and is the ordinary Create) or changes nothing *)
Theorem create_f_cases : forall s t d off orc fe,
    fault_code fe ->
    (reaches_open s t = false /\ create_f s t d off orc (Some fe) = create s t d off orc) \/
    (reaches_open s t = true /\ create_f s t d off orc (Some fe) = (s, fe)).
Proof.
  intros s t d off orc fe [_ NA]. unfold create_f, create, do_create_f.
  destruct (reaches_open s t).
  - right. split; [reflexivity|].
    assert (X : (fe =? E_AlreadyExists)%Z = false) by now apply Z.eqb_neq. now rewrite X.
  - left. split; [reflexivity|]. now destruct (do_create s t (initial_version t) d off orc).
Qed.

Definition fop_ok (o : fop) : Prop :=
  match o with
  | Plain _ => True
  | CreateF _ _ _ _ fe => fault_code fe
  | PullTractF _ _ _ _ fe => fault_code fe
  end.

Lemma fstep_is_step : forall s o, fop_ok o -> exists o', fstep s o = fst (step s o').
Proof.
  intros s [o|t d off orc fe|t srcs v orc fe] OK; simpl in *.
  - now exists o.
  - destruct (create_f_cases s t d off orc fe OK) as [[_ E]|[_ E]]; rewrite E.
    + exists (Create t d off orc). simpl. now destruct (create s t d off orc).
    + exists (Check []). reflexivity.
  - destruct OK as [F _]. destruct (pull_tract_f_is_pull s t srcs v orc fe F) as (srcs' & E & _).
    rewrite E. exists (PullTract t srcs' v orc). simpl. now destruct (pull_tract s t srcs' v orc).
Qed.

(* every history with faulted installs reaches a state that a history without faults reaches *)
Theorem faults_add_nothing : forall fops s,
    Forall fop_ok fops -> exists ops, frun s fops = run s ops.
Proof.
  induction fops as [|o r IH]; intros s H; simpl.
  - now exists [].
  - inversion H as [|? ? Ho Hr]; subst.
    destruct (fstep_is_step s o Ho) as [o' E]. rewrite E.
    destruct (IH (fst (step s o')) Hr) as [ops' E']. exists (o' :: ops'). simpl. exact E'.
Qed.
