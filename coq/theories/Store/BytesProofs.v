(* Store/BytesProofs.v — the run-length byte operations of Store/Bytes.v mean what plain byte lists mean.
   [expand r] is the byte list a run list denotes.  Every operation is characterised through [expand]
   for ALL inputs (lengths are N; [expand] is never computed, so huge lengths cost nothing), its length is
   given in N, and canonical form (no empty run, adjacent runs differ) is preserved and is UNIQUE per byte
   string - so comparing the model's run lists with vw.RLE of the real bytes compares the bytes. *)
From Coq Require Import List NArith ZArith Bool Lia ZifyN ZifyNat.
From BLB Require Import Store.Bytes.
Import ListNotations.
Open Scope N_scope.

(* ---------- the plain-list specifications ---------- *)
Definition zeros_l (n : nat) : list N := repeat 0 n.
(* pwrite on a byte list, holes zero-filled *)
Definition plain_write (c b : list N) (off : nat) : list N :=
  let c' := c ++ zeros_l (off - length c) in
  firstn off c' ++ b ++ skipn (off + length b) c'.
(* pread: at most len bytes from off *)
Definition plain_read (c : list N) (off len : nat) : list N := firstn len (skipn off c).

(* ---------- expand ---------- *)
Lemma expand_cons : forall n v r, expand (rle_cons n v r) = repeat v (N.to_nat n) ++ expand r.
Proof.
  intros n v r. unfold rle_cons. destruct (n =? 0) eqn:E.
  - apply N.eqb_eq in E. subst. reflexivity.
  - destruct r as [|[m w] r']; [reflexivity|].
    destruct (v =? w) eqn:V; [|reflexivity].
    apply N.eqb_eq in V. subst w. simpl.
    rewrite N2Nat.inj_add, repeat_app, app_assoc. reflexivity.
Qed.

Lemma expand_app : forall a b, expand (rle_app a b) = expand a ++ expand b.
Proof.
  induction a as [|[n v] a IH]; intros b; simpl; [reflexivity|].
  now rewrite expand_cons, IH, app_assoc.
Qed.

Lemma expand_norm : forall r, expand (rle_norm r) = expand r.
Proof. intros. unfold rle_norm. now rewrite expand_app, app_nil_r. Qed.

Lemma length_expand : forall r, length (expand r) = N.to_nat (rle_len r).
Proof.
  induction r as [|[n v] r IH]; simpl; [reflexivity|].
  rewrite app_length, repeat_length, IH. lia.
Qed.

Lemma expand_zeros : forall k, expand (rle_zeros k) = zeros_l (N.to_nat k).
Proof. intros. unfold rle_zeros. now rewrite expand_cons, app_nil_r. Qed.

Lemma firstn_repeat : forall (v : N) k n, firstn k (repeat v n) = repeat v (Nat.min k n).
Proof.
  intros v. induction k as [|k IH]; intros [|n]; simpl; try reflexivity. now rewrite IH.
Qed.

Lemma skipn_repeat : forall (v : N) k n, skipn k (repeat v n) = repeat v (n - k).
Proof.
  intros v. induction k as [|k IH]; intros [|n]; simpl; try reflexivity. apply IH.
Qed.

Lemma expand_take : forall r k, expand (rle_take k r) = firstn (N.to_nat k) (expand r).
Proof.
  induction r as [|[n v] r IH]; intros k; simpl; [now rewrite firstn_nil|].
  destruct (k =? 0) eqn:E0.
  - apply N.eqb_eq in E0. subst. reflexivity.
  - apply N.eqb_neq in E0. destruct (k <? n) eqn:L.
    + apply N.ltb_lt in L. simpl. rewrite app_nil_r, firstn_app, firstn_repeat, repeat_length.
      replace (N.to_nat k - N.to_nat n)%nat with 0%nat by lia. simpl. rewrite app_nil_r.
      f_equal. lia.
    + apply N.ltb_ge in L. rewrite expand_cons, IH, firstn_app, firstn_repeat, repeat_length.
      replace (Nat.min (N.to_nat k) (N.to_nat n)) with (N.to_nat n) by lia.
      replace (N.to_nat (k - n)) with (N.to_nat k - N.to_nat n)%nat by lia. reflexivity.
Qed.

Lemma expand_drop : forall r k, expand (rle_drop k r) = skipn (N.to_nat k) (expand r).
Proof.
  induction r as [|[n v] r IH]; intros k; simpl; [now rewrite skipn_nil|].
  destruct (k <? n) eqn:L.
  - apply N.ltb_lt in L. rewrite expand_cons, skipn_app, skipn_repeat, repeat_length.
    replace (N.to_nat k - N.to_nat n)%nat with 0%nat by lia. simpl.
    f_equal. f_equal. lia.
  - apply N.ltb_ge in L. rewrite IH, skipn_app, skipn_repeat, repeat_length.
    replace (N.to_nat n - N.to_nat k)%nat with 0%nat by lia. simpl.
    f_equal. lia.
Qed.

(* ---------- the two file operations ---------- *)
Theorem expand_read : forall c off len,
    expand (rle_read c off len) = plain_read (expand c) (N.to_nat off) (N.to_nat len).
Proof. intros. unfold rle_read, plain_read. now rewrite expand_take, expand_drop. Qed.

Theorem expand_write : forall c b off,
    expand (rle_write c b off) = plain_write (expand c) (expand b) (N.to_nat off).
Proof.
  intros c b off. unfold rle_write, plain_write.
  assert (PAD : expand (if rle_len c <? off then rle_app c (rle_zeros (off - rle_len c)) else c) =
                expand c ++ zeros_l (N.to_nat off - length (expand c))).
  { rewrite length_expand. destruct (rle_len c <? off) eqn:L.
    - apply N.ltb_lt in L. rewrite expand_app, expand_zeros. f_equal. f_equal. lia.
    - apply N.ltb_ge in L. replace (N.to_nat off - N.to_nat (rle_len c))%nat with 0%nat by lia.
      simpl. now rewrite app_nil_r. }
  rewrite !expand_app, expand_take, expand_drop, PAD, length_expand.
  rewrite (length_expand b).
  replace (N.to_nat (off + rle_len b)) with (N.to_nat off + N.to_nat (rle_len b))%nat by lia.
  reflexivity.
Qed.

(* ---------- lengths, in N ---------- *)
Lemma rle_len_cons : forall n v r, rle_len (rle_cons n v r) = n + rle_len r.
Proof.
  intros. pose proof (f_equal (@length N) (expand_cons n v r)) as H.
  rewrite app_length, repeat_length, !length_expand in H. simpl in H. lia.
Qed.

Lemma rle_len_app : forall a b, rle_len (rle_app a b) = rle_len a + rle_len b.
Proof.
  intros. pose proof (f_equal (@length N) (expand_app a b)) as H.
  rewrite app_length, !length_expand in H. lia.
Qed.

Lemma rle_len_take : forall r k, rle_len (rle_take k r) = N.min k (rle_len r).
Proof.
  intros. pose proof (f_equal (@length N) (expand_take r k)) as H.
  rewrite firstn_length, !length_expand in H. lia.
Qed.

Lemma rle_len_drop : forall r k, rle_len (rle_drop k r) = rle_len r - k.
Proof.
  intros. pose proof (f_equal (@length N) (expand_drop r k)) as H.
  rewrite skipn_length, !length_expand in H. lia.
Qed.

Lemma rle_len_read : forall c off len, rle_len (rle_read c off len) = N.min len (rle_len c - off).
Proof. intros. unfold rle_read. now rewrite rle_len_take, rle_len_drop. Qed.

(* a write extends the file to max(size, off + |b|): holes and even an empty write beyond EOF pad with zeros *)
Lemma rle_len_write : forall c b off, rle_len (rle_write c b off) = N.max (rle_len c) (off + rle_len b).
Proof.
  intros c b off. unfold rle_write.
  set (c' := if rle_len c <? off then rle_app c (rle_zeros (off - rle_len c)) else c).
  assert (L : rle_len c' = N.max (rle_len c) off).
  { unfold c'. destruct (rle_len c <? off) eqn:E.
    - apply N.ltb_lt in E. unfold rle_zeros. rewrite rle_len_app, rle_len_cons. simpl. lia.
    - apply N.ltb_ge in E. lia. }
  rewrite !rle_len_app, rle_len_take, rle_len_drop, L. lia.
Qed.

(* ---------- canonical form ---------- *)
Fixpoint canon (r : rle) : Prop :=
  match r with
  | [] => True
  | (n, v) :: r' => n <> 0 /\ match r' with (_, w) :: _ => v <> w | [] => True end /\ canon r'
  end.

Lemma canon_cons : forall n v r, canon r -> canon (rle_cons n v r).
Proof.
  intros n v r C. unfold rle_cons. destruct (n =? 0) eqn:E; [exact C|]. apply N.eqb_neq in E.
  destruct r as [|[m w] r']; [simpl; auto|].
  destruct (v =? w) eqn:V.
  - destruct C as (Hm & Hd & Hc). simpl. split; [lia|]. split; assumption.
  - apply N.eqb_neq in V. simpl. simpl in C. tauto.
Qed.

Lemma canon_app : forall a b, canon b -> canon (rle_app a b).
Proof. induction a as [|[n v] a IH]; intros b C; simpl; [exact C|]. apply canon_cons. now apply IH. Qed.

Lemma canon_norm : forall r, canon (rle_norm r).
Proof. intros. unfold rle_norm. now apply canon_app. Qed.

Lemma canon_take : forall r k, canon (rle_take k r).
Proof.
  induction r as [|[n v] r IH]; intros k; simpl; [exact I|].
  destruct (k =? 0) eqn:E0; [exact I|]. apply N.eqb_neq in E0.
  destruct (k <? n); [simpl; auto|]. apply canon_cons, IH.
Qed.

Lemma canon_tail : forall x r, canon (x :: r) -> canon r.
Proof. intros [n v] r (_ & _ & C). exact C. Qed.

Lemma canon_drop : forall r k, canon r -> canon (rle_drop k r).
Proof.
  induction r as [|[n v] r IH]; intros k C; simpl; [exact I|].
  destruct (k <? n); [apply canon_cons|apply IH]; eapply canon_tail; eauto.
Qed.

Lemma canon_zeros : forall k, canon (rle_zeros k).
Proof. intros. unfold rle_zeros. now apply canon_cons. Qed.

Lemma canon_read : forall c off len, canon (rle_read c off len).
Proof. intros. apply canon_take. Qed.

Lemma canon_write : forall c b off, canon c -> canon (rle_write c b off).
Proof.
  intros c b off C. unfold rle_write. apply canon_app, canon_app, canon_drop.
  destruct (rle_len c <? off); [apply canon_app, canon_zeros|exact C].
Qed.

(* a canonical run list is determined by the bytes it denotes *)
Lemma repeat_split_eq : forall (v w : N) n m l1 l2,
    v <> w -> repeat v n ++ w :: l1 = repeat v m ++ w :: l2 -> n = m.
Proof.
  intros v w. induction n as [|n IH]; intros [|m] l1 l2 Hne H; simpl in H; try reflexivity.
  - inversion H. congruence.
  - inversion H. congruence.
  - inversion H. f_equal. eapply IH; eauto.
Qed.

Lemma expand_head : forall n v r, n <> 0 -> exists l, expand ((n, v) :: r) = v :: l.
Proof.
  intros n v r Hn. simpl. destruct (N.to_nat n) eqn:E; [lia|]. simpl. eauto.
Qed.

Theorem canon_unique : forall a b, canon a -> canon b -> expand a = expand b -> a = b.
Proof.
  induction a as [|[n v] a IH]; intros [|[m w] b] Ca Cb E.
  - reflexivity.
  - destruct Cb as (Hm & _). destruct (expand_head m w b Hm) as [l Hl]. rewrite Hl in E. discriminate.
  - destruct Ca as (Hn & _). destruct (expand_head n v a Hn) as [l Hl]. rewrite Hl in E. discriminate.
  - destruct Ca as (Hn & Da & Ca). destruct Cb as (Hm & Db & Cb).
    destruct (expand_head n v a Hn) as [l1 H1]. destruct (expand_head m w b Hm) as [l2 H2].
    assert (v = w) by (rewrite H1, H2 in E; now inversion E). subst w.
    assert (NM : N.to_nat n = N.to_nat m).
    { simpl in E. destruct a as [|[n2 v2] a2]; destruct b as [|[m2 w2] b2].
      - simpl in E. rewrite !app_nil_r in E. apply (f_equal (@length N)) in E. now rewrite !repeat_length in E.
      - exfalso. destruct Cb as (Hm2 & _). destruct (expand_head m2 w2 b2 Hm2) as [l Hl]. rewrite Hl in E.
        simpl in E. rewrite app_nil_r in E.
        assert (In w2 (repeat v (N.to_nat n))) by (rewrite E; apply in_or_app; right; now left).
        apply repeat_spec in H. congruence.
      - exfalso. destruct Ca as (Hn2 & _). destruct (expand_head n2 v2 a2 Hn2) as [l Hl]. rewrite Hl in E.
        simpl in E. rewrite app_nil_r in E.
        assert (In v2 (repeat v (N.to_nat m))) by (rewrite <- E; apply in_or_app; right; now left).
        apply repeat_spec in H. congruence.
      - destruct Ca as (Hn2 & _). destruct Cb as (Hm2 & _).
        destruct (expand_head n2 v2 a2 Hn2) as [l1' Hl1]. destruct (expand_head m2 w2 b2 Hm2) as [l2' Hl2].
        rewrite Hl1, Hl2 in E.
        destruct (Nat.lt_trichotomy (N.to_nat n) (N.to_nat m)) as [Lt|[Eq|Gt]]; [|exact Eq|]; exfalso.
        + replace (N.to_nat m) with (N.to_nat n + S (N.to_nat m - N.to_nat n - 1))%nat in E by lia.
          rewrite repeat_app, <- app_assoc in E. apply app_inv_head in E. simpl in E. inversion E. congruence.
        + replace (N.to_nat n) with (N.to_nat m + S (N.to_nat n - N.to_nat m - 1))%nat in E by lia.
          rewrite repeat_app, <- app_assoc in E. apply app_inv_head in E. simpl in E. inversion E. congruence. }
    assert (n = m) by lia. subst m. f_equal.
    apply IH; auto. simpl in E. now apply app_inv_head in E.
Qed.

(* normalisation is idempotent on canonical lists, and picks THE canonical encoding of the bytes *)
Corollary norm_canon_id : forall r, canon r -> rle_norm r = r.
Proof. intros r C. apply canon_unique; [apply canon_norm|exact C|apply expand_norm]. Qed.
